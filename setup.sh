#!/bin/sh
# MANIFEST.setup_cmd: build the framework from files on disk only (offline).
set -e
cd "$(dirname "$0")"
export GOFLAGS=-mod=mod GOPROXY=off GOSUMDB=off GOTOOLCHAIN=local
mkdir -p .build evidence/replay lean/Faithful/Generated
(cd harness/extract && go build -o ../../.build/extract .)
./.build/extract /repo lean/Faithful/Generated
(cd lean && lake build Faithful fdrv)
echo setup ok

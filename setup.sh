#!/bin/sh
# MANIFEST.setup_cmd: build the framework from files on disk only (offline).
set -e
cd "$(dirname "$0")"
export GOFLAGS=-mod=mod GOPROXY=off GOSUMDB=off GOTOOLCHAIN=local
mkdir -p .build evidence/replay lean/Faithful/Generated
(cd harness/extract && go build -o ../../.build/extract .)
./.build/extract /repo lean/Faithful/Generated
python3 - <<PY
import glob
mods=["import "+f[5:-5].replace("/",".") for f in sorted(glob.glob("lean/Faithful/Lib/*.lean")+glob.glob("lean/Faithful/Properties/*.lean")+glob.glob("lean/Faithful/Ties/*.lean"))]
open("lean/Faithful.lean","w").write("\n".join(mods)+"\n")
PY
# each property builds its own targets again in ./check; a module that fails here must not stop the others
cd lean
for f in Faithful/Properties/C*.lean; do p=$(basename $f .lean); lake build Faithful.Properties.$p fdrv-$p >/dev/null 2>&1 || echo "setup: $p does not build"; done
for f in Faithful/Ties/*.lean; do [ -f "$f" ] || continue; p=$(basename $f .lean); lake build Faithful.Ties.$p >/dev/null 2>&1 || echo "setup: tie module $p does not build"; done
echo setup ok

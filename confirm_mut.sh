#!/bin/bash
# usage: confirm_mut.sh <seed-id> <prop> <diff> <demo_test.go> <pkgdir relative to repo root> <demo -run regex> "<needs>"
# Confirms in a scratch worktree of /repo HEAD: demo passes on the clean tree; with the change: builds, the existing
# suite passes, the demo fails.  On success stores /verif/seeded/<seed-id>/{patch.diff,demo_test.go,meta.json}.
id=$1; prop=$2; diff=$3; demo=$4; pkg=$5; run=$6; needs=$7
export GOFLAGS=-mod=mod GOPROXY=off GOSUMDB=off GOTOOLCHAIN=local
wt=/tmp/confirm-$id
git -C /repo worktree remove --force $wt 2>/dev/null
git -C /repo worktree add -q --detach $wt HEAD || exit 2
mkdir -p /tmp/confirm-mod-$id && cp $wt/go.mod $wt/go.sum /tmp/confirm-mod-$id/
M="-modfile=/tmp/confirm-mod-$id/go.mod"
cd $wt
cp $demo $pkg/zz_seeded_demo_test.go
go test $M -vet=off -count=1 -run "$run" ./$pkg/ > /tmp/confirm-$id.clean.log 2>&1; clean=$?
git apply $diff || { echo "$id: patch does not apply to HEAD"; cd /; git -C /repo worktree remove --force $wt; exit 2; }
go build $M ./... > /tmp/confirm-$id.build.log 2>&1; build=$?
rm $pkg/zz_seeded_demo_test.go
go test $M -vet=off -count=1 ./... > /tmp/confirm-$id.suite.log 2>&1; suite=$?
cp $demo $pkg/zz_seeded_demo_test.go
go test $M -vet=off -count=1 -run "$run" ./$pkg/ > /tmp/confirm-$id.mut.log 2>&1; mut=$?
cd /
git -C /repo worktree remove --force $wt
rm -rf /tmp/confirm-mod-$id
echo "$id: demo-clean=$clean build=$build suite=$suite demo-mutated=$mut (want 0 0 0 nonzero)"
if [ $clean = 0 ] && [ $build = 0 ] && [ $suite = 0 ] && [ $mut != 0 ]; then
  d=/verif/seeded/$id; mkdir -p $d
  cp $diff $d/patch.diff; cp $demo $d/demo_test.go
  python3 - "$id" "$prop" "$pkg" "$run" "$needs" <<'PY'
import json,sys,subprocess
id,prop,pkg,run,needs=sys.argv[1:6]
head=subprocess.check_output(['git','-C','/repo','rev-parse','--short','HEAD'],text=True).strip()
json.dump(dict(id=id, breaks_property=prop, needs_to_manifest=needs, demo=dict(file='demo_test.go', copy_into=pkg, run=f"go test -run '{run}' ./{pkg}/"),
  confirmed=dict(repo_head=head, demo_on_clean_tree='pass', go_build_with_change='ok', existing_suite_with_change='pass (go test -vet=off -count=1 ./...)', demo_with_change='FAIL'),
  detected_by=None), open(f'/verif/seeded/{id}/meta.json','w'), indent=1)
PY
  echo "$id: stored"
else
  echo "$id: NOT confirmed (see /tmp/confirm-$id.*.log)"
fi

"""Per-property configuration of /verif/check."""
PROPS = {
    'C04': dict(
        pkg='./compactindexsized/', test='TestVerifC04',
        timeout=dict(quick=600, thorough=3000),
        rule='op lines (new/meta/ins/seal/lookup/reseal) generated from VERIF_SEED through one splitmix64 state plus a fixed '
             'boundary-directed part (eytzinger shapes, value sizes 0..256, key lengths 0..65536, declared counts, one-bucket adversarial sets, '
             'duplicate key, xxhash64=0 key); an op is non-trivial when the real code answered found/file/same; distinct = distinct op lines',
        assumptions=['xxhash64 / Murmur finaliser in Lean agree with cespare/xxhash (checked by the byte-identical files)',
                     'os.File, bufio, fallocate, sort.Slice behave as documented'],
        trusted=['compactindexsized byte layout model Faithful/Lib/CompactIndex.lean (validated byte-for-byte on every run)'],
    ),
}

#!/bin/sh
# usage: testmut.sh <Cxx> <diff file> [tier] — runs the check against a scratch worktree of /repo HEAD with the seeded
# change applied (VERIF_REPO), so that builders working against /repo concurrently are not disturbed.
p=$1; d=$2; t=${3:-quick}
wt=/tmp/mutwt-$p-$$
git -C /repo worktree add -q --detach $wt HEAD || exit 2
git -C $wt apply "$d" || { echo "patch does not apply"; git -C /repo worktree remove --force $wt; exit 2; }
cd /verif && VERIF_REPO=$wt ./check $p --tier $t 2>&1 | grep -v "^  \[" | tail -8
git -C /repo worktree remove --force $wt

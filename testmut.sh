#!/bin/sh
# usage: testmut.sh <Cxx> <diff file> [tier] — runs the check against a scratch worktree of /repo HEAD with the seeded
# change applied (VERIF_REPO), so that builders working against /repo concurrently are not disturbed.  Evidence and
# replay files of such a run go to a scratch directory (VERIF_EVIDENCE), never to /verif/evidence.
p=$1; d=$2; t=${3:-quick}
wt=/tmp/mutwt-$p-$$
ev=/tmp/mutev-$p-$$
git -C /repo worktree add -q --detach $wt HEAD || exit 2
git -C $wt apply "$d" || { echo "patch does not apply"; git -C /repo worktree remove --force $wt; exit 2; }
cd /verif && VERIF_REPO=$wt VERIF_EVIDENCE=$ev ./check $p --tier $t 2>&1 | grep -v "^  \[" | tail -8
python3 - $ev/$p.json <<'PY'
import json,sys
try:
    e=json.load(open(sys.argv[1]))
except Exception as ex:
    print('no evidence file', ex); sys.exit(0)
import glob,os,re
keys=set()
for f in glob.glob(os.path.dirname(sys.argv[1])+'/replay/*.txt'):
    m=re.search(r'key=(\S+)', open(f,errors='replace').readline())
    if m: keys.add(m.group(1))
print('keys:', ', '.join(sorted(keys)))
PY
git -C /repo worktree remove --force $wt
rm -rf $ev

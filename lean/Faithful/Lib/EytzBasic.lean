namespace Eytz

/-- number of heap indices in the subtree rooted at `k` among 1..n -/
def size (n k : Nat) : Nat :=
  if h : 0 < k ∧ k ≤ n then size n (2*k) + 1 + size n (2*k+1) else 0
termination_by n + 1 - k
decreasing_by all_goals omega

/-- `m` lies in the subtree rooted at `k` (k ≥ 1) -/
def inSubB (k m : Nat) : Bool :=
  if m < k then false else if m = k then true else inSubB k (m/2)
termination_by m
decreasing_by omega

abbrev inSub (k m : Nat) : Prop := inSubB k m = true

theorem inSub_self (k : Nat) : inSub k k := by
  unfold inSub inSubB; simp

theorem inSub_ge {k m : Nat} (h : inSub k m) : k ≤ m := by
  unfold inSub inSubB at h
  by_cases h1 : m < k
  · simp [h1] at h
  · omega

theorem inSub_step {k m : Nat} (hk : k < m) : inSub k m ↔ inSub k (m/2) := by
  unfold inSub
  conv => lhs; unfold inSubB
  have h1 : ¬ m < k := by omega
  have h2 : ¬ m = k := by omega
  simp [h1, h2]

theorem inSub_left {k m : Nat} (hk : 0 < k) (h : inSub (2*k) m) : inSub k m := by
  induction m using Nat.strongRecOn with
  | _ m ih =>
    have hge := inSub_ge h
    by_cases h2 : m = 2*k
    · subst h2
      rw [inSub_step (by omega)]
      have : 2*k/2 = k := by omega
      rw [this]; exact inSub_self k
    · rw [inSub_step (by omega)] at h
      rw [inSub_step (by omega)]
      exact ih (m/2) (by omega) h

theorem inSub_right {k m : Nat} (hk : 0 < k) (h : inSub (2*k+1) m) : inSub k m := by
  induction m using Nat.strongRecOn with
  | _ m ih =>
    have hge := inSub_ge h
    by_cases h2 : m = 2*k+1
    · subst h2
      rw [inSub_step (by omega)]
      have : (2*k+1)/2 = k := by omega
      rw [this]; exact inSub_self k
    · rw [inSub_step (by omega)] at h
      rw [inSub_step (by omega)]
      exact ih (m/2) (by omega) h

theorem inSub_disjoint {k m : Nat} (hk : 0 < k) (h1 : inSub (2*k) m) (h2 : inSub (2*k+1) m) : False := by
  induction m using Nat.strongRecOn with
  | _ m ih =>
    have hge := inSub_ge h2
    by_cases e : m = 2*k+1
    · subst e
      rw [inSub_step (by omega)] at h1
      have : (2*k+1)/2 = k := by omega
      rw [this] at h1
      have := inSub_ge h1
      omega
    · rw [inSub_step (by omega)] at h1 h2
      exact ih (m/2) (by omega) h1 h2

theorem inSub_cases {k m : Nat} (hk : 0 < k) (h : inSub k m) : m = k ∨ inSub (2*k) m ∨ inSub (2*k+1) m := by
  induction m using Nat.strongRecOn with
  | _ m ih =>
    have hge := inSub_ge h
    by_cases e : m = k
    · exact Or.inl e
    · right
      rw [inSub_step (by omega)] at h
      rcases ih (m/2) (by omega) h with h' | h' | h'
      · -- m/2 = k
        by_cases par : m = 2*k
        · left; rw [par]; exact inSub_self _
        · right
          have : m = 2*k+1 := by omega
          rw [this]; exact inSub_self _
      · left
        have := inSub_ge h'
        rw [inSub_step (by omega)]; exact h'
      · right
        have := inSub_ge h'
        rw [inSub_step (by omega)]; exact h'

end Eytz

namespace RA

inductive Prog (α : Type) where
  | pure : α → Prog α
  | fail : String → Prog α
  | read : (off len : Nat) → (List UInt8 → Prog α) → Prog α

inductive Res (α : Type) where
  | ok : α → Res α
  | err : String → Res α
deriving DecidableEq

def readAt (f : List UInt8) (off len : Nat) : Option (List UInt8) :=
  if off + len ≤ f.length then some ((f.drop off).take len) else none

def run : Prog α → List UInt8 → Res α
  | .pure a, _ => .ok a
  | .fail e, _ => .err e
  | .read off len k, f =>
    match readAt f off len with
    | some bs => run (k bs) f
    | none => .err "short read"

theorem readAt_take (f : List UInt8) (cut off len : Nat) (hc : cut ≤ f.length) (bs : List UInt8)
    (h : readAt (f.take cut) off len = some bs) : readAt f off len = some bs := by
  unfold readAt at *
  simp only [List.length_take] at h
  split at h
  · rename_i hle
    have : off + len ≤ f.length := by omega
    simp only [this, if_true]
    have hle' : off + len ≤ cut := by omega
    simp only [Option.some.injEq] at h ⊢
    rw [← h, List.drop_take, List.take_take]
    congr 1
    omega
  · simp at h

/-- cutting the file anywhere gives the same answer or an error -/
theorem truncation_safe (p : Prog α) (f : List UInt8) (cut : Nat) (hc : cut ≤ f.length) :
    run p (f.take cut) = run p f ∨ ∃ e, run p (f.take cut) = .err e := by
  induction p with
  | pure a => left; rfl
  | fail e => left; rfl
  | read off len k ih =>
    simp only [run]
    cases h : readAt (f.take cut) off len with
    | none => right; exact ⟨_, rfl⟩
    | some bs =>
      rw [readAt_take f cut off len hc bs h]
      exact ih bs

end RA

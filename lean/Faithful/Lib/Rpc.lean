import Faithful.Lib.FirstSuccessSys
import Faithful.Generated.IntFns
import Faithful.Generated.Consts

/-!
# getBlock / getTransaction / getBlockTime over an abstract archive (property C02)

Model of the request path of /repo/multiepoch-getBlock.go (`handleGetBlock`), /repo/grpc-server.go (`GetBlock`,
`GetTransaction`, `GetBlockTime`), /repo/multiepoch-getTransaction.go (`handleGetTransaction`,
`findEpochNumberFromSignature`), /repo/multiepoch-getBlockTime.go and of the object fetch of /repo/epoch.go
(`GetNodeByCid` → `FindOffsetAndSizeFromCid` → `GetNodeByOffsetAndSize`) with the process-wide cache of
/repo/huge-cache/cache.go.

Two layers.

* **Archive layer** (`getBlock`, `getTransaction`, `getBlockTime`): an epoch is a list of blocks, a block a list of
  entries, an entry a hash and a list of transactions carrying signature, slot, recorded position, payload bytes and
  (uncompressed) metadata bytes.  The index lookups are read as exact maps over the archive (`findBlock`, `findTx`,
  `blocktimeIdx`): that the index files implement these maps is property C01 (hash collisions of the compact index
  are C03, payload reassembly from linked frames is C14, zstd is a third-party codec).  What is modelled line by line
  is the handler logic: slot → epoch by `/ 432000`; signature → epoch by the sig-exists pre-filter and the parallel
  first-success search (`FSys`/`FindEpoch` of property C18, reused, not re-modelled) — skipped when exactly one epoch
  is loaded; entries and transactions fetched concurrently into index-addressed slots (`fill` over the completions in
  ANY order), merge, sort by position with ANY `sort.Slice` (`SortFn`); blockhash = hash of the last entry;
  previousBlockhash = hash of the parent's last entry when `slot ≠ 0 ∧ epoch(parent) = epoch(slot)` (the repaired
  condition of fixes/C02-2.patch), the slot-0 special case (genesis creation time, height 0, previousBlockhash = own blockhash).
* **Store layer** (`getNode`, `getBlockS`, `getTransactionS`): every object the handlers need is fetched by CID
  through the epoch: raw-object cache (keyed by CID; any content), then the offset cache, then the epoch's
  cid-to-offset index; the CAR section read at that offset is accepted only if it carries the wanted CID.  The key
  of the offset cache is a parameter (`Key`): `pairKey` = (epoch, cid) is the repaired code (fixes/C02-1.patch),
  `cidKey` = cid alone is the pinned tree.  `getNode_ok` shows the cache is harmless exactly when the keying never
  identifies two index entries with different offsets (`KeyOk`); `pairKey` always satisfies it, `cidKey` only when no
  CID is stored at different offsets in two loaded epochs.

Failure classes follow the code: a failed block / entry / frame / parent fetch is "Internal error"; a failed fetch of
a transaction node inside getBlock leaves a nil slot that is dereferenced (`panic`).

Not modelled: rewards (the property does not mention them), the lassie/Filecoin fetcher, the CAR prefetcher of
getBlock (it only fills the raw-object cache, which `getNode` treats as arbitrary), `jsonParsed`.
Core Lean only.
-/

namespace Rpc
open FS FSys FindEpoch

abbrev Bytes := List UInt8
abbrev Cid := Nat

/-! ## the archive -/

structure Tx where
  sig : Nat                -- first signature (64 bytes, big-endian number)
  slot : Nat               -- `transactionNode.Slot`
  pos : Option Nat         -- `transactionNode.GetPositionIndex()`: the recorded position, when recorded
  payload : Bytes          -- `LoadDataFromDataFrames(&transactionNode.Data)`: the transaction bytes
  mdata : Bytes            -- the metadata payload after reassembly and zstd decompression
  cid : Cid                -- CID of the Transaction node
  frames : List Cid        -- CIDs of the continuation DataFrames (of `Data` and `Metadata`)
  tag : String := ""       -- opaque: renderings by third-party encoders (used by the driver only)
deriving DecidableEq, Repr

structure Entry where
  hash : Bytes
  txs : List Tx
  cid : Cid
deriving DecidableEq, Repr

structure Block where
  slot : Nat
  parent : Nat             -- `block.Meta.Parent_slot`
  time : Nat               -- `block.Meta.Blocktime`
  height : Option Nat      -- `block.GetBlockHeight()`
  entries : List Entry
  cid : Cid
deriving DecidableEq, Repr

structure Epoch where
  num : Nat
  blocks : List Block
  genesisTime : Option Nat := none    -- `genesis.Config.CreationTime.Unix()` (epoch 0 only)
  objs : List (Cid × Nat) := []       -- the CAR sections of the epoch: (cid, offset); also the cid-to-offset index
deriving DecidableEq, Repr

def epochLen : Nat := 432000
/-- `slottools.CalcEpochForSlot` -/
def epochOf (slot : Nat) : Nat := slot / epochLen

/-- `MultiEpoch.GetEpoch` (the map is keyed by the epoch number) -/
def lookupEpoch (es : List Epoch) (n : Nat) : Option Epoch := es.find? (fun e => e.num == n)

/-- slot-to-cid index + `GetNodeByCid` + `DecodeBlock`, read as a map over the archive (C01) -/
def findBlock (ep : Epoch) (slot : Nat) : Option Block := ep.blocks.find? (fun b => b.slot == slot)

def blockTxs (b : Block) : List Tx := b.entries.flatMap (·.txs)
def allTxs (ep : Epoch) : List Tx := ep.blocks.flatMap blockTxs

/-- sig-to-cid index + `GetNodeByCid` + `DecodeTransaction` (C01) -/
def findTx (ep : Epoch) (sig : Nat) : Option Tx := (allTxs ep).find? (fun t => t.sig == sig)

/-- `blocktimeindex.Index.Get`: one value per slot of the epoch, 0 where no block was recorded; an error outside -/
def blocktimeIdx (ep : Epoch) (slot : Nat) : Option Nat :=
  if epochOf slot = ep.num then some (((findBlock ep slot).map (·.time)).getD 0) else none

/-! ## outcomes -/

inductive Resp (α : Type) where
  | ok (a : α)
  | null                          -- JSON `result: null` / gRPC NotFound: slot skipped, signature unknown
  | epochUnavailable (e : Nat)    -- "Epoch %d is not available"
  | internal                      -- "Internal error" / codes.Internal
  | panic                         -- nil dereference in the handler
deriving DecidableEq, Repr

structure BlockResp where
  slot : Nat                         -- gRPC only
  parentSlot : Nat
  blockTime : Nat                    -- 0 = absent (JSON null, gRPC 0)
  blockHeight : Option Nat           -- JSON null / gRPC 0 when `none`
  blockhash : Bytes
  previousBlockhash : Option Bytes
  txs : List Tx                      -- in response order
deriving DecidableEq, Repr

structure TxResp where
  slot : Nat
  blockTime : Nat
  pos : Option Nat                   -- gRPC `index`
  tx : Tx
deriving DecidableEq, Repr

/-! ## concurrent fetch into index-addressed slots -/

/-- `allTransactionNodes [][]*Transaction`: slot (entry index, index in the entry) ↦ pointer (nil = `none`) -/
abbrev Slots := Nat → Nat → Option Tx

/-- one finished transaction goroutine: `allTransactionNodes[entryIndex][txI] = txNode` -/
structure Comp where
  i : Nat
  j : Nat
  tx : Tx
deriving DecidableEq, Repr

def emptySlots : Slots := fun _ _ => none
def put (s : Slots) (c : Comp) : Slots := fun i j => if i = c.i ∧ j = c.j then some c.tx else s i j
/-- the completions in the order in which they happened -/
def fill (s : Slots) (cs : List Comp) : Slots := cs.foldl put s

/-- `f e` for `some e`, nothing for `none` -/
def optList {α β : Type} (o : Option α) (f : α → List β) : List β :=
  match o with
  | some e => f e
  | none => []

def rowComps (i : Nat) (txs : List Tx) : List Comp := (List.range txs.length).filterMap fun j => (txs[j]?).map fun t => ⟨i, j, t⟩
/-- the goroutines the handler starts for a block: one per transaction link of every entry -/
def completions (b : Block) : List Comp :=
  (List.range b.entries.length).flatMap fun i => optList b.entries[i]? fun e => rowComps i e.txs

/-- `mergeTxNodeSlices`: the rows in entry order, each row `make([]*Transaction, len(entryNode.Transactions))` -/
def merge (b : Block) (s : Slots) : List (Option Tx) :=
  (List.range b.entries.length).flatMap fun i => optList b.entries[i]? fun e => (List.range e.txs.length).map (s i)

def allSome : List (Option Tx) → Option (List Tx)
  | [] => some []
  | none :: _ => none
  | some t :: rest => (allSome rest).map (t :: ·)

/-- a schedule of the fetch goroutines = the order in which they complete -/
structure Sched where
  run : List Comp → List Comp
  perm : ∀ l, (run l).Perm l

def Sched.fifo : Sched := ⟨id, fun _ => .refl _⟩
def Sched.lifo : Sched := ⟨List.reverse, fun l => List.reverse_perm l⟩

/-- JSON: `txResp.Position` stays 0 when the node has no recorded index -/
def posKey (t : Tx) : Nat := t.pos.getD 0

/-- `sort.Slice(allTransactions, less)` with `less i j = Position_i < Position_j`: any sorted permutation -/
structure SortFn where
  sort : List Tx → List Tx
  perm : ∀ l, (sort l).Perm l
  sorted : ∀ l, (sort l).Pairwise (fun a b => posKey a ≤ posKey b)

def SortFn.merge : SortFn where
  sort l := l.mergeSort (fun a b => decide (posKey a ≤ posKey b))
  perm l := List.mergeSort_perm l _
  sorted l := by
    have := List.pairwise_mergeSort (le := fun a b => decide (posKey a ≤ posKey b))
      (fun a b c hab hbc => by simp only [decide_eq_true_eq] at *; omega)
      (fun a b => by simp only [Bool.or_eq_true, decide_eq_true_eq]; omega) l
    exact this.imp (by intro a b h; simpa using h)

/-- insertion sort by `posKey` (structural, so that concrete instances reduce in the kernel) -/
def insertTx (x : Tx) : List Tx → List Tx
  | [] => [x]
  | y :: ys => if posKey x ≤ posKey y then x :: y :: ys else y :: insertTx x ys
def insSortTx : List Tx → List Tx
  | [] => []
  | x :: xs => insertTx x (insSortTx xs)

theorem insertTx_perm (x : Tx) (l : List Tx) : (insertTx x l).Perm (x :: l) := by
  induction l with
  | nil => exact .refl _
  | cons y ys ih =>
    unfold insertTx
    split
    · exact .refl _
    · exact (List.Perm.cons y ih).trans (List.Perm.swap x y ys)

theorem insSortTx_perm (l : List Tx) : (insSortTx l).Perm l := by
  induction l with
  | nil => exact .refl _
  | cons x xs ih => exact (insertTx_perm x _).trans (List.Perm.cons x ih)

theorem insertTx_sorted (x : Tx) (l : List Tx) (h : l.Pairwise (fun a b => posKey a ≤ posKey b)) :
    (insertTx x l).Pairwise (fun a b => posKey a ≤ posKey b) := by
  induction l with
  | nil => simp [insertTx]
  | cons y ys ih =>
    unfold insertTx
    have hy := List.pairwise_cons.mp h
    split
    · rename_i hxy
      refine List.pairwise_cons.mpr ⟨?_, h⟩
      intro z hz
      rcases List.mem_cons.mp hz with rfl | hz'
      · exact hxy
      · have := hy.1 z hz'; omega
    · rename_i hxy
      refine List.pairwise_cons.mpr ⟨?_, ih hy.2⟩
      intro z hz
      rcases List.mem_cons.mp ((insertTx_perm x ys).subset hz) with rfl | hz'
      · omega
      · exact hy.1 z hz'

theorem insSortTx_sorted (l : List Tx) : (insSortTx l).Pairwise (fun a b => posKey a ≤ posKey b) := by
  induction l with
  | nil => simp [insSortTx]
  | cons x xs ih => exact insertTx_sorted x _ ih

def SortFn.ins : SortFn := ⟨insSortTx, insSortTx_perm, insSortTx_sorted⟩

/-- gRPC comparator: `if Index_i == nil || Index_j == nil { return false }; return *Index_i < *Index_j` -/
def lessGrpc (a b : Tx) : Bool :=
  match a.pos, b.pos with
  | some x, some y => decide (x < y)
  | _, _ => false

/-- the transactions of the block as the handler collects them, in response order; `none` = a nil slot is dereferenced -/
def assemble (S : SortFn) (σ : Sched) (b : Block) : Option (List Tx) :=
  (allSome (merge b (fill emptySlots (σ.run (completions b))))).map S.sort

/-! ## getBlock -/

def zeros32 : Bytes := List.replicate 32 0
/-- `solana.HashFromBytes`: copy into a `[32]byte` -/
def hash32 (h : Bytes) : Bytes := (h ++ zeros32).take 32

/-- `lastEntryHash`: written by the goroutine of the last entry only; the zero hash for a block without entries -/
def lastHash (b : Block) : Bytes :=
  match b.entries.getLast? with
  | some e => hash32 e.hash
  | none => zeros32

/-- the condition under which the handler looks the parent up in the same epoch handler: every block but slot 0
whose parent slot is in the block's epoch.  This is the REPAIRED condition (fixes/C02-2.patch: `slot != 0 && …`); the
pinned tree has `(parentSlot != 0 || slot == 1) && …`, which differs exactly on blocks with slot ≥ 2 and parent 0. -/
def wantsParent (ep : Epoch) (b : Block) : Bool :=
  decide (b.slot ≠ 0) && decide (epochOf b.parent = ep.num)

/-- the condition of the pinned tree, kept for the comparison `wantsParent_pinned_differs` -/
def wantsParentPinned (ep : Epoch) (b : Block) : Bool :=
  (decide (b.parent ≠ 0) || decide (b.slot = 1)) && decide (epochOf b.parent = ep.num)

/-- `previousBlockhash`; `.internal` = "failed to get/decode block" -/
def prevHash (ep : Epoch) (b : Block) : Resp (Option Bytes) :=
  let base : Option Bytes := if b.slot = 0 then some (lastHash b) else none
  if wantsParent ep b then
    match findBlock ep b.parent with
    | none => .internal
    | some pb =>
      match pb.entries.getLast? with
      | none => .ok base
      | some e => .ok (some (hash32 e.hash))
  else .ok base

def blockRespOf (ep : Epoch) (b : Block) (txs : List Tx) (prev : Option Bytes) : BlockResp :=
  { slot := b.slot
    parentSlot := if b.slot = 0 then 0 else b.parent
    blockTime := if b.slot = 0 then ep.genesisTime.getD b.time else b.time
    blockHeight := match b.height with
      | some h => some h
      | none => if b.slot = 0 then some 0 else none
    blockhash := lastHash b
    previousBlockhash := prev
    txs := txs }

/-- the response for a block the epoch handler has returned -/
def blockAnswer (S : SortFn) (σ : Sched) (ep : Epoch) (b : Block) : Resp BlockResp :=
  match assemble S σ b with
  | none => .panic
  | some txs =>
    match prevHash ep b with
    | .ok prev => .ok (blockRespOf ep b txs prev)
    | _ => .internal

/-- `handleGetBlock` / gRPC `GetBlock` -/
def getBlock (S : SortFn) (σ : Sched) (es : List Epoch) (slot : Nat) : Resp BlockResp :=
  match lookupEpoch es (epochOf slot) with
  | none => .epochUnavailable (epochOf slot)
  | some ep =>
    match findBlock ep slot with
    | none => .null
    | some b => blockAnswer S σ ep b

/-! ## getBlockTime -/

/-- `handleGetBlockTime` / gRPC `GetBlockTime` (JSON prints `null` for 0) -/
def getBlockTime (es : List Epoch) (slot : Nat) : Resp Nat :=
  match lookupEpoch es (epochOf slot) with
  | none => .epochUnavailable (epochOf slot)
  | some ep =>
    match blocktimeIdx ep slot with
    | some t => .ok t
    | none => .null

/-! ## getTransaction -/

/-- what the search job of an epoch answers for a signature (exact sig-exists and sig-to-cid indexes: C05, C01) -/
def kindOf (ep : Epoch) (sig : Nat) : Kind := if (findTx ep sig).isSome then .hit else .hasFalse

def insertDesc (x : Nat) : List Nat → List Nat
  | [] => [x]
  | y :: ys => if y ≤ x then x :: y :: ys else y :: insertDesc x ys
def sortDesc : List Nat → List Nat
  | [] => []
  | x :: xs => insertDesc x (sortDesc xs)

theorem insertDesc_perm (x : Nat) (l : List Nat) : (insertDesc x l).Perm (x :: l) := by
  induction l with
  | nil => exact .refl _
  | cons y ys ih =>
    unfold insertDesc
    split
    · exact .refl _
    · exact (List.Perm.cons y ih).trans (List.Perm.swap x y ys)

theorem sortDesc_perm (l : List Nat) : (sortDesc l).Perm l := by
  induction l with
  | nil => exact .refl _
  | cons x xs ih => exact (insertDesc_perm x _).trans (List.Perm.cons x ih)

/-- `GetEpochNumbers` sorted from highest to lowest (the numbers are the keys of a map, hence distinct: every sorting
algorithm gives this list) -/
def numbersDesc (es : List Epoch) : List Nat := sortDesc (es.map (·.num))

/-- the jobs of `findEpochNumberFromSignature`, in the order they are handed to `FirstSuccess` -/
def searchEps (es : List Epoch) (sig : Nat) : List (Nat × Kind) :=
  (numbersDesc es).map fun n => (n, match lookupEpoch es n with
    | some ep => kindOf ep sig
    | none => .noBucket)

def txAnswer (ep : Epoch) (sig : Nat) : Resp TxResp :=
  match findTx ep sig with
  | none => .null
  | some t =>
    match blocktimeIdx ep t.slot with
    | none => .internal
    | some bt => .ok { slot := t.slot, blockTime := bt, pos := t.pos, tx := t }

/-- `handleGetTransaction` / gRPC `GetTransaction`; `r` = what the parallel search returned (not consulted when one
epoch is loaded) -/
def getTransaction (es : List Epoch) (r : Res Nat JErr) (sig : Nat) : Resp TxResp :=
  if es.isEmpty then .internal else
  match findResult (searchEps es sig) r with
  | .notFound => .null
  | .internal _ => .internal
  | .found e =>
    match lookupEpoch es e with
    | none => .epochUnavailable e
    | some ep => txAnswer ep sig

/-- the search result under a concrete schedule: the driver's scheduler (`FSys.prioRun`) with completion order `order` -/
def searchRun (limit : Int) (eps : List (Nat × Kind)) (order : List Nat) : Res Nat JErr :=
  let c := cfgOf limit eps
  match (prioRun c order (5 * c.n + 4) init [] 0).2.1.main with
  | .done r => r
  | _ => .err []

/-! ## the object store: index, CAR, caches -/

/-- cid-to-offset(-and-size) index of the epoch -/
def idx (ep : Epoch) (c : Cid) : Option Nat := (ep.objs.find? (fun o => o.1 == c)).map (·.2)
/-- the CID of the section that starts at `off` in the epoch's CAR (`parseNodeFromSection`) -/
def carAt (ep : Epoch) (off : Nat) : Option Cid := (ep.objs.find? (fun o => o.2 == off)).map (·.1)

/-- `GetNodeByCid` without any cache: index, read, compare the CID -/
def has (ep : Epoch) (c : Cid) : Bool :=
  match idx ep c with
  | some off => carAt ep off == some c
  | none => false

abbrev CKey := Nat × Cid
abbrev Key := Nat → Cid → CKey
/-- the repaired key of the offset cache: epoch and CID -/
def pairKey : Key := fun e c => (e, c)
/-- the key of the pinned tree: the CID alone -/
def cidKey : Key := fun _ c => (0, c)

abbrev Cache := List (CKey × Nat)
def cacheGet (cache : Cache) (k : CKey) : Option Nat := (cache.find? (fun e => e.1 == k)).map (·.2)

/-- `Epoch.GetNodeByCid` in CAR mode.  `raw` = the raw-object cache (keyed by CID; a hit returns the cached bytes,
which are the object's bytes by content addressing).  Returns success and the new offset cache. -/
def getNode (key : Key) (raw : Cid → Bool) (cache : Cache) (ep : Epoch) (c : Cid) : Bool × Cache :=
  if raw c then (true, cache) else
  match cacheGet cache (key ep.num c) with
  | some off => (carAt ep off == some c, cache)
  | none =>
    match idx ep c with
    | none => (false, cache)
    | some off => (carAt ep off == some c, (key ep.num c, off) :: cache)

/-- several fetches one after the other (any order the goroutines happen to run in) -/
def getNodes (key : Key) (raw : Cid → Bool) (cache : Cache) (ep : Epoch) : List Cid → List Bool × Cache
  | [] => ([], cache)
  | c :: cs =>
    let r := getNode key raw cache ep c
    let rs := getNodes key raw r.2 ep cs
    (r.1 :: rs.1, rs.2)

/-- the cached offset never contradicts the index of an epoch whose key it is stored under -/
def CacheOk (es : List Epoch) (key : Key) (cache : Cache) : Prop :=
  ∀ k off, (k, off) ∈ cache → ∀ ep ∈ es, ∀ c, key ep.num c = k → ∀ off', idx ep c = some off' → off' = off

/-- the keying never identifies two index entries with different offsets -/
def KeyOk (es : List Epoch) (key : Key) : Prop :=
  ∀ ep ∈ es, ∀ ep2 ∈ es, ∀ c c2 off off2, key ep.num c = key ep2.num c2 →
    idx ep c = some off → idx ep2 c2 = some off2 → off = off2

def UniqueNums (es : List Epoch) : Prop := (es.map (·.num)).Nodup

/-- no CID is stored at different offsets in two loaded epochs -/
def NoSharedCid (es : List Epoch) : Prop :=
  ∀ ep ∈ es, ∀ ep2 ∈ es, ∀ c off off2, idx ep c = some off → idx ep2 c = some off2 → off = off2

/-! ### lemmas: lists -/

theorem find?_of_nodup_map {α β : Type} [DecidableEq β] (f : α → β) :
    ∀ (l : List α) (a : α), (l.map f).Nodup → a ∈ l → l.find? (fun x => f x == f a) = some a := by
  intro l
  induction l with
  | nil => intro a _ h; cases h
  | cons x xs ih =>
    intro a hn ha
    simp only [List.map_cons, List.nodup_cons] at hn
    by_cases hx : f x = f a
    · rcases List.mem_cons.mp ha with rfl | ha'
      · simp
      · exact absurd (hx ▸ List.mem_map_of_mem ha') hn.1
    · rcases List.mem_cons.mp ha with rfl | ha'
      · exact absurd rfl hx
      · rw [List.find?_cons_of_neg (by simpa using hx)]
        exact ih a hn.2 ha'

theorem lookupEpoch_of_mem (es : List Epoch) (ep : Epoch) (hu : UniqueNums es) (h : ep ∈ es) :
    lookupEpoch es ep.num = some ep :=
  find?_of_nodup_map (fun e : Epoch => e.num) es ep hu h

theorem lookupEpoch_some (es : List Epoch) (n : Nat) (ep : Epoch) (h : lookupEpoch es n = some ep) :
    ep ∈ es ∧ ep.num = n := by
  unfold lookupEpoch at h
  exact ⟨List.mem_of_find?_eq_some h, by simpa using List.find?_some h⟩

theorem findBlock_of_mem (ep : Epoch) (b : Block) (hn : (ep.blocks.map (·.slot)).Nodup) (h : b ∈ ep.blocks) :
    findBlock ep b.slot = some b :=
  find?_of_nodup_map (fun x : Block => x.slot) ep.blocks b hn h

theorem findTx_of_mem (ep : Epoch) (t : Tx) (hn : ((allTxs ep).map (·.sig)).Nodup) (h : t ∈ allTxs ep) :
    findTx ep t.sig = some t :=
  find?_of_nodup_map (fun x : Tx => x.sig) (allTxs ep) t hn h

theorem findTx_some (ep : Epoch) (sig : Nat) (t : Tx) (h : findTx ep sig = some t) : t ∈ allTxs ep ∧ t.sig = sig := by
  unfold findTx at h
  exact ⟨List.mem_of_find?_eq_some h, by simpa using List.find?_some h⟩

/-! ### lemmas: slots -/

theorem fill_cons (s : Slots) (c : Comp) (cs : List Comp) : fill s (c :: cs) = fill (put s c) cs := rfl

theorem fill_other (cs : List Comp) : ∀ (s : Slots) (i j : Nat), (∀ c ∈ cs, ¬ (c.i = i ∧ c.j = j)) → fill s cs i j = s i j := by
  induction cs with
  | nil => intro s i j _; rfl
  | cons c cs ih =>
    intro s i j h
    rw [fill_cons, ih (put s c) i j (fun c' hc' => h c' (List.mem_cons_of_mem _ hc'))]
    have := h c List.mem_cons_self
    unfold put
    rw [if_neg (fun hh => this ⟨hh.1.symm, hh.2.symm⟩)]

theorem fill_hit (cs : List Comp) : ∀ (s : Slots) (i j : Nat) (t : Tx), (∀ c ∈ cs, c.i = i → c.j = j → c.tx = t) →
    (∃ c ∈ cs, c.i = i ∧ c.j = j) → fill s cs i j = some t := by
  induction cs with
  | nil => intro s i j t _ h; obtain ⟨c, hc, _⟩ := h; cases hc
  | cons c cs ih =>
    intro s i j t hall hex
    rw [fill_cons]
    by_cases hlater : ∃ c' ∈ cs, c'.i = i ∧ c'.j = j
    · exact ih (put s c) i j t (fun c' hc' => hall c' (List.mem_cons_of_mem _ hc')) hlater
    · have hno : ∀ c' ∈ cs, ¬ (c'.i = i ∧ c'.j = j) := fun c' hc' hh => hlater ⟨c', hc', hh⟩
      rw [fill_other cs (put s c) i j hno]
      obtain ⟨c', hc', hi, hj⟩ := hex
      rcases List.mem_cons.mp hc' with rfl | hc''
      · unfold put
        rw [if_pos ⟨hi.symm, hj.symm⟩, hall c' List.mem_cons_self hi hj]
      · exact absurd ⟨hi, hj⟩ (hno c' hc'')

theorem mem_rowComps (i : Nat) (txs : List Tx) (c : Comp) :
    c ∈ rowComps i txs ↔ c.i = i ∧ txs[c.j]? = some c.tx := by
  unfold rowComps
  simp only [List.mem_filterMap, List.mem_range, Option.map_eq_some_iff]
  constructor
  · rintro ⟨j, _, t, ht, rfl⟩
    exact ⟨rfl, ht⟩
  · rintro ⟨hi, ht⟩
    refine ⟨c.j, ?_, c.tx, ht, ?_⟩
    · exact (List.getElem?_eq_some_iff.mp ht).1
    · cases c; simp_all

theorem mem_completions (b : Block) (c : Comp) :
    c ∈ completions b ↔ ∃ e, b.entries[c.i]? = some e ∧ e.txs[c.j]? = some c.tx := by
  unfold completions
  simp only [List.mem_flatMap, List.mem_range]
  constructor
  · rintro ⟨i, hi, hc⟩
    rw [List.getElem?_eq_getElem hi] at hc
    have := (mem_rowComps i _ c).mp hc
    exact ⟨b.entries[i], by rw [this.1, List.getElem?_eq_getElem hi], this.2⟩
  · rintro ⟨e, he, ht⟩
    have hi := (List.getElem?_eq_some_iff.mp he).1
    refine ⟨c.i, hi, ?_⟩
    rw [he]
    exact (mem_rowComps c.i e.txs c).mpr ⟨rfl, ht⟩

/-- the slots after ALL completions, in whatever order: slot (i, j) holds the j-th transaction of the i-th entry -/
theorem fill_completions (b : Block) (cs : List Comp) (hp : cs.Perm (completions b)) (i j : Nat) :
    fill emptySlots cs i j = (b.entries[i]?).bind (fun e => e.txs[j]?) := by
  have hmem : ∀ c, c ∈ cs ↔ ∃ e, b.entries[c.i]? = some e ∧ e.txs[c.j]? = some c.tx :=
    fun c => (hp.mem_iff).trans (mem_completions b c)
  cases he : b.entries[i]? with
  | none =>
    rw [fill_other cs emptySlots i j]
    · rfl
    · intro c hc hh
      obtain ⟨e, he', _⟩ := (hmem c).mp hc
      rw [hh.1, he] at he'; cases he'
  | some e =>
    cases ht : e.txs[j]? with
    | none =>
      rw [fill_other cs emptySlots i j]
      · simp [emptySlots, ht]
      · intro c hc hh
        obtain ⟨e', he', ht'⟩ := (hmem c).mp hc
        rw [hh.1, he] at he'; injection he' with he'; subst he'
        rw [hh.2, ht] at ht'; cases ht'
    | some t =>
      simp only [Option.bind_some, ht]
      apply fill_hit cs emptySlots i j t
      · intro c hc hi hj
        obtain ⟨e', he', ht'⟩ := (hmem c).mp hc
        rw [hi, he] at he'; injection he' with he'; subst he'
        rw [hj, ht] at ht'; injection ht' with ht'; exact ht'.symm
      · exact ⟨⟨i, j, t⟩, (hmem _).mpr ⟨e, he, ht⟩, rfl, rfl⟩

theorem range_map_getElem? {α : Type} (l : List α) : (List.range l.length).map (fun j => l[j]?) = l.map some := by
  apply List.ext_getElem
  · simp
  · intro n h1 h2
    simp only [List.length_map, List.length_range] at h1
    simp [List.getElem?_eq_getElem h1]

theorem range_flatMap_take {α β : Type} (l : List α) (f : α → List β) : ∀ n,
    ((List.range n).flatMap fun i => optList l[i]? f) = (l.take n).flatMap f := by
  intro n
  induction n with
  | zero => rfl
  | succ n ih =>
    rw [List.range_succ, List.flatMap_append, ih, List.take_add_one, List.flatMap_append]
    congr 1
    cases h : l[n]? <;> simp [optList, h]

theorem range_flatMap_getElem? {α β : Type} (l : List α) (f : α → List β) :
    ((List.range l.length).flatMap fun i => optList l[i]? f) = l.flatMap f := by
  rw [range_flatMap_take l f l.length, List.take_length]

theorem flatMap_congr' {α β : Type} (l : List α) (f g : α → List β) (h : ∀ a ∈ l, f a = g a) : l.flatMap f = l.flatMap g := by
  rw [List.flatMap_def, List.flatMap_def, List.map_congr_left h]

theorem nodup_map_inj {α β : Type} (f : α → β) : ∀ (l : List α), (l.map f).Nodup → ∀ a ∈ l, ∀ b ∈ l, f a = f b → a = b := by
  intro l
  induction l with
  | nil => intro _ a ha; cases ha
  | cons x xs ih =>
    intro hn a ha b hb hab
    simp only [List.map_cons, List.nodup_cons] at hn
    rcases List.mem_cons.mp ha with rfl | ha' <;> rcases List.mem_cons.mp hb with rfl | hb'
    · rfl
    · exact absurd (hab ▸ List.mem_map_of_mem hb') hn.1
    · exact absurd (hab ▸ List.mem_map_of_mem ha') hn.1
    · exact ih hn.2 a ha' b hb' hab

theorem allSome_map_some (l : List Tx) : allSome (l.map some) = some l := by
  induction l with
  | nil => rfl
  | cons a l ih => simp [allSome, ih]

/-- merge after all completions = the block's transactions, entry by entry -/
theorem merge_fill (b : Block) (cs : List Comp) (hp : cs.Perm (completions b)) :
    merge b (fill emptySlots cs) = (blockTxs b).map some := by
  unfold merge blockTxs
  have : ∀ i ∈ List.range b.entries.length,
      (optList b.entries[i]? fun e => (List.range e.txs.length).map (fill emptySlots cs i))
      = optList b.entries[i]? (fun e => e.txs.map some) := by
    intro i _
    cases he : b.entries[i]? with
    | none => rfl
    | some e =>
      simp only [optList]
      rw [← range_map_getElem?]
      apply List.map_congr_left
      intro j _
      rw [fill_completions b cs hp i j, he]
      rfl
  rw [flatMap_congr' _ _ _ this, range_flatMap_getElem? b.entries (fun e => e.txs.map some), List.map_flatMap]

/-- **the collected transactions do not depend on the schedule**, and no slot is left nil -/
theorem assemble_eq (S : SortFn) (σ : Sched) (b : Block) : assemble S σ b = some (S.sort (blockTxs b)) := by
  unfold assemble
  rw [merge_fill b _ (σ.perm _), allSome_map_some]
  rfl

/-! ### lemmas: sorting -/

/-- two sorted permutations of a list with distinct keys are equal -/
theorem sorted_perm_unique (l1 l2 : List Tx) (hp : l1.Perm l2)
    (hd : (l2.map posKey).Nodup)
    (h1 : l1.Pairwise (fun a b => posKey a ≤ posKey b)) (h2 : l2.Pairwise (fun a b => posKey a ≤ posKey b)) : l1 = l2 := by
  apply List.Perm.eq_of_pairwise (le := fun a b => posKey a ≤ posKey b) _ h1 h2 hp
  intro a b ha hb hab hba
  have hk : posKey a = posKey b := by omega
  have ha2 : a ∈ l2 := hp.subset ha
  exact nodup_map_inj posKey l2 hd a ha2 b hb hk

/-! ### lemmas: the store -/

theorem cacheGet_some (cache : Cache) (k : CKey) (off : Nat) (h : cacheGet cache k = some off) : (k, off) ∈ cache := by
  unfold cacheGet at h
  cases hf : cache.find? (fun e => e.1 == k) with
  | none => rw [hf] at h; cases h
  | some e =>
    rw [hf] at h
    simp only [Option.map_some, Option.some.injEq] at h
    have hm := List.mem_of_find?_eq_some hf
    have hk : e.1 = k := by simpa using List.find?_some hf
    obtain ⟨k', o'⟩ := e
    simp only at hk h
    subst hk; subst h
    exact hm

/-- entries may be evicted at any time -/
theorem cacheOk_sublist (es : List Epoch) (key : Key) (c c' : Cache) (hs : c'.Sublist c) (h : CacheOk es key c) :
    CacheOk es key c' :=
  fun k off hm => h k off (hs.subset hm)

theorem cacheOk_nil (es : List Epoch) (key : Key) : CacheOk es key [] := by
  intro k off h; cases h

/-- **the offset cache is harmless under a sound keying**: an object the epoch's index and CAR resolve is returned,
whatever the raw-object cache and the offset cache contain, and the offset cache stays sound -/
theorem getNode_ok (es : List Epoch) (key : Key) (raw : Cid → Bool) (cache : Cache) (ep : Epoch) (c : Cid)
    (hk : KeyOk es key) (hc : CacheOk es key cache) (hep : ep ∈ es) (hh : has ep c = true) :
    (getNode key raw cache ep c).1 = true ∧ CacheOk es key (getNode key raw cache ep c).2 := by
  unfold getNode
  by_cases hr : raw c = true
  · simp [hr, hc]
  · simp only [hr, Bool.false_eq_true, if_false]
    unfold has at hh
    cases hi : idx ep c with
    | none => rw [hi] at hh; cases hh
    | some off' =>
      rw [hi] at hh
      simp only at hh
      cases hg : cacheGet cache (key ep.num c) with
      | some off =>
        have hm := cacheGet_some cache _ off hg
        have : off' = off := hc _ off hm ep hep c rfl off' hi
        subst this
        exact ⟨hh, hc⟩
      | none =>
        refine ⟨hh, ?_⟩
        intro k off hm ep2 hep2 c2 hkey off2 hi2
        rcases List.mem_cons.mp hm with heq | hm'
        · injection heq with h1 h2
          rw [h2]
          exact (hk ep hep ep2 hep2 c c2 off' off2 (by rw [hkey, h1]) hi hi2).symm
        · exact hc k off hm' ep2 hep2 c2 hkey off2 hi2

theorem getNodes_ok (es : List Epoch) (key : Key) (raw : Cid → Bool) (ep : Epoch) (hk : KeyOk es key) (hep : ep ∈ es) :
    ∀ (cs : List Cid) (cache : Cache), CacheOk es key cache → (∀ c ∈ cs, has ep c = true) →
      (getNodes key raw cache ep cs).1.all id = true ∧ CacheOk es key (getNodes key raw cache ep cs).2 := by
  intro cs
  induction cs with
  | nil => intro cache hc _; exact ⟨rfl, hc⟩
  | cons c cs ih =>
    intro cache hc hh
    obtain ⟨h1, h2⟩ := getNode_ok es key raw cache ep c hk hc hep (hh c List.mem_cons_self)
    obtain ⟨h3, h4⟩ := ih _ h2 (fun c' hc' => hh c' (List.mem_cons_of_mem _ hc'))
    simp only [getNodes, List.all_cons, h1, h3, id, Bool.and_self]
    exact ⟨trivial, h4⟩

theorem eq_of_num_eq (es : List Epoch) (hu : UniqueNums es) (a b : Epoch) (ha : a ∈ es) (hb : b ∈ es) (h : a.num = b.num) : a = b :=
  nodup_map_inj (fun e : Epoch => e.num) es hu a ha b hb h

/-- the repaired key is sound for every set of epochs with distinct numbers -/
theorem keyOk_pair (es : List Epoch) (hu : UniqueNums es) : KeyOk es pairKey := by
  intro ep hep ep2 hep2 c c2 off off2 hkey h1 h2
  simp only [pairKey, Prod.mk.injEq] at hkey
  have := eq_of_num_eq es hu ep ep2 hep hep2 hkey.1
  subst this
  rw [hkey.2, h2] at h1
  injection h1 with h1; exact h1.symm

/-- the CID-only key is sound only when no CID is stored at different offsets in two loaded epochs -/
theorem keyOk_cid (es : List Epoch) (hn : NoSharedCid es) : KeyOk es cidKey := by
  intro ep hep ep2 hep2 c c2 off off2 hkey h1 h2
  simp only [cidKey, Prod.mk.injEq, true_and] at hkey
  subst hkey
  exact hn ep hep ep2 hep2 c off off2 h1 h2

/-! ## the handlers over the store -/

/-- the first transaction (in merge order) whose node or frames could not be fetched decides: nil slot → panic,
frame → "Internal error" -/
def txOutcome : List (Bool × Bool) → Option (Resp BlockResp)
  | [] => none
  | (false, _) :: _ => some .panic
  | (true, false) :: _ => some .internal
  | (true, true) :: rest => txOutcome rest

def parentCids (ep : Epoch) (b : Block) : List Cid :=
  if wantsParent ep b then
    match findBlock ep b.parent with
    | none => []
    | some pb => pb.cid :: (match pb.entries.getLast? with | some e => [e.cid] | none => [])
  else []

/-- the transaction goroutines and the later parse, transaction by transaction: node, then its continuation frames -/
def fetchTxs (key : Key) (raw : Cid → Bool) (ep : Epoch) : Cache → List Tx → List (Bool × Bool) × Cache
  | cache, [] => ([], cache)
  | cache, t :: ts =>
    let r := getNode key raw cache ep t.cid
    let f := getNodes key raw r.2 ep t.frames
    let rest := fetchTxs key raw ep f.2 ts
    ((r.1, f.1.all id) :: rest.1, rest.2)

/-- every CID the handler fetches for a block -/
def blockCids (ep : Epoch) (b : Block) : List Cid :=
  b.cid :: (b.entries.map (·.cid) ++ ((blockTxs b).flatMap (fun t => t.cid :: t.frames) ++ parentCids ep b))

/-- `getBlock` with every object fetched through `getNode` (block, entries, transactions with their frames, parent
block and its last entry — one of the orders the goroutines can run in; by `getNode_ok` the order is immaterial) -/
def getBlockS (key : Key) (raw : Cid → Bool) (S : SortFn) (σ : Sched) (cache : Cache) (es : List Epoch) (slot : Nat) :
    Resp BlockResp × Cache :=
  match lookupEpoch es (epochOf slot) with
  | none => (.epochUnavailable (epochOf slot), cache)
  | some ep =>
    match findBlock ep slot with
    | none => (.null, cache)
    | some b =>
      let r0 := getNode key raw cache ep b.cid
      let r1 := getNodes key raw r0.2 ep (b.entries.map (·.cid))
      let r2 := fetchTxs key raw ep r1.2 (blockTxs b)
      let r3 := getNodes key raw r2.2 ep (parentCids ep b)
      let res : Resp BlockResp :=
        if !r0.1 then .internal
        else if !(r1.1.all id) then .internal
        else match txOutcome r2.1 with
          | some bad => bad
          | none => if !(r3.1.all id) then .internal else blockAnswer S σ ep b
      (res, r3.2)

/-- `getTransaction` with every object fetched through `getNode` -/
def getTransactionS (key : Key) (raw : Cid → Bool) (cache : Cache) (es : List Epoch) (r : Res Nat JErr) (sig : Nat) :
    Resp TxResp × Cache :=
  if es.isEmpty then (.internal, cache) else
  match findResult (searchEps es sig) r with
  | .notFound => (.null, cache)
  | .internal _ => (.internal, cache)
  | .found e =>
    match lookupEpoch es e with
    | none => (.epochUnavailable e, cache)
    | some ep =>
      match findTx ep sig with
      | none => (.null, cache)
      | some t =>
        let r := getNodes key raw cache ep (t.cid :: t.frames)
        (if r.1.all id then txAnswer ep sig else .internal, r.2)

/-! ## well-formed archives and the helper lemmas of the property theorems -/

/-! ### well-formed archives -/

/-- every object a handler fetches for a block of the epoch resolves through the epoch's index and CAR (C01) -/
def StoreOk (ep : Epoch) : Prop :=
  ∀ b ∈ ep.blocks, has ep b.cid = true ∧
    ∀ e ∈ b.entries, has ep e.cid = true ∧ ∀ t ∈ e.txs, has ep t.cid = true ∧ ∀ f ∈ t.frames, has ep f = true

/-- a complete epoch archive: distinct slots, all in the epoch; the parent of a block is archived whenever the
handler looks for it in the same epoch -/
structure EpochOk (ep : Epoch) : Prop where
  slots : (ep.blocks.map (·.slot)).Nodup
  inEpoch : ∀ b ∈ ep.blocks, epochOf b.slot = ep.num
  parent : ∀ b ∈ ep.blocks, wantsParent ep b = true → ∃ pb ∈ ep.blocks, pb.slot = b.parent

theorem route (es : List Epoch) (ep : Epoch) (hu : UniqueNums es) (hep : ep ∈ es) (slot : Nat)
    (h : epochOf slot = ep.num) : lookupEpoch es (epochOf slot) = some ep := by
  rw [h]; exact lookupEpoch_of_mem es ep hu hep

/-- `previousBlockhash` is always computed for a block of a complete epoch -/
theorem prevHash_ok (ep : Epoch) (b : Block) (hok : EpochOk ep) (hb : b ∈ ep.blocks) :
    ∃ prev, prevHash ep b = .ok prev ∧
      (wantsParent ep b = false → prev = if b.slot = 0 then some (lastHash b) else none) ∧
      (wantsParent ep b = true → ∀ pb ∈ ep.blocks, pb.slot = b.parent → ∀ e, pb.entries.getLast? = some e →
        prev = some (hash32 e.hash)) := by
  unfold prevHash
  by_cases hw : wantsParent ep b = true
  · obtain ⟨pb, hpb, hps⟩ := hok.parent b hb hw
    have hf : findBlock ep b.parent = some pb := by rw [← hps]; exact findBlock_of_mem ep pb hok.slots hpb
    have huniq : ∀ pb' ∈ ep.blocks, pb'.slot = b.parent → pb' = pb := fun pb' hpb' hps' =>
      nodup_map_inj (fun x : Block => x.slot) ep.blocks hok.slots pb' hpb' pb hpb (by rw [hps', hps])
    simp only [hw, if_true, hf]
    cases hl : pb.entries.getLast? with
    | none =>
      refine ⟨_, rfl, ?_, ?_⟩
      · intro h; cases h
      · intro _ pb' hpb' hps' e he
        rw [huniq pb' hpb' hps', hl] at he; cases he
    | some e =>
      refine ⟨_, rfl, ?_, ?_⟩
      · intro h; cases h
      · intro _ pb' hpb' hps' e' he'
        rw [huniq pb' hpb' hps', hl] at he'; injection he' with he'; subst he'; rfl
  · have hw' : wantsParent ep b = false := by simpa using hw
    simp only [hw', Bool.false_eq_true, if_false]
    exact ⟨_, rfl, fun _ => rfl, fun h => by cases h⟩


theorem mem_numbersDesc (es : List Epoch) (n : Nat) : n ∈ numbersDesc es ↔ ∃ ep ∈ es, ep.num = n := by
  unfold numbersDesc
  rw [(sortDesc_perm _).mem_iff]
  simp [List.mem_map]

theorem mem_searchEps_of_mem (es : List Epoch) (ep : Epoch) (sig : Nat) (hu : UniqueNums es) (hep : ep ∈ es) :
    (ep.num, kindOf ep sig) ∈ searchEps es sig := by
  unfold searchEps
  refine List.mem_map.mpr ⟨ep.num, (mem_numbersDesc es ep.num).mpr ⟨ep, hep, rfl⟩, ?_⟩
  rw [lookupEpoch_of_mem es ep hu hep]

theorem mem_searchEps (es : List Epoch) (sig n : Nat) (k : Kind) (h : (n, k) ∈ searchEps es sig) :
    ∃ ep ∈ es, ep.num = n ∧ k = kindOf ep sig := by
  unfold searchEps at h
  obtain ⟨m, hm, heq⟩ := List.mem_map.mp h
  injection heq with h1 h2
  subst h1
  obtain ⟨ep0, hep0, hn0⟩ := (mem_numbersDesc es m).mp hm
  cases hl : lookupEpoch es m with
  | none =>
    exfalso
    unfold lookupEpoch at hl
    have := List.find?_eq_none.mp hl ep0 hep0
    simp [hn0] at this
  | some ep =>
    rw [hl] at h2
    obtain ⟨h3, h4⟩ := lookupEpoch_some es m ep hl
    exact ⟨ep, h3, h4, h2.symm⟩

theorem searchEps_length (es : List Epoch) (sig : Nat) : (searchEps es sig).length = es.length := by
  simp [searchEps, numbersDesc, (sortDesc_perm _).length_eq]

theorem kindOf_hit (ep : Epoch) (sig : Nat) : kindOf ep sig = .hit ↔ (findTx ep sig).isSome = true := by
  unfold kindOf
  split <;> simp_all


theorem txOutcome_all_true (l : List (Bool × Bool)) (h : ∀ p ∈ l, p = (true, true)) : txOutcome l = none := by
  induction l with
  | nil => rfl
  | cons p l ih =>
    have hp := h p List.mem_cons_self
    subst hp
    simp only [txOutcome]
    exact ih (fun q hq => h q (List.mem_cons_of_mem _ hq))

theorem fetchTxs_ok (es : List Epoch) (key : Key) (raw : Cid → Bool) (ep : Epoch) (hk : KeyOk es key) (hep : ep ∈ es) :
    ∀ (ts : List Tx) (cache : Cache), CacheOk es key cache →
      (∀ t ∈ ts, has ep t.cid = true ∧ ∀ f ∈ t.frames, has ep f = true) →
      (∀ p ∈ (fetchTxs key raw ep cache ts).1, p = (true, true)) ∧ CacheOk es key (fetchTxs key raw ep cache ts).2 := by
  intro ts
  induction ts with
  | nil =>
    intro cache hc _
    refine ⟨?_, hc⟩
    intro p hp
    simp [fetchTxs] at hp
  | cons t ts ih =>
    intro cache hc hh
    obtain ⟨ht, hf⟩ := hh t List.mem_cons_self
    obtain ⟨h1, h2⟩ := getNode_ok es key raw cache ep t.cid hk hc hep ht
    obtain ⟨h3, h4⟩ := getNodes_ok es key raw ep hk hep t.frames _ h2 hf
    obtain ⟨h5, h6⟩ := ih _ h4 (fun t' ht' => hh t' (List.mem_cons_of_mem _ ht'))
    simp only [fetchTxs]
    refine ⟨?_, h6⟩
    intro p hp
    rcases List.mem_cons.mp hp with rfl | hp'
    · rw [h1, h3]
    · exact h5 p hp'

theorem parentCids_ok (ep : Epoch) (b : Block) (hs : StoreOk ep) : ∀ c ∈ parentCids ep b, has ep c = true := by
  intro c hc
  unfold parentCids at hc
  split at hc
  · cases hf : findBlock ep b.parent with
    | none => rw [hf] at hc; cases hc
    | some pb =>
      rw [hf] at hc
      have hpb : pb ∈ ep.blocks := List.mem_of_find?_eq_some hf
      obtain ⟨h1, h2⟩ := hs pb hpb
      rcases List.mem_cons.mp hc with rfl | hc'
      · exact h1
      · cases hl : pb.entries.getLast? with
        | none => rw [hl] at hc'; cases hc'
        | some e =>
          rw [hl] at hc'
          simp only [List.mem_singleton] at hc'
          subst hc'
          exact (h2 e (List.mem_of_getLast? hl)).1
  · cases hc



end Rpc

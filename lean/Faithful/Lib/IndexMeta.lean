import Faithful.Lib.CompactIndex

/-!
Model of `indexmeta.Meta` (indexmeta/indexmeta.go) and of the identity entries the index writers store in it
(indexes/metadata.go `setDefaultMetadata` / `getDefaultMetadata`; cmd-x-index-gsfa.go, cmd-x-index-sig-exists.go:
`AddUint64(epoch)`, `AddCid(rootCid)`, `AddString(network)`).

The bytes are those of `CI.metaBytes` / `CI.parseMeta` (count ‖ (klen ‖ k ‖ vlen ‖ v)*), which the C04 run compares byte for
byte with real sealed files; this file adds the size limits of `MarshalBinary`, the accessors and the round-trip theorems.
A root CID is the byte string `cid.Bytes()`; `cid.Cast` / `cid.CidFromBytes` of those bytes is go-cid (third party).
-/
namespace IndexMeta
open B

abbrev KVs := List (Bytes × Bytes)

/-- the limits `MarshalBinary` enforces -/
def fits (m : KVs) : Prop :=
  m.length ≤ Generated.metaMaxNumKVs ∧
  ∀ kv ∈ m, kv.1.length ≤ Generated.metaMaxKeySize ∧ kv.2.length ≤ Generated.metaMaxValueSize

instance (m : KVs) : Decidable (fits m) := by unfold fits; exact inferInstance

/-- `Meta.MarshalBinary`: error (`none`) beyond 255 pairs / 255-byte keys / 255-byte values -/
def encode (m : KVs) : Option Bytes := if fits m then some (CI.metaBytes m) else none

/-- `Meta.UnmarshalBinary` -/
def decode (b : Bytes) : Option KVs := CI.parseMeta b

/-- `Meta.Get`: first value stored under the key -/
def get (m : KVs) (key : Bytes) : Option Bytes := (m.find? fun kv => kv.1 == key).map (·.2)

def keyKind : Bytes := [107, 105, 110, 100]                       -- "kind"
def keyEpoch : Bytes := [101, 112, 111, 99, 104]                  -- "epoch"
def keyRootCid : Bytes := [114, 111, 111, 116, 67, 105, 100]      -- "rootCid"
def keyNetwork : Bytes := [110, 101, 116, 119, 111, 114, 107]     -- "network"

/-- result of reading a little-endian uint64 out of a value: `Meta.GetUint64` answers `(0, false)` and
    `getDefaultMetadata` an error for a value shorter than 8 bytes (fix 1e2c254; `b[7]` panicked before) -/
inductive U64 where
  | absent
  | invalid          -- value shorter than 8 bytes: not a uint64
  | val (n : Nat)
deriving DecidableEq, Repr

/-- `Meta.GetUint64` / `indexes.BtoUint64(meta.Get(key))` -/
def getUint64 (m : KVs) (key : Bytes) : U64 :=
  match get m key with
  | none => .absent
  | some v => if v.length < 8 then .invalid else .val (unle (v.take 8))

/-- the identity a writer records -/
structure Ident where
  kind : Bytes
  epoch : Nat
  root : Bytes
  network : Bytes
deriving DecidableEq, Repr

/-- indexes.setDefaultMetadata, in the order it adds the entries -/
def defaultMeta (i : Ident) : KVs :=
  [(keyEpoch, le 8 i.epoch), (keyRootCid, i.root), (keyNetwork, i.network), (keyKind, i.kind)]

/-- what `index gsfa` / `index sig-exists` put into the manifest / bucketteer header (no kind) -/
def plainMeta (epoch : Nat) (root network : Bytes) : KVs :=
  [(keyEpoch, le 8 epoch), (keyRootCid, root), (keyNetwork, network)]

/-- indexes.getDefaultMetadata: all four entries must be present -/
def readDefault (m : KVs) : Option Ident :=
  match get m keyKind, getUint64 m keyEpoch, get m keyRootCid, get m keyNetwork with
  | some k, .val e, some r, some n => some ⟨k, e, r, n⟩
  | _, _, _, _ => none

/-! ### round trip -/

theorem ofNat_toNat_le (n : Nat) (h : n ≤ 255) : (UInt8.ofNat n).toNat = n := by
  simp [UInt8.toNat_ofNat']; omega

theorem parseMetaKVs_enc (m : KVs) (rest : Bytes) (h : ∀ kv ∈ m, kv.1.length ≤ 255 ∧ kv.2.length ≤ 255) :
    CI.parseMetaKVs m.length
      ((m.flatMap fun kv => (UInt8.ofNat kv.1.length :: kv.1) ++ (UInt8.ofNat kv.2.length :: kv.2)) ++ rest)
      = some m := by
  induction m with
  | nil => rfl
  | cons kv r ih =>
    obtain ⟨hk, hv⟩ := h kv (List.mem_cons_self ..)
    have ih' := ih (fun kv' h' => h kv' (List.mem_cons_of_mem _ h'))
    simp only [List.length_cons, List.flatMap_cons, List.cons_append, List.append_assoc, CI.parseMetaKVs,
      ofNat_toNat_le _ hk]
    rw [if_neg (by simp)]
    simp only [List.take_left', List.drop_left']
    simp only [ofNat_toNat_le _ hv]
    rw [if_neg (by simp)]
    simp only [List.take_left', List.drop_left']
    simp only [List.cons_append] at ih'
    rw [ih']

/-- **meta_roundtrip**: whatever `MarshalBinary` accepts, `UnmarshalBinary` reads back unchanged
    (≤ 255 pairs, keys and values ≤ 255 bytes — beyond that `MarshalBinary` refuses). -/
theorem decode_encode (m : KVs) (b : Bytes) (h : encode m = some b) : decode b = some m := by
  unfold encode at h
  split at h
  · rename_i hf
    cases h
    obtain ⟨hn, hkv⟩ := hf
    have hn' : m.length ≤ 255 := hn
    have hkv' : ∀ kv ∈ m, kv.1.length ≤ 255 ∧ kv.2.length ≤ 255 := hkv
    unfold decode CI.metaBytes CI.parseMeta
    simp only [ofNat_toNat_le _ hn']
    have := parseMetaKVs_enc m [] hkv'
    simpa using this
  · cases h

theorem encode_isSome (m : KVs) (h : fits m) : encode m = some (CI.metaBytes m) := by
  unfold encode; rw [if_pos h]

/-- the four identity entries are read back unchanged -/
theorem readDefault_defaultMeta (i : Ident) (he : i.epoch < 2 ^ 64) : readDefault (defaultMeta i) = some i := by
  have h8 : (le 8 i.epoch).length = 8 := le_length _ _
  have hu : unle (le 8 i.epoch) = i.epoch := unle_le_of_lt 8 _ (by
    have : (256 : Nat) ^ 8 = 2 ^ 64 := by decide
    omega)
  have htake : (le 8 i.epoch).take 8 = le 8 i.epoch := by rw [← h8]; exact List.take_length
  unfold readDefault getUint64 get defaultMeta
  simp [keyKind, keyEpoch, keyRootCid, keyNetwork, h8, htake, hu]

theorem fits_defaultMeta (i : Ident) (hk : i.kind.length ≤ 255) (hr : i.root.length ≤ 255) (hn : i.network.length ≤ 255) :
    fits (defaultMeta i) := by
  have h8 : (le 8 i.epoch).length = 8 := le_length _ _
  refine ⟨by simp [defaultMeta, Generated.metaMaxNumKVs], ?_⟩
  intro kv hkv
  simp only [defaultMeta, List.mem_cons, List.mem_nil_iff, or_false] at hkv
  have e1 : Generated.metaMaxKeySize = 255 := rfl
  have e2 : Generated.metaMaxValueSize = 255 := rfl
  rcases hkv with rfl | rfl | rfl | rfl <;> simp [keyKind, keyEpoch, keyRootCid, keyNetwork, e1, e2, h8] <;> omega

/-- kind, epoch, root CID and network written by `setDefaultMetadata` and sealed into the header are what
    `getDefaultMetadata` returns after `UnmarshalBinary` -/
theorem ident_roundtrip (i : Ident) (he : i.epoch < 2 ^ 64) (hk : i.kind.length ≤ 255) (hr : i.root.length ≤ 255)
    (hn : i.network.length ≤ 255) :
    ∃ b, encode (defaultMeta i) = some b ∧ (decode b).bind readDefault = some i := by
  refine ⟨_, encode_isSome _ (fits_defaultMeta i hk hr hn), ?_⟩
  rw [decode_encode _ _ (encode_isSome _ (fits_defaultMeta i hk hr hn))]
  exact readDefault_defaultMeta i he

/-- the same for the manifest / sig-exists entries (typed accessors `GetUint64`, `GetCid`, `GetString`) -/
theorem plain_roundtrip (epoch : Nat) (root network : Bytes) (he : epoch < 2 ^ 64) (hr : root.length ≤ 255)
    (hn : network.length ≤ 255) :
    ∃ b, encode (plainMeta epoch root network) = some b ∧
      ∃ m, decode b = some m ∧ getUint64 m keyEpoch = .val epoch ∧ get m keyRootCid = some root ∧
        get m keyNetwork = some network ∧ get m keyKind = none := by
  have h8 : (le 8 epoch).length = 8 := le_length _ _
  have hu : unle (le 8 epoch) = epoch := unle_le_of_lt 8 _ (by
    have : (256 : Nat) ^ 8 = 2 ^ 64 := by decide
    omega)
  have htake : (le 8 epoch).take 8 = le 8 epoch := by rw [← h8]; exact List.take_length
  have hf : fits (plainMeta epoch root network) := by
    refine ⟨by simp [plainMeta, Generated.metaMaxNumKVs], ?_⟩
    intro kv hkv
    simp only [plainMeta, List.mem_cons, List.mem_nil_iff, or_false] at hkv
    have e1 : Generated.metaMaxKeySize = 255 := rfl
    have e2 : Generated.metaMaxValueSize = 255 := rfl
    rcases hkv with rfl | rfl | rfl <;> simp [keyEpoch, keyRootCid, keyNetwork, e1, e2, h8] <;> omega
  refine ⟨_, encode_isSome _ hf, _, decode_encode _ _ (encode_isSome _ hf), ?_⟩
  unfold getUint64 get plainMeta
  simp [keyKind, keyEpoch, keyRootCid, keyNetwork, h8, htake, hu]

end IndexMeta

import Faithful.Lib.Multi
import Faithful.Lib.Bytes
import Faithful.Lib.Varint

/-!
# C16 — split-CAR reader and splitter (model)

* `SplitCar.readAt` — `MultiReaderAt.ReadAt` of /repo/split-car-fetcher/fetcher.go with the *explicit size
  table* given to `NewMultiReaderAt` (a reader may hold fewer or more bytes than its declared size) and a
  signed offset, i.e. exactly the inputs the Go function accepts.  `Multi.readAt` (design round) is the
  special case "every declared size is the reader's length"; `goS_eq_go` ties the two.
* `SplitCar.newReader` / `SplitCar.Reader.readAt` — `NewSplitCarReader` / `SplitCarReader.ReadAt`.
* `SplitCar.split` — the rollover rule of `split-car` (cmd-car-split.go), polymorphic in the DAG type.
-/

namespace SplitCar
open Multi

/-! ## MultiReaderAt -/

/-- one entry of `MultiReaderAt`: what `readers[i]` holds and `sizes[i]` -/
structure Seg where
  data : Bytes
  size : Nat
deriving Repr, DecidableEq

/-- the reader holds exactly its declared size -/
def Seg.exact (b : Bytes) : Seg := ⟨b, b.length⟩

/-- The loop of `MultiReaderAt.ReadAt`.  `base` = `m.offsets[i]`, `off` = the (mutated) `off`,
    `remaining`, `acc` = `p[:bufOffset]`, `reachedEnd`.  Result = (bytes placed in `p`, err == io.EOF).
    Readers answer like `bytes.Reader` / `io.SectionReader` (`Multi.readSeg`). -/
def goS : List Seg → (base off remaining : Nat) → (acc : Bytes) → (reachedEnd : Bool) → Bytes × Bool
  | [], _, _, remaining, acc, reachedEnd => (acc, decide (0 < remaining) && reachedEnd)
  | seg :: rest, base, off, remaining, acc, reachedEnd =>
    if off < base then goS rest (base + seg.size) off remaining acc reachedEnd   -- `continue`
    else
      let isLast := rest.isEmpty
      -- nextOffset = MaxInt64 for the last entry, offsets[i+1] otherwise; max(0, ·) is Nat subtraction
      let toRead := if isLast then remaining else min (base + seg.size - off) remaining
      let r := readSeg seg.data (off - base) toRead
      let n := r.1.length
      let remaining' := remaining - n
      let reachedEnd' := reachedEnd || (r.2 && isLast)
      let off' := if n = toRead then off + n else off
      if remaining' = 0 then (acc ++ r.1, false)                                  -- `break`, then `return totalN, nil`
      else goS rest (base + seg.size) off' remaining' (acc ++ r.1) reachedEnd'

/-- `MultiReaderAt.ReadAt(p, off)` with `len(p) = len`: a negative offset is smaller than `offsets[0] = 0`,
    so every entry is skipped and the answer is `(0, nil)`. -/
def readAt (segs : List Seg) (off : Int) (len : Nat) : Bytes × Bool :=
  if off < 0 then ([], false) else goS segs 0 off.toNat len [] false

theorem goS_eq_go (l : List Seg) : ∀ (base off remaining : Nat) (acc : Bytes) (e : Bool),
    (∀ s ∈ l, s.data.length = s.size) →
    goS l base off remaining acc e = go (l.map Seg.data) base off remaining acc e := by
  induction l with
  | nil => intros; simp [goS, go]
  | cons s rest ih =>
    intro base off remaining acc e h
    have hs : s.data.length = s.size := h s (List.mem_cons_self ..)
    have hr : ∀ t ∈ rest, t.data.length = t.size := fun t ht => h t (List.mem_cons_of_mem _ ht)
    have hemp : (rest.map Seg.data).isEmpty = rest.isEmpty := by cases rest <;> rfl
    have ih' : ∀ b o r a e, goS rest b o r a e = go (rest.map Seg.data) b o r a e :=
      fun b o r a e => ih b o r a e hr
    simp only [goS, go, List.map_cons, hemp, hs, ih']

theorem map_exact_data (segs : List Bytes) : (segs.map Seg.exact).map Seg.data = segs := by
  induction segs with
  | nil => rfl
  | cons s r ih => simp [Seg.exact, ih]

theorem readAt_exact (segs : List Bytes) (off len : Nat) :
    readAt (segs.map Seg.exact) (off : Int) len = Multi.readAt segs off len := by
  have hneg : ¬ ((off : Int) < 0) := by omega
  unfold readAt Multi.readAt
  simp only [hneg, if_false, Int.toNat_natCast]
  rw [goS_eq_go _ _ _ _ _ _ (by intro s hs; simp [Seg.exact] at hs; obtain ⟨b, _, rfl⟩ := hs; rfl)]
  rw [map_exact_data]

/-- no segment at all: the loop body never runs -/
theorem readAt_nil (off : Int) (len : Nat) : readAt [] off len = ([], false) := by
  unfold readAt; split <;> simp [goS]

/-- zero-length read: the first entry (offset 0 ≤ off) is asked for 0 bytes, `remaining == 0` breaks -/
theorem goS_len_zero (segs : List Seg) (off : Nat) : goS segs 0 off 0 [] false = ([], false) := by
  cases segs with
  | nil => simp [goS]
  | cons s rest =>
    have hr : (readSeg s.data off 0).1 = [] := by unfold readSeg; split <;> simp
    cases hre : rest.isEmpty <;> simp [goS, hre, hr]

theorem readAt_len_zero (segs : List Seg) (off : Int) : readAt segs off 0 = ([], false) := by
  unfold readAt; split
  · rfl
  · exact goS_len_zero segs _

theorem readAt_neg (segs : List Seg) (off : Int) (len : Nat) (h : off < 0) : readAt segs off len = ([], false) := by
  unfold readAt; simp [h]

/-- Total specification when every reader holds its declared size: the bytes are always the requested
    window of the concatenation; io.EOF is returned exactly when there is at least one segment and the
    window is shorter than requested. -/
theorem readAt_total (segs : List Bytes) (off len : Nat) :
    (readAt (segs.map Seg.exact) (off : Int) len).1 = want segs off len ∧
    ((readAt (segs.map Seg.exact) (off : Int) len).2 = true ↔ segs ≠ [] ∧ (want segs off len).length < len) := by
  by_cases hne : segs = []
  · subst hne
    simp [readAt_nil, want]
  · by_cases hl : len = 0
    · subst hl
      rw [readAt_len_zero]
      simp [want]
    · rw [readAt_exact]
      have := Multi.readAt_spec segs off len hne (by omega)
      exact ⟨this.1, by rw [this.2]; simp [hne]⟩

theorem want_length (segs : List Bytes) (off len : Nat) :
    (want segs off len).length = min len (segs.flatten.length - off) := by
  unfold want; simp [List.length_take, List.length_drop]

/-! ## SplitCarReader -/

/-- which Go type the `SplitCarFileReaderCreator` returned: `*FileSplitCarReader` (size must equal
    HeaderSize+ContentSize) or any other `ReaderAtCloserSize` that is not the HTTP reader (no size check).
    The HTTP reader (`size ≥ HeaderSize+ContentSize`, io.ErrUnexpectedEOF on short reads) is not modelled. -/
inductive RKind | file | mem
deriving Repr, DecidableEq

structure PieceIn where
  kind : RKind
  headerSize : Nat      -- carlet.CarFile.HeaderSize
  contentSize : Nat     -- carlet.CarFile.ContentSize
  file : Bytes          -- what the reader holds
deriving Repr

structure Meta where
  header : Bytes        -- base64-decoded OriginalCarHeader
  headerSize : Nat      -- OriginalCarHeaderSize

/-- `originalCarHeader`: uvarint(len) ‖ header, refused unless its length is the recorded one -/
def origHeader (md : Meta) : Option Bytes :=
  let h := Varint.put md.header.length ++ md.header
  if h.length = md.headerSize then some h else none

/-- a concrete header (used by the non-vacuity examples; `Varint.put` is well-founded, `decide` cannot unfold it) -/
theorem origHeader_a0 (n : Nat) : origHeader ⟨[0xa0], n⟩ = if 2 = n then some [1, 0xa0] else none := by
  unfold origHeader; rw [Varint.put]; simp

/-- `io.NewSectionReader(fi, HeaderSize, ContentSize)` over an in-memory / regular file: as a reader it is
    indistinguishable from a `bytes.Reader` over this slice (see DESIGN and the harness `msegs` cases) -/
def content (p : PieceIn) : Bytes := B.slice p.file p.headerSize p.contentSize

inductive NewErr | header | pieceSize (i : Nat)
deriving Repr, DecidableEq

def checkPieces : List PieceIn → Nat → Option NewErr
  | [], _ => none
  | p :: rest, i =>
    if p.kind = RKind.file ∧ p.file.length ≠ p.headerSize + p.contentSize then some (.pieceSize i)
    else checkPieces rest (i + 1)

structure Reader where
  segs : List Seg

/-- `NewSplitCarReader` -/
def newReader (md : Meta) (pieces : List PieceIn) : Except NewErr Reader :=
  match origHeader md with
  | none => .error .header
  | some h =>
    match checkPieces pieces 0 with
    | some e => .error e
    | none => .ok ⟨Seg.exact h :: pieces.map fun p => ⟨content p, p.contentSize⟩⟩

def Reader.readAt (r : Reader) (off : Int) (len : Nat) : Bytes × Bool := SplitCar.readAt r.segs off len

theorem content_length (p : PieceIn) (h : p.headerSize + p.contentSize ≤ p.file.length) :
    (content p).length = p.contentSize := by
  unfold content B.slice; simp [List.length_take, List.length_drop]; omega

theorem checkPieces_none (pieces : List PieceIn) (i : Nat) :
    checkPieces pieces i = none ↔ ∀ p ∈ pieces, p.kind = RKind.file → p.file.length = p.headerSize + p.contentSize := by
  induction pieces generalizing i with
  | nil => simp [checkPieces]
  | cons p rest ih =>
    simp only [List.mem_cons, forall_eq_or_imp]
    unfold checkPieces
    by_cases hk : p.kind = RKind.file ∧ p.file.length ≠ p.headerSize + p.contentSize
    · rw [if_pos hk]
      constructor
      · intro h; cases h
      · intro h; exact absurd (h.1 hk.1) hk.2
    · rw [if_neg hk, ih]
      constructor
      · intro h; refine ⟨fun hf => ?_, h⟩
        exact Classical.byContradiction fun hne => hk ⟨hf, hne⟩
      · intro h; exact h.2

/-! ## split-car: the rollover rule -/

/-- one written piece: its block DAGs in order and the value of `currentFileSize` when it was closed -/
structure Piece (α : Type) where
  dags : List α
  fileSize : Nat
deriving Repr, DecidableEq

section split
variable {α : Type} (size : α → Nat) (hdr target maxLinks : Nat)

/-- The accumulator callback of `split-car`, one call per block DAG, in CAR order (`cur = none` is
    `currentFile == nil`).  The test `currentFileSize + dagSize > maxFileSize || len(blockLinks) > maxLinks`
    comes *before* the DAG is written, so the DAG that would cross the target opens the next piece;
    `createNewFile` sets `currentFileSize = hdrSize`; `writeObject` adds every section's length. -/
def splitGo : List α → Option (Piece α) → List (Piece α)
  | [], cur => cur.toList
  | d :: rest, none => splitGo rest (some ⟨[d], hdr + size d⟩)
  | d :: rest, some c =>
    if c.fileSize + size d > target ∨ c.dags.length > maxLinks then
      c :: splitGo rest (some ⟨[d], hdr + size d⟩)
    else splitGo rest (some ⟨c.dags ++ [d], c.fileSize + size d⟩)

def split (ds : List α) : List (Piece α) := splitGo size hdr target maxLinks ds none

/-- the command as a whole: with no block at all `writeSubsetNode` writes through a nil `*bufio.Writer`
    and the process panics (`none`) -/
def splitCmd (ds : List α) : Option (List (Piece α)) :=
  if ds.isEmpty then none else some (split size hdr target maxLinks ds)

/-- `ContentSize: currentFileSize - hdrSize` -/
def Piece.contentSize (p : Piece α) : Nat := p.fileSize - hdr

def dagSum (l : List α) : Nat := (l.map size).sum

/-- invariant carried by the current piece -/
def Piece.Good (p : Piece α) : Prop := p.dags ≠ [] ∧ p.fileSize = hdr + dagSum size p.dags

theorem dagSum_append (a b : List α) : dagSum size (a ++ b) = dagSum size a + dagSum size b := by
  simp [dagSum]

theorem splitGo_partition (ds : List α) : ∀ cur : Option (Piece α),
    (splitGo size hdr target maxLinks ds cur).flatMap Piece.dags = (cur.toList.flatMap Piece.dags) ++ ds := by
  induction ds with
  | nil => intro cur; simp [splitGo]
  | cons d rest ih =>
    intro cur
    cases cur with
    | none => simp [splitGo, ih]
    | some c =>
      simp only [splitGo]
      split
      · simp [ih]
      · simp [ih]

theorem splitGo_good (ds : List α) : ∀ cur : Option (Piece α),
    (∀ c, cur = some c → c.Good size hdr) →
    ∀ p ∈ splitGo size hdr target maxLinks ds cur, p.Good size hdr := by
  induction ds with
  | nil =>
    intro cur hc p hp
    cases cur with
    | none => simp [splitGo] at hp
    | some c => simp [splitGo] at hp; rw [hp]; exact hc c rfl
  | cons d rest ih =>
    intro cur hc p hp
    have hnew : ∀ c, some (⟨[d], hdr + size d⟩ : Piece α) = some c → c.Good size hdr := by
      intro c hcc; cases hcc; exact ⟨by simp, by simp [dagSum]⟩
    cases cur with
    | none => exact ih _ hnew p (by simpa [splitGo] using hp)
    | some c =>
      simp only [splitGo] at hp
      split at hp
      · rcases List.mem_cons.mp hp with h | h
        · rw [h]; exact hc c rfl
        · exact ih _ hnew p h
      · refine ih _ ?_ p hp
        intro c' hc'; cases hc'
        have := hc c rfl
        exact ⟨by simp, by simp [this.2, dagSum]; omega⟩

/-- a piece is closed only because the next DAG did not fit or the link limit was passed; so every piece
    either respects the target or consists of one DAG, unless its predecessor state was over the link limit.
    Stated for the current piece as an invariant: `fits c := c.fileSize ≤ target ∨ c.dags.length = 1`. -/
def Piece.Fits (p : Piece α) : Prop := p.fileSize ≤ target ∨ p.dags.length = 1

theorem splitGo_fits (ds : List α) : ∀ cur : Option (Piece α),
    (∀ c, cur = some c → c.Fits target) →
    ∀ p ∈ splitGo size hdr target maxLinks ds cur, p.Fits target := by
  induction ds with
  | nil =>
    intro cur hc p hp
    cases cur with
    | none => simp [splitGo] at hp
    | some c => simp [splitGo] at hp; rw [hp]; exact hc c rfl
  | cons d rest ih =>
    intro cur hc p hp
    have hnew : ∀ c, some (⟨[d], hdr + size d⟩ : Piece α) = some c → c.Fits target := by
      intro c hcc; cases hcc; exact Or.inr rfl
    cases cur with
    | none => exact ih _ hnew p (by simpa [splitGo] using hp)
    | some c =>
      simp only [splitGo] at hp
      split at hp
      · rcases List.mem_cons.mp hp with h | h
        · rw [h]; exact hc c rfl
        · exact ih _ hnew p h
      · rename_i hno
        refine ih _ ?_ p hp
        intro c' hc'; cases hc'
        exact Or.inl (by simp only; omega)

/-- link limit: a piece holds at most `maxLinks + 1` block DAGs -/
theorem splitGo_links (ds : List α) : ∀ cur : Option (Piece α),
    (∀ c, cur = some c → c.dags.length ≤ maxLinks + 1) →
    ∀ p ∈ splitGo size hdr target maxLinks ds cur, p.dags.length ≤ maxLinks + 1 := by
  induction ds with
  | nil =>
    intro cur hc p hp
    cases cur with
    | none => simp [splitGo] at hp
    | some c => simp [splitGo] at hp; rw [hp]; exact hc c rfl
  | cons d rest ih =>
    intro cur hc p hp
    have hnew : ∀ c, some (⟨[d], hdr + size d⟩ : Piece α) = some c → c.dags.length ≤ maxLinks + 1 := by
      intro c hcc; cases hcc; simp
    cases cur with
    | none => exact ih _ hnew p (by simpa [splitGo] using hp)
    | some c =>
      simp only [splitGo] at hp
      split at hp
      · rcases List.mem_cons.mp hp with h | h
        · rw [h]; exact hc c rfl
        · exact ih _ hnew p h
      · rename_i hno
        refine ih _ ?_ p hp
        intro c' hc'; cases hc'
        simp only [List.length_append, List.length_cons, List.length_nil]; omega

end split

/-! ## byte-level DAGs and piece files -/

/-- a block DAG as `split-car` sees it: the raw CAR sections of the block's objects followed by the block's -/
structure Dag where
  sections : List Bytes
deriving Repr, DecidableEq

def Dag.bytes (d : Dag) : Bytes := d.sections.flatten
/-- `dagSize` = Σ `RawSectionSize()` = what `writeObject` adds up -/
def Dag.size (d : Dag) : Nat := (d.sections.map List.length).sum

theorem Dag.size_eq (d : Dag) : d.size = d.bytes.length := by
  unfold Dag.size Dag.bytes; simp [List.length_flatten]

def dagBytes (l : List Dag) : Bytes := (l.map Dag.bytes).flatten

theorem dagBytes_length (l : List Dag) : (dagBytes l).length = dagSum Dag.size l := by
  induction l with
  | nil => rfl
  | cons d r ih =>
    have : dagBytes (d :: r) = d.bytes ++ dagBytes r := by simp [dagBytes]
    rw [this, List.length_append, ih]; simp [dagSum, Dag.size_eq]

/-- a piece on disk: CAR header (`hdrSize` bytes; the root is replaced afterwards by a CID of the same
    length), the block DAGs, then whatever is written around `writeObject` (Subset node, Epoch node) -/
def pieceFile (H : Bytes) (p : Piece Dag) (tail : Bytes) : Bytes := H ++ dagBytes p.dags ++ tail

end SplitCar

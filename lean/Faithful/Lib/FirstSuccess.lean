namespace FS

inductive Out (V E : Type) where
  | ok : V → Out V E
  | err : E → Out V E

variable {V E : Type}

/-- the collector loop of FirstSuccess over the results in arrival order; `n` = len(fns) -/
def collect (n : Nat) : List E → List (Out V E) → Except (List E) V
  | errs, [] => .error errs                       -- channel closed after every job has sent
  | _, .ok v :: _ => .ok v
  | errs, .err e :: rest =>
    if (errs ++ [e]).length = n then .error (errs ++ [e]) else collect n (errs ++ [e]) rest

def isOk : Out V E → Bool | .ok _ => true | .err _ => false

theorem collect_sound (n : Nat) (errs : List E) (l : List (Out V E)) (v : V)
    (h : collect n errs l = .ok v) : Out.ok v ∈ l := by
  induction l generalizing errs with
  | nil => simp [collect] at h
  | cons x rest ih =>
    cases x with
    | ok w => simp [collect] at h; subst h; exact List.mem_cons_self ..
    | err e =>
      simp only [collect] at h
      split at h
      · cases h
      · exact List.mem_cons_of_mem _ (ih _ h)

/-- if some job succeeded and the collector has seen fewer than n errors so far, it returns a success -/
theorem collect_complete (n : Nat) (errs : List E) (l : List (Out V E))
    (hlen : errs.length + l.length = n) (hex : ∃ x ∈ l, isOk x = true) :
    ∃ v, collect n errs l = .ok v := by
  induction l generalizing errs with
  | nil => obtain ⟨x, hx, _⟩ := hex; cases hx
  | cons x rest ih =>
    cases x with
    | ok w => exact ⟨w, by simp [collect]⟩
    | err e =>
      obtain ⟨y, hy, hyok⟩ := hex
      have hy' : y ∈ rest := by
        rcases List.mem_cons.mp hy with h | h
        · subst h; simp [isOk] at hyok
        · exact h
      have hrest : 0 < rest.length := List.length_pos_of_mem hy'
      simp only [collect]
      have : ¬ (errs ++ [e]).length = n := by simp at hlen ⊢; omega
      simp only [this, if_false]
      exact ih (errs ++ [e]) (by simp at hlen ⊢; omega) ⟨y, hy', hyok⟩

def errsOf : List (Out V E) → List E
  | [] => []
  | .ok _ :: r => errsOf r
  | .err e :: r => e :: errsOf r

/-- if every job failed, the complete list of errors comes back, in arrival order -/
theorem collect_all_fail (n : Nat) (errs : List E) (l : List (Out V E))
    (hlen : errs.length + l.length = n) (hall : ∀ x ∈ l, isOk x = false) :
    collect n errs l = .error (errs ++ errsOf l) := by
  induction l generalizing errs with
  | nil => simp [collect, errsOf]
  | cons x rest ih =>
    cases x with
    | ok w => have := hall (.ok w) (List.mem_cons_self ..); simp [isOk] at this
    | err e =>
      simp only [collect, errsOf]
      split
      · rename_i hfull
        have : rest = [] := by
          have : rest.length = 0 := by simp at hlen hfull; omega
          exact List.length_eq_zero_iff.mp this
        subst this; simp [errsOf]
      · rw [ih (errs ++ [e]) (by simp at hlen ⊢; omega) (fun y hy => hall y (List.mem_cons_of_mem _ hy))]
        simp

end FS

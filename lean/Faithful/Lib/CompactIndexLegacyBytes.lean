import Faithful.Lib.CompactIndexLegacy
import Faithful.Lib.CompactIndexBytes

/-!
The byte layer of the two legacy formats (`deprecated/compactindex`, `deprecated/compactindex36`) agrees with the
abstract reader: `openLegacy` / `lookupLegacy` over `encodeLegacy f fileSize ix` answer what `lookupA ix` answers.
The bucket table and bodies are laid out as in the current format (`CI.bucket_reads`); only the 32-byte header and
the value width `legacyWidth f fileSize` differ.
-/
namespace CI
open B

theorem legacyEntry_eq (w : Nat) : legacyEntry w = entryBytes w := by
  funext e; rfl

theorem legacyTable_eq (w : Nat) (bs : List BucketA) (off : Nat) : legacyTable w bs off = tableFrom w bs off := by
  induction bs generalizing off with
  | nil => rfl
  | cons b r ih => simp only [legacyTable, tableFrom, ih, hashSize_eq]

theorem legacyHeader_length (f : Legacy) (fs nb : Nat) : (legacyHeader f fs nb).length = 32 := by
  cases f <;> simp [legacyHeader, legacyMagic, Generated.legacy8Magic, Generated.legacy36Magic, le_length]

theorem encodeLegacy_eq (f : Legacy) (fs : Nat) (ix : IndexA) :
    encodeLegacy f fs ix
      = (legacyHeader f fs ix.numBuckets
          ++ tableFrom (legacyWidth f fs) ix.buckets ((legacyHeader f fs ix.numBuckets).length + 16 * ix.numBuckets))
        ++ ix.buckets.flatMap (bucketBody (legacyWidth f fs)) := by
  simp only [encodeLegacy, legacyTable_eq, legacyEntry_eq, legacyHeader_length]
  rfl

theorem encodeLegacy_length (f : Legacy) (fs : Nat) (ix : IndexA) :
    (encodeLegacy f fs ix).length = 32 + 16 * ix.buckets.length
      + (ix.buckets.map fun b => b.entries.size).sum * (Generated.hashSize + legacyWidth f fs) := by
  rw [encodeLegacy_eq, List.length_append, List.length_append, legacyHeader_length, tableFrom_length, bodies_length]

/-- the fields `Header.Load` reads from the fixed 32-byte header -/
theorem legacyHeader_fields (f : Legacy) (fs nb : Nat) :
    (legacyHeader f fs nb).take 8 = legacyMagic f ∧ (legacyHeader f fs nb).getD 20 0 = 1 ∧
    ((legacyHeader f fs nb).drop 21).any (· ≠ 0) = false ∧
    slice (legacyHeader f fs nb) 8 8 = le 8 fs ∧ slice (legacyHeader f fs nb) 16 4 = le 4 nb := by
  obtain ⟨a0, a1, a2, a3, a4, a5, a6, a7, e8⟩ : ∃ a0 a1 a2 a3 a4 a5 a6 a7, le 8 fs = [a0, a1, a2, a3, a4, a5, a6, a7] :=
    ⟨_, _, _, _, _, _, _, _, rfl⟩
  obtain ⟨c0, c1, c2, c3, e4⟩ : ∃ c0 c1 c2 c3, le 4 nb = [c0, c1, c2, c3] := ⟨_, _, _, _, rfl⟩
  cases f <;>
    (unfold legacyHeader legacyMagic
     rw [e8, e4]
     exact ⟨rfl, rfl, rfl, rfl, rfl⟩)

/-- the limits of a legacy file -/
structure LegOk (f : Legacy) (fs : Nat) (ix : IndexA) : Prop where
  /-- the index was built for the value width of the format -/
  w_eq : ix.valueSize = legacyWidth f fs
  /-- the Go stride `3 + width` is a `uint8` -/
  vs_le : ix.valueSize ≤ 255 - Generated.hashSize
  nb_pos : 0 < ix.numBuckets
  nb_lt : ix.numBuckets < 2^32
  len : ix.buckets.length = ix.numBuckets
  /-- `Header.FileSize` is a `uint64` -/
  fs_lt : fs < 2^64
  nonce : ∀ b ∈ ix.buckets, b.nonce < 2^32
  count : ∀ b ∈ ix.buckets, b.entries.size < 2^32
  hash : ∀ b ∈ ix.buckets, ∀ i (h : i < b.entries.size), b.entries[i].1 < 2^24
  size : (encodeLegacy f fs ix).length < 2^48

/-- legacy `Open` succeeds on the sealed file and reads back `FileSize` and `NumBuckets` -/
theorem openLegacy_encode (f : Legacy) (fs : Nat) (ix : IndexA) (ok : LegOk f fs ix) :
    openLegacy f (encodeLegacy f fs ix).toArray = some ⟨fs, ix.numBuckets⟩ := by
  obtain ⟨h1, h2, h3, h4, h5⟩ := legacyHeader_fields f fs ix.numBuckets
  have hlen := legacyHeader_length f fs ix.numBuckets
  have r32 : rd (encodeLegacy f fs ix).toArray 0 32 = some (legacyHeader f fs ix.numBuckets) := by
    rw [rd_toArray, if_pos (by rw [encodeLegacy_length]; omega), encodeLegacy_eq, List.append_assoc]
    generalize (tableFrom (legacyWidth f fs) ix.buckets ((legacyHeader f fs ix.numBuckets).length + 16 * ix.numBuckets)
        ++ ix.buckets.flatMap (bucketBody (legacyWidth f fs))) = Tl
    have := slice_zero_append (legacyHeader f fs ix.numBuckets) Tl
    rw [hlen] at this; rw [this]
  have u8 : unle (le 8 fs) = fs := unle_le_of_lt 8 _ (by rw [pow8]; exact ok.fs_lt)
  have u4 : unle (le 4 ix.numBuckets) = ix.numBuckets := unle_le_of_lt 4 _ (by rw [pow4]; exact ok.nb_lt)
  unfold openLegacy
  simp only [r32, h1, h2, h3, h4, h5, u8, u4, ne_eq, not_true_eq_false, if_false, Bool.false_eq_true]

/-- **legacy `Lookup` over the sealed file answers exactly what the abstract reader answers**, for every key -/
theorem lookupLegacy_encode (hf : HF) (f : Legacy) (fs : Nat) (ix : IndexA) (ok : LegOk f fs ix) (hv : ValsOk ix)
    (key : Bytes) :
    lookupLegacy hf f (encodeLegacy f fs ix).toArray ⟨fs, ix.numBuckets⟩ key = lookupA hf ix key := by
  obtain ⟨w, hw⟩ : ∃ w, w = legacyWidth f fs := ⟨_, rfl⟩
  have hvw : ix.valueSize = w := by rw [hw]; exact ok.w_eq
  have hlen := legacyHeader_length f fs ix.numBuckets
  have hF : encodeLegacy f fs ix = (legacyHeader f fs ix.numBuckets
      ++ tableFrom w ix.buckets ((legacyHeader f fs ix.numBuckets).length + 16 * ix.buckets.length))
      ++ ix.buckets.flatMap (bucketBody w) := by
    rw [encodeLegacy_eq, ok.len, hw]
  unfold lookupLegacy lookupA
  simp only []
  rw [if_neg (by have := ok.nb_pos; omega)]
  cases hb : hf.bucket key ix.numBuckets with
  | none => rfl
  | some i =>
    simp only []
    by_cases hi : i < ix.numBuckets
    · have hil : i < ix.buckets.length := by rw [ok.len]; exact hi
      rw [if_neg (by omega), List.getElem?_eq_getElem hil]
      simp only []
      obtain ⟨off, hoff48, hrdH, hrdE⟩ :=
        bucket_reads (legacyHeader f fs ix.numBuckets) w ix.buckets (encodeLegacy f fs ix) hF ok.size i hil
      rw [hlen] at hrdH
      obtain ⟨b, hbdef⟩ : ∃ b, b = ix.buckets[i] := ⟨_, rfl⟩
      rw [← hbdef] at hrdH hrdE ⊢
      have hmem : b ∈ ix.buckets := hbdef ▸ List.getElem_mem hil
      have hwle : w ≤ 252 := by have := ok.vs_le; rw [hashSize_eq, hvw] at this; omega
      have hstr : (3 + w) % 256 = 3 + w := by omega
      have hget : ∀ idx (h : idx < b.entries.size),
          (if idx * (3 + w) + (3 + w) > b.entries.size * (3 + w) then none
            else match rd (encodeLegacy f fs ix).toArray (off + idx * (3 + w)) (3 + w) with
              | none => none
              | some eb => some (unle (eb.take 3), (eb.drop 3).take w)) = some b.entries[idx] := by
        intro idx hidx
        have hle : idx * (3 + w) + (3 + w) ≤ b.entries.size * (3 + w) := by
          have := Nat.mul_le_mul_right (3 + w) (Nat.succ_le_of_lt hidx)
          rwa [Nat.succ_mul] at this
        have hr := hrdE idx hidx
        rw [hashSize_eq] at hr
        rw [if_neg (by omega), hr]
        simp only []
        obtain ⟨d1, d2⟩ := entryBytes_decode w b.entries[idx] (ok.hash b hmem idx hidx)
          (by rw [← hvw]; exact hv b hmem idx hidx)
        rw [d1, d2]
      simp only [hrdH, bucketHeader_nonce b off (ok.nonce b hmem), bucketHeader_count b off (ok.count b hmem),
        bucketHeader_hashLen, bucketHeader_off b off hoff48, ← hw, hstr]
      have hsh : (64 + 256 - 3 * 8 % 256) % 256 = 40 := by decide
      simp only [hsh]
      rw [if_neg (by omega), mask24]
      exact searchB_eq b.entries _ _ hget (b.entries.size + 1) 0
    · rw [if_pos (by omega), List.getElem?_eq_none (by rw [ok.len]; omega)]

/-! ### a built index satisfies the legacy limits -/

theorem intWidth_zero : intWidth 0 = 0 := by rw [intWidth]
theorem intWidth_succ (n : Nat) : intWidth (n+1) = 1 + intWidth ((n+1) / 256) := by rw [intWidth]

/-- Go `intWidth`: a number below `256^k` needs at most `k` bytes -/
theorem intWidth_le : ∀ (k n : Nat), n < 256 ^ k → intWidth n ≤ k
  | _, 0, _ => by rw [intWidth_zero]; omega
  | 0, n+1, h => by simp at h
  | k+1, n+1, h => by
    rw [intWidth_succ]
    have : (n+1) / 256 < 256 ^ k := by
      rw [Nat.pow_succ] at h
      exact Nat.div_lt_of_lt_mul (by rw [Nat.mul_comm]; exact h)
    have := intWidth_le k _ this
    omega

theorem legacyWidth_le (f : Legacy) (fs : Nat) (h : fs < 2^64) : legacyWidth f fs ≤ 36 := by
  cases f with
  | l36 => simp [legacyWidth]
  | l8 =>
    have := intWidth_le 8 fs (by rw [pow8]; exact h)
    simp only [legacyWidth]; omega

/-- an index built with the value width of the legacy format satisfies every limit of that format, under size
    hypotheses on the inputs only -/
theorem legOk_of_build (hf : HF) (f : Legacy) (fs declared : Nat) (m : List (Bytes × Bytes)) (kvs : List KV)
    (ix : IndexA) (h : buildA hf (legacyWidth f fs) declared m kvs = .ok ix) (hfs : fs < 2^64)
    (hnb : numBucketsFor declared < 2^32) (hn : kvs.length < 2^32) : LegOk f fs ix := by
  obtain ⟨e1, e2, _, _, _⟩ := buildA_ok hf _ declared m kvs ix h
  obtain ⟨hlen, _⟩ := bucket_mem_of_build hf _ declared m kvs ix h
  obtain ⟨_, _, p3⟩ := params_of_build hf _ declared m kvs ix h
  obtain ⟨b1, b2, b3⟩ := buckets_of_build hf _ declared m kvs ix h hn
  have hw := legacyWidth_le f fs hfs
  have hsum := entries_sum_le hf _ declared m kvs ix h
  refine ⟨e1, by rw [e1, hashSize_eq]; omega, by omega, by omega, hlen, hfs, b1, b2, b3, ?_⟩
  rw [encodeLegacy_length, hlen, e2, hashSize_eq]
  have hmul : (ix.buckets.map fun b => b.entries.size).sum * (3 + legacyWidth f fs) ≤ kvs.length * 39 :=
    Nat.mul_le_mul hsum (by omega)
  omega

end CI

/-!
# Model of the gRPC slot-range streams (grpc-server.go: StreamBlocks, StreamTransactions,
  processSlotTransactions, txBuffer; gsfa/gsfa-read-multiepoch.go: iterBeforeUntilSlot)

The archive is a list of epochs, an epoch a list of blocks, a block a list of transactions; a transaction
carries its slot, its position in the block, its static and table-loaded accounts and the vote / failed flags.
Everything below the level of slots, blocks and transactions (CAR, CBOR, indexes) is the business of C01–C06.

The model follows the *repaired* control flow (fixes C19-1 … C19-6); the behaviour of the pinned tree is kept as
separate `…Pinned` definitions so that the difference is a theorem.  The filter predicate (`matchesFilter`) and its
use at the two send sites (`sendScan`, `sendIndex`) are separate definitions.

Core Lean only.
-/
namespace Stream

abbrev Acct := Nat

structure Tx where
  slot : Nat
  pos : Nat
  static : List Acct
  loaded : List Acct
  isVote : Bool
  failed : Bool
deriving DecidableEq, Repr

/-- accounts a transaction mentions: static keys of the message ++ address-table keys of the metadata -/
def Tx.accts (t : Tx) : List Acct := t.static ++ t.loaded

structure Block where
  slot : Nat
  txs : List Tx
deriving DecidableEq, Repr

structure Epoch where
  num : Nat
  blocks : List Block
deriving DecidableEq, Repr

/-- a non-nil `StreamTransactionsFilter` message; `none` = optional flag absent -/
structure Filter where
  vote : Option Bool
  failed : Option Bool
  inc : List Acct
  exc : List Acct
  req : List Acct
deriving DecidableEq, Repr

/-- constants taken from the tree (Generated.Consts), and one measured fact about the address-index reader -/
structure Params where
  epochLen : Nat
  batch : Nat
  maxSlots : Nat
  /-- does `iterBeforeUntilSlot` leave out entries at or above `before`?  The pinned tree does not (it only uses
  `before` to select epochs); fix C07-2 makes it an exclusive upper bound.  The harness measures this on the real
  reader and passes it on the `world` line; the theorems hold for both values. -/
  honourBefore : Bool

/-! ## the property's predicate -/

/-- reading of old-faithful.proto + grpc-client.go (`includeVote`, `includeFailed`): `vote` / `failed` say whether
vote / failed transactions are included, an absent flag does not restrict; `account_include` = any-of (empty: no
restriction), `account_exclude` = none-of, `account_required` = all-of -/
def wantTx : Option Filter → Tx → Prop
  | none, _ => True
  | some f, t =>
    (f.vote ≠ some false ∨ t.isVote = false) ∧ (f.failed ≠ some false ∨ t.failed = false) ∧
    (f.inc = [] ∨ ∃ a ∈ f.inc, a ∈ t.accts) ∧ (∀ a ∈ f.exc, a ∉ t.accts) ∧ (∀ a ∈ f.req, a ∈ t.accts)

instance (f : Option Filter) (t : Tx) : Decidable (wantTx f t) := by
  cases f <;> unfold wantTx <;> infer_instance

/-! ## the filter closure of processSlotTransactions (repaired) -/

/-- `hasAccount` of the repaired closure: static keys or table-loaded keys -/
def hasAccount (t : Tx) (a : Acct) : Bool := t.accts.contains a

/-- `matchesFilter(tx, meta)`; `gsfaLoaded` is the captured `gsfaReadersLoaded` -/
def matchesFilter (gsfaLoaded : Bool) : Option Filter → Tx → Bool
  | none, _ => true                                                      -- if filter == nil { return true }
  | some f, t =>
    if f.vote == some false && t.isVote then false                       -- vote == false: drop vote transactions
    else if f.failed == some false && t.failed then false                -- failed == false: drop failed transactions
    else if !gsfaLoaded && !f.inc.isEmpty && !(f.inc.any (hasAccount t)) then false   -- any-of (scan path only)
    else if f.exc.any (hasAccount t) then false                          -- none-of
    else if !(f.req.all (hasAccount t)) then false                       -- all-of
    else true

/-- send site of the block scan: `if matchesFilter(*txn, meta) { … ser.Send(txResp) }` -/
def sendScan (gsfaLoaded : Bool) (f : Option Filter) (t : Tx) : Bool := matchesFilter gsfaLoaded f t
/-- send site of the index path: `if matchesFilter(tx, meta) { … buffer.add(…) }` (there `gsfaReadersLoaded` holds) -/
def sendIndex (f : Filter) (t : Tx) : Bool := matchesFilter true (some f) t

/-! ## the pinned tree's closure and send sites -/

inductive Outcome (α : Type) where
  | ok : α → Outcome α
  | panic : Outcome α
deriving DecidableEq, Repr

/-- `filterOutTxn` of the pinned tree: dereferences the optional flags, `getErr(meta) != nil` is true for every
transaction with protobuf metadata (typed nil map), `tx.HasAccount` sees static keys only, and the any-of loop runs
also for an empty list -/
def filterOutTxnPinned (gsfaLoaded : Bool) : Option Filter → Tx → Outcome Bool
  | none, _ => .ok true
  | some f, t =>
    match f.vote, f.failed with
    | none, _ => .panic                                                  -- *filter.Vote
    | some v, fl =>
      if !v && t.isVote then .ok false else
      match fl with
      | none => .panic                                                   -- *filter.Failed
      | some fl =>
        if !fl then .ok false                                            -- err != nil holds for every transaction
        else if !gsfaLoaded && !(f.inc.any (fun a => t.static.contains a)) then .ok false
        else if f.exc.any (fun a => t.static.contains a) then .ok false
        else if !(f.req.all (fun a => t.static.contains a)) then .ok false
        else .ok true

/-- both send sites of the pinned tree: `if !filterOutTxn(…) { send }` -/
def sendPinned (gsfaLoaded : Bool) (f : Option Filter) (t : Tx) : Outcome Bool :=
  match filterOutTxnPinned gsfaLoaded f t with
  | .ok b => .ok (!b)
  | .panic => .panic

/-! ## block lookup and the per-slot loops -/

/-- gRPC `GetBlock`: the epoch of the slot must be loaded (else NotFound), then the slot must hold a block -/
def getBlock (P : Params) (es : List Epoch) (slot : Nat) : Option Block :=
  match es.find? (fun e => e.num == slot / P.epochLen) with
  | none => none
  | some e => e.blocks.find? (fun b => b.slot == slot)

/-- `for slot := startSlot; slot <= endSlot; slot++ { block, err := GetBlock(slot); if NotFound { continue } … }`
with `n` = number of slots still to visit -/
def scanSlots {α : Type} (P : Params) (es : List Epoch) (g : Block → List α) : Nat → Nat → List α
  | _, 0 => []
  | s, n + 1 =>
    (match getBlock P es s with
     | none => []                          -- continue
     | some b => g b) ++ scanSlots P es g (s + 1) n

/-- the pinned transaction scan: `if NotFound { return nil }` -/
def scanSlotsPinned {α : Type} (P : Params) (es : List Epoch) (g : Block → List α) : Nat → Nat → List α
  | _, 0 => []
  | s, n + 1 =>
    match getBlock P es s with
    | none => []                           -- return nil
    | some b => g b ++ scanSlotsPinned P es g (s + 1) n

/-- `endSlot := startSlot + maxSlotsToStream; if params.EndSlot != nil { endSlot = *params.EndSlot }` -/
def endSlot (P : Params) (lo : Nat) : Option Nat → Nat
  | none => lo + P.maxSlots
  | some h => h

/-- number of iterations of `for slot := lo; slot <= hi; slot++` -/
def nSlots (lo hi : Nat) : Nat := hi + 1 - lo

/-! ## StreamBlocks -/

/-- `blockContainsAccounts`: some transaction has one of the accounts among its static or loaded keys -/
def blockContainsAccounts (b : Block) (accts : List Acct) : Bool :=
  b.txs.any (fun t => accts.any (fun a => t.accts.contains a))

/-- `filterFunc` of StreamBlocks; the filter is `none` (nil) or the include list -/
def blockFilter (f : Option (List Acct)) (b : Block) : Bool :=
  match f with
  | none => true
  | some l => l.isEmpty || blockContainsAccounts b l

def streamBlocks (P : Params) (es : List Epoch) (lo : Nat) (hi : Option Nat) (f : Option (List Acct)) : List Block :=
  scanSlots P es (fun b => if blockFilter f b then [b] else []) lo (nSlots lo (endSlot P lo hi))

/-! ## the address index (gsfa) as the reader sees it -/

/-- all transactions of an epoch in archive (= indexing) order -/
def Epoch.txs (e : Epoch) : List Tx := e.blocks.flatMap (·.txs)

/-- entries of one address in one epoch's index, newest first (the writer appends in archive order, the reader
walks back from the latest record; every mentioned account — static or loaded — is indexed, once per transaction) -/
def epochHistory (e : Epoch) (a : Acct) : List Tx := (e.txs.filter (fun t => t.accts.contains a)).reverse

/-- `getGsfaReadersInEpochDescendingOrderForSlotRange`: loaded epochs whose number lies between the epochs of the
two ends, newest epoch first (`es` is kept in ascending order) -/
def readers (P : Params) (es : List Epoch) (lo hi : Nat) : List Epoch :=
  (es.filter (fun e => lo / P.epochLen ≤ e.num && e.num ≤ hi / P.epochLen)).reverse

/-- `iterBeforeUntilSlot`: epochs newer than the epoch of `before` are skipped, then the newest-first walk stops at
the first entry below `untl` (`break epochLoop`), passes over entries at or above `before` when the reader honours it
(`continue`), and ends when `limit` entries have been collected. -/
def iterBeforeUntilSlot (P : Params) (rs : List Epoch) (a : Acct) (limit before untl : Nat) : List Tx :=
  if limit = 0 ∨ before < untl then []
  else
    (((((rs.filter (fun e => e.num ≤ before / P.epochLen)).flatMap (fun e => epochHistory e a)).takeWhile
        (fun t => untl ≤ t.slot))).filter (fun t => !P.honourBefore || t.slot < before)).take limit

/-! ## txBuffer -/

/-- `b.items[slot][idx] = tx` for one slot, kept in the order `flush` sends (ascending index; a second write to the
same index replaces the first) -/
def insertTx (t : Tx) : List Tx → List Tx
  | [] => [t]
  | x :: xs => if t.pos < x.pos then t :: x :: xs else if t.pos = x.pos then t :: xs else x :: insertTx t xs

/-- content of `b.items[s]`, sorted by index, after all `add`s of `buf` (in that order) -/
def slotItems (buf : List Tx) (s : Nat) : List Tx :=
  (buf.filter (fun t => t.slot == s)).foldl (fun acc t => insertTx t acc) []

/-- `flush`: `for b.currentSlot <= b.endSlot { send items of the slot in index order; currentSlot++ }` -/
def flushSlots (buf : List Tx) : Nat → Nat → List Tx
  | _, 0 => []
  | s, n + 1 => slotItems buf s ++ flushSlots buf (s + 1) n

def flush (buf : List Tx) (lo hi : Nat) : List Tx := flushSlots buf lo (nSlots lo hi)

/-! ## StreamTransactions / processSlotTransactions -/

/-- what the goroutines of the index path add to the buffer (here account after account; `flush` does not depend on
the order, see `flush_perm` in StreamProofs) -/
def collectIndex (P : Params) (es : List Epoch) (lo hi : Nat) (f : Filter) : List Tx :=
  f.inc.flatMap fun a =>
    (iterBeforeUntilSlot P (readers P es lo hi) a P.batch (hi + 1) lo).filter (sendIndex f)

/-- `gsfaReadersLoaded`: the servers loads the address index for all epochs (`gsfa`) or for none, and at least one
loaded epoch lies in the range -/
def gsfaLoaded (P : Params) (es : List Epoch) (gsfa : Bool) (lo hi : Nat) : Bool :=
  gsfa && !(readers P es lo hi).isEmpty

/-- `if filter == nil || len(filter.AccountInclude) == 0 || !gsfaReadersLoaded { scan } else { index }` -/
def streamTransactionsRange (P : Params) (es : List Epoch) (lo hi : Nat) (f : Option Filter) (gsfa : Bool) : List Tx :=
  let loaded := gsfaLoaded P es gsfa lo hi
  match f with
  | none => scanSlots P es (fun b => b.txs.filter (sendScan loaded none)) lo (nSlots lo hi)
  | some fl =>
    if fl.inc.isEmpty || !loaded then
      scanSlots P es (fun b => b.txs.filter (sendScan loaded (some fl))) lo (nSlots lo hi)
    else
      flush (collectIndex P es lo hi fl) lo hi

def streamTransactions (P : Params) (es : List Epoch) (lo : Nat) (hi : Option Nat) (f : Option Filter) (gsfa : Bool) : List Tx :=
  streamTransactionsRange P es lo (endSlot P lo hi) f gsfa

/-- the pinned block-scan path (`none` = the stream panicked) -/
def scanTxPinned (P : Params) (es : List Epoch) (lo hi : Nat) (f : Option Filter) (loaded : Bool) : Option (List Tx) :=
  let cand := scanSlotsPinned P es (fun b => b.txs) lo (nSlots lo hi)
  if cand.any (fun t => sendPinned loaded f t == .panic) then none
  else some (cand.filter (fun t => sendPinned loaded f t == .ok true))

/-! ## specification -/

def allBlocks (es : List Epoch) : List Block := es.flatMap (·.blocks)

def blocksIn (es : List Epoch) (lo hi : Nat) : List Block :=
  (allBlocks es).filter (fun b => lo ≤ b.slot && b.slot ≤ hi)

def txsIn (es : List Epoch) (lo hi : Nat) : List Tx := (blocksIn es lo hi).flatMap (·.txs)

/-- a block is wanted by a StreamBlocks filter -/
def blockWanted (f : Option (List Acct)) (b : Block) : Prop :=
  match f with
  | none => True
  | some l => l = [] ∨ ∃ t ∈ b.txs, ∃ a ∈ l, a ∈ t.accts

instance (f : Option (List Acct)) (b : Block) : Decidable (blockWanted f b) := by
  cases f <;> unfold blockWanted <;> infer_instance

/-- well-formed archive: epochs ascending, blocks of an epoch ascending by slot and inside the epoch, transactions
carry their block's slot and ascending positions -/
structure WF (P : Params) (es : List Epoch) : Prop where
  lenPos : 0 < P.epochLen
  epochsAsc : es.Pairwise (fun a b => a.num < b.num)
  blocksAsc : ∀ e ∈ es, e.blocks.Pairwise (fun a b => a.slot < b.slot)
  inEpoch : ∀ e ∈ es, ∀ b ∈ e.blocks, b.slot / P.epochLen = e.num
  txSlot : ∀ e ∈ es, ∀ b ∈ e.blocks, ∀ t ∈ b.txs, t.slot = b.slot
  txPos : ∀ e ∈ es, ∀ b ∈ e.blocks, b.txs.Pairwise (fun a b => a.pos < b.pos)

end Stream

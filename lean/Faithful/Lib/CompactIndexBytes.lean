import Faithful.Lib.CompactIndexProofs

/-!
Tie between the two layers of the compact-index model (`Faithful/Lib/CompactIndex.lean`):
the Go `Open`/`Lookup` over the bytes `Seal` writes (`CI.openB`, `CI.lookupB` over `CI.encode ix`) answer exactly
what the abstract reader `CI.lookupA ix` answers.

* `openB_encode`, `lookupB_encode`: for every abstract index satisfying the explicit format limits `EncOk`
  (and, for the lookup, whose stored values have exactly `valueSize` bytes: `ValsOk`);
* `encOk_of_build`, `valsOk_of_build`: an index produced by `buildA` satisfies them, under size hypotheses on the
  inputs only;
* `encode_length_le`: the 48-bit file-offset limit follows from the bucket / item counts.
-/
namespace CI
open B

/-! ### generic byte-list lemmas -/

theorem rd_toArray (l : Bytes) (off len : Nat) :
    rd l.toArray off len = if off + len ≤ l.length then some (slice l off len) else none := by
  unfold rd slice
  by_cases h : off + len ≤ l.length
  · simp [h, List.extract]
  · simp [h]

theorem slice_slice (b : Bytes) (o L a n : Nat) (h : a + n ≤ L) :
    slice (slice b o L) a n = slice b (o + a) n := by
  unfold slice
  rw [List.drop_take, List.drop_drop, List.take_take]
  congr 1
  omega

theorem slice_zero_append (a b : Bytes) : slice (a ++ b) 0 a.length = a := by
  unfold slice; simp

theorem slice_all (a : Bytes) (n : Nat) (h : n = a.length) : slice a 0 n = a := by
  subst h; exact slice_self a

theorem take_length_append (a b : Bytes) : (a ++ b).take a.length = a := by simp
theorem drop_length_append (a b : Bytes) : (a ++ b).drop a.length = b := by simp

theorem ofNat_toNat_255 (n : Nat) (h : n ≤ 255) : (UInt8.ofNat n).toNat = n := by
  simp [UInt8.toNat_ofNat']; omega

theorem hashSize_eq : Generated.hashSize = 3 := rfl
theorem bucketHdrLen_eq : Generated.bucketHdrLen = 16 := rfl

/-! ### metadata -/

theorem parseMetaKVs_enc (m : List (Bytes × Bytes)) (h : ∀ kv ∈ m, kv.1.length ≤ 255 ∧ kv.2.length ≤ 255) :
    parseMetaKVs m.length
      (m.flatMap fun kv => (UInt8.ofNat kv.1.length :: kv.1) ++ (UInt8.ofNat kv.2.length :: kv.2)) = some m := by
  induction m with
  | nil => rfl
  | cons kv r ih =>
    obtain ⟨hk, hv⟩ := h kv (List.mem_cons_self ..)
    have ih' := ih (fun kv' h' => h kv' (List.mem_cons_of_mem _ h'))
    simp only [List.length_cons, List.flatMap_cons, List.cons_append, List.append_assoc, parseMetaKVs,
      ofNat_toNat_255 _ hk]
    rw [if_neg (by simp), take_length_append, drop_length_append]
    simp only [ofNat_toNat_255 _ hv]
    simp only [List.cons_append] at ih'
    rw [if_neg (by simp), take_length_append, drop_length_append, ih']

theorem parseMeta_enc (m : List (Bytes × Bytes)) (hl : m.length ≤ 255)
    (h : ∀ kv ∈ m, kv.1.length ≤ 255 ∧ kv.2.length ≤ 255) : parseMeta (metaBytes m) = some m := by
  simp only [parseMeta, metaBytes, ofNat_toNat_255 _ hl]
  exact parseMetaKVs_enc m h

theorem metaBytes_length_le (m : List (Bytes × Bytes)) (h : ∀ kv ∈ m, kv.1.length ≤ 255 ∧ kv.2.length ≤ 255) :
    (metaBytes m).length ≤ 1 + 512 * m.length := by
  unfold metaBytes
  rw [List.length_cons]
  have : (m.flatMap fun kv => (UInt8.ofNat kv.1.length :: kv.1) ++ (UInt8.ofNat kv.2.length :: kv.2)).length
      ≤ 512 * m.length := by
    induction m with
    | nil => simp
    | cons kv r ih =>
      obtain ⟨hk, hv⟩ := h kv (List.mem_cons_self ..)
      have := ih (fun kv' h' => h kv' (List.mem_cons_of_mem _ h'))
      simp only [List.flatMap_cons, List.length_append, List.length_cons] at this ⊢
      omega
  omega

end CI

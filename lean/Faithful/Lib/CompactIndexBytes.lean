import Faithful.Lib.CompactIndexProofs

/-!
Tie between the two layers of the compact-index model (`Faithful/Lib/CompactIndex.lean`):
the Go `Open`/`Lookup` over the bytes `Seal` writes (`CI.openB`, `CI.lookupB` over `CI.encode ix`) answer exactly
what the abstract reader `CI.lookupA ix` answers.

* `openB_encode`, `lookupB_encode`: for every abstract index satisfying the explicit format limits `EncOk`
  (and, for the lookup, whose stored values have exactly `valueSize` bytes: `ValsOk`);
* `encOk_of_build`, `valsOk_of_build`: an index produced by `buildA` satisfies them, under size hypotheses on the
  inputs only;
* `encode_length_le`: the 48-bit file-offset limit follows from the bucket / item counts.
-/
namespace CI
open B

/-! ### generic byte-list lemmas -/

theorem rd_toArray (l : Bytes) (off len : Nat) :
    rd l.toArray off len = if off + len ≤ l.length then some (slice l off len) else none := by
  unfold rd slice
  by_cases h : off + len ≤ l.length
  · simp [h, List.extract]
  · simp [h]

theorem slice_slice (b : Bytes) (o L a n : Nat) (h : a + n ≤ L) :
    slice (slice b o L) a n = slice b (o + a) n := by
  unfold slice
  rw [List.drop_take, List.drop_drop, List.take_take]
  congr 1
  omega

theorem slice_zero_append (a b : Bytes) : slice (a ++ b) 0 a.length = a := by
  unfold slice; simp

theorem slice_all (a : Bytes) (n : Nat) (h : n = a.length) : slice a 0 n = a := by
  subst h; exact slice_self a

theorem take_length_append (a b : Bytes) : (a ++ b).take a.length = a := by simp
theorem drop_length_append (a b : Bytes) : (a ++ b).drop a.length = b := by simp

theorem ofNat_toNat_255 (n : Nat) (h : n ≤ 255) : (UInt8.ofNat n).toNat = n := by
  simp [UInt8.toNat_ofNat']; omega

theorem hashSize_eq : Generated.hashSize = 3 := rfl
theorem bucketHdrLen_eq : Generated.bucketHdrLen = 16 := rfl

/-! ### metadata -/

theorem parseMetaKVs_enc (m : List (Bytes × Bytes)) (h : ∀ kv ∈ m, kv.1.length ≤ 255 ∧ kv.2.length ≤ 255) :
    parseMetaKVs m.length
      (m.flatMap fun kv => (UInt8.ofNat kv.1.length :: kv.1) ++ (UInt8.ofNat kv.2.length :: kv.2)) = some m := by
  induction m with
  | nil => rfl
  | cons kv r ih =>
    obtain ⟨hk, hv⟩ := h kv (List.mem_cons_self ..)
    have ih' := ih (fun kv' h' => h kv' (List.mem_cons_of_mem _ h'))
    simp only [List.length_cons, List.flatMap_cons, List.cons_append, List.append_assoc, parseMetaKVs,
      ofNat_toNat_255 _ hk]
    rw [if_neg (by simp), take_length_append, drop_length_append]
    simp only [ofNat_toNat_255 _ hv]
    simp only [List.cons_append] at ih'
    rw [if_neg (by simp), take_length_append, drop_length_append, ih']

theorem parseMeta_enc (m : List (Bytes × Bytes)) (hl : m.length ≤ 255)
    (h : ∀ kv ∈ m, kv.1.length ≤ 255 ∧ kv.2.length ≤ 255) : parseMeta (metaBytes m) = some m := by
  simp only [parseMeta, metaBytes, ofNat_toNat_255 _ hl]
  exact parseMetaKVs_enc m h

theorem metaBytes_length_le (m : List (Bytes × Bytes)) (h : ∀ kv ∈ m, kv.1.length ≤ 255 ∧ kv.2.length ≤ 255) :
    (metaBytes m).length ≤ 1 + 512 * m.length := by
  unfold metaBytes
  rw [List.length_cons]
  have : (m.flatMap fun kv => (UInt8.ofNat kv.1.length :: kv.1) ++ (UInt8.ofNat kv.2.length :: kv.2)).length
      ≤ 512 * m.length := by
    induction m with
    | nil => simp
    | cons kv r ih =>
      obtain ⟨hk, hv⟩ := h kv (List.mem_cons_self ..)
      have := ih (fun kv' h' => h kv' (List.mem_cons_of_mem _ h'))
      simp only [List.flatMap_cons, List.length_append, List.length_cons] at this ⊢
      omega
  omega

/-! ### bucket header (16 bytes: nonce u32, count u32, hashLen u8, pad u8, file offset u48) -/

theorem bucketHeader_length (b : BucketA) (off : Nat) : (bucketHeader b off).length = 16 := by
  simp [bucketHeader, le_length]

theorem pow4 : (256:Nat)^4 = 2^32 := by decide
theorem pow6 : (256:Nat)^6 = 2^48 := by decide
theorem pow3 : (256:Nat)^3 = 2^24 := by decide
theorem pow8 : (256:Nat)^8 = 2^64 := by decide

theorem bucketHeader_nonce (b : BucketA) (off : Nat) (h : b.nonce < 2^32) :
    unle (slice (bucketHeader b off) 0 4) = b.nonce := by
  have e : slice (bucketHeader b off) 0 4 = le 4 b.nonce := by
    unfold bucketHeader
    rw [List.append_assoc, List.append_assoc]
    have := slice_zero_append (le 4 b.nonce) (le 4 b.entries.size ++ ([UInt8.ofNat Generated.hashSize, 0] ++ le 6 off))
    rwa [le_length] at this
  rw [e]; exact unle_le_of_lt 4 _ (by rw [pow4]; exact h)

theorem bucketHeader_count (b : BucketA) (off : Nat) (h : b.entries.size < 2^32) :
    unle (slice (bucketHeader b off) 4 4) = b.entries.size := by
  have e : slice (bucketHeader b off) 4 4 = le 4 b.entries.size := by
    unfold bucketHeader
    rw [List.append_assoc, List.append_assoc]
    have h1 := slice_append_right (le 4 b.nonce) (le 4 b.entries.size ++ ([UInt8.ofNat Generated.hashSize, 0] ++ le 6 off)) 0 4
    rw [le_length] at h1
    rw [h1]
    have := slice_zero_append (le 4 b.entries.size) ([UInt8.ofNat Generated.hashSize, 0] ++ le 6 off)
    rwa [le_length] at this
  rw [e]; exact unle_le_of_lt 4 _ (by rw [pow4]; exact h)

theorem bucketHeader_hashLen (b : BucketA) (off : Nat) : ((bucketHeader b off).getD 8 0).toNat = 3 := by
  obtain ⟨n0, n1, n2, n3, e1⟩ : ∃ n0 n1 n2 n3, le 4 b.nonce = [n0, n1, n2, n3] := ⟨_, _, _, _, rfl⟩
  obtain ⟨c0, c1, c2, c3, e2⟩ : ∃ c0 c1 c2 c3, le 4 b.entries.size = [c0, c1, c2, c3] := ⟨_, _, _, _, rfl⟩
  unfold bucketHeader
  rw [e1, e2]
  rfl

theorem bucketHeader_off (b : BucketA) (off : Nat) (h : off < 2^48) :
    unle (slice (bucketHeader b off) 10 6) = off := by
  have e : slice (bucketHeader b off) 10 6 = le 6 off := by
    unfold bucketHeader
    have h1 := slice_append_right (le 4 b.nonce ++ le 4 b.entries.size ++ [UInt8.ofNat Generated.hashSize, 0]) (le 6 off) 0 6
    simp only [List.length_append, le_length, List.length_cons, List.length_nil] at h1
    rw [h1]
    exact slice_all _ _ (le_length _ _).symm
  rw [e]; exact unle_le_of_lt 6 _ (by rw [pow6]; exact h)

/-! ### bucket table and bodies: where bucket `i` sits -/

/-- total body size of the first `i` buckets -/
def bodyOff (vs : Nat) : List BucketA → Nat → Nat
  | [], _ => 0
  | _ :: _, 0 => 0
  | b :: r, i+1 => b.entries.size * (Generated.hashSize + vs) + bodyOff vs r i

theorem tableFrom_length (vs : Nat) (bs : List BucketA) (off : Nat) : (tableFrom vs bs off).length = 16 * bs.length := by
  induction bs generalizing off with
  | nil => rfl
  | cons b r ih => simp only [tableFrom, List.length_append, bucketHeader_length, ih, List.length_cons]; omega

/-- the `i`-th 16-byte record of the table is the header of bucket `i`, pointing at the sum of the bodies before it -/
theorem tableFrom_slice (vs : Nat) (bs : List BucketA) (off i : Nat) (hi : i < bs.length) :
    slice (tableFrom vs bs off) (16 * i) 16 = bucketHeader bs[i] (off + bodyOff vs bs i) := by
  induction bs generalizing off i with
  | nil => simp at hi
  | cons b r ih =>
    cases i with
    | zero =>
      simp only [tableFrom, bodyOff, Nat.mul_zero, Nat.add_zero, List.getElem_cons_zero]
      have := slice_zero_append (bucketHeader b off) (tableFrom vs r (off + b.entries.size * (Generated.hashSize + vs)))
      rwa [bucketHeader_length] at this
    | succ j =>
      have hj : j < r.length := by simpa using hi
      simp only [tableFrom, bodyOff, List.getElem_cons_succ]
      have e : 16 * (j + 1) = (bucketHeader b off).length + 16 * j := by rw [bucketHeader_length]; omega
      rw [e, slice_append_right, ih _ j hj, Nat.add_assoc]

theorem entryBytes_length (vs : Nat) (e : Ent) : (entryBytes vs e).length = Generated.hashSize + vs := by
  simp only [entryBytes, List.length_append, le_length, List.length_take, List.length_replicate]
  omega

theorem bucketBody_length (vs : Nat) (b : BucketA) : (bucketBody vs b).length = b.entries.size * (Generated.hashSize + vs) := by
  unfold bucketBody
  have : ∀ l : List Ent, (l.flatMap (entryBytes vs)).length = l.length * (Generated.hashSize + vs) := by
    intro l
    induction l with
    | nil => simp
    | cons x r ih => simp only [List.flatMap_cons, List.length_append, entryBytes_length, ih, List.length_cons, Nat.succ_mul]; omega
  rw [this]; simp

theorem bodies_cons (vs : Nat) (b : BucketA) (r : List BucketA) :
    (b :: r).flatMap (bucketBody vs) = bucketBody vs b ++ r.flatMap (bucketBody vs) := by
  simp [List.flatMap_cons]

/-- the body of bucket `i` inside the concatenated bodies -/
theorem bodies_slice (vs : Nat) (bs : List BucketA) (i : Nat) (hi : i < bs.length) :
    bodyOff vs bs i + bs[i].entries.size * (Generated.hashSize + vs) ≤ (bs.flatMap (bucketBody vs)).length ∧
    slice (bs.flatMap (bucketBody vs)) (bodyOff vs bs i) (bs[i].entries.size * (Generated.hashSize + vs))
      = bucketBody vs bs[i] := by
  induction bs generalizing i with
  | nil => simp at hi
  | cons b r ih =>
    rw [bodies_cons, List.length_append, bucketBody_length]
    cases i with
    | zero =>
      simp only [bodyOff, List.getElem_cons_zero, Nat.zero_add]
      refine ⟨by omega, ?_⟩
      have := slice_zero_append (bucketBody vs b) (r.flatMap (bucketBody vs))
      rwa [bucketBody_length] at this
    | succ j =>
      have hj : j < r.length := by simpa using hi
      obtain ⟨h1, h2⟩ := ih j hj
      simp only [bodyOff, List.getElem_cons_succ]
      refine ⟨by omega, ?_⟩
      rw [← bucketBody_length vs b, slice_append_right]
      exact h2

/-- entry `idx` of a bucket body -/
theorem bucketBody_entry (vs : Nat) (b : BucketA) (idx : Nat) (hi : idx < b.entries.size) :
    slice (bucketBody vs b) (idx * (Generated.hashSize + vs)) (Generated.hashSize + vs) = entryBytes vs b.entries[idx] := by
  unfold bucketBody
  rw [List.flatMap_def]
  have hfix : ∀ x ∈ b.entries.toList.map (entryBytes vs), x.length = Generated.hashSize + vs := by
    intro x hx
    obtain ⟨e, _, rfl⟩ := List.mem_map.1 hx
    exact entryBytes_length _ _
  have hlen : idx < (b.entries.toList.map (entryBytes vs)).length := by simpa using hi
  have := slice_flatten_fixed _ _ hfix idx hlen
  rw [Nat.mul_comm] at this
  rw [this]
  simp

/-- what `Lookup` decodes from one stored entry: the 24-bit hash and the value -/
theorem entryBytes_decode (vs : Nat) (e : Ent) (hh : e.1 < 2^24) (hv : e.2.length = vs) :
    unle ((entryBytes vs e).take 3) = e.1 ∧ ((entryBytes vs e).drop 3).take vs = e.2 := by
  unfold entryBytes
  rw [hashSize_eq, hv, Nat.sub_self, List.replicate_zero, List.append_nil]
  have h3 : (le 3 e.1).length = 3 := le_length _ _
  have t : (le 3 e.1 ++ e.2.take vs).take 3 = le 3 e.1 := by
    have := take_length_append (le 3 e.1) (e.2.take vs); rwa [h3] at this
  have d : (le 3 e.1 ++ e.2.take vs).drop 3 = e.2.take vs := by
    have := drop_length_append (le 3 e.1) (e.2.take vs); rwa [h3] at this
  rw [t, d]
  refine ⟨unle_le_of_lt 3 _ (by rw [pow3]; exact hh), ?_⟩
  rw [List.take_take, Nat.min_self, ← hv, List.take_length]

/-! ### the limits of the format -/

/-- everything the file format needs from an abstract index for `encode` to be loss-free -/
structure EncOk (ix : IndexA) : Prop where
  vs_pos : 0 < ix.valueSize
  /-- the Go stride `HashSize + valueSize` is a `uint8` -/
  vs_le : ix.valueSize ≤ 255 - Generated.hashSize
  nb_pos : 0 < ix.numBuckets
  /-- `Header.NumBuckets` is a `uint32` -/
  nb_lt : ix.numBuckets < 2^32
  len : ix.buckets.length = ix.numBuckets
  /-- `indexmeta` limits: one length byte each -/
  meta_n : ix.metaKVs.length ≤ 255
  meta_kv : ∀ kv ∈ ix.metaKVs, kv.1.length ≤ 255 ∧ kv.2.length ≤ 255
  /-- `BucketHeader.HashDomain` is a `uint32` -/
  nonce : ∀ b ∈ ix.buckets, b.nonce < 2^32
  /-- `BucketHeader.NumEntries` is a `uint32` -/
  count : ∀ b ∈ ix.buckets, b.entries.size < 2^32
  /-- stored hashes have `HashSize` bytes -/
  hash : ∀ b ∈ ix.buckets, ∀ i (h : i < b.entries.size), b.entries[i].1 < 2^24
  /-- `BucketHeader.FileOffset` is a `uint48` -/
  size : (encode ix).length < 2^48

/-- every stored value has exactly `valueSize` bytes (shorter ones would be zero-padded by `marshalEntry`) -/
def ValsOk (ix : IndexA) : Prop :=
  ∀ b ∈ ix.buckets, ∀ i (h : i < b.entries.size), b.entries[i].2.length = ix.valueSize

theorem headerBytes_length (vs nb : Nat) (m : List (Bytes × Bytes)) :
    (headerBytes vs nb m).length = 25 + (metaBytes m).length := by
  simp only [headerBytes, magic, Generated.compactindexsizedMagic, List.length_append, le_length, List.length_cons,
    List.length_nil]
  omega

/-- **`Open` succeeds on every file `Seal` writes and reads back the header fields that were written** -/
theorem openB_encode (ix : IndexA) (ok : EncOk ix) :
    openB (encode ix).toArray
      = .ok ⟨ix.valueSize, ix.numBuckets, (headerBytes ix.valueSize ix.numBuckets ix.metaKVs).length, ix.metaKVs⟩ := by
  obtain ⟨R, hR⟩ : ∃ R, R = le 8 ix.valueSize ++ le 4 ix.numBuckets ++ [UInt8.ofNat Generated.compactindexsizedVersion]
      ++ metaBytes ix.metaKVs := ⟨_, rfl⟩
  obtain ⟨Tl, hTl⟩ : ∃ Tl, Tl = tableFrom ix.valueSize ix.buckets
      ((headerBytes ix.valueSize ix.numBuckets ix.metaKVs).length + Generated.bucketHdrLen * ix.numBuckets)
      ++ ix.buckets.flatMap (bucketBody ix.valueSize) := ⟨_, rfl⟩
  have hH : headerBytes ix.valueSize ix.numBuckets ix.metaKVs = (magic ++ le 4 R.length) ++ R := by
    rw [headerBytes, ← hR]
  have hF : encode ix = (magic ++ le 4 R.length) ++ (R ++ Tl) := by
    rw [encode, hTl, ← List.append_assoc, ← List.append_assoc, hH]
  have hRlen : R.length = 13 + (metaBytes ix.metaKVs).length := by
    rw [hR]; simp only [List.length_append, le_length, List.length_cons, List.length_nil]
  have hmb := metaBytes_length_le ix.metaKVs ok.meta_kv
  have hmn := ok.meta_n
  have hR32 : R.length < 256 ^ 4 := by rw [pow4]; omega
  have hmag : magic.length = 8 := rfl
  have h12 : (magic ++ le 4 R.length).length = 12 := by rw [List.length_append, le_length, hmag]
  have hFlen : (encode ix).length = 12 + (R.length + Tl.length) := by
    rw [hF, List.length_append, h12, List.length_append]
  have r12 : rd (encode ix).toArray 0 12 = some (magic ++ le 4 R.length) := by
    rw [rd_toArray, if_pos (by omega), hF]
    have := slice_zero_append (magic ++ le 4 R.length) (R ++ Tl)
    rw [h12] at this; rw [this]
  have tk8 : (magic ++ le 4 R.length).take 8 = magic := by
    have := take_length_append magic (le 4 R.length); rwa [hmag] at this
  have dr8 : (magic ++ le 4 R.length).drop 8 = le 4 R.length := by
    have := drop_length_append magic (le 4 R.length); rwa [hmag] at this
  have hu : unle (le 4 R.length) = R.length := unle_le_of_lt 4 _ hR32
  have rH : rd (encode ix).toArray 0 (12 + R.length) = some ((magic ++ le 4 R.length) ++ R) := by
    rw [rd_toArray, if_pos (by omega), hF, ← List.append_assoc]
    have := slice_zero_append ((magic ++ le 4 R.length) ++ R) Tl
    rw [List.length_append, h12] at this; rw [this]
  have hbuflen : ((magic ++ le 4 R.length) ++ R).length = 12 + R.length := by rw [List.length_append, h12]
  -- the fields of the header
  have hRa : R = le 8 ix.valueSize ++ (le 4 ix.numBuckets ++ ([UInt8.ofNat Generated.compactindexsizedVersion]
      ++ metaBytes ix.metaKVs)) := by rw [hR, List.append_assoc, List.append_assoc]
  have fvs : slice ((magic ++ le 4 R.length) ++ R) 12 8 = le 8 ix.valueSize := by
    have := slice_append_right (magic ++ le 4 R.length) R 0 8
    rw [h12] at this
    rw [this, hRa]
    have := slice_zero_append (le 8 ix.valueSize) (le 4 ix.numBuckets ++ ([UInt8.ofNat Generated.compactindexsizedVersion]
      ++ metaBytes ix.metaKVs))
    rwa [le_length] at this
  have fnb : slice ((magic ++ le 4 R.length) ++ R) 20 4 = le 4 ix.numBuckets := by
    have := slice_append_right (magic ++ le 4 R.length) R 8 4
    rw [h12] at this
    rw [this, hRa]
    have h1 := slice_append_right (le 8 ix.valueSize) (le 4 ix.numBuckets ++ ([UInt8.ofNat Generated.compactindexsizedVersion]
      ++ metaBytes ix.metaKVs)) 0 4
    rw [le_length] at h1
    rw [h1]
    have := slice_zero_append (le 4 ix.numBuckets) ([UInt8.ofNat Generated.compactindexsizedVersion] ++ metaBytes ix.metaKVs)
    rwa [le_length] at this
  have hdrop : ((magic ++ le 4 R.length) ++ R).drop 24
      = UInt8.ofNat Generated.compactindexsizedVersion :: metaBytes ix.metaKVs := by
    have e : (24:Nat) = (magic ++ le 4 R.length).length + ((le 8 ix.valueSize).length + (le 4 ix.numBuckets).length) := by
      rw [h12, le_length, le_length]
    rw [e, ← List.drop_drop, drop_length_append, hRa, ← List.drop_drop, drop_length_append, drop_length_append]
    rfl
  have fver : ((magic ++ le 4 R.length) ++ R).getD 24 0 = UInt8.ofNat Generated.compactindexsizedVersion := by
    rw [List.getD, ← List.head?_drop, hdrop]; rfl
  have fmeta : ((magic ++ le 4 R.length) ++ R).drop 25 = metaBytes ix.metaKVs := by
    have : (25:Nat) = 24 + 1 := rfl
    rw [this, ← List.drop_drop, hdrop]; rfl
  have uvs : unle (le 8 ix.valueSize) = ix.valueSize := unle_le_of_lt 8 _ (by
    rw [pow8]; have := ok.vs_le; rw [hashSize_eq] at this; omega)
  have unb : unle (le 4 ix.numBuckets) = ix.numBuckets := unle_le_of_lt 4 _ (by rw [pow4]; exact ok.nb_lt)
  unfold openB
  simp only [r12, tk8, dr8, hu, rH, hbuflen, fvs, fnb, fver, fmeta, uvs, unb,
    parseMeta_enc ix.metaKVs ok.meta_n ok.meta_kv, ne_eq, not_true_eq_false, if_false]
  rw [if_neg (by omega), if_neg (by omega), if_neg (by omega), if_neg (by have := ok.vs_pos; omega),
    if_neg (by have := ok.nb_pos; omega), hH, hbuflen]

/-! ### search over bytes = search over the abstract array -/

theorem searchB_eq (a : Array Ent) (get : Nat → Option Ent) (x : Nat)
    (hget : ∀ i (h : i < a.size), get i = some a[i]) (fuel idx : Nat) :
    searchB get x a.size fuel idx
      = match Eytz.search a x fuel idx with
        | some v => Look.found v
        | none => Look.notFound := by
  induction fuel generalizing idx with
  | zero => simp [searchB, Eytz.search]
  | succ f ih =>
    rw [searchB, Eytz.search]
    by_cases hi : idx < a.size
    · have hg : a.getD idx default = a[idx] := by simp [Array.getD, hi]
      rw [if_pos hi, if_pos hi, hget idx hi]
      simp only [hg]
      by_cases he : a[idx].1 = x
      · rw [if_pos he, if_pos he]
      · rw [if_neg he, if_neg he]; exact ih _
    · rw [if_neg hi, if_neg hi]

/-! ### `Lookup` over the bytes = the abstract lookup -/

theorem stride_eq (vs : Nat) (h : vs ≤ 255 - Generated.hashSize) : stride vs = Generated.hashSize + vs := by
  unfold stride; rw [hashSize_eq] at *; omega

theorem mask24 (x : Nat) : x &&& ((2^64 - 1) / 2^40) = x % 2 ^ (8 * Generated.hashSize) := by
  have : ((2:Nat)^64 - 1) / 2^40 = 2^24 - 1 := by decide
  rw [this, Nat.and_two_pow_sub_one_eq_mod]; rfl

/-- the shared bucket part of all three formats: in a file `header ‖ bucket table ‖ bucket bodies` shorter than
    2^48 bytes, the 16-byte record `i` of the table is the header of bucket `i` with an exact 48-bit offset, and
    reading `stride` bytes at `offset + idx * stride` yields stored entry `idx` -/
theorem bucket_reads (Hd : Bytes) (vs : Nat) (bs : List BucketA) (F : Bytes)
    (hF : F = (Hd ++ tableFrom vs bs (Hd.length + 16 * bs.length)) ++ bs.flatMap (bucketBody vs))
    (hsize : F.length < 2^48) (i : Nat) (hi : i < bs.length) :
    ∃ off, off < 2^48 ∧ rd F.toArray (Hd.length + 16 * i) 16 = some (bucketHeader bs[i] off) ∧
      ∀ idx (h : idx < bs[i].entries.size),
        rd F.toArray (off + idx * (Generated.hashSize + vs)) (Generated.hashSize + vs)
          = some (entryBytes vs bs[i].entries[idx]) := by
  obtain ⟨T, hT⟩ : ∃ T, T = tableFrom vs bs (Hd.length + 16 * bs.length) := ⟨_, rfl⟩
  obtain ⟨Bd, hBd⟩ : ∃ Bd, Bd = bs.flatMap (bucketBody vs) := ⟨_, rfl⟩
  rw [← hT, ← hBd] at hF
  have hTlen : T.length = 16 * bs.length := by rw [hT, tableFrom_length]
  have hFlen : F.length = Hd.length + T.length + Bd.length := by
    rw [hF, List.length_append, List.length_append]
  obtain ⟨hfit, hbody⟩ := bodies_slice vs bs i hi
  rw [← hBd] at hfit hbody
  refine ⟨Hd.length + 16 * bs.length + bodyOff vs bs i, by omega, ?_, ?_⟩
  · rw [rd_toArray, if_pos (by omega), hF]
    rw [slice_append_left (Hd ++ T) Bd _ _ (by rw [List.length_append]; omega), slice_append_right,
      hT, tableFrom_slice _ _ _ i hi]
  · intro idx hidx
    have hle : idx * (Generated.hashSize + vs) + (Generated.hashSize + vs)
        ≤ bs[i].entries.size * (Generated.hashSize + vs) := by
      have := Nat.mul_le_mul_right (Generated.hashSize + vs) (Nat.succ_le_of_lt hidx)
      rwa [Nat.succ_mul] at this
    have e1 : Hd.length + 16 * bs.length + bodyOff vs bs i + idx * (Generated.hashSize + vs)
        = (Hd ++ T).length + (bodyOff vs bs i + idx * (Generated.hashSize + vs)) := by
      rw [List.length_append, hTlen]; omega
    rw [rd_toArray, if_pos (by omega), hF, e1, slice_append_right]
    have := slice_slice Bd (bodyOff vs bs i) (bs[i].entries.size * (Generated.hashSize + vs))
      (idx * (Generated.hashSize + vs)) (Generated.hashSize + vs) hle
    rw [hbody, bucketBody_entry _ _ _ hidx] at this
    rw [← this]

/-- **`Lookup` over the bytes `Seal` wrote answers exactly what the abstract reader answers**, for every key
    (present, absent, or hashing outside the bucket table) -/
theorem lookupB_encode (hf : HF) (ix : IndexA) (ok : EncOk ix) (hv : ValsOk ix) (key : Bytes) :
    lookupB hf (encode ix).toArray
        ⟨ix.valueSize, ix.numBuckets, (headerBytes ix.valueSize ix.numBuckets ix.metaKVs).length, ix.metaKVs⟩ key
      = lookupA hf ix key := by
  obtain ⟨Hd, hHd⟩ : ∃ Hd, Hd = headerBytes ix.valueSize ix.numBuckets ix.metaKVs := ⟨_, rfl⟩
  have hF : encode ix = (Hd ++ tableFrom ix.valueSize ix.buckets (Hd.length + 16 * ix.buckets.length))
      ++ ix.buckets.flatMap (bucketBody ix.valueSize) := by
    rw [encode, ← hHd, ok.len]; rfl
  rw [← hHd]
  unfold lookupB lookupA
  simp only []
  cases hb : hf.bucket key ix.numBuckets with
  | none => rfl
  | some i =>
    simp only []
    by_cases hi : i < ix.numBuckets
    · have hil : i < ix.buckets.length := by rw [ok.len]; exact hi
      rw [if_neg (by omega), List.getElem?_eq_getElem hil]
      simp only []
      obtain ⟨off, hoff48, hrdH, hrdE⟩ := bucket_reads Hd ix.valueSize ix.buckets (encode ix) hF ok.size i hil
      obtain ⟨b, hbdef⟩ : ∃ b, b = ix.buckets[i] := ⟨_, rfl⟩
      rw [← hbdef] at hrdH hrdE ⊢
      have hmem : b ∈ ix.buckets := hbdef ▸ List.getElem_mem hil
      have hstr := stride_eq ix.valueSize ok.vs_le
      have hvs : ix.valueSize % 256 = ix.valueSize := by
        have := ok.vs_le; rw [hashSize_eq] at this; omega
      -- one stored entry, as `Lookup` decodes it
      have hget : ∀ idx (h : idx < b.entries.size),
          (if idx * (Generated.hashSize + ix.valueSize) + (Generated.hashSize + ix.valueSize)
                > b.entries.size * (Generated.hashSize + ix.valueSize) then none
            else match rd (encode ix).toArray (off + idx * (Generated.hashSize + ix.valueSize))
                  (Generated.hashSize + ix.valueSize) with
              | none => none
              | some eb => some (unle (eb.take 3), (eb.drop 3).take ix.valueSize)) = some b.entries[idx] := by
        intro idx hidx
        have hle : idx * (Generated.hashSize + ix.valueSize) + (Generated.hashSize + ix.valueSize)
            ≤ b.entries.size * (Generated.hashSize + ix.valueSize) := by
          have := Nat.mul_le_mul_right (Generated.hashSize + ix.valueSize) (Nat.succ_le_of_lt hidx)
          rwa [Nat.succ_mul] at this
        rw [if_neg (by omega), hrdE idx hidx]
        simp only []
        obtain ⟨d1, d2⟩ := entryBytes_decode ix.valueSize b.entries[idx] (ok.hash b hmem idx hidx) (hv b hmem idx hidx)
        rw [d1, d2]
      have hrdH' : rd (encode ix).toArray (Hd.length + Generated.bucketHdrLen * i) Generated.bucketHdrLen
          = some (bucketHeader b off) := hrdH
      simp only [hrdH', bucketHeader_nonce b off (ok.nonce b hmem), bucketHeader_count b off (ok.count b hmem),
        bucketHeader_hashLen, bucketHeader_off b off hoff48, hstr, hvs]
      have hsh : (64 + 256 - 3 * 8 % 256) % 256 = 40 := by decide
      simp only [hsh]
      rw [if_neg (by omega), mask24]
      exact searchB_eq b.entries _ _ hget (b.entries.size + 1) 0
    · rw [if_pos (by omega), List.getElem?_eq_none (by rw [ok.len]; omega)]

/-! ### an index produced by `buildA` satisfies the limits -/

theorem allSome_length {α : Type} : ∀ (l : List (Option α)) (r : List α), allSome l = some r → r.length = l.length
  | [], r, h => by simp [allSome] at h; subst h; rfl
  | none :: _, _, h => by simp [allSome] at h
  | some a :: l, r, h => by
    simp only [allSome] at h
    split at h
    · cases h
    · rename_i l' hl'
      simp only [Option.some.injEq] at h; subst h
      simp [allSome_length l l' hl']

/-- pointwise transfer through `allSome ∘ map` -/
theorem allSome_map_eq {α β γ : Type} (f : α → Option β) (g : β → γ) (k : α → γ)
    (hfk : ∀ x y, f x = some y → g y = k x) :
    ∀ (l : List α) (r : List β), allSome (l.map f) = some r → r.map g = l.map k
  | [], r, h => by simp [allSome] at h; subst h; rfl
  | a :: l, r, h => by
    simp only [List.map_cons] at h
    cases hfa : f a with
    | none => rw [hfa] at h; simp [allSome] at h
    | some y =>
      rw [hfa] at h
      simp only [allSome] at h
      split at h
      · cases h
      · rename_i l' hl'
        simp only [Option.some.injEq] at h; subst h
        simp [hfk a y hfa, allSome_map_eq f g k hfk l l' hl']

/-- every slot of an eytzinger layout holds an element of the input -/
theorem layout_getElem_mem (xs : List Ent) (p : Nat) (hp : p < (Eytz.layout xs.toArray).size) :
    (Eytz.layout xs.toArray)[p] ∈ xs := by
  have hs := Eytz.fill_spec xs.toArray xs.toArray.size 1 0 (Array.replicate xs.toArray.size default) (by omega) (by simp)
  obtain ⟨_, hsz, hval⟩ := hs
  have hp' : p < xs.toArray.size := by rw [← hsz]; exact hp
  have := hval (p+1) (by omega) (by omega)
  rw [show Eytz.inSubB 1 (p+1) = true from Eytz.inSub_one (p+1) (by omega)] at this
  simp only [Nat.add_sub_cancel, if_true] at this
  have hr := Eytz.rank_range xs.toArray.size (p+1) 1 0 (by omega) (Eytz.inSub_one (p+1) (by omega)) (by omega)
  rw [Eytz.size_one] at hr
  have hj : Eytz.rank xs.toArray.size 1 0 (p+1) < xs.length := by simpa using hr.2
  have e1 : (Eytz.layout xs.toArray)[p] = (Eytz.layout xs.toArray).getD p default := by simp [Array.getD, hp]
  rw [e1]
  unfold Eytz.layout
  rw [this, getD_toArray]
  simp only [List.getD, List.getElem?_eq_getElem hj, Option.getD_some]
  exact List.getElem_mem hj

theorem layout_size (xs : List Ent) : (Eytz.layout xs.toArray).size = xs.length := by
  have hs := Eytz.fill_spec xs.toArray xs.toArray.size 1 0 (Array.replicate xs.toArray.size default) (by omega) (by simp)
  simpa [Eytz.layout] using hs.2.1

/-- what a sealed bucket holds: a nonce below `mineAttempts`, one entry per inserted pair, each entry being
    `(24-bit hash of some inserted key, its value)` -/
theorem sealBucket_entries (hf : HF) (kvs : List KV) (b : BucketA) (h : sealBucket hf kvs = some b) :
    b.nonce < Generated.mineAttempts ∧ b.entries.size = kvs.length ∧
    ∀ i (hi : i < b.entries.size), ∃ kv ∈ kvs, b.entries[i] = (hf.entry b.nonce kv.key, kv.val) := by
  unfold sealBucket at h
  split at h
  · cases h
  · rename_i nonce sorted hm
    simp only [Option.some.injEq] at h; subst h
    obtain ⟨hperm, _⟩ := mine_strict hf kvs nonce sorted hm
    obtain ⟨_, _, _, hn⟩ := mineFrom_spec hf kvs _ _ _ _ hm
    refine ⟨by show nonce < Generated.mineAttempts; unfold mine at hm; omega, ?_, ?_⟩
    · show (Eytz.layout sorted.toArray).size = kvs.length
      rw [layout_size, hperm.length_eq]; simp [hashed]
    · intro i hi
      have hmem := layout_getElem_mem sorted i hi
      rw [hperm.mem_iff] at hmem
      unfold hashed at hmem
      obtain ⟨kv, hkv, he⟩ := List.mem_map.mp hmem
      exact ⟨kv, hkv, he.symm⟩

theorem entry_lt (hf : HF) (n : Nat) (k : Bytes) : hf.entry n k < 2^24 := by
  unfold HF.entry
  exact Nat.mod_lt _ (by decide)

/-- every bucket of a built index is the sealing of one of the `numBuckets` key classes -/
theorem bucket_mem_of_build (hf : HF) (vs declared : Nat) (m : List (Bytes × Bytes)) (kvs : List KV) (ix : IndexA)
    (h : buildA hf vs declared m kvs = .ok ix) :
    ix.buckets.length = ix.numBuckets ∧
    ∀ b ∈ ix.buckets, ∃ i, i < ix.numBuckets ∧ sealBucket hf (bucketKVs hf ix.numBuckets kvs i) = some b := by
  obtain ⟨_, _, _, _, hall⟩ := buildA_ok hf vs declared m kvs ix h
  have hlen : ix.buckets.length = ix.numBuckets := by simpa using allSome_length _ _ hall
  refine ⟨hlen, ?_⟩
  intro b hb
  obtain ⟨i, hi, rfl⟩ := List.getElem_of_mem hb
  obtain ⟨b', hb', hseal⟩ := bucket_of_build hf vs declared m kvs ix h i (by omega)
  rw [List.getElem?_eq_getElem hi] at hb'
  exact ⟨i, by omega, by rw [hseal, ← Option.some.inj hb']⟩

/-! total number of stored entries ≤ number of inserted pairs -/

theorem sum_map_add (l : List Nat) (f g : Nat → Nat) :
    (l.map fun i => f i + g i).sum = (l.map f).sum + (l.map g).sum := by
  induction l with
  | nil => rfl
  | cons x r ih => simp only [List.map_cons, List.sum_cons, ih]; omega

theorem sum_indicator (c : Option Nat) (n : Nat) :
    ((List.range n).map fun i => if c = some i then 1 else 0).sum ≤ 1 ∧
    (((List.range n).map fun i => if c = some i then 1 else 0).sum = 1 → ∃ j, j < n ∧ c = some j) := by
  induction n with
  | zero => simp
  | succ n ih =>
    rw [List.range_succ, List.map_append, List.sum_append]
    simp only [List.map_cons, List.map_nil, List.sum_cons, List.sum_nil, Nat.add_zero]
    by_cases hc : c = some n
    · have hz : ((List.range n).map fun i => if c = some i then 1 else 0).sum = 0 := by
        have h1 := ih.1
        have h2 := ih.2
        by_cases e : ((List.range n).map fun i => if c = some i then 1 else 0).sum = 1
        · obtain ⟨j, hj, hcj⟩ := h2 e
          rw [hc] at hcj
          have := Option.some.inj hcj
          omega
        · omega
      rw [hz, if_pos hc]
      exact ⟨by omega, fun _ => ⟨n, by omega, hc⟩⟩
    · rw [if_neg hc]
      refine ⟨by have := ih.1; omega, fun e => ?_⟩
      obtain ⟨j, hj, hcj⟩ := ih.2 (by omega)
      exact ⟨j, by omega, hcj⟩

theorem sum_bucketKVs_le (hf : HF) (nb : Nat) (kvs : List KV) :
    ((List.range nb).map fun i => (bucketKVs hf nb kvs i).length).sum ≤ kvs.length := by
  induction kvs with
  | nil =>
    have : ∀ l : List Nat, (l.map fun _ => 0).sum = 0 := by
      intro l; induction l with
      | nil => rfl
      | cons x r ih => simp [ih]
    simp [bucketKVs, this]
  | cons kv r ih =>
    have e : ∀ i, (bucketKVs hf nb (kv :: r) i).length
        = (if hf.bucket kv.key nb = some i then 1 else 0) + (bucketKVs hf nb r i).length := by
      intro i
      unfold bucketKVs
      rw [List.filter_cons]
      by_cases hc : hf.bucket kv.key nb = some i
      · simp [hc]; omega
      · simp [hc]
    simp only [e]
    rw [sum_map_add]
    have := (sum_indicator (hf.bucket kv.key nb) nb).1
    rw [List.length_cons]
    omega

theorem bodies_length (vs : Nat) (bs : List BucketA) :
    (bs.flatMap (bucketBody vs)).length = (bs.map fun b => b.entries.size).sum * (Generated.hashSize + vs) := by
  induction bs with
  | nil => simp
  | cons b r ih =>
    rw [bodies_cons, List.length_append, bucketBody_length, ih, List.map_cons, List.sum_cons, Nat.add_mul]

theorem encode_length (ix : IndexA) :
    (encode ix).length = 25 + (metaBytes ix.metaKVs).length + 16 * ix.buckets.length
      + (ix.buckets.map fun b => b.entries.size).sum * (Generated.hashSize + ix.valueSize) := by
  rw [encode, List.length_append, List.length_append, headerBytes_length, tableFrom_length, bodies_length]

/-- the number of stored entries of a built index is at most the number of inserted pairs -/
theorem entries_sum_le (hf : HF) (vs declared : Nat) (m : List (Bytes × Bytes)) (kvs : List KV) (ix : IndexA)
    (h : buildA hf vs declared m kvs = .ok ix) : (ix.buckets.map fun b => b.entries.size).sum ≤ kvs.length := by
  obtain ⟨_, _, _, _, hall⟩ := buildA_ok hf vs declared m kvs ix h
  have := allSome_map_eq (fun i => sealBucket hf (bucketKVs hf ix.numBuckets kvs i)) (fun b => b.entries.size)
    (fun i => (bucketKVs hf ix.numBuckets kvs i).length)
    (fun i b hb => (sealBucket_entries hf _ b hb).2.1) _ _ hall
  rw [this]
  exact sum_bucketKVs_le hf ix.numBuckets kvs

/-- metadata within the `indexmeta` limits -/
def MetaOk (m : List (Bytes × Bytes)) : Prop :=
  m.length ≤ Generated.metaMaxNumKVs ∧ ∀ kv ∈ m, kv.1.length ≤ Generated.metaMaxKeySize ∧ kv.2.length ≤ Generated.metaMaxValueSize

/-- the file of a built index is shorter than 2^48 bytes (so the `uint48` file offsets are exact) as soon as the
    bucket count and the item count fit `uint32` -/
theorem encode_length_lt (hf : HF) (vs declared : Nat) (m : List (Bytes × Bytes)) (kvs : List KV) (ix : IndexA)
    (h : buildA hf vs declared m kvs = .ok ix) (hm : MetaOk m) (hvs : vs ≤ 255)
    (hnb : numBucketsFor declared < 2^32) (hn : kvs.length < 2^32) : (encode ix).length < 2^48 := by
  obtain ⟨e1, e2, e3, _, _⟩ := buildA_ok hf vs declared m kvs ix h
  obtain ⟨hlen, _⟩ := bucket_mem_of_build hf vs declared m kvs ix h
  have hsum := entries_sum_le hf vs declared m kvs ix h
  have hmb := metaBytes_length_le m hm.2
  have hml := hm.1
  simp only [Generated.metaMaxNumKVs] at hml
  rw [encode_length, hlen, e1, e2, e3, hashSize_eq]
  have hmul : (ix.buckets.map fun b => b.entries.size).sum * (3 + vs) ≤ kvs.length * 258 :=
    Nat.mul_le_mul hsum (by omega)
  omega

/-- per-bucket limits of a built index: nonces and counts fit `uint32`, stored hashes fit `HashSize` bytes -/
theorem buckets_of_build (hf : HF) (vs declared : Nat) (m : List (Bytes × Bytes)) (kvs : List KV) (ix : IndexA)
    (h : buildA hf vs declared m kvs = .ok ix) (hn : kvs.length < 2^32) :
    (∀ b ∈ ix.buckets, b.nonce < 2^32) ∧ (∀ b ∈ ix.buckets, b.entries.size < 2^32) ∧
    (∀ b ∈ ix.buckets, ∀ i (h : i < b.entries.size), b.entries[i].1 < 2^24) := by
  obtain ⟨_, hbk⟩ := bucket_mem_of_build hf vs declared m kvs ix h
  refine ⟨?_, ?_, ?_⟩
  · intro b hb
    obtain ⟨i, _, hs⟩ := hbk b hb
    have := (sealBucket_entries hf _ b hs).1
    simp only [Generated.mineAttempts] at this
    omega
  · intro b hb
    obtain ⟨i, _, hs⟩ := hbk b hb
    have h1 := (sealBucket_entries hf _ b hs).2.1
    have h2 : (bucketKVs hf ix.numBuckets kvs i).length ≤ kvs.length := List.length_filter_le _ _
    omega
  · intro b hb j hj
    obtain ⟨i, _, hs⟩ := hbk b hb
    obtain ⟨kv, _, he⟩ := (sealBucket_entries hf _ b hs).2.2 j hj
    rw [he]
    exact entry_lt hf _ _

/-- what `buildA` guarantees about its parameters -/
theorem params_of_build (hf : HF) (vs declared : Nat) (m : List (Bytes × Bytes)) (kvs : List KV) (ix : IndexA)
    (h : buildA hf vs declared m kvs = .ok ix) : 0 < vs ∧ vs ≤ 255 ∧ 0 < numBucketsFor declared := by
  have hpar : ¬ (vs = 0 ∨ vs > 255 ∨ declared = 0) := by
    intro hbad
    unfold buildA at h
    rw [if_pos hbad] at h
    cases h
  refine ⟨by omega, by omega, ?_⟩
  unfold numBucketsFor
  simp only [Generated.targetEntriesPerBucket]
  omega

/-- **a built index satisfies every limit of the format**, under size hypotheses on the inputs only -/
theorem encOk_of_build (hf : HF) (vs declared : Nat) (m : List (Bytes × Bytes)) (kvs : List KV) (ix : IndexA)
    (h : buildA hf vs declared m kvs = .ok ix) (hm : MetaOk m) (hvs : vs ≤ 255 - Generated.hashSize)
    (hnb : numBucketsFor declared < 2^32) (hn : kvs.length < 2^32) : EncOk ix := by
  obtain ⟨e1, e2, e3, _, _⟩ := buildA_ok hf vs declared m kvs ix h
  obtain ⟨hlen, _⟩ := bucket_mem_of_build hf vs declared m kvs ix h
  obtain ⟨p1, p2, p3⟩ := params_of_build hf vs declared m kvs ix h
  obtain ⟨b1, b2, b3⟩ := buckets_of_build hf vs declared m kvs ix h hn
  exact ⟨by omega, by omega, by omega, by omega, hlen, by rw [e3]; exact hm.1, by rw [e3]; exact hm.2, b1, b2, b3,
    encode_length_lt hf vs declared m kvs ix h hm (by rw [hashSize_eq] at hvs; omega) hnb hn⟩

/-- when only `valueSize`-byte values are inserted, only such values are stored -/
theorem valsOk_of_build (hf : HF) (vs declared : Nat) (m : List (Bytes × Bytes)) (kvs : List KV) (ix : IndexA)
    (h : buildA hf vs declared m kvs = .ok ix) (hval : ∀ kv ∈ kvs, kv.val.length = vs) : ValsOk ix := by
  obtain ⟨e1, _, _, _, _⟩ := buildA_ok hf vs declared m kvs ix h
  obtain ⟨_, hbk⟩ := bucket_mem_of_build hf vs declared m kvs ix h
  intro b hb j hj
  obtain ⟨i, _, hs⟩ := hbk b hb
  obtain ⟨kv, hkv, he⟩ := (sealBucket_entries hf _ b hs).2.2 j hj
  rw [he, e1]
  unfold bucketKVs at hkv
  exact hval kv (List.mem_filter.mp hkv).1

end CI

import Faithful.Lib.Stream
/-!
# Lemmas about the streaming model (core Lean only)
-/
namespace Stream

/-! ## the predicate -/

theorem hasAccount_iff (t : Tx) (a : Acct) : hasAccount t a = true ↔ a ∈ t.accts := by
  simp [hasAccount]

/-- the account part of the repaired closure, as a proposition -/
def acctsOk (f : Filter) (t : Tx) : Prop :=
  (∀ a ∈ f.exc, a ∉ t.accts) ∧ (∀ a ∈ f.req, a ∈ t.accts)

def flagsOk (f : Filter) (t : Tx) : Prop :=
  (f.vote ≠ some false ∨ t.isVote = false) ∧ (f.failed ≠ some false ∨ t.failed = false)

theorem matchesFilter_some_iff (g : Bool) (f : Filter) (t : Tx) :
    matchesFilter g (some f) t = true ↔
      flagsOk f t ∧ (g = true ∨ f.inc = [] ∨ ∃ a ∈ f.inc, a ∈ t.accts) ∧ acctsOk f t := by
  rcases f with ⟨v, fl, inc, exc, req⟩
  simp only [matchesFilter, flagsOk, acctsOk]
  have hany : ∀ l : List Acct, (l.any (hasAccount t) = true) ↔ ∃ a ∈ l, a ∈ t.accts := by
    intro l; simp [List.any_eq_true, hasAccount_iff]
  have hall : ∀ l : List Acct, (l.all (hasAccount t) = true) ↔ ∀ a ∈ l, a ∈ t.accts := by
    intro l; simp [List.all_eq_true, hasAccount_iff]
  by_cases h1 : (v == some false && t.isVote) = true
  · simp only [h1, if_true]
    have : v = some false ∧ t.isVote = true := by simpa using h1
    simp [this.1, this.2]
  · simp only [h1]
    have hv : v ≠ some false ∨ t.isVote = false := by
      by_cases hv : v = some false
      · right; cases hvt : t.isVote <;> simp_all
      · left; exact hv
    by_cases h2 : (fl == some false && t.failed) = true
    · simp only [h2, if_true]
      have : fl = some false ∧ t.failed = true := by simpa using h2
      simp [this.1, this.2]
    · simp only [h2]
      have hf : fl ≠ some false ∨ t.failed = false := by
        by_cases hf : fl = some false
        · right; cases hft : t.failed <;> simp_all
        · left; exact hf
      by_cases h3 : (!g && !inc.isEmpty && !(inc.any (hasAccount t))) = true
      · simp only [h3, if_true]
        have h3' : g = false ∧ inc ≠ [] ∧ ¬ (inc.any (hasAccount t) = true) := by
          simpa [List.isEmpty_iff, and_assoc] using h3
        have hno : ¬ ∃ a ∈ inc, a ∈ t.accts := fun h => h3'.2.2 ((hany inc).2 h)
        simp [h3'.1, h3'.2.1, hno]
      · simp only [h3]
        have hinc : g = true ∨ inc = [] ∨ ∃ a ∈ inc, a ∈ t.accts := by
          cases g with
          | true => left; rfl
          | false =>
            right
            by_cases hi : inc = []
            · left; exact hi
            · right
              apply (hany inc).1
              cases ha : inc.any (hasAccount t) with
              | true => rfl
              | false =>
                exfalso; apply h3
                have : inc.isEmpty = false := by
                  cases hie : inc.isEmpty with
                  | false => rfl
                  | true => exact absurd (List.isEmpty_iff.1 hie) hi
                simp [this, ha]
        by_cases h4 : exc.any (hasAccount t) = true
        · simp only [h4, if_true]
          have := (hany exc).1 h4
          obtain ⟨a, ha, hat⟩ := this
          constructor
          · intro h; exact absurd h (by simp)
          · intro h; exact absurd hat (h.2.2.1 a ha)
        · simp only [h4]
          have hexc : ∀ a ∈ exc, a ∉ t.accts := fun a ha hat => h4 ((hany exc).2 ⟨a, ha, hat⟩)
          by_cases h5 : (!(req.all (hasAccount t))) = true
          · simp only [h5, if_true]
            have h5' : ¬ (req.all (hasAccount t) = true) := by simpa using h5
            constructor
            · intro h; exact absurd h (by simp)
            · intro h; exact absurd ((hall req).2 h.2.2.2) h5'
          · simp only [h5]
            have h5' : req.all (hasAccount t) = true := by simpa using h5
            have hreq := (hall req).1 h5'
            exact ⟨fun _ => ⟨⟨hv, hf⟩, hinc, hexc, hreq⟩, fun _ => rfl⟩

theorem wantTx_some_iff (f : Filter) (t : Tx) :
    wantTx (some f) t ↔ flagsOk f t ∧ (f.inc = [] ∨ ∃ a ∈ f.inc, a ∈ t.accts) ∧ acctsOk f t := by
  simp only [wantTx, flagsOk, acctsOk]
  constructor
  · rintro ⟨a, b, c, d, e⟩; exact ⟨⟨a, b⟩, c, d, e⟩
  · rintro ⟨⟨a, b⟩, c, d, e⟩; exact ⟨a, b, c, d, e⟩

/-- the predicate of the scan path is the property's predicate -/
theorem sendScan_false_iff (f : Option Filter) (t : Tx) : sendScan false f t = true ↔ wantTx f t := by
  cases f with
  | none => simp [sendScan, matchesFilter, wantTx]
  | some f =>
    rw [sendScan, matchesFilter_some_iff, wantTx_some_iff]
    simp

/-- with an empty include list (or no filter) the captured flag does not matter -/
theorem sendScan_of_no_include (g : Bool) (f : Option Filter) (h : ∀ fl, f = some fl → fl.inc = []) (t : Tx) :
    sendScan g f t = true ↔ wantTx f t := by
  cases f with
  | none => simp [sendScan, matchesFilter, wantTx]
  | some f =>
    rw [sendScan, matchesFilter_some_iff, wantTx_some_iff]
    simp [h f rfl]

/-- the predicate at the index send site, for a transaction that mentions one of the included accounts -/
theorem sendIndex_iff (f : Filter) (t : Tx) :
    ((∃ a ∈ f.inc, a ∈ t.accts) ∧ sendIndex f t = true) ↔ (f.inc ≠ [] ∧ wantTx (some f) t) ∨ False := by
  rw [sendIndex, matchesFilter_some_iff, wantTx_some_iff]
  constructor
  · rintro ⟨⟨a, ha, hat⟩, hfl, _, hacc⟩
    left
    refine ⟨?_, hfl, Or.inr ⟨a, ha, hat⟩, hacc⟩
    intro h; rw [h] at ha; cases ha
  · rintro (⟨hne, hfl, hinc, hacc⟩ | h)
    · rcases hinc with h | h
      · exact absurd h hne
      · exact ⟨h, hfl, Or.inl rfl, hacc⟩
    · exact absurd h id

/-! ## injectivity from strict order -/

theorem inj_of_pairwise_lt {α : Type} (f : α → Nat) :
    ∀ {l : List α}, l.Pairwise (fun a b => f a < f b) → ∀ {a b}, a ∈ l → b ∈ l → f a = f b → a = b
  | [], _, _, _, ha, _, _ => by cases ha
  | x :: t, hp, a, b, ha, hb, hab => by
    rw [List.pairwise_cons] at hp
    rcases List.mem_cons.1 ha with rfl | ha' <;> rcases List.mem_cons.1 hb with rfl | hb'
    · rfl
    · have := hp.1 b hb'; omega
    · have := hp.1 a ha'; omega
    · exact inj_of_pairwise_lt f hp.2 ha' hb' hab

/-- two strictly ascending lists with the same elements are equal -/
theorem ext_of_pairwise_lt {α : Type} (f : α → Nat) :
    ∀ {l₁ l₂ : List α}, l₁.Pairwise (fun a b => f a < f b) → l₂.Pairwise (fun a b => f a < f b) →
      (∀ u, u ∈ l₁ ↔ u ∈ l₂) → l₁ = l₂
  | [], [], _, _, _ => rfl
  | [], y :: _, _, _, h => by have := (h y).2 (List.mem_cons_self); cases this
  | x :: _, [], _, _, h => by have := (h x).1 (List.mem_cons_self); cases this
  | x :: t₁, y :: t₂, h₁, h₂, h => by
    rw [List.pairwise_cons] at h₁ h₂
    have hxy : x = y := by
      have hx := (h x).1 List.mem_cons_self
      have hy := (h y).2 List.mem_cons_self
      rcases List.mem_cons.1 hx with rfl | hx'
      · rfl
      · rcases List.mem_cons.1 hy with rfl | hy'
        · rfl
        · have := h₂.1 x hx'; have := h₁.1 y hy'; omega
    subst hxy
    congr 1
    apply ext_of_pairwise_lt f h₁.2 h₂.2
    intro u
    constructor
    · intro hu
      have := (h u).1 (List.mem_cons_of_mem _ hu)
      rcases List.mem_cons.1 this with rfl | h'
      · have := h₁.1 u hu; omega
      · exact h'
    · intro hu
      have := (h u).2 (List.mem_cons_of_mem _ hu)
      rcases List.mem_cons.1 this with rfl | h'
      · have := h₂.1 u hu; omega
      · exact h'

/-! ## well-formed archives -/

theorem WF.tail {P : Params} {e : Epoch} {es : List Epoch} (h : WF P (e :: es)) : WF P es where
  lenPos := h.lenPos
  epochsAsc := (List.pairwise_cons.1 h.epochsAsc).2
  blocksAsc := fun e' he' => h.blocksAsc e' (List.mem_cons_of_mem _ he')
  inEpoch := fun e' he' => h.inEpoch e' (List.mem_cons_of_mem _ he')
  txSlot := fun e' he' => h.txSlot e' (List.mem_cons_of_mem _ he')
  txPos := fun e' he' => h.txPos e' (List.mem_cons_of_mem _ he')

theorem mem_allBlocks {es : List Epoch} {b : Block} : b ∈ allBlocks es ↔ ∃ e ∈ es, b ∈ e.blocks := by
  simp [allBlocks, List.mem_flatMap]

theorem slot_lt_of_epoch_lt {P : Params} {es : List Epoch} (h : WF P es) {e₁ e₂ : Epoch} (h₁ : e₁ ∈ es) (h₂ : e₂ ∈ es)
    (hlt : e₁.num < e₂.num) {b₁ b₂ : Block} (hb₁ : b₁ ∈ e₁.blocks) (hb₂ : b₂ ∈ e₂.blocks) : b₁.slot < b₂.slot := by
  have a := h.inEpoch e₁ h₁ b₁ hb₁
  have b := h.inEpoch e₂ h₂ b₂ hb₂
  apply Nat.lt_of_not_le
  intro hle
  have := Nat.div_le_div_right (c := P.epochLen) hle
  omega

theorem allBlocks_sorted {P : Params} {es : List Epoch} (h : WF P es) :
    (allBlocks es).Pairwise (fun a b => a.slot < b.slot) := by
  unfold allBlocks
  rw [List.pairwise_flatMap]
  refine ⟨h.blocksAsc, ?_⟩
  refine List.Pairwise.imp_of_mem ?_ h.epochsAsc
  intro e₁ e₂ h₁ h₂ hlt b₁ hb₁ b₂ hb₂
  exact slot_lt_of_epoch_lt h h₁ h₂ hlt hb₁ hb₂

theorem getBlock_iff {P : Params} {es : List Epoch} (h : WF P es) (s : Nat) (b : Block) :
    getBlock P es s = some b ↔ b ∈ allBlocks es ∧ b.slot = s := by
  constructor
  · intro hg
    unfold getBlock at hg
    split at hg
    · cases hg
    · rename_i e he
      have hem := List.mem_of_find?_eq_some he
      have hbm := List.mem_of_find?_eq_some hg
      have hbs := List.find?_some hg
      exact ⟨mem_allBlocks.2 ⟨e, hem, hbm⟩, by simpa using hbs⟩
  · rintro ⟨hm, hs⟩
    obtain ⟨e, he, hb⟩ := mem_allBlocks.1 hm
    have hnum : e.num = s / P.epochLen := by rw [← hs]; exact (h.inEpoch e he b hb).symm
    unfold getBlock
    cases hf : es.find? (fun e => e.num == s / P.epochLen) with
    | none =>
      have := List.find?_eq_none.1 hf e he
      exact absurd (by simpa using hnum) this
    | some e' =>
      have he'm := List.mem_of_find?_eq_some hf
      have he'n : e'.num = s / P.epochLen := by simpa using List.find?_some hf
      have : e' = e := inj_of_pairwise_lt (fun e => e.num) h.epochsAsc he'm he (by rw [he'n, hnum])
      subst this
      simp only
      cases hf2 : e'.blocks.find? (fun b => b.slot == s) with
      | none =>
        have := List.find?_eq_none.1 hf2 b hb
        exact absurd (by simpa using hs) this
      | some b' =>
        have hb'm := List.mem_of_find?_eq_some hf2
        have hb's : b'.slot = s := by simpa using List.find?_some hf2
        have : b' = b := inj_of_pairwise_lt (fun b => b.slot) (h.blocksAsc e' he) hb'm hb (by rw [hb's, hs])
        rw [this]

theorem getBlock_none_iff {P : Params} {es : List Epoch} (h : WF P es) (s : Nat) :
    getBlock P es s = none ↔ ∀ b ∈ allBlocks es, b.slot ≠ s := by
  constructor
  · intro hn b hb hs
    have := (getBlock_iff h s b).2 ⟨hb, hs⟩
    rw [hn] at this; cases this
  · intro hall
    cases hg : getBlock P es s with
    | none => rfl
    | some b =>
      have := (getBlock_iff h s b).1 hg
      exact absurd this.2 (hall b this.1)

/-! ## the slot loop equals a filter of the ascending block list -/

theorem filter_slot_eq_sorted {bs : List Block} (hs : bs.Pairwise (fun a b => a.slot < b.slot)) (s : Nat) :
    bs.filter (fun b => b.slot == s) = (bs.find? (fun b => b.slot == s)).toList := by
  induction bs with
  | nil => rfl
  | cons x t ih =>
    rw [List.pairwise_cons] at hs
    by_cases hx : x.slot = s
    · have : t.filter (fun b => b.slot == s) = [] := by
        rw [List.filter_eq_nil_iff]
        intro a ha
        have := hs.1 a ha
        simp; omega
      simp [hx, this]
    · have := ih hs.2
      simp [hx, this]

theorem filter_range_split {bs : List Block} (hs : bs.Pairwise (fun a b => a.slot < b.slot)) (s n : Nat) :
    bs.filter (fun b => s ≤ b.slot && b.slot < s + (n + 1)) =
      bs.filter (fun b => b.slot == s) ++ bs.filter (fun b => s + 1 ≤ b.slot && b.slot < s + 1 + n) := by
  induction bs with
  | nil => rfl
  | cons x t ih =>
    rw [List.pairwise_cons] at hs
    have iht := ih hs.2
    rcases Nat.lt_trichotomy x.slot s with hlt | heq | hgt
    · have h1 : ¬ (s ≤ x.slot) := by omega
      have h2 : ¬ (x.slot = s) := by omega
      have h3 : ¬ (s + 1 ≤ x.slot) := by omega
      simp only [List.filter_cons, h1, h2, h3, decide_false, Bool.false_and, beq_iff_eq, if_false, Bool.false_eq_true]
      exact iht
    · subst heq
      have hnil : t.filter (fun b => b.slot == x.slot) = [] := by
        rw [List.filter_eq_nil_iff]; intro a ha; have := hs.1 a ha; simp; omega
      have hcongr : t.filter (fun b => decide (x.slot ≤ b.slot) && decide (b.slot < x.slot + (n + 1))) =
          t.filter (fun b => decide (x.slot + 1 ≤ b.slot) && decide (b.slot < x.slot + 1 + n)) := by
        apply List.filter_congr; intro a ha; have := hs.1 a ha
        have e1 : decide (x.slot ≤ a.slot) = true := by simp; omega
        have e2 : decide (x.slot + 1 ≤ a.slot) = true := by simp; omega
        have e3 : decide (a.slot < x.slot + (n + 1)) = decide (a.slot < x.slot + 1 + n) := by
          apply decide_eq_decide.2; omega
        simp only [e1, e2, e3]
      have c1 : (decide (x.slot ≤ x.slot) && decide (x.slot < x.slot + (n + 1))) = true := by simp
      have c3 : (decide (x.slot + 1 ≤ x.slot) && decide (x.slot < x.slot + 1 + n)) = false := by simp; omega
      simp only [List.filter_cons, c1, c3, beq_self_eq_true, if_true, Bool.false_eq_true, if_false]
      rw [hnil, hcongr]
      rfl
    · have h2 : ¬ (x.slot = s) := by omega
      have hnil : t.filter (fun b => b.slot == s) = [] := by
        rw [List.filter_eq_nil_iff]; intro a ha; have := hs.1 a ha; simp; omega
      have hcongr : (x :: t).filter (fun b => decide (s ≤ b.slot) && decide (b.slot < s + (n + 1))) =
          (x :: t).filter (fun b => decide (s + 1 ≤ b.slot) && decide (b.slot < s + 1 + n)) := by
        apply List.filter_congr; intro a ha
        have hge : s + 1 ≤ a.slot := by
          rcases List.mem_cons.1 ha with rfl | ha'
          · omega
          · have := hs.1 a ha'; omega
        have e1 : decide (s ≤ a.slot) = true := by simp; omega
        have e2 : decide (s + 1 ≤ a.slot) = true := by simp; omega
        have e3 : decide (a.slot < s + (n + 1)) = decide (a.slot < s + 1 + n) := by
          apply decide_eq_decide.2; omega
        simp only [e1, e2, e3]
      rw [hcongr]
      have : (x :: t).filter (fun b => b.slot == s) = [] := by
        simp only [List.filter_cons, beq_iff_eq, h2, if_false, hnil]
      rw [this]; rfl

/-- the per-slot loop visits exactly the archived blocks of the range, in ascending order -/
theorem scanSlots_spec {α : Type} {P : Params} {es : List Epoch} (h : WF P es) (g : Block → List α) :
    ∀ n s, scanSlots P es g s n =
      ((allBlocks es).filter (fun b => s ≤ b.slot && b.slot < s + n)).flatMap g := by
  intro n
  induction n with
  | zero =>
    intro s
    have : (allBlocks es).filter (fun b => decide (s ≤ b.slot) && decide (b.slot < s + 0)) = [] := by
      rw [List.filter_eq_nil_iff]; intro a _; simp
    rw [this]; rfl
  | succ n ih =>
    intro s
    have hs := allBlocks_sorted h
    rw [scanSlots, ih (s + 1), filter_range_split hs, List.flatMap_append, filter_slot_eq_sorted hs]
    congr 1
    cases hg : getBlock P es s with
    | none =>
      have hnone := (getBlock_none_iff h s).1 hg
      have : (allBlocks es).find? (fun b => b.slot == s) = none := by
        rw [List.find?_eq_none]; intro b hb; simpa using hnone b hb
      simp [this]
    | some b =>
      have hb := (getBlock_iff h s b).1 hg
      cases hf : (allBlocks es).find? (fun b => b.slot == s) with
      | none =>
        have := List.find?_eq_none.1 hf b hb.1
        exact absurd (by simpa using hb.2) this
      | some b' =>
        have hb'm := List.mem_of_find?_eq_some hf
        have hb's : b'.slot = s := by simpa using List.find?_some hf
        have : b' = b := inj_of_pairwise_lt (fun b => b.slot) hs hb'm hb.1 (by rw [hb's, hb.2])
        simp [this]

theorem filter_nSlots (bs : List Block) (lo hi : Nat) :
    bs.filter (fun b => lo ≤ b.slot && b.slot < lo + nSlots lo hi) = bs.filter (fun b => lo ≤ b.slot && b.slot ≤ hi) := by
  apply List.filter_congr
  intro b _
  unfold nSlots
  by_cases h1 : lo ≤ b.slot
  · have : decide (b.slot < lo + (hi + 1 - lo)) = decide (b.slot ≤ hi) := by
      apply decide_eq_decide.2; omega
    simp [this]
  · simp [h1]

theorem scanRange_spec {α : Type} {P : Params} {es : List Epoch} (h : WF P es) (g : Block → List α) (lo hi : Nat) :
    scanSlots P es g lo (nSlots lo hi) = (blocksIn es lo hi).flatMap g := by
  rw [scanSlots_spec h, filter_nSlots]; rfl

theorem scanSlots_congr {α : Type} {P : Params} {es : List Epoch} (g₁ g₂ : Block → List α) :
    ∀ n s, (∀ s', s ≤ s' → s' < s + n → ∀ b, getBlock P es s' = some b → g₁ b = g₂ b) →
      scanSlots P es g₁ s n = scanSlots P es g₂ s n := by
  intro n
  induction n with
  | zero => intro s _; rfl
  | succ n ih =>
    intro s hh
    rw [scanSlots, scanSlots, ih (s + 1) (fun s' h1 h2 b hb => hh s' (by omega) (by omega) b hb)]
    congr 1
    cases hg : getBlock P es s with
    | none => rfl
    | some b => exact hh s (Nat.le_refl _) (by omega) b hg

/-! ## txBuffer: one slot -/

theorem mem_insertTx {t : Tx} : ∀ {acc : List Tx}, acc.Pairwise (fun a b => a.pos < b.pos) →
    ∀ u, u ∈ insertTx t acc ↔ u = t ∨ (u ∈ acc ∧ u.pos ≠ t.pos)
  | [], _, u => by simp [insertTx]
  | x :: xs, hp, u => by
    rw [List.pairwise_cons] at hp
    unfold insertTx
    by_cases h1 : t.pos < x.pos
    · simp only [h1, if_true, List.mem_cons]
      constructor
      · rintro (h | h | h)
        · exact Or.inl h
        · right; exact ⟨Or.inl h, by subst h; omega⟩
        · right; exact ⟨Or.inr h, by have := hp.1 u h; omega⟩
      · rintro (h | ⟨h | h, _⟩)
        · exact Or.inl h
        · exact Or.inr (Or.inl h)
        · exact Or.inr (Or.inr h)
    · simp only [h1, if_false]
      by_cases h2 : t.pos = x.pos
      · simp only [h2, if_true, List.mem_cons]
        constructor
        · rintro (h | h)
          · exact Or.inl h
          · right; exact ⟨Or.inr h, by have := hp.1 u h; omega⟩
        · rintro (h | ⟨h | h, hne⟩)
          · exact Or.inl h
          · subst h; exact absurd rfl hne
          · exact Or.inr h
      · simp only [h2, if_false, List.mem_cons]
        rw [mem_insertTx hp.2 u]
        constructor
        · rintro (h | h | ⟨h, hne⟩)
          · right; exact ⟨Or.inl h, by subst h; omega⟩
          · exact Or.inl h
          · right; exact ⟨Or.inr h, hne⟩
        · rintro (h | ⟨h | h, hne⟩)
          · exact Or.inr (Or.inl h)
          · exact Or.inl h
          · exact Or.inr (Or.inr ⟨h, hne⟩)

theorem sorted_insertTx {t : Tx} : ∀ {acc : List Tx}, acc.Pairwise (fun a b => a.pos < b.pos) →
    (insertTx t acc).Pairwise (fun a b => a.pos < b.pos)
  | [], _ => by simp [insertTx]
  | x :: xs, hp => by
    have hp' := List.pairwise_cons.1 hp
    unfold insertTx
    by_cases h1 : t.pos < x.pos
    · simp only [h1, if_true]
      refine List.pairwise_cons.2 ⟨?_, hp⟩
      intro u hu
      rcases List.mem_cons.1 hu with rfl | hu'
      · exact h1
      · have := hp'.1 u hu'; omega
    · simp only [h1, if_false]
      by_cases h2 : t.pos = x.pos
      · simp only [h2, if_true]
        refine List.pairwise_cons.2 ⟨?_, hp'.2⟩
        intro u hu; have := hp'.1 u hu; omega
      · simp only [h2, if_false]
        refine List.pairwise_cons.2 ⟨?_, sorted_insertTx hp'.2⟩
        intro u hu
        rcases (mem_insertTx hp'.2 u).1 hu with rfl | ⟨hu', _⟩
        · omega
        · exact hp'.1 u hu'

/-- the items of one slot after all writes: ascending by index, and exactly the written transactions (when they all
come from a list with distinct indexes) -/
theorem foldl_insertTx (T : List Tx) (hinj : ∀ u v, u ∈ T → v ∈ T → u.pos = v.pos → u = v) :
    ∀ (l acc : List Tx), (∀ u ∈ l, u ∈ T) → (∀ u ∈ acc, u ∈ T) → acc.Pairwise (fun a b => a.pos < b.pos) →
      (l.foldl (fun acc t => insertTx t acc) acc).Pairwise (fun a b => a.pos < b.pos) ∧
      ∀ u, u ∈ l.foldl (fun acc t => insertTx t acc) acc ↔ u ∈ acc ∨ u ∈ l
  | [], acc, _, _, hp => ⟨hp, fun u => by simp⟩
  | t :: l, acc, hl, ha, hp => by
    rw [List.foldl_cons]
    have hmem : ∀ u, u ∈ insertTx t acc ↔ u = t ∨ u ∈ acc := by
      intro u
      rw [mem_insertTx hp u]
      constructor
      · rintro (h | ⟨h, _⟩)
        · exact Or.inl h
        · exact Or.inr h
      · rintro (h | h)
        · exact Or.inl h
        · by_cases hpos : u.pos = t.pos
          · left; exact hinj u t (ha u h) (hl t List.mem_cons_self) hpos
          · right; exact ⟨h, hpos⟩
    have hT : ∀ u ∈ insertTx t acc, u ∈ T := by
      intro u hu
      rcases (hmem u).1 hu with rfl | h
      · exact hl _ List.mem_cons_self
      · exact ha u h
    obtain ⟨r1, r2⟩ := foldl_insertTx T hinj l (insertTx t acc) (fun u hu => hl u (List.mem_cons_of_mem _ hu)) hT
      (sorted_insertTx hp)
    refine ⟨r1, fun u => ?_⟩
    rw [r2 u, hmem u, List.mem_cons]
    constructor
    · rintro ((h | h) | h)
      · exact Or.inr (Or.inl h)
      · exact Or.inl h
      · exact Or.inr (Or.inr h)
    · rintro (h | h | h)
      · exact Or.inl (Or.inr h)
      · exact Or.inl (Or.inl h)
      · exact Or.inr h

/-- `b.items[s]` in flush order = the block's transactions that were added, in block order -/
theorem slotItems_eq (buf : List Tx) (s : Nat) (T : List Tx) (hT : T.Pairwise (fun a b => a.pos < b.pos))
    (hsub : ∀ u ∈ buf, u.slot = s → u ∈ T) (hslot : ∀ u ∈ T, u.slot = s) :
    slotItems buf s = T.filter (fun u => decide (u ∈ buf)) := by
  have hinj : ∀ u v, u ∈ T → v ∈ T → u.pos = v.pos → u = v :=
    fun u v hu hv h => inj_of_pairwise_lt (fun t => t.pos) hT hu hv h
  have hitems : ∀ u ∈ buf.filter (fun t => t.slot == s), u ∈ T := by
    intro u hu
    rw [List.mem_filter] at hu
    exact hsub u hu.1 (by simpa using hu.2)
  obtain ⟨r1, r2⟩ := foldl_insertTx T hinj (buf.filter (fun t => t.slot == s)) [] hitems (by simp) List.Pairwise.nil
  apply ext_of_pairwise_lt (fun t => t.pos) r1 (hT.filter _)
  intro u
  unfold slotItems at *
  rw [r2 u, List.mem_filter, List.mem_filter]
  constructor
  · rintro (h | ⟨h1, h2⟩)
    · cases h
    · exact ⟨hsub u h1 (by simpa using h2), by simpa using h1⟩
  · rintro ⟨h1, h2⟩
    right
    exact ⟨by simpa using h2, by simpa using hslot u h1⟩

/-! ## flush = block scan restricted to the buffered transactions -/

/-- every buffered transaction is an archived one -/
def Archived (es : List Epoch) (buf : List Tx) : Prop :=
  ∀ t ∈ buf, ∃ e ∈ es, ∃ b ∈ e.blocks, t ∈ b.txs

theorem flushSlots_eq_scan {P : Params} {es : List Epoch} (h : WF P es) (buf : List Tx) (ha : Archived es buf) :
    ∀ n s, flushSlots buf s n = scanSlots P es (fun b => b.txs.filter (fun t => decide (t ∈ buf))) s n := by
  intro n
  induction n with
  | zero => intro s; rfl
  | succ n ih =>
    intro s
    rw [flushSlots, scanSlots, ih (s + 1)]
    congr 1
    -- a buffered transaction of slot s lies in the block of slot s
    have key : ∀ u ∈ buf, u.slot = s → ∃ b, getBlock P es s = some b ∧ u ∈ b.txs := by
      intro u hu hus
      obtain ⟨e, he, b, hb, hub⟩ := ha u hu
      have hbs : b.slot = s := by rw [← hus]; exact (h.txSlot e he b hb u hub).symm
      exact ⟨b, (getBlock_iff h s b).2 ⟨mem_allBlocks.2 ⟨e, he, hb⟩, hbs⟩, hub⟩
    cases hg : getBlock P es s with
    | none =>
      have : buf.filter (fun t => t.slot == s) = [] := by
        rw [List.filter_eq_nil_iff]
        intro u hu hus
        obtain ⟨b, hb, _⟩ := key u hu (by simpa using hus)
        rw [hg] at hb; cases hb
      simp [slotItems, this]
    | some b =>
      obtain ⟨hbm, hbs⟩ := (getBlock_iff h s b).1 hg
      obtain ⟨e, he, hbe⟩ := mem_allBlocks.1 hbm
      apply slotItems_eq buf s b.txs (h.txPos e he b hbe)
      · intro u hu hus
        obtain ⟨b', hb', hub'⟩ := key u hu hus
        rw [hg] at hb'
        cases hb'
        exact hub'
      · intro u hu
        rw [h.txSlot e he b hbe u hu, hbs]

/-! ## the address-index walk -/

theorem takeWhile_eq_filter_of_desc (lo : Nat) : ∀ {l : List Tx}, l.Pairwise (fun a b => b.slot ≤ a.slot) →
    l.takeWhile (fun t => decide (lo ≤ t.slot)) = l.filter (fun t => decide (lo ≤ t.slot))
  | [], _ => rfl
  | x :: xs, hp => by
    rw [List.pairwise_cons] at hp
    by_cases hx : lo ≤ x.slot
    · simp only [List.takeWhile_cons, List.filter_cons, hx, decide_true, if_true]
      rw [takeWhile_eq_filter_of_desc lo hp.2]
    · have : xs.filter (fun t => decide (lo ≤ t.slot)) = [] := by
        rw [List.filter_eq_nil_iff]; intro a ha; have := hp.1 a ha; simp; omega
      simp only [List.takeWhile_cons, List.filter_cons, hx, decide_false, this]
      rfl

theorem mem_epoch_txs {e : Epoch} {t : Tx} : t ∈ e.txs ↔ ∃ b ∈ e.blocks, t ∈ b.txs := by
  simp [Epoch.txs, List.mem_flatMap]

/-- transactions of one epoch are in non-decreasing slot order -/
theorem epoch_txs_sorted {P : Params} {es : List Epoch} (h : WF P es) {e : Epoch} (he : e ∈ es) :
    e.txs.Pairwise (fun a b => a.slot ≤ b.slot) := by
  unfold Epoch.txs
  rw [List.pairwise_flatMap]
  constructor
  · intro b hb
    have hs := h.txSlot e he b hb
    have : ∀ u ∈ b.txs, ∀ v ∈ b.txs, u.slot ≤ v.slot := by
      intro u hu v hv; rw [hs u hu, hs v hv]; exact Nat.le_refl _
    clear hs
    generalize b.txs = l at this
    induction l with
    | nil => exact List.Pairwise.nil
    | cons x xs ih =>
      refine List.pairwise_cons.2 ⟨fun u hu => this x List.mem_cons_self u (List.mem_cons_of_mem _ hu), ?_⟩
      exact ih (fun u hu v hv => this u (List.mem_cons_of_mem _ hu) v (List.mem_cons_of_mem _ hv))
  · refine List.Pairwise.imp_of_mem ?_ (h.blocksAsc e he)
    intro b₁ b₂ h₁ h₂ hlt u hu v hv
    rw [h.txSlot e he b₁ h₁ u hu, h.txSlot e he b₂ h₂ v hv]
    exact Nat.le_of_lt hlt

theorem tx_epoch {P : Params} {es : List Epoch} (h : WF P es) {e : Epoch} (he : e ∈ es) {t : Tx} (ht : t ∈ e.txs) :
    t.slot / P.epochLen = e.num := by
  obtain ⟨b, hb, htb⟩ := mem_epoch_txs.1 ht
  rw [h.txSlot e he b hb t htb]
  exact h.inEpoch e he b hb

theorem mem_epochHistory {e : Epoch} {a : Acct} {t : Tx} : t ∈ epochHistory e a ↔ t ∈ e.txs ∧ a ∈ t.accts := by
  simp [epochHistory, List.mem_filter]

/-- the concatenated newest-first histories of descending epochs are in non-increasing slot order -/
theorem history_desc {P : Params} {es : List Epoch} (h : WF P es) (a : Acct) :
    ∀ {rs : List Epoch}, (∀ e ∈ rs, e ∈ es) → rs.Pairwise (fun x y => y.num < x.num) →
      (rs.flatMap (fun e => epochHistory e a)).Pairwise (fun x y => y.slot ≤ x.slot) := by
  intro rs hsub hdesc
  rw [List.pairwise_flatMap]
  constructor
  · intro e he
    unfold epochHistory
    rw [List.pairwise_reverse]
    exact (epoch_txs_sorted h (hsub e he)).filter _
  · refine List.Pairwise.imp_of_mem ?_ hdesc
    intro e₁ e₂ h₁ h₂ hlt u hu v hv
    have hu' := tx_epoch h (hsub e₁ h₁) (mem_epochHistory.1 hu).1
    have hv' := tx_epoch h (hsub e₂ h₂) (mem_epochHistory.1 hv).1
    apply Nat.le_of_lt
    apply Nat.lt_of_not_le
    intro hle
    have := Nat.div_le_div_right (c := P.epochLen) hle
    omega

theorem readers_sub {P : Params} {es : List Epoch} {lo hi : Nat} : ∀ e ∈ readers P es lo hi, e ∈ es := by
  intro e he
  unfold readers at he
  rw [List.mem_reverse, List.mem_filter] at he
  exact he.1

theorem readers_desc {P : Params} {es : List Epoch} (h : WF P es) (lo hi : Nat) :
    (readers P es lo hi).Pairwise (fun x y => y.num < x.num) := by
  unfold readers
  rw [List.pairwise_reverse]
  exact h.epochsAsc.filter _

theorem mem_readers {P : Params} {es : List Epoch} {lo hi : Nat} {e : Epoch} :
    e ∈ readers P es lo hi ↔ e ∈ es ∧ lo / P.epochLen ≤ e.num ∧ e.num ≤ hi / P.epochLen := by
  unfold readers
  rw [List.mem_reverse, List.mem_filter]
  simp

/-- number of index entries of `a` the walk for `[lo, hi]` can collect: entries at or after slot `lo` (and, when the
reader honours `before`, not after `hi`) in the epochs the query consults -/
def entriesFrom (P : Params) (es : List Epoch) (lo hi : Nat) (a : Acct) : Nat :=
  ((((readers P es lo hi).flatMap (fun e => epochHistory e a)).filter (fun t => decide (lo ≤ t.slot))).filter
    (fun t => !P.honourBefore || t.slot < hi + 1)).length

/-- when the window is large enough the walk returns every entry of the range -/
theorem mem_iterBeforeUntilSlot {P : Params} {es : List Epoch} (h : WF P es) {lo hi : Nat} (hlh : lo ≤ hi + 1) (a : Acct)
    (hfit : entriesFrom P es lo hi a ≤ P.batch) (t : Tx) (hthi : t.slot ≤ hi) :
    t ∈ iterBeforeUntilSlot P (readers P es lo hi) a P.batch (hi + 1) lo ↔
      (∃ e ∈ readers P es lo hi, t ∈ e.txs ∧ a ∈ t.accts) ∧ lo ≤ t.slot := by
  have hall : (readers P es lo hi).filter (fun e => decide (e.num ≤ (hi + 1) / P.epochLen)) = readers P es lo hi := by
    rw [List.filter_eq_self]
    intro e he
    have := (mem_readers.1 he).2.2
    have := Nat.div_le_div_right (c := P.epochLen) (Nat.le_add_right hi 1)
    simp; omega
  have hdesc := history_desc h a (rs := readers P es lo hi) readers_sub (readers_desc h lo hi)
  have hb : (!P.honourBefore || decide (t.slot < hi + 1)) = true := by
    have : decide (t.slot < hi + 1) = true := by simp; omega
    simp [this]
  unfold iterBeforeUntilSlot
  rw [hall, takeWhile_eq_filter_of_desc lo hdesc]
  unfold entriesFrom at hfit
  by_cases hz : P.batch = 0 ∨ hi + 1 < lo
  · rw [if_pos hz]
    rcases hz with hz | hz
    · rw [hz] at hfit
      have hnil := List.eq_nil_of_length_eq_zero (Nat.le_zero.1 hfit)
      constructor
      · intro hm; cases hm
      · rintro ⟨⟨e, he, hte, hat⟩, hlo⟩
        have : t ∈ (((readers P es lo hi).flatMap (fun e => epochHistory e a)).filter (fun t => decide (lo ≤ t.slot))).filter
            (fun t => !P.honourBefore || t.slot < hi + 1) := by
          rw [List.mem_filter, List.mem_filter, List.mem_flatMap]
          exact ⟨⟨⟨e, he, mem_epochHistory.2 ⟨hte, hat⟩⟩, by simpa using hlo⟩, hb⟩
        rw [hnil] at this; cases this
    · omega
  · rw [if_neg hz, List.take_of_length_le hfit, List.mem_filter, List.mem_filter, List.mem_flatMap]
    constructor
    · rintro ⟨⟨⟨e, he, hm⟩, hlo⟩, _⟩
      exact ⟨⟨e, he, mem_epochHistory.1 hm⟩, by simpa using hlo⟩
    · rintro ⟨⟨e, he, hm⟩, hlo⟩
      exact ⟨⟨⟨e, he, mem_epochHistory.2 hm⟩, by simpa using hlo⟩, hb⟩

/-- whatever the window, the walk returns archived transactions that mention the account -/
theorem iterBeforeUntilSlot_sub {P : Params} {rs : List Epoch} {a : Acct} {limit before untl : Nat} {t : Tx}
    (ht : t ∈ iterBeforeUntilSlot P rs a limit before untl) : ∃ e ∈ rs, t ∈ e.txs ∧ a ∈ t.accts := by
  unfold iterBeforeUntilSlot at ht
  split at ht
  · cases ht
  · have h1 := (List.take_sublist _ _).subset ht
    have h1' := (List.mem_filter.1 h1).1
    have h2 := (List.takeWhile_sublist _).subset h1'
    rw [List.mem_flatMap] at h2
    obtain ⟨e, he, hm⟩ := h2
    exact ⟨e, (List.mem_filter.1 he).1, mem_epochHistory.1 hm⟩

theorem collectIndex_archived {P : Params} {es : List Epoch} {lo hi : Nat} {f : Filter} :
    Archived es (collectIndex P es lo hi f) := by
  intro t ht
  unfold collectIndex at ht
  rw [List.mem_flatMap] at ht
  obtain ⟨a, _, hm⟩ := ht
  obtain ⟨e, he, hte, _⟩ := iterBeforeUntilSlot_sub (List.mem_filter.1 hm).1
  obtain ⟨b, hb, htb⟩ := mem_epoch_txs.1 hte
  exact ⟨e, readers_sub e he, b, hb, htb⟩

/-- the hypothesis of the partial theorems: no included account has more than `batch` index entries at or after the
start of the range — and, when the reader honours `before`, not after its end — in the epochs the query consults -/
def WindowFits (P : Params) (es : List Epoch) (lo hi : Nat) (f : Filter) : Prop :=
  ∀ a ∈ f.inc, entriesFrom P es lo hi a ≤ P.batch

/-- index path = block scan with the property's predicate, when the window fits -/
theorem index_eq_scan {P : Params} {es : List Epoch} (h : WF P es) (lo hi : Nat) (f : Filter) (hne : f.inc ≠ [])
    (hfit : WindowFits P es lo hi f) :
    flush (collectIndex P es lo hi f) lo hi =
      scanSlots P es (fun b => b.txs.filter (sendScan false (some f))) lo (nSlots lo hi) := by
  unfold flush
  rw [flushSlots_eq_scan h _ collectIndex_archived]
  apply scanSlots_congr
  intro s hs1 hs2 b hb
  have hs2' : s ≤ hi := by unfold nSlots at hs2; omega
  obtain ⟨hbm, hbs⟩ := (getBlock_iff h s b).1 hb
  obtain ⟨e, he, hbe⟩ := mem_allBlocks.1 hbm
  apply List.filter_congr
  intro t ht
  have hts : t.slot = s := by rw [h.txSlot e he b hbe t ht, hbs]
  have hte : t ∈ e.txs := mem_epoch_txs.2 ⟨b, hbe, ht⟩
  have her : e ∈ readers P es lo hi := by
    rw [mem_readers]
    have hn := h.inEpoch e he b hbe
    refine ⟨he, ?_, ?_⟩
    · rw [← hn, hbs]; exact Nat.div_le_div_right hs1
    · rw [← hn, hbs]; exact Nat.div_le_div_right hs2'
  -- membership in the collected buffer
  have hmem : t ∈ collectIndex P es lo hi f ↔ (∃ a ∈ f.inc, a ∈ t.accts) ∧ sendIndex f t = true := by
    unfold collectIndex
    rw [List.mem_flatMap]
    constructor
    · rintro ⟨a, ha, hm⟩
      rw [List.mem_filter] at hm
      obtain ⟨_, _, _, hat⟩ := iterBeforeUntilSlot_sub hm.1
      exact ⟨⟨a, ha, hat⟩, hm.2⟩
    · rintro ⟨⟨a, ha, hat⟩, hsend⟩
      refine ⟨a, ha, ?_⟩
      rw [List.mem_filter]
      refine ⟨?_, hsend⟩
      rw [mem_iterBeforeUntilSlot h (by omega) a (hfit a ha) t (by omega)]
      exact ⟨⟨e, her, hte, hat⟩, by omega⟩
  have hiff : (decide (t ∈ collectIndex P es lo hi f) = true) ↔ (sendScan false (some f) t = true) := by
    rw [decide_eq_true_iff, hmem, sendIndex_iff, sendScan_false_iff]
    simp [hne]
  rw [Bool.eq_iff_iff]
  exact hiff

end Stream

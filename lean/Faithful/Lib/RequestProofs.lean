import Faithful.Lib.Request
/-! helper lemmas for property C08 (core Lean only) -/
namespace Req
open Outcome

theorem parseGetBlockBody_noPanic (r : Json) : (parseGetBlockBody r).isPanic = false := by
  unfold parseGetBlockBody
  split
  · rfl
  · rename_i params _
    split
    · rfl
    · rw [index_ok params 0 (by omega)]; simp only [bind_ok]
      split
      · split
        · rw [index_ok params 1 (by omega)]; simp only [bind_ok]
          split
          · split <;> rfl
          · rfl
        · rfl
      · rfl

theorem parseGetTransactionBody_noPanic (r : Json) : (parseGetTransactionBody r).isPanic = false := by
  unfold parseGetTransactionBody
  split
  · rfl
  · rename_i params _
    split
    · rfl
    · rw [index_ok params 0 (by omega)]; simp only [bind_ok]
      split
      · split
        · rfl
        · split
          · rw [index_ok params 1 (by omega)]; simp only [bind_ok]
            split
            · split <;> rfl
            · rfl
          · rfl
      · rfl

theorem parseGetBlockTimeBody_noPanic (r : Json) : (parseGetBlockTimeBody r).isPanic = false := by
  unfold parseGetBlockTimeBody
  split
  · rfl
  · rename_i params _
    split
    · rfl
    · rw [index_ok params 0 (by omega)]; simp only [bind_ok]
      split <;> rfl

theorem parseGsfaBody_noPanic (r : Json) : (parseGsfaBody r).isPanic = false := by
  unfold parseGsfaBody
  split
  · rfl
  · rename_i params _
    split
    · rfl
    · rw [index_ok params 0 (by omega)]; simp only [bind_ok]
      split
      · split
        · rfl
        · split
          · rw [index_ok params 1 (by omega)]; simp only [bind_ok]
            split
            · split
              · rfl
              · split <;> rfl
            · rfl
          · rfl
      · rfl

theorem optString_some {kvs k d v} (h : optString kvs k (some d) = .ok v) : v.isSome = true := by
  unfold optString at h
  split at h
  · cases h; rfl
  · cases h; rfl
  · cases h

theorem optBoolean_some {kvs k d v} (h : optBoolean kvs k (some d) = .ok v) : v.isSome = true := by
  unfold optBoolean at h
  split at h
  · cases h; rfl
  · cases h; rfl
  · cases h

theorem blockOptsOf_establishes {kvs o} (h : blockOptsOf kvs = .ok o) :
    o.commitment.isSome = true ∧ o.encoding.isSome = true ∧ o.txDetails.isSome = true ∧ o.rewards.isSome = true := by
  unfold blockOptsOf at h
  split at h
  · cases h
  · rename_i c hc
    split at h
    · cases h
    · rename_i en he
      split at h
      · cases h
      · split at h
        · cases h
        · rename_i t ht
          split at h
          · cases h
          · rename_i rw_ hr
            cases h
            exact ⟨optString_some hc, optString_some he, optString_some ht, optBoolean_some hr⟩

theorem txOptsOf_establishes {kvs o} (h : txOptsOf kvs = .ok o) : o.encoding.isSome = true := by
  unfold txOptsOf at h
  split at h
  · cases h
  · rename_i en he
    split at h
    · cases h
    · split at h
      · cases h
      · cases h
        exact optString_some he

theorem parseGetBlockBody_establishes {r q} (h : parseGetBlockBody r = .ok q) :
    q.opts.commitment.isSome = true ∧ q.opts.encoding.isSome = true ∧ q.opts.txDetails.isSome = true ∧ q.opts.rewards.isSome = true := by
  unfold parseGetBlockBody at h
  split at h
  · cases h
  · rename_i params _
    split at h
    · cases h
    · rw [index_ok params 0 (by omega)] at h; simp only [bind_ok] at h
      split at h
      · split at h
        · rw [index_ok params 1 (by omega)] at h; simp only [bind_ok] at h
          split at h
          · split at h
            · rename_i o ho
              cases h
              exact blockOptsOf_establishes ho
            · cases h
          · cases h
        · cases h
          exact ⟨rfl, rfl, rfl, rfl⟩
      · cases h

theorem parseGetTransactionBody_establishes {r q} (h : parseGetTransactionBody r = .ok q) : q.opts.encoding.isSome = true := by
  unfold parseGetTransactionBody at h
  split at h
  · cases h
  · rename_i params _
    split at h
    · cases h
    · rw [index_ok params 0 (by omega)] at h; simp only [bind_ok] at h
      split at h
      · split at h
        · cases h
        · split at h
          · rw [index_ok params 1 (by omega)] at h; simp only [bind_ok] at h
            split at h
            · split at h
              · rename_i o ho
                cases h
                exact txOptsOf_establishes ho
              · cases h
            · cases h
          · cases h
            rfl
      · cases h

theorem validateEncoding_noPanic (jp : Bool) (enc : Option String) : (validateEncoding jp enc).isPanic = false := by
  unfold validateEncoding
  cases enc with
  | none => rfl
  | some e =>
    simp only [Option.isSome_some, if_true, deref_some, bind_ok]
    split
    · rfl
    · split <;> rfl

theorem scanAccounts_noPanic (xs : List String) (hit : String → Bool) (b : Bool) (h : xs.all pubkeyOk = true) :
    (scanAccounts xs hit b).isPanic = false := by
  induction xs with
  | nil => rfl
  | cons a r ih =>
    simp only [List.all_cons, Bool.and_eq_true] at h
    unfold scanAccounts
    simp only [mustPubkey, h.1, if_true, bind_ok]
    split
    · rfl
    · exact ih h.2

theorem mustPubkey_ok {s} (h : pubkeyOk s = true) : mustPubkey s = .ok () := by
  simp [mustPubkey, h]

theorem isPrefixOf_length {pre s : List Char} (h : pre.isPrefixOf s = true) : pre.length ≤ s.length := by
  have := List.isPrefixOf_iff_prefix.mp h
  exact this.length_le

theorem sliceFrom_ok {s pre : String} (h : startsWith s pre = true) : ∃ cs, sliceFrom s pre.toList.length = .ok cs := by
  unfold sliceFrom
  have := isPrefixOf_length h
  simp [this]

theorem apiHandler_noPanic (w : World) (r : HttpReq) : (apiHandler w r).isPanic = false := by
  unfold apiHandler
  split
  · rfl
  · split
    · rename_i h
      obtain ⟨cs, hcs⟩ := sliceFrom_ok h
      rw [hcs]; simp only [bind_ok]
      split
      · rfl
      · split <;> rfl
    · split
      · rename_i h
        obtain ⟨cs, hcs⟩ := sliceFrom_ok h
        rw [hcs]; simp only [bind_ok]
        split <;> rfl
      · rfl

theorem filterStep_noPanic (f : Option TxFilter) (hv : validateFilter f = true) (gsfaLoaded : Bool) (tx : TxFacts) :
    (filterStep f gsfaLoaded tx).isPanic = false := by
  unfold filterStep
  cases f with
  | none => rfl
  | some f =>
    simp only [validateFilter, Bool.and_eq_true] at hv
    obtain ⟨⟨hi, he⟩, hr⟩ := hv
    simp only
    split
    · rfl
    · split
      · rfl
      · apply bind_isPanic
        · split
          · exact scanAccounts_noPanic _ _ _ hi
          · rfl
        · intro hasOne _
          split
          · rfl
          · apply bind_isPanic _ _ (scanAccounts_noPanic _ _ _ he)
            intro ex _
            split
            · rfl
            · apply bind_isPanic _ _ (scanAccounts_noPanic _ _ _ hr)
              intro ms _
              split <;> rfl


theorem scanTxs_noPanic (f : Option TxFilter) (hv : validateFilter f = true) (g : Bool) (txs : List TxFacts) :
    (scanTxs f g txs).isPanic = false := by
  induction txs with
  | nil => rfl
  | cons t rest ih =>
    unfold scanTxs
    exact bind_isPanic _ _ (filterStep_noPanic f hv g t) (fun _ _ => ih)

theorem mustAll_noPanic (xs : List String) (h : xs.all pubkeyOk = true) : (mustAll xs).isPanic = false := by
  induction xs with
  | nil => rfl
  | cons a r ih =>
    simp only [List.all_cons, Bool.and_eq_true] at h
    unfold mustAll
    rw [mustPubkey_ok h.1]
    exact ih h.2


end Req

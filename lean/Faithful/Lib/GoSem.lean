/-
Runtime of the Go → Lean translator (`/verif/harness/extract/golean.go`).

`Generated/GoFns.lean` is written by the translator on every run from the function bodies in /repo's working tree.
The definitions below are the meaning the translator gives to the Go constructs it accepts; they are part of the
trusted base (DESIGN.md §0 "GoLean").  Everything is executable, total and core Lean.

Conventions
* a Go function becomes a function into `Go.M = Except Go.Err`:
  - `panic why`   a run-time panic (index / slice bounds, explicit `panic(..)`, division by zero, negative `make`)
  - `err tag`     a non-nil Go `error` returned through the function's last result
  - `hang`        the fuel handed to a loop (or a recursion) ran out; tie theorems show the fuel they supply suffices
* `uint8/16/32/64`, `uint` → `UInt8/16/32/64`, `UInt64` (wrapping, as in Go)
* `int`, `int64` → `Int`, every arithmetic result wrapped to the 64-bit two's-complement range by `wrap64`
* `[]T`, `[N]T`, `*[N]T` → `List T` (value semantics; the translator refuses code whose meaning depends on aliasing or on
  a capacity larger than the length, except for the write-back of `dst[a:b]` arguments which it performs explicitly)
-/
namespace Go

inductive Err where
  | panic (why : String)
  | hang
  | err (tag : String)
deriving Repr, DecidableEq, Inhabited

abbrev M := Except Err

/-- result of one run of a loop: the function returned from inside it, or the loop ended with this state -/
inductive LoopRes (ρ σ : Type) where
  | ret (r : ρ)
  | done (s : σ)

def pnc {α : Type} (why : String) : M α := .error (.panic why)

/-! ### int / int64 -/

def wrap64 (x : Int) : Int := (x + 9223372036854775808) % 18446744073709551616 - 9223372036854775808

theorem wrap64_id {x : Int} (h1 : -9223372036854775808 ≤ x) (h2 : x < 9223372036854775808) : wrap64 x = x := by
  unfold wrap64; omega

theorem wrap64_range (x : Int) : -9223372036854775808 ≤ wrap64 x ∧ wrap64 x < 9223372036854775808 := by
  unfold wrap64; omega

/-- `x | y` on int: on non-negative operands the natural-number `|||`, otherwise through 64-bit two's complement -/
def orInt (x y : Int) : Int :=
  if 0 ≤ x ∧ 0 ≤ y then ((x.toNat ||| y.toNat : Nat) : Int)
  else (BitVec.ofInt 64 x ||| BitVec.ofInt 64 y).toInt

def andInt (x y : Int) : Int :=
  if 0 ≤ x ∧ 0 ≤ y then ((x.toNat &&& y.toNat : Nat) : Int)
  else (BitVec.ofInt 64 x &&& BitVec.ofInt 64 y).toInt

def xorInt (x y : Int) : Int :=
  if 0 ≤ x ∧ 0 ≤ y then ((x.toNat ^^^ y.toNat : Nat) : Int)
  else (BitVec.ofInt 64 x ^^^ BitVec.ofInt 64 y).toInt

/-- `2*k | 1 = 2*k + 1` -/
theorem orInt_double_one (k : Int) (h : 0 ≤ k) : orInt (2 * k) 1 = 2 * k + 1 := by
  unfold orInt
  have h2 : (0:Int) ≤ 2 * k ∧ (0:Int) ≤ 1 := by omega
  rw [if_pos h2]
  have e : (2 * k).toNat = 2 ^ 1 * k.toNat := by omega
  have := Nat.two_pow_add_eq_or_of_lt (i := 1) (b := 1) (by decide) k.toNat
  have e1 : (1 : Int).toNat = 1 := rfl
  rw [e, e1, ← this]
  omega

/-- Go integer division (truncated); division by zero panics -/
def divInt (x y : Int) : M Int := if y = 0 then pnc "integer divide by zero" else pure (wrap64 (Int.tdiv x y))
def modInt (x y : Int) : M Int := if y = 0 then pnc "integer divide by zero" else pure (Int.tmod x y)
def divU64 (x y : UInt64) : M UInt64 := if y = 0 then pnc "integer divide by zero" else pure (x / y)
def modU64 (x y : UInt64) : M UInt64 := if y = 0 then pnc "integer divide by zero" else pure (x % y)
def divU32 (x y : UInt32) : M UInt32 := if y = 0 then pnc "integer divide by zero" else pure (x / y)
def modU32 (x y : UInt32) : M UInt32 := if y = 0 then pnc "integer divide by zero" else pure (x % y)

/-- conversions between int and the unsigned types (two's complement, truncating) -/
def intOfU64 (x : UInt64) : Int := wrap64 (x.toNat : Int)
def u64OfInt (x : Int) : UInt64 := UInt64.ofNat (x % 18446744073709551616).toNat
def u32OfInt (x : Int) : UInt32 := UInt32.ofNat (x % 4294967296).toNat
def u16OfInt (x : Int) : UInt16 := UInt16.ofNat (x % 65536).toNat
def u8OfInt (x : Int) : UInt8 := UInt8.ofNat (x % 256).toNat

/-- shifts with a run-time count: a count ≥ the width gives 0 (Go), whereas Lean's `<<<` reduces the count mod the width -/
def shl64 (x : UInt64) (n : Nat) : UInt64 := if n < 64 then x <<< UInt64.ofNat n else 0
def shr64 (x : UInt64) (n : Nat) : UInt64 := if n < 64 then x >>> UInt64.ofNat n else 0
def shl32 (x : UInt32) (n : Nat) : UInt32 := if n < 32 then x <<< UInt32.ofNat n else 0
def shr32 (x : UInt32) (n : Nat) : UInt32 := if n < 32 then x >>> UInt32.ofNat n else 0
def shl16 (x : UInt16) (n : Nat) : UInt16 := if n < 16 then x <<< UInt16.ofNat n else 0
def shr16 (x : UInt16) (n : Nat) : UInt16 := if n < 16 then x >>> UInt16.ofNat n else 0
def shl8 (x : UInt8) (n : Nat) : UInt8 := if n < 8 then x <<< UInt8.ofNat n else 0
def shr8 (x : UInt8) (n : Nat) : UInt8 := if n < 8 then x >>> UInt8.ofNat n else 0

/-! ### slices and arrays -/

variable {α : Type}

def len (b : List α) : Int := (b.length : Int)

/-- `b[i]` -/
def idx [Inhabited α] (b : List α) (i : Int) : M α :=
  if 0 ≤ i ∧ i < b.length then pure (b.getD i.toNat default) else pnc "index out of range"

/-- `b[i] = v` -/
def setIdx (b : List α) (i : Int) (v : α) : M (List α) :=
  if 0 ≤ i ∧ i < b.length then pure (b.set i.toNat v) else pnc "index out of range"

/-- `b[lo:hi]` (capacity = length) -/
def slice (b : List α) (lo hi : Int) : M (List α) :=
  if 0 ≤ lo ∧ lo ≤ hi ∧ hi ≤ b.length then pure ((b.drop lo.toNat).take (hi.toNat - lo.toNat)) else pnc "slice bounds out of range"

/-- write `v` (the new content of `b[lo:hi]`, same length) back into `b` -/
def setSlice (b : List α) (lo : Int) (v : List α) : List α :=
  b.take lo.toNat ++ v ++ b.drop (lo.toNat + v.length)

/-- `make([]T, n)` with zero value `z` -/
def makeOf (z : α) (n : Int) : M (List α) :=
  if 0 ≤ n ∧ n < 281474976710656 then pure (List.replicate n.toNat z) else pnc "makeslice: len out of range"

/-- `copy(dst, src)`: new content of `dst` and the number of elements copied -/
def copy (dst src : List α) : List α × Int :=
  let n := min dst.length src.length
  (src.take n ++ dst.drop n, (n : Int))

/-! ### encoding/binary -/

def leDecode : List UInt8 → Nat
  | [] => 0
  | b :: rest => b.toNat + 256 * leDecode rest

def leEncode : Nat → Nat → List UInt8
  | 0, _ => []
  | w+1, v => UInt8.ofNat (v % 256) :: leEncode w (v / 256)

theorem leEncode_length (w v : Nat) : (leEncode w v).length = w := by
  induction w generalizing v with
  | zero => rfl
  | succ w ih => simp [leEncode, ih]

/-- `binary.LittleEndian.Uint16/32/64(b)`: panics when `b` is shorter than the width -/
def leU16 (b : List UInt8) : M UInt16 := if 2 ≤ b.length then pure (UInt16.ofNat (leDecode (b.take 2))) else pnc "index out of range"
def leU32 (b : List UInt8) : M UInt32 := if 4 ≤ b.length then pure (UInt32.ofNat (leDecode (b.take 4))) else pnc "index out of range"
def leU64 (b : List UInt8) : M UInt64 := if 8 ≤ b.length then pure (UInt64.ofNat (leDecode (b.take 8))) else pnc "index out of range"

/-- `binary.LittleEndian.PutUint16/32/64(b, v)`: the new content of `b` -/
def putLeU16 (b : List UInt8) (v : UInt16) : M (List UInt8) := if 2 ≤ b.length then pure (leEncode 2 v.toNat ++ b.drop 2) else pnc "index out of range"
def putLeU32 (b : List UInt8) (v : UInt32) : M (List UInt8) := if 4 ≤ b.length then pure (leEncode 4 v.toNat ++ b.drop 4) else pnc "index out of range"
def putLeU64 (b : List UInt8) (v : UInt64) : M (List UInt8) := if 8 ≤ b.length then pure (leEncode 8 v.toNat ++ b.drop 8) else pnc "index out of range"

/-- `binary.AppendUvarint(nil, v)` -/
def putUvarint (v : UInt64) : List UInt8 :=
  go 10 v.toNat
where
  go : Nat → Nat → List UInt8
    | 0, _ => []
    | f+1, v => if v < 128 then [UInt8.ofNat v] else UInt8.ofNat (v % 128 + 128) :: go f (v / 128)

/-- `binary.Uvarint(buf)`: `(value, n)`; `n = 0` buffer too small, `n < 0` overflow (value 0, `-(bytes read)`) -/
def uvarint (buf : List UInt8) : UInt64 × Int :=
  go buf 0 0 0
where
  go : List UInt8 → Nat → Nat → Nat → UInt64 × Int
    | [], _, _, _ => (0, 0)
    | b :: rest, i, x, s =>
      if i = 10 then (0, -((i : Int) + 1))
      else if b.toNat < 128 then
        if i = 9 ∧ b.toNat > 1 then (0, -((i : Int) + 1))
        else (UInt64.ofNat (x + b.toNat * 2 ^ s), (i : Int) + 1)
      else go rest (i+1) (x + (b.toNat % 128) * 2 ^ s) (s + 7)

end Go

namespace Go

/-! ### bytes.Reader / io.ReadFull -/

/-- `*bytes.Reader`: the data and the read position -/
structure BytesReader where
  data : List UInt8
  pos : Nat
deriving Repr, DecidableEq

/-- `(*bytes.Reader).Len()`: bytes not yet read -/
def BytesReader.remaining (r : BytesReader) : Int := ((r.data.length - r.pos : Nat) : Int)

/-- `io.ReadFull(r, buf)` with `len(buf) = n`: the new reader and the new content of `buf`, or `io.EOF` (nothing left and
    `n > 0`) / `io.ErrUnexpectedEOF` (fewer than `n` bytes left; the reader is then exhausted, `buf` partly written —
    callers in the translated subset return at once, so the partial state is not observable) -/
def readFull (r : BytesReader) (n : Int) : M (BytesReader × List UInt8) :=
  let k := n.toNat
  if k = 0 then pure (r, [])
  else if r.data.length ≤ r.pos then .error (.err "EOF")
  else if r.data.length - r.pos < k then .error (.err "unexpected EOF")
  else pure ({ r with pos := r.pos + k }, (r.data.drop r.pos).take k)

end Go

namespace Go

/-! ### errors as values, io.ReaderAt -/

/-- a Go `error` value in functions that inspect errors (compare with `io.EOF`, store, return) -/
inductive Error where
  | nil
  | eof
  | unexpectedEOF
  | other (tag : String)
deriving Repr, DecidableEq, Inhabited

/-- `fmt.Errorf("…%w…", e)`: a non-nil error that `errors.Is` sees through (the class of the wrapped error is kept; the
    message is not modelled); wrapping `nil` gives a plain error -/
def Error.wrap (tag : String) : Error → Error
  | .nil => .other tag
  | e => e

/-- `errors.Is(e, target)` for sentinel targets: `io.EOF`, `io.ErrUnexpectedEOF`, and a package's own sentinel
    (`var ErrX = …`, identified by its name) -/
def Error.is (e target : Error) : Bool :=
  match target with
  | .eof => e == .eof
  | .unexpectedEOF => e == .unexpectedEOF
  | .other t => e == .other t
  | .nil => false

/-- the tag under which an error VALUE travels once it is returned through the monad -/
def Error.tag : Error → String
  | .nil => "nil"
  | .eof => "EOF"
  | .unexpectedEOF => "unexpected EOF"
  | .other t => t

/-- an `io.ReaderAt`: `ReadAt(p, off)` with `len(p) = n` as a function `(n, off) ↦ (bytes read, err)`; the bytes read are
    the new front of `p`.  The io.ReaderAt contract (`n < len(p) ⇒ err ≠ nil`, at most `len(p)` bytes) is a hypothesis
    of the theorems that need it, not part of the type. -/
abbrev ReaderAt := Int → Int → (List UInt8 × Error)

end Go

namespace Go

/-- `ReadByte()` on an in-memory byte stream: the next byte, or `io.EOF` -/
def readByte (r : BytesReader) : M (BytesReader × UInt8) :=
  match r.data.drop r.pos with
  | [] => .error (.err "EOF")
  | b :: _ => pure ({ r with pos := r.pos + 1 }, b)

/-- `(*bin.Decoder).ReadUint64(bin.LE)` (gagliardetto/binary v0.8.0): eight bytes little-endian, or an error and no progress -/
def readU64LE (r : BytesReader) : M (BytesReader × UInt64) :=
  readFull r 8 >>= fun t => pure (t.1, UInt64.ofNat (leDecode t.2))

/-- `*p` for a pointer used as an optional value: nil panics -/
def deref {α : Type} (p : Option α) : M α :=
  match p with
  | some v => pure v
  | none => pnc "invalid memory address or nil pointer dereference"

/-- a call of a function whose Go error travels through the monad, made by a function that treats errors as data: the
    error comes back as a value next to the zero results; panics and fuel exhaustion still propagate -/
def catchErr {α : Type} (x : M α) (dflt : α) : M (α × Error) :=
  match x with
  | .ok v => pure (v, Error.nil)
  | .error (.err t) => pure (dflt, Error.other t)
  | .error e => throw e

/-- `io.NewSectionReader(r, base, n)` as an `io.ReaderAt` (Go 1.23 `SectionReader.ReadAt`): offsets outside `[0, size)` answer
    `(0, io.EOF)`; a read reaching past the section is cut to the section and answers `io.EOF` when the inner read succeeded -/
def sectionReader (r : ReaderAt) (base n : Int) : ReaderAt := fun len off =>
  let limit : Int := if base ≤ 9223372036854775807 - n then base + n else 9223372036854775807
  if off < 0 ∨ off ≥ limit - base then ([], Error.eof)
  else
    let off' := off + base
    let max := limit - off'
    if len > max then
      let t := r max off'
      (t.1, if t.2 == Error.nil then Error.eof else t.2)
    else r len off'

end Go

import Faithful.Lib.Ledger
set_option linter.unusedSimpArgs false
/-! The byte parser's resource limits (array elements, map pairs, nesting) on reference-encoded ledger nodes:
the encoding of a typed value has no maps, nesting ≤ 4 and its largest array is the longest list of the value
(or a tuple, ≤ 6).  Core Lean only. -/
namespace Ledger
open Cbor

/-- bound on the statistics of a tree: arrays ≤ a, no maps, depth ≤ d -/
structure Bd (s : Stats) (a d : Nat) : Prop where
  arr : s.maxArr ≤ a
  map : s.maxMap = 0
  depth : s.depth ≤ d

theorem Bd.empty (a d : Nat) : Bd {} a d := ⟨Nat.zero_le _, rfl, Nat.zero_le _⟩

theorem Bd.mono {s : Stats} {a d a' d' : Nat} (h : Bd s a d) (ha : a ≤ a') (hd : d ≤ d') : Bd s a' d' :=
  ⟨Nat.le_trans h.arr ha, h.map, Nat.le_trans h.depth hd⟩

theorem Bd.join {s t : Stats} {a d : Nat} (hs : Bd s a d) (ht : Bd t a d) : Bd (s.join t) a d := by
  refine ⟨?_, ?_, ?_⟩
  · simp only [Stats.join]; exact Nat.max_le.mpr ⟨hs.arr, ht.arr⟩
  · simp only [Stats.join, hs.map, ht.map]; rfl
  · simp only [Stats.join]; exact Nat.max_le.mpr ⟨hs.depth, ht.depth⟩

theorem Bd.foldl (f : Val → Stats) (a d : Nat) (xs : List Val) (init : Stats) (hi : Bd init a d)
    (h : ∀ v ∈ xs, Bd (f v) a d) : Bd (xs.foldl (fun s v => s.join (f v)) init) a d := by
  induction xs generalizing init with
  | nil => exact hi
  | cons x xs ih =>
    simp only [List.foldl_cons]
    exact ih _ (hi.join (h x (by simp))) (fun v hv => h v (by simp [hv]))

/-- an array whose elements are bounded (at depth d) and whose length is within the limit -/
theorem bd_arr (fuel : Nat) (xs : List Val) (a d : Nat) (hlen : xs.length ≤ a)
    (h : ∀ fuel', ∀ v ∈ xs, Bd (stats fuel' v) a d) : Bd (stats fuel (.arr xs)) a (d + 1) := by
  cases fuel with
  | zero => simp only [stats]; exact Bd.empty _ _
  | succ f =>
    have hf := Bd.foldl (stats f) a d xs {} (Bd.empty _ _) (h f)
    simp only [stats]
    exact ⟨Nat.max_le.mpr ⟨hlen, hf.arr⟩, hf.map, Nat.succ_le_succ hf.depth⟩

theorem bd_encInt (fuel : Nat) (v : Int) (a d : Nat) : Bd (stats fuel (Ref.encInt v)) a d := by
  unfold Ref.encInt
  cases fuel <;> split <;> simp only [stats] <;> exact Bd.empty _ _

theorem bd_bytes (fuel : Nat) (b : Bytes) (a d : Nat) : Bd (stats fuel (.bytes b)) a d := by
  cases fuel <;> simp only [stats] <;> exact Bd.empty _ _

theorem bd_null (fuel : Nat) (a d : Nat) : Bd (stats fuel .null) a d := by
  cases fuel <;> simp only [stats] <;> exact Bd.empty _ _

theorem bd_encLink (fuel : Nat) (c : Cid) (a d : Nat) : Bd (stats fuel (Ref.encLink c)) a (d + 1) := by
  unfold Ref.encLink
  cases fuel with
  | zero => simp only [stats]; exact Bd.empty _ _
  | succ f =>
    have hb := bd_bytes f (0 :: c) a d
    simp only [stats]
    exact ⟨hb.arr, hb.map, Nat.succ_le_succ hb.depth⟩

theorem bd_encLinks (fuel : Nat) (l : List Cid) (a : Nat) (h : l.length ≤ a) : Bd (stats fuel (Ref.encLinks l)) a 2 := by
  unfold Ref.encLinks
  refine bd_arr fuel _ a 1 (by simpa using h) ?_
  intro f v hv
  obtain ⟨c, _, rfl⟩ := List.mem_map.mp hv
  exact bd_encLink f c a 0

/-- what a tuple contains: nulls and the present fields, and no more entries than fields -/
theorem mem_dropTrailing (l : List (Option Val)) : ∀ x ∈ Ref.dropTrailingAbsent l, x ∈ l := by
  induction l with
  | nil => intro x hx; simp [Ref.dropTrailingAbsent] at hx
  | cons y ys ih =>
    intro x hx
    simp only [Ref.dropTrailingAbsent] at hx
    split at hx
    · cases y with
      | none => simp at hx
      | some v => simp at hx; simp [hx]
    · rcases List.mem_cons.mp hx with h | h
      · simp [h]
      · exact List.mem_cons_of_mem _ (ih x (by simpa using h))

theorem length_dropTrailing (l : List (Option Val)) : (Ref.dropTrailingAbsent l).length ≤ l.length := by
  induction l with
  | nil => simp [Ref.dropTrailingAbsent]
  | cons y ys ih =>
    simp only [Ref.dropTrailingAbsent]
    split
    · cases y <;> simp
    · simp only [List.length_cons]; omega

theorem bd_tuple (fuel : Nat) (fields : List (Option Val)) (a d : Nat) (hlen : fields.length ≤ a)
    (h : ∀ fuel', ∀ v, some v ∈ fields → Bd (stats fuel' v) a d) :
    Bd (stats fuel (.arr (Ref.tupleItems' fields))) a (d + 1) := by
  refine bd_arr fuel _ a d ?_ ?_
  · simp only [Ref.tupleItems', List.length_map]
    exact Nat.le_trans (length_dropTrailing fields) hlen
  · intro f v hv
    simp only [Ref.tupleItems'] at hv
    obtain ⟨o, ho, rfl⟩ := List.mem_map.mp hv
    cases o with
    | none => exact bd_null f a d
    | some w => exact h f w (mem_dropTrailing fields _ ho)

theorem bd_optInt (fuel : Nat) (o : OptN Int) (v : Val) (a d : Nat) (h : some v = Ref.encOpt Ref.encInt o) :
    Bd (stats fuel v) a d := by
  rcases o with _ | _ | x
  · simp [Ref.encOpt] at h
  · simp only [Ref.encOpt, Option.some.injEq] at h; subst h; exact bd_null fuel a d
  · simp only [Ref.encOpt, Option.some.injEq] at h; subst h; exact bd_encInt fuel x a d

theorem bd_dataFrame (fuel : Nat) (x : DataFrame) (a : Nat) (ha : 6 ≤ a) (h : x.maxList ≤ a) :
    Bd (stats fuel (Ref.encDataFrame x)) a 3 := by
  unfold Ref.encDataFrame Ref.dfItems
  refine bd_tuple fuel _ a 2 (by simpa using ha) ?_
  intro f v hv
  simp only [List.mem_cons, Option.some.injEq, List.mem_nil_iff, or_false] at hv
  rcases hv with rfl | hv | hv | hv | rfl | hv
  · exact bd_encInt f _ a 2
  · exact bd_optInt f _ v a 2 hv
  · exact bd_optInt f _ v a 2 hv
  · exact bd_optInt f _ v a 2 hv
  · exact bd_bytes f _ a 2
  · rcases hn : x.next with _ | _ | l
    · simp [hn, Ref.encOpt] at hv
    · simp only [hn, Ref.encOpt, Option.some.injEq] at hv; subst hv; exact bd_null f a 2
    · simp only [hn, Ref.encOpt, Option.some.injEq] at hv; subst hv
      have : l.length ≤ a := by simpa [DataFrame.maxList, hn] using h
      exact bd_encLinks f l a this

theorem bd_shredding (fuel : Nat) (s : Shredding) (a : Nat) (ha : 6 ≤ a) : Bd (stats fuel (Ref.encShredding s)) a 1 := by
  unfold Ref.encShredding Ref.tuple
  refine bd_tuple fuel _ a 0 (by simp; omega) ?_
  intro f v hv
  simp only [List.mem_cons, Option.some.injEq, List.mem_nil_iff, or_false] at hv
  rcases hv with rfl | rfl <;> exact bd_encInt f _ a 0

theorem bd_slotMeta (fuel : Nat) (m : SlotMeta) (a : Nat) (ha : 6 ≤ a) : Bd (stats fuel (Ref.encSlotMeta m)) a 1 := by
  unfold Ref.encSlotMeta Ref.metaItems
  refine bd_tuple fuel _ a 0 (by simp; omega) ?_
  intro f v hv
  simp only [List.mem_cons, Option.some.injEq, List.mem_nil_iff, or_false] at hv
  rcases hv with rfl | rfl | hv
  · exact bd_encInt f _ a 0
  · exact bd_encInt f _ a 0
  · exact bd_optInt f _ v a 0 hv

/-- the encoding of any typed value: no maps, nesting at most 4, arrays no longer than its longest list (or 6) -/
theorem bd_encode (fuel : Nat) (n : Node) (a : Nat) (ha : 6 ≤ a) (h : n.maxList ≤ a) :
    Bd (stats fuel (Ref.encode n)) a 4 := by
  cases n with
  | transaction x =>
    simp only [Node.maxList] at h
    have h1 : x.data.maxList ≤ a := Nat.le_trans (Nat.le_max_left _ _) h
    have h2 : x.metadata.maxList ≤ a := Nat.le_trans (Nat.le_max_right _ _) h
    unfold Ref.encode Ref.tuple
    refine bd_tuple fuel _ a 3 (by simp; omega) ?_
    intro f v hv
    simp only [List.mem_cons, Option.some.injEq, List.mem_nil_iff, or_false] at hv
    rcases hv with rfl | rfl | rfl | rfl | hv
    · exact bd_encInt f _ a 3
    · exact bd_dataFrame f _ a ha h1
    · exact bd_dataFrame f _ a ha h2
    · exact bd_encInt f _ a 3
    · exact bd_optInt f _ v a 3 hv
  | entry x =>
    simp only [Node.maxList] at h
    unfold Ref.encode Ref.tuple
    refine bd_tuple fuel _ a 3 (by simp; omega) ?_
    intro f v hv
    simp only [List.mem_cons, Option.some.injEq, List.mem_nil_iff, or_false] at hv
    rcases hv with rfl | rfl | rfl | rfl
    · exact bd_encInt f _ a 3
    · exact bd_encInt f _ a 3
    · exact bd_bytes f _ a 3
    · exact (bd_encLinks f _ a h).mono (Nat.le_refl _) (by omega)
  | block x =>
    simp only [Node.maxList] at h
    have h1 : x.shredding.length ≤ a := Nat.le_trans (Nat.le_max_left _ _) h
    have h2 : x.entries.length ≤ a := Nat.le_trans (Nat.le_max_right _ _) h
    unfold Ref.encode Ref.tuple
    refine bd_tuple fuel _ a 3 (by simp; omega) ?_
    intro f v hv
    simp only [List.mem_cons, Option.some.injEq, List.mem_nil_iff, or_false] at hv
    rcases hv with rfl | rfl | rfl | rfl | rfl | rfl
    · exact bd_encInt f _ a 3
    · exact bd_encInt f _ a 3
    · refine (bd_arr f _ a 1 (by simpa using h1) ?_).mono (Nat.le_refl _) (by omega)
      intro f' v hv
      obtain ⟨s, _, rfl⟩ := List.mem_map.mp hv
      exact bd_shredding f' s a ha
    · exact (bd_encLinks f _ a h2).mono (Nat.le_refl _) (by omega)
    · exact (bd_slotMeta f _ a ha).mono (Nat.le_refl _) (by omega)
    · exact (bd_encLink f _ a 0).mono (Nat.le_refl _) (by omega)
  | subset x =>
    simp only [Node.maxList] at h
    unfold Ref.encode Ref.tuple
    refine bd_tuple fuel _ a 3 (by simp; omega) ?_
    intro f v hv
    simp only [List.mem_cons, Option.some.injEq, List.mem_nil_iff, or_false] at hv
    rcases hv with rfl | rfl | rfl | rfl
    · exact bd_encInt f _ a 3
    · exact bd_encInt f _ a 3
    · exact bd_encInt f _ a 3
    · exact (bd_encLinks f _ a h).mono (Nat.le_refl _) (by omega)
  | epoch x =>
    simp only [Node.maxList] at h
    unfold Ref.encode Ref.tuple
    refine bd_tuple fuel _ a 3 (by simp; omega) ?_
    intro f v hv
    simp only [List.mem_cons, Option.some.injEq, List.mem_nil_iff, or_false] at hv
    rcases hv with rfl | rfl | rfl
    · exact bd_encInt f _ a 3
    · exact bd_encInt f _ a 3
    · exact (bd_encLinks f _ a h).mono (Nat.le_refl _) (by omega)
  | rewards x =>
    simp only [Node.maxList] at h
    unfold Ref.encode Ref.tuple
    refine bd_tuple fuel _ a 3 (by simp; omega) ?_
    intro f v hv
    simp only [List.mem_cons, Option.some.injEq, List.mem_nil_iff, or_false] at hv
    rcases hv with rfl | rfl | rfl
    · exact bd_encInt f _ a 3
    · exact bd_encInt f _ a 3
    · exact bd_dataFrame f _ a ha h
  | dataFrame x =>
    simp only [Node.maxList] at h
    exact (bd_dataFrame fuel x a ha h).mono (Nat.le_refl _) (by omega)

end Ledger

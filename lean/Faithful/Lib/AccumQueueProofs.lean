import Faithful.Lib.AccumQueue

/-! invariant preservation, safety and progress of the hand-off model (`Faithful/Lib/AccumQueue.lean`) -/
set_option linter.unusedSimpArgs false

namespace Accum

theorem inv_init (c : Car) (ig : List UInt8) (k : UInt8) (skip npool : Nat) :
    Inv ig k (sends c ig k skip) (init c skip npool) := by
  constructor <;> simp [init, callIds, heldC, heldP, pending, sends, liveArrs, St.reread, wgC, wgP, curLive, bound,
    List.nodup_range]

/-! ### frame lemmas -/

theorem resolve_fun (s : St) :
    resolve s = fun fb => ⟨(s.fbs fb).parent, (s.store (s.fbs fb).sl.arr).read (s.fbs fb).sl.len⟩ := rfl

theorem map_resolve_congr (s s' : St) (l : List Nat)
    (hf : ∀ fb ∈ l, s'.fbs fb = s.fbs fb)
    (hs : ∀ fb ∈ l, readSl s' (s.fbs fb).sl = readSl s (s.fbs fb).sl) :
    l.map (resolve s') = l.map (resolve s) := by
  apply List.map_congr_left
  intro fb hfb
  simp only [resolve, hf fb hfb, hs fb hfb]

theorem reread_congr (s s' : St) (hh : s'.handed = s.handed)
    (hs : ∀ h ∈ s.handed, readSl s' h.2 = readSl s h.2) : s'.reread = s.reread := by
  unfold St.reread
  rw [hh]
  apply List.map_congr_left
  intro h hm
  rw [hs h hm]

theorem liveArrs_congr (s s' : St) (hh : s'.handed = s.handed) (hc : s'.cpc = s.cpc) (hq : s'.queue = s.queue)
    (hf : ∀ fb ∈ callIds s.cpc ++ s.queue, s'.fbs fb = s.fbs fb) : liveArrs s' = liveArrs s := by
  unfold liveArrs
  rw [hh, hc, hq]
  congr 1
  apply List.map_congr_left
  intro fb hfb
  rw [hf fb hfb]

theorem mem_liveArrs_of_handed (s : St) (h : Option Obj × Slice) (hm : h ∈ s.handed) : h.2.arr ∈ liveArrs s := by
  unfold liveArrs
  exact List.mem_append_left _ (List.mem_map_of_mem hm)

theorem mem_liveArrs_of_id (s : St) (fb : Nat) (hm : fb ∈ callIds s.cpc ++ s.queue) :
    (s.fbs fb).sl.arr ∈ liveArrs s := by
  unfold liveArrs
  exact List.mem_append_right _ (List.mem_map_of_mem (f := fun fb => (s.fbs fb).sl.arr) hm)

theorem callIds_sub_heldC (c : CPc) : ∀ x ∈ callIds c, x ∈ heldC c := by
  cases c <;> simp [callIds, heldC]

theorem inv_alloc (cfg : Cfg) (ig : List UInt8) (k : UInt8) (tot : List Group) (s : St) (n : Nat)
    (inv : Inv ig k tot s) (hp : s.ppc = .alloc) : Inv ig k tot (stepP cfg ig k n s) := by
  have hb : bound s = s.nArr := by simp [bound, hp, curLive]
  have hlive : ∀ a ∈ liveArrs s, a ≠ s.nArr := by
    intro a ha; have := inv.arrsLt a ha; omega
  simp only [stepP, hp]
  constructor
  · -- view
    have h1 := inv.view
    simp only [pending, hp] at h1
    simp only [pending, readSl, upd_same, Arr.read, List.take_zero]
    rw [map_resolve_congr s _ _ (by intro fb _; rfl)] 
    · exact h1
    · intro fb hfb
      have := hlive _ (mem_liveArrs_of_id s fb hfb)
      simp only [readSl, upd_other _ _ _ _ this]
  · simpa [heldP, hp] using inv.ids
  · simpa [heldP, hp] using inv.idsLt
  · rw [liveArrs_congr s _ (by rfl) (by rfl) (by rfl) (by intro _ _; rfl)]; exact inv.arrs
  · rw [liveArrs_congr s _ (by rfl) (by rfl) (by rfl) (by intro _ _; rfl)]
    intro a ha
    have := inv.arrsLt a ha
    simpa [bound, curLive] using (hb ▸ this)
  · intro _; simp
  · intro fb f h; cases h
  · intro _; simp
  · rw [reread_congr s _ (by rfl)]
    · exact inv.stable
    · intro h hm
      have := hlive _ (mem_liveArrs_of_handed s h hm)
      simp only [readSl, upd_other _ _ _ _ this]
  · simpa [wgP, hp] using inv.wgEq
  · have := inv.closedDone; simp [hp] at this; simp [this]
  · intro h; rcases h with h | h <;> cases h
  · exact inv.exitedClosed
  · exact inv.notBad
  · intro a ha
    have := inv.sentLt a ha
    simpa [bound, curLive] using (hb ▸ this)

theorem closed_false_of_ne_done {ig k tot} {s : St} (inv : Inv ig k tot s) (h : s.ppc ≠ .done) : s.closed = false := by
  cases hc : s.closed with
  | false => rfl
  | true => exact absurd (inv.closedDone.mp hc) h

theorem inv_add (cfg : Cfg) (ig : List UInt8) (k : UInt8) (tot : List Group) (s : St) (n : Nat)
    (inv : Inv ig k tot s) (p : Option Obj) (f : Bool) (hp : s.ppc = .add p f) :
    Inv ig k tot (stepP cfg ig k n s) := by
  have hcl := closed_false_of_ne_done inv (by rw [hp]; intro h; cases h)
  simp only [stepP, hp]
  constructor
  · simpa [pending, hp, resolve_fun, readSl, restGroups] using inv.view
  · simpa [heldP, hp] using inv.ids
  · simpa [heldP, hp] using inv.idsLt
  · simpa [liveArrs] using inv.arrs
  · simpa [liveArrs, bound, hp, curLive] using inv.arrsLt
  · simpa [hp, curLive] using inv.curLt
  · intro fb f h; cases h
  · intro h; cases h
  · simpa [St.reread, readSl] using inv.stable
  · have := inv.wgEq; simp [wgP, hp] at this ⊢; omega
  · simp [hcl]
  · intro h; rcases h with h | h <;> cases h
  · exact inv.exitedClosed
  · exact inv.notBad
  · simpa [bound, hp, curLive] using inv.sentLt

theorem inv_wait (cfg : Cfg) (ig : List UInt8) (k : UInt8) (tot : List Group) (s : St) (n : Nat)
    (inv : Inv ig k tot s) (hp : s.ppc = .wait) : Inv ig k tot (stepP cfg ig k n s) := by
  have hcl := closed_false_of_ne_done inv (by rw [hp]; intro h; cases h)
  simp only [stepP, hp]
  by_cases hw : s.wg = 0
  · rw [if_pos hw]
    constructor
    · simpa [pending, hp, resolve_fun, readSl] using inv.view
    · simpa [heldP, hp] using inv.ids
    · simpa [heldP, hp] using inv.idsLt
    · simpa [liveArrs] using inv.arrs
    · simpa [liveArrs, bound, hp, curLive] using inv.arrsLt
    · intro h; simp [curLive] at h
    · intro fb f h; cases h
    · intro h; cases h
    · simpa [St.reread, readSl] using inv.stable
    · have := inv.wgEq; simp [wgP, hp] at this ⊢; omega
    · simp [hcl]
    · intro _; exact hw
    · exact inv.exitedClosed
    · exact inv.notBad
    · simpa [bound, hp, curLive] using inv.sentLt
  · rw [if_neg hw]; exact inv

theorem inv_close (cfg : Cfg) (ig : List UInt8) (k : UInt8) (tot : List Group) (s : St) (n : Nat)
    (inv : Inv ig k tot s) (hp : s.ppc = .close) : Inv ig k tot (stepP cfg ig k n s) := by
  simp only [stepP, hp]
  constructor
  · simpa [pending, hp, resolve_fun, readSl] using inv.view
  · simpa [heldP, hp] using inv.ids
  · simpa [heldP, hp] using inv.idsLt
  · simpa [liveArrs] using inv.arrs
  · simpa [liveArrs, bound, hp, curLive] using inv.arrsLt
  · intro h; simp [curLive] at h
  · intro fb f h; cases h
  · intro h; cases h
  · simpa [St.reread, readSl] using inv.stable
  · have := inv.wgEq; simp [wgP, hp] at this ⊢; omega
  · simp
  · intro _; exact inv.wgZero (Or.inl hp)
  · intro _; rfl
  · exact inv.notBad
  · simpa [bound, hp, curLive] using inv.sentLt

theorem inv_gc (ig : List UInt8) (k : UInt8) (tot : List Group) (s : St)
    (inv : Inv ig k tot s) : Inv ig k tot { s with pool := [] } := by
  constructor
  · simpa [pending, resolve_fun, readSl, restGroups] using inv.view
  · have := inv.ids
    simp only [List.append_nil]
    grind
  · intro x hx
    apply inv.idsLt
    simp only [List.append_nil] at hx
    grind
  · simpa [liveArrs] using inv.arrs
  · simpa [liveArrs, bound] using inv.arrsLt
  · exact inv.curLt
  · exact inv.enqSl
  · exact inv.curLen
  · simpa [St.reread, readSl] using inv.stable
  · exact inv.wgEq
  · exact inv.closedDone
  · exact inv.wgZero
  · exact inv.exitedClosed
  · exact inv.notBad
  · simpa [bound] using inv.sentLt

theorem inv_get_core (ig : List UInt8) (k : UInt8) (tot : List Group) (s : St)
    (inv : Inv ig k tot s) (p : Option Obj) (f : Bool) (hp : s.ppc = .get p f) (fb nFb' : Nat) (pool' : List Nat)
    (hids : (heldC s.cpc ++ (s.queue ++ ([fb] ++ pool'))).Nodup)
    (hlt : ∀ x ∈ heldC s.cpc ++ (s.queue ++ ([fb] ++ pool')), x < nFb') :
    Inv ig k tot { s with pool := pool', nFb := nFb', fbs := upd s.fbs fb ⟨p, s.cur⟩, ppc := .enq fb f } := by
  have hcl := closed_false_of_ne_done inv (by rw [hp]; intro h; cases h)
  have hne : ∀ x ∈ callIds s.cpc ++ s.queue, x ≠ fb := by
    intro x hx
    have : x ∈ heldC s.cpc ++ s.queue := by
      rcases List.mem_append.mp hx with h | h
      · exact List.mem_append_left _ (callIds_sub_heldC _ x h)
      · exact List.mem_append_right _ h
    grind
  have hfbs : ∀ x ∈ callIds s.cpc ++ s.queue, upd s.fbs fb ⟨p, s.cur⟩ x = s.fbs x := by
    intro x hx; exact upd_other _ _ _ _ (hne x hx)
  constructor
  · have h1 := inv.view
    simp only [pending, hp] at h1
    simp only [pending]
    rw [map_resolve_congr s _ _ (by intro x hx; exact hfbs x hx) (by intro x hx; rfl)]
    simpa [resolve, readSl, restGroups] using h1
  · simpa [heldP] using hids
  · simpa [heldP] using hlt
  · rw [liveArrs_congr s _ (by rfl) (by rfl) (by rfl) (by intro x hx; exact hfbs x hx)]; exact inv.arrs
  · rw [liveArrs_congr s _ (by rfl) (by rfl) (by rfl) (by intro x hx; exact hfbs x hx)]
    simpa [bound, hp, curLive] using inv.arrsLt
  · simpa [hp, curLive] using inv.curLt
  · intro fb' f' h
    simp only [PPc.enq.injEq] at h
    obtain ⟨rfl, _⟩ := h
    simp
  · intro h; cases h
  · simpa [St.reread, readSl] using inv.stable
  · have := inv.wgEq; simp [wgP, hp] at this ⊢; omega
  · simp [hcl]
  · intro h; rcases h with h | h <;> cases h
  · exact inv.exitedClosed
  · exact inv.notBad
  · simpa [bound, hp, curLive] using inv.sentLt

theorem inv_get (cfg : Cfg) (ig : List UInt8) (k : UInt8) (tot : List Group) (s : St) (n : Nat)
    (inv : Inv ig k tot s) (p : Option Obj) (f : Bool) (hp : s.ppc = .get p f) :
    Inv ig k tot (stepP cfg ig k n s) := by
  have hids := inv.ids
  have hlt := inv.idsLt
  simp only [hp, heldP, List.nil_append] at hids hlt
  simp only [stepP, hp]
  split
  · rename_i fb hfb
    have hmem : fb ∈ s.pool := List.mem_of_getElem? hfb
    have hpool : s.pool.Nodup := by grind
    apply inv_get_core ig k tot s inv p f hp
    · have h1 : fb ∉ s.pool.erase fb := hpool.not_mem_erase
      have h2 : ∀ x, x ∈ s.pool.erase fb → x ∈ s.pool := fun x hx => List.mem_of_mem_erase hx
      have h3 : (s.pool.erase fb).Nodup := hpool.erase fb
      grind
    · intro x hx
      apply hlt
      have h2 : ∀ x, x ∈ s.pool.erase fb → x ∈ s.pool := fun x hx => List.mem_of_mem_erase hx
      grind
  · apply inv_get_core ig k tot s inv p f hp
    · have : ∀ x ∈ heldC s.cpc ++ (s.queue ++ s.pool), x ≠ s.nFb := by
        intro x hx; have := hlt x hx; omega
      grind
    · intro x hx
      have : x = s.nFb ∨ x ∈ heldC s.cpc ++ (s.queue ++ s.pool) := by grind
      rcases this with rfl | h
      · omega
      · have := hlt x h; omega

theorem inv_enq (cfg : Cfg) (ig : List UInt8) (k : UInt8) (tot : List Group) (s : St) (n : Nat)
    (inv : Inv ig k tot s) (fb : Nat) (f : Bool) (hp : s.ppc = .enq fb f) :
    Inv ig k tot (stepP cfg ig k n s) := by
  have hcl := closed_false_of_ne_done inv (by rw [hp]; intro h; cases h)
  have hsl := inv.enqSl fb f hp
  have hb : bound s = s.cur.arr := by simp [bound, hp, curLive]
  have hcur : s.cur.arr < s.nArr := inv.curLt (by simp [hp, curLive])
  have hnd : ∀ pc : PPc, (pc = .wait ∨ pc = .alloc) → curLive pc = false ∧ heldP pc = [] ∧ wgP pc = 0 ∧ pc ≠ .done ∧
      pc ≠ .close ∧ pc ≠ .reading ∧ (∀ fb f, pc ≠ .enq fb f) := by
    intro pc h; rcases h with rfl | rfl <;> simp [curLive, heldP, wgP]
  simp only [stepP, hp]
  by_cases hq : s.queue.length < cfg.qcap
  · rw [if_pos hq]
    have hpc : (if f = true then PPc.wait else PPc.alloc) = .wait ∨ (if f = true then PPc.wait else PPc.alloc) = .alloc := by
      cases f <;> simp
    obtain ⟨h1, h2, h3, h4, h5, h6, h7⟩ := hnd _ hpc
    have hla : liveArrs { s with
          queue := s.queue ++ [fb], sentArrs := (s.fbs fb).sl.arr :: s.sentArrs,
          ppc := (if f = true then PPc.wait else PPc.alloc) } = liveArrs s ++ [s.cur.arr] := by
      simp [liveArrs, hsl]
    constructor
    · have hv := inv.view
      simp only [pending, hp] at hv
      cases f
      · simpa [pending, resolve_fun, readSl, restGroups, resolve] using hv
      · simpa [pending, resolve_fun, readSl, restGroups, resolve] using hv
    · have := inv.ids
      simp only [hp, heldP] at this
      simp only [h2]
      grind
    · have := inv.idsLt
      simp only [hp, heldP] at this
      simp only [h2]
      intro x hx
      apply this
      grind
    · rw [hla]
      have h8 := inv.arrs
      have h9 : s.cur.arr ∉ liveArrs s := by
        intro hm; have := inv.arrsLt _ hm; omega
      grind
    · rw [hla]
      intro a ha
      simp only [bound, h1]
      rcases List.mem_append.mp ha with h | h
      · have := inv.arrsLt a h; simp; omega
      · simp only [List.mem_singleton] at h; subst h; simpa using hcur
    · intro h; rw [h1] at h; cases h
    · intro fb' f' h; exact absurd h (h7 fb' f')
    · intro h; exact absurd h h6
    · simpa [St.reread, readSl] using inv.stable
    · have := inv.wgEq; simp only [wgP, hp] at this; simp only [h3, List.length_append, List.length_singleton]; omega
    · simp [hcl, h4]
    · intro h; rcases h with h | h
      · exact absurd h h5
      · exact absurd h h4
    · exact inv.exitedClosed
    · exact inv.notBad
    · intro a ha
      simp only [bound, h1]
      simp only [List.mem_cons] at ha
      rcases ha with rfl | ha
      · rw [hsl]; simpa using hcur
      · have := inv.sentLt a ha; simp; omega
  · rw [if_neg hq]; exact inv

/-- producer moves that touch only its own locals -/
theorem inv_prod_local (ig : List UInt8) (k : UInt8) (tot : List Group) (s : St)
    (inv : Inv ig k tot s) (hp : s.ppc = .reading) (rest' : List Sec) (off' skip' : Nat) (ppc' : PPc)
    (hpc : ppc' = .reading ∨ ∃ p f, ppc' = .add p f)
    (hview : pending ig k { s with rest := rest', off := off', skip := skip', ppc := ppc' } = pending ig k s) :
    Inv ig k tot { s with rest := rest', off := off', skip := skip', ppc := ppc' } := by
  have hcl := closed_false_of_ne_done inv (by rw [hp]; intro h; cases h)
  have hnd : curLive ppc' = true ∧ heldP ppc' = [] ∧ wgP ppc' = 0 ∧ ppc' ≠ .done ∧ ppc' ≠ .close ∧
      (∀ fb f, ppc' ≠ .enq fb f) := by
    rcases hpc with rfl | ⟨p, f, rfl⟩ <;> simp [curLive, heldP, wgP]
  obtain ⟨h1, h2, h3, h4, h5, h7⟩ := hnd
  have hb : bound s = s.cur.arr := by simp [bound, hp, curLive]
  constructor
  · rw [hview]
    simpa [resolve_fun, readSl] using inv.view
  · simpa [heldP, hp, h2] using inv.ids
  · simpa [heldP, hp, h2] using inv.idsLt
  · simpa [liveArrs] using inv.arrs
  · intro a ha
    have h := inv.arrsLt a (by simpa [liveArrs] using ha)
    rw [hb] at h
    simpa [bound, h1] using h
  · intro _; simpa [hp, curLive] using inv.curLt
  · intro fb f h; exact absurd h (h7 fb f)
  · intro _; exact inv.curLen hp
  · simpa [St.reread, readSl] using inv.stable
  · have := inv.wgEq; simp only [wgP, hp] at this; simp only [h3]; omega
  · simp [hcl, h4]
  · intro h; rcases h with h | h
    · exact absurd h h5
    · exact absurd h h4
  · exact inv.exitedClosed
  · exact inv.notBad
  · intro a ha
    have h := inv.sentLt a ha
    rw [hb] at h
    simpa [bound, h1] using h

theorem inv_append (cfg : Cfg) (ig : List UInt8) (k : UInt8) (tot : List Group) (s : St)
    (inv : Inv ig k tot s) (hp : s.ppc = .reading) (r : List Sec) (off' : Nat) (o : Obj)
    (hv : pending ig k s = go ig k r off' s.skip (readSl s s.cur ++ [o])) :
    Inv ig k tot (appendObj cfg { s with rest := r, off := off' } o) := by
  have hcl := closed_false_of_ne_done inv (by rw [hp]; intro h; cases h)
  have hb : bound s = s.cur.arr := by simp [bound, hp, curLive]
  have hcur : s.cur.arr < s.nArr := inv.curLt (by simp [hp, curLive])
  have hlen := inv.curLen hp
  have hlive : ∀ a ∈ liveArrs s, a < s.cur.arr := by
    intro a ha; have := inv.arrsLt a ha; omega
  have hids := inv.ids
  have hidsLt := inv.idsLt
  have hwg := inv.wgEq
  simp only [hp, heldP, wgP] at hids hidsLt hwg
  unfold appendObj
  simp only
  by_cases hc : s.cur.len < (s.store s.cur.arr).cap
  · rw [if_pos hc]
    have hread : ((s.store s.cur.arr).write s.cur.len o).read (s.cur.len + 1) = readSl s s.cur ++ [o] := by
      have := Arr.read_write_end (s.store s.cur.arr) o
      rw [hlen] at this
      simpa [readSl] using this
    constructor
    · have h1 := inv.view
      rw [hv] at h1
      simp only [pending, hp, readSl, upd_same, hread]
      rw [map_resolve_congr s _ _ (by intro fb _; rfl)]
      · simpa [readSl] using h1
      · intro fb hfb
        have := hlive _ (mem_liveArrs_of_id s fb hfb)
        simp only [readSl, upd_other _ _ _ _ (Nat.ne_of_lt this)]
    · simpa [heldP, hp] using hids
    · simpa [heldP, hp] using hidsLt
    · rw [liveArrs_congr s _ (by rfl) (by rfl) (by rfl) (by intro _ _; rfl)]; exact inv.arrs
    · rw [liveArrs_congr s _ (by rfl) (by rfl) (by rfl) (by intro _ _; rfl)]
      simpa [bound, hp, curLive] using hlive
    · intro _; exact hcur
    · intro fb f h; rw [hp] at h; cases h
    · intro _
      simp only [upd_same]
      rw [← hlen]; exact Arr.write_end_length _ _
    · rw [reread_congr s _ (by rfl)]
      · exact inv.stable
      · intro h hm
        have := hlive _ (mem_liveArrs_of_handed s h hm)
        simp only [readSl, upd_other _ _ _ _ (Nat.ne_of_lt this)]
    · simpa [wgP, hp] using hwg
    · simp [hcl, hp]
    · intro h; rw [hp] at h; rcases h with h | h <;> cases h
    · exact inv.exitedClosed
    · have h1 := inv.notBad
      have h2 : s.cur.arr ∉ s.sentArrs := by
        intro hm
        have := inv.sentLt _ hm
        rw [hb] at this
        omega
      simp [h1, h2]
    · simpa [bound, hp, curLive] using inv.sentLt
  · rw [if_neg hc]
    have hrl : ((s.store s.cur.arr).read s.cur.len).length = s.cur.len := by
      simp [Arr.read, hlen]
    have hread : (Arr.write ⟨((s.store s.cur.arr).read s.cur.len).reverse, cfg.grow (s.store s.cur.arr).cap⟩ s.cur.len o).read
        (s.cur.len + 1) = readSl s s.cur ++ [o] := by
      have := Arr.read_write_end ⟨((s.store s.cur.arr).read s.cur.len).reverse, cfg.grow (s.store s.cur.arr).cap⟩ o
      simp only [List.length_reverse, hrl] at this
      rw [this]
      simp [Arr.read, readSl, List.take_take]
    constructor
    · have h1 := inv.view
      rw [hv] at h1
      simp only [pending, hp, readSl, upd_same, hread]
      rw [map_resolve_congr s _ _ (by intro fb _; rfl)]
      · simpa [readSl] using h1
      · intro fb hfb
        have := hlive _ (mem_liveArrs_of_id s fb hfb)
        simp only [readSl, upd_other _ _ _ _ (show (s.fbs fb).sl.arr ≠ s.nArr by omega)]
    · simpa [heldP, hp] using hids
    · simpa [heldP, hp] using hidsLt
    · rw [liveArrs_congr s _ (by rfl) (by rfl) (by rfl) (by intro _ _; rfl)]; exact inv.arrs
    · rw [liveArrs_congr s _ (by rfl) (by rfl) (by rfl) (by intro _ _; rfl)]
      intro a ha
      have := hlive a ha
      simp [bound, hp, curLive]; omega
    · intro _; simp
    · intro fb f h; rw [hp] at h; cases h
    · intro _
      simp only [upd_same]
      have := Arr.write_end_length ⟨((s.store s.cur.arr).read s.cur.len).reverse, cfg.grow (s.store s.cur.arr).cap⟩ o
      simp only [List.length_reverse, hrl] at this
      exact this
    · rw [reread_congr s _ (by rfl)]
      · exact inv.stable
      · intro h hm
        have := hlive _ (mem_liveArrs_of_handed s h hm)
        simp only [readSl, upd_other _ _ _ _ (show h.2.arr ≠ s.nArr by omega)]
    · simpa [wgP, hp] using hwg
    · simp [hcl, hp]
    · intro h; rw [hp] at h; rcases h with h | h <;> cases h
    · exact inv.exitedClosed
    · exact inv.notBad
    · intro a ha
      have := inv.sentLt a ha
      simp [bound, hp, curLive] at this ⊢; omega

theorem inv_read (cfg : Cfg) (ig : List UInt8) (k : UInt8) (tot : List Group) (s : St) (n : Nat)
    (inv : Inv ig k tot s) (hp : s.ppc = .reading) : Inv ig k tot (stepP cfg ig k n s) := by
  simp only [stepP, hp]
  unfold pRead
  split
  · -- EOF
    rename_i hr
    have : ({ s with ppc := .add none true } : St) =
        { s with rest := s.rest, off := s.off, skip := s.skip, ppc := .add none true } := rfl
    rw [this]
    apply inv_prod_local ig k tot s inv hp _ _ _ _ (Or.inr ⟨none, true, rfl⟩)
    simp [pending, hp, hr, go, restGroups, readSl]
  · -- skipped
    rename_i sec r m hr hs
    have : ({ s with rest := r, off := s.off + sec.secLen, skip := m } : St) =
        { s with rest := r, off := s.off + sec.secLen, skip := m, ppc := .reading } := by rw [← hp]
    rw [this]
    apply inv_prod_local ig k tot s inv hp _ _ _ _ (Or.inl rfl)
    simp [pending, hp, hr, hs, go, readSl]
  · rename_i sec r hr hs
    simp only
    by_cases hk : kindOf sec.data = k
    · rw [if_pos hk]
      have : ({ s with rest := r, off := s.off + sec.secLen,
                       ppc := .add (some ⟨sec.cid, s.off, sec.secLen, sec.data⟩) false } : St) =
          { s with rest := r, off := s.off + sec.secLen, skip := s.skip,
                   ppc := .add (some ⟨sec.cid, s.off, sec.secLen, sec.data⟩) false } := rfl
      rw [this]
      apply inv_prod_local ig k tot s inv hp _ _ _ _ (Or.inr ⟨_, false, rfl⟩)
      simp [pending, hp, hr, hs, go, readSl, restGroups, hk]
    · rw [if_neg hk]
      by_cases hi : ignored ig (kindOf sec.data) = true
      · rw [if_pos hi]
        have : ({ s with rest := r, off := s.off + sec.secLen } : St) =
            { s with rest := r, off := s.off + sec.secLen, skip := s.skip, ppc := .reading } := by rw [← hp]
        rw [this]
        apply inv_prod_local ig k tot s inv hp _ _ _ _ (Or.inl rfl)
        simp [pending, hp, hr, hs, go, readSl, hk, hi]
      · rw [if_neg hi]
        apply inv_append cfg ig k tot s inv hp
        simp [pending, hp, hr, hs, go, readSl, hk, hi]

theorem inv_stepP (cfg : Cfg) (ig : List UInt8) (k : UInt8) (tot : List Group) (s : St) (n : Nat)
    (inv : Inv ig k tot s) : Inv ig k tot (stepP cfg ig k n s) := by
  cases hp : s.ppc with
  | alloc => exact inv_alloc cfg ig k tot s n inv hp
  | reading => exact inv_read cfg ig k tot s n inv hp
  | add p f => exact inv_add cfg ig k tot s n inv p f hp
  | get p f => exact inv_get cfg ig k tot s n inv p f hp
  | enq fb f => exact inv_enq cfg ig k tot s n inv fb f hp
  | wait => exact inv_wait cfg ig k tot s n inv hp
  | close => exact inv_close cfg ig k tot s n inv hp
  | done => simp only [stepP, hp]; exact inv

/-! ### consumer steps -/

theorem pending_congr (ig : List UInt8) (k : UInt8) (s s' : St) (hpc : s'.ppc = s.ppc) (hrest : s'.rest = s.rest)
    (hoff : s'.off = s.off) (hskip : s'.skip = s.skip) (hcur : s'.cur = s.cur)
    (hread : curLive s.ppc = true → readSl s' s.cur = readSl s s.cur)
    (hfb : ∀ fb f, s.ppc = .enq fb f → s'.fbs fb = s.fbs fb)
    (henq : ∀ fb f, s.ppc = .enq fb f → (s.fbs fb).sl = s.cur) :
    pending ig k s' = pending ig k s := by
  unfold pending
  rw [hpc]
  cases hp : s.ppc with
  | alloc => simp only [hrest, hoff, hskip]
  | reading => simp only [hrest, hoff, hskip, hcur, hread (by simp [hp, curLive])]
  | add p f => simp only [restGroups, hrest, hoff, hskip, hcur, hread (by simp [hp, curLive])]
  | get p f => simp only [restGroups, hrest, hoff, hskip, hcur, hread (by simp [hp, curLive])]
  | enq fb f =>
    have h1 := hfb fb f hp
    have h2 := henq fb f hp
    have h3 := hread (by simp [hp, curLive])
    simp only [restGroups, hrest, hoff, hskip, resolve, h1, h2, h3]
  | wait => rfl
  | close => rfl
  | done => rfl

theorem inv_recv (ig : List UInt8) (k : UInt8) (tot : List Group) (s : St) (app : Bool)
    (inv : Inv ig k tot s) (hc : s.cpc = .idle) : Inv ig k tot (stepC app s) := by
  simp only [stepC, hc]
  split
  · rename_i fb q hq
    constructor
    · have := inv.view
      simp only [hc, callIds, hq] at this
      simpa [callIds, resolve_fun, pending, readSl, restGroups] using this
    · have := inv.ids; simp only [hc, heldC, hq] at this; simpa [heldC] using this
    · have := inv.idsLt; simp only [hc, heldC, hq] at this; simpa [heldC] using this
    · have := inv.arrs; simp only [liveArrs, hc, callIds, hq] at this; simpa [liveArrs, callIds] using this
    · have := inv.arrsLt; simp only [liveArrs, hc, callIds, hq] at this; simpa [liveArrs, callIds, bound] using this
    · exact inv.curLt
    · exact inv.enqSl
    · exact inv.curLen
    · simpa [St.reread, readSl] using inv.stable
    · have := inv.wgEq; simp only [hc, wgC, hq, List.length_cons] at this; simp only [wgC]; omega
    · exact inv.closedDone
    · exact inv.wgZero
    · intro h; cases h
    · exact inv.notBad
    · simpa [bound] using inv.sentLt
  · rename_i hq
    by_cases hcl : s.closed = true
    · rw [if_pos hcl]
      constructor
      · have := inv.view
        simp only [hc, callIds] at this
        simpa [callIds, resolve_fun, pending, readSl, restGroups] using this
      · have := inv.ids; simp only [hc, heldC] at this; simpa [heldC] using this
      · have := inv.idsLt; simp only [hc, heldC] at this; simpa [heldC] using this
      · have := inv.arrs; simp only [liveArrs, hc, callIds] at this; simpa [liveArrs, callIds] using this
      · have := inv.arrsLt; simp only [liveArrs, hc, callIds] at this; simpa [liveArrs, callIds, bound] using this
      · exact inv.curLt
      · exact inv.enqSl
      · exact inv.curLen
      · simpa [St.reread, readSl] using inv.stable
      · have := inv.wgEq; simp only [hc, wgC] at this; simp only [wgC]; omega
      · exact inv.closedDone
      · exact inv.wgZero
      · intro _; exact hcl
      · exact inv.notBad
      · simpa [bound] using inv.sentLt
    · rw [if_neg hcl]; exact inv

theorem inv_fin (ig : List UInt8) (k : UInt8) (tot : List Group) (s : St) (app : Bool)
    (inv : Inv ig k tot s) (fb : Nat) (hc : s.cpc = .fin fb) : Inv ig k tot (stepC app s) := by
  simp only [stepC, hc]
  constructor
  · have := inv.view
    simp only [hc, callIds] at this
    simpa [callIds, resolve_fun, pending, readSl, restGroups] using this
  · have := inv.ids; simp only [hc, heldC] at this; simpa [heldC] using this
  · have := inv.idsLt; simp only [hc, heldC] at this; simpa [heldC] using this
  · have := inv.arrs; simp only [liveArrs, hc, callIds] at this; simpa [liveArrs, callIds] using this
  · have := inv.arrsLt; simp only [liveArrs, hc, callIds] at this; simpa [liveArrs, callIds, bound] using this
  · exact inv.curLt
  · exact inv.enqSl
  · exact inv.curLen
  · simpa [St.reread, readSl] using inv.stable
  · have := inv.wgEq; simp only [hc, wgC] at this; simp only [wgC]; omega
  · exact inv.closedDone
  · intro h; have := inv.wgZero h; simp [this]
  · intro h; cases h
  · exact inv.notBad
  · simpa [bound] using inv.sentLt

theorem inv_put (ig : List UInt8) (k : UInt8) (tot : List Group) (s : St) (app : Bool)
    (inv : Inv ig k tot s) (fb : Nat) (hc : s.cpc = .put fb) : Inv ig k tot (stepC app s) := by
  have hids := inv.ids
  have hidsLt := inv.idsLt
  simp only [hc, heldC] at hids hidsLt
  have hnq : ∀ x ∈ s.queue, x ≠ fb := by grind
  have hnp : ∀ x ∈ heldP s.ppc, x ≠ fb := by grind
  have hfbs : ∀ x ∈ callIds s.cpc ++ s.queue, upd s.fbs fb ⟨none, ⟨(s.fbs fb).sl.arr, 0⟩⟩ x = s.fbs x := by
    intro x hx
    simp only [hc, callIds, List.nil_append] at hx
    exact upd_other _ _ _ _ (hnq x hx)
  have henq : ∀ fb' f, s.ppc = .enq fb' f → upd s.fbs fb ⟨none, ⟨(s.fbs fb).sl.arr, 0⟩⟩ fb' = s.fbs fb' := by
    intro fb' f h
    exact upd_other _ _ _ _ (hnp fb' (by simp [h, heldP]))
  simp only [stepC, hc]
  constructor
  · have h1 := inv.view
    simp only [hc, callIds, List.nil_append] at h1
    simp only [callIds, List.nil_append]
    rw [map_resolve_congr s _ _ (by intro x hx; exact upd_other _ _ _ _ (hnq x hx)) (by intro x hx; rfl)]
    rw [pending_congr ig k s _ (by rfl) (by rfl) (by rfl) (by rfl) (by rfl) (by intro _; rfl) henq inv.enqSl]
    exact h1
  · simp only [heldC, List.nil_append]; grind
  · intro x hx; apply hidsLt; simp only [heldC, List.nil_append] at hx; grind
  · have h1 := inv.arrs
    simp only [liveArrs, hc, callIds, List.nil_append] at h1
    simp only [liveArrs, callIds, List.nil_append]
    rw [List.map_congr_left (g := fun x => (s.fbs x).sl.arr)]
    · exact h1
    · intro x hx; rw [upd_other _ _ _ _ (hnq x hx)]
  · have h1 := inv.arrsLt
    simp only [liveArrs, hc, callIds, List.nil_append] at h1
    simp only [liveArrs, callIds, List.nil_append]
    rw [List.map_congr_left (g := fun x => (s.fbs x).sl.arr)]
    · simpa [bound] using h1
    · intro x hx; rw [upd_other _ _ _ _ (hnq x hx)]
  · exact inv.curLt
  · intro fb' f h
    have := inv.enqSl fb' f h
    simp only
    rw [henq fb' f h]; exact this
  · exact inv.curLen
  · simpa [St.reread, readSl] using inv.stable
  · have := inv.wgEq; simp only [hc, wgC] at this; simp only [wgC]; omega
  · exact inv.closedDone
  · exact inv.wgZero
  · intro h; cases h
  · exact inv.notBad
  · simpa [bound] using inv.sentLt

theorem cbWrite_some (app : Bool) (s : St) (f : FB) (i : Nat) (v : Arr) (h : cbWrite app s f = some (i, v)) :
    i = f.sl.arr ∧ ∃ p, v = (s.store f.sl.arr).write f.sl.len p := by
  unfold cbWrite at h
  cases app with
  | false => simp at h
  | true =>
    cases hp : f.parent with
    | none => simp [hp] at h
    | some p =>
      simp only [hp] at h
      split at h
      · simp only [Option.some.injEq, Prod.mk.injEq] at h
        exact ⟨h.1.symm, p, h.2.symm⟩
      · cases h

theorem cbStore_other (app : Bool) (s : St) (f : FB) (a : Nat) (h : a ≠ f.sl.arr) : cbStore app s f a = s.store a := by
  unfold cbStore
  cases hw : cbWrite app s f with
  | none => rfl
  | some iv =>
    obtain ⟨i, v⟩ := iv
    obtain ⟨rfl, _⟩ := cbWrite_some app s f i v hw
    exact upd_other _ _ _ _ h

theorem cbStore_read (app : Bool) (s : St) (f : FB) (n : Nat) (h : n ≤ f.sl.len) :
    (cbStore app s f f.sl.arr).read n = (s.store f.sl.arr).read n := by
  unfold cbStore
  cases hw : cbWrite app s f with
  | none => rfl
  | some iv =>
    obtain ⟨i, v⟩ := iv
    obtain ⟨rfl, p, rfl⟩ := cbWrite_some app s f i v hw
    simp only [upd_same]
    exact Arr.read_write_le _ _ _ _ h

theorem inv_call (ig : List UInt8) (k : UInt8) (tot : List Group) (s : St) (app : Bool)
    (inv : Inv ig k tot s) (fb : Nat) (hc : s.cpc = .call fb) : Inv ig k tot (stepC app s) := by
  have harrs := inv.arrs
  have harrsLt := inv.arrsLt
  simp only [liveArrs, hc, callIds, List.singleton_append, List.map_cons] at harrs harrsLt
  have hnh : ∀ h ∈ s.handed, h.2.arr ≠ (s.fbs fb).sl.arr := by
    intro h hm
    have : h.2.arr ∈ s.handed.map (fun h => h.2.arr) := List.mem_map_of_mem hm
    grind
  have hnq : ∀ x ∈ s.queue, (s.fbs x).sl.arr ≠ (s.fbs fb).sl.arr := by
    intro x hx
    have : (s.fbs x).sl.arr ∈ s.queue.map (fun x => (s.fbs x).sl.arr) :=
      List.mem_map_of_mem (f := fun x => (s.fbs x).sl.arr) hx
    grind
  have hlt : (s.fbs fb).sl.arr < bound s := harrsLt _ (by simp)
  have hcurne : curLive s.ppc = true → s.cur.arr ≠ (s.fbs fb).sl.arr := by
    intro h; simp only [bound, h, if_true] at hlt; omega
  rw [stepC_call app s fb hc]
  constructor
  · have h1 := inv.view
    simp only [hc, callIds, List.singleton_append, List.map_cons] at h1
    simp only [callIds, List.nil_append]
    rw [map_resolve_congr s _ _ (by intro x hx; rfl)
      (by intro x hx; simp only [readSl]; rw [cbStore_other _ _ _ _ (hnq x hx)])]
    rw [pending_congr ig k s _ (by rfl) (by rfl) (by rfl) (by rfl) (by rfl)
      (by intro h; simp only [readSl]; rw [cbStore_other _ _ _ _ (hcurne h)]) (by intro _ _ _; rfl) inv.enqSl]
    simpa [resolve] using h1
  · have := inv.ids; simp only [hc, heldC] at this; simpa [heldC] using this
  · have := inv.idsLt; simp only [hc, heldC] at this; simpa [heldC] using this
  · simpa [liveArrs, callIds] using harrs
  · intro a ha
    have : a < bound s := harrsLt a (by simpa [liveArrs, callIds] using ha)
    simpa [bound] using this
  · exact inv.curLt
  · exact inv.enqSl
  · intro h
    have h' : s.ppc = .reading := h
    have h2 := inv.curLen h'
    simp only
    rw [cbStore_other _ _ _ _ (hcurne (by simp [h', curLive]))]
    exact h2
  · have h1 := inv.stable
    simp only [St.reread, List.map_append, List.map_cons, List.map_nil]
    rw [← h1]
    congr 1
    · apply List.map_congr_left
      intro h hm
      simp only [readSl]
      rw [cbStore_other _ _ _ _ (hnh h hm)]
    · simp only [readSl]
      rw [cbStore_read _ _ _ _ (Nat.le_refl _)]
  · have := inv.wgEq; simp only [hc, wgC] at this; simp only [wgC]; omega
  · exact inv.closedDone
  · exact inv.wgZero
  · intro h; cases h
  · exact inv.notBad
  · simpa [bound] using inv.sentLt

theorem inv_stepC (ig : List UInt8) (k : UInt8) (tot : List Group) (s : St) (app : Bool)
    (inv : Inv ig k tot s) : Inv ig k tot (stepC app s) := by
  cases hc : s.cpc with
  | idle => exact inv_recv ig k tot s app inv hc
  | call fb => exact inv_call ig k tot s app inv fb hc
  | fin fb => exact inv_fin ig k tot s app inv fb hc
  | put fb => exact inv_put ig k tot s app inv fb hc
  | exited => simp only [stepC, hc]; exact inv

theorem inv_step (cfg : Cfg) (ig : List UInt8) (k : UInt8) (tot : List Group) (s : St) (e : Ev)
    (inv : Inv ig k tot s) : Inv ig k tot (step cfg ig k s e) := by
  cases e with
  | p n => exact inv_stepP cfg ig k tot s n inv
  | c app => exact inv_stepC ig k tot s app inv
  | gc => exact inv_gc ig k tot s inv

theorem inv_exec (cfg : Cfg) (ig : List UInt8) (k : UInt8) (tot : List Group) (s : St) (σ : List Ev)
    (inv : Inv ig k tot s) : Inv ig k tot (exec cfg ig k s σ) := by
  induction σ generalizing s with
  | nil => exact inv
  | cons e σ ih => exact ih _ (inv_step cfg ig k tot s e inv)

/-! ### safety consequences -/

theorem seen_prefix {ig k tot} {s : St} (inv : Inv ig k tot s) : s.seen <+: tot :=
  ⟨_, inv.view⟩

theorem seen_all_of_finished {ig k tot} {s : St} (inv : Inv ig k tot s) (h : s.finished = true) : s.seen = tot := by
  simp only [St.finished, Bool.and_eq_true, beq_iff_eq] at h
  obtain ⟨hp, hc⟩ := h
  have hw := inv.wgZero (Or.inr hp)
  have hq : s.queue = [] := by
    have := inv.wgEq
    rw [hw] at this
    exact List.eq_nil_of_length_eq_zero (by omega)
  have := inv.view
  simpa [hp, hc, hq, callIds, pending] using this

/-! ### progress -/

def enabledP (cfg : Cfg) (s : St) : Bool :=
  match s.ppc with
  | .enq _ _ => decide (s.queue.length < cfg.qcap)
  | .wait => decide (s.wg = 0)
  | .done => false
  | _ => true

def enabledC (s : St) : Bool :=
  match s.cpc with
  | .idle => !s.queue.isEmpty || s.closed
  | .exited => false
  | _ => true

def prodM (s : St) : Nat :=
  match s.ppc with
  | .alloc => 5 * s.rest.length + 7
  | .reading => 5 * s.rest.length + 6
  | .add _ f => if f then 5 else 5 * s.rest.length + 10
  | .get _ f => if f then 4 else 5 * s.rest.length + 9
  | .enq _ f => if f then 3 else 5 * s.rest.length + 8
  | .wait => 2
  | .close => 1
  | .done => 0

def toSend (s : St) : Nat :=
  match s.ppc with
  | .alloc | .reading => s.rest.length + 1
  | .add _ f | .get _ f | .enq _ f => if f then 1 else s.rest.length + 2
  | _ => 0

def consPc : CPc → Nat
  | .idle => 1
  | .call _ => 4
  | .fin _ => 3
  | .put _ => 2
  | .exited => 0

/-- an upper bound on the number of effective steps still to be taken -/
def mu (s : St) : Nat := prodM s + (4 * (toSend s + s.queue.length) + consPc s.cpc)

theorem appendObj_local (cfg : Cfg) (s : St) (o : Obj) :
    (appendObj cfg s o).ppc = s.ppc ∧ (appendObj cfg s o).rest = s.rest ∧ (appendObj cfg s o).queue = s.queue ∧
    (appendObj cfg s o).cpc = s.cpc := by
  unfold appendObj
  simp only
  split <;> simp

theorem stepP_blocked (cfg : Cfg) (ig : List UInt8) (k : UInt8) (n : Nat) (s : St) (h : enabledP cfg s = false) :
    stepP cfg ig k n s = s := by
  unfold enabledP at h
  unfold stepP
  split <;> simp_all <;> (intro h'; omega)

theorem stepP_mu (cfg : Cfg) (ig : List UInt8) (k : UInt8) (n : Nat) (s : St) (h : enabledP cfg s = true) :
    mu (stepP cfg ig k n s) < mu s := by
  unfold enabledP at h
  cases hp : s.ppc with
  | alloc => simp [stepP, hp, mu, prodM, toSend]
  | reading =>
    have e : stepP cfg ig k n s = pRead cfg ig k s := by simp only [stepP, hp]
    rw [e]
    unfold pRead
    split
    · rename_i hr; simp [mu, prodM, toSend, hp, hr]
    · rename_i sec r m hr hs; simp [mu, prodM, toSend, hp, hr]; omega
    · rename_i sec r hr hs
      simp only
      split
      · simp [mu, prodM, toSend, hp, hr]; omega
      · split
        · simp [mu, prodM, toSend, hp, hr]; omega
        · obtain ⟨h1, h2, h3, h4⟩ := appendObj_local cfg { s with rest := r, off := s.off + sec.secLen }
            ⟨sec.cid, s.off, sec.secLen, sec.data⟩
          simp only [mu, prodM, toSend, h1, h2, h3, h4]
          simp only [hp, hr, List.length_cons]; omega
  | add p f => cases f <;> simp [stepP, hp, mu, prodM, toSend]
  | get p f =>
    simp only [stepP, hp]
    split <;> cases f <;> simp [mu, prodM, toSend, hp]
  | enq fb f =>
    simp only [hp, decide_eq_true_eq] at h
    simp only [stepP, hp, if_pos h]
    cases f <;> simp [mu, prodM, toSend, hp] <;> omega
  | wait =>
    simp only [hp, decide_eq_true_eq] at h
    simp [stepP, hp, h, mu, prodM, toSend]
  | close => simp [stepP, hp, mu, prodM, toSend]
  | done => simp [hp] at h

theorem stepC_blocked (app : Bool) (s : St) (h : enabledC s = false) : stepC app s = s := by
  unfold enabledC at h
  unfold stepC
  split
  · rename_i hc
    simp only [hc, Bool.or_eq_false_iff, Bool.not_eq_false', List.isEmpty_iff] at h
    simp [h.1, h.2]
  all_goals simp_all

theorem stepC_mu (app : Bool) (s : St) (h : enabledC s = true) : mu (stepC app s) < mu s := by
  unfold enabledC at h
  cases hc : s.cpc with
  | idle =>
    simp only [stepC, hc]
    split
    · rename_i fb q hq
      simp [mu, prodM, toSend, consPc, hc, hq]; omega
    · rename_i hq
      simp only [hc, hq, List.isEmpty_nil, Bool.not_true, Bool.false_or] at h
      simp [h, mu, prodM, toSend, consPc, hc]
  | call fb => rw [stepC_call app s fb hc]; simp [hc, mu, prodM, toSend, consPc]
  | fin fb => simp [stepC, hc, mu, prodM, toSend, consPc]
  | put fb => simp [stepC, hc, mu, prodM, toSend, consPc]
  | exited => simp [hc] at h

theorem step_mu_le (cfg : Cfg) (ig : List UInt8) (k : UInt8) (s : St) (e : Ev) : mu (step cfg ig k s e) ≤ mu s := by
  cases e with
  | p n =>
    simp only [step]
    cases h : enabledP cfg s with
    | true => exact Nat.le_of_lt (stepP_mu cfg ig k n s h)
    | false => rw [stepP_blocked cfg ig k n s h]; exact Nat.le_refl _
  | c app =>
    simp only [step]
    cases h : enabledC s with
    | true => exact Nat.le_of_lt (stepC_mu app s h)
    | false => rw [stepC_blocked app s h]; exact Nat.le_refl _
  | gc => simp [step, mu, prodM, toSend]

/-- no deadlock: while the run is not over, the reader or the flusher can take an effective step -/
theorem not_stuck (cfg : Cfg) (hq : 1 ≤ cfg.qcap) {ig k tot} {s : St} (inv : Inv ig k tot s)
    (hf : s.finished = false) : enabledP cfg s = true ∨ enabledC s = true := by
  have hwg := inv.wgEq
  have hcd := inv.closedDone
  have hex := inv.exitedClosed
  have hwz := inv.wgZero
  unfold enabledP enabledC
  simp only [St.finished] at hf
  cases hp : s.ppc <;> cases hc : s.cpc <;> simp_all [wgC, wgP] <;> (try omega) <;>
    (cases hqq : s.queue <;> simp_all <;> omega)

theorem finished_step (cfg : Cfg) (ig : List UInt8) (k : UInt8) (s : St) (e : Ev) (h : s.finished = true) :
    (step cfg ig k s e).finished = true := by
  simp only [St.finished, Bool.and_eq_true, beq_iff_eq] at h
  cases e with
  | p n => simp [step, stepP, h.1, St.finished, h.2]
  | c app => simp [step, stepC, h.2, St.finished, h.1]
  | gc => simp [step, St.finished, h.1, h.2]

theorem finished_exec (cfg : Cfg) (ig : List UInt8) (k : UInt8) (s : St) (σ : List Ev) (h : s.finished = true) :
    (exec cfg ig k s σ).finished = true := by
  induction σ generalizing s with
  | nil => exact h
  | cons e σ ih => exact ih _ (finished_step cfg ig k s e h)

/-! ### fairness: every schedule that starves neither goroutine completes the run -/

def Ev.isP : Ev → Bool
  | .p _ => true
  | _ => false

def Ev.isC : Ev → Bool
  | .c _ => true
  | _ => false

/-- number of complete rounds of a schedule; a round is a stretch in which the reading goroutine and the flusher
    goroutine are each scheduled at least once (in any order, any number of times, with any `gc` in between) -/
def rounds : Bool → Bool → List Ev → Nat
  | _, _, [] => 0
  | sp, sc, e :: τ =>
    if (sp || e.isP) && (sc || e.isC) then rounds false false τ + 1 else rounds (sp || e.isP) (sc || e.isC) τ

theorem fair_step (cfg : Cfg) (ig : List UInt8) (k : UInt8) (s : St) (e : Ev) (sp sc : Bool) (m : Nat)
    (H : (mu s ≤ m ∧ (sp = true → enabledP cfg s = false) ∧ (sc = true → enabledC s = false)) ∨ mu s + 1 ≤ m) :
    mu (step cfg ig k s e) + 1 ≤ m ∨
    (mu (step cfg ig k s e) ≤ m ∧ ((sp || e.isP) = true → enabledP cfg (step cfg ig k s e) = false) ∧
      ((sc || e.isC) = true → enabledC (step cfg ig k s e) = false)) := by
  rcases H with ⟨h1, h2, h3⟩ | h
  · cases e with
    | p n =>
      cases hen : enabledP cfg s with
      | true => left; have := stepP_mu cfg ig k n s hen; simp only [step]; omega
      | false =>
        right
        simp only [step, stepP_blocked cfg ig k n s hen, Ev.isP, Ev.isC, Bool.or_true, Bool.or_false]
        exact ⟨h1, fun _ => hen, h3⟩
    | c app =>
      cases hen : enabledC s with
      | true => left; have := stepC_mu app s hen; simp only [step]; omega
      | false =>
        right
        simp only [step, stepC_blocked app s hen, Ev.isP, Ev.isC, Bool.or_true, Bool.or_false]
        exact ⟨h1, h2, fun _ => hen⟩
    | gc =>
      right
      simp only [step, Ev.isP, Ev.isC, Bool.or_false]
      exact ⟨by simpa [mu, prodM, toSend] using h1, by simpa [enabledP] using h2, by simpa [enabledC] using h3⟩
  · left
    have := step_mu_le cfg ig k s e
    omega

theorem fair_core (cfg : Cfg) (hq : 1 ≤ cfg.qcap) (ig : List UInt8) (k : UInt8) (tot : List Group) (τ : List Ev) :
    ∀ (s : St) (sp sc : Bool) (m : Nat), Inv ig k tot s →
      ((mu s ≤ m ∧ (sp = true → enabledP cfg s = false) ∧ (sc = true → enabledC s = false)) ∨ mu s + 1 ≤ m) →
      m ≤ rounds sp sc τ → (exec cfg ig k s τ).finished = true := by
  induction τ with
  | nil =>
    intro s sp sc m inv H hm
    simp only [rounds, Nat.le_zero] at hm
    subst hm
    simp only [exec, List.foldl_nil]
    cases hf : s.finished with
    | true => rfl
    | false =>
      rcases H with ⟨h1, _, _⟩ | h
      · rcases not_stuck cfg hq inv hf with h | h
        · have := stepP_mu cfg ig k 0 s h; omega
        · have := stepC_mu false s h; omega
      · omega
  | cons e τ ih =>
    intro s sp sc m inv H hm
    cases hf : s.finished with
    | true => exact finished_exec cfg ig k s _ hf
    | false =>
      have inv' := inv_step cfg ig k tot s e inv
      have hs := fair_step cfg ig k s e sp sc m H
      simp only [exec, List.foldl_cons]
      simp only [rounds] at hm
      by_cases hr : ((sp || e.isP) && (sc || e.isC)) = true
      · rw [if_pos hr] at hm
        rcases hs with h | ⟨h1, h2, h3⟩
        · exact ih _ false false (m - 1) inv' (Or.inl ⟨by omega, by simp, by simp⟩) (by omega)
        · simp only [Bool.and_eq_true] at hr
          cases hf' : (step cfg ig k s e).finished with
          | true => exact finished_exec cfg ig k _ _ hf'
          | false =>
            rcases not_stuck cfg hq inv' hf' with h | h
            · rw [h2 hr.1] at h; cases h
            · rw [h3 hr.2] at h; cases h
      · rw [if_neg hr] at hm
        rcases hs with h | h
        · exact ih _ _ _ m inv' (Or.inr h) hm
        · exact ih _ _ _ m inv' (Or.inl h) hm

/-- the round-robin schedule of `n` rounds -/
def roundRobin : Nat → List Ev
  | 0 => []
  | n + 1 => .p 0 :: .c false :: roundRobin n

theorem rounds_roundRobin (n : Nat) : rounds false false (roundRobin n) = n := by
  induction n with
  | zero => rfl
  | succ n ih => simp [roundRobin, rounds, Ev.isP, Ev.isC, ih]

theorem exec_append (cfg : Cfg) (ig : List UInt8) (k : UInt8) (s : St) (σ τ : List Ev) :
    exec cfg ig k s (σ ++ τ) = exec cfg ig k (exec cfg ig k s σ) τ := by
  simp [exec, List.foldl_append]

end Accum

namespace RC

abbrev Bytes := List UInt8

structure Entry where
  s : Nat
  e : Nat          -- [s, e)
  v : Bytes

structure St where
  cache : List Entry     -- Go map[Range]entry; iteration order = any permutation (we never rely on order)

def slice (file : Bytes) (s e : Nat) : Bytes := (file.drop s).take (e - s)

def Good (file : Bytes) (en : Entry) : Prop := en.s ≤ en.e ∧ en.e ≤ file.length ∧ en.v = slice file en.s en.e

def Inv (file : Bytes) (st : St) : Prop := ∀ en ∈ st.cache, Good file en

def contains (a : Entry) (s e : Nat) : Bool := a.s ≤ s && e ≤ a.e

/-- getRangeFromCache: exact or superset hit (any entry that contains the range; which one is found first
    depends on map order, the result must not) -/
def lookup (st : St) (s e : Nat) : Option Bytes :=
  match st.cache.find? (fun en => contains en s e) with
  | some en => some ((en.v.drop (s - en.s)).take (e - s))
  | none => none

/-- setRange as the Go loop over the map in the order `st.cache` happens to have -/
def setRange (st : St) (s e : Nat) (v : Bytes) : St :=
  let rec go : List Entry → List Entry → Option (List Entry)   -- none = a superset exists, nothing inserted
    | [], kept => some kept
    | en :: rest, kept =>
      if contains en s e then none
      else if (s ≤ en.s && en.e ≤ e) then go rest kept        -- delete subset
      else go rest (kept ++ [en])
  match go st.cache [] with
  | none => st      -- NOTE: Go may already have deleted some subsets before meeting the superset; see `setRange_early`
  | some kept => { cache := kept ++ [⟨s, e, v⟩] }

theorem slice_sub (file : Bytes) (a b s e : Nat) (h1 : a ≤ s) (h2 : s ≤ e) (h3 : e ≤ b) (h4 : b ≤ file.length) :
    ((slice file a b).drop (s - a)).take (e - s) = slice file s e := by
  unfold slice
  rw [List.drop_take, List.drop_drop, List.take_take]
  have h5 : a + (s - a) = s := by omega
  have h6 : min (e - s) (b - a - (s - a)) = e - s := by omega
  rw [h5, h6]

theorem lookup_correct (file : Bytes) (st : St) (hinv : Inv file st) (s e : Nat) (hse : s ≤ e) (b : Bytes)
    (h : lookup st s e = some b) : b = slice file s e := by
  unfold lookup at h
  cases hf : st.cache.find? (fun en => contains en s e) with
  | none => simp [hf] at h
  | some en =>
    simp only [hf, Option.some.injEq] at h
    have hmem : en ∈ st.cache := List.mem_of_find?_eq_some hf
    have hc : contains en s e = true := by
      have := List.find?_some (p := fun en => contains en s e) hf
      simpa using this
    obtain ⟨g1, g2, g3⟩ := hinv en hmem
    simp [contains] at hc
    rw [← h, g3]
    exact slice_sub file en.s en.e s e hc.1 hse hc.2 g2

theorem go_sub (s e : Nat) : ∀ (l kept out : List Entry), setRange.go s e l kept = some out →
    ∀ en ∈ out, en ∈ kept ∨ en ∈ l := by
  intro l
  induction l with
  | nil => intro kept out h en hen; simp [setRange.go] at h; subst h; exact Or.inl hen
  | cons x rest ih =>
    intro kept out h en hen
    simp only [setRange.go] at h
    split at h
    · cases h
    · split at h
      · rcases ih kept out h en hen with h' | h'
        · exact Or.inl h'
        · exact Or.inr (List.mem_cons_of_mem _ h')
      · rcases ih (kept ++ [x]) out h en hen with h' | h'
        · rcases List.mem_append.mp h' with h'' | h''
          · exact Or.inl h''
          · simp at h''; subst h''; exact Or.inr (List.mem_cons_self ..)
        · exact Or.inr (List.mem_cons_of_mem _ h')

/-- every operation keeps the cache truthful, whatever the iteration order -/
theorem setRange_inv (file : Bytes) (st : St) (hinv : Inv file st) (s e : Nat) (v : Bytes)
    (hse : s ≤ e) (hle : e ≤ file.length) (hv : v = slice file s e) : Inv file (setRange st s e v) := by
  unfold setRange
  cases hg : setRange.go s e st.cache [] with
  | none => simpa [hg] using hinv
  | some kept =>
    simp only [hg]
    intro en hen
    rcases List.mem_append.mp hen with h | h
    · rcases go_sub s e st.cache [] kept hg en h with h' | h'
      · simp at h'
      · exact hinv en h'
    · simp at h; subst h; exact ⟨hse, hle, hv⟩

/-- expiry removes any subset of entries -/
theorem delete_inv (file : Bytes) (st : St) (hinv : Inv file st) (p : Entry → Bool) :
    Inv file { cache := st.cache.filter p } := by
  intro en hen
  exact hinv en (List.mem_filter.mp hen).1

inductive FetchOutcome | ok | fail

/-- GetRange: validity check, cache lookup, else fetch under the write lock and cache on success only -/
def getRange (file : Bytes) (st : St) (s len : Nat) (f : FetchOutcome) : St × Option Bytes :=
  let e := s + len
  if e > file.length then (st, none)                          -- refused, never padded
  else match lookup st s e with
    | some b => (st, some b)
    | none =>
      match f with
      | .fail => (st, none)                                     -- failed fetch: state untouched
      | .ok => (setRange st s e (slice file s e), some (slice file s e))

theorem getRange_transparent (file : Bytes) (st : St) (hinv : Inv file st) (s len : Nat) (f : FetchOutcome) :
    Inv file (getRange file st s len f).1 ∧
    (∀ b, (getRange file st s len f).2 = some b → b = slice file s (s + len)) ∧
    (s + len > file.length → (getRange file st s len f) = (st, none)) ∧
    (f = .fail → (getRange file st s len f).1 = st) := by
  by_cases hb : s + len > file.length
  · unfold getRange; simp [hb, hinv]
  · have hb' : ¬ (s + len > file.length) := hb
    refine ⟨?_, ?_, fun h => absurd h hb', ?_⟩
    · unfold getRange; simp only [hb, if_false]
      cases hl : lookup st s (s + len) with
      | some b => exact hinv
      | none =>
        cases f with
        | fail => exact hinv
        | ok => exact setRange_inv file st hinv s (s + len) _ (by omega) (by omega) rfl
    · intro b
      unfold getRange; simp only [hb, if_false]
      cases hl : lookup st s (s + len) with
      | some b0 =>
        intro h; simp at h; subst h
        exact lookup_correct file st hinv s (s + len) (by omega) b0 hl
      | none =>
        cases f with
        | fail => intro h; simp at h
        | ok => intro h; simp at h; exact h.symm
    · intro hf; subst hf
      unfold getRange; simp only [hb, if_false]
      cases hl : lookup st s (s + len) <;> rfl

end RC

/-! # Model of /repo/range-cache/range-cache.go and of the reader in /repo/split-car-fetcher/remote-file.go

Line-by-line model (core Lean only).  What is modelled, and how:

* `Range [2]int64`, `contains`, the validity test of `setRange`/`getRange`: `Int` arithmetic, `start + ln`
  wrapped to int64 (`wrap64`) as Go does.
* `map[Range]RangeCacheEntry`: a list of entries (keys unique, proved as an invariant).  Go's map iteration
  order is arbitrary: every loop over the map runs over `reorder ks cache` where `ks : Order` is a
  parameter; `reorder_perm`/`reorder_complete` show that the parameter ranges over exactly the permutations.
* `ctx.Err()` is polled once per loop iteration: `Ctx = Option Nat` (`none` = never cancelled, `some k` =
  the first `k` polls return nil, all later ones `context.Canceled`).
* `occupiedSpace uint64`: a `Nat` kept modulo 2^64 with Go's wrapping `+=`/`-=`.
* the remote fetcher is a parameter: the outcome `(n, err, buffer)` of one call.  The code ignores `n`.
* `LastRead`/`time.Since` are not modelled: `DeleteOldEntries` takes the set of entries that are older
  than `maxAge` at that moment as a parameter (`expired`), so theorems hold for every expiry pattern.
* Go runtime failure (slice bounds) is the explicit outcome `panic`.
* `klog` calls have no effect on the state or the results.
-/
namespace RC

abbrev Bytes := List UInt8

def slice (f : Bytes) (off len : Nat) : Bytes := (f.drop off).take len

/-! ## int64 / uint64 arithmetic -/

def two63 : Int := 9223372036854775808
def two64 : Nat := 18446744073709551616

/-- Go int64 addition wraps around -/
def wrap64 (x : Int) : Int := (x + 9223372036854775808) % 18446744073709551616 - 9223372036854775808

def IsI64 (x : Int) : Prop := -9223372036854775808 ≤ x ∧ x < 9223372036854775808

/-- `occupiedSpace += uint64(n)` -/
def add64 (a n : Nat) : Nat := (a + n) % 18446744073709551616
/-- `occupiedSpace -= uint64(n)` (wraps below zero) -/
def sub64 (a n : Nat) : Nat := (a + 18446744073709551616 - n % 18446744073709551616) % 18446744073709551616

/-! ## map iteration order -/

/-- an iteration order: insertion positions -/
abbrev Order := List Nat

/-- insert `x` at position `n` (at the end when `n` is too large) -/
def ins {α : Type} (x : α) : Nat → List α → List α
  | 0, l => x :: l
  | _ + 1, [] => [x]
  | n + 1, y :: l => y :: ins x n l

/-- the order in which a `for … range map` loop meets the entries: any permutation, coded by `ks` -/
def reorder {α : Type} : Order → List α → List α
  | _, [] => []
  | [], l => l
  | k :: ks, x :: xs => ins x k (reorder ks xs)

/-! ## context -/

/-- `none`: the context is never cancelled.  `some k`: the next `k` calls of `ctx.Err()` return nil, later ones an error -/
abbrev Ctx := Option Nat

def Ctx.done : Ctx → Bool
  | some 0 => true
  | _ => false

/-- the context after one `ctx.Err()` poll that returned nil -/
def Ctx.tick : Ctx → Ctx
  | none => none
  | some k => some (k - 1)

/-! ## state -/

structure Entry where
  s : Int
  e : Int          -- key Range{s, e} = [s, e)
  v : Bytes        -- RangeCacheEntry.Value
deriving Repr, DecidableEq

structure State where
  cache : List Entry
  occ : Nat          -- occupiedSpace
deriving Repr, DecidableEq

/-- NewRangeCache -/
def State.empty : State := ⟨[], 0⟩

/-- `Range{r0,r1}.contains(Range{q0,q1})`: `r[0] <= r2[0] && r[1] >= r2[1]` -/
def containsB (r0 r1 q0 q1 : Int) : Bool := decide (r0 ≤ q0) && decide (r1 ≥ q1)

/-- `start < 0 || end > rc.size || start > end` -/
def invalidB (start e size : Int) : Bool := decide (start < 0) || decide (e > size) || decide (start > e)

def sameKey (en : Entry) (s e : Int) : Bool := decide (en.s = s) && decide (en.e = e)

/-! ## setRange -/

inductive LoopEnd | done | superset | cancelled
deriving Repr, DecidableEq

/-- the `for r, rv := range rc.cache` loop of `setRange`: `todo` = entries not yet visited (in iteration
    order), `kept` = visited and still in the map.  Returns how the loop ended, the map and `occupiedSpace`. -/
def setLoop (s e : Int) : List Entry → List Entry → Nat → Ctx → LoopEnd × List Entry × Nat
  | [], kept, occ, _ => (.done, kept, occ)
  | en :: rest, kept, occ, ctx =>
    if ctx.done then (.cancelled, kept ++ en :: rest, occ)                  -- return ctx.Err()
    else if containsB en.s en.e s e then (.superset, kept ++ en :: rest, occ) -- return nil: deletions made so far stay
    else if containsB s e en.s en.e then setLoop s e rest kept (sub64 occ en.v.length) ctx.tick   -- delete(rc.cache, r)
    else setLoop s e rest (kept ++ [en]) occ ctx.tick

inductive SetRes | ok | errRange | errLen | errCtx
deriving Repr, DecidableEq

/-- `setRange(ctx, start, ln, value)` (caller holds the write lock) -/
def setRange (ks : Order) (ctx : Ctx) (size : Int) (st : State) (start ln : Int) (v : Bytes) : State × SetRes :=
  let e := wrap64 (start + ln)
  if invalidB start e size then (st, .errRange)
  else if (v.length : Int) ≠ e - start then (st, .errLen)
  else match setLoop start e (reorder ks st.cache) [] st.occ ctx with
    | (.cancelled, c, o) => (⟨c, o⟩, .errCtx)
    | (.superset, c, o) => (⟨c, o⟩, .ok)
    | (.done, c, o) =>
      -- rc.cache[Range{start,end}] = …  (a map assignment replaces an equal key)
      (⟨c.filter (fun en => !sameKey en start e) ++ [⟨start, e, v⟩], add64 o v.length⟩, .ok)

/-! ## DeleteOldEntries -/

/-- the loop of `DeleteOldEntries`; `expired en` = `time.Since(e.LastRead) > maxAge` -/
def delLoop (expired : Entry → Bool) : List Entry → List Entry → Nat → Ctx → List Entry × Nat
  | [], kept, occ, _ => (kept, occ)
  | en :: rest, kept, occ, ctx =>
    if ctx.done then (kept ++ en :: rest, occ)
    else if expired en then delLoop expired rest kept (sub64 occ en.v.length) ctx.tick
    else delLoop expired rest (kept ++ [en]) occ ctx.tick

def deleteOld (ks : Order) (ctx : Ctx) (expired : Entry → Bool) (st : State) : State :=
  let r := delLoop expired (reorder ks st.cache) [] st.occ ctx
  ⟨r.1, r.2⟩

/-! ## getRangeFromCache -/

inductive Look | hit (b : Bytes) | miss | ctxErr | panic
deriving Repr, DecidableEq

/-- Go `v[lo:hi]` on a slice whose capacity equals its length; `none` = runtime panic -/
def goSlice (v : Bytes) (lo hi : Int) : Option Bytes :=
  if 0 ≤ lo ∧ lo ≤ hi ∧ hi ≤ (v.length : Int) then some ((v.drop lo.toNat).take (hi - lo).toNat) else none

/-- the superset scan `for r := range rc.cache` -/
def scan (s e : Int) : List Entry → Ctx → Look
  | [], _ => .miss
  | en :: rest, ctx =>
    if ctx.done then .ctxErr
    else if containsB en.s en.e s e then
      match goSlice en.v (s - en.s) (e - en.s) with
      | some b => .hit b
      | none => .panic
    else scan s e rest ctx.tick

/-- `getRangeFromCache(ctx, start, end)` (read lock held) -/
def lookup (ks : Order) (ctx : Ctx) (st : State) (s e : Int) : Look :=
  if st.cache.isEmpty then .miss
  else match st.cache.find? (fun en => sameKey en s e) with
    | some en => .hit en.v                       -- exact hit: clone(v.Value)
    | none => scan s e (reorder ks st.cache) ctx

/-! ## GetRange -/

inductive Err | range | tooLarge | ctx | fetch | len
deriving Repr, DecidableEq

inductive Res | ok (b : Bytes) | err (c : Err) | panic
deriving Repr, DecidableEq

/-- outcome of one call `rc.remoteFetcher(v, start)`: the returned `n`, whether `err != nil`, and the content
    of the buffer `v` after the call -/
structure Fetch where
  n : Nat
  failed : Bool
  buf : Bytes
deriving Repr, DecidableEq

/-- `if len(got) != int(end-start) { error }` at the end of `GetRange` -/
def finish (b : Bytes) (want : Int) : Res := if (b.length : Int) ≠ want then .err .len else .ok b

/-- first half of `GetRange`: validation and `getRangeFromCache` under the read lock.
    `none` = miss: the call goes on to take the write lock. -/
def check (ks : Order) (ctx : Ctx) (size : Int) (st : State) (start ln : Int) : Option Res :=
  let e := wrap64 (start + ln)
  if invalidB start e size then some (.err .range)
  else if e - start > size then some (.err .tooLarge)
  else match lookup ks ctx st start e with
    | .ctxErr => some (.err .ctx)
    | .panic => some .panic
    | .hit b => some (finish b (e - start))
    | .miss => none

/-- second half of `GetRange`, under the write lock: fetch, cache on success only, return the fetched buffer.
    (`size` is immutable, so re-testing validity here is the test `getRange` made before taking the lock.) -/
def fetchSet (ks : Order) (ctx : Ctx) (size : Int) (st : State) (start ln : Int) (f : Fetch) : State × Res :=
  let e := wrap64 (start + ln)
  if invalidB start e size then (st, .err .range)
  else if f.failed then (st, .err .fetch)
  else ((setRange ks ctx size st start ln f.buf).1, finish f.buf (e - start))   -- setRange's error is ignored

/-- a whole `GetRange` with nothing interleaved between its two halves -/
def getRange (ks1 ks2 : Order) (ctx1 ctx2 : Ctx) (size : Int) (st : State) (start ln : Int) (f : Fetch) : State × Res :=
  match check ks1 ctx1 size st start ln with
  | some r => (st, r)
  | none => fetchSet ks2 ctx2 size st start ln f

/-! ## atomic steps = lock-protected sections -/

inductive Expiry | all | keys (l : List (Int × Int))
deriving Repr, DecidableEq

def Expiry.test : Expiry → Entry → Bool
  | .all, _ => true
  | .keys l, en => l.contains (en.s, en.e)

inductive Step
  | check (ks : Order) (ctx : Ctx) (start ln : Int)                 -- GetRange, read-locked half
  | fetchSet (ks : Order) (ctx : Ctx) (start ln : Int) (f : Fetch)  -- GetRange, write-locked half (after a miss)
  | set (ks : Order) (ctx : Ctx) (start ln : Int) (v : Bytes)       -- SetRange
  | deleteOld (ks : Order) (ctx : Ctx) (exp : Expiry)               -- DeleteOldEntries
deriving Repr, DecidableEq

inductive Out
  | ret (r : Res)        -- a GetRange call returned `r`
  | missed               -- the read-locked half missed; the call continues with a `fetchSet` step later
  | set (r : SetRes)
  | unit
deriving Repr, DecidableEq

def step (size : Int) (st : State) : Step → State × Out
  | .check ks ctx start ln =>
    match check ks ctx size st start ln with
    | some r => (st, .ret r)
    | none => (st, .missed)
  | .fetchSet ks ctx start ln f => let r := fetchSet ks ctx size st start ln f; (r.1, .ret r.2)
  | .set ks ctx start ln v => let r := setRange ks ctx size st start ln v; (r.1, .set r.2)
  | .deleteOld ks ctx exp => (deleteOld ks ctx exp.test st, .unit)

/-- run a history (= one interleaving of the lock-protected sections of any number of clients) -/
def run (size : Int) : State → List Step → State × List Out
  | st, [] => (st, [])
  | st, x :: xs =>
    let r := step size st x
    let r2 := run size r.1 xs
    (r2.1, r.2 :: r2.2)

/-! ## HTTPSingleFileRemoteReaderAt.ReadAt and remoteReadAt (remote-file.go) -/

/-- the error `ReadAt` returns -/
inductive RErr | nil | eof | unexpectedEOF | other (c : Err)
deriving Repr, DecidableEq

/-- result of `ReadAt(p, off)`: `ret data err` = `(len data, err)` with `data` copied to the front of `p` -/
inductive ReadAtRes | ret (data : Bytes) (err : RErr) | panic
deriving Repr, DecidableEq

/-- `ReadAt`: `off >= contentLength → (0, io.EOF)`; otherwise `GetRange(context.Background(), off, len(p))` -/
def readAt (ks1 ks2 : Order) (size : Int) (st : State) (pLen : Nat) (off : Int) (f : Fetch) : State × ReadAtRes :=
  if off ≥ size then (st, .ret [] .eof)
  else match getRange ks1 ks2 none none size st off pLen f with
    | (st', .ok v) =>
      let n := min pLen v.length                       -- n = copy(p, v)
      if n < pLen then (st', .ret (v.take n) .unexpectedEOF)
      else (st', .ret (v.take n) .nil)
    | (st', .err c) => (st', .ret [] (.other c))
    | (st', .panic) => (st', .panic)

/-- what one `client.Do(req)` yields -/
inductive HttpResp
  | transportErr
  | resp (status : Nat) (body : Bytes)
deriving Repr, DecidableEq

/-- `retryExpotentialBackoff(…, 3, client.Do)`: the first of at most three attempts that is not a transport error -/
def firstResp : List HttpResp → Option (Nat × Bytes)
  | attempts => (attempts.take 3).findSome? fun
    | .transportErr => none
    | .resp s b => some (s, b)

def zeros (n : Nat) : Bytes := List.replicate n 0

/-- `remoteReadAt(client, url, p, off)` with `len(p) = ln`.
    `checkStatus = true` is the repaired code (fix C17-1: any status other than 206 Partial Content is an
    error, as everywhere else in the repository); `false` is the pinned tree, which reads whatever body came back. -/
def remoteReadAt (checkStatus : Bool) (ln : Nat) (attempts : List HttpResp) : Fetch :=
  match firstResp attempts with
  | none => ⟨0, true, zeros ln⟩
  | some (status, body) =>
    if checkStatus && status != 206 then ⟨0, true, zeros ln⟩
    else if body.length < ln then ⟨0, true, body ++ zeros (ln - body.length)⟩   -- io.ReadFull: (Unexpected)EOF
    else ⟨ln, false, body.take ln⟩

/-- the request `remoteReadAt` sends is `Range: bytes=off-(off+ln)`: last byte inclusive, so an RFC 7233
    server answers 206 with `ln + 1` bytes, fewer at the end of the file -/
def honestBody (file : Bytes) (off ln : Nat) : Bytes := slice file off (ln + 1)

end RC

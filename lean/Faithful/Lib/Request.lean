/-!
# Request handling model (property C08: no request can crash the server)

Requests are *decoded trees*: a JSON-RPC body is a `Json` value (what jsonrpc2 / jsoniter deliver), a gRPC message
is a record with `Option` for the proto3 `optional` fields and raw strings for accounts.  Every Go operation
that can fail at run time is explicit and returns `Outcome`:

* `deref p site`   — `*p` for a pointer that may be nil,
* `index xs i`     — `xs[i]`,
* `mustPubkey s`   — `solana.MustPublicKeyFromBase58(s)`,
* `makeCap n`      — `make([]T, 0, n)` with a capacity computed from the request.

The parsers, the handler preludes, the stream filter and the `Get` dispatcher below mirror the *repaired* Go code
(fixes C08-1..3, and for the vote/failed optionals the C19 fix) statement by statement; the `…Pinned` variants
mirror the code before the fixes and are the formal content of the defects.

Outside the model (explicit hypothesis of `C08_partial`): fasthttp's HTTP parsing and path normalisation,
encoding/json + jsoniter decoding (a body becomes `Body.malformed` or a tree; number literals arrive with the
results of the Go conversions applied to them), protobuf decoding, solana-go transaction decoding, and the data
layer behind `MultiEpoch.GetEpoch` (its answers are plain values here: anything but a panic — that is C12's
subject).  Core Lean only.
-/

namespace Req

/-- `slottools.EpochLen` and `maxSlotsToStream`, as the model uses them; `Faithful/Properties/C08.lean` ties
    them to the constants regenerated from the source (`gen_consts_eq_model`) -/
def epochLen : Nat := 432000
def maxSlotsToStream : Nat := 100

inductive Outcome (α : Type) where
  | ok (a : α)
  | err (e : String)
  | panic (why : String)
  deriving Repr, DecidableEq

namespace Outcome
def bind {α β} (x : Outcome α) (f : α → Outcome β) : Outcome β :=
  match x with
  | .ok a => f a
  | .err e => .err e
  | .panic w => .panic w

def isPanic {α} : Outcome α → Bool
  | .panic _ => true
  | _ => false

@[simp] theorem bind_ok {α β} (a : α) (f : α → Outcome β) : (Outcome.ok a).bind f = f a := rfl
@[simp] theorem bind_err {α β} (e : String) (f : α → Outcome β) : (Outcome.err e : Outcome α).bind f = .err e := rfl
@[simp] theorem bind_panic {α β} (w : String) (f : α → Outcome β) : (Outcome.panic w : Outcome α).bind f = .panic w := rfl
@[simp] theorem isPanic_ok {α} (a : α) : (Outcome.ok a).isPanic = false := rfl
@[simp] theorem isPanic_err {α} (e : String) : (Outcome.err e : Outcome α).isPanic = false := rfl
@[simp] theorem isPanic_panic {α} (w : String) : (Outcome.panic w : Outcome α).isPanic = true := rfl

theorem isPanic_false_iff {α} (x : Outcome α) : x.isPanic = false ↔ ∀ why, x ≠ .panic why := by
  cases x <;> simp [isPanic]

theorem bind_isPanic {α β} (x : Outcome α) (f : α → Outcome β)
    (hx : x.isPanic = false) (hf : ∀ a, x = .ok a → (f a).isPanic = false) : (x.bind f).isPanic = false := by
  cases x with
  | ok a => simpa using hf a rfl
  | err e => rfl
  | panic w => simp at hx
end Outcome

open Outcome

/-- `*p` -/
def deref {α} (p : Option α) (site : String) : Outcome α :=
  match p with
  | some a => .ok a
  | none => .panic ("nil pointer dereference: " ++ site)

/-- `xs[i]` -/
def index {α} (xs : List α) (i : Nat) : Outcome α :=
  match xs[i]? with
  | some a => .ok a
  | none => .panic "index out of range"

theorem index_ok {α} (xs : List α) (i : Nat) (h : i < xs.length) : index xs i = .ok xs[i] := by
  simp [index, List.getElem?_eq_getElem h]

theorem deref_some {α} (a : α) (s : String) : deref (some a) s = .ok a := rfl

/-! ## JSON trees -/

/-- a JSON number literal as the code sees it: the literal is only ever converted -/
structure JNum where
  /-- `uint64(f)` for the `float64` the literal decodes to (Go conversion, done by the harness) -/
  u64 : Nat
  /-- the literal decodes to a float64 (jsoniter) -/
  f64ok : Bool
  /-- the literal parses as an int64 (`json.Number.Int64`, used for the request id) -/
  int64ok : Bool
  deriving Repr, DecidableEq

inductive Json where
  | null
  | bool (b : Bool)
  | num (n : JNum)
  | str (s : String)
  | arr (xs : List Json)
  | obj (kvs : List (String × Json))
  deriving Repr

mutual
/-- every number literal inside decodes to a float64 (otherwise `Unmarshal(raw, &[]any)` fails) -/
def Json.numsOk : Json → Bool
  | .num n => n.f64ok
  | .arr xs => numsOkL xs
  | .obj kvs => numsOkK kvs
  | _ => true
def numsOkL : List Json → Bool
  | [] => true
  | x :: xs => x.numsOk && numsOkL xs
def numsOkK : List (String × Json) → Bool
  | [] => true
  | (_, v) :: r => v.numsOk && numsOkK r
end

/-- Go map semantics of a decoded object: the last duplicate wins -/
def lookup (kvs : List (String × Json)) (k : String) : Option Json :=
  match kvs with
  | [] => none
  | (k', v) :: r =>
    match lookup r k with
    | some w => some w
    | none => if k' = k then some v else none

/-! ## base58 (mr-tron/base58 `Decode`, as used by solana-go) — only the decoded length and zero-ness matter -/

def b58alphabet : List Char := "123456789ABCDEFGHJKLMNPQRSTUVWXYZabcdefghijkmnopqrstuvwxyz".toList

def b58digit (c : Char) : Option Nat :=
  let rec go (cs : List Char) (i : Nat) : Option Nat :=
    match cs with
    | [] => none
    | x :: r => if x = c then some i else go r (i + 1)
  go b58alphabet 0

def b58value : List Char → Nat → Option Nat
  | [], acc => some acc
  | c :: r, acc =>
    match b58digit c with
    | none => none
    | some d => b58value r (acc * 58 + d)

def byteLen (n : Nat) : Nat := if n = 0 then 0 else (Nat.log2 n) / 8 + 1

def leadingOnes : List Char → Nat
  | '1' :: r => leadingOnes r + 1
  | _ => 0

/-- `base58.Decode(s)`: `none` = error (empty string, character outside the alphabet);
    `some (len, value)` = number of decoded bytes and their big-endian value -/
def b58decode (s : String) : Option (Nat × Nat) :=
  let cs := s.toList
  if cs.isEmpty then none else
  match b58value cs 0 with
  | none => none
  | some v => some (leadingOnes cs + byteLen v, v)

/-- `solana.SignatureFromBase58`: 64 bytes; the result is the value (zero = `IsZero`) -/
def sigFromBase58 (s : String) : Option Nat :=
  match b58decode s with
  | some (64, v) => some v
  | _ => none

/-- `solana.PublicKeyFromBase58`: 32 bytes -/
def pubkeyOk (s : String) : Bool :=
  match b58decode s with
  | some (32, _) => true
  | _ => false

/-- `solana.MustPublicKeyFromBase58` -/
def mustPubkey (s : String) : Outcome Unit :=
  if pubkeyOk s then .ok () else .panic ("MustPublicKeyFromBase58: " ++ s)

/-! ## JSON-RPC request parsing (request-response.go, getSignaturesForAddress.go) -/

/-- `var params []any; fasterJson.Unmarshal(raw, &params)` — `null` gives an empty slice -/
def unmarshalParams (raw : Json) : Option (List Json) :=
  if !raw.numsOk then none else
  match raw with
  | .arr xs => some xs
  | .null => some []
  | _ => none

structure BlockOpts where
  commitment : Option String := none
  encoding : Option String := none
  maxVer : Option Nat := none
  txDetails : Option String := none
  rewards : Option Bool := none
  deriving Repr, DecidableEq

structure GetBlockReq where
  slot : Nat
  opts : BlockOpts
  deriving Repr, DecidableEq

/-- `if v, ok := m[k]; ok { s, ok := v.(string); if !ok { return err } … } else { default }` -/
def optString (kvs : List (String × Json)) (k : String) (dflt : Option String) : Except String (Option String) :=
  match lookup kvs k with
  | none => .ok dflt
  | some (.str s) => .ok (some s)
  | some _ => .error (k ++ " must be a string")

def optNumber (kvs : List (String × Json)) (k : String) : Except String (Option Nat) :=
  match lookup kvs k with
  | none => .ok none
  | some (.num n) => .ok (some n.u64)
  | some _ => .error (k ++ " must be a number")

def optBoolean (kvs : List (String × Json)) (k : String) (dflt : Option Bool) : Except String (Option Bool) :=
  match lookup kvs k with
  | none => .ok dflt
  | some (.bool b) => .ok (some b)
  | some _ => .error (k ++ " must be a boolean")

def blockOptsOf (kvs : List (String × Json)) : Except String BlockOpts :=
  match optString kvs "commitment" (some "finalized") with
  | .error e => .error e
  | .ok commitment =>
  match optString kvs "encoding" (some "json") with
  | .error e => .error e
  | .ok encoding =>
  match optNumber kvs "maxSupportedTransactionVersion" with
  | .error e => .error e
  | .ok maxVer =>
  match optString kvs "transactionDetails" (some "full") with
  | .error e => .error e
  | .ok txDetails =>
  match optBoolean kvs "rewards" (some true) with
  | .error e => .error e
  | .ok rewards => .ok { commitment, encoding, maxVer, txDetails, rewards }

def blockDefaults : BlockOpts :=
  { commitment := some "finalized", encoding := some "json", txDetails := some "full", rewards := some true }

/-- the body of `parseGetBlockRequest` after `raw` has been dereferenced -/
def parseGetBlockBody (raw : Json) : Outcome GetBlockReq :=
  match unmarshalParams raw with
  | none => .err "failed to unmarshal params"
  | some params =>
    if params.length < 1 then .err "params must have at least one argument" else
    (index params 0).bind fun p0 =>
    match p0 with
    | .num n =>
      if params.length > 1 then
        (index params 1).bind fun p1 =>
        match p1 with
        | .obj kvs =>
          match blockOptsOf kvs with
          | .ok o => .ok { slot := n.u64, opts := o }
          | .error e => .err e
        | _ => .err "second argument must be an object"
      else .ok { slot := n.u64, opts := blockDefaults }
    | _ => .err "first argument must be a number"

/-- `parseGetBlockRequest` (repaired: nil check before `*raw`) -/
def parseGetBlock (raw : Option Json) : Outcome GetBlockReq :=
  match raw with
  | none => .err "params are required"
  | some r => (deref (some r) "*raw").bind parseGetBlockBody

/-- `parseGetBlockRequest` as on the pinned tree: `*raw` first -/
def parseGetBlockPinned (raw : Option Json) : Outcome GetBlockReq :=
  (deref raw "*raw in parseGetBlockRequest").bind parseGetBlockBody

structure TxOpts where
  encoding : Option String := none
  maxVer : Option Nat := none
  commitment : Option String := none
  deriving Repr, DecidableEq

structure GetTxReq where
  /-- value of the 64 signature bytes (0 = zero signature) -/
  sig : Nat
  opts : TxOpts
  deriving Repr, DecidableEq

def txOptsOf (kvs : List (String × Json)) : Except String TxOpts :=
  match optString kvs "encoding" (some "json") with
  | .error e => .error e
  | .ok encoding =>
  match optNumber kvs "maxSupportedTransactionVersion" with
  | .error e => .error e
  | .ok maxVer =>
  match optString kvs "commitment" none with
  | .error e => .error e
  | .ok commitment => .ok { encoding, maxVer, commitment }

def parseGetTransactionBody (raw : Json) : Outcome GetTxReq :=
  match unmarshalParams raw with
  | none => .err "failed to unmarshal params"
  | some params =>
    if params.length < 1 then .err "params must have at least one argument" else
    (index params 0).bind fun p0 =>
    match p0 with
    | .str s =>
      match sigFromBase58 s with
      | none => .err "failed to parse signature from base58"
      | some sig =>
        if params.length > 1 then
          (index params 1).bind fun p1 =>
          match p1 with
          | .obj kvs =>
            match txOptsOf kvs with
            | .ok o => .ok { sig, opts := o }
            | .error e => .err e
          | _ => .err "second argument must be an object"
        else .ok { sig, opts := { encoding := some "json" } }
    | _ => .err "first argument must be a string"

def parseGetTransaction (raw : Option Json) : Outcome GetTxReq :=
  match raw with
  | none => .err "params are required"
  | some r => (deref (some r) "*raw").bind parseGetTransactionBody

def parseGetTransactionPinned (raw : Option Json) : Outcome GetTxReq :=
  (deref raw "*raw in parseGetTransactionRequest").bind parseGetTransactionBody

def parseGetBlockTimeBody (raw : Json) : Outcome Nat :=
  match unmarshalParams raw with
  | none => .err "failed to unmarshal params"
  | some params =>
    if params.length < 1 then .err "params must have at least one argument" else
    (index params 0).bind fun p0 =>
    match p0 with
    | .num n => .ok n.u64
    | _ => .err "first argument must be a number"

def parseGetBlockTime (raw : Option Json) : Outcome Nat :=
  match raw with
  | none => .err "params are required"
  | some r => (deref (some r) "*raw").bind parseGetBlockTimeBody

def parseGetBlockTimePinned (raw : Option Json) : Outcome Nat :=
  (deref raw "*raw in parseGetBlockTimeRequest").bind parseGetBlockTimeBody

structure GsfaReq where
  /-- `Before` / `Until` are pointers that stay nil unless a well-formed string is given -/
  before : Option Nat := none
  untilSig : Option Nat := none
  deriving Repr, DecidableEq

/-- `if v, ok := m[k]; ok { if s, ok := v.(string); ok { sig, err := …; if err != nil { return err } … } }` -/
def optSig (kvs : List (String × Json)) (k : String) : Except String (Option Nat) :=
  match lookup kvs k with
  | some (.str s) =>
    match sigFromBase58 s with
    | some v => .ok (some v)
    | none => .error "failed to parse signature from base58"
  | _ => .ok none

def parseGsfaBody (raw : Json) : Outcome GsfaReq :=
  match unmarshalParams raw with
  | none => .err "failed to unmarshal params"
  | some params =>
    if params.length < 1 then .err "expected at least 1 param" else
    (index params 0).bind fun p0 =>
    match p0 with
    | .str s =>
      if !pubkeyOk s then .err "failed to parse pubkey from base58" else
      if params.length > 1 then
        (index params 1).bind fun p1 =>
        match p1 with
        | .obj kvs =>
          match optSig kvs "before" with
          | .error e => .err e
          | .ok before =>
            match optSig kvs "until" with
            | .error e => .err e
            | .ok u => .ok { before, untilSig := u }
        | _ => .ok {}
      else .ok {}
    | _ => .err "first argument must be a string"

def parseGsfa (raw : Option Json) : Outcome GsfaReq :=
  match raw with
  | none => .err "params are required"
  | some r => (deref (some r) "*raw").bind parseGsfaBody

def parseGsfaPinned (raw : Option Json) : Outcome GsfaReq :=
  (deref raw "*raw in parseGetSignaturesForAddressParams").bind parseGsfaBody

/-! ## Validate and the handler preludes -/

def knownEncoding (e : String) : Bool :=
  e = "base58" || e = "base64" || e = "base64+zstd" || e = "json" || e = "jsonParsed"

/-- `GetBlockRequest.Validate` / the encoding part of `GetTransactionRequest.Validate`:
    `req.Options.Encoding != nil && !isAnyEncodingOf(*req.Options.Encoding, …)` -/
def validateEncoding (jsonParsedEnabled : Bool) (enc : Option String) : Outcome (Except String Unit) :=
  if enc.isSome then
    (deref enc "*req.Options.Encoding").bind fun e =>
    if !knownEncoding e then .ok (.error "unsupported encoding") else
    if enc.isSome then
      (deref enc "*req.Options.Encoding").bind fun e2 =>
      if e2 = "jsonParsed" && !jsonParsedEnabled then .ok (.error "encoding=jsonParsed is not enabled on this server")
      else .ok (.ok ())
    else .ok (.ok ())
  else .ok (.ok ())

/-- the state of the server a request meets -/
structure World where
  /-- loaded epochs with "has a gsfa index" -/
  epochs : List (Nat × Bool)
  jsonParsedEnabled : Bool
  deriving Repr

/-- the epoch map fits in memory (a map entry is far bigger than the 8 bytes `make([]*Epoch, 0, len(m))` needs for it) -/
def World.WF (w : World) : Prop := w.epochs.length < 2 ^ 37

def World.hasEpoch (w : World) (e : Nat) : Bool := w.epochs.any (·.1 = e)
def World.anyGsfa (w : World) : Bool := w.epochs.any (·.2)
def World.gsfaInRange (w : World) (lo hi : Nat) : Bool := w.epochs.any fun p => p.2 && lo ≤ p.1 && p.1 ≤ hi

def epochOf (slot : Nat) : Nat := slot / epochLen

/-- what the data layer answers once the prelude has passed: abstract, never a panic (C12's subject) -/
structure Backend where
  /-- `epochHandler.GetBlock` found the block (otherwise a not-found / internal error reply) -/
  blockFound : Nat → Bool
  /-- number of transactions whose encoding is attempted -/
  blockTxs : Nat → Nat
  txFound : Nat → Bool

/-- response classes; `data` = any answer of the data layer -/
abbrev Resp := String

def invalidParams : Resp := "200:e-32602"
def dataResp : Resp := "data"

/-- `handleGetBlock` up to and including the dereferences of the parsed options -/
def handleGetBlock (w : World) (B : Backend) (raw : Option Json) : Outcome Resp :=
  match parseGetBlock raw with
  | .panic s => .panic s
  | .err _ => .ok invalidParams
  | .ok params =>
    (validateEncoding w.jsonParsedEnabled params.opts.encoding).bind fun v =>
    match v with
    | .error _ => .ok invalidParams
    | .ok () =>
      if !w.hasEpoch (epochOf params.slot) then .ok "200:e-32009:epoch" else
      if !B.blockFound params.slot then .ok dataResp else
      -- `if *params.Options.Rewards && hasRewards`
      (deref params.opts.rewards "*params.Options.Rewards").bind fun _ =>
      -- `encodeTransactionResponseBasedOnWantedEncoding(*params.Options.Encoding, …)` once per transaction
      if B.blockTxs params.slot > 0 then
        (deref params.opts.encoding "*params.Options.Encoding").bind fun _ => .ok dataResp
      else .ok dataResp

/-- the prelude alone, for any request value (used by `handler_prelude_total`) -/
def preludeGetBlock (B : Backend) (params : GetBlockReq) : Outcome Resp :=
  (deref params.opts.rewards "*params.Options.Rewards").bind fun _ =>
  if B.blockTxs params.slot > 0 then
    (deref params.opts.encoding "*params.Options.Encoding").bind fun _ => .ok dataResp
  else .ok dataResp

def handleGetTransaction (w : World) (B : Backend) (raw : Option Json) : Outcome Resp :=
  if w.epochs.length = 0 then .ok "200:e-32603:noepochs" else
  match parseGetTransaction raw with
  | .panic s => .panic s
  | .err _ => .ok invalidParams
  | .ok params =>
    if params.sig = 0 then .ok invalidParams else   -- "signature is required"
    (validateEncoding w.jsonParsedEnabled params.opts.encoding).bind fun v =>
    match v with
    | .error _ => .ok invalidParams
    | .ok () =>
      if !B.txFound params.sig then .ok dataResp else
      (deref params.opts.encoding "*params.Options.Encoding").bind fun _ => .ok dataResp

def preludeGetTransaction (params : GetTxReq) : Outcome Resp :=
  (deref params.opts.encoding "*params.Options.Encoding").bind fun _ => .ok dataResp

def handleGetBlockTime (w : World) (raw : Option Json) : Outcome Resp :=
  match parseGetBlockTime raw with
  | .panic s => .panic s
  | .err _ => .ok invalidParams
  | .ok slot => if !w.hasEpoch (epochOf slot) then .ok "200:e-32009:epoch" else .ok dataResp

def handleGsfa (w : World) (raw : Option Json) : Outcome Resp :=
  match parseGsfa raw with
  | .panic s => .panic s
  | .err _ => .ok invalidParams
  | .ok _ => if !w.anyGsfa then .ok "200:e-32603:nogsfa" else .ok dataResp

/-! ## The JSON-RPC envelope (jsonrpc2.Request.UnmarshalJSON) and the HTTP handler (multiepoch.go, api.go) -/

inductive Body where
  | malformed
  | json (j : Json)
  deriving Repr

structure RpcRequest where
  method : String
  params : Option Json
  deriving Repr

/-- jsonrpc2: the body must be an object with a string `method`; `id` absent / null / string / int64 number;
    `params` absent = nil pointer, `null` = raw "null" -/
def decodeRequest (b : Body) : Option RpcRequest :=
  match b with
  | .malformed => none
  | .json (.obj kvs) =>
    if !numsOkK kvs then none else
    match lookup kvs "method" with
    | some (.str m) =>
      let idOk := match lookup kvs "id" with
        | none => true
        | some .null => true
        | some (.str _) => true
        | some (.num n) => n.int64ok
        | some _ => false
      if idOk then some { method := m, params := lookup kvs "params" } else none
    | _ => none
  | .json _ => none

def handleRequest (w : World) (B : Backend) (rq : RpcRequest) : Outcome Resp :=
  if rq.method = "getBlock" then handleGetBlock w B rq.params
  else if rq.method = "getTransaction" then handleGetTransaction w B rq.params
  else if rq.method = "getSignaturesForAddress" then handleGsfa w rq.params
  else if rq.method = "getBlockTime" then handleGetBlockTime w rq.params
  else if rq.method = "getGenesisHash" then (if !w.hasEpoch 0 then .ok "200:e-32009:epoch" else .ok dataResp)
  else if rq.method = "getFirstAvailableBlock" then (if w.epochs.length = 0 then .ok "200:e-32009:noepochs" else .ok dataResp)
  else if rq.method = "getSlot" then (if w.epochs.length = 0 then .ok "200:e-32009:noepochs" else .ok dataResp)
  else .ok "200:e-32601"

structure HttpReq where
  method : String
  /-- as normalised by fasthttp -/
  path : String
  contentLength : Int
  body : Body
  deriving Repr

def trimRightSlash (cs : List Char) : List Char :=
  (cs.reverse.dropWhile (· = '/')).reverse

/-- `strconv.ParseUint(s, 10, 64)` -/
def parseUint (cs : List Char) : Option Nat :=
  if cs.isEmpty then none else
  if cs.all Char.isDigit then
    let v := cs.foldl (fun acc c => acc * 10 + (c.toNat - 48)) 0
    if v < 2 ^ 64 then some v else none
  else none

/-- `s[len(prefix):]` on a string that may be shorter than the prefix -/
def sliceFrom (s : String) (n : Nat) : Outcome (List Char) :=
  if n ≤ s.toList.length then .ok (s.toList.drop n) else .panic "slice bounds out of range"

def startsWith (s pre : String) : Bool := pre.toList.isPrefixOf s.toList

def apiHandler (w : World) (r : HttpReq) : Outcome Resp :=
  if r.method ≠ "GET" then .ok "405:empty" else
  if startsWith r.path "/api/v1/slot-to-cid/" then
    (sliceFrom r.path "/api/v1/slot-to-cid/".toList.length).bind fun rest =>
    match parseUint (trimRightSlash rest) with
    | none => .ok "400:empty"
    | some slot => if !w.hasEpoch (epochOf slot) then .ok "404:empty" else .ok dataResp
  else if startsWith r.path "/api/v1/sig-to-cid/" then
    (sliceFrom r.path "/api/v1/sig-to-cid/".toList.length).bind fun rest =>
    match sigFromBase58 (String.ofList (trimRightSlash rest)) with
    | none => .ok "400:empty"
    | some _ => .ok dataResp
  else .ok "404:empty"

/-- the closure returned by `newMultiEpochHandler(multi, nil)` -/
def handleHttp (w : World) (B : Backend) (r : HttpReq) : Outcome Resp :=
  if r.path = "/metrics" then .ok dataResp
  else if r.path = "/health" && r.method = "GET" then .ok "200:empty"
  else if startsWith r.path "/api/v1/" then apiHandler w r
  else if r.method ≠ "POST" then .ok "405:e-32601"
  else if r.contentLength > 1024 then .ok "413:e-32600"
  else match decodeRequest r.body with
    | none => .ok "400:e-32700"
    | some rq => if rq.method = "getVersion" then .ok "200:result" else handleRequest w B rq

/-! ## gRPC (grpc-server.go) -/

structure TxFilter where
  vote : Option Bool
  failed : Option Bool
  incl : List String
  excl : List String
  reqd : List String
  deriving Repr

/-- what the filter needs to know about one transaction (computed by solana-go / the metadata parsers) -/
structure TxFacts where
  isVote : Bool
  hasErr : Bool
  /-- `tx.HasAccount(pkey)` -/
  hasAccount : String → Bool

/-- `for _, acc := range xs { pkey := solana.MustPublicKeyFromBase58(acc); … }`; `stop` = the early return -/
def scanAccounts (xs : List String) (hit : String → Bool) (stopOnHit : Bool) : Outcome Bool :=
  match xs with
  | [] => .ok false
  | acc :: r =>
    (mustPubkey acc).bind fun _ =>
    if hit acc = stopOnHit then .ok true else scanAccounts r hit stopOnHit

/-- the closure `filterOutTxn` of `processSlotTransactions` as repaired by the C19 fixes (there renamed
    `matchesFilter`): `filter.Vote != nil && !filter.GetVote() && …` — the generated getters are nil-safe, an
    absent `vote` / `failed` does not restrict; the include scan runs only for a non-empty list.
    Result `true` = the transaction is sent. -/
def filterStep (f : Option TxFilter) (gsfaLoaded : Bool) (tx : TxFacts) : Outcome Bool :=
  match f with
  | none => .ok true
  | some f =>
    if f.vote.isSome && !(f.vote.getD false) && tx.isVote then .ok false else
    if f.failed.isSome && !(f.failed.getD false) && tx.hasErr then .ok false else
    (if !gsfaLoaded && !f.incl.isEmpty then scanAccounts f.incl tx.hasAccount true else .ok true).bind fun hasOne =>
    if !gsfaLoaded && !f.incl.isEmpty && !hasOne then .ok false else
    (scanAccounts f.excl tx.hasAccount true).bind fun excluded =>
    if excluded then .ok false else
    (scanAccounts f.reqd tx.hasAccount false).bind fun missing =>
    if missing then .ok false else .ok true

/-- the closure as on the pinned tree: `*filter.Vote`, `*filter.Failed` unconditionally -/
def filterStepPinned (f : Option TxFilter) (gsfaLoaded : Bool) (tx : TxFacts) : Outcome Bool :=
  match f with
  | none => .ok true
  | some f =>
    (deref f.vote "*filter.Vote").bind fun vote =>
    if !vote && tx.isVote then .ok false else
    (deref f.failed "*filter.Failed").bind fun failed =>
    if !failed && tx.hasErr then .ok false else
    (if !gsfaLoaded then scanAccounts f.incl tx.hasAccount true else .ok true).bind fun hasOne =>
    if !gsfaLoaded && !hasOne then .ok false else
    (scanAccounts f.excl tx.hasAccount true).bind fun excluded =>
    if excluded then .ok false else
    (scanAccounts f.reqd tx.hasAccount false).bind fun missing =>
    if missing then .ok false else .ok true

/-- `validateStreamTransactionsFilter` (fix C08-2) -/
def validateFilter (f : Option TxFilter) : Bool :=
  match f with
  | none => true
  | some f => f.incl.all pubkeyOk && f.excl.all pubkeyOk && f.reqd.all pubkeyOk

/-- `make([]*Epoch, 0, n)`: eight bytes per element; asking for a terabyte or more ends the process
    ("makeslice: cap out of range" above the runtime's limit, "fatal error: out of memory" below it) -/
def makeCap (n : Nat) : Outcome Unit :=
  if n < 2 ^ 37 then .ok () else .panic "makeslice: cap out of range / out of memory"

def u64 (n : Nat) : Nat := n % 2 ^ 64

/-- `getGsfaReadersInEpochDescendingOrderForSlotRange`: the capacity of the epoch slice.
    pinned: `endEpoch-startEpoch+1` (uint64 arithmetic); repaired: `len(ser.epochs)` -/
def gsfaReadersCapPinned (start end_ : Nat) : Outcome Unit :=
  makeCap (u64 (u64 (epochOf end_ + 2 ^ 64 - epochOf start) + 1))

def gsfaReadersCap (w : World) : Outcome Unit := makeCap w.epochs.length

structure StreamTxReq where
  start : Nat
  end_ : Option Nat
  filter : Option TxFilter
  cancelled : Bool
  deriving Repr

def endSlotOf (start : Nat) (end_ : Option Nat) : Nat :=
  match end_ with
  | some e => e
  | none => u64 (start + maxSlotsToStream)

/-- the filter applied to every transaction the scan meets -/
def scanTxs (f : Option TxFilter) (gsfaLoaded : Bool) : List TxFacts → Outcome Unit
  | [] => .ok ()
  | t :: rest => (filterStep f gsfaLoaded t).bind fun _ => scanTxs f gsfaLoaded rest

def scanTxsPinned (f : Option TxFilter) (gsfaLoaded : Bool) : List TxFacts → Outcome Unit
  | [] => .ok ()
  | t :: rest => (filterStepPinned f gsfaLoaded t).bind fun _ => scanTxsPinned f gsfaLoaded rest

/-- the goroutine per included account starts with `pKey := solana.MustPublicKeyFromBase58(acc)` -/
def mustAll : List String → Outcome Unit
  | [] => .ok ()
  | a :: rest => (mustPubkey a).bind fun _ => mustAll rest

def inclOf (f : Option TxFilter) : List String :=
  match f with
  | some f => f.incl
  | none => []

/-- `filter == nil || len(filter.AccountInclude) == 0 || !gsfaReadersLoaded` -/
def blockScanBranch (f : Option TxFilter) (gsfaLoaded : Bool) : Bool :=
  match f with
  | none => true
  | some f => f.incl.isEmpty || !gsfaLoaded

/-- `StreamTransactions` + `processSlotTransactions`, outcome = final status class.
    `txs` = the facts of the transactions the scan meets (any list: the theorem quantifies over it). -/
def streamTransactions (w : World) (r : StreamTxReq) (txs : List TxFacts) : Outcome Resp :=
  if !validateFilter r.filter then .ok "InvalidArgument" else
  (gsfaReadersCap w).bind fun _ =>
  let endSlot := endSlotOf r.start r.end_
  let gsfaLoaded := w.gsfaInRange (epochOf r.start) (epochOf endSlot)
  if blockScanBranch r.filter gsfaLoaded then
    if r.start ≤ endSlot && r.cancelled then .ok "Canceled" else
    (scanTxs r.filter gsfaLoaded txs).bind fun _ => .ok dataResp
  else
    (mustAll (inclOf r.filter)).bind fun _ =>
    (scanTxs r.filter gsfaLoaded txs).bind fun _ => .ok dataResp

/-- the pinned entry point: no validation, capacity from the request -/
def streamTransactionsPinned (w : World) (r : StreamTxReq) (txs : List TxFacts) : Outcome Resp :=
  let endSlot := endSlotOf r.start r.end_
  (gsfaReadersCapPinned r.start endSlot).bind fun _ =>
  let gsfaLoaded := w.gsfaInRange (epochOf r.start) (epochOf endSlot)
  if blockScanBranch r.filter gsfaLoaded then
    (scanTxsPinned r.filter gsfaLoaded txs).bind fun _ => .ok dataResp
  else
    (mustAll (inclOf r.filter)).bind fun _ =>
    (scanTxsPinned r.filter gsfaLoaded txs).bind fun _ => .ok dataResp

/-- one transaction of a block as `blockContainsAccounts` sees it -/
structure BcaTx where
  /-- `solana.TransactionFromDecoder` succeeded -/
  decodeOk : Bool
  /-- one of the static account keys is in the set -/
  staticHit : Bool
  /-- `ParseTransactionStatusMetaContainer` succeeded (otherwise the container pointer is nil) -/
  metaOk : Bool
  /-- one of the loaded addresses of the metadata is in the set -/
  loadedHit : Bool
  deriving Repr, DecidableEq

/-- `blockContainsAccounts` (repaired: `continue` after a metadata parse error) -/
def blockContainsAccounts (txs : List BcaTx) : Outcome Bool :=
  match txs with
  | [] => .ok false
  | t :: rest =>
    if !t.decodeOk then blockContainsAccounts rest else
    if t.staticHit then .ok true else
    if !t.metaOk then blockContainsAccounts rest else
    (deref (if t.metaOk then some t.loadedHit else none) "meta.GetLoadedAccounts()").bind fun hit =>
    if hit then .ok true else blockContainsAccounts rest

/-- pinned: the error is logged and the nil container is used -/
def blockContainsAccountsPinned (txs : List BcaTx) : Outcome Bool :=
  match txs with
  | [] => .ok false
  | t :: rest =>
    if !t.decodeOk then blockContainsAccountsPinned rest else
    if t.staticHit then .ok true else
    (deref (if t.metaOk then some t.loadedHit else none) "meta.GetLoadedAccounts()").bind fun hit =>
    if hit then .ok true else blockContainsAccountsPinned rest

structure StreamBlocksReq where
  start : Nat
  end_ : Option Nat
  /-- `Filter.AccountInclude` (`none` = no filter); the strings are only compared, never decoded -/
  filter : Option (List String)
  cancelled : Bool
  deriving Repr

/-- `filterFunc` of `StreamBlocks`: `params.Filter == nil || len(params.Filter.AccountInclude) == 0` lets every block pass -/
def needsAccountFilter (f : Option (List String)) : Bool :=
  match f with
  | none => false
  | some accs => !accs.isEmpty

def scanBlocks (needFilter : Bool) : List (List BcaTx) → Outcome Unit
  | [] => .ok ()
  | b :: rest =>
    if needFilter then (blockContainsAccounts b).bind fun _ => scanBlocks needFilter rest
    else scanBlocks needFilter rest

/-- `StreamBlocks`: `blocks` = the transactions of the blocks the scan meets -/
def streamBlocks (r : StreamBlocksReq) (blocks : List (List BcaTx)) : Outcome Resp :=
  let endSlot := endSlotOf r.start r.end_
  if r.start ≤ endSlot && r.cancelled then .ok "Canceled" else
  (scanBlocks (needsAccountFilter r.filter) blocks).bind fun _ => .ok dataResp

inductive GetItem where
  | version
  | block (slot : Nat)
  | blockTime (slot : Nat)
  | transaction
  /-- a GetRequest without any member of the oneof -/
  | nothing
  deriving Repr, DecidableEq

def grpcGetBlock (w : World) (slot : Nat) : Resp := if !w.hasEpoch (epochOf slot) then "epoch" else dataResp
def grpcGetTransaction (w : World) : Resp := if w.epochs.length = 0 then "noepochs" else dataResp

/-- the bidirectional `Get` dispatcher: responses sent so far and the final status.
    `sendFailsFrom = k > 0`: the k-th and later `Send` calls fail; `tailErr`: `Recv` ends with a transport error -/
def getLoop (w : World) (items : List GetItem) (tailErr : Bool) (sendFailsFrom : Nat) (sent : List Resp) : Outcome (List Resp × Resp) :=
  match items with
  | [] => .ok (sent, if tailErr then "Unavailable" else dataResp)
  | it :: rest =>
    let reply (r : Resp) : Outcome (List Resp × Resp) :=
      if sendFailsFrom > 0 && sent.length + 1 ≥ sendFailsFrom then .ok (sent, dataResp)   -- codes.Internal
      else getLoop w rest tailErr sendFailsFrom (sent ++ [r])
    match it with
    | .version => reply "version"
    | .block slot => reply (grpcGetBlock w slot)
    | .blockTime slot => reply (grpcGetBlock w slot)
    | .transaction => reply (grpcGetTransaction w)
    | .nothing => .ok (sent, "InvalidArgument")

/-! ## Everything a client can send -/

inductive Request where
  | http (r : HttpReq)
  | grpcGetVersion
  | grpcGetBlock (slot : Nat)
  | grpcGetBlockTime (slot : Nat)
  | grpcGetTransaction
  | grpcStreamBlocks (r : StreamBlocksReq) (blocks : List (List BcaTx))
  | grpcStreamTransactions (r : StreamTxReq) (txs : List TxFacts)
  | grpcGet (items : List GetItem) (tailErr : Bool) (sendFailsFrom : Nat)

def handle (w : World) (B : Backend) : Request → Outcome Resp
  | .http r => handleHttp w B r
  | .grpcGetVersion => .ok dataResp
  | .grpcGetBlock slot => .ok (grpcGetBlock w slot)
  | .grpcGetBlockTime slot => .ok (grpcGetBlock w slot)
  | .grpcGetTransaction => .ok (grpcGetTransaction w)
  | .grpcStreamBlocks r blocks => streamBlocks r blocks
  | .grpcStreamTransactions r txs => streamTransactions w r txs
  | .grpcGet items tailErr sf => (getLoop w items tailErr sf []).bind fun p => .ok (String.intercalate "," p.1 ++ ";" ++ p.2)

/-- third-party decoding of the bytes on the wire (fasthttp, encoding/json, jsoniter, protobuf, solana-go) -/
structure ThirdParty where
  decode : List UInt8 → Outcome Request

def ThirdParty.total (T : ThirdParty) : Prop := ∀ bytes why, T.decode bytes ≠ .panic why

/-- wire bytes → decoded request → handler -/
def handleWire (T : ThirdParty) (w : World) (B : Backend) (bytes : List UInt8) : Outcome Resp :=
  match T.decode bytes with
  | .ok r => handle w B r
  | .err _ => .ok "rejected"
  | .panic s => .panic s

end Req

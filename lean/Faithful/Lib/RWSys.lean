import Faithful.Lib.RW

/-!
# RWMutex systems: any number of threads, reachability, deadlock freedom, termination (property C09)

`Faithful/Lib/RW.lean` has the per-thread transition `stepTh`, the invariant `Good` and the state-local `progress`
lemma.  This file adds

* lock programs with calls (`Ev`), `inlineEv` (calls resolved through a table, with fuel) and the decidable
  `nonNestingB` used on the translated programs of `Generated.lockPrograms`;
* the transition system of a whole process (`Step`, `Reachable` from `initSt`);
* `reachable_good`, `nonnesting_deadlock_free`, `schedule_bounded`, `every_schedule_can_finish`;
* the nested read lock as a *reachable* stuck state (`nested_rlock_can_deadlock`).
-/
namespace RW

/-! ## lock programs with calls -/

inductive Ev where
  | rlock | runlock | lock | unlock | call (f : Nat) | unknown
deriving DecidableEq, Repr

/-- one event in front of an already inlined tail; `rec` inlines a callee body -/
def inlineStep (tbl : List (List Ev)) (rec : List Ev → Option (List Op)) (e : Ev) (acc : Option (List Op)) :
    Option (List Op) :=
  match e, acc with
  | _, none => none
  | .rlock, some r => some (.rlock :: r)
  | .runlock, some r => some (.runlock :: r)
  | .lock, some r => some (.lock :: r)
  | .unlock, some r => some (.unlock :: r)
  | .unknown, some _ => none
  | .call f, some r =>
    match tbl[f]? with
    | none => none
    | some body =>
      match rec body with
      | none => none
      | some b => some (b ++ r)

/-- resolve `.call f` through `tbl`; `none` when the fuel runs out (recursion), a callee is missing, or the program
    contains `.unknown` -/
def inlineEv (tbl : List (List Ev)) : Nat → List Ev → Option (List Op)
  | 0 => fun evs => evs.foldr (inlineStep tbl fun _ => none) (some [])
  | fuel + 1 => fun evs => evs.foldr (inlineStep tbl (inlineEv tbl fuel)) (some [])

/-- `Pairs` as a Bool function -/
def pairsB : List Op → Bool
  | [] => true
  | .rlock :: .runlock :: p => pairsB p
  | .lock :: .unlock :: p => pairsB p
  | _ => false

theorem pairsB_iff (p : List Op) : pairsB p = true ↔ Pairs p := by
  fun_induction pairsB p with
  | case1 => simp [Pairs]
  | case2 p ih => simp [Pairs, ih]
  | case3 p ih => simp [Pairs, ih]
  | case4 p h1 h2 h3 =>
    constructor
    · intro h; cases h
    · intro h
      unfold Pairs at h
      split at h
      · exact absurd rfl h1
      · exact absurd rfl (h2 _)
      · exact absurd rfl (h3 _)
      · exact h.elim

instance (p : List Op) : Decidable (Pairs p) := decidable_of_iff _ (pairsB_iff p)

/-- a thread program is non-nesting when it is a sequence of critical sections none of which contains another
    acquisition of the same lock -/
abbrev NonNesting (p : List Op) : Prop := Pairs p

/-- decidable form on the result of `inlineEv` -/
def nonNestingB : Option (List Op) → Bool
  | none => false
  | some p => pairsB p

theorem nonNestingB_iff (o : Option (List Op)) : nonNestingB o = true ↔ ∃ p, o = some p ∧ NonNesting p := by
  cases o with
  | none => simp [nonNestingB]
  | some p => simp [nonNestingB, pairsB_iff]

theorem pairs_append {p q : List Op} (hp : Pairs p) (hq : Pairs q) : Pairs (p ++ q) := by
  rw [← pairsB_iff] at hp ⊢
  fun_induction pairsB p with
  | case1 => simpa [pairsB_iff] using hq
  | case2 p ih => simpa [pairsB] using ih hp
  | case3 p ih => simpa [pairsB] using ih hp
  | case4 p h1 h2 h3 => cases hp

theorem pairs_flatten {ps : List (List Op)} (h : ∀ p ∈ ps, Pairs p) : Pairs ps.flatten := by
  induction ps with
  | nil => simp [Pairs]
  | cons p ps ih =>
    rw [List.flatten_cons]
    exact pairs_append (h p (by simp)) (ih fun q hq => h q (by simp [hq]))

/-! ## the process: any number of threads -/

def initTh (p : List Op) : Th := { prog := p, rdepth := 0, holdsW := false, waiting := false }

/-- every thread at the start of its program, nobody holds or waits -/
def initSt (ps : List (List Op)) : St := ps.map initTh

/-- one scheduling step: thread `i` performs its next enabled action -/
inductive Step : St → St → Prop
  | mk {s : St} (i : Nat) (h : i < s.length) {t' : Th} (hs : stepTh s s[i] = some t') : Step s (s.set i t')

inductive Reachable (ps : List (List Op)) : St → Prop
  | init : Reachable ps (initSt ps)
  | step {s s' : St} : Reachable ps s → Step s s' → Reachable ps s'

/-- reflexive-transitive closure of `Step`, counting the steps -/
inductive Steps : Nat → St → St → Prop
  | refl (s : St) : Steps 0 s s
  | cons {n : Nat} {s s' s'' : St} : Step s s' → Steps n s' s'' → Steps (n + 1) s s''

theorem good_init {p : List Op} (h : Pairs p) : Good (initTh p) := by
  left; simp [initTh, h]

/-- `Good` holds for *every* thread of *every* reachable state: the stepping thread by `good_step`,
    the others because their record is not touched -/
theorem reachable_good {ps : List (List Op)} (h : ∀ p ∈ ps, NonNesting p) {s : St} (hr : Reachable ps s) :
    ∀ t ∈ s, Good t := by
  induction hr with
  | init =>
    intro t ht
    simp only [initSt, List.mem_map] at ht
    obtain ⟨p, hp, rfl⟩ := ht
    exact good_init (h p hp)
  | step _ hstep ih =>
    cases hstep with
    | mk i hi hs =>
      intro t ht
      rcases List.mem_or_eq_of_mem_set ht with h1 | h1
      · exact ih t h1
      · subst h1
        exact good_step _ _ _ (ih _ (List.getElem_mem hi)) hs

theorem canStep_iff_step (s : St) : canStep s = true ↔ ∃ s', Step s s' := by
  constructor
  · intro h
    unfold canStep at h
    rw [List.any_eq_true] at h
    obtain ⟨t, ht, hsome⟩ := h
    obtain ⟨i, hi, rfl⟩ := List.getElem_of_mem ht
    cases hst : stepTh s s[i] with
    | none => simp [hst] at hsome
    | some t' => exact ⟨_, Step.mk i hi hst⟩
  · rintro ⟨s', hstep⟩
    cases hstep with
    | mk i hi hs =>
      unfold canStep
      rw [List.any_eq_true]
      exact ⟨_, List.getElem_mem hi, by simp [hs]⟩

/-- **Deadlock freedom.**  Any number of threads, each running any non-nesting program, under any interleaving:
    a reachable state in which some thread has not finished always has an enabled step. -/
theorem nonnesting_deadlock_free (ps : List (List Op)) (h : ∀ p ∈ ps, NonNesting p) :
    ∀ s, Reachable ps s → finished s = false → ∃ s', Step s s' := by
  intro s hr hnf
  exact (canStep_iff_step s).1 (progress s (reachable_good h hr) hnf)

/-! ## every schedule is finite -/

/-- remaining work of a thread: two units per program entry (a `Lock` takes two steps: announce, acquire) -/
def weight (t : Th) : Nat := 2 * t.prog.length + (if t.waiting then 0 else 1)

def work (s : St) : Nat := (s.map weight).sum

theorem stepTh_weight {s : St} {t t' : Th} (h : stepTh s t = some t') : weight t' < weight t := by
  unfold stepTh at h
  match hprog : t.prog with
  | [] => simp [hprog] at h
  | .rlock :: p =>
    rw [hprog] at h
    simp only at h
    split at h
    · cases h; simp [weight, hprog]
    · cases h
  | .runlock :: p =>
    rw [hprog] at h
    simp only at h
    cases h; simp [weight, hprog]
  | .lock :: p =>
    rw [hprog] at h
    simp only at h
    cases hw : t.waiting with
    | false =>
      simp [hw] at h
      cases h; simp [weight, hprog, hw]
    | true =>
      simp [hw] at h
      obtain ⟨_, rfl⟩ := h
      simp [weight, hprog, hw]; omega
  | .unlock :: p =>
    rw [hprog] at h
    simp only at h
    cases h; simp [weight, hprog]

theorem sum_map_set_lt (w : Th → Nat) (s : St) (i : Nat) (hi : i < s.length) (t' : Th) (h : w t' < w s[i]) :
    ((s.set i t').map w).sum < (s.map w).sum := by
  induction s generalizing i with
  | nil => simp at hi
  | cons a s ih =>
    cases i with
    | zero => simp at h ⊢; omega
    | succ i =>
      simp only [List.length_cons, Nat.add_lt_add_iff_right] at hi
      simp only [List.getElem_cons_succ] at h
      have := ih i hi h
      simp only [List.set_cons_succ, List.map_cons, List.sum_cons]
      omega

theorem step_work {s s' : St} (h : Step s s') : work s' < work s := by
  cases h with
  | mk i hi hs => exact sum_map_set_lt weight s i hi _ (stepTh_weight hs)

/-- **No infinite schedule**: a schedule of `n` steps from `s` uses up at least `n` units of `work s`. -/
theorem schedule_bounded {n : Nat} {s s' : St} (h : Steps n s s') : n + work s' ≤ work s := by
  induction h with
  | refl s => simp
  | cons hstep _ ih => have := step_work hstep; omega

theorem reachable_steps {ps : List (List Op)} {n : Nat} {s s' : St} (hr : Reachable ps s) (h : Steps n s s') :
    Reachable ps s' := by
  induction h with
  | refl s => exact hr
  | cons hstep _ ih => exact ih (Reachable.step hr hstep)

/-- **Every operation completes**: from every reachable state of non-nesting threads, *every* way of continuing the
    schedule step by step ends (after at most `work s` steps) and it can only end with all programs finished; in
    particular a finished state is reachable. -/
theorem every_schedule_can_finish (ps : List (List Op)) (h : ∀ p ∈ ps, NonNesting p) :
    ∀ s, Reachable ps s → ∃ n s', Steps n s s' ∧ finished s' = true := by
  intro s
  induction hw : work s using Nat.strongRecOn generalizing s with
  | _ w ih =>
    intro hr
    cases hf : finished s with
    | true => exact ⟨0, s, Steps.refl s, hf⟩
    | false =>
      obtain ⟨s1, hstep⟩ := nonnesting_deadlock_free ps h s hr hf
      have hlt : work s1 < w := hw ▸ step_work hstep
      obtain ⟨n, s', hsteps, hfin⟩ := ih (work s1) hlt s1 rfl (Reachable.step hr hstep)
      exact ⟨n + 1, s', Steps.cons hstep hsteps, hfin⟩

/-- a maximal schedule (one that cannot be extended) of non-nesting threads ends with every program finished -/
theorem maximal_schedule_finished (ps : List (List Op)) (h : ∀ p ∈ ps, NonNesting p) {n : Nat} {s : St}
    (hs : Steps n (initSt ps) s) (hmax : ∀ s', ¬ Step s s') : finished s = true := by
  cases hf : finished s with
  | true => rfl
  | false =>
    obtain ⟨s', hstep⟩ := nonnesting_deadlock_free ps h s (reachable_steps Reachable.init hs) hf
    exact absurd hstep (hmax s')

/-! ## the nested read lock -/

/-- `RLock; (callee: RLock; RUnlock); RUnlock` — what `GetMostRecentAvailableEpoch` did on the pinned tree -/
def nestedProg : List Op := [.rlock, .rlock, .runlock, .runlock]
def writerProg : List Op := [.lock, .unlock]

/-- **The defect, formally**: one reader with a nested read lock and one writer reach a state in which neither is
    finished and no step is enabled (reader took the outer RLock, writer announced Lock). -/
theorem nested_rlock_can_deadlock :
    ∃ s, Reachable [nestedProg, writerProg] s ∧ finished s = false ∧ ∀ s', ¬ Step s s' := by
  refine ⟨nestedStuck, ?_, by decide, ?_⟩
  · have h1 : Step (initSt [nestedProg, writerProg])
        [{ prog := [.rlock, .runlock, .runlock], rdepth := 1, holdsW := false, waiting := false }, initTh writerProg] :=
      Step.mk (s := initSt [nestedProg, writerProg]) 0 (by decide) (by decide)
    have h2 : Step
        [{ prog := [.rlock, .runlock, .runlock], rdepth := 1, holdsW := false, waiting := false }, initTh writerProg]
        nestedStuck :=
      Step.mk (s := [{ prog := [.rlock, .runlock, .runlock], rdepth := 1, holdsW := false, waiting := false },
        initTh writerProg]) 1 (by decide) (by decide)
    exact Reachable.step (Reachable.step Reachable.init h1) h2
  · intro s' hstep
    have := (canStep_iff_step nestedStuck).2 ⟨s', hstep⟩
    revert this
    decide

/-- the nested program is of course not `NonNesting` -/
example : ¬ NonNesting nestedProg := by decide

end RW

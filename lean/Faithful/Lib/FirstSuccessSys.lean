import Faithful.Lib.FirstSuccess

/-!
`FirstSuccess` (/repo/first-success.go) as a transition system, live-context path only
(the property says "while the request context is live": `ctx.Err() == nil` and `ctx.Done()` never fires, so the
`if ctx.Err() != nil` branch and the `case <-ctx.Done()` arm of the select are not modelled).

Go source, line by line → model:

* `results := make(chan result, len(fns))`                      buffered FIFO `buf`, capacity `c.n`
* `if concurrency > 0 { wg.SetLimit(concurrency) }`             `semCap`: `some limit` iff `limit > 0`, else no semaphore
                                                                (0 and negatives: NO limit — SetLimit is not called)
* `for _, fn := range fns { wg.Go(...) }`                       action `start`: the MAIN goroutine hands out the jobs in index
    errgroup.Go: `g.sem <- token{}` ; `wg.Add(1)` ; `go ...`      order; it blocks while `limit` jobs hold a semaphore token.
                                                                Main does not read a single result before every job was started.
* job goroutine: `val, err := fn(ctx)` ; `results <- …`         action `send j` (guard: buffer not full; `no_send_blocks` shows
                                                                the guard always holds).  The job's outcome is `c.out j`.
* errgroup `done()`: `<-g.sem` then `g.wg.Done()`               actions `release j` (semaphore token back) and `wgdone j`
* `go func() { wg.Wait(); close(results) }()`                   action `fork` (main leaves the spawn loop, closer exists),
                                                                action `close` (guard: every job did wg.Done)
* `for res := range results { … }`                              actions `recv` (first success → return; error appended; `break`
                                                                at `len(errs) == len(fns)`) and `recvClosed` (closed and drained)

`log` is a ghost field: the job indices in the order of their sends.  A schedule is any list of actions; `run` applies
them (`none` as soon as one is not enabled), so "for every schedule" = "for every list of actions accepted by `run`".
-/

namespace FSys
open FS

deriving instance BEq, Hashable, Repr for FS.Out

structure Cfg (V E : Type) where
  n : Nat                  -- len(fns)
  limit : Int              -- the `concurrency` argument
  out : Nat → Out V E      -- what fn_j returns

inductive Res (V E : Type) where
  | ok : V → Res V E
  | err : List E → Res V E
deriving BEq, Hashable, Repr, DecidableEq

inductive Main (V E : Type) where
  | spawning                          -- in the `for … wg.Go` loop
  | collecting (errs : List E)        -- in the `for res := range results` loop
  | done (r : Res V E)                -- returned
deriving BEq, Hashable, Repr, DecidableEq

structure State (V E : Type) where
  next : Nat                 -- jobs 0..next-1 were handed to wg.Go
  running : List Nat         -- fn running / result not yet sent (holds a semaphore token)
  sentq : List Nat           -- result sent, token not yet released
  relq : List Nat            -- token released, wg.Done not yet called
  buf : List (Out V E)       -- the channel buffer
  log : List Nat             -- ghost: jobs in send order
  main : Main V E
  closed : Bool
deriving BEq, Hashable, Repr

inductive Act where
  | start | send (j : Nat) | release (j : Nat) | wgdone (j : Nat) | fork | close | recv | recvClosed
deriving BEq, Repr

variable {V E : Type}

def init : State V E :=
  { next := 0, running := [], sentq := [], relq := [], buf := [], log := [], main := .spawning, closed := false }

/-- `wg.SetLimit(concurrency)` is only called for `concurrency > 0` -/
def semCap (c : Cfg V E) : Option Nat := if c.limit > 0 then some c.limit.toNat else none

def semFree (c : Cfg V E) (s : State V E) : Bool :=
  match semCap c with
  | none => true
  | some L => s.running.length + s.sentq.length < L

def step (c : Cfg V E) (s : State V E) : Act → Option (State V E)
  | .start =>
    match s.main with
    | .spawning =>
      if s.next < c.n ∧ semFree c s = true then
        some { s with next := s.next + 1, running := s.running ++ [s.next] }
      else none
    | _ => none
  | .send j =>
    if j ∈ s.running ∧ s.buf.length < c.n then
      some { s with running := s.running.erase j, sentq := s.sentq ++ [j],
                    buf := s.buf ++ [c.out j], log := s.log ++ [j] }
    else none
  | .release j =>
    if j ∈ s.sentq then some { s with sentq := s.sentq.erase j, relq := s.relq ++ [j] } else none
  | .wgdone j =>
    if j ∈ s.relq then some { s with relq := s.relq.erase j } else none
  | .fork =>
    match s.main with
    | .spawning => if s.next = c.n then some { s with main := .collecting [] } else none
    | _ => none
  | .close =>
    match s.main with
    | .spawning => none
    | _ =>
      if s.closed = false ∧ s.next = c.n ∧ s.running = [] ∧ s.sentq = [] ∧ s.relq = [] then
        some { s with closed := true }
      else none
  | .recv =>
    match s.main, s.buf with
    | .collecting _, .ok v :: rest => some { s with buf := rest, main := .done (.ok v) }
    | .collecting errs, .err e :: rest =>
      some { s with buf := rest,
                    main := if (errs ++ [e]).length = c.n then .done (.err (errs ++ [e])) else .collecting (errs ++ [e]) }
    | _, _ => none
  | .recvClosed =>
    match s.main, s.buf with
    | .collecting errs, [] => if s.closed = true then some { s with main := .done (.err errs) } else none
    | _, _ => none

def run (c : Cfg V E) : State V E → List Act → Option (State V E)
  | s, [] => some s
  | s, a :: as => match step c s a with
    | some s' => run c s' as
    | none => none

/-- reachable = end state of some schedule from the initial state -/
def Reach (c : Cfg V E) (s : State V E) : Prop := ∃ sched, run c init sched = some s

theorem run_induct (c : Cfg V E) (P : State V E → Prop)
    (hstep : ∀ s a s', P s → step c s a = some s' → P s') :
    ∀ sched s s', P s → run c s sched = some s' → P s' := by
  intro sched
  induction sched with
  | nil => intro s s' hs h; simp [run] at h; subst h; exact hs
  | cons a as ih =>
    intro s s' hs h
    simp only [run] at h
    cases hst : step c s a with
    | none => rw [hst] at h; cases h
    | some s1 => rw [hst] at h; exact ih s1 s' (hstep s a s1 hs hst) h

theorem run_append (c : Cfg V E) (s : State V E) (l1 l2 : List Act) :
    run c s (l1 ++ l2) = (run c s l1).bind (fun s' => run c s' l2) := by
  induction l1 generalizing s with
  | nil => simp [run]
  | cons a as ih =>
    simp only [List.cons_append, run]
    cases step c s a with
    | none => simp
    | some s1 => exact ih s1

/-! ### the invariant -/

def MainP (n next : Nat) (arr buf : List (Out V E)) (closed : Bool) : Main V E → Prop
  | .spawning => buf = arr ∧ closed = false
  | .collecting errs => next = n ∧ arr = errs.map Out.err ++ buf
  | .done (.ok v) => next = n ∧ ∃ (pre : List E) (post : List (Out V E)), arr = pre.map Out.err ++ Out.ok v :: post
  | .done (.err es) => next = n ∧ arr = es.map Out.err ∧ es.length = n

/-- what the main goroutine knows, in terms of the arrival sequence `log.map out` -/
def MainInv (c : Cfg V E) (s : State V E) : Prop :=
  MainP c.n s.next (s.log.map c.out) s.buf s.closed s.main

structure Inv (c : Cfg V E) (s : State V E) : Prop where
  next_le : s.next ≤ c.n
  perm : (s.running ++ s.log).Perm (List.range s.next)
  buf_le : s.buf.length ≤ s.log.length
  sem : ∀ L, semCap c = some L → s.running.length + s.sentq.length ≤ L
  closed_imp : s.closed = true → s.next = c.n ∧ s.running = []
  main_inv : MainInv c s

theorem Inv.len {c : Cfg V E} {s : State V E} (h : Inv c s) : s.running.length + s.log.length = s.next := by
  have := h.perm.length_eq
  simpa using this

theorem inv_init (c : Cfg V E) : Inv c (init : State V E) := by
  refine ⟨Nat.zero_le _, ?_, ?_, ?_, ?_, ?_⟩
  · simp [init]
  · simp [init]
  · intro L _; simp [init]
  · intro h; simp [init] at h
  · simp [MainInv, MainP, init]

theorem erase_len {j : Nat} {l : List Nat} (h : j ∈ l) : (l.erase j).length + 1 = l.length := by
  have h1 := List.length_erase_of_mem h
  have h2 := List.length_pos_of_mem h
  omega

theorem inv_step (c : Cfg V E) (s : State V E) (a : Act) (s' : State V E)
    (hi : Inv c s) (hs : step c s a = some s') : Inv c s' := by
  have hlen := hi.len
  have hmi : MainP c.n s.next (s.log.map c.out) s.buf s.closed s.main := hi.main_inv
  cases a with
  | start =>
    simp only [step] at hs
    split at hs
    · rename_i hm
      split at hs
      · rename_i hg
        injection hs with hs; subst hs
        rw [hm] at hmi; simp only [MainP] at hmi
        refine ⟨by simp; omega, ?_, hi.buf_le, ?_, ?_, ?_⟩
        · simp only [List.range_succ, List.append_assoc]
          have h1 : (s.running ++ ([s.next] ++ s.log)).Perm (s.running ++ (s.log ++ [s.next])) :=
            List.Perm.append_left _ List.perm_append_comm
          have h2 : (s.running ++ (s.log ++ [s.next])).Perm (List.range s.next ++ [s.next]) := by
            rw [← List.append_assoc]; exact List.Perm.append_right _ hi.perm
          exact h1.trans h2
        · intro L hL
          have hf := hg.2
          simp only [semFree, hL] at hf
          simp at hf ⊢; omega
        · intro hc; simp at hc; rw [hmi.2] at hc; cases hc
        · show MainP c.n (s.next + 1) (s.log.map c.out) s.buf s.closed s.main
          rw [hm]; simp only [MainP]; exact hmi
      · cases hs
    · cases hs
  | send j =>
    simp only [step] at hs
    split at hs
    · rename_i hg
      injection hs with hs; subst hs
      obtain ⟨hj, hb⟩ := hg
      have hel := erase_len hj
      refine ⟨hi.next_le, ?_, by simp; exact hi.buf_le, ?_, ?_, ?_⟩
      · show (s.running.erase j ++ (s.log ++ [j])).Perm (List.range s.next)
        have h1 : (s.running ++ s.log).Perm (j :: (s.running.erase j ++ s.log)) :=
          (List.perm_cons_erase hj).append_right s.log
        have h2 : (s.running.erase j ++ (s.log ++ [j])).Perm (j :: (s.running.erase j ++ s.log)) := by
          rw [← List.append_assoc]; exact List.perm_append_singleton _ _
        exact (h2.trans h1.symm).trans hi.perm
      · intro L hL
        have := hi.sem L hL
        simp; omega
      · intro hc
        have := (hi.closed_imp hc).2
        rw [this] at hj; cases hj
      · show MainP c.n s.next ((s.log ++ [j]).map c.out) (s.buf ++ [c.out j]) s.closed s.main
        cases hm : s.main with
        | spawning => rw [hm] at hmi; simp only [MainP] at hmi ⊢; simp [hmi.1, hmi.2]
        | collecting errs => rw [hm] at hmi; simp only [MainP] at hmi ⊢; simp [hmi.1, hmi.2]
        | done r =>
          cases r with
          | ok v =>
            rw [hm] at hmi; simp only [MainP] at hmi ⊢
            obtain ⟨h1, pre, post, h2⟩ := hmi
            exact ⟨h1, pre, post ++ [c.out j], by simp [h2]⟩
          | err es =>
            rw [hm] at hmi; simp only [MainP] at hmi
            obtain ⟨h1, h2, h3⟩ := hmi
            have : s.log.length = es.length := by
              have := congrArg List.length h2; simpa using this
            have hn := hi.next_le
            omega
    · cases hs
  | release j =>
    simp only [step] at hs
    split at hs
    · rename_i hj
      injection hs with hs; subst hs
      have hel := erase_len hj
      refine ⟨hi.next_le, hi.perm, hi.buf_le, ?_, hi.closed_imp, hi.main_inv⟩
      intro L hL
      have := hi.sem L hL
      show s.running.length + (s.sentq.erase j).length ≤ L
      omega
    · cases hs
  | wgdone j =>
    simp only [step] at hs
    split at hs
    · injection hs with hs; subst hs
      exact ⟨hi.next_le, hi.perm, hi.buf_le, hi.sem, hi.closed_imp, hi.main_inv⟩
    · cases hs
  | fork =>
    simp only [step] at hs
    split at hs
    · rename_i hm
      split at hs
      · rename_i hn
        injection hs with hs; subst hs
        rw [hm] at hmi; simp only [MainP] at hmi
        refine ⟨hi.next_le, hi.perm, hi.buf_le, hi.sem, hi.closed_imp, ?_⟩
        show MainP c.n s.next (s.log.map c.out) s.buf s.closed (.collecting [])
        simp [MainP, hn, hmi.1]
      · cases hs
    · cases hs
  | close =>
    simp only [step] at hs
    split at hs
    · cases hs
    · rename_i hm
      split at hs
      · rename_i hg
        injection hs with hs; subst hs
        refine ⟨hi.next_le, hi.perm, hi.buf_le, hi.sem, fun _ => ⟨hg.2.1, hg.2.2.1⟩, ?_⟩
        show MainP c.n s.next (s.log.map c.out) s.buf true s.main
        cases hmm : s.main with
        | spawning => exact absurd hmm hm
        | collecting errs => rw [hmm] at hmi; simp only [MainP] at hmi ⊢; exact hmi
        | done r => cases r with
          | ok v => rw [hmm] at hmi; simp only [MainP] at hmi ⊢; exact hmi
          | err es => rw [hmm] at hmi; simp only [MainP] at hmi ⊢; exact hmi
      · cases hs
  | recv =>
    simp only [step] at hs
    split at hs
    · rename_i errs v rest hm hb
      injection hs with hs; subst hs
      rw [hm, hb] at hmi; simp only [MainP] at hmi
      refine ⟨hi.next_le, hi.perm, ?_, hi.sem, hi.closed_imp, ?_⟩
      · have := hi.buf_le; rw [hb] at this; simp at this ⊢; omega
      · show MainP c.n s.next (s.log.map c.out) rest s.closed (.done (.ok v))
        simp only [MainP]
        exact ⟨hmi.1, errs, rest, hmi.2⟩
    · rename_i errs e rest hm hb
      injection hs with hs; subst hs
      rw [hm, hb] at hmi; simp only [MainP] at hmi
      have hll : (s.log.map c.out).length = errs.length + (rest.length + 1) := by
        rw [hmi.2]; simp
      refine ⟨hi.next_le, hi.perm, ?_, hi.sem, hi.closed_imp, ?_⟩
      · have := hi.buf_le; rw [hb] at this; simp at this ⊢; omega
      · show MainP c.n s.next (s.log.map c.out) rest s.closed
          (if (errs ++ [e]).length = c.n then .done (.err (errs ++ [e])) else .collecting (errs ++ [e]))
        split
        · rename_i hfull
          have hr : rest = [] := by
            have : rest.length = 0 := by
              simp at hll hfull
              have hn := hi.next_le
              omega
            exact List.length_eq_zero_iff.mp this
          subst hr
          simp only [MainP]
          refine ⟨hmi.1, ?_, hfull⟩
          rw [hmi.2]; simp
        · simp only [MainP]
          refine ⟨hmi.1, ?_⟩
          rw [hmi.2]; simp
    · cases hs
  | recvClosed =>
    simp only [step] at hs
    split at hs
    · rename_i errs hm hb
      split at hs
      · rename_i hc
        injection hs with hs; subst hs
        rw [hm, hb] at hmi; simp only [MainP] at hmi
        refine ⟨hi.next_le, hi.perm, hi.buf_le, hi.sem, hi.closed_imp, ?_⟩
        show MainP c.n s.next (s.log.map c.out) s.buf s.closed (.done (.err errs))
        simp only [MainP]
        have ⟨h1, h2⟩ := hi.closed_imp hc
        refine ⟨hmi.1, by simpa using hmi.2, ?_⟩
        have : (s.log.map c.out).length = errs.length := by rw [hmi.2]; simp
        rw [h2] at hlen
        simp at this hlen
        omega
      · cases hs
    · cases hs

theorem inv_reach (c : Cfg V E) (s : State V E) (h : Reach c s) : Inv c s := by
  obtain ⟨sched, hr⟩ := h
  exact run_induct c (Inv c) (fun s a s' hi hs => inv_step c s a s' hi hs) sched init s (inv_init c) hr

/-! ### progress: a state without enabled action is completely finished -/

def Final (s : State V E) : Prop :=
  (∃ r, s.main = .done r) ∧ s.running = [] ∧ s.sentq = [] ∧ s.relq = [] ∧ s.closed = true

theorem semCap_pos (c : Cfg V E) (L : Nat) (h : semCap c = some L) : 0 < L := by
  unfold semCap at h
  split at h
  · injection h with h; omega
  · cases h

theorem progress (c : Cfg V E) (s : State V E) (hi : Inv c s) (hno : ∀ a, step c s a = none) : Final s := by
  have hlen := hi.len
  have hmi : MainP c.n s.next (s.log.map c.out) s.buf s.closed s.main := hi.main_inv
  have hrun : s.running = [] := by
    cases hr : s.running with
    | nil => rfl
    | cons j t =>
      have h := hno (.send j)
      have hb := hi.buf_le
      have hn := hi.next_le
      simp [step, hr] at h
      simp [hr] at hlen
      omega
  have hsq : s.sentq = [] := by
    cases hr : s.sentq with
    | nil => rfl
    | cons j t => have h := hno (.release j); simp [step, hr] at h
  have hrq : s.relq = [] := by
    cases hr : s.relq with
    | nil => rfl
    | cons j t => have h := hno (.wgdone j); simp [step, hr] at h
  cases hm : s.main with
  | spawning =>
    exfalso
    have h1 := hno .fork
    have h2 := hno .start
    simp only [step, hm] at h1 h2
    have hne : ¬ s.next = c.n := by
      intro h; rw [if_pos h] at h1; cases h1
    have hlt : s.next < c.n := by have := hi.next_le; omega
    have hfree : semFree c s = true := by
      unfold semFree
      cases hc : semCap c with
      | none => rfl
      | some L => have := semCap_pos c L hc; simp [hrun, hsq]; exact this
    rw [if_pos ⟨hlt, hfree⟩] at h2; cases h2
  | collecting errs =>
    exfalso
    rw [hm] at hmi; simp only [MainP] at hmi
    have h1 := hno .recv
    have h2 := hno .recvClosed
    have h3 := hno .close
    simp only [step, hm] at h1 h2 h3
    cases hb : s.buf with
    | cons x rest =>
      rw [hb] at h1
      cases x with
      | ok v => cases h1
      | err e => cases h1
    | nil =>
      rw [hb] at h2
      cases hc : s.closed with
      | true => simp [hc] at h2
      | false => simp [hc, hmi.1, hrun, hsq, hrq] at h3
  | done r =>
    refine ⟨⟨r, hm⟩, hrun, hsq, hrq, ?_⟩
    have hnext : s.next = c.n := by
      rw [hm] at hmi
      cases r with
      | ok v => exact hmi.1
      | err es => exact hmi.1
    have h3 := hno .close
    simp only [step, hm] at h3
    cases hc : s.closed with
    | true => rfl
    | false => simp [hc, hnext, hrun, hsq, hrq] at h3

/-! ### termination measure: every action strictly decreases `mu` -/

def mainW : Main V E → Nat
  | .spawning => 2
  | .collecting _ => 1
  | .done _ => 0

def mu (c : Cfg V E) (s : State V E) : Nat :=
  5 * (c.n - s.next) + 4 * s.running.length + 2 * s.sentq.length + s.relq.length + s.buf.length
    + mainW s.main + (if s.closed = true then 0 else 1)

theorem mu_init (c : Cfg V E) : mu c (init : State V E) = 5 * c.n + 3 := by
  simp [mu, init, mainW]

theorem step_mu (c : Cfg V E) (s : State V E) (a : Act) (s' : State V E) (hs : step c s a = some s') :
    mu c s' < mu c s := by
  cases a with
  | start =>
    simp only [step] at hs
    split at hs
    · rename_i hm
      split at hs
      · rename_i hg
        injection hs with hs; subst hs
        have := hg.1
        simp [mu, hm]; omega
      · cases hs
    · cases hs
  | send j =>
    simp only [step] at hs
    split at hs
    · rename_i hg
      injection hs with hs; subst hs
      have := erase_len hg.1
      simp [mu]; omega
    · cases hs
  | release j =>
    simp only [step] at hs
    split at hs
    · rename_i hg
      injection hs with hs; subst hs
      have := erase_len hg
      simp [mu]; omega
    · cases hs
  | wgdone j =>
    simp only [step] at hs
    split at hs
    · rename_i hg
      injection hs with hs; subst hs
      have := erase_len hg
      simp [mu]; omega
    · cases hs
  | fork =>
    simp only [step] at hs
    split at hs
    · rename_i hm
      split at hs
      · injection hs with hs; subst hs
        simp [mu, hm, mainW]
      · cases hs
    · cases hs
  | close =>
    simp only [step] at hs
    split at hs
    · cases hs
    · split at hs
      · rename_i hg
        injection hs with hs; subst hs
        simp [mu, hg.1]
      · cases hs
  | recv =>
    simp only [step] at hs
    split at hs
    · rename_i errs v rest hm hb
      injection hs with hs; subst hs
      simp [mu, hm, hb, mainW]; omega
    · rename_i errs e rest hm hb
      injection hs with hs; subst hs
      have hW : mainW (if (errs ++ [e]).length = c.n then Main.done (Res.err (errs ++ [e]))
          else Main.collecting (errs ++ [e]) : Main V E) ≤ 1 := by
        split <;> simp [mainW]
      have hW1 : mainW (Main.collecting errs : Main V E) = 1 := rfl
      simp only [mu, hm, hb, hW1, List.length_cons]
      omega
    · cases hs
  | recvClosed =>
    simp only [step] at hs
    split at hs
    · rename_i errs hm hb
      split at hs
      · injection hs with hs; subst hs
        simp [mu, hm, mainW]
      · cases hs
    · cases hs

theorem run_mu (c : Cfg V E) : ∀ (sched : List Act) (s s' : State V E),
    run c s sched = some s' → sched.length + mu c s' ≤ mu c s := by
  intro sched
  induction sched with
  | nil => intro s s' h; simp [run] at h; subst h; simp
  | cons a as ih =>
    intro s s' h
    simp only [run] at h
    cases hst : step c s a with
    | none => rw [hst] at h; cases h
    | some s1 =>
      rw [hst] at h
      have h1 := ih s1 s' h
      have h2 := step_mu c s a s1 hst
      simp; omega

/-- from every state satisfying the invariant some schedule leads to a completely finished state -/
theorem can_finish (c : Cfg V E) : ∀ (k : Nat) (s : State V E), mu c s ≤ k → Inv c s →
    ∃ sched s', run c s sched = some s' ∧ Final s' := by
  intro k
  induction k with
  | zero =>
    intro s hk hi
    refine ⟨[], s, rfl, progress c s hi ?_⟩
    intro a
    cases hst : step c s a with
    | none => rfl
    | some s1 => have := step_mu c s a s1 hst; omega
  | succ k ih =>
    intro s hk hi
    by_cases hno : ∀ a, step c s a = none
    · exact ⟨[], s, rfl, progress c s hi hno⟩
    · have ⟨a, ha⟩ := Classical.not_forall.mp hno
      cases hst : step c s a with
      | none => exact absurd hst ha
      | some s1 =>
        have hlt := step_mu c s a s1 hst
        obtain ⟨sched, s', hr, hf⟩ := ih s1 (by omega) (inv_step c s a s1 hi hst)
        exact ⟨a :: sched, s', by simp [run, hst, hr], hf⟩

/-! ### the result in terms of the collector `FS.collect` over the arrival sequence -/

def Res.toExcept : Res V E → Except (List E) V
  | .ok v => .ok v
  | .err es => .error es

theorem collect_prefix_ok (n : Nat) (v : V) (post : List (Out V E)) :
    ∀ (pre errs0 : List E), errs0.length + pre.length < n →
      collect n errs0 (pre.map Out.err ++ Out.ok v :: post) = .ok v := by
  intro pre
  induction pre with
  | nil => intro errs0 _; simp [collect]
  | cons e pre ih =>
    intro errs0 h
    simp only [List.map_cons, List.cons_append, collect]
    have : ¬ (errs0 ++ [e]).length = n := by simp at h ⊢; omega
    rw [if_neg this]
    exact ih (errs0 ++ [e]) (by simp at h ⊢; omega)

theorem errsOf_map_err (es : List E) : errsOf (es.map (Out.err (V := V))) = es := by
  induction es with
  | nil => rfl
  | cons e es ih => simp [errsOf, ih]

theorem collect_all_err (n : Nat) (es : List E) (h : es.length = n) :
    collect n [] (es.map (Out.err (V := V))) = .error es := by
  have := collect_all_fail (V := V) n [] (es.map Out.err) (by simpa using h)
    (by intro x hx; obtain ⟨e, _, rfl⟩ := List.mem_map.mp hx; rfl)
  rw [this, errsOf_map_err]; simp

theorem errsOf_perm {l1 l2 : List (Out V E)} (h : l1.Perm l2) : (errsOf l1).Perm (errsOf l2) := by
  induction h with
  | nil => exact List.Perm.refl _
  | cons x _ ih => cases x with
    | ok v => simpa [errsOf] using ih
    | err e => simpa [errsOf] using ih
  | swap x y l =>
    cases x <;> cases y <;> simp [errsOf]
    exact List.Perm.swap ..
  | trans _ _ ih1 ih2 => exact ih1.trans ih2

/-! ### executable helpers used by the driver: the scheduler that realises a given completion order -/

/-- deterministic scheduler: start jobs while the semaphore allows; let the running job that comes first in `order`
finish completely (send, release, wg.Done); when no job is left, main collects. -/
def prioNext (c : Cfg V E) (order : List Nat) (s : State V E) : Option Act :=
  if (step c s .start).isSome then some .start
  else match s.sentq, s.relq with
    | j :: _, _ => some (.release j)
    | [], j :: _ => some (.wgdone j)
    | [], [] =>
      match (order ++ List.range c.n).find? (fun j => s.running.contains j) with
      | some j => some (.send j)
      | none =>
        if (step c s .fork).isSome then some .fork
        else if (step c s .recv).isSome then some .recv
        else if (step c s .close).isSome then some .close
        else if (step c s .recvClosed).isSome then some .recvClosed
        else none

/-- runs the scheduler; returns the schedule taken, the end state and the largest number of simultaneously running jobs -/
def prioRun (c : Cfg V E) (order : List Nat) : Nat → State V E → List Act → Nat → List Act × State V E × Nat
  | 0, s, acc, m => (acc.reverse, s, m)
  | fuel + 1, s, acc, m =>
    match prioNext c order s with
    | none => (acc.reverse, s, m)
    | some a =>
      match step c s a with
      | none => (acc.reverse, s, m)
      | some s' => prioRun c order fuel s' (a :: acc) (max m s'.running.length)

def allActs (n : Nat) : List Act :=
  [.start, .fork, .close, .recv, .recvClosed] ++ (List.range n).flatMap fun j => [.send j, .release j, .wgdone j]

end FSys

/-!
### `findEpochNumberFromSignature` (/repo/multiepoch-getTransaction.go)

One job per epoch, highest epoch number first; the job of an epoch answers
* `ErrNotFound` when the epoch has no bucketteer, when `Has(sig)` is false, or when `Has` is true but the
  sig-to-cid index does not know the signature (bucketteer false positive),
* `fmt.Errorf("failed to check …: %w", err)` when `Has` fails (`errors.Is(…, ErrNotFound)` iff the cause wraps it),
* the epoch number when `Has` is true and the sig-to-cid index knows the signature.
With exactly one epoch the search is skipped and that epoch is returned unconditionally.
Not modelled: an epoch removed between `GetEpochNumbers` and the job's `GetEpoch` (static epoch set), cancellation.
-/
namespace FindEpoch
open FS FSys

inductive JErr where
  | notFound                                     -- ErrNotFound
  | hasFailed (epoch : Nat) (wrapsNF : Bool)      -- wrapped error of SigExistsIndex.Has
deriving BEq, Hashable, Repr, DecidableEq

def JErr.isNF : JErr → Bool
  | .notFound => true
  | .hasFailed _ w => w

inductive Kind where
  | noBucket | hasFalse | hasErr (wrapsNF : Bool) | hit | falsePos
deriving BEq, Repr, DecidableEq

def jobOut (num : Nat) : Kind → Out Nat JErr
  | .noBucket => .err .notFound
  | .hasFalse => .err .notFound
  | .hasErr w => .err (.hasFailed num w)
  | .hit => .ok num
  | .falsePos => .err .notFound

inductive FindRes where
  | found (epoch : Nat)          -- (epoch, nil)
  | notFound                     -- (0, ErrNotFound)            → JSON-RPC "Transaction not found"
  | internal (errs : List JErr)  -- (0, the ErrorSlice)         → JSON-RPC internal error
deriving BEq, Repr, DecidableEq

/-- the error handling after `jobGroup.RunWithConcurrency` -/
def classify : Res Nat JErr → FindRes
  | .ok v => .found v
  | .err es => if es.all JErr.isNF then .notFound else .internal es

def cfgOf (limit : Int) (eps : List (Nat × Kind)) : Cfg Nat JErr :=
  { n := eps.length, limit := limit,
    out := fun j => match eps[j]? with
      | some (num, k) => jobOut num k
      | none => .err .notFound }

/-- the whole function, given the result `r` of the parallel search (not consulted when there is one epoch) -/
def findResult (eps : List (Nat × Kind)) (r : Res Nat JErr) : FindRes :=
  match eps with
  | [(num, _)] => .found num
  | _ => classify r

end FindEpoch

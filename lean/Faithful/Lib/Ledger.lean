import Faithful.Lib.Cbor
/-! Ledger nodes (the seven kinds of `/repo/ledger.ipldsch`), at the CBOR data-model level.

* typed values mirror `/repo/ipld/ipldbindcode/types.go` (Go `int` = `Int` constrained to int64 by `WF`;
  a `nullable optional` field of Go type `**T` is `OptN T`: `none` = nil (absent), `some none` = pointer to nil (null),
  `some (some v)` = value; a Go slice is a `List`, nil and empty identified — the encoder cannot tell them apart)
* `Ref.encode`  : the reference tuple encoding (ipld-prime bindnode + dag-cbor): absent trailing optionals dropped,
  interior absent ones and explicit nulls written as CBOR `null`
* `Ref.decode`  : the schema-driven decoder (bindnode tuple assembler over the dag-cbor token stream), field by field
  from the `FieldSpec`s of `schema` (the correspondence run compares `schema` with the type system bindnode loaded
  from ledger.ipldsch, type by type)
* `Fast.decode` : line-by-line model of the hand-written decoders of `/repo/ipld/ipldbindcode/cbor.go` followed by the kind
  check of `/repo/iplddecoders/decoders.go:_Decode*Fast`; unchecked type assertions and slice expressions are explicit
  `panic` outcomes, integer casts are the Go ones (`uint64(int64)`, `int(uint64)`)
* `obs` : what the property observes — exported plain fields and the results of the `Has*/Get*` accessors of methods.go.

Core Lean only. -/
namespace Ledger
open Cbor

/-! ## outcomes -/

inductive Outcome (α : Type) where
  | ok (a : α)
  | err (e : String)
  | panic (why : String)
  deriving Repr

namespace Outcome
def bind {α β : Type} (x : Outcome α) (f : α → Outcome β) : Outcome β :=
  match x with
  | .ok a => f a
  | .err e => .err e
  | .panic w => .panic w
instance : Monad Outcome where
  pure := .ok
  bind := bind
@[simp] theorem ok_bind {α β : Type} (a : α) (f : α → Outcome β) : (Outcome.ok a >>= f) = f a := rfl
@[simp] theorem err_bind {α β : Type} (e : String) (f : α → Outcome β) : (Outcome.err e >>= f) = .err e := rfl
@[simp] theorem panic_bind {α β : Type} (e : String) (f : α → Outcome β) : (Outcome.panic e >>= f) = .panic e := rfl
@[simp] theorem pure_eq {α : Type} (a : α) : (pure a : Outcome α) = .ok a := rfl
def isErr {α : Type} : Outcome α → Bool | .err _ => true | _ => false
end Outcome

/-! ## Go integer casts -/

/-- the value fits Go's `int` (= int64 on the platforms the repository builds for) -/
def I64 (v : Int) : Prop := -9223372036854775808 ≤ v ∧ v < 9223372036854775808
instance (v : Int) : Decidable (I64 v) := by unfold I64; exact inferInstance

/-- Go `uint64(x)` for an `int64`/`int` x -/
def castU64 (v : Int) : Nat := (v % 18446744073709551616).toNat
/-- Go `int(x)` / `int64(x)` for a `uint64` x -/
def castI64 (u : Nat) : Int :=
  if u % 18446744073709551616 < 9223372036854775808 then ((u % 18446744073709551616 : Nat) : Int)
  else ((u % 18446744073709551616 : Nat) : Int) - 18446744073709551616

/-! ## CIDs: go-cid `CidFromBytes` / `Cast` over go-varint and go-multihash (third-party; modelled so that the driver
can execute link decoding; the theorems use it only through `WF`) -/

abbrev Cid := Bytes

/-- go-varint `FromUvarint`: value and number of bytes read; minimal encoding, at most 9 bytes -/
def uvarintGo : Bytes → Nat → Nat → Nat → Option (Nat × Nat)
  | [], _, _, _ => none
  | b :: rest, i, x, s =>
    if (i = 8 ∧ b.toNat ≥ 128) ∨ i ≥ 9 then none
    else if b.toNat < 128 then
      (if b.toNat = 0 ∧ s > 0 then none else some (x + b.toNat * 2 ^ s, i + 1))
    else uvarintGo rest (i + 1) (x + (b.toNat % 128) * 2 ^ s) (s + 7)

def uvarint (b : Bytes) : Option (Nat × Nat) := uvarintGo b 0 0 0

/-- go-multihash `readMultihashFromBuf`: number of bytes the multihash occupies -/
def mhLen (buf : Bytes) : Option Nat :=
  if buf.length < 2 then none else
  match uvarint buf with
  | none => none
  | some (_, c1) =>
    match uvarint (buf.drop c1) with
    | none => none
    | some (len, c2) =>
      if len > 2147483647 then none
      else if len > buf.length - c1 - c2 then none
      else some (c1 + c2 + len)

/-- go-cid `CidFromBytes`: length consumed and the CID (its bytes) -/
def Cid.fromBytes (data : Bytes) : Option (Nat × Cid) :=
  if data.length > 2 ∧ data[0]? = some 0x12 ∧ data[1]? = some 32 then
    (if data.length < 34 then none else some (34, data.take 34))
  else
    match uvarint data with
    | none => none
    | some (vers, n) =>
      if vers ≠ 1 then none else
      match uvarint (data.drop n) with
      | none => none
      | some (_, cn) =>
        match mhLen (data.drop (n + cn)) with
        | none => none
        | some m => some (n + cn + m, data.take (n + cn + m))

/-- go-cid `Cast`: the whole buffer is one CID -/
def Cid.cast (data : Bytes) : Option Cid :=
  match Cid.fromBytes data with
  | some (n, c) => if n = data.length then some c else none
  | none => none

/-- a well-formed CID: its bytes parse back to itself with nothing left over -/
def Cid.WF (c : Cid) : Prop := Cid.fromBytes c = some (c.length, c)
instance (c : Cid) : Decidable (Cid.WF c) := by unfold Cid.WF; exact inferInstance

/-! ## typed values (types.go) -/

/-- Go `**T` of a `nullable optional` field -/
abbrev OptN (α : Type) := Option (Option α)

structure DataFrame where
  kind : Int
  hash : OptN Int
  index : OptN Int
  total : OptN Int
  data : Bytes
  next : OptN (List Cid)
  deriving Repr, DecidableEq

structure Epoch where
  kind : Int
  epoch : Int
  subsets : List Cid
  deriving Repr, DecidableEq

structure Subset where
  kind : Int
  first : Int
  last : Int
  blocks : List Cid
  deriving Repr, DecidableEq

structure Shredding where
  entryEndIdx : Int
  shredEndIdx : Int
  deriving Repr, DecidableEq

structure SlotMeta where
  parentSlot : Int
  blocktime : Int
  blockHeight : OptN Int
  deriving Repr, DecidableEq

structure Block where
  kind : Int
  slot : Int
  shredding : List Shredding
  entries : List Cid
  smeta : SlotMeta
  rewards : Cid
  deriving Repr, DecidableEq

structure Rewards where
  kind : Int
  slot : Int
  data : DataFrame
  deriving Repr, DecidableEq

structure Entry where
  kind : Int
  numHashes : Int
  hash : Bytes
  transactions : List Cid
  deriving Repr, DecidableEq

structure Transaction where
  kind : Int
  data : DataFrame
  metadata : DataFrame
  slot : Int
  index : OptN Int
  deriving Repr, DecidableEq

/-- iplddecoders.Kind (the iota order of decoders.go) -/
inductive Kind where
  | transaction | entry | block | subset | epoch | rewards | dataFrame
  deriving Repr, DecidableEq

def Kind.num : Kind → Int
  | .transaction => 0 | .entry => 1 | .block => 2 | .subset => 3 | .epoch => 4 | .rewards => 5 | .dataFrame => 6

def Kind.all : List Kind := [.transaction, .entry, .block, .subset, .epoch, .rewards, .dataFrame]

inductive Node where
  | transaction (x : Transaction)
  | entry (x : Entry)
  | block (x : Block)
  | subset (x : Subset)
  | epoch (x : Epoch)
  | rewards (x : Rewards)
  | dataFrame (x : DataFrame)
  deriving Repr, DecidableEq

def Node.kind : Node → Kind
  | .transaction _ => .transaction | .entry _ => .entry | .block _ => .block | .subset _ => .subset
  | .epoch _ => .epoch | .rewards _ => .rewards | .dataFrame _ => .dataFrame

/-! ## the schema as data (field order, type, optional, nullable) — tied to ledger.ipldsch by the `schema` ops of the
correspondence run (the harness prints the type system bindnode compiled from the embedded ledger.ipldsch) -/

structure FieldSpec where
  name : String
  ty : String
  optional : Bool
  nullable : Bool
  deriving Repr, DecidableEq

def req (name ty : String) : FieldSpec := ⟨name, ty, false, false⟩
def opt (name ty : String) : FieldSpec := ⟨name, ty, true, true⟩

namespace S
def epochKind := req "kind" "Int"
def epochEpoch := req "epoch" "Int"
def epochSubsets := req "subsets" "List__Link"
def subsetKind := req "kind" "Int"
def subsetFirst := req "first" "Int"
def subsetLast := req "last" "Int"
def subsetBlocks := req "blocks" "List__Link"
def blockKind := req "kind" "Int"
def blockSlot := req "slot" "Int"
def blockShredding := req "shredding" "List__Shredding"
def blockEntries := req "entries" "List__Link"
def blockMeta := req "meta" "SlotMeta"
def blockRewards := req "rewards" "Link"
def rewardsKind := req "kind" "Int"
def rewardsSlot := req "slot" "Int"
def rewardsData := req "data" "DataFrame"
def metaParent := req "parent_slot" "Int"
def metaBlocktime := req "blocktime" "Int"
def metaHeight := opt "block_height" "Int"
def shrEntry := req "entryEndIdx" "Int"
def shrShred := req "shredEndIdx" "Int"
def entryKind := req "kind" "Int"
def entryNumHashes := req "numHashes" "Int"
def entryHash := req "hash" "Hash"
def entryTxs := req "transactions" "List__Link"
def txKind := req "kind" "Int"
def txData := req "data" "DataFrame"
def txMetadata := req "metadata" "DataFrame"
def txSlot := req "slot" "Int"
def txIndex := opt "index" "Int"
def dfKind := req "kind" "Int"
def dfHash := opt "hash" "Int"
def dfIndex := opt "index" "Int"
def dfTotal := opt "total" "Int"
def dfData := req "data" "Buffer"
def dfNext := opt "next" "List__Link"
end S

/-- every struct type of ledger.ipldsch (all `representation tuple`), in file order -/
def schema : List (String × List FieldSpec) := [
  ("Epoch", [S.epochKind, S.epochEpoch, S.epochSubsets]),
  ("Subset", [S.subsetKind, S.subsetFirst, S.subsetLast, S.subsetBlocks]),
  ("Block", [S.blockKind, S.blockSlot, S.blockShredding, S.blockEntries, S.blockMeta, S.blockRewards]),
  ("Rewards", [S.rewardsKind, S.rewardsSlot, S.rewardsData]),
  ("SlotMeta", [S.metaParent, S.metaBlocktime, S.metaHeight]),
  ("Shredding", [S.shrEntry, S.shrShred]),
  ("Entry", [S.entryKind, S.entryNumHashes, S.entryHash, S.entryTxs]),
  ("Transaction", [S.txKind, S.txData, S.txMetadata, S.txSlot, S.txIndex]),
  ("DataFrame", [S.dfKind, S.dfHash, S.dfIndex, S.dfTotal, S.dfData, S.dfNext])]

/-- the list types (element type; elements are not nullable) and the byte-string types of the schema -/
def schemaLists : List (String × String) := [("List__Link", "Link"), ("List__Shredding", "Shredding")]
def schemaBytes : List String := ["Hash", "Buffer"]

/-! ## reference encoder (bindnode tuple representation + dag-cbor) -/

namespace Ref

def encInt (v : Int) : Val := if 0 ≤ v then .uint v.toNat else .nint (-1 - v).toNat
/-- dag-cbor link: tag 42 over the identity-multibase byte 0x00 followed by the CID bytes -/
def encLink (c : Cid) : Val := .tag 42 (.bytes (0 :: c))
def encLinks (l : List Cid) : Val := .arr (l.map encLink)

/-- one tuple slot: `none` = field absent; explicit null and values are present -/
def encOpt {α : Type} (f : α → Val) : OptN α → Option Val
  | none => none
  | some none => some .null
  | some (some v) => some (f v)

/-- drop the absent fields at the end of a tuple -/
def dropTrailingAbsent : List (Option Val) → List (Option Val)
  | [] => []
  | x :: xs =>
    match dropTrailingAbsent xs with
    | [] => (match x with | none => [] | some v => [some v])
    | ys => x :: ys

/-- an absent field that is not at the end of the tuple is written as null -/
def fill : Option Val → Val
  | some v => v
  | none => .null

/-- tuple representation: absent trailing optionals dropped, interior absent ones written as null -/
def tupleItems' (fields : List (Option Val)) : List Val := (dropTrailingAbsent fields).map fill
def tuple (fields : List (Option Val)) : Val := .arr (tupleItems' fields)

def dfItems (d : DataFrame) : List Val :=
  tupleItems' [some (encInt d.kind), encOpt encInt d.hash, encOpt encInt d.index, encOpt encInt d.total,
               some (.bytes d.data), encOpt encLinks d.next]
def encDataFrame (d : DataFrame) : Val := .arr (dfItems d)

def encShredding (s : Shredding) : Val := tuple [some (encInt s.entryEndIdx), some (encInt s.shredEndIdx)]

def metaItems (m : SlotMeta) : List Val :=
  tupleItems' [some (encInt m.parentSlot), some (encInt m.blocktime), encOpt encInt m.blockHeight]
def encSlotMeta (m : SlotMeta) : Val := .arr (metaItems m)

def encode : Node → Val
  | .epoch x => tuple [some (encInt x.kind), some (encInt x.epoch), some (encLinks x.subsets)]
  | .subset x => tuple [some (encInt x.kind), some (encInt x.first), some (encInt x.last), some (encLinks x.blocks)]
  | .block x => tuple [some (encInt x.kind), some (encInt x.slot), some (.arr (x.shredding.map encShredding)),
                       some (encLinks x.entries), some (encSlotMeta x.smeta), some (encLink x.rewards)]
  | .rewards x => tuple [some (encInt x.kind), some (encInt x.slot), some (encDataFrame x.data)]
  | .entry x => tuple [some (encInt x.kind), some (encInt x.numHashes), some (.bytes x.hash), some (encLinks x.transactions)]
  | .transaction x => tuple [some (encInt x.kind), some (encDataFrame x.data), some (encDataFrame x.metadata),
                             some (encInt x.slot), encOpt encInt x.index]
  | .dataFrame x => encDataFrame x

end Ref

/-! ## schema-driven reference decoder (dag-cbor unmarshal into the bindnode tuple assembler) -/

namespace Ref

/-- refmt attaches a tag to the token that follows it; dag-cbor looks at the tag only on byte strings, so a tag in
    front of anything else is ignored -/
def untag : Nat → Val → Val
  | fuel+1, .tag n v => (match v with | .bytes _ => .tag n v | _ => untag fuel v)
  | _, v => v

/-- dag-cbor TInt/TUint into a Go `int` field: uint above MaxInt64 goes through `assignUInt` → `SetInt(int64(u))` (wraps) -/
def decInt (v : Val) : Except String Int :=
  match untag 8 v with
  | .uint n => .ok (castI64 n)
  | .nint n => if n < 9223372036854775808 then .ok (-1 - (n : Int)) else .error "int overflow"
  | _ => .error "wrong kind: expected int"

def decBytes (v : Val) : Except String Bytes :=
  match untag 8 v with
  | .bytes b => .ok b
  | _ => .error "wrong kind: expected bytes"

/-- dag-cbor link: tag 42, byte string, multibase prefix 0x00, `cid.Cast` of the rest -/
def decLink (v : Val) : Except String Cid :=
  match untag 8 v with
  | .tag 42 (.bytes (b :: rest)) =>
    if b ≠ 0 then .error "invalid multibase on IPLD link"
    else match Cid.cast rest with
      | some c => .ok c
      | none => .error "invalid cid"
  | .tag 42 (.bytes []) => .error "invalid multibase on IPLD link"
  | _ => .error "wrong kind: expected link"

def decList {α : Type} (f : Val → Except String α) (v : Val) : Except String (List α) :=
  match untag 8 v with
  | .arr xs => xs.mapM f
  | _ => .error "wrong kind: expected list"

def isNull : Val → Bool
  | .null => true
  | .undef => true      -- refmt is configured with CoerceUndefToNull
  | _ => false

/-- one field of a tuple-represented struct, as the bindnode tuple assembler treats the slot:
    missing → allowed only if optional; null → allowed only if nullable -/
def fieldOf {α : Type} (s : FieldSpec) (dec : Val → Except String α) : Option Val → Except String (OptN α)
  | none => if s.optional then .ok none else .error s!"missing required field {s.name}"
  | some v =>
    if isNull (untag 8 v) then
      (if s.nullable then .ok (some none) else .error s!"null in non-nullable field {s.name}")
    else (dec v).map fun a => some (some a)

def field {α : Type} (s : FieldSpec) (dec : Val → Except String α) (items : List Val) (i : Nat) : Except String (OptN α) :=
  fieldOf s dec items[i]?

/-- a required, non-nullable field -/
def fieldR {α : Type} (s : FieldSpec) (dec : Val → Except String α) (items : List Val) (i : Nat) : Except String α :=
  match fieldOf s dec items[i]? with
  | .ok (some (some a)) => .ok a
  | .ok _ => .error s!"missing required field {s.name}"
  | .error e => .error e

/-- the tuple itself: a list with no more entries than the struct has fields -/
def tupleItems (nfields : Nat) (v : Val) : Except String (List Val) :=
  match untag 8 v with
  | .arr items => if items.length > nfields then .error "too many tuple entries" else .ok items
  | _ => .error "wrong kind: expected list (tuple)"

def decDataFrame (v : Val) : Except String DataFrame := do
  let it ← tupleItems 6 v
  let kind ← fieldR S.dfKind decInt it 0
  let hash ← field S.dfHash decInt it 1
  let index ← field S.dfIndex decInt it 2
  let total ← field S.dfTotal decInt it 3
  let data ← fieldR S.dfData decBytes it 4
  let next ← field S.dfNext (decList decLink) it 5
  return { kind, hash, index, total, data, next }

def decShredding (v : Val) : Except String Shredding := do
  let it ← tupleItems 2 v
  let e ← fieldR S.shrEntry decInt it 0
  let s ← fieldR S.shrShred decInt it 1
  return ⟨e, s⟩

def decSlotMeta (v : Val) : Except String SlotMeta := do
  let it ← tupleItems 3 v
  let p ← fieldR S.metaParent decInt it 0
  let b ← fieldR S.metaBlocktime decInt it 1
  let h ← field S.metaHeight decInt it 2
  return ⟨p, b, h⟩

def decEpoch (v : Val) : Except String Epoch := do
  let it ← tupleItems 3 v
  let kind ← fieldR S.epochKind decInt it 0
  let epoch ← fieldR S.epochEpoch decInt it 1
  let subsets ← fieldR S.epochSubsets (decList decLink) it 2
  return { kind, epoch, subsets }

def decSubset (v : Val) : Except String Subset := do
  let it ← tupleItems 4 v
  let kind ← fieldR S.subsetKind decInt it 0
  let first ← fieldR S.subsetFirst decInt it 1
  let last ← fieldR S.subsetLast decInt it 2
  let blocks ← fieldR S.subsetBlocks (decList decLink) it 3
  return { kind, first, last, blocks }

def decBlock (v : Val) : Except String Block := do
  let it ← tupleItems 6 v
  let kind ← fieldR S.blockKind decInt it 0
  let slot ← fieldR S.blockSlot decInt it 1
  let shredding ← fieldR S.blockShredding (decList decShredding) it 2
  let entries ← fieldR S.blockEntries (decList decLink) it 3
  let smeta ← fieldR S.blockMeta decSlotMeta it 4
  let rewards ← fieldR S.blockRewards decLink it 5
  return { kind, slot, shredding, entries, smeta, rewards }

def decRewards (v : Val) : Except String Rewards := do
  let it ← tupleItems 3 v
  let kind ← fieldR S.rewardsKind decInt it 0
  let slot ← fieldR S.rewardsSlot decInt it 1
  let data ← fieldR S.rewardsData decDataFrame it 2
  return { kind, slot, data }

def decEntry (v : Val) : Except String Entry := do
  let it ← tupleItems 4 v
  let kind ← fieldR S.entryKind decInt it 0
  let numHashes ← fieldR S.entryNumHashes decInt it 1
  let hash ← fieldR S.entryHash decBytes it 2
  let transactions ← fieldR S.entryTxs (decList decLink) it 3
  return { kind, numHashes, hash, transactions }

def decTransaction (v : Val) : Except String Transaction := do
  let it ← tupleItems 5 v
  let kind ← fieldR S.txKind decInt it 0
  let data ← fieldR S.txData decDataFrame it 1
  let metadata ← fieldR S.txMetadata decDataFrame it 2
  let slot ← fieldR S.txSlot decInt it 3
  let index ← field S.txIndex decInt it 4
  return { kind, data, metadata, slot, index }

/-- the kind check of `_Decode*Classic` after `ipld.Unmarshal` -/
def checkKind (k : Kind) (got : Int) : Except String Unit :=
  if got ≠ k.num then .error s!"expected kind {k.num}, got {got}" else .ok ()

/-- `iplddecoders._Decode<Kind>Classic` at the data-model level -/
def decode (k : Kind) (v : Val) : Except String Node :=
  match k with
  | .transaction => do let x ← decTransaction v; checkKind k x.kind; return .transaction x
  | .entry => do let x ← decEntry v; checkKind k x.kind; return .entry x
  | .block => do let x ← decBlock v; checkKind k x.kind; return .block x
  | .subset => do let x ← decSubset v; checkKind k x.kind; return .subset x
  | .epoch => do let x ← decEpoch v; checkKind k x.kind; return .epoch x
  | .rewards => do let x ← decRewards v; checkKind k x.kind; return .rewards x
  | .dataFrame => do let x ← decDataFrame v; checkKind k x.kind; return .dataFrame x

end Ref

/-! ## the hand-written decoders of cbor.go, line by line -/

namespace Fast

/-- what fxamacker/cbor hands to `interface{}`: `nil` for CBOR null and undefined -/
def isNil : Val → Bool
  | .null => true
  | .undef => true
  | _ => false

/-- `cbor.Tag` is what an unregistered tag decodes to; tags 0/1 (time), 2/3 (bignum) and 55799 (self-described,
    skipped) have built-in handling in fxamacker and never appear as `cbor.Tag` -/
def builtinTag (n : Nat) : Bool := n = 0 ∨ n = 1 ∨ n = 2 ∨ n = 3 ∨ n = 55799

/-- `dec.Decode(&arr)` with `arr _array` (a `[]any`): array → its items; null/undefined → nil slice, no error;
    tags in front of the item are skipped when the destination is not an interface; anything else is an
    UnmarshalTypeError -/
def topArray : Nat → Val → Outcome (List Val)
  | _, .arr xs => .ok xs
  | _, .null => .ok []
  | _, .undef => .ok []
  | fuel+1, .tag _ v => topArray fuel v
  | _, _ => .err "cbor: cannot unmarshal into Go value of type ipldbindcode._array"

/-- `_array.Get(i)` -/
def get (a : List Val) (i : Nat) : Option Val := a[i]?

/-- `getUint64FromInterface`: `i.(uint64)`, else `i.(int64)` cast with `uint64(asInt64)`, else error.
    fxamacker yields uint64 for major type 0, int64 for major type 1 down to -2^63 and big.Int below -/
def getUint64 : Val → Outcome Nat
  | .uint n => .ok n
  | .nint n => if n < 9223372036854775808 then .ok (castU64 (-1 - (n : Int))) else .err "expected uint64 or int64, got big.Int"
  | _ => .err "expected uint64 or int64"

/-- the block that opens every decoder: `arr.Get(0)` → `getUint64FromInterface` → `x.Kind = int(kind)` → compare -/
def readKind (arr : List Val) (want : Int) : Outcome Int :=
  match get arr 0 with
  | some k => do
    let u ← getUint64 k
    let kind := castI64 u
    if kind ≠ want then .err s!"expected kind {want}, got {kind}" else .ok kind
  | none => .err "expected kind to be present"

/-- `if v, ok := arr.Get(i); ok { v, err := getUint64FromInterface(v); …; x.F = int(v) } else { return err }` -/
def reqInt (arr : List Val) (i : Nat) (name : String) : Outcome Int :=
  match get arr i with
  | some v => do let u ← getUint64 v; .ok (castI64 u)
  | none => .err s!"expected {name} to be present"

/-- `if v, ok := arr.Get(i); ok { if v != nil { v, err := getUint64FromInterface(v); …; p := int(v); pp := &p; x.F = &pp } }`
    — a missing or nil slot leaves the `**int` nil -/
def optIntOf (v : Val) : Outcome (OptN Int) :=
  if isNil v then .ok none else do let u ← getUint64 v; .ok (some (some (castI64 u)))
def optInt (arr : List Val) (i : Nat) : Outcome (OptN Int) :=
  match get arr i with
  | some v => optIntOf v
  | none => .ok none

/-- the body of the link loop (also used for `Block.Rewards`): `subset.(cbor.Tag)` checked, number 42 checked,
    `rawTag.Content.([]byte)` checked, `rawBytes[1:]` NOT checked (panics on an empty byte string), `cid.CidFromBytes` -/
def linkOf : Val → Outcome Cid
  | .tag n c =>
    if builtinTag n then .err "expected cbor.Tag"
    else if n ≠ 42 then .err s!"expected cbor tag number 42, got {n}"
    else match c with
      | .bytes [] => .panic "slice bounds out of range [1:0]"
      | .bytes (_ :: rest) =>
        (match Cid.fromBytes rest with
         | some (_, cid) => .ok cid
         | none => .err "failed to cast cbor tag content to cid.Cid")
      | _ => .err "expected cbor tag content to be []byte"
  | _ => .err "expected cbor.Tag"

/-- the `for _, subset := range subsetsArray { …; list = append(list, …) }` loop -/
def linkLoop : List Cid → List Val → Outcome (List Cid)
  | acc, [] => .ok acc.reverse
  | acc, v :: vs =>
    match linkOf v with
    | .ok c => linkLoop (c :: acc) vs
    | .err e => .err e
    | .panic w => .panic w

/-- `decodeCborLinkListFromAny`: nil → (nil, nil); `[]interface{}` → loop; anything else → error -/
def linkList (v : Val) : Outcome (List Cid) :=
  if isNil v then .ok []
  else match v with
    | .arr xs => linkLoop [] xs
    | _ => .err "expected subsets to be []interface{}"

/-- `if v, ok := arr.Get(i); ok { x.F, err = decodeCborLinkListFromAny(v) … } else { return err }` -/
def reqLinks (arr : List Val) (i : Nat) (name : String) : Outcome (List Cid) :=
  match get arr i with
  | some v => linkList v
  | none => .err s!"expected {name} to be present"

/-- `(*DataFrame).fromCBORArray` -/
def dataFrameFromArray (arr : List Val) : Outcome DataFrame := do
  let kind ← readKind arr 6
  let hash ← optInt arr 1
  let index ← optInt arr 2
  let total ← optInt arr 3
  let data ← match get arr 4 with
    | some (.bytes b) => Outcome.ok b
    | some _ => .err "expected cbor tag content to be []byte"
    | none => .err "expected data to be present"
  -- `if next, ok := arr.Get(5); ok { next, err := decodeCborLinkListFromAny(next); …; p := &next; x.Next = &p }`
  let next ← match get arr 5 with
    | some v => do let l ← linkList v; Outcome.ok (some (some l))
    | none => Outcome.ok none
  return { kind, hash, index, total, data, next }

/-- `dataArr := _array(data.([]interface{}))` — the assertion is unchecked: anything but an array panics -/
def nestedDataFrame (arr : List Val) (i : Nat) (name : String) : Outcome DataFrame :=
  match get arr i with
  | some (.arr d) => dataFrameFromArray d
  | some _ => .panic "interface conversion: interface {} is not []interface {}"
  | none => .err s!"expected {name} to be present"

def unmarshalDataFrame (v : Val) : Outcome DataFrame := do
  let arr ← topArray 64 v
  dataFrameFromArray arr

def unmarshalEpoch (v : Val) : Outcome Epoch := do
  let arr ← topArray 64 v
  let kind ← readKind arr 4
  let epoch ← reqInt arr 1 "epoch"
  let subsets ← reqLinks arr 2 "subsets"
  return { kind, epoch, subsets }

def unmarshalSubset (v : Val) : Outcome Subset := do
  let arr ← topArray 64 v
  let kind ← readKind arr 3
  let first ← reqInt arr 1 "first"
  let last ← reqInt arr 2 "last"
  let blocks ← reqLinks arr 3 "blocks"
  return { kind, first, last, blocks }

/-- one element of the shredding loop: `shredding.([]interface{})` checked, two required ints -/
def shreddingOf : Val → Outcome Shredding
  | .arr raw => do
    let e ← reqInt raw 0 "entry_end_idx"
    let s ← reqInt raw 1 "shred_end_idx"
    .ok ⟨e, s⟩
  | _ => .err "expected []interface{}"

def shreddingLoop : List Shredding → List Val → Outcome (List Shredding)
  | acc, [] => .ok acc.reverse
  | acc, v :: vs =>
    match shreddingOf v with
    | .ok s => shreddingLoop (s :: acc) vs
    | .err e => .err e
    | .panic w => .panic w

def unmarshalBlock (v : Val) : Outcome Block := do
  let arr ← topArray 64 v
  let kind ← readKind arr 2
  let slot ← reqInt arr 1 "slot"
  let shredding ← match get arr 2 with
    | some (.arr xs) => shreddingLoop [] xs
    | some _ => .err "expected shredding to be []interface{}"
    | none => .err "expected shredding to be present"
  let entries ← reqLinks arr 3 "entries"
  -- `metaArr := _array(meta.([]interface{}))` — unchecked assertion
  let smeta ← match get arr 4 with
    | some (.arr m) => do
      let p ← reqInt m 0 "parent_slot"
      let b ← reqInt m 1 "blocktime"
      let h ← optInt m 2
      Outcome.ok (SlotMeta.mk p b h)
    | some _ => .panic "interface conversion: interface {} is not []interface {}"
    | none => .err "expected meta to be present"
  let rewards ← match get arr 5 with
    | some r => linkOf r
    | none => .err "expected rewards to be present"
  return { kind, slot, shredding, entries, smeta, rewards }

def unmarshalRewards (v : Val) : Outcome Rewards := do
  let arr ← topArray 64 v
  let kind ← readKind arr 5
  let slot ← reqInt arr 1 "slot"
  let data ← nestedDataFrame arr 2 "data"
  return { kind, slot, data }

def unmarshalEntry (v : Val) : Outcome Entry := do
  let arr ← topArray 64 v
  let kind ← readKind arr 1
  let numHashes ← reqInt arr 1 "num_hashes"
  -- `h := hash.([]byte)` — unchecked assertion
  let hash ← match get arr 2 with
    | some (.bytes h) => Outcome.ok h
    | some _ => .panic "interface conversion: interface {} is not []uint8"
    | none => .err "expected hash to be present"
  let transactions ← reqLinks arr 3 "transactions"
  return { kind, numHashes, hash, transactions }

def unmarshalTransaction (v : Val) : Outcome Transaction := do
  let arr ← topArray 64 v
  let kind ← readKind arr 0
  let data ← nestedDataFrame arr 1 "data"
  let metadata ← nestedDataFrame arr 2 "metadata"
  let slot ← reqInt arr 3 "slot"
  let index ← optInt arr 4
  return { kind, data, metadata, slot, index }

/-- the (redundant) kind check of `_Decode*Fast` -/
def checkKind (k : Kind) (got : Int) : Outcome Unit :=
  if got ≠ k.num then .err s!"expected kind {k.num}, got {got}" else .ok ()

/-- `iplddecoders._Decode<Kind>Fast` (= `Decode<Kind>`) at the data-model level -/
def decode (k : Kind) (v : Val) : Outcome Node :=
  match k with
  | .transaction => do let x ← unmarshalTransaction v; checkKind k x.kind; return .transaction x
  | .entry => do let x ← unmarshalEntry v; checkKind k x.kind; return .entry x
  | .block => do let x ← unmarshalBlock v; checkKind k x.kind; return .block x
  | .subset => do let x ← unmarshalSubset v; checkKind k x.kind; return .subset x
  | .epoch => do let x ← unmarshalEpoch v; checkKind k x.kind; return .epoch x
  | .rewards => do let x ← unmarshalRewards v; checkKind k x.kind; return .rewards x
  | .dataFrame => do let x ← unmarshalDataFrame v; checkKind k x.kind; return .dataFrame x

/-- resource limits of the byte parser in front of the fast decoders.  cbor.go as pinned calls `cbor.NewDecoder`
    with fxamacker's defaults: at most 131072 array elements, 131072 map pairs, 32 nesting levels.  The proposed
    repair (fixes/C11-1.patch) raises the element limits to fxamacker's maximum 2147483647; this is the repaired value. -/
def maxArrayElements : Nat := 2147483647
def maxMapPairs : Nat := 2147483647
def maxNestedLevels : Nat := 32

def parserAccepts (s : Cbor.Stats) : Bool :=
  s.maxArr ≤ maxArrayElements ∧ s.maxMap ≤ maxMapPairs ∧ s.depth ≤ maxNestedLevels

/-- the hand-written path from the tree the byte parser would deliver: the parser's limits first, then `decode` -/
def decodeLimited (k : Kind) (v : Val) : Outcome Node :=
  if parserAccepts (Cbor.stats 64 v) then decode k v else .err "cbor: exceeded max number of elements / nested levels"

end Fast

/-! ## observations (exported plain fields + the accessors of methods.go) -/

/-- `Has*/Get*` of a `**int`: `(int, ok)` -/
def obsOptInt : OptN Int → Option Int
  | some (some v) => some v
  | _ => none

/-- `GetHash` / `GetBlockHeight`: `(uint64(**p), ok)` -/
def obsOptU64 : OptN Int → Option Nat
  | some (some v) => some (castU64 v)
  | _ => none

/-- `GetNext`: `(list, ok)` with ok false when any of the two pointers or the slice is nil -/
def obsNext : OptN (List Cid) → Option (List Cid)
  | some (some (c :: cs)) => some (c :: cs)
  | _ => none

structure DataFrameObs where
  kind : Int
  hash : Option Nat          -- HasHash / GetHash
  index : Option Int         -- HasIndex / GetIndex
  total : Option Int         -- HasTotal / GetTotal
  data : Bytes               -- Bytes()
  hasNext : Bool             -- HasNext
  next : Option (List Cid)   -- GetNext
  deriving Repr, DecidableEq

def obsDataFrame (d : DataFrame) : DataFrameObs :=
  { kind := d.kind, hash := obsOptU64 d.hash, index := obsOptInt d.index, total := obsOptInt d.total,
    data := d.data, hasNext := (obsNext d.next).isSome, next := obsNext d.next }

inductive Obs where
  | transaction (kind : Int) (data metadata : DataFrameObs) (slot : Int) (index : Option Int)
  | entry (kind numHashes : Int) (hash : Bytes) (transactions : List Cid)
  | block (kind slot : Int) (shredding : List Shredding) (entries : List Cid)
      (parentSlot blocktime : Int) (blockHeight : Option Nat) (rewards : Cid)
  | subset (kind first last : Int) (blocks : List Cid)
  | epoch (kind epoch : Int) (subsets : List Cid)
  | rewards (kind slot : Int) (data : DataFrameObs)
  | dataFrame (d : DataFrameObs)
  deriving Repr, DecidableEq

def obs : Node → Obs
  | .transaction x => .transaction x.kind (obsDataFrame x.data) (obsDataFrame x.metadata) x.slot (obsOptInt x.index)
  | .entry x => .entry x.kind x.numHashes x.hash x.transactions
  | .block x => .block x.kind x.slot x.shredding x.entries x.smeta.parentSlot x.smeta.blocktime
      (obsOptU64 x.smeta.blockHeight) x.rewards
  | .subset x => .subset x.kind x.first x.last x.blocks
  | .epoch x => .epoch x.kind x.epoch x.subsets
  | .rewards x => .rewards x.kind x.slot (obsDataFrame x.data)
  | .dataFrame x => .dataFrame (obsDataFrame x)

/-! ## well-formedness: the schema's own constraints on a typed value -/

def OptN.WFInt : OptN Int → Prop
  | some (some v) => I64 v
  | _ => True
instance (o : OptN Int) : Decidable (OptN.WFInt o) := by
  unfold OptN.WFInt; split <;> exact inferInstance

def CidsWF (l : List Cid) : Prop := ∀ c ∈ l, Cid.WF c
instance (l : List Cid) : Decidable (CidsWF l) := by unfold CidsWF; exact inferInstance

def OptN.WFLinks : OptN (List Cid) → Prop
  | some (some l) => CidsWF l
  | _ => True
instance (o : OptN (List Cid)) : Decidable (OptN.WFLinks o) := by
  unfold OptN.WFLinks; split <;> exact inferInstance

/-- a DataFrame value (top level or embedded): kind 6, ints fit `int`, links are CIDs -/
def DataFrame.WF (d : DataFrame) : Prop :=
  d.kind = 6 ∧ OptN.WFInt d.hash ∧ OptN.WFInt d.index ∧ OptN.WFInt d.total ∧ OptN.WFLinks d.next
instance (d : DataFrame) : Decidable d.WF := by unfold DataFrame.WF; exact inferInstance

def Shredding.WF (s : Shredding) : Prop := I64 s.entryEndIdx ∧ I64 s.shredEndIdx
instance (s : Shredding) : Decidable s.WF := by unfold Shredding.WF; exact inferInstance

def SlotMeta.WF (m : SlotMeta) : Prop := I64 m.parentSlot ∧ I64 m.blocktime ∧ OptN.WFInt m.blockHeight
instance (m : SlotMeta) : Decidable m.WF := by unfold SlotMeta.WF; exact inferInstance

def Node.WF : Node → Prop
  | .transaction x => x.kind = 0 ∧ x.data.WF ∧ x.metadata.WF ∧ I64 x.slot ∧ OptN.WFInt x.index
  | .entry x => x.kind = 1 ∧ I64 x.numHashes ∧ CidsWF x.transactions
  | .block x => x.kind = 2 ∧ I64 x.slot ∧ (∀ s ∈ x.shredding, s.WF) ∧ CidsWF x.entries ∧ x.smeta.WF ∧ Cid.WF x.rewards
  | .subset x => x.kind = 3 ∧ I64 x.first ∧ I64 x.last ∧ CidsWF x.blocks
  | .epoch x => x.kind = 4 ∧ I64 x.epoch ∧ CidsWF x.subsets
  | .rewards x => x.kind = 5 ∧ I64 x.slot ∧ x.data.WF
  | .dataFrame x => x.WF
instance (n : Node) : Decidable n.WF := by
  unfold Node.WF; split <;> exact inferInstance

/-- the longest list of a typed value (what the byte parser's element limit is compared with) -/
def DataFrame.maxList (d : DataFrame) : Nat :=
  match d.next with
  | some (some l) => l.length
  | _ => 0

def Node.maxList : Node → Nat
  | .transaction x => max x.data.maxList x.metadata.maxList
  | .entry x => x.transactions.length
  | .block x => max x.shredding.length x.entries.length
  | .subset x => x.blocks.length
  | .epoch x => x.subsets.length
  | .rewards x => x.data.maxList
  | .dataFrame x => x.maxList

end Ledger

namespace Varint

/-- Go `binary.PutUvarint` on an unbounded Nat (the model guards `v < 2^64` separately). -/
def put (v : Nat) : List UInt8 :=
  if h : v < 128 then [UInt8.ofNat v]
  else UInt8.ofNat (v % 128 + 128) :: put (v / 128)
termination_by v
decreasing_by omega

def width (v : Nat) : Nat := (put v).length

/-- Go `binary.Uvarint`: returns (value, bytesRead) or none on truncated / overlong input. -/
def get : List UInt8 → Nat → Option (Nat × Nat)
  | [], _ => none
  | b :: rest, fuel =>
    match fuel with
    | 0 => none
    | fuel+1 =>
      if b.toNat < 128 then some (b.toNat, 1)
      else match get rest fuel with
        | some (v, n) => some ((b.toNat - 128) + 128 * v, n + 1)
        | none => none

theorem put_length_pos (v : Nat) : 0 < (put v).length := by
  unfold put; split <;> simp

theorem get_put (v : Nat) (rest : List UInt8) (fuel : Nat) (hf : width v ≤ fuel) :
    get (put v ++ rest) fuel = some (v, width v) := by
  induction v using Nat.strongRecOn generalizing fuel with
  | _ v ih =>
    unfold width at hf ⊢
    rw [put] at hf ⊢
    by_cases h : v < 128
    · simp only [h, dite_true] at hf ⊢
      obtain ⟨f, rfl⟩ : ∃ f, fuel = f + 1 := ⟨fuel - 1, by simp at hf; omega⟩
      have : (UInt8.ofNat v).toNat = v := by
        simp [UInt8.toNat_ofNat']; omega
      simp [get, this, h]
    · simp only [h, dite_false] at hf ⊢
      obtain ⟨f, rfl⟩ : ∃ f, fuel = f + 1 := ⟨fuel - 1, by simp at hf; omega⟩
      have hb : (UInt8.ofNat (v % 128 + 128)).toNat = v % 128 + 128 := by
        simp [UInt8.toNat_ofNat']; omega
      have hlen : (put (v/128)).length ≤ f := by simp at hf; omega
      have := ih (v/128) (by omega) f (by unfold width; exact hlen)
      simp only [List.cons_append, get, hb]
      have hnl : ¬ (v % 128 + 128 < 128) := by omega
      simp only [hnl, if_false, this]
      unfold width
      simp
      omega

/-- width as a threshold function -/
theorem width_lt128 {v : Nat} (h : v < 128) : width v = 1 := by
  unfold width; rw [put]; simp [h]

theorem width_ge128 {v : Nat} (h : ¬ v < 128) : width v = width (v / 128) + 1 := by
  unfold width; conv => lhs; rw [put]
  simp [h]

theorem width_mono {a b : Nat} (h : a ≤ b) : width a ≤ width b := by
  induction b using Nat.strongRecOn generalizing a with
  | _ b ih =>
    by_cases hb : b < 128
    · have ha : a < 128 := by omega
      rw [width_lt128 ha, width_lt128 hb]; exact Nat.le_refl 1
    · rw [width_ge128 hb]
      by_cases ha : a < 128
      · rw [width_lt128 ha]; omega
      · rw [width_ge128 ha]
        have := ih (b/128) (by omega) (a := a/128) (Nat.div_le_div_right h)
        omega

theorem width_two {v : Nat} (h1 : 128 ≤ v) (h2 : v < 16384) : width v = 2 := by
  rw [width_ge128 (by omega), width_lt128 (by omega)]

theorem width_three {v : Nat} (h1 : 16384 ≤ v) (h2 : v < 2097152) : width v = 3 := by
  rw [width_ge128 (by omega), width_two (by omega) (by omega)]

/-- the linked-log reader derives the prefix width from the *total* record size; payload lengths
    just below a power of 128 are exactly where that is wrong (first members: 127, 16382, 16383). -/
theorem reader_width_wrong_127 : width (127 + width 127) ≠ width 127 := by
  rw [width_lt128 (by omega : 127 < 128), width_two (by omega) (by omega)]; omega
theorem reader_width_ok_126 : width (126 + width 126) = width 126 := by
  rw [width_lt128 (by omega : 126 < 128), width_lt128 (by omega)]
theorem reader_width_wrong_16382 : width (16382 + width 16382) ≠ width 16382 := by
  rw [width_two (by omega : 128 ≤ 16382) (by omega), width_three (by omega) (by omega)]; omega
theorem reader_width_wrong_16383 : width (16383 + width 16383) ≠ width 16383 := by
  rw [width_two (by omega : 128 ≤ 16383) (by omega), width_three (by omega) (by omega)]; omega
theorem reader_width_ok_16381 : width (16381 + width 16381) = width 16381 := by
  rw [width_two (by omega : 128 ≤ 16381) (by omega), width_two (by omega) (by omega)]

/-- general form for one- and two-byte prefixes: the reader is right iff the total stays in the same band -/
theorem reader_width_iff_1 {L : Nat} (h : L < 128) : width (L + width L) = width L ↔ L ≠ 127 := by
  rw [width_lt128 h]
  constructor
  · intro e hL; subst hL
    rw [width_two (by omega) (by omega)] at e; omega
  · intro hne; exact width_lt128 (by omega)

theorem reader_width_iff_2 {L : Nat} (h1 : 128 ≤ L) (h2 : L < 16384) :
    width (L + width L) = width L ↔ L < 16382 := by
  rw [width_two h1 h2]
  constructor
  · intro e
    by_cases hl : L < 16382
    · exact hl
    · rw [width_three (by omega) (by omega)] at e; omega
  · intro hl; exact width_two (by omega) (by omega)

end Varint

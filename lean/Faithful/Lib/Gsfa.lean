namespace Gsfa

abbrev Addr := Nat
abbrev Entry := Nat
abbrev Batch := Addr × List Entry

structure St where
  accum  : Addr → List Entry       -- oldest first
  chan   : List Batch              -- FIFO to the background goroutine
  parked : List Batch              -- tmpBuf of the background goroutine
  log    : List Batch              -- records in file order (each record = one batch of one address)

def ofKey (a : Addr) (l : List Batch) : List Entry := (l.filter (fun b => b.1 == a)).flatMap (·.2)

/-- everything the index knows about `a`, oldest first -/
def view (s : St) (a : Addr) : List Entry :=
  ofKey a s.log ++ ofKey a s.parked ++ ofKey a s.chan ++ s.accum a

def init : St := { accum := fun _ => [], chan := [], parked := [], log := [] }

inductive Ev where
  | push (a : Addr) (e : Entry)      -- one (address, entry) pair of a Push call
  | bgRecv                            -- background goroutine takes one batch from the channel
  | drain                             -- Close: background goroutine flushes what it parked (channel empty)
  | flushAccum (a : Addr)             -- Close: synchronous flush of one accumulated key (after drain)

variable (B P : Nat)

def step (s : St) : Ev → St
  | .push a e =>
    let cur := s.accum a ++ [e]
    if cur.length ≥ B then
      { s with chan := s.chan ++ [(a, cur)], accum := fun x => if x = a then [] else s.accum x }
    else
      { s with accum := fun x => if x = a then cur else s.accum x }
  | .bgRecv =>
    match s.chan with
    | [] => s
    | x :: c =>
      if s.parked.length = P ∨ s.parked.any (fun b => b.1 == x.1) then
        { s with chan := c, log := s.log ++ s.parked, parked := [x] }
      else
        { s with chan := c, parked := s.parked ++ [x] }
  | .drain =>
    match s.chan with
    | [] => { s with log := s.log ++ s.parked, parked := [] }
    | _ :: _ => s                      -- not enabled while the channel is non-empty
  | .flushAccum a =>
    if s.chan = [] ∧ s.parked = [] then
      { s with log := s.log ++ [(a, s.accum a)], accum := fun x => if x = a then [] else s.accum x }
    else s                             -- not enabled before the background goroutine is done

/-- the pushes of address `a` in an event history, oldest first -/
def hist (a : Addr) : List Ev → List Entry
  | [] => []
  | .push a' e :: evs => if a' = a then e :: hist a evs else hist a evs
  | _ :: evs => hist a evs

theorem ofKey_append (a : Addr) (l1 l2 : List Batch) : ofKey a (l1 ++ l2) = ofKey a l1 ++ ofKey a l2 := by
  simp [ofKey, List.filter_append, List.flatMap_append]

theorem ofKey_nil (a : Addr) : ofKey a [] = [] := rfl

theorem ofKey_single (a : Addr) (b : Batch) : ofKey a [b] = if b.1 = a then b.2 else [] := by
  unfold ofKey
  by_cases h : b.1 = a
  · simp [List.filter, h]
  · have hb : (b.1 == a) = false := by simp [h]
    simp [List.filter, hb, h]

/-- one step appends exactly the pushed entry to the view of its address and changes no other view -/
theorem view_step (s : St) (ev : Ev) (a : Addr) :
    view (step B P s ev) a = view s a ++ (match ev with | .push a' e => if a' = a then [e] else [] | _ => []) := by
  cases ev with
  | push a' e =>
    simp only [step]
    by_cases hfull : (s.accum a' ++ [e]).length ≥ B
    · simp only [hfull, if_true, view, ofKey_append, ofKey_single]
      by_cases h : a' = a
      · subst h; simp
      · have h' : ¬ a = a' := fun e => h e.symm
        simp [h, h']
    · simp only [hfull, if_false, view]
      by_cases h : a' = a
      · subst h; simp
      · have h' : ¬ a = a' := fun e => h e.symm
        simp [h, h']
  | bgRecv =>
    simp only [step]
    cases hc : s.chan with
    | nil => simp
    | cons x c =>
      simp only
      by_cases hcond : s.parked.length = P ∨ s.parked.any (fun b => b.1 == x.1) = true
      · simp only [hcond, if_true, view, hc]
        have : ofKey a (x :: c) = ofKey a [x] ++ ofKey a c := by
          rw [← ofKey_append]; rfl
        rw [this, ofKey_append]
        simp [List.append_assoc]
      · simp only [hcond, if_false, view, hc]
        have : ofKey a (x :: c) = ofKey a [x] ++ ofKey a c := by
          rw [← ofKey_append]; rfl
        rw [this, ofKey_append]
        simp [List.append_assoc]
  | drain =>
    simp only [step]
    cases hc : s.chan with
    | nil => simp [view, hc, ofKey_append, ofKey_nil]
    | cons x c => simp
  | flushAccum a' =>
    simp only [step]
    by_cases hen : s.chan = [] ∧ s.parked = []
    · simp only [hen, and_self, if_true, view, ofKey_append, ofKey_single, ofKey_nil]
      by_cases h : a' = a
      · subst h; simp
      · have h' : ¬ a = a' := fun e => h e.symm
        simp [h, h']
    · simp [hen]

/-- for every interleaving of pushes with background-goroutine and Close events (a schedule is just
    the event list), the view of each address is its push history — nothing lost, nothing reordered -/
theorem view_run (evs : List Ev) (s : St) (a : Addr) :
    view (evs.foldl (step B P) s) a = view s a ++ hist a evs := by
  induction evs generalizing s with
  | nil => simp [hist]
  | cons ev evs ih =>
    simp only [List.foldl_cons]
    rw [ih, view_step]
    cases ev with
    | push a' e =>
      by_cases h : a' = a
      · simp [hist, h]
      · simp [hist, h]
    | bgRecv => simp [hist]
    | drain => simp [hist]
    | flushAccum _ => simp [hist]

/-- once Close has finished (channel, parked and accum all empty) the log alone holds the history -/
theorem closed_log (evs : List Ev) (a : Addr)
    (hc : (evs.foldl (step B P) init).chan = []) (hp : (evs.foldl (step B P) init).parked = [])
    (ha : (evs.foldl (step B P) init).accum a = []) :
    ofKey a (evs.foldl (step B P) init).log = hist a evs := by
  have := view_run B P evs init a
  simp only [view, hc, hp, ha, ofKey_nil, List.append_nil] at this
  simpa [init, ofKey_nil] using this

end Gsfa

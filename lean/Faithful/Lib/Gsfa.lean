import Faithful.Lib.GsfaMap
/-!
# gsfa writer (C06): the state machine of `gsfa/gsfa-write.go` (repaired behaviour, see /verif/fixes/C06-1.patch)

State `(accum, popRank, chan, parked, log)`; events: the client's `Push` (a preamble `begin slot` that may run
the periodic flush, then one `push a e` per de-duplicated sorted address) and `bgRecv` (the background
goroutine `fullBufferWriter` takes one batch from the channel).  `Close` is a function (`close`): once it holds
`a.mu` only the background goroutine runs, it drains the channel, writes what it parked, and then the
accumulator is flushed.

A schedule is the event list itself: **every** interleaving of `bgRecv` with the client events is an event
list, so a theorem for all event lists is a theorem for all timings of the goroutine.  The channel is unbounded
in the model: a full Go channel only delays the sender until a `bgRecv` has happened, which is one of the
interleavings (the driver respects the capacity when it picks one).

All thresholds are parameters (`Params`); nothing below assumes a value for them.
-/
namespace Gsfa

/-- `linkedlog.OffsetAndSizeAndSlot` -/
structure Entry where
  off : UInt64
  size : UInt64
  slot : UInt64
  flags : UInt8
deriving DecidableEq, Repr, Inhabited

abbrev Batch := Addr × List Entry

structure Params where
  /-- `itemsPerBatch` (1000) -/
  B : Nat
  /-- `howManyBuffersToFlushConcurrently` (256) -/
  P : Nat
  /-- periodic flush when `accum.Len() > K` (100 000) -/
  K : Nat
  /-- … and `slot % M == 0` (500) -/
  M : Nat
  /-- … of the keys with fewer than `T` values (100) that are not in the popularity list -/
  T : Nat
  /-- `rankListSize` of `popRank` (10 000) -/
  R : Nat

abbrev AccMap := FMap (List Entry) []
abbrev RankMap := FMap Nat 0

structure St (A : AccMap) (Rk : RankMap) where
  /-- per address: the entries not yet handed over, oldest first -/
  accum : A.M
  /-- `popRank.set`: how many full batches an address has produced (0 = absent) -/
  rank : Rk.M
  /-- `fullBufferWriterChan`, FIFO -/
  chan : List Batch
  /-- `tmpBuf` of the background goroutine, in arrival order -/
  parked : List Batch
  /-- the batches written to the linked log so far, NEWEST FIRST (`log` is the file order) -/
  rlog : List Batch

variable {A : AccMap} {Rk : RankMap}

def St.log (s : St A Rk) : List Batch := s.rlog.reverse

def init : St A Rk := { accum := A.empty, rank := Rk.empty, chan := [], parked := [], rlog := [] }

inductive Ev where
  /-- start of a `Push(slot, …)` call: runs the periodic flush when its condition holds -/
  | begin (slot : Nat)
  /-- one (address, entry) pair of a `Push` call -/
  | push (a : Addr) (e : Entry)
  /-- the background goroutine receives one batch from the channel -/
  | bgRecv
deriving DecidableEq, Repr

def Ev.isClient : Ev → Bool
  | .bgRecv => false
  | _ => true

/-! ## popRank -/

/-- `purge`: the distinct values present, ascending (`Values()`, `sort.Ints`, `slices.Compact`) -/
def rankVals (rk : Rk.M) : List Nat := sortDedup (((Rk.keys rk).map (Rk.get rk)).filter (· ≠ 0))

/-- `rollingRankOfTopPerformers.purge`: when more than `R` distinct values are present, every key holding one
    of the lowest values is removed -/
def purge (R : Nat) (rk : Rk.M) : Rk.M :=
  let vals := rankVals rk
  if vals.length ≤ R then rk
  else
    let low := vals.take (vals.length - R)
    (Rk.keys rk).foldl (fun m k => if Rk.get rk k ∈ low then Rk.set m k 0 else m) rk

theorem purge_noop {R : Nat} {rk : Rk.M} (h : (rankVals rk).length ≤ R) : purge R rk = rk := by
  simp [purge, h]

/-! ## steps -/

/-- body of the periodic loop for one key -/
def flushSmall (p : Params) (s : St A Rk) (a : Addr) : St A Rk :=
  let v := A.get s.accum a
  if v.length < p.T ∧ 0 < v.length ∧ Rk.get s.rank a = 0 then
    { s with rlog := (a, v) :: s.rlog, accum := A.set s.accum a [] }
  else s

/-- the periodic partial flush inside `Push` -/
def periodic (p : Params) (s : St A Rk) : St A Rk :=
  (A.keys s.accum).foldl (flushSmall p) { s with rank := purge p.R s.rank }

def step (p : Params) (s : St A Rk) : Ev → St A Rk
  | .begin slot => if slot % p.M = 0 ∧ A.size s.accum > p.K then periodic p s else s
  | .push a e =>
    let cur := A.get s.accum a
    if cur = [] then
      -- first entry of the key: stored without looking at the batch size
      { s with accum := A.set s.accum a [e] }
    else
      let cur' := cur ++ [e]
      if cur'.length ≥ p.B then
        { s with rank := Rk.set s.rank a (Rk.get s.rank a + 1), chan := s.chan ++ [(a, cur')],
                 accum := A.set s.accum a [] }
      else
        { s with accum := A.set s.accum a cur' }
  | .bgRecv =>
    match s.chan with
    | [] => s
    | x :: c =>
      if s.parked.length = p.P ∨ s.parked.any (fun b => b.1 == x.1) then
        { s with chan := c, rlog := s.parked.reverse ++ s.rlog, parked := [x] }
      else
        { s with chan := c, parked := s.parked ++ [x] }

def run (p : Params) (evs : List Ev) (s : St A Rk) : St A Rk := evs.foldl (step p) s

/-- `flushAccum` body for one key -/
def flushKey (s : St A Rk) (a : Addr) : St A Rk :=
  { s with rlog := (a, A.get s.accum a) :: s.rlog, accum := A.set s.accum a [] }

/-- `Close` (repaired order): the goroutine empties the channel, writes what it parked and exits; only then
    the accumulator is flushed, key by key in ascending order -/
def close (p : Params) (s : St A Rk) : St A Rk :=
  let s1 := run p (List.replicate s.chan.length Ev.bgRecv) s
  let s2 := { s1 with rlog := s1.parked.reverse ++ s1.rlog, parked := [] }
  (A.keys s2.accum).foldl flushKey s2

/-! ## views -/

def ofKey (a : Addr) (l : List Batch) : List Entry := (l.filter (fun b => b.1 == a)).flatMap (·.2)

/-- everything the index knows about `a`, oldest first -/
def view (s : St A Rk) (a : Addr) : List Entry :=
  ofKey a s.log ++ ofKey a s.parked ++ ofKey a s.chan ++ A.get s.accum a

/-- the pushes of address `a` in an event history, oldest first -/
def hist (a : Addr) : List Ev → List Entry
  | [] => []
  | .push a' e :: evs => if a' = a then e :: hist a evs else hist a evs
  | _ :: evs => hist a evs

theorem ofKey_append (a : Addr) (l1 l2 : List Batch) : ofKey a (l1 ++ l2) = ofKey a l1 ++ ofKey a l2 := by
  simp [ofKey, List.filter_append, List.flatMap_append]

@[simp] theorem ofKey_nil (a : Addr) : ofKey a [] = [] := rfl

theorem ofKey_single (a : Addr) (b : Batch) : ofKey a [b] = if b.1 = a then b.2 else [] := by
  unfold ofKey
  by_cases h : b.1 = a
  · simp [List.filter, h]
  · have hb : (b.1 == a) = false := by simp [h]
    simp [List.filter, hb, h]

theorem ofKey_cons (a : Addr) (b : Batch) (l : List Batch) :
    ofKey a (b :: l) = (if b.1 = a then b.2 else []) ++ ofKey a l := by
  have : b :: l = [b] ++ l := rfl
  rw [this, ofKey_append, ofKey_single]

theorem ofKey_eq_nil_of_forall {a : Addr} {l : List Batch} (h : ∀ b ∈ l, b.1 ≠ a) : ofKey a l = [] := by
  induction l with
  | nil => rfl
  | cons b l ih =>
    rw [ofKey_cons, ih (fun b hb => h b (List.mem_cons_of_mem _ hb))]
    simp [h b (List.mem_cons_self ..)]

/-- the safety invariant behind the periodic flush: a key with a batch in flight is in the popularity list -/
def Inv (s : St A Rk) : Prop := ∀ b, b ∈ s.parked ∨ b ∈ s.chan → Rk.get s.rank b.1 ≠ 0

theorem inv_init : Inv (init : St A Rk) := by
  intro b h; simp [init] at h

theorem log_cons (s : St A Rk) (b : Batch) : St.log { s with rlog := b :: s.rlog } = s.log ++ [b] := by
  simp [St.log]

/-! ### the periodic flush -/

theorem flushSmall_frame (p : Params) (s : St A Rk) (a : Addr) :
    (flushSmall p s a).rank = s.rank ∧ (flushSmall p s a).parked = s.parked ∧ (flushSmall p s a).chan = s.chan := by
  by_cases hc : (A.get s.accum a).length < p.T ∧ 0 < (A.get s.accum a).length ∧ Rk.get s.rank a = 0 <;>
    simp [flushSmall, hc]

theorem flushSmall_view (p : Params) (s : St A Rk) (hi : Inv s) (k a : Addr) :
    view (flushSmall p s k) a = view s a := by
  unfold flushSmall
  by_cases hc : (A.get s.accum k).length < p.T ∧ 0 < (A.get s.accum k).length ∧ Rk.get s.rank k = 0
  · simp only [hc, and_self, if_true]
    have hp : ofKey k s.parked = [] :=
      ofKey_eq_nil_of_forall (fun b hb e => hi b (Or.inl hb) (e ▸ hc.2.2))
    have hch : ofKey k s.chan = [] :=
      ofKey_eq_nil_of_forall (fun b hb e => hi b (Or.inr hb) (e ▸ hc.2.2))
    simp only [view, St.log, List.reverse_cons, ofKey_append, ofKey_single, A.get_set]
    by_cases h : k = a
    · subst h; simp [hp, hch]
    · have h' : ¬ a = k := fun e => h e.symm
      simp [h, h']
  · simp [hc]

theorem foldl_flushSmall (p : Params) (l : List Addr) (s : St A Rk) (hi : Inv s) :
    (∀ a, view (l.foldl (flushSmall p) s) a = view s a) ∧
    (l.foldl (flushSmall p) s).rank = s.rank ∧ (l.foldl (flushSmall p) s).parked = s.parked ∧
    (l.foldl (flushSmall p) s).chan = s.chan := by
  induction l generalizing s with
  | nil => simp
  | cons k l ih =>
    simp only [List.foldl_cons]
    obtain ⟨fr, fp, fc⟩ := flushSmall_frame p s k
    have hi' : Inv (flushSmall p s k) := by
      intro b hb; rw [fr]; rw [fp, fc] at hb; exact hi b hb
    obtain ⟨h1, h2, h3, h4⟩ := ih (flushSmall p s k) hi'
    refine ⟨fun a => ?_, ?_, ?_, ?_⟩
    · rw [h1, flushSmall_view p s hi]
    · rw [h2, fr]
    · rw [h3, fp]
    · rw [h4, fc]

/-! ### one step -/

/-- what the event adds to the history of `a` -/
def pushed (a : Addr) : Ev → List Entry
  | .push a' e => if a' = a then [e] else []
  | _ => []

/-- the side condition of a step: when a `Push` starts, `purge` finds at most `R` distinct values -/
def evOk (p : Params) (s : St A Rk) : Ev → Prop
  | .begin _ => (rankVals s.rank).length ≤ p.R
  | _ => True

/-- one event appends exactly the pushed entry to the view of its address, changes no other view, and keeps
    the invariant -/
theorem view_step (p : Params) (s : St A Rk) (hi : Inv s) (ev : Ev) (hok : evOk p s ev) :
    (∀ a, view (step p s ev) a = view s a ++ pushed a ev) ∧ Inv (step p s ev) := by
  cases ev with
  | begin slot =>
    simp only [step, pushed, List.append_nil]
    by_cases hc : slot % p.M = 0 ∧ A.size s.accum > p.K
    · simp only [hc, and_self, if_true, periodic]
      have hpu : purge p.R s.rank = s.rank := purge_noop hok
      rw [hpu]
      obtain ⟨h1, h2, h3, h4⟩ := foldl_flushSmall p (A.keys s.accum) s hi
      refine ⟨fun a => ?_, ?_⟩
      · exact h1 a
      · intro b hb; rw [h2]; rw [h3, h4] at hb; exact hi b hb
    · simp only [hc, if_false]
      exact ⟨fun _ => trivial, hi⟩
  | push a' e =>
    simp only [step, pushed]
    by_cases hnil : A.get s.accum a' = []
    · simp only [hnil, if_true]
      refine ⟨fun a => ?_, hi⟩
      simp only [view, St.log, A.get_set]
      by_cases h : a' = a
      · subst h; simp [hnil]
      · have h' : ¬ a = a' := fun e => h e.symm
        simp [h, h']
    · simp only [hnil, if_false]
      by_cases hfull : (A.get s.accum a' ++ [e]).length ≥ p.B
      · simp only [hfull, if_true]
        refine ⟨fun a => ?_, ?_⟩
        · simp only [view, St.log, A.get_set, ofKey_append, ofKey_single]
          by_cases h : a' = a
          · subst h; simp
          · have h' : ¬ a = a' := fun e => h e.symm
            simp [h, h']
        · intro b hb
          simp only [Rk.get_set]
          by_cases hb1 : b.1 = a'
          · simp [hb1]
          · simp only [hb1, if_false]
            rcases hb with hb | hb
            · exact hi b (Or.inl hb)
            · rcases List.mem_append.mp hb with hb | hb
              · exact hi b (Or.inr hb)
              · simp at hb; subst hb; exact absurd rfl hb1
      · simp only [hfull, if_false]
        refine ⟨fun a => ?_, hi⟩
        simp only [view, St.log, A.get_set]
        by_cases h : a' = a
        · subst h; simp
        · have h' : ¬ a = a' := fun e => h e.symm
          simp [h, h']
  | bgRecv =>
    simp only [step, pushed, List.append_nil]
    cases hc : s.chan with
    | nil => exact ⟨fun _ => rfl, hi⟩
    | cons x c =>
      simp only
      by_cases hcond : s.parked.length = p.P ∨ s.parked.any (fun b => b.1 == x.1) = true
      · simp only [hcond, if_true]
        refine ⟨fun a => ?_, ?_⟩
        · simp only [view, St.log, hc, List.reverse_append, List.reverse_reverse, ofKey_append]
          rw [ofKey_cons a x c, ofKey_single]
          simp [List.append_assoc]
        · intro b hb
          rcases hb with hb | hb
          · simp at hb; subst hb; exact hi _ (Or.inr (by rw [hc]; exact List.mem_cons_self ..))
          · exact hi b (Or.inr (by rw [hc]; exact List.mem_cons_of_mem _ hb))
      · simp only [hcond, if_false]
        refine ⟨fun a => ?_, ?_⟩
        · simp only [view, St.log, hc, ofKey_append]
          rw [ofKey_cons a x c, ofKey_single]
          simp [List.append_assoc]
        · intro b hb
          rcases hb with hb | hb
          · rcases List.mem_append.mp hb with hb | hb
            · exact hi b (Or.inl hb)
            · simp at hb; subst hb; exact hi _ (Or.inr (by rw [hc]; exact List.mem_cons_self ..))
          · exact hi b (Or.inr (by rw [hc]; exact List.mem_cons_of_mem _ hb))

/-- the side condition along a whole run -/
def NoEvict (p : Params) : St A Rk → List Ev → Prop
  | _, [] => True
  | s, ev :: evs => evOk p s ev ∧ NoEvict p (step p s ev) evs

theorem hist_cons (a : Addr) (ev : Ev) (evs : List Ev) : hist a (ev :: evs) = pushed a ev ++ hist a evs := by
  cases ev with
  | push a' e => by_cases h : a' = a <;> simp [hist, pushed, h]
  | begin _ => simp [hist, pushed]
  | bgRecv => simp [hist, pushed]

/-- for every interleaving of pushes with background-goroutine events (a schedule is just the event list),
    the view of each address is its push history — nothing lost, nothing duplicated, nothing reordered -/
theorem view_run (p : Params) (evs : List Ev) (s : St A Rk) (hi : Inv s) (hne : NoEvict p s evs) :
    (∀ a, view (run p evs s) a = view s a ++ hist a evs) ∧ Inv (run p evs s) := by
  induction evs generalizing s with
  | nil => exact ⟨fun a => by simp [run, hist], hi⟩
  | cons ev evs ih =>
    obtain ⟨h1, h2⟩ := view_step p s hi ev hne.1
    obtain ⟨h3, h4⟩ := ih (step p s ev) h2 hne.2
    refine ⟨fun a => ?_, h4⟩
    have : run p (ev :: evs) s = run p evs (step p s ev) := rfl
    rw [this, h3, h1, hist_cons, List.append_assoc]

/-! ### Close -/

theorem noEvict_bg (p : Params) (n : Nat) (s : St A Rk) : NoEvict p s (List.replicate n Ev.bgRecv) := by
  induction n generalizing s with
  | zero => trivial
  | succ n ih => exact ⟨trivial, ih _⟩

theorem hist_bg (a : Addr) (n : Nat) : hist a (List.replicate n Ev.bgRecv) = [] := by
  induction n with
  | zero => rfl
  | succ n ih => simp [List.replicate_succ, hist, ih]

theorem chan_bgRecv (p : Params) (s : St A Rk) : (step p s .bgRecv).chan.length = s.chan.length - 1 := by
  simp only [step]
  cases hc : s.chan with
  | nil => simp [hc]
  | cons x c => simp only; split <;> simp

theorem chan_recvAll (p : Params) (n : Nat) (s : St A Rk) (h : s.chan.length ≤ n) :
    (run p (List.replicate n Ev.bgRecv) s).chan = [] := by
  induction n generalizing s with
  | zero => simpa [run] using h
  | succ n ih =>
    have : run p (List.replicate (n+1) Ev.bgRecv) s = run p (List.replicate n Ev.bgRecv) (step p s .bgRecv) := rfl
    rw [this]
    exact ih _ (by rw [chan_bgRecv]; omega)

theorem flushKey_view (s : St A Rk) (hp : s.parked = []) (hc : s.chan = []) (k a : Addr) :
    view (flushKey s k) a = view s a := by
  simp only [flushKey, view, St.log, List.reverse_cons, ofKey_append, ofKey_single, A.get_set, hp, hc, ofKey_nil]
  by_cases h : k = a
  · subst h; simp
  · have h' : ¬ a = k := fun e => h e.symm
    simp [h, h']

theorem foldl_flushKey (l : List Addr) (s : St A Rk) (hp : s.parked = []) (hc : s.chan = []) :
    (∀ a, view (l.foldl flushKey s) a = view s a) ∧ (l.foldl flushKey s).parked = [] ∧ (l.foldl flushKey s).chan = [] ∧
    (∀ a, A.get (l.foldl flushKey s).accum a = if a ∈ l then [] else A.get s.accum a) := by
  induction l generalizing s with
  | nil => simp [hp, hc]
  | cons k l ih =>
    simp only [List.foldl_cons]
    obtain ⟨h1, h2, h3, h4⟩ := ih (flushKey s k) (by simp [flushKey, hp]) (by simp [flushKey, hc])
    refine ⟨fun a => ?_, h2, h3, fun a => ?_⟩
    · rw [h1, flushKey_view s hp hc]
    · rw [h4]
      simp only [flushKey, A.get_set, List.mem_cons]
      by_cases hak : a = k
      · simp [hak]
      · by_cases hal : a ∈ l <;> simp [hak, hal]

/-- after `Close` the log alone holds each address's view, and nothing is left anywhere else -/
theorem close_log (p : Params) (s : St A Rk) (hi : Inv s) (a : Addr) :
    ofKey a (close p s).log = view s a := by
  unfold close
  obtain ⟨hv1, _⟩ := view_run p (List.replicate s.chan.length Ev.bgRecv) s hi (noEvict_bg p _ s)
  have hch := chan_recvAll p s.chan.length s (Nat.le_refl _)
  generalize run p (List.replicate s.chan.length Ev.bgRecv) s = s1 at hv1 hch
  simp only
  -- the drain
  have hv2 : ∀ a, view ({ s1 with rlog := s1.parked.reverse ++ s1.rlog, parked := [] } : St A Rk) a = view s1 a := by
    intro a
    simp [view, St.log, ofKey_append, List.append_assoc]
  generalize hs2 : ({ s1 with rlog := s1.parked.reverse ++ s1.rlog, parked := [] } : St A Rk) = s2 at hv2
  have hp2 : s2.parked = [] := by rw [← hs2]
  have hc2 : s2.chan = [] := by rw [← hs2]; exact hch
  have ha2 : s1.accum = s2.accum := by rw [← hs2]
  rw [ha2]
  obtain ⟨h1, h2, h3, h4⟩ := foldl_flushKey (A.keys s2.accum) s2 hp2 hc2
  have hacc : A.get ((A.keys s2.accum).foldl flushKey s2).accum a = [] := by
    rw [h4]
    by_cases hm : a ∈ A.keys s2.accum
    · simp [hm]
    · simp only [hm, if_false]
      apply Classical.byContradiction
      intro hne
      exact hm (A.keys_complete _ _ hne)
  have := h1 a
  simp only [view, h2, h3, hacc, ofKey_nil, List.append_nil] at this
  rw [this]
  have e1 := hv2 a
  have e2 := hv1 a
  rw [hist_bg, List.append_nil] at e2
  simp only [view] at e1 e2 ⊢
  rw [e1, e2]

/-- **L1**: for every event list (= every schedule) the closed log holds, per address, exactly its pushes in
    push order -/
theorem closed_log (p : Params) (evs : List Ev) (hne : NoEvict p (init : St A Rk) evs) (a : Addr) :
    ofKey a (close p (run p evs (init : St A Rk))).log = hist a evs := by
  obtain ⟨hv, hi⟩ := view_run p evs (init : St A Rk) inv_init hne
  rw [close_log p _ hi, hv]
  simp [view, init, St.log, A.get_empty]

end Gsfa

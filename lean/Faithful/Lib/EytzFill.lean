import Faithful.Lib.EytzBasic
namespace Eytz

variable {α : Type} [Inhabited α]

/-- Go `eytzinger(in, out, i, k)`; out-of-range writes cannot happen for k ≤ n = out.size. -/
def fill (inp : Array α) (n : Nat) (k : Nat) (i : Nat) (out : Array α) : Nat × Array α :=
  if h : 0 < k ∧ k ≤ n then
    fill inp n (2*k+1) ((fill inp n (2*k) i out).1 + 1)
      ((fill inp n (2*k) i out).2.setIfInBounds (k-1) (inp.getD (fill inp n (2*k) i out).1 default))
  else (i, out)
termination_by n + 1 - k
decreasing_by all_goals omega

/-- in-order rank (as an index into `inp`) of heap node `m` inside the subtree `k` started at `i` -/
def rank (n k i m : Nat) : Nat :=
  if h : 0 < k ∧ k ≤ n then
    if m = k then i + size n (2*k)
    else if inSubB (2*k) m then rank n (2*k) i m
    else rank n (2*k+1) (i + size n (2*k) + 1) m
  else 0
termination_by n + 1 - k
decreasing_by all_goals omega

theorem getD_setIfInBounds_eq (a : Array α) (j : Nat) (v d : α) (h : j < a.size) :
    (a.setIfInBounds j v).getD j d = v := by
  simp [Array.getD, h]

theorem getD_setIfInBounds_ne (a : Array α) (j l : Nat) (v d : α) (h : j ≠ l) :
    (a.setIfInBounds j v).getD l d = a.getD l d := by
  by_cases hl : l < a.size
  · simp [Array.getD, hl, Array.getElem_setIfInBounds, h]
  · simp [Array.getD, hl]

theorem fill_spec (inp : Array α) (n : Nat) (k i : Nat) (out : Array α) (hk : 0 < k) (hsz : out.size = n) :
    (fill inp n k i out).1 = i + size n k ∧
    (fill inp n k i out).2.size = n ∧
    ∀ m, 0 < m → m ≤ n →
      (fill inp n k i out).2.getD (m-1) default =
        if inSubB k m then inp.getD (rank n k i m) default else out.getD (m-1) default := by
  induction k, i, out using fill.induct (inp := inp) (n := n) with
  | case1 k i out h ih1 ih2 =>
    have hk2 : 0 < 2*k := by omega
    have hk3 : 0 < 2*k+1 := by omega
    obtain ⟨a1, b1, c1⟩ := ih1 hk2 hsz
    have hsz2 : ((fill inp n (2*k) i out).2.setIfInBounds (k-1) (inp.getD (fill inp n (2*k) i out).1 default)).size = n := by
      simp [b1]
    obtain ⟨a2, b2, c2⟩ := ih2 hk3 hsz2
    rw [fill]; simp only [h, and_self, dite_true]
    refine ⟨?_, b2, ?_⟩
    · rw [a2, a1]; conv => rhs; rw [size]
      simp [h]; omega
    · intro m hm hmn
      rw [c2 m hm hmn]
      by_cases hR : inSubB (2*k+1) m = true
      · -- right subtree
        have hkm : inSub k m := inSub_right hk hR
        have hne : m ≠ k := by have := inSub_ge hR; omega
        have hnl : ¬ inSubB (2*k) m = true := fun hL => inSub_disjoint hk hL hR
        simp only [hR, if_true]
        rw [show inSubB k m = true from hkm]; simp only [if_true]
        conv => rhs; rw [rank]
        simp [h, hne, hnl]
        rw [a1]
      · simp only [hR]
        by_cases hmk : m = k
        · subst hmk
          have hself : inSubB m m = true := inSub_self m
          simp only [hself, if_true]
          conv => rhs; rw [rank]
          simp only [h, and_self, dite_true, if_true]
          rw [getD_setIfInBounds_eq _ _ _ _ (by rw [b1]; omega), a1]
          simp
        · rw [getD_setIfInBounds_ne _ _ _ _ _ (by omega)]
          rw [c1 m hm hmn]
          by_cases hL : inSubB (2*k) m = true
          · have hkm : inSub k m := inSub_left hk hL
            simp only [hL, if_true]
            rw [show inSubB k m = true from hkm]; simp only [if_true]
            conv => rhs; rw [rank]
            simp [h, hmk, hL]
          · have hnk : ¬ inSubB k m = true := by
              intro hkm
              rcases inSub_cases hk hkm with e | e | e
              · exact hmk e
              · exact hL e
              · exact hR e
            simp [hL, hnk]
  | case2 k i out h =>
    rw [fill]; simp only [h, dite_false]
    refine ⟨?_, hsz, ?_⟩
    · rw [size]; simp [h]
    · intro m hm hmn
      have : ¬ inSubB k m = true := by
        intro hkm
        have := inSub_ge hkm
        omega
      simp [this]

end Eytz

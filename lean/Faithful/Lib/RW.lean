namespace RW

inductive Op where
  | rlock | runlock | lock | unlock
deriving DecidableEq, Repr

structure Th where
  prog    : List Op
  rdepth  : Nat      -- read locks held
  holdsW  : Bool
  waiting : Bool     -- has announced Lock() and is blocked in it
deriving DecidableEq, Repr

abbrev St := List Th

def noWriterOrWaiter (s : St) : Bool := s.all fun t => !t.holdsW && !t.waiting
def noHolder (s : St) : Bool := s.all fun t => t.rdepth == 0 && !t.holdsW

/-- what thread `t` (in state `s`) can do next; `none` = blocked or finished -/
def stepTh (s : St) (t : Th) : Option Th :=
  match t.prog with
  | [] => none
  | .rlock :: p => if noWriterOrWaiter s then some { t with prog := p, rdepth := t.rdepth + 1 } else none
  | .runlock :: p => some { t with prog := p, rdepth := t.rdepth - 1 }
  | .lock :: p =>
      if !t.waiting then some { t with waiting := true }          -- announce (always possible)
      else if noHolder s then some { t with prog := p, waiting := false, holdsW := true } else none
  | .unlock :: p => some { t with prog := p, holdsW := false }

def finished (s : St) : Bool := s.all fun t => t.prog.isEmpty
def canStep (s : St) : Bool := s.any fun t => (stepTh s t).isSome

/-- sequences of non-nested critical sections -/
def Pairs : List Op → Prop
  | [] => True
  | .rlock :: .runlock :: p => Pairs p
  | .lock :: .unlock :: p => Pairs p
  | _ => False

/-- per-thread invariant for non-nesting programs -/
def Good (t : Th) : Prop :=
  (t.rdepth = 0 ∧ t.holdsW = false ∧ t.waiting = false ∧ Pairs t.prog) ∨
  (t.rdepth = 0 ∧ t.holdsW = false ∧ t.waiting = true ∧ ∃ p, t.prog = .lock :: .unlock :: p ∧ Pairs p) ∨
  (t.rdepth = 1 ∧ t.holdsW = false ∧ t.waiting = false ∧ ∃ p, t.prog = .runlock :: p ∧ Pairs p) ∨
  (t.rdepth = 0 ∧ t.holdsW = true ∧ t.waiting = false ∧ ∃ p, t.prog = .unlock :: p ∧ Pairs p)

theorem good_step (s : St) (t t' : Th) (hg : Good t) (h : stepTh s t = some t') : Good t' := by
  unfold stepTh at h
  rcases hg with ⟨h1, h2, h3, h4⟩ | ⟨h1, h2, h3, p, hp, h4⟩ | ⟨h1, h2, h3, p, hp, h4⟩ | ⟨h1, h2, h3, p, hp, h4⟩
  · -- idle
    match hprog : t.prog with
    | [] => simp [hprog] at h
    | .rlock :: .runlock :: p =>
      rw [hprog] at h h4
      simp only at h
      split at h
      · cases h; right; right; left; simp [h1, h2, h3]; exact h4
      · cases h
    | .lock :: .unlock :: p =>
      rw [hprog] at h h4
      simp [h3] at h
      cases h; right; left; simp [h1, h2, hprog]; exact h4
    | .rlock :: [] => rw [hprog] at h4; simp [Pairs] at h4
    | .rlock :: .rlock :: _ => rw [hprog] at h4; simp [Pairs] at h4
    | .rlock :: .lock :: _ => rw [hprog] at h4; simp [Pairs] at h4
    | .rlock :: .unlock :: _ => rw [hprog] at h4; simp [Pairs] at h4
    | .lock :: [] => rw [hprog] at h4; simp [Pairs] at h4
    | .lock :: .rlock :: _ => rw [hprog] at h4; simp [Pairs] at h4
    | .lock :: .lock :: _ => rw [hprog] at h4; simp [Pairs] at h4
    | .lock :: .runlock :: _ => rw [hprog] at h4; simp [Pairs] at h4
    | .runlock :: _ => rw [hprog] at h4; simp [Pairs] at h4
    | .unlock :: _ => rw [hprog] at h4; simp [Pairs] at h4
  · -- waiting
    rw [hp] at h
    simp [h3] at h
    obtain ⟨_, rfl⟩ := h
    right; right; right; simp [h1]; exact h4
  · -- holds R
    rw [hp] at h
    simp at h
    cases h; left; simp [h1, h2, h3]; exact h4
  · -- holds W
    rw [hp] at h
    simp at h
    cases h; left; simp [h1, h3]; exact h4

/-- progress: with non-nesting programs some thread can always move unless all are done -/
theorem progress (s : St) (hg : ∀ t ∈ s, Good t) (hnf : finished s = false) : canStep s = true := by
  unfold canStep
  rw [List.any_eq_true]
  -- case 1: somebody holds something
  by_cases hH : noHolder s = true
  · -- nobody holds
    by_cases hW : ∃ t ∈ s, t.waiting = true
    · obtain ⟨t, ht, hw⟩ := hW
      refine ⟨t, ht, ?_⟩
      rcases hg t ht with ⟨_, _, h3, _⟩ | ⟨_, _, _, p, hp, _⟩ | ⟨_, _, h3, _⟩ | ⟨_, _, h3, _⟩
      · simp [hw] at h3
      · simp [stepTh, hp, hw, hH]
      · simp [hw] at h3
      · simp [hw] at h3
    · -- nobody waits, nobody holds
      have hnw : noWriterOrWaiter s = true := by
        unfold noWriterOrWaiter
        rw [List.all_eq_true]
        intro t ht
        have h1 : t.waiting = false := by
          cases hh : t.waiting with
          | false => rfl
          | true => exact absurd ⟨t, ht, hh⟩ hW
        have h2 : t.holdsW = false := by
          unfold noHolder at hH
          rw [List.all_eq_true] at hH
          have := hH t ht
          simp at this
          exact this.2
        simp [h1, h2]
      unfold finished at hnf
      have : ∃ t ∈ s, t.prog.isEmpty = false := by
        by_cases hx : ∃ t ∈ s, t.prog.isEmpty = false
        · exact hx
        · have : s.all (fun t => t.prog.isEmpty) = true := by
            rw [List.all_eq_true]; intro t ht
            cases hh : t.prog.isEmpty with
            | true => rfl
            | false => exact absurd ⟨t, ht, hh⟩ hx
          rw [this] at hnf; cases hnf
      obtain ⟨t, ht, hne⟩ := this
      refine ⟨t, ht, ?_⟩
      rcases hg t ht with ⟨_, _, h3, h4⟩ | ⟨_, _, h3, _⟩ | ⟨h1, _, _, _⟩ | ⟨_, h2, _, _⟩
      · match hprog : t.prog with
        | [] => simp [hprog] at hne
        | .rlock :: _ => simp [stepTh, hprog, hnw]
        | .lock :: _ => simp [stepTh, hprog, h3]
        | .runlock :: _ => simp [stepTh, hprog]
        | .unlock :: _ => simp [stepTh, hprog]
      · have : t.waiting = false := by
          cases hh : t.waiting with
          | false => rfl
          | true => exact absurd ⟨t, ht, hh⟩ hW
        simp [this] at h3
      · unfold noHolder at hH
        rw [List.all_eq_true] at hH
        have := hH t ht
        simp [h1] at this
      · unfold noHolder at hH
        rw [List.all_eq_true] at hH
        have := hH t ht
        simp [h2] at this
  · -- somebody holds: that thread's next op is a release, always enabled
    have : ∃ t ∈ s, ¬ (t.rdepth == 0 && !t.holdsW) = true := by
      unfold noHolder at hH
      rw [List.all_eq_true] at hH
      by_cases hx : ∃ t ∈ s, ¬ (t.rdepth == 0 && !t.holdsW) = true
      · exact hx
      · exfalso; apply hH; intro t ht
        by_cases hh : (t.rdepth == 0 && !t.holdsW) = true
        · exact hh
        · exact absurd ⟨t, ht, hh⟩ hx
    obtain ⟨t, ht, hhold⟩ := this
    refine ⟨t, ht, ?_⟩
    rcases hg t ht with ⟨h1, h2, _, _⟩ | ⟨h1, h2, _, _⟩ | ⟨_, _, _, p, hp, _⟩ | ⟨_, _, _, p, hp, _⟩
    · simp [h1, h2] at hhold
    · simp [h1, h2] at hhold
    · simp [stepTh, hp]
    · simp [stepTh, hp]

/-- the nested read lock of the pinned tree: a reachable stuck state (decidable witness) -/
def nestedStuck : St :=
  [ { prog := [.rlock, .runlock, .runlock], rdepth := 1, holdsW := false, waiting := false },   -- after first RLock
    { prog := [.lock, .unlock], rdepth := 0, holdsW := false, waiting := true } ]               -- writer announced

example : finished nestedStuck = false ∧ canStep nestedStuck = false := by decide

end RW

import Faithful.Generated.LoadChecks
import Faithful.Lib.Bytes

/-!
Model of `NewEpochFromConfig` (epoch.go) as far as the *identity* of the index files is concerned (property C10).

Every index file is abstracted to the identity it carries (`FileId`): its container format and the kind / epoch / root CID /
network recorded in its metadata.  The loader is **defined as the interpretation of the extracted check chain**
`Generated.loadChecks` (written by /verif/harness/extract/loadchecks.go from the source on every run): `run` executes the
steps in source order under their guards, `load = loadWith Generated.loadChecks`.

`loadWith_sound` is generic: for *any* chain that passes the decidable, purely syntactic-plus-abstract-interpretation test
`chainOK`, a successful load implies that every opened file has the expected kind, records the configured epoch, and that all
recorded root CIDs are equal (to the root the epoch serves, and to the configured Filecoin root in Filecoin mode).
`C10.generated_chain_ok : chainOK Generated.loadChecks = true := by decide` is then the obligation that breaks when a
comparison disappears from the source.
-/
namespace EpochLoad
open B Generated

/-! ### files, configuration -/

/-- what a file is, as far as identity goes -/
inductive FileId where
  /-- compactindexsized file with the four default metadata entries (indexes.getDefaultMetadata succeeds) -/
  | compact (kind : Bytes) (epoch : Nat) (root : Bytes) (network : Bytes)
  /-- deprecated compactindex36 file (magic `rdcecidx`): no metadata at all -/
  | compactLegacy
  /-- bucketteer v2 (sig-exists): indexmeta key/values, each possibly absent -/
  | bucketteer (epoch : Option Nat) (root : Option Bytes) (network : Option Bytes)
  /-- deprecated bucketteer v1: string map that is never looked at -/
  | bucketteerLegacy
  /-- gsfa manifest: version + indexmeta key/values -/
  | manifest (version : Nat) (epoch : Option Nat) (root : Option Bytes) (network : Option Bytes)
  /-- slot-to-blocktime index (magic, start, end, epoch — self-consistent) -/
  | blocktime (epoch : Nat)
  /-- anything no reader accepts: missing, truncated, other magic, metadata key missing from a compact index, … -/
  | unreadable
deriving DecidableEq, Repr

inductive Shape where
  | compact | compactLegacy | bucketteer | bucketteerLegacy | manifest | blocktime | unreadable
deriving DecidableEq, Repr

def FileId.shape : FileId → Shape
  | .compact .. => .compact
  | .compactLegacy => .compactLegacy
  | .bucketteer .. => .bucketteer
  | .bucketteerLegacy => .bucketteerLegacy
  | .manifest .. => .manifest
  | .blocktime .. => .blocktime
  | .unreadable => .unreadable

def FileId.kind? : FileId → Option Bytes
  | .compact k _ _ _ => some k
  | _ => none

def FileId.epoch? : FileId → Option Nat
  | .compact _ e _ _ => some e
  | .bucketteer e _ _ => e
  | .manifest _ e _ _ => e
  | .blocktime e => some e
  | _ => none

def FileId.root? : FileId → Option Bytes
  | .compact _ _ r _ => some r
  | .bucketteer _ r _ => r
  | .manifest _ _ r _ => r
  | _ => none

def FileId.network? : FileId → Option Bytes
  | .compact _ _ _ n => some n
  | .bucketteer _ _ n => n
  | .manifest _ _ _ n => n
  | _ => none

/-- `IsDeprecatedOldVersion()` of the slot-to-cid / sig-to-cid readers -/
def Shape.isLegacy : Shape → Bool
  | .compactLegacy => true
  | _ => false

def Shape.carriesKind : Shape → Bool
  | .compact => true
  | _ => false

def Shape.carriesEpoch : Shape → Bool
  | .compact | .bucketteer | .manifest | .blocktime => true
  | _ => false

def Shape.carriesRoot : Shape → Bool
  | .compact | .bucketteer | .manifest => true
  | _ => false

def allShapes : List Shape := [.compact, .compactLegacy, .bucketteer, .bucketteerLegacy, .manifest, .blocktime, .unreadable]
def allRoles : List LRole :=
  [.cidToOffsetAndSize, .slotToCid, .sigToCid, .sigExists, .gsfaManifest, .gsfaPubkeyIndex, .slotToBlocktime]

theorem mem_allShapes (s : Shape) : s ∈ allShapes := by cases s <;> simp [allShapes]
theorem mem_allRoles (r : LRole) : r ∈ allRoles := by cases r <;> simp [allRoles]

def acceptsShape : LReader → Shape → Bool
  | .compact, .compact => true
  | .compactOrLegacy, .compact => true
  | .compactOrLegacy, .compactLegacy => true
  | .bucketteer, .bucketteer => true
  | .bucketteerLegacy, .bucketteerLegacy => true
  | .manifest, .manifest => true
  | .blocktime, .blocktime => true
  | _, _ => false

/-- does the reader open the file? (container format; the manifest reader also insists on its one version) -/
def accepts (rd : LReader) (f : FileId) : Bool :=
  acceptsShape rd f.shape &&
  match f with
  | .manifest v _ _ _ => v == Generated.gsfaManifestVersion
  | _ => true

/-- the part of a configuration that selects which files are opened and how -/
structure Mode where
  /-- `config.IsFilecoinMode()`; CAR mode otherwise -/
  filecoin : Bool
  /-- `config.IsDeprecatedIndexes()` -/
  deprecated : Bool
  /-- `!config.Indexes.Gsfa.URI.IsZero()` -/
  gsfa : Bool
deriving DecidableEq, Repr

structure Config where
  mode : Mode
  epoch : Nat
  filecoinRoot : Bytes
deriving Repr

abbrev FileSet := LRole → FileId

/-- which configuration slots the loader opens at all (the specification side; independent of the extracted chain) -/
def opened (m : Mode) : LRole → Bool
  | .cidToOffsetAndSize => !m.filecoin && !m.deprecated
  | .gsfaManifest | .gsfaPubkeyIndex => m.gsfa
  | _ => true

/-- the kind every compact index must record (indexes.Kind_*), as bytes so that `decide` can compare them -/
def expectedKind : LRole → Bytes
  | .cidToOffsetAndSize => [99, 105, 100, 45, 116, 111, 45, 111, 102, 102, 115, 101, 116, 45, 97, 110, 100, 45, 115, 105, 122, 101]  -- "cid-to-offset-and-size"
  | .slotToCid => [115, 108, 111, 116, 45, 116, 111, 45, 99, 105, 100]  -- "slot-to-cid"
  | .sigToCid => [115, 105, 103, 45, 116, 111, 45, 99, 105, 100]  -- "sig-to-cid"
  | .gsfaPubkeyIndex => [112, 117, 98, 107, 101, 121, 45, 116, 111, 45, 111, 102, 102, 115, 101, 116, 45, 97, 110, 100, 45, 115, 105, 122, 101]  -- "pubkey-to-offset-and-size"
  | _ => []

/-! ### the loader = interpretation of the extracted chain -/

inductive Err where
  | reject (r : LRole)
  | filecoinRoot
  | unknown
deriving DecidableEq, Repr

abbrev Chain := List (List LGuard × LStep)

/-- `last` = the Go variable `lastRootCid` (`none` = cid.Undef) -/
def guardHolds (cfg : Config) (fs : FileSet) (last : Option Bytes) : LGuard → Bool
  | .carMode => !cfg.mode.filecoin
  | .filecoinMode => cfg.mode.filecoin
  | .deprecatedIndexes => cfg.mode.deprecated
  | .notDeprecatedIndexes => !cfg.mode.deprecated
  | .gsfaConfigured => cfg.mode.gsfa
  | .notLegacy r => !(fs r).shape.isLegacy
  | .lastRootSet => last.isSome
  -- only evaluated on a manifest NewManifest has accepted, i.e. of version `gsfaManifestVersion`
  | .manifestVersionGe2 => decide (Generated.gsfaManifestVersion ≥ 2)

def exec (cfg : Config) (fs : FileSet) (last : Option Bytes) : LStep → Except Err (Option Bytes)
  | .openAs r rd => if accepts rd (fs r) then .ok last else .error (.reject r)
  | .checkKind r k => if (fs r).kind? = some k then .ok last else .error (.reject r)
  | .checkNetworkValid r =>
    match (fs r).network? with
    | some n => if Generated.validNetworks.contains n then .ok last else .error (.reject r)
    | none => .error (.reject r)
  | .checkEpoch r => if (fs r).epoch? = some cfg.epoch then .ok last else .error (.reject r)
  | .checkRoot r =>
    match (fs r).root? with
    | some x => if last = some x then .ok last else .error (.reject r)
    | none => .error (.reject r)
  | .setLastRoot r =>
    match (fs r).root? with
    | some x => .ok (some x)
    | none => .error (.reject r)
  | .checkFilecoinRoot => if last = some cfg.filecoinRoot then .ok last else .error .filecoinRoot
  | .unknown _ => .error .unknown

def run (cfg : Config) (fs : FileSet) : Chain → Option Bytes → Except Err (Option Bytes)
  | [], last => .ok last
  | (g, st) :: rest, last =>
    if g.all (guardHolds cfg fs last) then
      match exec cfg fs last st with
      | .ok last' => run cfg fs rest last'
      | .error e => .error e
    else run cfg fs rest last

structure Loaded where
  epoch : Nat
  /-- `ep.rootCid` -/
  root : Option Bytes
deriving DecidableEq, Repr

def loadWith (chain : Chain) (cfg : Config) (fs : FileSet) : Except Err Loaded :=
  match run cfg fs chain none with
  | .ok last => .ok ⟨cfg.epoch, last⟩
  | .error e => .error e

/-- NewEpochFromConfig on the identities of the configured files -/
def load : Config → FileSet → Except Err Loaded := loadWith Generated.loadChecks

/-! ### static analysis of a chain (decidable) -/

def mentioned (chain : Chain) (r : LRole) : Bool := chain.any fun p => p.1.contains (.notLegacy r)

/-- roles whose old-format-ness some guard of the chain looks at -/
def legacyRoles (chain : Chain) : List LRole := allRoles.filter (mentioned chain)

structure Env where
  mode : Mode
  /-- which of `legacyRoles` hold an old-format file -/
  legacy : List LRole
deriving DecidableEq, Repr

def subsets {α} : List α → List (List α)
  | [] => [[]]
  | x :: xs => (subsets xs).map (x :: ·) ++ subsets xs

theorem filter_mem_subsets {α} (p : α → Bool) (l : List α) : l.filter p ∈ subsets l := by
  induction l with
  | nil => simp [subsets]
  | cons x xs ih =>
    simp only [List.filter, subsets]
    cases p x
    · exact List.mem_append_right _ ih
    · exact List.mem_append_left _ (List.mem_map.mpr ⟨_, ih, rfl⟩)

def allModes : List Mode :=
  [⟨false, false, false⟩, ⟨false, false, true⟩, ⟨false, true, false⟩, ⟨false, true, true⟩,
   ⟨true, false, false⟩, ⟨true, false, true⟩, ⟨true, true, false⟩, ⟨true, true, true⟩]

theorem mem_allModes (m : Mode) : m ∈ allModes := by
  rcases m with ⟨a, b, c⟩
  cases a <;> cases b <;> cases c <;> simp [allModes]

def allEnvs (chain : Chain) : List Env :=
  allModes.flatMap fun m => (subsets (legacyRoles chain)).map fun l => ⟨m, l⟩

def envOf (chain : Chain) (cfg : Config) (fs : FileSet) : Env :=
  ⟨cfg.mode, (legacyRoles chain).filter fun r => (fs r).shape.isLegacy⟩

theorem envOf_mem (chain : Chain) (cfg : Config) (fs : FileSet) : envOf chain cfg fs ∈ allEnvs chain := by
  unfold allEnvs envOf
  exact List.mem_flatMap.mpr ⟨cfg.mode, mem_allModes _, List.mem_map.mpr ⟨_, filter_mem_subsets _ _, rfl⟩⟩

/-- abstract state: is `lastRootCid` set; the roles whose recorded root is known to equal it; has it been compared with
    the configured Filecoin root since it last changed -/
structure A where
  set : Bool
  S : List LRole
  fc : Bool
deriving DecidableEq, Repr

def a0 : A := ⟨false, [], false⟩

def aguard (e : Env) (a : A) : LGuard → Bool
  | .carMode => !e.mode.filecoin
  | .filecoinMode => e.mode.filecoin
  | .deprecatedIndexes => e.mode.deprecated
  | .notDeprecatedIndexes => !e.mode.deprecated
  | .gsfaConfigured => e.mode.gsfa
  | .notLegacy r => !e.legacy.contains r
  | .lastRootSet => a.set
  | .manifestVersionGe2 => decide (Generated.gsfaManifestVersion ≥ 2)

def astep (e : Env) (a : A) (p : List LGuard × LStep) : A :=
  if p.1.all (aguard e a) then
    match p.2 with
    | .checkRoot r => { a with S := r :: a.S }
    | .setLastRoot r => if a.S.contains r then { a with set := true } else ⟨true, [r], false⟩
    | .checkFilecoinRoot => { a with fc := true }
    | _ => a
  else a

def arun (e : Env) : Chain → A → A
  | [], a => a
  | p :: rest, a => arun e rest (astep e a p)

/-- a guard whose value cannot change while the chain runs -/
def stateless : LGuard → Bool
  | .lastRootSet => false
  | _ => true

def staticGuards (e : Env) (g : List LGuard) : Bool := g.all fun x => stateless x && aguard e a0 x

/-- the chain contains `st` under guards that all hold in `e` -/
def hasStep (e : Env) (chain : Chain) (st : LStep) : Bool := chain.any fun p => p.2 == st && staticGuards e p.1

/-- a file of shape `sh` in role `r` is refused by a reader the chain hands it to in `e` -/
def rejectedByOpen (e : Env) (chain : Chain) (r : LRole) (sh : Shape) : Bool :=
  chain.any fun p =>
    match p.2 with
    | .openAs r' rd => r' == r && !acceptsShape rd sh && staticGuards e p.1
    | _ => false

def roleOK (chain : Chain) (e : Env) (aF : A) (r : LRole) (sh : Shape) : Bool :=
  (mentioned chain r && (sh.isLegacy != e.legacy.contains r)) ||     -- shape impossible in this environment
  rejectedByOpen e chain r sh ||
  ((!sh.carriesKind || hasStep e chain (.checkKind r (expectedKind r))) &&
   (!sh.carriesEpoch || hasStep e chain (.checkEpoch r)) &&
   (!sh.carriesRoot || aF.S.contains r))

def envOK (chain : Chain) (e : Env) : Bool :=
  let aF := arun e chain a0
  (allRoles.all fun r => !opened e.mode r || allShapes.all fun sh => roleOK chain e aF r sh) &&
  (!e.mode.filecoin || aF.fc)

def isUnknown : LStep → Bool
  | .unknown _ => true
  | _ => false

/-- the decidable test a chain has to pass -/
def chainOK (chain : Chain) : Bool :=
  (chain.all fun p => !isUnknown p.2) && (allEnvs chain).all (envOK chain)

/-! ### soundness of the static analysis -/

section sound
variable (cfg : Config) (fs : FileSet)

theorem accepts_shape (rd : LReader) (f : FileId) (h : accepts rd f = true) : acceptsShape rd f.shape = true := by
  unfold accepts at h
  simp only [Bool.and_eq_true] at h
  exact h.1

theorem legacy_exact (chain : Chain) (r : LRole) (hm : mentioned chain r = true) :
    (envOf chain cfg fs).legacy.contains r = (fs r).shape.isLegacy := by
  unfold envOf legacyRoles
  simp only [List.filter_filter]
  cases hl : (fs r).shape.isLegacy
  · apply Bool.eq_false_iff.mpr
    intro hc
    have := List.mem_filter.mp (List.contains_iff_mem.mp hc)
    simp [hl] at this
  · apply List.contains_iff_mem.mpr
    exact List.mem_filter.mpr ⟨mem_allRoles r, by simp [hl, hm]⟩

/-- guards of `chain` evaluate the same way abstractly and concretely -/
theorem guard_agree (chain : Chain) (a : A) (last : Option Bytes) (hset : a.set = last.isSome) (g : LGuard)
    (hm : ∀ r, g = .notLegacy r → mentioned chain r = true) :
    aguard (envOf chain cfg fs) a g = guardHolds cfg fs last g := by
  cases g with
  | notLegacy r => simp only [aguard, guardHolds]; rw [legacy_exact cfg fs chain r (hm r rfl)]
  | lastRootSet => simp only [aguard, guardHolds]; exact hset
  | _ => simp [aguard, guardHolds, envOf]

theorem guards_agree (chain : Chain) (a : A) (last : Option Bytes) (hset : a.set = last.isSome) (gs : List LGuard)
    (hm : ∀ r, LGuard.notLegacy r ∈ gs → mentioned chain r = true) :
    gs.all (aguard (envOf chain cfg fs) a) = gs.all (guardHolds cfg fs last) := by
  induction gs with
  | nil => rfl
  | cons g rest ih =>
    simp only [List.all_cons]
    rw [guard_agree cfg fs chain a last hset g (fun r hr => hm r (by simp [hr])),
      ih (fun r hr => hm r (List.mem_cons_of_mem _ hr))]

theorem mentioned_of_mem (chain : Chain) (p : List LGuard × LStep) (hp : p ∈ chain) (r : LRole)
    (hr : LGuard.notLegacy r ∈ p.1) : mentioned chain r = true := by
  unfold mentioned
  exact List.any_eq_true.mpr ⟨p, hp, List.contains_iff_mem.mpr hr⟩

theorem stateless_guard (e : Env) (a a' : A) (g : LGuard) (h : stateless g = true) : aguard e a g = aguard e a' g := by
  cases g <;> simp_all [aguard, stateless]

/-- static guards hold concretely in every state -/
theorem static_holds (chain : Chain) (p : List LGuard × LStep) (hp : p ∈ chain)
    (h : staticGuards (envOf chain cfg fs) p.1 = true) (last : Option Bytes) :
    p.1.all (guardHolds cfg fs last) = true := by
  unfold staticGuards at h
  rw [List.all_eq_true] at h ⊢
  intro g hg
  have hgs := h g hg
  simp only [Bool.and_eq_true] at hgs
  have hag := guard_agree cfg fs chain ⟨last.isSome, [], false⟩ last rfl g
    (fun r hr => mentioned_of_mem chain p hp r (hr ▸ hg))
  rw [← hag, ← stateless_guard _ a0 _ g hgs.1]
  exact hgs.2

/-- a step under static guards is executed, successfully, by every successful run -/
theorem run_mem (whole : Chain) (chain : Chain) (hsub : ∀ p ∈ chain, p ∈ whole) (last last' : Option Bytes)
    (h : run cfg fs chain last = .ok last') (p : List LGuard × LStep) (hp : p ∈ chain)
    (hg : staticGuards (envOf whole cfg fs) p.1 = true) :
    ∃ s1 s2, exec cfg fs s1 p.2 = .ok s2 := by
  induction chain generalizing last with
  | nil => cases hp
  | cons q rest ih =>
    obtain ⟨g, st⟩ := q
    simp only [run] at h
    rcases List.mem_cons.mp hp with rfl | hp'
    · have := static_holds cfg fs whole (g, st) (hsub _ (by simp)) hg last
      simp only at this
      rw [this] at h
      simp only [if_true] at h
      cases hex : exec cfg fs last st with
      | ok s2 => exact ⟨last, s2, hex⟩
      | error e => rw [hex] at h; cases h
    · have hsub' : ∀ p ∈ rest, p ∈ whole := fun p hp => hsub p (List.mem_cons_of_mem _ hp)
      split at h
      · cases hex : exec cfg fs last st with
        | ok s2 => rw [hex] at h; exact ih hsub' s2 h hp'
        | error e => rw [hex] at h; cases h
      · exact ih hsub' last h hp'

/-- what the abstract state claims about the concrete one -/
def Inv (a : A) (last : Option Bytes) : Prop :=
  a.set = last.isSome ∧ (∀ r ∈ a.S, ∃ x, (fs r).root? = some x ∧ last = some x) ∧
  (a.fc = true → last = some cfg.filecoinRoot)

theorem astep_sound (whole : Chain) (p : List LGuard × LStep) (hp : p ∈ whole) (a : A) (last last' : Option Bytes)
    (hinv : Inv cfg fs a last)
    (hrun : (if p.1.all (guardHolds cfg fs last) then exec cfg fs last p.2 else .ok last) = .ok last') :
    Inv cfg fs (astep (envOf whole cfg fs) a p) last' := by
  obtain ⟨g, st⟩ := p
  have hga := guards_agree cfg fs whole a last hinv.1 g (fun r hr => mentioned_of_mem whole (g, st) hp r hr)
  unfold astep
  simp only at hrun ⊢
  rw [hga]
  split at hrun
  · rename_i hg
    rw [hg]
    simp only [if_true]
    obtain ⟨hset, hS, hfc⟩ := hinv
    cases st with
    | openAs r rd =>
      dsimp only
      simp only [exec] at hrun; split at hrun
      · cases hrun; exact ⟨hset, hS, hfc⟩
      · cases hrun
    | checkKind r k =>
      dsimp only
      simp only [exec] at hrun; split at hrun
      · cases hrun; exact ⟨hset, hS, hfc⟩
      · cases hrun
    | checkNetworkValid r =>
      dsimp only
      simp only [exec] at hrun
      split at hrun
      · split at hrun
        · cases hrun; exact ⟨hset, hS, hfc⟩
        · cases hrun
      · cases hrun
    | checkEpoch r =>
      dsimp only
      simp only [exec] at hrun; split at hrun
      · cases hrun; exact ⟨hset, hS, hfc⟩
      · cases hrun
    | checkRoot r =>
      dsimp only
      simp only [exec] at hrun
      split at hrun
      · rename_i x hx
        split at hrun
        · rename_i hl
          cases hrun
          refine ⟨hset, ?_, hfc⟩
          intro r' hr'
          rcases List.mem_cons.mp hr' with rfl | hr''
          · exact ⟨x, hx, hl⟩
          · exact hS r' hr''
        · cases hrun
      · cases hrun
    | setLastRoot r =>
      dsimp only
      simp only [exec] at hrun
      split at hrun
      · rename_i x hx
        cases hrun
        split
        · rename_i hc
          obtain ⟨y, hy, hly⟩ := hS r (List.contains_iff_mem.mp hc)
          have hxy : x = y := by rw [hx] at hy; exact Option.some.inj hy
          subst hxy
          refine ⟨rfl, ?_, ?_⟩
          · intro r' hr'
            obtain ⟨z, hz, hlz⟩ := hS r' hr'
            exact ⟨z, hz, by rw [← hly, hlz]⟩
          · intro h; rw [← hly]; exact hfc h
        · refine ⟨rfl, ?_, ?_⟩
          · intro r' hr'
            have : r' = r := by simpa using hr'
            subst this
            exact ⟨x, hx, rfl⟩
          · intro h; cases h
      · cases hrun
    | checkFilecoinRoot =>
      dsimp only
      simp only [exec] at hrun; split at hrun
      · rename_i hl
        cases hrun
        exact ⟨hset, hS, fun _ => hl⟩
      · cases hrun
    | unknown w => simp only [exec] at hrun; cases hrun
  · rename_i hg
    have : g.all (guardHolds cfg fs last) = false := by simpa using hg
    rw [this]
    cases hrun
    simpa using hinv

theorem inv0 : Inv cfg fs a0 none :=
  ⟨rfl, fun r hr => (by cases hr), fun h => (by cases h)⟩

theorem arun_sound (whole : Chain) (chain : Chain) (hsub : ∀ p ∈ chain, p ∈ whole) (a : A) (last last' : Option Bytes)
    (hinv : Inv cfg fs a last) (h : run cfg fs chain last = .ok last') :
    Inv cfg fs (arun (envOf whole cfg fs) chain a) last' := by
  induction chain generalizing a last with
  | nil => simp only [run] at h; cases h; exact hinv
  | cons q rest ih =>
    obtain ⟨g, st⟩ := q
    have hsub' : ∀ p ∈ rest, p ∈ whole := fun p hp => hsub p (List.mem_cons_of_mem _ hp)
    simp only [run] at h
    simp only [arun]
    split at h
    · rename_i hg
      cases hex : exec cfg fs last st with
      | ok s2 =>
        rw [hex] at h
        exact ih hsub' _ s2 (astep_sound cfg fs whole (g, st) (hsub _ (by simp)) a last s2 hinv (by simp [hg, hex])) h
      | error e => rw [hex] at h; cases h
    · rename_i hg
      exact ih hsub' _ last (astep_sound cfg fs whole (g, st) (hsub _ (by simp)) a last last hinv (by simp [hg])) h

theorem shape_kind {f : FileId} {k : Bytes} (h : f.kind? = some k) : f.shape.carriesKind = true := by
  cases f <;> simp_all [FileId.kind?, FileId.shape, Shape.carriesKind]
theorem shape_epoch {f : FileId} {e : Nat} (h : f.epoch? = some e) : f.shape.carriesEpoch = true := by
  cases f <;> simp_all [FileId.epoch?, FileId.shape, Shape.carriesEpoch]
theorem shape_root {f : FileId} {x : Bytes} (h : f.root? = some x) : f.shape.carriesRoot = true := by
  cases f <;> simp_all [FileId.root?, FileId.shape, Shape.carriesRoot]

/-- what `chainOK` buys for one opened role of a successfully loaded configuration -/
theorem role_facts (chain : Chain) (hok : chainOK chain = true) (last : Option Bytes)
    (h : run cfg fs chain none = .ok last) (r : LRole) (hop : opened cfg.mode r = true) :
    ((fs r).shape.carriesKind = true → (fs r).kind? = some (expectedKind r)) ∧
    ((fs r).shape.carriesEpoch = true → (fs r).epoch? = some cfg.epoch) ∧
    ((fs r).shape.carriesRoot = true → ∃ x, (fs r).root? = some x ∧ last = some x) := by
  unfold chainOK at hok
  simp only [Bool.and_eq_true, List.all_eq_true] at hok
  have henv := hok.2 _ (envOf_mem chain cfg fs)
  unfold envOK at henv
  simp only [Bool.and_eq_true, List.all_eq_true, Bool.or_eq_true, Bool.not_eq_true'] at henv
  have hr := henv.1 r (mem_allRoles r)
  have hop' : opened (envOf chain cfg fs).mode r = true := hop
  rw [hop'] at hr
  simp only [Bool.true_eq_false, false_or] at hr
  have hsh := hr (fs r).shape (mem_allShapes _)
  unfold roleOK at hsh
  simp only [Bool.or_eq_true, Bool.and_eq_true, bne_iff_ne, ne_eq, Bool.not_eq_true'] at hsh
  have hinvF := arun_sound cfg fs chain chain (fun _ hp => hp) a0 none last (inv0 cfg fs) h
  rcases hsh with (⟨hm, hne⟩ | hrej) | ⟨⟨hk, he⟩, hroot⟩
  · exact absurd (legacy_exact cfg fs chain r hm).symm hne
  · -- an open step refuses this shape, yet every open step under static guards succeeded
    unfold rejectedByOpen at hrej
    obtain ⟨p, hp, hpp⟩ := List.any_eq_true.mp hrej
    obtain ⟨g, st⟩ := p
    cases st with
    | openAs r' rd =>
      simp only [Bool.and_eq_true, beq_iff_eq, Bool.not_eq_true'] at hpp
      obtain ⟨⟨hrr, hacc⟩, hsg⟩ := hpp
      subst hrr
      obtain ⟨s1, s2, hex⟩ := run_mem cfg fs chain chain (fun _ hp => hp) none last h (g, .openAs r' rd) hp hsg
      simp only [exec] at hex
      split at hex
      · rename_i ha
        rw [accepts_shape rd _ ha] at hacc
        cases hacc
      · cases hex
    | _ => simp at hpp
  · refine ⟨?_, ?_, ?_⟩
    · intro hc
      rcases hk with hk | hk
      · rw [hc] at hk; cases hk
      · unfold hasStep at hk
        obtain ⟨p, hp, hpp⟩ := List.any_eq_true.mp hk
        simp only [Bool.and_eq_true, beq_iff_eq] at hpp
        obtain ⟨s1, s2, hex⟩ := run_mem cfg fs chain chain (fun _ hp => hp) none last h p hp hpp.2
        rw [hpp.1] at hex
        simp only [exec] at hex
        split at hex
        · assumption
        · cases hex
    · intro hc
      rcases he with he | he
      · rw [hc] at he; cases he
      · unfold hasStep at he
        obtain ⟨p, hp, hpp⟩ := List.any_eq_true.mp he
        simp only [Bool.and_eq_true, beq_iff_eq] at hpp
        obtain ⟨s1, s2, hex⟩ := run_mem cfg fs chain chain (fun _ hp => hp) none last h p hp hpp.2
        rw [hpp.1] at hex
        simp only [exec] at hex
        split at hex
        · assumption
        · cases hex
    · intro hc
      rcases hroot with hroot | hroot
      · rw [hc] at hroot; cases hroot
      · exact hinvF.2.1 r (List.contains_iff_mem.mp hroot)

/-- **generic soundness**: any chain passing `chainOK` loads an epoch only from files of the expected kinds that all
    record the configured epoch and one common root CID (the configured one in Filecoin mode). -/
theorem loadWith_sound (chain : Chain) (hok : chainOK chain = true) (L : Loaded)
    (h : loadWith chain cfg fs = .ok L) :
    (∀ r, opened cfg.mode r = true → ∀ k, (fs r).kind? = some k → k = expectedKind r) ∧
    (∀ r, opened cfg.mode r = true → ∀ e, (fs r).epoch? = some e → e = cfg.epoch) ∧
    (∀ r, opened cfg.mode r = true → ∀ x, (fs r).root? = some x → L.root = some x) ∧
    (cfg.mode.filecoin = true → L.root = some cfg.filecoinRoot) ∧
    L.epoch = cfg.epoch := by
  unfold loadWith at h
  split at h
  · rename_i last hrun
    cases h
    refine ⟨?_, ?_, ?_, ?_, rfl⟩
    · intro r hop k hk
      have := (role_facts cfg fs chain hok last hrun r hop).1 (shape_kind hk)
      rw [hk] at this
      exact Option.some.inj this
    · intro r hop e he
      have := (role_facts cfg fs chain hok last hrun r hop).2.1 (shape_epoch he)
      rw [he] at this
      exact Option.some.inj this
    · intro r hop x hx
      obtain ⟨y, hy, hl⟩ := (role_facts cfg fs chain hok last hrun r hop).2.2 (shape_root hx)
      rw [hx] at hy
      cases hy
      exact hl
    · intro hf
      have hinvF := arun_sound cfg fs chain chain (fun _ hp => hp) a0 none last (inv0 cfg fs) hrun
      unfold chainOK at hok
      simp only [Bool.and_eq_true, List.all_eq_true] at hok
      have henv := hok.2 _ (envOf_mem chain cfg fs)
      unfold envOK at henv
      simp only [Bool.and_eq_true, Bool.or_eq_true, Bool.not_eq_true'] at henv
      rcases henv.2 with hmode | hfc
      · have : (envOf chain cfg fs).mode.filecoin = cfg.mode.filecoin := rfl
        rw [this, hf] at hmode; cases hmode
      · exact hinvF.2.2 hfc
  · cases h

end sound

end EpochLoad

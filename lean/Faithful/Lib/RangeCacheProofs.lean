import Faithful.Lib.RangeCache

/-! # Lemmas about the range-cache model (helper lemmas; the property theorems are in Faithful/Properties/C17.lean) -/
namespace RC

/-! ## iteration orders are exactly the permutations -/

theorem ins_perm {α : Type} (x : α) : ∀ (n : Nat) (l : List α), (ins x n l).Perm (x :: l)
  | 0, _ => List.Perm.refl _
  | _ + 1, [] => List.Perm.refl _
  | n + 1, y :: l => ((ins_perm x n l).cons y).trans (List.Perm.swap x y l)

theorem reorder_perm {α : Type} : ∀ (ks : Order) (l : List α), (reorder ks l).Perm l
  | [], [] => List.Perm.refl _
  | _ :: _, [] => List.Perm.refl _
  | [], _ :: _ => List.Perm.refl _
  | k :: ks, x :: xs => (ins_perm x k (reorder ks xs)).trans ((reorder_perm ks xs).cons x)

theorem mem_reorder {α : Type} (ks : Order) (l : List α) (x : α) : x ∈ reorder ks l ↔ x ∈ l :=
  (reorder_perm ks l).mem_iff

theorem ins_at_length {α : Type} (x : α) : ∀ (a b : List α), ins x a.length (a ++ b) = a ++ x :: b
  | [], b => by cases b <;> rfl
  | y :: a, b => by simp [ins, ins_at_length x a b]

/-- every permutation of the map's entries is the iteration order for some `ks` -/
theorem reorder_complete {α : Type} : ∀ (l p : List α), p.Perm l → ∃ ks : Order, reorder ks l = p
  | [], p, h => ⟨[], by rw [List.Perm.eq_nil h]; rfl⟩
  | x :: xs, p, h => by
    have hx : x ∈ p := h.symm.subset (List.mem_cons_self ..)
    obtain ⟨a, b, rfl⟩ := List.append_of_mem hx
    have h2 : (a ++ b).Perm xs := (List.perm_middle.symm.trans h).cons_inv
    obtain ⟨ks, hks⟩ := reorder_complete xs (a ++ b) h2
    exact ⟨a.length :: ks, by simp [reorder, hks, ins_at_length]⟩

/-! ## slices -/

theorem slice_length (file : Bytes) (off len : Nat) (h : off + len ≤ file.length) : (slice file off len).length = len := by
  unfold slice; simp [List.length_take, List.length_drop]; omega

theorem slice_sub (file : Bytes) (a n lo m : Nat) (h : lo + m ≤ n) :
    ((slice file a n).drop lo).take m = slice file (a + lo) m := by
  unfold slice
  rw [List.drop_take, List.drop_drop, List.take_take]
  have : min m (n - lo) = m := by omega
  rw [this]

/-! ## int64 arithmetic -/

theorem wrap64_valid (start ln size : Int) (hs : IsI64 start) (hl : IsI64 ln)
    (h : invalidB start (wrap64 (start + ln)) size = false) :
    wrap64 (start + ln) = start + ln ∧ 0 ≤ start ∧ 0 ≤ ln ∧ start + ln ≤ size := by
  unfold IsI64 at hs hl
  simp only [invalidB, Bool.or_eq_false_iff, decide_eq_false_iff_not] at h
  unfold wrap64 at h ⊢
  omega

theorem wrap64_invalid (start ln size : Int) (hs : IsI64 start) (hl : IsI64 ln)
    (h : start < 0 ∨ ln < 0 ∨ start + ln > size) :
    invalidB start (wrap64 (start + ln)) size = true := by
  unfold IsI64 at hs hl
  simp only [invalidB, Bool.or_eq_true, decide_eq_true_eq]
  unfold wrap64
  omega

/-! ## the loops only ever drop entries -/

theorem setLoop_sub (s e : Int) : ∀ (todo kept : List Entry) (occ : Nat) (ctx : Ctx) (en : Entry),
    en ∈ (setLoop s e todo kept occ ctx).2.1 → en ∈ kept ∨ en ∈ todo
  | [], kept, occ, ctx, en, h => by simp [setLoop] at h; exact Or.inl h
  | x :: rest, kept, occ, ctx, en, h => by
    simp only [setLoop] at h
    split at h
    · simpa [List.mem_append] using h
    · split at h
      · simpa [List.mem_append] using h
      · split at h
        · rcases setLoop_sub s e rest kept _ _ en h with h' | h'
          · exact Or.inl h'
          · exact Or.inr (List.mem_cons_of_mem _ h')
        · rcases setLoop_sub s e rest (kept ++ [x]) _ _ en h with h' | h'
          · rcases List.mem_append.mp h' with h'' | h''
            · exact Or.inl h''
            · simp at h''; subst h''; exact Or.inr (List.mem_cons_self ..)
          · exact Or.inr (List.mem_cons_of_mem _ h')

theorem delLoop_sub (ex : Entry → Bool) : ∀ (todo kept : List Entry) (occ : Nat) (ctx : Ctx) (en : Entry),
    en ∈ (delLoop ex todo kept occ ctx).1 → en ∈ kept ∨ en ∈ todo
  | [], kept, occ, ctx, en, h => by simp [delLoop] at h; exact Or.inl h
  | x :: rest, kept, occ, ctx, en, h => by
    simp only [delLoop] at h
    split at h
    · simpa [List.mem_append] using h
    · split at h
      · rcases delLoop_sub ex rest kept _ _ en h with h' | h'
        · exact Or.inl h'
        · exact Or.inr (List.mem_cons_of_mem _ h')
      · rcases delLoop_sub ex rest (kept ++ [x]) _ _ en h with h' | h'
        · rcases List.mem_append.mp h' with h'' | h''
          · exact Or.inl h''
          · simp at h''; subst h''; exact Or.inr (List.mem_cons_self ..)
        · exact Or.inr (List.mem_cons_of_mem _ h')

/-! ## the truthfulness invariant -/

/-- a cached entry lies inside the file and holds the file's bytes -/
def Entry.Good (file : Bytes) (en : Entry) : Prop :=
  0 ≤ en.s ∧ en.s ≤ en.e ∧ en.e ≤ (file.length : Int) ∧ en.v = slice file en.s.toNat (en.e - en.s).toNat

def Inv (file : Bytes) (st : State) : Prop := ∀ en ∈ st.cache, en.Good file

theorem Inv.empty (file : Bytes) : Inv file State.empty := by intro en h; cases h

/-- membership in the new cache after `setRange` -/
theorem setRange_mem (ks : Order) (ctx : Ctx) (size : Int) (st : State) (start ln : Int) (v : Bytes) (en : Entry)
    (h : en ∈ (setRange ks ctx size st start ln v).1.cache) :
    en ∈ st.cache ∨ (en = ⟨start, wrap64 (start + ln), v⟩ ∧ invalidB start (wrap64 (start + ln)) size = false
      ∧ (v.length : Int) = wrap64 (start + ln) - start) := by
  unfold setRange at h
  simp only [] at h
  split at h
  · exact Or.inl h
  · rename_i hv
    split at h
    · exact Or.inl h
    · rename_i hlen
      have hsub := setLoop_sub start (wrap64 (start + ln)) (reorder ks st.cache) [] st.occ ctx
      split at h
      all_goals rename_i heq
      · have := hsub en (by rw [heq]; exact h)
        simp [mem_reorder] at this; exact Or.inl this
      · have := hsub en (by rw [heq]; exact h)
        simp [mem_reorder] at this; exact Or.inl this
      · simp only [List.mem_append, List.mem_filter, List.mem_singleton] at h
        rcases h with ⟨h, _⟩ | h
        · have := hsub en (by rw [heq]; exact h)
          simp [mem_reorder] at this; exact Or.inl this
        · refine Or.inr ⟨h, by simpa using hv, ?_⟩
          simpa using hlen

theorem deleteOld_mem (ks : Order) (ctx : Ctx) (ex : Entry → Bool) (st : State) (en : Entry)
    (h : en ∈ (deleteOld ks ctx ex st).cache) : en ∈ st.cache := by
  unfold deleteOld at h
  have := delLoop_sub ex (reorder ks st.cache) [] st.occ ctx en h
  simpa [mem_reorder] using this

/-! ## a hit is the file's bytes -/

/-- the requested range `[s, e)` lies inside the file -/
def InFile (file : Bytes) (s e : Int) : Prop := 0 ≤ s ∧ s ≤ e ∧ e ≤ (file.length : Int)

theorem Entry.Good.length {file : Bytes} {en : Entry} (g : en.Good file) : (en.v.length : Int) = en.e - en.s := by
  obtain ⟨h0, h1, h2, h3⟩ := g
  rw [h3, slice_length _ _ _ (by omega)]
  omega

theorem good_goSlice {file : Bytes} {en : Entry} (g : en.Good file) (s e : Int) (hse : s ≤ e)
    (hc : containsB en.s en.e s e = true) :
    goSlice en.v (s - en.s) (e - en.s) = some (slice file s.toNat (e - s).toNat) := by
  have hl := g.length
  obtain ⟨h0, h1, h2, h3⟩ := g
  simp only [containsB, Bool.and_eq_true, decide_eq_true_eq] at hc
  unfold goSlice
  rw [if_pos (by omega)]
  congr 1
  rw [h3, slice_sub _ _ _ _ _ (by omega)]
  congr 1 <;> omega

theorem scan_correct (file : Bytes) (s e : Int) (hse : s ≤ e) : ∀ (l : List Entry) (ctx : Ctx),
    (∀ en ∈ l, en.Good file) →
    scan s e l ctx = .miss ∨ scan s e l ctx = .ctxErr ∧ ctx ≠ none ∨ scan s e l ctx = .hit (slice file s.toNat (e - s).toNat)
  | [], _, _ => Or.inl rfl
  | en :: rest, ctx, h => by
    simp only [scan]
    split
    · rename_i hd
      refine Or.inr (Or.inl ⟨rfl, ?_⟩)
      intro hc; subst hc; simp [Ctx.done] at hd
    · split
      · rename_i hc
        rw [good_goSlice (h en (List.mem_cons_self ..)) s e hse hc]
        exact Or.inr (Or.inr rfl)
      · rcases scan_correct file s e hse rest ctx.tick (fun x hx => h x (List.mem_cons_of_mem _ hx)) with h' | h' | h'
        · exact Or.inl h'
        · refine Or.inr (Or.inl ⟨h'.1, ?_⟩)
          intro hc; subst hc; exact h'.2 rfl
        · exact Or.inr (Or.inr h')

theorem lookup_correct (file : Bytes) (ks : Order) (ctx : Ctx) (st : State) (hinv : Inv file st) (s e : Int) (hse : s ≤ e) :
    lookup ks ctx st s e = .miss ∨ lookup ks ctx st s e = .ctxErr ∧ ctx ≠ none
      ∨ lookup ks ctx st s e = .hit (slice file s.toNat (e - s).toNat) := by
  unfold lookup
  split
  · exact Or.inl rfl
  · split
    · rename_i en hf
      have hmem : en ∈ st.cache := List.mem_of_find?_eq_some hf
      have hk := List.find?_some hf
      simp only [sameKey, Bool.and_eq_true, decide_eq_true_eq] at hk
      obtain ⟨_, _, _, g⟩ := hinv en hmem
      refine Or.inr (Or.inr ?_)
      rw [g, hk.1, hk.2]
    · exact scan_correct file s e hse _ ctx (fun en hen => hinv en ((mem_reorder ks _ en).mp hen))

theorem finish_slice (file : Bytes) (s e : Int) (h : InFile file s e) :
    finish (slice file s.toNat (e - s).toNat) (e - s) = .ok (slice file s.toNat (e - s).toNat) := by
  obtain ⟨h0, h1, h2⟩ := h
  unfold finish
  rw [if_neg]
  rw [slice_length _ _ _ (by omega)]
  simp; omega

/-- the outcome of the read-locked half of `GetRange`, whatever the iteration order and the context -/
theorem check_correct (file : Bytes) (ks : Order) (ctx : Ctx) (st : State) (hinv : Inv file st) (start ln : Int)
    (hF : IsI64 (file.length : Int)) (hs : IsI64 start) (hl : IsI64 ln) :
    let r := check ks ctx (file.length : Int) st start ln
    (r = some (.err .range) ∧ (start < 0 ∨ ln < 0 ∨ start + ln > (file.length : Int)))
    ∨ ((0 ≤ start ∧ 0 ≤ ln ∧ start + ln ≤ (file.length : Int)) ∧
        (r = none ∨ r = some (.err .ctx) ∧ ctx ≠ none ∨ r = some (.ok (slice file start.toNat ln.toNat)))) := by
  intro r
  by_cases hv : invalidB start (wrap64 (start + ln)) (file.length : Int) = true
  · left
    refine ⟨by simp [r, check, hv], ?_⟩
    apply Classical.byContradiction
    intro hn
    have := wrap64_valid start ln (file.length : Int) hs hl
    have h2 : ¬ invalidB start (wrap64 (start + ln)) (file.length : Int) = false := by simp [hv]
    apply h2; clear h2 this
    simp only [invalidB, Bool.or_eq_false_iff, decide_eq_false_iff_not]
    unfold wrap64; unfold IsI64 at hs hl hF; omega
  · right
    have hv' : invalidB start (wrap64 (start + ln)) (file.length : Int) = false := by simpa using hv
    obtain ⟨he, h0, h1, h2⟩ := wrap64_valid start ln _ hs hl hv'
    refine ⟨⟨h0, h1, h2⟩, ?_⟩
    have hin : InFile file start (start + ln) := ⟨h0, by omega, h2⟩
    have hv2 := hv'
    rw [he] at hv2
    have hnl : ¬ (start + ln - start > (file.length : Int)) := by omega
    have e1 : (start + ln - start).toNat = ln.toNat := by congr 1; omega
    rcases lookup_correct file ks ctx st hinv start (start + ln) (by omega) with h | h | h
    · left; simp only [r, check, he, hv2, h]; simp [hnl]
    · right; left; refine ⟨?_, h.2⟩; simp only [r, check, he, hv2, h.1]; simp [hnl]
    · right; right; simp only [r, check, he, hv2, h]
      simp only [Bool.false_eq_true, if_false, hnl]
      rw [finish_slice file start (start + ln) hin, e1]

/-! ## every state-changing operation keeps the cache truthful -/

theorem setRange_inv (file : Bytes) (ks : Order) (ctx : Ctx) (st : State) (hinv : Inv file st) (start ln : Int) (v : Bytes)
    (hs : IsI64 start) (hl : IsI64 ln)
    (hv : 0 ≤ start → 0 ≤ ln → start + ln ≤ (file.length : Int) → v.length = ln.toNat → v = slice file start.toNat ln.toNat) :
    Inv file (setRange ks ctx (file.length : Int) st start ln v).1 := by
  intro en hen
  rcases setRange_mem ks ctx _ st start ln v en hen with h | ⟨h, hval, hlen⟩
  · exact hinv en h
  · obtain ⟨he, h0, h1, h2⟩ := wrap64_valid start ln _ hs hl hval
    subst h
    rw [he] at hlen ⊢
    refine ⟨h0, by simp; omega, by simpa using h2, ?_⟩
    have e1 : (start + ln - start).toNat = ln.toNat := by congr 1; omega
    simp only [e1]
    exact hv h0 h1 h2 (by omega)

theorem deleteOld_inv (file : Bytes) (ks : Order) (ctx : Ctx) (ex : Entry → Bool) (st : State) (hinv : Inv file st) :
    Inv file (deleteOld ks ctx ex st) :=
  fun en hen => hinv en (deleteOld_mem ks ctx ex st en hen)

/-- the fetcher contract the code relies on: when the fetcher returns `err == nil` for a range inside the file, the
    whole buffer holds the remote's bytes (the returned `n` is ignored by `GetRange`) -/
def Fetch.Honest (file : Bytes) (start ln : Int) (f : Fetch) : Prop :=
  f.failed = false → 0 ≤ start → 0 ≤ ln → start + ln ≤ (file.length : Int) → f.buf = slice file start.toNat ln.toNat

/-- the write-locked half of `GetRange` -/
theorem fetchSet_correct (file : Bytes) (ks : Order) (ctx : Ctx) (st : State) (hinv : Inv file st) (start ln : Int) (f : Fetch)
    (hF : IsI64 (file.length : Int)) (hs : IsI64 start) (hl : IsI64 ln) (hf : f.Honest file start ln) :
    let r := fetchSet ks ctx (file.length : Int) st start ln f
    Inv file r.1 ∧
    (((start < 0 ∨ ln < 0 ∨ start + ln > (file.length : Int)) ∧ r = (st, .err .range))
     ∨ ((0 ≤ start ∧ 0 ≤ ln ∧ start + ln ≤ (file.length : Int)) ∧
         (f.failed = true ∧ r = (st, .err .fetch) ∨ f.failed = false ∧ r.2 = .ok (slice file start.toNat ln.toNat)))) := by
  intro r
  by_cases hv : invalidB start (wrap64 (start + ln)) (file.length : Int) = true
  · have hr : r = (st, .err .range) := by simp [r, fetchSet, hv]
    refine ⟨by rw [hr]; exact hinv, Or.inl ⟨?_, hr⟩⟩
    apply Classical.byContradiction
    intro hn
    have h2 : ¬ invalidB start (wrap64 (start + ln)) (file.length : Int) = false := by simp [hv]
    apply h2
    simp only [invalidB, Bool.or_eq_false_iff, decide_eq_false_iff_not]
    unfold wrap64; unfold IsI64 at hs hl hF; omega
  · have hv' : invalidB start (wrap64 (start + ln)) (file.length : Int) = false := by simpa using hv
    obtain ⟨he, h0, h1, h2⟩ := wrap64_valid start ln _ hs hl hv'
    cases hfail : f.failed with
    | true =>
      have hr : r = (st, .err .fetch) := by simp [r, fetchSet, hv', hfail]
      exact ⟨by rw [hr]; exact hinv, Or.inr ⟨⟨h0, h1, h2⟩, Or.inl ⟨rfl, hr⟩⟩⟩
    | false =>
      have hb := hf hfail h0 h1 h2
      have hr : r = ((setRange ks ctx (file.length : Int) st start ln f.buf).1, finish f.buf (wrap64 (start + ln) - start)) := by
        simp [r, fetchSet, hv', hfail]
      refine ⟨?_, Or.inr ⟨⟨h0, h1, h2⟩, Or.inr ⟨rfl, ?_⟩⟩⟩
      · rw [hr]
        exact setRange_inv file ks ctx st hinv start ln f.buf hs hl (fun _ _ _ _ => hb)
      · rw [hr, he, hb]
        have e1 : (start + ln - start).toNat = ln.toNat := by congr 1; omega
        have := finish_slice file start (start + ln) ⟨h0, by omega, h2⟩
        rw [e1] at this
        exact this

/-! ## histories -/

/-- what the environment must supply to a step: int64 arguments; a fetcher that honours its contract; `SetRange`
    callers that pass the file's own bytes -/
def Step.Fed (file : Bytes) : Step → Prop
  | .check _ _ start ln => IsI64 start ∧ IsI64 ln
  | .fetchSet _ _ start ln f => IsI64 start ∧ IsI64 ln ∧ f.Honest file start ln
  | .set _ _ start ln v => IsI64 start ∧ IsI64 ln ∧
      (0 ≤ start → 0 ≤ ln → start + ln ≤ (file.length : Int) → v.length = ln.toNat → v = slice file start.toNat ln.toNat)
  | .deleteOld _ _ _ => True

theorem step_inv (file : Bytes) (st : State) (hinv : Inv file st) (hF : IsI64 (file.length : Int)) (x : Step) (hx : x.Fed file) :
    Inv file (step (file.length : Int) st x).1 := by
  cases x with
  | check ks ctx start ln =>
    simp only [step]; split <;> exact hinv
  | fetchSet ks ctx start ln f =>
    exact (fetchSet_correct file ks ctx st hinv start ln f hF hx.1 hx.2.1 hx.2.2).1
  | set ks ctx start ln v =>
    exact setRange_inv file ks ctx st hinv start ln v hx.1 hx.2.1 hx.2.2
  | deleteOld ks ctx exp =>
    exact deleteOld_inv file ks ctx exp.test st hinv

theorem run_inv (file : Bytes) (hF : IsI64 (file.length : Int)) : ∀ (steps : List Step) (st : State), Inv file st →
    (∀ x ∈ steps, x.Fed file) → Inv file (run (file.length : Int) st steps).1
  | [], _, hinv, _ => hinv
  | x :: xs, st, hinv, h => by
    simp only [run]
    exact run_inv file hF xs _ (step_inv file st hinv hF x (h x (List.mem_cons_self ..)))
      (fun y hy => h y (List.mem_cons_of_mem _ hy))

/-- the answer a step may give when the file is `file` -/
def OutOK (file : Bytes) : Step → Out → Prop
  | .check _ ctx start ln, o =>
      (o = .ret (.err .range) ∧ (start < 0 ∨ ln < 0 ∨ start + ln > (file.length : Int)))
      ∨ ((0 ≤ start ∧ 0 ≤ ln ∧ start + ln ≤ (file.length : Int)) ∧
          (o = .missed ∨ o = .ret (.err .ctx) ∧ ctx ≠ none ∨ o = .ret (.ok (slice file start.toNat ln.toNat))))
  | .fetchSet _ _ start ln f, o =>
      (o = .ret (.err .range) ∧ (start < 0 ∨ ln < 0 ∨ start + ln > (file.length : Int)))
      ∨ ((0 ≤ start ∧ 0 ≤ ln ∧ start + ln ≤ (file.length : Int)) ∧
          (o = .ret (.err .fetch) ∧ f.failed = true ∨ o = .ret (.ok (slice file start.toNat ln.toNat)) ∧ f.failed = false))
  | .set _ _ _ _ _, o => ∃ r, o = .set r
  | .deleteOld _ _ _, o => o = .unit

theorem step_out (file : Bytes) (st : State) (hinv : Inv file st) (hF : IsI64 (file.length : Int)) (x : Step) (hx : x.Fed file) :
    OutOK file x (step (file.length : Int) st x).2 := by
  cases x with
  | check ks ctx start ln =>
    have := check_correct file ks ctx st hinv start ln hF hx.1 hx.2
    simp only at this
    simp only [step, OutOK]
    rcases this with ⟨h, hr⟩ | ⟨hr, h | h | h⟩
    · left; rw [h]; exact ⟨rfl, hr⟩
    · right; rw [h]; exact ⟨hr, Or.inl rfl⟩
    · right; rw [h.1]; exact ⟨hr, Or.inr (Or.inl ⟨rfl, h.2⟩)⟩
    · right; rw [h]; exact ⟨hr, Or.inr (Or.inr rfl)⟩
  | fetchSet ks ctx start ln f =>
    have := (fetchSet_correct file ks ctx st hinv start ln f hF hx.1 hx.2.1 hx.2.2).2
    simp only [step, OutOK]
    rcases this with ⟨hr, h⟩ | ⟨hr, ⟨hf, h⟩ | ⟨hf, h⟩⟩
    · left; rw [h]; exact ⟨rfl, hr⟩
    · right; rw [h]; exact ⟨hr, Or.inl ⟨rfl, hf⟩⟩
    · right; rw [h]; exact ⟨hr, Or.inr ⟨rfl, hf⟩⟩
  | set ks ctx start ln v => exact ⟨_, rfl⟩
  | deleteOld ks ctx exp => rfl

/-- `R` holds between the elements of two lists position by position (the lists have the same length) -/
inductive Pointwise {α β : Type} (R : α → β → Prop) : List α → List β → Prop
  | nil : Pointwise R [] []
  | cons {a b as bs} : R a b → Pointwise R as bs → Pointwise R (a :: as) (b :: bs)

theorem Pointwise.length {α β : Type} {R : α → β → Prop} : ∀ {as : List α} {bs : List β}, Pointwise R as bs → as.length = bs.length
  | _, _, .nil => rfl
  | _, _, .cons _ t => by simp [t.length]

theorem Pointwise.get {α β : Type} {R : α → β → Prop} : ∀ {as : List α} {bs : List β}, Pointwise R as bs →
    ∀ (i : Nat) (a : α) (b : β), as[i]? = some a → bs[i]? = some b → R a b
  | _, _, .nil, i, a, b, ha, _ => by simp at ha
  | _, _, .cons h t, 0, a, b, ha, hb => by simp at ha hb; subst ha; subst hb; exact h
  | _, _, .cons _ t, i + 1, a, b, ha, hb => by simp at ha hb; exact t.get i a b ha hb

theorem run_outs (file : Bytes) (hF : IsI64 (file.length : Int)) : ∀ (steps : List Step) (st : State), Inv file st →
    (∀ x ∈ steps, x.Fed file) → Pointwise (OutOK file) steps (run (file.length : Int) st steps).2
  | [], _, _, _ => Pointwise.nil
  | x :: xs, st, hinv, h => by
    simp only [run]
    exact Pointwise.cons (step_out file st hinv hF x (h x (List.mem_cons_self ..)))
      (run_outs file hF xs _ (step_inv file st hinv hF x (h x (List.mem_cons_self ..)))
        (fun y hy => h y (List.mem_cons_of_mem _ hy)))

/-! ## a whole GetRange, and ReadAt on top of it -/

theorem getRange_correct (file : Bytes) (ks1 ks2 : Order) (ctx1 ctx2 : Ctx) (st : State) (hinv : Inv file st)
    (start ln : Int) (f : Fetch) (hF : IsI64 (file.length : Int)) (hs : IsI64 start) (hl : IsI64 ln)
    (hf : f.Honest file start ln) :
    let r := getRange ks1 ks2 ctx1 ctx2 (file.length : Int) st start ln f
    Inv file r.1 ∧
    (((start < 0 ∨ ln < 0 ∨ start + ln > (file.length : Int)) ∧ r = (st, .err .range))
     ∨ ((0 ≤ start ∧ 0 ≤ ln ∧ start + ln ≤ (file.length : Int)) ∧
         (r = (st, .err .ctx) ∧ ctx1 ≠ none ∨ f.failed = true ∧ r = (st, .err .fetch)
           ∨ r.2 = .ok (slice file start.toNat ln.toNat)))) := by
  intro r
  have hc := check_correct file ks1 ctx1 st hinv start ln hF hs hl
  have hfs := fetchSet_correct file ks2 ctx2 st hinv start ln f hF hs hl hf
  simp only at hc
  rcases hc with ⟨h, hr⟩ | ⟨hr, h | h | h⟩
  · have : r = (st, .err .range) := by simp [r, getRange, h]
    exact ⟨by rw [this]; exact hinv, Or.inl ⟨hr, this⟩⟩
  · have : r = fetchSet ks2 ctx2 (file.length : Int) st start ln f := by simp [r, getRange, h]
    rw [this]
    refine ⟨hfs.1, ?_⟩
    rcases hfs.2 with ⟨ho, _⟩ | ⟨_, h2 | h2⟩
    · omega
    · exact Or.inr ⟨hr, Or.inr (Or.inl h2)⟩
    · exact Or.inr ⟨hr, Or.inr (Or.inr h2.2)⟩
  · have : r = (st, .err .ctx) := by simp [r, getRange, h.1]
    exact ⟨by rw [this]; exact hinv, Or.inr ⟨hr, Or.inl ⟨this, h.2⟩⟩⟩
  · have : r = (st, .ok (slice file start.toNat ln.toNat)) := by simp [r, getRange, h]
    exact ⟨by rw [this]; exact hinv, Or.inr ⟨hr, Or.inr (Or.inr (by rw [this]))⟩⟩

theorem readAt_correct (file : Bytes) (ks1 ks2 : Order) (st : State) (hinv : Inv file st) (pLen : Nat) (off : Int) (f : Fetch)
    (hF : IsI64 (file.length : Int)) (ho : IsI64 off) (hp : IsI64 (pLen : Int)) (hf : f.Honest file off pLen) :
    let r := readAt ks1 ks2 (file.length : Int) st pLen off f
    Inv file r.1 ∧
    ((off ≥ (file.length : Int) ∧ r = (st, .ret [] .eof))
     ∨ (off < (file.length : Int) ∧ (off < 0 ∨ off + pLen > (file.length : Int)) ∧ r = (st, .ret [] (.other .range)))
     ∨ (0 ≤ off ∧ off + pLen ≤ (file.length : Int) ∧ off < (file.length : Int) ∧
         (r.2 = .ret (slice file off.toNat pLen) .nil ∨ f.failed = true ∧ r = (st, .ret [] (.other .fetch))))) := by
  intro r
  by_cases h0 : off ≥ (file.length : Int)
  · have : r = (st, .ret [] .eof) := by simp [r, readAt, h0]
    exact ⟨by rw [this]; exact hinv, Or.inl ⟨h0, this⟩⟩
  · have hg := getRange_correct file ks1 ks2 none none st hinv off pLen f hF ho hp hf
    simp only at hg
    have hr : r = match getRange ks1 ks2 none none (file.length : Int) st off pLen f with
        | (st', .ok v) => if min pLen v.length < pLen then (st', .ret (v.take (min pLen v.length)) .unexpectedEOF)
                          else (st', .ret (v.take (min pLen v.length)) .nil)
        | (st', .err c) => (st', .ret [] (.other c))
        | (st', .panic) => (st', .panic) := by
      simp only [r, readAt, if_neg h0]
      rfl
    generalize hgr : getRange ks1 ks2 none none (file.length : Int) st off pLen f = g at hg hr
    obtain ⟨g1, g2⟩ := g
    obtain ⟨hi, hcase⟩ := hg
    rcases hcase with ⟨hout, hq⟩ | ⟨hin, hq | hq | hq⟩
    · cases hq
      have : r = (st, .ret [] (.other .range)) := by rw [hr]
      refine ⟨by rw [this]; exact hinv, Or.inr (Or.inl ⟨by omega, ?_, this⟩)⟩
      rcases hout with h | h | h
      · exact Or.inl h
      · omega
      · exact Or.inr h
    · exact absurd rfl hq.2
    · cases hq.2
      have : r = (st, .ret [] (.other .fetch)) := by rw [hr]
      exact ⟨by rw [this]; exact hinv, Or.inr (Or.inr ⟨hin.1, hin.2.2, by omega, Or.inr ⟨hq.1, this⟩⟩)⟩
    · simp only at hq
      subst hq
      have hlen : (slice file off.toNat (pLen : Int).toNat).length = pLen := by
        rw [slice_length _ _ _ (by omega)]; simp
      have : r = (g1, .ret (slice file off.toNat pLen) .nil) := by
        rw [hr]
        simp only [hlen, Nat.min_self, Nat.lt_irrefl, if_false]
        congr 2
        have := List.take_length (l := slice file off.toNat (pLen : Int).toNat)
        rw [hlen] at this
        simpa using this
      exact ⟨by rw [this]; exact hi, Or.inr (Or.inr ⟨hin.1, hin.2.2, by omega, Or.inl (by rw [this])⟩)⟩

/-! ## remoteReadAt: the HTTP fetcher honours the fetcher contract, provided it looks at the status -/

/-- an HTTP server that may fail in any way it likes (no answer, any error status with any body, a body cut short)
    but whose 206 answers to `Range: bytes=off-(off+ln)` carry the file's bytes from `off` on -/
def HonestServer (file : Bytes) (off ln : Nat) (attempts : List HttpResp) : Prop :=
  ∀ body, HttpResp.resp 206 body ∈ attempts → body <+: honestBody file off ln

theorem firstResp_mem : ∀ (attempts : List HttpResp) (s : Nat) (b : Bytes), firstResp attempts = some (s, b) →
    HttpResp.resp s b ∈ attempts := by
  intro attempts s b h
  unfold firstResp at h
  obtain ⟨r, hr, hv⟩ := List.exists_of_findSome?_eq_some h
  cases r with
  | transportErr => simp at hv
  | resp s' b' =>
    simp at hv
    obtain ⟨rfl, rfl⟩ := hv
    exact List.mem_of_mem_take hr

theorem remoteReadAt_contract (file : Bytes) (off ln : Nat) (attempts : List HttpResp)
    (hsrv : HonestServer file off ln attempts) (hok : (remoteReadAt true ln attempts).failed = false) :
    (remoteReadAt true ln attempts).buf = slice file off ln := by
  unfold remoteReadAt at hok ⊢
  cases hfr : firstResp attempts with
  | none => simp [hfr] at hok
  | some sb =>
    obtain ⟨status, body⟩ := sb
    simp only [hfr] at hok ⊢
    by_cases hst : status = 206
    · subst hst
      by_cases hlen : body.length < ln
      · simp [hlen] at hok
      · simp only [bne_self_eq_false, Bool.and_false, Bool.false_eq_true, if_false, hlen]
        obtain ⟨t, ht⟩ := hsrv body (firstResp_mem attempts 206 body hfr)
        have h1 : (honestBody file off ln).take ln = body.take ln := by
          rw [← ht, List.take_append_of_le_length (by omega)]
        rw [← h1]
        unfold honestBody slice
        rw [List.take_take]
        congr 1; omega
    · have : (status != 206) = true := by simpa using hst
      simp [this] at hok

/-! ## the structural invariant: unique keys, no nested ranges, exact space accounting
    (holds for EVERY history: no assumption on the fetcher, the SetRange callers or the contexts) -/

def Entry.Shape (size : Int) (en : Entry) : Prop :=
  0 ≤ en.s ∧ en.s ≤ en.e ∧ en.e ≤ size ∧ (en.v.length : Int) = en.e - en.s

/-- neither range contains the other; in particular the keys differ -/
def Apart (a b : Entry) : Prop := containsB a.s a.e b.s b.e = false ∧ containsB b.s b.e a.s a.e = false

theorem Apart.symm {a b : Entry} (h : Apart a b) : Apart b a := ⟨h.2, h.1⟩

/-- total number of cached bytes -/
def lens (l : List Entry) : Nat := (l.map fun en => en.v.length).sum

theorem lens_append (a b : List Entry) : lens (a ++ b) = lens a + lens b := by simp [lens, List.sum_append]
theorem lens_nil : lens [] = 0 := rfl
theorem lens_cons (x : Entry) (l : List Entry) : lens (x :: l) = x.v.length + lens l := by simp [lens]
theorem lens_perm {a b : List Entry} (h : a.Perm b) : lens a = lens b := (h.map _).sum_nat

structure WF (size : Int) (st : State) : Prop where
  shape : ∀ en ∈ st.cache, en.Shape size
  apart : st.cache.Pairwise Apart
  occ : st.occ = lens st.cache % two64

theorem WF.empty (size : Int) : WF size State.empty := ⟨(by intro en h; cases h), List.Pairwise.nil, rfl⟩

theorem setLoop_sublist (s e : Int) : ∀ (todo kept : List Entry) (occ : Nat) (ctx : Ctx),
    ((setLoop s e todo kept occ ctx).2.1).Sublist (kept ++ todo)
  | [], kept, occ, ctx => by simp [setLoop]
  | x :: rest, kept, occ, ctx => by
    simp only [setLoop]
    split
    · exact List.Sublist.refl _
    · split
      · exact List.Sublist.refl _
      · split
        · exact (setLoop_sublist s e rest kept _ _).trans
            (List.Sublist.append (List.Sublist.refl _) (List.sublist_cons_self x rest))
        · have := setLoop_sublist s e rest (kept ++ [x]) occ ctx.tick
          simpa [List.append_assoc] using this

theorem setLoop_occ (s e : Int) : ∀ (todo kept : List Entry) (occ : Nat) (ctx : Ctx),
    occ = lens (kept ++ todo) % two64 →
    (setLoop s e todo kept occ ctx).2.2 = lens (setLoop s e todo kept occ ctx).2.1 % two64
  | [], kept, occ, ctx, h => by simpa [setLoop] using h
  | x :: rest, kept, occ, ctx, h => by
    simp only [setLoop]
    split
    · exact h
    · split
      · exact h
      · split
        · apply setLoop_occ s e rest kept _ _
          rw [lens_append, lens_cons] at h
          rw [lens_append]
          unfold sub64 two64 at *
          omega
        · apply setLoop_occ s e rest (kept ++ [x]) occ ctx.tick
          simpa [List.append_assoc] using h

/-- when the loop runs to its end, everything it kept (beyond `kept`) neither contains nor is contained in the new range -/
theorem setLoop_done (s e : Int) : ∀ (todo kept : List Entry) (occ : Nat) (ctx : Ctx),
    (setLoop s e todo kept occ ctx).1 = .done →
    ∀ en ∈ (setLoop s e todo kept occ ctx).2.1, en ∈ kept ∨ (containsB en.s en.e s e = false ∧ containsB s e en.s en.e = false)
  | [], kept, occ, ctx, _, en, hen => by simp [setLoop] at hen; exact Or.inl hen
  | x :: rest, kept, occ, ctx, hd, en, hen => by
    by_cases h1 : ctx.done = true
    · rw [setLoop, if_pos h1] at hd; cases hd
    · by_cases h2 : containsB x.s x.e s e = true
      · rw [setLoop, if_neg h1, if_pos h2] at hd; cases hd
      · by_cases h3 : containsB s e x.s x.e = true
        · rw [setLoop, if_neg h1, if_neg h2, if_pos h3] at hd hen
          exact setLoop_done s e rest kept _ _ hd en hen
        · rw [setLoop, if_neg h1, if_neg h2, if_neg h3] at hd hen
          rcases setLoop_done s e rest (kept ++ [x]) _ _ hd en hen with h | h
          · rcases List.mem_append.mp h with h' | h'
            · exact Or.inl h'
            · simp at h'; subst h'
              exact Or.inr ⟨by simpa using h2, by simpa using h3⟩
          · exact Or.inr h

theorem delLoop_sublist (ex : Entry → Bool) : ∀ (todo kept : List Entry) (occ : Nat) (ctx : Ctx),
    ((delLoop ex todo kept occ ctx).1).Sublist (kept ++ todo)
  | [], kept, occ, ctx => by simp [delLoop]
  | x :: rest, kept, occ, ctx => by
    simp only [delLoop]
    split
    · exact List.Sublist.refl _
    · split
      · exact (delLoop_sublist ex rest kept _ _).trans
          (List.Sublist.append (List.Sublist.refl _) (List.sublist_cons_self x rest))
      · have := delLoop_sublist ex rest (kept ++ [x]) occ ctx.tick
        simpa [List.append_assoc] using this

theorem delLoop_occ (ex : Entry → Bool) : ∀ (todo kept : List Entry) (occ : Nat) (ctx : Ctx),
    occ = lens (kept ++ todo) % two64 →
    (delLoop ex todo kept occ ctx).2 = lens (delLoop ex todo kept occ ctx).1 % two64
  | [], kept, occ, ctx, h => by simpa [delLoop] using h
  | x :: rest, kept, occ, ctx, h => by
    simp only [delLoop]
    split
    · exact h
    · split
      · apply delLoop_occ ex rest kept _ _
        rw [lens_append, lens_cons] at h
        rw [lens_append]
        unfold sub64 two64 at *
        omega
      · apply delLoop_occ ex rest (kept ++ [x]) occ ctx.tick
        simpa [List.append_assoc] using h

theorem setRange_wf (ks : Order) (ctx : Ctx) (size : Int) (st : State) (hwf : WF size st) (start ln : Int) (v : Bytes) :
    WF size (setRange ks ctx size st start ln v).1 := by
  unfold setRange
  simp only []
  split
  · exact hwf
  · rename_i hval
    split
    · exact hwf
    · rename_i hlen
      have hperm := reorder_perm ks st.cache
      have hap : (reorder ks st.cache).Pairwise Apart := hperm.symm.pairwise hwf.apart Apart.symm
      have hsub := setLoop_sublist start (wrap64 (start + ln)) (reorder ks st.cache) [] st.occ ctx
      have hocc := setLoop_occ start (wrap64 (start + ln)) (reorder ks st.cache) [] st.occ ctx
        (by rw [hwf.occ, List.nil_append, lens_perm hperm])
      have hdone := setLoop_done start (wrap64 (start + ln)) (reorder ks st.cache) [] st.occ ctx
      have hshape : ∀ en ∈ (setLoop start (wrap64 (start + ln)) (reorder ks st.cache) [] st.occ ctx).2.1, en.Shape size := by
        intro en hen
        have := hsub.subset hen
        simp only [List.nil_append, mem_reorder] at this
        exact hwf.shape en this
      have hap2 : ((setLoop start (wrap64 (start + ln)) (reorder ks st.cache) [] st.occ ctx).2.1).Pairwise Apart :=
        List.Pairwise.sublist (by simpa using hsub) hap
      generalize setLoop start (wrap64 (start + ln)) (reorder ks st.cache) [] st.occ ctx = res at *
      obtain ⟨en', c, o⟩ := res
      simp only at hocc hshape hap2 hdone
      cases en' with
      | cancelled => exact ⟨hshape, hap2, hocc⟩
      | superset => exact ⟨hshape, hap2, hocc⟩
      | done =>
        have hd := hdone rfl
        have hfilter : c.filter (fun en => !sameKey en start (wrap64 (start + ln))) = c := by
          rw [List.filter_eq_self]
          intro a ha
          rcases hd a ha with h | h
          · cases h
          · simp only [sameKey, Bool.not_eq_true', Bool.and_eq_false_iff, decide_eq_false_iff_not]
            simp only [containsB, Bool.and_eq_false_iff, decide_eq_false_iff_not] at h
            omega
        simp only [hfilter]
        simp only [invalidB, Bool.or_eq_true, decide_eq_true_eq, not_or] at hval
        refine ⟨?_, ?_, ?_⟩
        · intro en hen
          rcases List.mem_append.mp hen with h | h
          · exact hshape en h
          · simp at h; subst h
            refine ⟨?_, ?_, ?_, ?_⟩ <;> simp only <;> omega
        · rw [List.pairwise_append]
          refine ⟨hap2, List.pairwise_singleton _ _, ?_⟩
          intro a ha b hb
          simp at hb; subst hb
          rcases hd a ha with h | h
          · cases h
          · exact ⟨h.1, h.2⟩
        · rw [lens_append, lens_cons, lens_nil]
          simp only [add64]
          unfold two64 at *
          omega

theorem deleteOld_wf (ks : Order) (ctx : Ctx) (ex : Entry → Bool) (size : Int) (st : State) (hwf : WF size st) :
    WF size (deleteOld ks ctx ex st) := by
  have hperm := reorder_perm ks st.cache
  have hsub := delLoop_sublist ex (reorder ks st.cache) [] st.occ ctx
  refine ⟨?_, ?_, ?_⟩
  · intro en hen
    exact hwf.shape en (deleteOld_mem ks ctx ex st en hen)
  · show ((delLoop ex (reorder ks st.cache) [] st.occ ctx).1).Pairwise Apart
    exact List.Pairwise.sublist (by simpa using hsub) (hperm.symm.pairwise hwf.apart Apart.symm)
  · show (delLoop ex (reorder ks st.cache) [] st.occ ctx).2 = lens (delLoop ex (reorder ks st.cache) [] st.occ ctx).1 % two64
    exact delLoop_occ ex (reorder ks st.cache) [] st.occ ctx (by rw [hwf.occ, List.nil_append, lens_perm hperm])

theorem step_wf (size : Int) (st : State) (hwf : WF size st) (x : Step) : WF size (step size st x).1 := by
  cases x with
  | check ks ctx start ln => simp only [step]; split <;> exact hwf
  | fetchSet ks ctx start ln f =>
    simp only [step, fetchSet]
    split
    · exact hwf
    · split
      · exact hwf
      · exact setRange_wf ks ctx size st hwf start ln f.buf
  | set ks ctx start ln v => exact setRange_wf ks ctx size st hwf start ln v
  | deleteOld ks ctx exp => exact deleteOld_wf ks ctx exp.test size st hwf

theorem run_wf (size : Int) : ∀ (steps : List Step) (st : State), WF size st → WF size (run size st steps).1
  | [], _, h => h
  | x :: xs, st, h => by simp only [run]; exact run_wf size xs _ (step_wf size st h x)

/-! ## with live contexts nothing depends on the map iteration order -/

theorem containsB_trans {a0 a1 b0 b1 c0 c1 : Int} (h1 : containsB a0 a1 b0 b1 = true) (h2 : containsB b0 b1 c0 c1 = true) :
    containsB a0 a1 c0 c1 = true := by
  simp only [containsB, Bool.and_eq_true, decide_eq_true_eq] at *
  omega

/-- a superset of the new range is cached: the loop deletes nothing (a deleted entry would be nested in the superset) -/
theorem setLoop_live_superset (s e : Int) : ∀ (todo kept : List Entry) (occ : Nat), todo.Pairwise Apart →
    (∃ x ∈ todo, containsB x.s x.e s e = true) → setLoop s e todo kept occ none = (.superset, kept ++ todo, occ)
  | [], _, _, _, ⟨x, hx, _⟩ => by cases hx
  | en :: rest, kept, occ, hp, ⟨x, hx, hc⟩ => by
    rw [setLoop, if_neg (by simp [Ctx.done])]
    by_cases h2 : containsB en.s en.e s e = true
    · rw [if_pos h2]
    · rw [if_neg h2]
      have hxr : x ∈ rest := by
        rcases List.mem_cons.mp hx with h | h
        · subst h; exact absurd hc h2
        · exact h
      have hap : Apart en x := (List.pairwise_cons.mp hp).1 x hxr
      have h3 : ¬ containsB s e en.s en.e = true := by
        intro h3
        have := containsB_trans hc h3
        rw [hap.2] at this; cases this
      rw [if_neg h3]
      have := setLoop_live_superset s e rest (kept ++ [en]) occ (List.pairwise_cons.mp hp).2 ⟨x, hxr, hc⟩
      simpa [Ctx.tick, List.append_assoc] using this

/-- no superset is cached: the loop runs to its end and removes exactly the entries inside the new range -/
theorem setLoop_live_done (s e : Int) : ∀ (todo kept : List Entry) (occ : Nat),
    (∀ x ∈ todo, containsB x.s x.e s e = false) →
    (setLoop s e todo kept occ none).1 = .done ∧
    (setLoop s e todo kept occ none).2.1 = kept ++ todo.filter (fun en => !containsB s e en.s en.e)
  | [], kept, occ, _ => by simp [setLoop]
  | en :: rest, kept, occ, h => by
    have h2 : ¬ containsB en.s en.e s e = true := by rw [h en (List.mem_cons_self ..)]; simp
    have hr : ∀ x ∈ rest, containsB x.s x.e s e = false := fun x hx => h x (List.mem_cons_of_mem _ hx)
    rw [setLoop, if_neg (by simp [Ctx.done]), if_neg h2]
    by_cases h3 : containsB s e en.s en.e = true
    · rw [if_pos h3]
      have := setLoop_live_done s e rest kept (sub64 occ en.v.length) hr
      simpa [Ctx.tick, List.filter_cons, h3] using this
    · rw [if_neg h3]
      have := setLoop_live_done s e rest (kept ++ [en]) occ hr
      simpa [Ctx.tick, List.filter_cons, h3, List.append_assoc] using this

theorem setRange_order_independent (ks ks' : Order) (size : Int) (st : State) (hwf : WF size st) (start ln : Int) (v : Bytes) :
    (setRange ks none size st start ln v).2 = (setRange ks' none size st start ln v).2 ∧
    (setRange ks none size st start ln v).1.cache.Perm (setRange ks' none size st start ln v).1.cache ∧
    (setRange ks none size st start ln v).1.occ = (setRange ks' none size st start ln v).1.occ := by
  have hw := setRange_wf ks none size st hwf start ln v
  have hw' := setRange_wf ks' none size st hwf start ln v
  suffices h : (setRange ks none size st start ln v).2 = (setRange ks' none size st start ln v).2 ∧
      (setRange ks none size st start ln v).1.cache.Perm (setRange ks' none size st start ln v).1.cache by
    exact ⟨h.1, h.2, by rw [hw.occ, hw'.occ, lens_perm h.2]⟩
  have hpp : (reorder ks st.cache).Perm (reorder ks' st.cache) := (reorder_perm ks _).trans (reorder_perm ks' _).symm
  unfold setRange
  simp only []
  split
  · exact ⟨rfl, List.Perm.refl _⟩
  · split
    · exact ⟨rfl, List.Perm.refl _⟩
    · by_cases hsup : ∃ x ∈ st.cache, containsB x.s x.e start (wrap64 (start + ln)) = true
      · obtain ⟨x, hx, hc⟩ := hsup
        rw [setLoop_live_superset _ _ _ [] st.occ ((reorder_perm ks _).symm.pairwise hwf.apart Apart.symm)
              ⟨x, (mem_reorder ks _ x).mpr hx, hc⟩,
            setLoop_live_superset _ _ _ [] st.occ ((reorder_perm ks' _).symm.pairwise hwf.apart Apart.symm)
              ⟨x, (mem_reorder ks' _ x).mpr hx, hc⟩]
        exact ⟨rfl, by simpa using hpp⟩
      · have hno : ∀ (k : Order), ∀ x ∈ reorder k st.cache, containsB x.s x.e start (wrap64 (start + ln)) = false := by
          intro k x hx
          cases hc : containsB x.s x.e start (wrap64 (start + ln)) with
          | false => rfl
          | true => exact absurd ⟨x, (mem_reorder k _ x).mp hx, hc⟩ hsup
        have h1 := setLoop_live_done start (wrap64 (start + ln)) (reorder ks st.cache) [] st.occ (hno ks)
        have h2 := setLoop_live_done start (wrap64 (start + ln)) (reorder ks' st.cache) [] st.occ (hno ks')
        generalize setLoop start (wrap64 (start + ln)) (reorder ks st.cache) [] st.occ none = r1 at h1
        generalize setLoop start (wrap64 (start + ln)) (reorder ks' st.cache) [] st.occ none = r2 at h2
        obtain ⟨e1, c1, o1⟩ := r1
        obtain ⟨e2, c2, o2⟩ := r2
        simp only [List.nil_append] at h1 h2
        obtain ⟨rfl, rfl⟩ := h1
        obtain ⟨rfl, rfl⟩ := h2
        exact ⟨rfl, (((hpp.filter _).filter _).append_right _)⟩

theorem deleteOld_live (ks : Order) (ex : Entry → Bool) (st : State) :
    (deleteOld ks none ex st).cache = (reorder ks st.cache).filter (fun en => !ex en) := by
  have h : ∀ (todo kept : List Entry) (occ : Nat),
      (delLoop ex todo kept occ none).1 = kept ++ todo.filter (fun en => !ex en) := by
    intro todo
    induction todo with
    | nil => intro kept occ; simp [delLoop]
    | cons en rest ih =>
      intro kept occ
      rw [delLoop, if_neg (by simp [Ctx.done])]
      cases hex : ex en with
      | true => simp [ih, Ctx.tick, hex]
      | false => simp [ih, Ctx.tick, hex, List.append_assoc]
  unfold deleteOld
  simp [h]

theorem deleteOld_order_independent (ks ks' : Order) (ex : Entry → Bool) (size : Int) (st : State) (hwf : WF size st) :
    (deleteOld ks none ex st).cache.Perm (deleteOld ks' none ex st).cache ∧
    (deleteOld ks none ex st).occ = (deleteOld ks' none ex st).occ := by
  have hp : (deleteOld ks none ex st).cache.Perm (deleteOld ks' none ex st).cache := by
    rw [deleteOld_live, deleteOld_live]
    exact ((reorder_perm ks _).trans (reorder_perm ks' _).symm).filter _
  exact ⟨hp, by rw [(deleteOld_wf ks none ex size st hwf).occ, (deleteOld_wf ks' none ex size st hwf).occ, lens_perm hp]⟩

/-- with a live context a lookup hits exactly when some cached entry covers the range, and then returns the file's bytes -/
theorem scan_live (file : Bytes) (s e : Int) (hse : s ≤ e) : ∀ (l : List Entry), (∀ en ∈ l, en.Good file) →
    scan s e l none = if l.any (fun en => containsB en.s en.e s e) then .hit (slice file s.toNat (e - s).toNat) else .miss
  | [], _ => by simp [scan]
  | en :: rest, h => by
    rw [scan, if_neg (by simp [Ctx.done])]
    by_cases hc : containsB en.s en.e s e = true
    · rw [if_pos hc, good_goSlice (h en (List.mem_cons_self ..)) s e hse hc]
      simp [hc]
    · rw [if_neg hc]
      have := scan_live file s e hse rest (fun x hx => h x (List.mem_cons_of_mem _ hx))
      simp only [Ctx.tick, this, List.any_cons]
      have : containsB en.s en.e s e = false := by simpa using hc
      simp [this]

theorem lookup_live (file : Bytes) (ks : Order) (st : State) (hinv : Inv file st) (s e : Int) (hse : s ≤ e) :
    lookup ks none st s e =
      if st.cache.any (fun en => containsB en.s en.e s e) then .hit (slice file s.toNat (e - s).toNat) else .miss := by
  unfold lookup
  split
  · rename_i hem
    have : st.cache = [] := by simpa using hem
    simp [this]
  · split
    · rename_i en hf
      have hmem : en ∈ st.cache := List.mem_of_find?_eq_some hf
      have hk := List.find?_some hf
      simp only [sameKey, Bool.and_eq_true, decide_eq_true_eq] at hk
      have hany : st.cache.any (fun en => containsB en.s en.e s e) = true := by
        rw [List.any_eq_true]
        exact ⟨en, hmem, by simp [containsB, hk.1, hk.2]⟩
      obtain ⟨_, _, _, g⟩ := hinv en hmem
      rw [hany, if_pos rfl, g, hk.1, hk.2]
    · rw [scan_live file s e hse _ (fun en hen => hinv en ((mem_reorder ks _ en).mp hen))]
      have : (reorder ks st.cache).any (fun en => containsB en.s en.e s e) = st.cache.any (fun en => containsB en.s en.e s e) := by
        rw [Bool.eq_iff_iff, List.any_eq_true, List.any_eq_true]
        constructor
        · rintro ⟨x, hx, hc⟩; exact ⟨x, (mem_reorder ks _ x).mp hx, hc⟩
        · rintro ⟨x, hx, hc⟩; exact ⟨x, (mem_reorder ks _ x).mpr hx, hc⟩
      rw [this]

/-- with a live context the loop of `setRange` never ends "cancelled", and a "superset" end leaves a covering entry -/
theorem setLoop_live_covers (s e : Int) : ∀ (todo kept : List Entry) (occ : Nat),
    (setLoop s e todo kept occ none).1 = .done ∨
    ((setLoop s e todo kept occ none).1 = .superset ∧ ∃ en ∈ (setLoop s e todo kept occ none).2.1, containsB en.s en.e s e = true)
  | [], kept, occ => by simp [setLoop]
  | en :: rest, kept, occ => by
    rw [setLoop, if_neg (by simp [Ctx.done])]
    by_cases h2 : containsB en.s en.e s e = true
    · rw [if_pos h2]
      exact Or.inr ⟨rfl, en, by simp, h2⟩
    · rw [if_neg h2]
      by_cases h3 : containsB s e en.s en.e = true
      · rw [if_pos h3]; exact setLoop_live_covers s e rest kept _
      · rw [if_neg h3]; exact setLoop_live_covers s e rest (kept ++ [en]) occ

theorem setRange_live_covers (ks : Order) (size : Int) (st : State) (start ln : Int) (v : Bytes)
    (hval : invalidB start (wrap64 (start + ln)) size = false) (hlen : (v.length : Int) = wrap64 (start + ln) - start) :
    ∃ en ∈ (setRange ks none size st start ln v).1.cache, containsB en.s en.e start (wrap64 (start + ln)) = true := by
  unfold setRange
  simp only [hval, Bool.false_eq_true, if_false]
  rw [if_neg (by simpa using hlen)]
  have hc := setLoop_live_covers start (wrap64 (start + ln)) (reorder ks st.cache) [] st.occ
  generalize setLoop start (wrap64 (start + ln)) (reorder ks st.cache) [] st.occ none = r at hc
  obtain ⟨e1, c1, o1⟩ := r
  rcases hc with h | ⟨h, en, hen, hcov⟩
  · simp only at h; subst h
    refine ⟨⟨start, wrap64 (start + ln), v⟩, by simp, ?_⟩
    simp only [invalidB, Bool.or_eq_false_iff, decide_eq_false_iff_not] at hval
    simp [containsB]
  · simp only at h; subst h
    exact ⟨en, hen, hcov⟩

/-- with a live context the read-locked half of `GetRange` hits exactly when some cached entry covers the range -/
theorem check_live (file : Bytes) (ks : Order) (st : State) (hinv : Inv file st) (start ln : Int)
    (hF : IsI64 (file.length : Int)) (hs : IsI64 start) (hl : IsI64 ln)
    (h0 : 0 ≤ start) (h1 : 0 ≤ ln) (h2 : start + ln ≤ (file.length : Int)) :
    check ks none (file.length : Int) st start ln =
      if st.cache.any (fun en => containsB en.s en.e start (start + ln)) then some (.ok (slice file start.toNat ln.toNat))
      else none := by
  have hv : invalidB start (wrap64 (start + ln)) (file.length : Int) = false := by
    simp only [invalidB, Bool.or_eq_false_iff, decide_eq_false_iff_not]
    unfold wrap64; unfold IsI64 at hs hl hF; omega
  obtain ⟨he, _, _, _⟩ := wrap64_valid start ln _ hs hl hv
  have hv2 := hv
  rw [he] at hv2
  have hnl : ¬ (start + ln - start > (file.length : Int)) := by omega
  have e1 : (start + ln - start).toNat = ln.toNat := by congr 1; omega
  have hl' := lookup_live file ks st hinv start (start + ln) (by omega)
  cases hany : st.cache.any (fun en => containsB en.s en.e start (start + ln)) with
  | true =>
    rw [hany, if_pos rfl] at hl'
    simp only [check, he, hv2, hl']
    simp only [Bool.false_eq_true, if_false, hnl, if_true]
    rw [finish_slice file start (start + ln) ⟨h0, by omega, h2⟩, e1]
  | false =>
    rw [hany, if_neg (by simp)] at hl'
    simp only [check, he, hv2, hl']
    simp [hnl]

end RC

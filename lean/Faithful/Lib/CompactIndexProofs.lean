import Faithful.Lib.CompactIndex

/-! Lemmas about the abstract compact-index model (`CI.buildA`, `CI.lookupA`). -/
namespace CI
open B

theorem leEnt_trans (a b c : Ent) : leEnt a b = true → leEnt b c = true → leEnt a c = true := by
  unfold leEnt; simp; omega

theorem leEnt_total (a b : Ent) : (leEnt a b || leEnt b a) = true := by
  unfold leEnt; simp; omega

theorem sorted_pairwise (l : List Ent) : (l.mergeSort leEnt).Pairwise (fun a b => a.1 ≤ b.1) := by
  have := List.pairwise_mergeSort leEnt_trans leEnt_total l
  refine this.imp ?_
  intro a b h; simpa [leEnt] using h

/-- a sorted list without adjacent equal hashes is strictly sorted -/
theorem strict_of_adjDup_false : ∀ (l : List Ent), l.Pairwise (fun a b => a.1 ≤ b.1) → adjDup l = false →
    l.Pairwise (fun a b => a.1 < b.1)
  | [], _, _ => List.Pairwise.nil
  | [_], _, _ => by simp
  | a :: b :: r, hp, hd => by
    simp only [adjDup, Bool.or_eq_false_iff, beq_eq_false_iff_ne, ne_eq] at hd
    obtain ⟨hab, hrest⟩ := hd
    rw [List.pairwise_cons] at hp
    obtain ⟨ha, hp'⟩ := hp
    have ih := strict_of_adjDup_false (b :: r) hp' hrest
    rw [List.pairwise_cons]
    refine ⟨?_, ih⟩
    intro x hx
    have hb : a.1 < b.1 := by
      have := ha b (List.mem_cons_self ..)
      omega
    rcases List.mem_cons.mp hx with rfl | hx'
    · exact hb
    · have := (List.pairwise_cons.mp ih).1 x hx'
      omega

/-- a sorted list with an adjacent duplicate has a repeated hash -/
theorem adjDup_true_not_nodup : ∀ (l : List Ent), adjDup l = true → ¬ (l.map (·.1)).Nodup
  | [], h => by simp [adjDup] at h
  | [_], h => by simp [adjDup] at h
  | a :: b :: r, h => by
    simp only [adjDup, Bool.or_eq_true, beq_iff_eq] at h
    rcases h with h | h
    · simp [h]
    · have := adjDup_true_not_nodup (b :: r) h
      intro hn
      rw [List.map_cons, List.nodup_cons] at hn
      exact this hn.2

theorem strict_nodup (l : List Ent) (h : l.Pairwise (fun a b => a.1 < b.1)) : (l.map (·.1)).Nodup := by
  rw [List.Nodup, List.pairwise_map]
  exact h.imp (fun hlt => by omega)

/-- on a sorted list, `adjDup` decides whether a hash repeats -/
theorem adjDup_iff (l : List Ent) (hp : l.Pairwise (fun a b => a.1 ≤ b.1)) :
    adjDup l = true ↔ ¬ (l.map (·.1)).Nodup := by
  constructor
  · exact adjDup_true_not_nodup l
  · intro hn
    cases h : adjDup l with
    | true => rfl
    | false => exact absurd (strict_nodup l (strict_of_adjDup_false l hp h)) hn

/-! ### mining -/

theorem mineFrom_spec (hf : HF) (kvs : List KV) : ∀ (f nonce n : Nat) (sorted : List Ent),
    mineFrom hf kvs f nonce = some (n, sorted) →
    sorted = (hashed hf n kvs).mergeSort leEnt ∧ adjDup sorted = false ∧ nonce ≤ n ∧ n < nonce + f := by
  intro f
  induction f with
  | zero => intro nonce n sorted h; simp [mineFrom] at h
  | succ f ih =>
    intro nonce n sorted h
    simp only [mineFrom] at h
    split at h
    · obtain ⟨a, b, c, d⟩ := ih (nonce+1) n sorted h
      exact ⟨a, b, by omega, by omega⟩
    · rename_i hd
      simp only [Option.some.injEq, Prod.mk.injEq] at h
      obtain ⟨rfl, rfl⟩ := h
      exact ⟨rfl, by simpa using hd, Nat.le_refl _, by omega⟩

/-- if every nonce has a collision, mining fails -/
theorem mineFrom_none (hf : HF) (kvs : List KV)
    (hall : ∀ n, adjDup ((hashed hf n kvs).mergeSort leEnt) = true) : ∀ (f nonce : Nat), mineFrom hf kvs f nonce = none := by
  intro f
  induction f with
  | zero => intro nonce; rfl
  | succ f ih => intro nonce; simp only [mineFrom, hall nonce, if_true]; exact ih (nonce+1)

theorem mine_strict (hf : HF) (kvs : List KV) (n : Nat) (sorted : List Ent) (h : mine hf kvs = some (n, sorted)) :
    sorted.Perm (hashed hf n kvs) ∧ sorted.Pairwise (fun a b => a.1 < b.1) := by
  obtain ⟨hs, hd, _, _⟩ := mineFrom_spec hf kvs _ _ _ _ h
  subst hs
  exact ⟨List.mergeSort_perm _ _, strict_of_adjDup_false _ (sorted_pairwise _) hd⟩

/-! ### allSome -/

/-- simpler access lemma: the i-th result is the i-th input -/
theorem allSome_get {α : Type} (l : List (Option α)) (r : List α) (h : allSome l = some r) (i : Nat) (hi : i < l.length) :
    ∃ hr : i < r.length, l[i] = some r[i] := by
  induction l generalizing r i with
  | nil => simp at hi
  | cons a l ih =>
    cases a with
    | none => simp [allSome] at h
    | some a =>
      simp only [allSome] at h
      split at h
      · cases h
      · rename_i l' hl'
        simp only [Option.some.injEq] at h; subst h
        cases i with
        | zero => exact ⟨by simp, by simp⟩
        | succ j =>
          obtain ⟨hr, e⟩ := ih l' hl' j (by simpa using hi)
          exact ⟨by simpa using hr, by simpa using e⟩

theorem allSome_none_of_mem {α : Type} (l : List (Option α)) (h : none ∈ l) : allSome l = none := by
  induction l with
  | nil => simp at h
  | cons a l ih =>
    cases a with
    | none => rfl
    | some a =>
      have : none ∈ l := by simpa using h
      simp [allSome, ih this]

/-! ### build → lookup -/

theorem buildA_ok (hf : HF) (vs declared : Nat) (m : List (Bytes × Bytes)) (kvs : List KV) (ix : IndexA)
    (h : buildA hf vs declared m kvs = .ok ix) :
    ix.valueSize = vs ∧ ix.numBuckets = numBucketsFor declared ∧ ix.metaKVs = m ∧
    (∀ kv ∈ kvs, ∃ i, hf.bucket kv.key ix.numBuckets = some i ∧ i < ix.numBuckets) ∧
    allSome ((List.range ix.numBuckets).map fun i => sealBucket hf (bucketKVs hf ix.numBuckets kvs i)) = some ix.buckets := by
  unfold buildA at h
  split at h
  · cases h
  · simp only at h
    split at h
    · cases h
    · rename_i hnone
      split at h
      · cases h
      · rename_i hrange
        split at h
        · cases h
        · rename_i bs hbs
          cases h
          refine ⟨rfl, rfl, rfl, ?_, hbs⟩
          intro kv hkv
          simp only [List.any_eq_true, not_exists, not_and] at hnone hrange
          have h1 := hnone kv hkv
          have h2 := hrange kv hkv
          cases hb : hf.bucket kv.key (numBucketsFor declared) with
          | none => simp [hb] at h1
          | some i =>
            refine ⟨i, rfl, ?_⟩
            simp only [hb, decide_eq_true_eq] at h2
            show i < numBucketsFor declared
            omega

theorem getD_toArray (l : List Ent) (j : Nat) : l.toArray.getD j default = l.getD j default := by
  simp [Array.getD, List.getD]
  split <;> rename_i h
  · simp [List.getElem?_eq_getElem h]
  · simp [List.getElem?_eq_none (by omega : l.length ≤ j)]

theorem sorted_array_hyp (l : List Ent) (hs : l.Pairwise (fun a b => a.1 < b.1)) :
    ∀ p q, p < q → q < l.toArray.size → (l.toArray.getD p default).1 < (l.toArray.getD q default).1 := by
  intro p q hpq hq
  have hq' : q < l.length := by simpa using hq
  have hp' : p < l.length := by omega
  rw [getD_toArray, getD_toArray]
  simp only [List.getD, List.getElem?_eq_getElem hq', List.getElem?_eq_getElem hp', Option.getD_some]
  exact (List.pairwise_iff_getElem.mp hs) p q hp' hq' hpq

/-- every key of a sealed bucket is found with its value -/
theorem sealBucket_lookup (hf : HF) (kvs : List KV) (b : BucketA) (h : sealBucket hf kvs = some b)
    (kv : KV) (hkv : kv ∈ kvs) :
    Eytz.search b.entries (hf.entry b.nonce kv.key) (b.entries.size + 1) 0 = some kv.val := by
  unfold sealBucket at h
  split at h
  · cases h
  · rename_i nonce sorted hm
    simp only [Option.some.injEq] at h; subst h
    obtain ⟨hperm, hstrict⟩ := mine_strict hf kvs nonce sorted hm
    have hmem : (hf.entry nonce kv.key, kv.val) ∈ sorted := by
      rw [hperm.mem_iff]
      unfold hashed
      exact List.mem_map.mpr ⟨kv, hkv, rfl⟩
    obtain ⟨j, hj, hjv⟩ := List.getElem_of_mem hmem
    have hsz : (Eytz.layout sorted.toArray).size = sorted.toArray.size := by
      have := Eytz.fill_spec sorted.toArray sorted.toArray.size 1 0 (Array.replicate sorted.toArray.size default) (by omega) (by simp)
      exact this.2.1
    have hc := Eytz.layout_search_complete sorted.toArray (sorted_array_hyp sorted hstrict) j (by simpa using hj)
    have hg : sorted.toArray.getD j default = (hf.entry nonce kv.key, kv.val) := by
      rw [getD_toArray]; simp [List.getD, List.getElem?_eq_getElem hj, hjv]
    rw [hg] at hc
    simp only [hsz]
    exact hc

/-- a hit in a sealed bucket is an inserted pair with the same 24-bit hash -/
theorem sealBucket_sound (hf : HF) (kvs : List KV) (b : BucketA) (h : sealBucket hf kvs = some b)
    (x : Nat) (v : Bytes) (hs : Eytz.search b.entries x (b.entries.size + 1) 0 = some v) :
    ∃ kv ∈ kvs, hf.entry b.nonce kv.key = x ∧ kv.val = v := by
  unfold sealBucket at h
  split at h
  · cases h
  · rename_i nonce sorted hm
    simp only [Option.some.injEq] at h; subst h
    obtain ⟨hperm, _⟩ := mine_strict hf kvs nonce sorted hm
    have hsz : (Eytz.layout sorted.toArray).size = sorted.toArray.size := by
      have := Eytz.fill_spec sorted.toArray sorted.toArray.size 1 0 (Array.replicate sorted.toArray.size default) (by omega) (by simp)
      exact this.2.1
    simp only [hsz] at hs
    obtain ⟨j, hj, hjv⟩ := Eytz.layout_search_sound sorted.toArray x v hs
    have hj' : j < sorted.length := by simpa using hj
    rw [getD_toArray] at hjv
    simp only [List.getD, List.getElem?_eq_getElem hj', Option.getD_some] at hjv
    have hmem : (x, v) ∈ sorted := hjv ▸ List.getElem_mem hj'
    rw [hperm.mem_iff] at hmem
    unfold hashed at hmem
    obtain ⟨kv, hkv, he⟩ := List.mem_map.mp hmem
    simp only [Prod.mk.injEq] at he
    exact ⟨kv, hkv, he.1, he.2⟩

theorem bucket_of_build (hf : HF) (vs declared : Nat) (m : List (Bytes × Bytes)) (kvs : List KV) (ix : IndexA)
    (h : buildA hf vs declared m kvs = .ok ix) (i : Nat) (hi : i < ix.numBuckets) :
    ∃ b, ix.buckets[i]? = some b ∧ sealBucket hf (bucketKVs hf ix.numBuckets kvs i) = some b := by
  obtain ⟨_, _, _, _, hall⟩ := buildA_ok hf vs declared m kvs ix h
  have hlen : i < ((List.range ix.numBuckets).map fun i => sealBucket hf (bucketKVs hf ix.numBuckets kvs i)).length := by
    simpa using hi
  obtain ⟨hr, e⟩ := allSome_get _ _ hall i hlen
  refine ⟨ix.buckets[i], by simp [List.getElem?_eq_getElem hr], ?_⟩
  simpa using e

end CI

namespace CI
open B

/-! ### insertion-order independence -/

theorem sorted_eq_of_perm (l l' : List Ent) (hp : l.Perm l')
    (hd : adjDup (l.mergeSort leEnt) = false) : l.mergeSort leEnt = l'.mergeSort leEnt ∧ adjDup (l'.mergeSort leEnt) = false := by
  have hp2 : (l.mergeSort leEnt).Perm (l'.mergeSort leEnt) :=
    (List.mergeSort_perm l leEnt).trans (hp.trans (List.mergeSort_perm l' leEnt).symm)
  have hs1 := strict_of_adjDup_false _ (sorted_pairwise l) hd
  have hd' : adjDup (l'.mergeSort leEnt) = false := by
    cases h : adjDup (l'.mergeSort leEnt) with
    | false => rfl
    | true =>
      have hn := (adjDup_iff _ (sorted_pairwise l')).mp h
      have : ((l.mergeSort leEnt).map (·.1)).Nodup := strict_nodup _ hs1
      exact absurd ((hp2.map _).nodup_iff.mp this) hn
  have hs2 := strict_of_adjDup_false _ (sorted_pairwise l') hd'
  refine ⟨?_, hd'⟩
  exact List.Perm.eq_of_pairwise (le := fun a b => a.1 < b.1) (fun a b _ _ h1 h2 => by omega) hs1 hs2 hp2

theorem adjDup_perm (l l' : List Ent) (hp : l.Perm l') :
    adjDup (l.mergeSort leEnt) = adjDup (l'.mergeSort leEnt) := by
  cases h : adjDup (l.mergeSort leEnt) with
  | false => exact (sorted_eq_of_perm l l' hp h).2.symm
  | true =>
    cases h' : adjDup (l'.mergeSort leEnt) with
    | true => rfl
    | false =>
      have := (sorted_eq_of_perm l' l hp.symm h').2
      rw [h] at this; cases this

theorem mineFrom_perm (hf : HF) (kvs kvs' : List KV) (hp : kvs.Perm kvs') :
    ∀ f nonce, mineFrom hf kvs f nonce = mineFrom hf kvs' f nonce := by
  intro f
  induction f with
  | zero => intro nonce; rfl
  | succ f ih =>
    intro nonce
    have hph : (hashed hf nonce kvs).Perm (hashed hf nonce kvs') := hp.map _
    simp only [mineFrom]
    rw [adjDup_perm _ _ hph]
    cases hd : adjDup ((hashed hf nonce kvs').mergeSort leEnt) with
    | true => simp only [if_true]; exact ih (nonce+1)
    | false =>
      have hd0 : adjDup ((hashed hf nonce kvs).mergeSort leEnt) = false := by rw [adjDup_perm _ _ hph]; exact hd
      simp only [Bool.false_eq_true, if_false]
      rw [(sorted_eq_of_perm _ _ hph hd0).1]

theorem sealBucket_perm (hf : HF) (kvs kvs' : List KV) (hp : kvs.Perm kvs') : sealBucket hf kvs = sealBucket hf kvs' := by
  unfold sealBucket mine
  rw [mineFrom_perm hf kvs kvs' hp]

theorem any_perm {α : Type} (p : α → Bool) (l l' : List α) (hp : l.Perm l') : l.any p = l'.any p := by
  rw [Bool.eq_iff_iff, List.any_eq_true, List.any_eq_true]
  constructor
  · rintro ⟨x, hx, h⟩; exact ⟨x, hp.mem_iff.mp hx, h⟩
  · rintro ⟨x, hx, h⟩; exact ⟨x, hp.mem_iff.mpr hx, h⟩

/-- the sealed index does not depend on the order of the inserts -/
theorem buildA_perm (hf : HF) (vs declared : Nat) (m : List (Bytes × Bytes)) (kvs kvs' : List KV) (hp : kvs.Perm kvs') :
    buildA hf vs declared m kvs = buildA hf vs declared m kvs' := by
  unfold buildA
  have h1 := any_perm (fun kv => (hf.bucket kv.key (numBucketsFor declared)).isNone) kvs kvs' hp
  have h3 : ((List.range (numBucketsFor declared)).map fun i => sealBucket hf (bucketKVs hf (numBucketsFor declared) kvs i))
       = ((List.range (numBucketsFor declared)).map fun i => sealBucket hf (bucketKVs hf (numBucketsFor declared) kvs' i)) := by
    apply List.map_congr_left
    intro i _
    exact sealBucket_perm hf _ _ (hp.filter _)
  simp only [h1, h3]
  rw [any_perm _ kvs kvs' hp]

end CI

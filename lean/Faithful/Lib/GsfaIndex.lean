import Faithful.Lib.GsfaLog
import Faithful.Lib.GsfaRank
/-!
# gsfa (C06): the whole pipeline — `Push`* under any schedule, `Close`, the files, `GsfaReader.Get`
-/
namespace Gsfa

variable {A : AccMap} {Rk : RankMap} {H : HeadMap}

/-- one `GsfaWriter.Push(offset, length, slot, publicKeys, flags…)` call -/
structure PushCall where
  slot : Nat
  addrs : List Addr
  e : Entry
deriving Repr

/-- the client events of one `Push`: the periodic-flush preamble, then one push per address of
    `publicKeys.Dedupe()` / `Sort()` -/
def clientEvents (c : PushCall) : List Ev :=
  .begin c.slot :: (sortDedup c.addrs).map (fun a => .push a c.e)

/-- writer run under the schedule `evs`, `Close`, linked-log file and head index -/
def index (A : AccMap) (Rk : RankMap) (H : HeadMap) (Z : Zstd) (p : Params) (evs : List Ev) : Res (LogSt H) :=
  match buildFrom Z (close p (run p evs (init : St A Rk))).log LogSt.init with
  | .ok s => sealHeads s
  | .error e => .error e

/-! ### histories -/

theorem hist_append (a : Addr) (l1 l2 : List Ev) : hist a (l1 ++ l2) = hist a l1 ++ hist a l2 := by
  induction l1 with
  | nil => rfl
  | cons ev l1 ih => rw [List.cons_append, hist_cons, hist_cons, ih, List.append_assoc]

theorem hist_filter_client (a : Addr) (evs : List Ev) : hist a (evs.filter Ev.isClient) = hist a evs := by
  induction evs with
  | nil => rfl
  | cons ev evs ih =>
    cases ev with
    | bgRecv => simp [List.filter, Ev.isClient, ih, hist]
    | begin s => simp [List.filter, Ev.isClient, ih, hist]
    | push a' e => simp [List.filter, Ev.isClient, ih, hist]

theorem hist_map_push (a : Addr) (e : Entry) (l : List Addr) (hp : l.Pairwise (· < ·)) :
    hist a (l.map (fun x => Ev.push x e)) = if a ∈ l then [e] else [] := by
  induction l with
  | nil => rfl
  | cons x xs ih =>
    have hx := List.pairwise_cons.mp hp
    simp only [List.map_cons, hist, ih hx.2, List.mem_cons]
    by_cases hxa : x = a
    · subst hxa
      have : x ∉ xs := fun hm => Nat.lt_irrefl _ (hx.1 x hm)
      simp [this]
    · have : ¬ a = x := fun e => hxa e.symm
      simp [hxa, this]

theorem hist_clientEvents (a : Addr) (c : PushCall) :
    hist a (clientEvents c) = if a ∈ c.addrs then [c.e] else [] := by
  simp only [clientEvents, hist]
  rw [hist_map_push a c.e _ (pairwise_sortDedup _)]
  simp only [mem_sortDedup]

/-- the entries pushed with address `a`, oldest first -/
def pushesOf (a : Addr) (ps : List PushCall) : List Entry := (ps.filter (fun c => decide (a ∈ c.addrs))).map (·.e)

theorem hist_calls (a : Addr) (ps : List PushCall) : hist a (ps.flatMap clientEvents) = pushesOf a ps := by
  induction ps with
  | nil => rfl
  | cons c ps ih =>
    rw [List.flatMap_cons, hist_append, ih, hist_clientEvents]
    unfold pushesOf
    by_cases h : a ∈ c.addrs <;> simp [List.filter, h]

theorem pushCount_append (l1 l2 : List Ev) : pushCount (l1 ++ l2) = pushCount l1 + pushCount l2 := by
  induction l1 with
  | nil => simp [pushCount]
  | cons ev l1 ih => cases ev <;> simp [pushCount, ih] <;> omega

theorem pushCount_filter_client (evs : List Ev) : pushCount (evs.filter Ev.isClient) = pushCount evs := by
  induction evs with
  | nil => rfl
  | cons ev evs ih => cases ev <;> simp [List.filter, Ev.isClient, pushCount, ih]

theorem pushCount_map_push (e : Entry) (l : List Addr) : pushCount (l.map (fun x => Ev.push x e)) = l.length := by
  induction l with
  | nil => rfl
  | cons x xs ih => simp [pushCount, ih]

/-- (address, entry) pairs of a client history -/
def pairCount (ps : List PushCall) : Nat := (ps.map (fun c => (sortDedup c.addrs).length)).sum

theorem pushCount_calls (ps : List PushCall) : pushCount (ps.flatMap clientEvents) = pairCount ps := by
  induction ps with
  | nil => rfl
  | cons c ps ih =>
    rw [List.flatMap_cons, pushCount_append, ih]
    simp [clientEvents, pushCount, pushCount_map_push, pairCount]

/-! ### the round trip -/

/-- **the index round trip at event level**: whatever the schedule, if the writer completes and no record
    reaches 4 GiB, `Get` returns the address's pushes newest first (cut at `limit`), and "not found" exactly
    for an address that was never pushed -/
theorem index_roundtrip (Z : Zstd) (hZ : Z.Lawful) (p : Params) (evs : List Ev)
    (hne : NoEvict p (init : St A Rk) evs)
    (idx : LogSt H) (hidx : index A Rk H Z p evs = .ok idx) (hrec : ∀ r ∈ idx.rrecs, r.length < 2 ^ 32)
    (a : Addr) (limit : Nat) (hl : 0 < limit) :
    readerGet Z idx a limit =
      if hist a evs = [] then .error (.err "notfound") else .ok ((hist a evs).reverse.take limit) := by
  unfold index at hidx
  cases hb : buildFrom Z (close p (run p evs (init : St A Rk))).log (LogSt.init : LogSt H) with
  | error e => rw [hb] at hidx; cases hidx
  | ok s =>
    rw [hb] at hidx
    simp only at hidx
    obtain ⟨rfl, hfit⟩ := sealHeads_ok s idx hidx
    obtain ⟨c, hg, hc⟩ := buildFrom_good Z _ LogSt.init idx [] (fun _ => []) (good_init Z)
      (fun a => by simp) hb hrec
    rw [readerGet_good Z hZ idx c hg a (hfit a) limit hl]
    have hca := hc a
    rw [List.nil_append, closed_log p evs hne a] at hca
    by_cases hh : hist a evs = []
    · have : c a = [] := by
        cases hcc : c a with
        | nil => rfl
        | cons es older =>
          exfalso
          rw [hcc, hh] at hca
          simp only [List.flatMap_cons, List.reverse_nil, List.append_eq_nil_iff, List.reverse_eq_nil_iff] at hca
          exact hg.nonempty a es (by rw [hcc]; exact List.mem_cons_self ..) hca.1
      simp [this, hh]
    · have : c a ≠ [] := by
        intro h0
        rw [h0] at hca
        simp only [List.flatMap_nil] at hca
        exact hh (List.reverse_eq_nil_iff.mp hca.symm)
      simp [this, hh, hca]

end Gsfa

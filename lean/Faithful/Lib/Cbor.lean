/-! CBOR data-model tree + a definite-length byte decoder (core Lean only).

The tree is what both third-party byte parsers of the repository (fxamacker/cbor for the hand-written decoders,
refmt/dag-cbor for the bindnode path) hand to the code above them.  The byte decoder is used by the driver only
(bytes → tree is trusted base for the theorems; the correspondence runs compare it with the real parsers).
Ported from the design-round prototype (validated against 317 real objects of a generated CAR). -/
namespace Cbor

abbrev Bytes := List UInt8

/-- CBOR data model (definite lengths). `nint n` is the integer `-1 - n`. -/
inductive Val where
  | uint   : Nat → Val
  | nint   : Nat → Val
  | bytes  : Bytes → Val
  | text   : Bytes → Val
  | arr    : List Val → Val
  | map    : List (Val × Val) → Val
  | tag    : Nat → Val → Val
  | bool   : Bool → Val
  | null   : Val
  | undef  : Val
  | simple : Nat → Val          -- other simple values
  | float  : Nat → Nat → Val    -- width (2/4/8 bytes), raw bits
  deriving Inhabited, Repr

def beNat : Bytes → Nat := fun b => b.foldl (fun acc x => acc * 256 + x.toNat) 0

/-- read the argument of an initial byte: returns (value, rest) -/
def readArg (ai : Nat) (rest : Bytes) : Option (Nat × Bytes) :=
  if ai < 24 then some (ai, rest)
  else
    let w := if ai = 24 then 1 else if ai = 25 then 2 else if ai = 26 then 4 else if ai = 27 then 8 else 0
    if w = 0 then none
    else if rest.length < w then none
    else some (beNat (rest.take w), rest.drop w)

def pairs : List Val → List (Val × Val)
  | a :: b :: r => (a, b) :: pairs r
  | _ => []

mutual
  /-- decode one item; `fuel` bounds nesting + number of items (2·input length + 2 suffices: every item
      takes at least one byte and every list element costs one unit more than its predecessor) -/
  def decode : Nat → Bytes → Option (Val × Bytes)
    | 0, _ => none
    | _, [] => none
    | fuel+1, b :: rest =>
      let major := b.toNat / 32
      let ai := b.toNat % 32
      if major = 7 then
        if ai = 20 then some (.bool false, rest)
        else if ai = 21 then some (.bool true, rest)
        else if ai = 22 then some (.null, rest)
        else if ai = 23 then some (.undef, rest)
        else if ai < 24 then some (.simple ai, rest)
        else match readArg ai rest with
          | none => none
          | some (n, rest) => if ai = 24 then some (.simple n, rest) else some (.float (if ai = 25 then 2 else if ai = 26 then 4 else 8) n, rest)
      else
      match readArg ai rest with
      | none => none
      | some (n, rest) =>
        match major with
        | 0 => some (.uint n, rest)
        | 1 => some (.nint n, rest)
        | 2 => if rest.length < n then none else some (.bytes (rest.take n), rest.drop n)
        | 3 => if rest.length < n then none else some (.text (rest.take n), rest.drop n)
        | 4 => match decodeN fuel n rest with
               | some (vs, rest) => some (.arr vs, rest)
               | none => none
        | 5 => match decodeN fuel (2*n) rest with
               | some (vs, rest) => some (.map (pairs vs), rest)
               | none => none
        | 6 => match decode fuel rest with
               | some (v, rest) => some (.tag n v, rest)
               | none => none
        | _ => none
  def decodeN : Nat → Nat → Bytes → Option (List Val × Bytes)
    | _, 0, rest => some ([], rest)
    | 0, _, _ => none
    | fuel+1, n+1, rest =>
      match decode fuel rest with
      | none => none
      | some (v, rest) =>
        match decodeN fuel n rest with
        | none => none
        | some (vs, rest) => some (v :: vs, rest)
end

/-- the whole input is exactly one item -/
def decodeAll (b : Bytes) : Option Val :=
  match decode (2 * b.length + 2) b with
  | some (v, []) => some v
  | _ => none

/-- the first item of the input (what a streaming decoder that ignores trailing bytes sees), and whether bytes remain -/
def decodeFirst (b : Bytes) : Option (Val × Bool) :=
  match decode (2 * b.length + 2) b with
  | some (v, rest) => some (v, !rest.isEmpty)
  | none => none

/-- largest array length / map pair count / nesting depth that occur in a tree, computed with fuel
    (`fuel` ≥ depth of the tree; the driver passes the input length). Used to model parser resource limits. -/
structure Stats where
  maxArr : Nat := 0
  maxMap : Nat := 0
  depth : Nat := 0
  deriving Repr, DecidableEq

def Stats.join (a b : Stats) : Stats := ⟨max a.maxArr b.maxArr, max a.maxMap b.maxMap, max a.depth b.depth⟩

def stats : Nat → Val → Stats
  | 0, _ => {}
  | fuel+1, .arr xs =>
    let s : Stats := xs.foldl (fun (s : Stats) v => s.join (stats fuel v)) {}
    ⟨max xs.length s.maxArr, s.maxMap, s.depth + 1⟩
  | fuel+1, .map kvs =>
    let s : Stats := kvs.foldl (fun (s : Stats) kv => (s.join (stats fuel kv.1)).join (stats fuel kv.2)) {}
    ⟨s.maxArr, max kvs.length s.maxMap, s.depth + 1⟩
  | fuel+1, .tag _ v => let s := stats fuel v; ⟨s.maxArr, s.maxMap, s.depth + 1⟩
  | _, _ => {}

end Cbor

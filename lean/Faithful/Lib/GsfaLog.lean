import Faithful.Lib.Gsfa
import Faithful.Lib.Varint
import Faithful.Lib.Bytes
/-!
# gsfa linked log (C06): records, previous-record pointers, the reader

`LinkedLog.Put` writes one record per batch:
`uvarint(len z + 9) ‖ z ‖ prev`, `z = zstd(entries newest-first)`, `prev` = 6-byte offset ‖ 3-byte size of the
previous record of the same address (all zero when there is none), and reports `(offset, total size)`;
the writer keeps that in `offsets` (it becomes the pubkey → offset-and-size index).
`GsfaReader.Get` starts at the head pointer and follows `prev`.

`readWithSize` is the **repaired** reader (/verif/fixes/C06-2.patch): it takes the width of the length prefix
from the record.  `readWithSizeOld` is the pinned one, kept to state what was wrong with it.

zstd is abstract: `Z.compress`, `Z.decompress` with the round-trip law as the only hypothesis (no assumption
on the output length).
-/
namespace Gsfa

abbrev Bytes := List UInt8

inductive Fail where
  | err (why : String)
  | panic (why : String)
deriving DecidableEq, Repr

abbrev Res := Except Fail

instance {α : Type} [DecidableEq α] : DecidableEq (Res α) := fun a b =>
  match a, b with
  | .ok x, .ok y => if h : x = y then isTrue (by rw [h]) else isFalse (by intro e; cases e; exact h rfl)
  | .error x, .error y => if h : x = y then isTrue (by rw [h]) else isFalse (by intro e; cases e; exact h rfl)
  | .ok _, .error _ => isFalse (by intro e; cases e)
  | .error _, .ok _ => isFalse (by intro e; cases e)

/-! ## varints with fuel (kernel-evaluable), Go `binary.PutUvarint` / `binary.Uvarint` on `uint64` -/

def putF : Nat → Nat → Bytes
  | 0, _ => []
  | f+1, v => if v < 128 then [UInt8.ofNat v] else UInt8.ofNat (v % 128 + 128) :: putF f (v / 128)

/-- `binary.PutUvarint` / `AppendUvarint` of a `uint64` (at most 10 bytes) -/
def putU64 (v : Nat) : Bytes := putF 10 v

theorem putF_eq (f v : Nat) (h : Varint.width v ≤ f) : putF f v = Varint.put v := by
  induction f generalizing v with
  | zero => have := Varint.put_length_pos v; unfold Varint.width at h; omega
  | succ f ih =>
    rw [putF, Varint.put]
    by_cases hv : v < 128
    · simp [hv]
    · simp only [hv, if_false, dite_false]
      rw [ih]
      rw [Varint.width_ge128 hv] at h; omega

theorem width_le_of_lt_pow (k : Nat) (hk : 0 < k) (v : Nat) (h : v < 128 ^ k) : Varint.width v ≤ k := by
  induction k generalizing v with
  | zero => omega
  | succ k ih =>
    by_cases hv : v < 128
    · rw [Varint.width_lt128 hv]; omega
    · rw [Varint.width_ge128 hv]
      have hk0 : 0 < k := by
        apply Nat.pos_of_ne_zero; intro h0; subst h0; simp at h; omega
      have : v / 128 < 128 ^ k := by
        rw [Nat.pow_succ] at h
        exact Nat.div_lt_of_lt_mul (by rw [Nat.mul_comm]; exact h)
      have := ih hk0 (v / 128) this
      omega

theorem width_u64 {v : Nat} (h : v < 2 ^ 64) : Varint.width v ≤ 10 :=
  width_le_of_lt_pow 10 (by decide) v (Nat.lt_of_lt_of_le h (by decide))

theorem putU64_eq {v : Nat} (h : v < 2 ^ 64) : putU64 v = Varint.put v := putF_eq 10 v (width_u64 h)

/-- `binary.Uvarint`: `some (value, n)` when `n > 0`; `none` for a truncated or overflowing encoding -/
def uvarint64 (b : Bytes) : Option (Nat × Nat) :=
  match Varint.get b 10 with
  | some (v, n) => if v < 2 ^ 64 then some (v, n) else none
  | none => none

theorem uvarint64_put {v : Nat} (h : v < 2 ^ 64) (rest : Bytes) :
    uvarint64 (putU64 v ++ rest) = some (v, (putU64 v).length) := by
  rw [putU64_eq h]
  unfold uvarint64
  rw [Varint.get_put v rest 10 (width_u64 h)]
  simp [h, Varint.width]

/-! ## entries -/

/-- `OffsetAndSizeAndSlot.Bytes` -/
def encEntry (e : Entry) : Bytes :=
  putU64 e.off.toNat ++ putU64 e.size.toNat ++ putU64 e.slot.toNat ++ [e.flags]

def encEntries (es : List Entry) : Bytes := es.flatMap encEntry

/-- `OffsetAndSizeAndSlotSliceFromBytes`: loop of `FromReader`; an EOF at a field boundary ends the list
    silently (also in the middle of an entry), a malformed uvarint is an error.  Fuel: one unit per entry. -/
def parseEntries : Nat → Bytes → Res (List Entry)
  | 0, _ => .error (.err "fuel")
  | fuel+1, buf =>
    if buf.isEmpty then .ok [] else
    match uvarint64 buf with
    | none => .error (.err "failed to parse uvarint")
    | some (off, n1) =>
      let b1 := buf.drop n1
      if b1.isEmpty then .ok [] else
      match uvarint64 b1 with
      | none => .error (.err "failed to parse uvarint")
      | some (size, n2) =>
        let b2 := b1.drop n2
        if b2.isEmpty then .ok [] else
        match uvarint64 b2 with
        | none => .error (.err "failed to parse uvarint")
        | some (slot, n3) =>
          match b2.drop n3 with
          | [] => .ok []
          | fl :: rest =>
            match parseEntries fuel rest with
            | .ok es => .ok (⟨UInt64.ofNat off, UInt64.ofNat size, UInt64.ofNat slot, fl⟩ :: es)
            | .error e => .error e

theorem putU64_ne_nil (v : Nat) : putU64 v ≠ [] := by
  simp [putU64, putF]; split <;> simp

theorem drop_put_append (v : Nat) (rest : Bytes) : (putU64 v ++ rest).drop (putU64 v).length = rest := by
  simp

theorem parse_enc (es : List Entry) (fuel : Nat) (hf : es.length < fuel) :
    parseEntries fuel (encEntries es) = .ok es := by
  induction es generalizing fuel with
  | nil =>
    obtain ⟨f, rfl⟩ : ∃ f, fuel = f + 1 := ⟨fuel - 1, by simp at hf; omega⟩
    simp [parseEntries, encEntries]
  | cons e es ih =>
    obtain ⟨f, rfl⟩ : ∃ f, fuel = f + 1 := ⟨fuel - 1, by simp at hf; omega⟩
    have hoff := e.off.toNat_lt
    have hsize := e.size.toNat_lt
    have hslot := e.slot.toNat_lt
    have e1 : encEntries (e :: es) =
        putU64 e.off.toNat ++ (putU64 e.size.toNat ++ (putU64 e.slot.toNat ++ (e.flags :: encEntries es))) := by
      simp [encEntries, encEntry, List.append_assoc]
    rw [e1, parseEntries]
    have hne1 : (putU64 e.off.toNat ++ (putU64 e.size.toNat ++ (putU64 e.slot.toNat ++ (e.flags :: encEntries es)))).isEmpty = false := by
      have := putU64_ne_nil e.off.toNat
      cases h : putU64 e.off.toNat <;> simp_all
    rw [hne1, uvarint64_put hoff]
    simp only [Bool.false_eq_true, if_false, drop_put_append]
    have hne2 : (putU64 e.size.toNat ++ (putU64 e.slot.toNat ++ (e.flags :: encEntries es))).isEmpty = false := by
      have := putU64_ne_nil e.size.toNat
      cases h : putU64 e.size.toNat <;> simp_all
    rw [hne2, uvarint64_put hsize]
    simp only [Bool.false_eq_true, if_false, drop_put_append]
    have hne3 : (putU64 e.slot.toNat ++ (e.flags :: encEntries es)).isEmpty = false := by
      have := putU64_ne_nil e.slot.toNat
      cases h : putU64 e.slot.toNat <;> simp_all
    rw [hne3, uvarint64_put hslot]
    simp only [Bool.false_eq_true, if_false, drop_put_append]
    rw [ih f (by simp at hf; omega)]
    simp

/-! ## pointers -/

structure Ptr where
  off : Nat
  size : Nat
deriving DecidableEq, Repr, Inhabited

def Ptr.zero : Ptr := ⟨0, 0⟩
/-- `indexes.OffsetAndSize.IsZero` -/
def Ptr.isZero (p : Ptr) : Bool := p.off == 0 && p.size == 0

def maxU48 : Nat := 2 ^ 48 - 1
def maxU24 : Nat := 2 ^ 24 - 1

/-- the pointer fits the 6 + 3 byte encoding -/
def Ptr.fits (p : Ptr) : Prop := p.off ≤ maxU48 ∧ p.size ≤ maxU24
instance (p : Ptr) : Decidable p.fits := by unfold Ptr.fits; exact inferInstance

/-- `indexes.OffsetAndSize.Bytes` = `Uint48tob(offset) ‖ Uint24tob(uint32(size))`; both panic out of range -/
def ptrBytes (p : Ptr) : Res Bytes :=
  if p.off > maxU48 then .error (.panic "uint48tob: value out of range")
  else if p.size % 2 ^ 32 > maxU24 then .error (.panic "uint24tob: value out of range")
  else .ok (B.le 6 p.off ++ B.le 3 (p.size % 2 ^ 32))

/-- `indexes.OffsetAndSize.FromBytes` on 9 bytes -/
def ptrOfBytes (b : Bytes) : Ptr := ⟨B.unle (b.take 6), B.unle (b.drop 6)⟩

theorem ptrBytes_ok {p : Ptr} (h : p.fits) : ptrBytes p = .ok (B.le 6 p.off ++ B.le 3 p.size) := by
  unfold Ptr.fits maxU48 maxU24 at h
  unfold ptrBytes maxU48 maxU24
  have h1 : ¬ p.off > 2 ^ 48 - 1 := by omega
  have h2 : p.size % 2 ^ 32 = p.size := Nat.mod_eq_of_lt (by omega)
  have h3 : ¬ p.size > 2 ^ 24 - 1 := by omega
  simp only [h1, h2, h3, if_false]

theorem ptrBytes_length {p : Ptr} {b : Bytes} (h : ptrBytes p = .ok b) : b.length = 9 := by
  unfold ptrBytes at h
  split at h
  · cases h
  · split at h
    · cases h
    · cases h; simp [B.le_length]

/-- if `ptrBytes` succeeds for a pointer whose size is below 2^32, the pointer fits and decodes back -/
theorem ptrOfBytes_ptrBytes {p : Ptr} {b : Bytes} (hs : p.size < 2 ^ 32) (h : ptrBytes p = .ok b) :
    ptrOfBytes b = p ∧ p.fits := by
  unfold ptrBytes at h
  split at h
  · cases h
  · split at h
    · cases h
    · rename_i h1 h2
      cases h
      have hm : p.size % 2 ^ 32 = p.size := Nat.mod_eq_of_lt hs
      rw [hm] at h2 ⊢
      unfold maxU48 at h1; unfold maxU24 at h2
      constructor
      · unfold ptrOfBytes
        have e1 : (B.le 6 p.off ++ B.le 3 p.size).take 6 = B.le 6 p.off := by
          rw [List.take_append_of_le_length (by simp [B.le_length])]
          rw [List.take_of_length_le (by simp [B.le_length])]
        have e2 : (B.le 6 p.off ++ B.le 3 p.size).drop 6 = B.le 3 p.size := by
          rw [List.drop_append_of_le_length (by simp [B.le_length])]
          rw [List.drop_of_length_le (by simp [B.le_length])]
          simp
        rw [e1, e2, B.unle_le_of_lt 6 _ (by omega), B.unle_le_of_lt 3 _ (by omega)]
      · unfold Ptr.fits maxU48 maxU24; omega

/-! ## zstd, abstract -/

structure Zstd where
  compress : Bytes → Bytes
  decompress : Bytes → Option Bytes

/-- the only thing assumed about zstd -/
def Zstd.Lawful (Z : Zstd) : Prop := ∀ b, Z.decompress (Z.compress b) = some b

/-! ## records -/

/-- the bytes `Put` writes for one batch (`es` oldest first, as accumulated; `Put` reverses it);
    `pb` are the 9 pointer bytes -/
def mkRecord (Z : Zstd) (es : List Entry) (pb : Bytes) : Bytes :=
  let z := Z.compress (encEntries es.reverse)
  putU64 (z.length + 9) ++ z ++ pb

def mib256 : Nat := 256 * 1024 * 1024

/-- `LinkedLog.ReadWithSize(offset, size)` — repaired: the prefix width comes from the record -/
def readWithSize (Z : Zstd) (file : Bytes) (off size : Nat) : Res (List Entry × Ptr) :=
  if size > mib256 then .error (.err "compacted indexes length too large") else
  let rec_ := B.slice file off size
  if rec_.length < size then .error (.err "EOF") else
  match uvarint64 rec_ with
  | none => .error (.err "invalid record")
  | some (l, n) =>
    if n + l ≠ size ∨ l < 9 then .error (.err "invalid record") else
    let data := rec_.drop n
    let idxBytes := data.take (data.length - 9)
    let next := ptrOfBytes (data.drop (data.length - 9))
    match Z.decompress idxBytes with
    | none => .error (.err "error while decompressing indexes")
    | some raw =>
      match parseEntries (raw.length + 1) raw with
      | .ok es => .ok (es, next)
      | .error e => .error e

/-- the pinned reader: skips `width size` bytes — the width of the *total*, not of the prefix -/
def readWithSizeOld (Z : Zstd) (file : Bytes) (off size : Nat) : Res (List Entry × Ptr) :=
  if size > mib256 then .error (.err "compacted indexes length too large") else
  let w := (putU64 size).length
  let data := B.slice file (off + w) (size - w)
  if data.length < size - w then .error (.err "EOF") else
  if data.length < 9 then .error (.panic "slice bounds out of range") else
  let idxBytes := data.take (data.length - 9)
  let next := ptrOfBytes (data.drop (data.length - 9))
  match Z.decompress idxBytes with
  | none => .error (.err "error while decompressing indexes")
  | some raw =>
    match parseEntries (raw.length + 1) raw with
    | .ok es => .ok (es, next)
    | .error e => .error e

theorem encEntries_length_ge (es : List Entry) : es.length ≤ (encEntries es).length := by
  induction es with
  | nil => simp [encEntries]
  | cons e es ih =>
    have : encEntries (e :: es) = encEntry e ++ encEntries es := by simp [encEntries]
    rw [this, List.length_append, List.length_cons]
    have : 1 ≤ (encEntry e).length := by simp [encEntry]; omega
    omega

/-- **record round trip, for every compressed length**: a record found at `off` in the file, read with its
    total size, yields its entries newest-first and its previous pointer -/
theorem record_roundtrip (Z : Zstd) (hZ : Z.Lawful) (es : List Entry) (prev : Ptr) (pb : Bytes)
    (hpb : ptrBytes prev = .ok pb) (hprev : prev.size < 2 ^ 32)
    (file : Bytes) (off : Nat) (hslice : B.slice file off (mkRecord Z es pb).length = mkRecord Z es pb)
    (hsize : (mkRecord Z es pb).length ≤ mib256) :
    readWithSize Z file off (mkRecord Z es pb).length = .ok (es.reverse, prev) := by
  have hpl := ptrBytes_length hpb
  have hL : (Z.compress (encEntries es.reverse)).length + 9 < 2 ^ 64 := by
    have : (Z.compress (encEntries es.reverse)).length + 9 ≤ (mkRecord Z es pb).length := by
      simp [mkRecord, hpl]
    unfold mib256 at hsize; omega
  unfold readWithSize
  have h1 : ¬ (mkRecord Z es pb).length > mib256 := by omega
  simp only [h1, if_false, hslice, Nat.lt_irrefl]
  have hrec : mkRecord Z es pb = putU64 ((Z.compress (encEntries es.reverse)).length + 9) ++
      (Z.compress (encEntries es.reverse) ++ pb) := by simp [mkRecord, List.append_assoc]
  rw [hrec, uvarint64_put hL]
  simp only [drop_put_append, List.length_append, hpl]
  have h2 : ¬ ((putU64 ((Z.compress (encEntries es.reverse)).length + 9)).length +
      ((Z.compress (encEntries es.reverse)).length + 9) ≠
      (putU64 ((Z.compress (encEntries es.reverse)).length + 9)).length +
        ((Z.compress (encEntries es.reverse)).length + 9) ∨
      (Z.compress (encEntries es.reverse)).length + 9 < 9) := by omega
  simp only [h2, if_false, Nat.add_sub_cancel]
  rw [List.take_append_of_le_length (Nat.le_refl _), List.take_of_length_le (Nat.le_refl _)]
  rw [List.drop_append_of_le_length (Nat.le_refl _), List.drop_of_length_le (Nat.le_refl _)]
  simp only [List.nil_append, hZ _]
  rw [parse_enc _ _ (by have := encEntries_length_ge es.reverse; omega)]
  rw [(ptrOfBytes_ptrBytes hprev hpb).1]

/-! ## the log file and the head pointers -/

abbrev HeadMap := FMap Ptr Ptr.zero

structure LogSt (H : HeadMap) where
  /-- the records written so far, NEWEST FIRST (the file is their concatenation in write order) -/
  rrecs : List Bytes
  /-- `LinkedLog.offset` -/
  off : Nat
  /-- `GsfaWriter.offsets`: address → (offset, size) of its newest record -/
  heads : H.M

variable {H : HeadMap}

def LogSt.init : LogSt H := { rrecs := [], off := 0, heads := H.empty }

def LogSt.file (s : LogSt H) : Bytes := s.rrecs.reverse.flatten

/-- `flushKVs` → `LinkedLog.Put` for one batch: an empty batch is skipped; the previous pointer comes from
    `offsets` (callbackBefore), the new head is `(offset, uint32(bytes written))` (callbackAfter) -/
def flushRec (Z : Zstd) (s : LogSt H) (b : Batch) : Res (LogSt H) :=
  if b.2.isEmpty then .ok s else
  match ptrBytes (H.get s.heads b.1) with
  | .error e => .error e
  | .ok pb =>
    let r := mkRecord Z b.2 pb
    .ok { rrecs := r :: s.rrecs, off := s.off + r.length, heads := H.set s.heads b.1 ⟨s.off, r.length % 2 ^ 32⟩ }

def buildFrom (Z : Zstd) : List Batch → LogSt H → Res (LogSt H)
  | [], s => .ok s
  | b :: bs, s =>
    match flushRec Z s b with
    | .ok s' => buildFrom Z bs s'
    | .error e => .error e

/-- `Close`: every head pointer goes into the pubkey → offset-and-size index, which refuses values that do
    not fit 6 + 3 bytes -/
def sealHeads (s : LogSt H) : Res (LogSt H) :=
  if (H.keys s.heads).all (fun k => decide (H.get s.heads k).fits) then .ok s
  else .error (.err "offset or size is too large")

/-! ## the reader -/

/-- the loop of `GsfaReader.Get`; fuel: one unit per record visited -/
def walk (Z : Zstd) (file : Bytes) : Nat → Ptr → Nat → List Entry → Res (List Entry)
  | 0, _, _, _ => .error (.err "fuel")
  | fuel+1, next, limit, acc =>
    if next.isZero then .ok acc
    else if acc.length ≥ limit then .ok acc
    else
      match readWithSize Z file next.off next.size with
      | .error e => .error e
      | .ok (locs, nn) => walk Z file fuel nn limit (acc ++ locs.take (limit - acc.length))

/-- `GsfaReader.Get(pk, limit)` over the linked-log bytes `file` and the head index `heads`
    (`nrecs`: number of records in the file, only used as fuel) -/
def readerGetF (Z : Zstd) (file : Bytes) (heads : H.M) (nrecs : Nat) (a : Addr) (limit : Nat) : Res (List Entry) :=
  if limit = 0 then .ok [] else
  if H.get heads a = Ptr.zero then .error (.err "notfound")
  else walk Z file (nrecs + 1) (H.get heads a) limit []

def readerGet (Z : Zstd) (s : LogSt H) (a : Addr) (limit : Nat) : Res (List Entry) :=
  readerGetF Z s.file s.heads s.rrecs.length a limit

/-! ## refinement: head pointers address chains of records -/

/-- `Chain Z file p l`: `p` addresses a record holding batch `l.head`, whose previous pointer addresses a
    chain for `l.tail` (so `l` is newest first); the empty chain is the zero pointer -/
def Chain (Z : Zstd) (file : Bytes) : Ptr → List (List Entry) → Prop
  | p, [] => p = Ptr.zero
  | p, es :: older => ∃ prev pb, ptrBytes prev = .ok pb ∧ prev.size < 2 ^ 32 ∧
      B.slice file p.off (mkRecord Z es pb).length = mkRecord Z es pb ∧
      p.off + (mkRecord Z es pb).length ≤ file.length ∧
      p.size = (mkRecord Z es pb).length ∧ p.size < 2 ^ 32 ∧ Chain Z file prev older

theorem chain_extend (Z : Zstd) (file r : Bytes) (p : Ptr) (l : List (List Entry)) (h : Chain Z file p l) :
    Chain Z (file ++ r) p l := by
  induction l generalizing p with
  | nil => exact h
  | cons es older ih =>
    obtain ⟨prev, pb, h1, h2, h3, h4, h5, h7, h6⟩ := h
    refine ⟨prev, pb, h1, h2, ?_, ?_, h5, h7, ih prev h6⟩
    · rw [B.slice_append_left _ _ _ _ h4]; exact h3
    · simp only [List.length_append]; omega

theorem mkRecord_length_ge (Z : Zstd) (es : List Entry) (pb : Bytes) (h : pb.length = 9) :
    10 ≤ (mkRecord Z es pb).length := by
  have := putU64_ne_nil ((Z.compress (encEntries es.reverse)).length + 9)
  have : 1 ≤ (putU64 ((Z.compress (encEntries es.reverse)).length + 9)).length := by
    cases hh : putU64 ((Z.compress (encEntries es.reverse)).length + 9) with
    | nil => exact absurd hh this
    | cons _ _ => simp
  simp only [mkRecord, List.length_append, h]; omega

/-- reading along a chain returns the batches newest first, each reversed, cut at `limit` -/
theorem walk_chain (Z : Zstd) (hZ : Z.Lawful) (file : Bytes) (l : List (List Entry)) (p : Ptr)
    (hc : Chain Z file p l) (hfit : p.fits) (fuel limit : Nat) (acc : List Entry) (hf : l.length < fuel) :
    walk Z file fuel p limit acc = .ok (acc ++ (l.flatMap List.reverse).take (limit - acc.length)) := by
  induction l generalizing p fuel acc with
  | nil =>
    obtain ⟨f, rfl⟩ : ∃ f, fuel = f + 1 := ⟨fuel - 1, by omega⟩
    have : p = Ptr.zero := hc
    subst this
    simp [walk, Ptr.isZero, Ptr.zero]
  | cons es older ih =>
    obtain ⟨f, rfl⟩ : ∃ f, fuel = f + 1 := ⟨fuel - 1, by omega⟩
    obtain ⟨prev, pb, h1, h2, h3, h4, h5, _, h6⟩ := hc
    have hlen := mkRecord_length_ge Z es pb (ptrBytes_length h1)
    have hnz : p.isZero = false := by
      unfold Ptr.isZero
      have : (p.size == 0) = false := by simp; omega
      simp [this]
    rw [walk]
    simp only [hnz, Bool.false_eq_true, if_false]
    by_cases hlim : acc.length ≥ limit
    · simp only [hlim, if_true]
      have : limit - acc.length = 0 := by omega
      simp [this]
    · simp only [hlim, if_false]
      have hsz : (mkRecord Z es pb).length ≤ mib256 := by
        have hh : p.size ≤ 2 ^ 24 - 1 := hfit.2
        show _ ≤ 256 * 1024 * 1024
        omega
      have hr := record_roundtrip Z hZ es prev pb h1 h2 file p.off h3 hsz
      rw [h5, hr]
      simp only
      have hpf := (ptrOfBytes_ptrBytes h2 h1).2
      rw [ih prev h6 hpf f _ (by simp at hf; omega)]
      congr 1
      simp only [List.flatMap_cons, List.append_assoc, List.length_append, List.length_take]
      rw [List.take_append]
      congr 2
      simp only [List.length_reverse]
      congr 1
      omega

/-- the writer-side invariant: the running offset is the file length, and every address's head pointer
    addresses the chain of its non-empty batches -/
structure Good (Z : Zstd) (s : LogSt H) (c : Addr → List (List Entry)) : Prop where
  off_eq : s.off = s.file.length
  chain : ∀ a, Chain Z s.file (H.get s.heads a) (c a)
  short : ∀ a, (c a).length ≤ s.rrecs.length
  nonempty : ∀ a, ∀ es ∈ c a, es ≠ []

theorem good_init (Z : Zstd) : Good Z (LogSt.init : LogSt H) (fun _ => []) where
  off_eq := by simp [LogSt.init, LogSt.file]
  chain := fun a => by simp [LogSt.init, Chain, H.get_empty]
  short := fun _ => by simp
  nonempty := fun _ _ h => by simp at h

theorem file_cons (s : LogSt H) (r : Bytes) (o : Nat) (h : H.M) :
    LogSt.file ({ rrecs := r :: s.rrecs, off := o, heads := h } : LogSt H) = s.file ++ r := by
  simp [LogSt.file]

theorem flushRec_good (Z : Zstd) (s s' : LogSt H) (c : Addr → List (List Entry)) (hg : Good Z s c)
    (b : Batch) (h : flushRec Z s b = .ok s') (hrec : ∀ r ∈ s'.rrecs, r.length < 2 ^ 32) :
    Good Z s' (fun a => if b.1 = a ∧ b.2 ≠ [] then b.2 :: c a else c a) := by
  unfold flushRec at h
  by_cases he : b.2 = []
  · simp only [he, List.isEmpty_nil, if_true] at h
    cases h
    simp only [he, ne_eq, not_true_eq_false, and_false, if_false]
    exact hg
  · have he' : b.2.isEmpty = false := by cases hb : b.2 <;> simp_all
    simp only [he', Bool.false_eq_true, if_false] at h
    cases hpb : ptrBytes (H.get s.heads b.1) with
    | error e => rw [hpb] at h; cases h
    | ok pb =>
      rw [hpb] at h
      simp only at h
      cases h
      have hr32 : (mkRecord Z b.2 pb).length < 2 ^ 32 := hrec _ (List.mem_cons_self ..)
      have hmod : (mkRecord Z b.2 pb).length % 2 ^ 32 = (mkRecord Z b.2 pb).length := Nat.mod_eq_of_lt hr32
      refine ⟨?_, ?_, ?_, ?_⟩
      · rw [file_cons]; simp only [List.length_append]; rw [hg.off_eq]
      · intro a
        rw [file_cons]
        simp only [H.get_set, hmod]
        by_cases hba : b.1 = a
        · subst hba
          simp only [he, ne_eq, not_false_eq_true, and_self, if_true]
          refine ⟨H.get s.heads b.1, pb, hpb, ?_, ?_, ?_, rfl, hr32, chain_extend Z _ _ _ _ (hg.chain b.1)⟩
          · -- the previous head is zero or a record size below 2^32
            have hch := hg.chain b.1
            cases hcb : c b.1 with
            | nil => rw [hcb] at hch; rw [show H.get s.heads b.1 = Ptr.zero from hch]; simp [Ptr.zero]
            | cons es older =>
              rw [hcb] at hch
              obtain ⟨_, _, _, _, _, _, _, h7, _⟩ := hch
              exact h7
          · simp only
            rw [hg.off_eq]
            have := B.slice_append_right s.file (mkRecord Z b.2 pb) 0 (mkRecord Z b.2 pb).length
            simp only [Nat.add_zero] at this
            rw [this, B.slice_self]
          · simp only [List.length_append]; rw [hg.off_eq]; omega
        · have hab : ¬ a = b.1 := fun e => hba e.symm
          simp only [hab, if_false, hba, false_and]
          exact chain_extend Z _ _ _ _ (hg.chain a)
      · intro a
        simp only [List.length_cons]
        have := hg.short a
        split <;> simp <;> omega
      · intro a es hes
        by_cases hba : b.1 = a ∧ b.2 ≠ []
        · rw [if_pos hba] at hes
          rcases List.mem_cons.mp hes with rfl | hes
          · exact hba.2
          · exact hg.nonempty a es hes
        · rw [if_neg hba] at hes
          exact hg.nonempty a es hes

theorem flushRec_mono (Z : Zstd) (s s' : LogSt H) (b : Batch) (h : flushRec Z s b = .ok s') :
    ∀ r ∈ s.rrecs, r ∈ s'.rrecs := by
  unfold flushRec at h
  split at h
  · cases h; exact fun r hr => hr
  · split at h
    · cases h
    · cases h; exact fun r hr => List.mem_cons_of_mem _ hr

theorem buildFrom_mono (Z : Zstd) (bs : List Batch) (s s' : LogSt H) (h : buildFrom Z bs s = .ok s') :
    ∀ r ∈ s.rrecs, r ∈ s'.rrecs := by
  induction bs generalizing s with
  | nil => simp only [buildFrom] at h; cases h; exact fun r hr => hr
  | cons b bs ih =>
    simp only [buildFrom] at h
    cases hb : flushRec Z s b with
    | error e => rw [hb] at h; cases h
    | ok s1 =>
      rw [hb] at h
      exact fun r hr => ih s1 h r (flushRec_mono Z s s1 b hb r hr)

/-- building the file from a list of batches: every address's head addresses the chain of its batches, and
    the chain, read newest first, is the reverse of the address's entries in the list -/
theorem buildFrom_good (Z : Zstd) (bs : List Batch) (s s' : LogSt H) (pre : List Batch)
    (c : Addr → List (List Entry)) (hg : Good Z s c)
    (hc : ∀ a, (c a).flatMap List.reverse = (ofKey a pre).reverse)
    (h : buildFrom Z bs s = .ok s') (hrec : ∀ r ∈ s'.rrecs, r.length < 2 ^ 32) :
    ∃ c', Good Z s' c' ∧ ∀ a, (c' a).flatMap List.reverse = (ofKey a (pre ++ bs)).reverse := by
  induction bs generalizing s pre c with
  | nil =>
    simp only [buildFrom] at h; cases h
    exact ⟨c, hg, by simpa using hc⟩
  | cons b bs ih =>
    simp only [buildFrom] at h
    cases hb : flushRec Z s b with
    | error e => rw [hb] at h; cases h
    | ok s1 =>
      rw [hb] at h
      have hrec1 : ∀ r ∈ s1.rrecs, r.length < 2 ^ 32 := fun r hr => hrec r (buildFrom_mono Z bs s1 s' h r hr)
      have hg1 := flushRec_good Z s s1 c hg b hb hrec1
      have := ih s1 (pre ++ [b]) _ hg1 (by
        intro a
        rw [ofKey_append, ofKey_single, List.reverse_append]
        by_cases hba : b.1 = a
        · by_cases he : b.2 = []
          · simp [hba, he, hc a]
          · simp [hba, he, hc a]
        · simp [hba, hc a]) h
      simpa [List.append_assoc] using this

theorem sealHeads_ok (s s' : LogSt H) (h : sealHeads s = .ok s') :
    s' = s ∧ ∀ a, H.get s.heads a ≠ Ptr.zero → (H.get s.heads a).fits := by
  unfold sealHeads at h
  split at h
  · rename_i hall
    cases h
    refine ⟨rfl, fun a ha => ?_⟩
    have := List.all_eq_true.mp hall a (H.keys_complete _ _ ha)
    simpa using this
  · cases h

/-- reading an address whose chain is known -/
theorem readerGet_good (Z : Zstd) (hZ : Z.Lawful) (s : LogSt H) (c : Addr → List (List Entry)) (hg : Good Z s c)
    (a : Addr) (hfit : H.get s.heads a ≠ Ptr.zero → (H.get s.heads a).fits) (limit : Nat) (hl : 0 < limit) :
    readerGet Z s a limit =
      if c a = [] then .error (.err "notfound") else .ok (((c a).flatMap List.reverse).take limit) := by
  unfold readerGet readerGetF
  have hl0 : ¬ limit = 0 := by omega
  simp only [hl0, if_false]
  have hch := hg.chain a
  cases hca : c a with
  | nil =>
    rw [hca] at hch
    have : H.get s.heads a = Ptr.zero := hch
    simp [this]
  | cons es older =>
    have hnz : H.get s.heads a ≠ Ptr.zero := by
      rw [hca] at hch
      obtain ⟨prev, pb, h1, _, _, _, h5, _, _⟩ := hch
      have := mkRecord_length_ge Z es pb (ptrBytes_length h1)
      intro hz
      rw [hz] at h5
      simp [Ptr.zero] at h5
      omega
    simp only [hnz, if_false]
    rw [← hca]
    rw [walk_chain Z hZ s.file (c a) _ hch (hfit hnz) _ limit [] (by have := hg.short a; omega)]
    simp [hca]

end Gsfa

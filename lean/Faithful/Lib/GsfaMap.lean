import Std.Data.HashMap
/-!
# Finite maps with a default, as used by the gsfa writer model (C06)

The Go writer keeps three `tidwall/hashmap`s (`accum`, `popRank.set`, `offsets`).  The model is generic over
an implementation `FMap ν d` of "total map `Addr → ν` that is `d` almost everywhere, with an enumeration of
the keys that may hold a non-default value".  Every theorem about the writer is proved for **all** lawful
implementations; two are provided:

* `FMap.fn`  — a function plus the list of keys ever set; evaluates inside the kernel (used by the
  non-vacuity examples and the concrete counter-example);
* `FMap.hm`  — `Std.HashMap`, used by the compiled driver `fdrv` (O(1) operations, so that histories with more
  than 100 000 distinct addresses can be replayed at the real thresholds).
-/
namespace Gsfa

abbrev Addr := Nat

/-- insert into an ascending duplicate-free list -/
def insertU (x : Nat) : List Nat → List Nat
  | [] => [x]
  | y :: ys => if x < y then x :: y :: ys else if x = y then y :: ys else y :: insertU x ys

/-- Go `sort.Ints` followed by `slices.Compact` (also: `Keys()` of a map followed by `Sort()`) -/
def sortDedup (l : List Nat) : List Nat := l.foldr insertU []

theorem mem_insertU {x z : Nat} {l : List Nat} : z ∈ insertU x l ↔ z = x ∨ z ∈ l := by
  induction l with
  | nil => simp [insertU]
  | cons y ys ih =>
    unfold insertU
    by_cases h1 : x < y
    · simp [h1]
    · by_cases h2 : x = y
      · subst h2; simp
      · simp only [h1, h2, if_false, List.mem_cons, ih]
        constructor
        · rintro (h | h | h)
          · exact Or.inr (Or.inl h)
          · exact Or.inl h
          · exact Or.inr (Or.inr h)
        · rintro (h | h | h)
          · exact Or.inr (Or.inl h)
          · exact Or.inl h
          · exact Or.inr (Or.inr h)

theorem mem_sortDedup {z : Nat} {l : List Nat} : z ∈ sortDedup l ↔ z ∈ l := by
  induction l with
  | nil => simp [sortDedup]
  | cons y ys ih =>
    have : sortDedup (y :: ys) = insertU y (sortDedup ys) := rfl
    rw [this, mem_insertU, ih]; simp

theorem pairwise_insertU {x : Nat} {l : List Nat} (h : l.Pairwise (· < ·)) : (insertU x l).Pairwise (· < ·) := by
  induction l with
  | nil => simp [insertU]
  | cons y ys ih =>
    unfold insertU
    have hy := List.pairwise_cons.mp h
    by_cases h1 : x < y
    · simp only [h1, if_true]
      refine List.pairwise_cons.mpr ⟨?_, h⟩
      intro z hz
      rcases List.mem_cons.mp hz with rfl | hz
      · exact h1
      · exact Nat.lt_trans h1 (hy.1 z hz)
    · by_cases h2 : x = y
      · simp [h2, h]
      · simp only [h1, h2, if_false]
        refine List.pairwise_cons.mpr ⟨?_, ih hy.2⟩
        intro z hz
        rcases mem_insertU.mp hz with rfl | hz
        · omega
        · exact hy.1 z hz

theorem pairwise_sortDedup (l : List Nat) : (sortDedup l).Pairwise (· < ·) := by
  induction l with
  | nil => simp [sortDedup]
  | cons y ys ih => exact pairwise_insertU ih

theorem nodup_sortDedup (l : List Nat) : (sortDedup l).Nodup := by
  have := pairwise_sortDedup l
  exact this.imp (fun h => Nat.ne_of_lt h)

/-- a total map `Addr → ν` equal to `d` except on finitely many keys -/
structure FMap (ν : Type) (d : ν) where
  M : Type
  empty : M
  get : M → Addr → ν
  /-- `set m k d` deletes the key -/
  set : M → Addr → ν → M
  /-- the keys that may hold a non-default value, ascending (Go: `Keys()` then `Sort()`) -/
  keys : M → List Addr
  /-- number of keys holding a non-default value (Go: `Len()`) -/
  size : M → Nat
  get_empty : ∀ k, get empty k = d
  get_set : ∀ m k v k', get (set m k v) k' = if k' = k then v else get m k'
  keys_complete : ∀ m k, get m k ≠ d → k ∈ keys m

/-- kernel-friendly implementation: a function and the keys ever set -/
def FMap.fn (ν : Type) [DecidableEq ν] (d : ν) : FMap ν d where
  M := { m : (Addr → ν) × List Addr // ∀ k, m.1 k ≠ d → k ∈ m.2 }
  empty := ⟨(fun _ => d, []), fun _ h => absurd rfl h⟩
  get m k := m.1.1 k
  set m k v := ⟨(fun x => if x = k then v else m.1.1 x, k :: m.1.2), by
    intro x hx
    by_cases hxk : x = k
    · simp [hxk]
    · simp only [hxk, if_false] at hx
      exact List.mem_cons_of_mem _ (m.2 x hx)⟩
  keys m := (sortDedup m.1.2).filter (fun k => m.1.1 k ≠ d)
  size m := ((sortDedup m.1.2).filter (fun k => m.1.1 k ≠ d)).length
  get_empty := fun _ => rfl
  get_set := fun _ _ _ _ => rfl
  keys_complete := by
    intro m k h
    simp only [List.mem_filter, mem_sortDedup, decide_eq_true_eq]
    exact ⟨m.2 k h, h⟩

/-- `Std.HashMap` implementation used by the compiled driver -/
def FMap.hm (ν : Type) [DecidableEq ν] (d : ν) : FMap ν d where
  M := Std.HashMap Nat ν
  empty := ∅
  get m k := m.getD k d
  set m k v := if v = d then m.erase k else m.insert k v
  keys m := m.keys.mergeSort (fun a b => decide (a ≤ b))
  size m := m.size
  get_empty := fun _ => Std.HashMap.getD_empty
  get_set := by
    intro m k v k'
    by_cases hv : v = d
    · simp only [hv, if_true, Std.HashMap.getD_erase]
      by_cases h : k' = k
      · simp [h]
      · have : (k == k') = false := by simp; exact fun e => h e.symm
        simp [this, h]
    · simp only [hv, if_false, Std.HashMap.getD_insert]
      by_cases h : k' = k
      · simp [h]
      · have : (k == k') = false := by simp; exact fun e => h e.symm
        simp [this, h]
  keys_complete := by
    intro m k h
    rw [List.mem_mergeSort, Std.HashMap.mem_keys]
    apply Classical.byContradiction
    intro hc
    exact h (Std.HashMap.getD_eq_fallback hc)

end Gsfa

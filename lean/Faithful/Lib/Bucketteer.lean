import Faithful.Lib.Hash
import Faithful.Lib.Bytes
import Faithful.Lib.EytzLayout
import Faithful.Generated.Consts

/-!
Model of the signature-existence index `bucketteer` (current format, version 2: /repo/bucketteer) and of
`deprecated/bucketteer` (version 1).

Layers
* writer state `Buckets`: one list of 64-bit hashes per two-byte prefix (`Writer.Put`, `Writer.Has`);
* abstract sealed index `Sealed`: per prefix either nothing (v1: prefix never seen) or the eytzinger layout of the
  sorted, de-duplicated hashes (`seal` / `getCleanSet` / `sortWithCompare`); abstract reader `hasA`;
* bytes: `encode` is the file `Writer.Seal` leaves on disk (the draft header is overwritten by the final one, so the
  file is `final header ‖ bucket bodies`), `openB` / `hasB` are `NewReader` / `Reader.Has` over a file.

All theorems are for an arbitrary hash function `h : Sig → Nat`; the driver instantiates `h` with xxhash64.
-/
namespace BK
open B

abbrev Sig := Bytes

/-- number of two-byte prefixes (`math.MaxUint16 + 1`, the length of `prefixToHashes` / `bucketToOffset`) -/
def numPrefixes : Nat := 65536

/-- `prefixToUint16(sig[:2])`: little endian.  Go signatures are `[64]byte`; the model is total on shorter lists. -/
def prefixOf (s : Sig) : Nat := (s.getD 0 0).toNat + 256 * (s.getD 1 0).toNat

theorem prefixOf_lt (s : Sig) : prefixOf s < numPrefixes := by
  unfold prefixOf numPrefixes
  have h0 := (s.getD 0 0).toNat_lt
  have h1 := (s.getD 1 0).toNat_lt
  omega

/-! ### writer -/

/-- `Writer.prefixToHashes`.  Each bucket is kept newest-first (Go appends; `Has` is a linear scan and `Seal` sorts,
    so the order inside a bucket is never observable). -/
abbrev Buckets := Array (List Nat)

def emptyW : Buckets := Array.replicate numPrefixes []

/-- `Writer.Put` -/
def put (h : Sig → Nat) (w : Buckets) (s : Sig) : Buckets := w.modify (prefixOf s) (fun l => h s :: l)

def putAll (h : Sig → Nat) (sigs : List Sig) : Buckets := sigs.foldl (put h) emptyW

/-- `Writer.Has`: linear scan of the bucket of the prefix -/
def writerHas (h : Sig → Nat) (w : Buckets) (s : Sig) : Bool := (w.getD (prefixOf s) []).contains (h s)

theorem size_put (h : Sig → Nat) (w : Buckets) (s : Sig) : (put h w s).size = w.size := by
  simp [put]

theorem size_foldl_put (h : Sig → Nat) (sigs : List Sig) (w : Buckets) : (sigs.foldl (put h) w).size = w.size := by
  induction sigs generalizing w with
  | nil => rfl
  | cons s r ih => rw [List.foldl_cons, ih, size_put]

theorem size_putAll (h : Sig → Nat) (sigs : List Sig) : (putAll h sigs).size = numPrefixes := by
  simp [putAll, size_foldl_put, emptyW]

theorem getD_put (h : Sig → Nat) (w : Buckets) (s : Sig) (p : Nat) (hp : p < w.size) :
    (put h w s).getD p [] = if prefixOf s = p then h s :: w.getD p [] else w.getD p [] := by
  by_cases e : prefixOf s = p <;> simp [put, Array.getD, hp, Array.getElem_modify, e]

/-- what a bucket holds after any sequence of `Put`s -/
theorem mem_bucket (h : Sig → Nat) (sigs : List Sig) (w : Buckets) (p x : Nat) (hp : p < w.size) :
    x ∈ (sigs.foldl (put h) w).getD p [] ↔ x ∈ w.getD p [] ∨ ∃ s ∈ sigs, prefixOf s = p ∧ h s = x := by
  induction sigs generalizing w with
  | nil => simp
  | cons s r ih =>
    rw [List.foldl_cons, ih (put h w s) (by rw [size_put]; exact hp), getD_put h w s p hp]
    by_cases e : prefixOf s = p
    · simp only [e, if_true, List.mem_cons]
      constructor
      · rintro ((rfl | hx) | ⟨s', hs', hp', hx'⟩)
        · exact Or.inr ⟨s, Or.inl rfl, e, rfl⟩
        · exact Or.inl hx
        · exact Or.inr ⟨s', Or.inr hs', hp', hx'⟩
      · rintro (hx | ⟨s', rfl | hs', hp', hx'⟩)
        · exact Or.inl (Or.inr hx)
        · exact Or.inl (Or.inl hx'.symm)
        · exact Or.inr ⟨s', hs', hp', hx'⟩
    · simp only [e, if_false, List.mem_cons]
      constructor
      · rintro (hx | ⟨s', hs', hp', hx'⟩)
        · exact Or.inl hx
        · exact Or.inr ⟨s', Or.inr hs', hp', hx'⟩
      · rintro (hx | ⟨s', rfl | hs', hp', hx'⟩)
        · exact Or.inl hx
        · exact absurd hp' e
        · exact Or.inr ⟨s', hs', hp', hx'⟩

theorem mem_putAll (h : Sig → Nat) (sigs : List Sig) (p x : Nat) (hp : p < numPrefixes) :
    x ∈ (putAll h sigs).getD p [] ↔ ∃ s ∈ sigs, prefixOf s = p ∧ h s = x := by
  unfold putAll
  rw [mem_bucket h sigs emptyW p x (by simpa [emptyW] using hp)]
  simp [emptyW, Array.getD, numPrefixes] at *

/-! ### getCleanSet: sort, then drop every element equal to its predecessor -/

def dedupFrom (prev : Nat) : List Nat → List Nat
  | [] => []
  | x :: r => if x = prev then dedupFrom prev r else x :: dedupFrom x r

def dedup : List Nat → List Nat
  | [] => []
  | x :: r => x :: dedupFrom x r

def cleanSet (l : List Nat) : List Nat := dedup (l.mergeSort (fun a b => decide (a ≤ b)))

theorem mem_dedupFrom_sub {prev x : Nat} {l : List Nat} (hx : x ∈ dedupFrom prev l) : x ∈ l := by
  induction l generalizing prev with
  | nil => simp [dedupFrom] at hx
  | cons y r ih =>
    rw [dedupFrom] at hx
    by_cases e : y = prev
    · simp only [e, if_true] at hx; exact List.mem_cons_of_mem _ (ih hx)
    · simp only [e, if_false, List.mem_cons] at hx
      rcases hx with rfl | hx
      · exact List.mem_cons_self ..
      · exact List.mem_cons_of_mem _ (ih hx)

theorem mem_dedupFrom_sup {prev x : Nat} {l : List Nat} (hx : x ∈ l) : x = prev ∨ x ∈ dedupFrom prev l := by
  induction l generalizing prev with
  | nil => simp at hx
  | cons y r ih =>
    rw [dedupFrom]
    by_cases e : y = prev
    · simp only [e, if_true]
      rcases List.mem_cons.1 hx with rfl | hx
      · exact Or.inl e
      · exact ih hx
    · simp only [e, if_false, List.mem_cons]
      rcases List.mem_cons.1 hx with rfl | hx
      · exact Or.inr (Or.inl rfl)
      · rcases ih (prev := y) hx with rfl | h2
        · exact Or.inr (Or.inl rfl)
        · exact Or.inr (Or.inr h2)

theorem mem_dedup (x : Nat) (l : List Nat) : x ∈ dedup l ↔ x ∈ l := by
  cases l with
  | nil => simp [dedup]
  | cons y r =>
    simp only [dedup, List.mem_cons]
    constructor
    · rintro (rfl | hx)
      · exact Or.inl rfl
      · exact Or.inr (mem_dedupFrom_sub hx)
    · rintro (rfl | hx)
      · exact Or.inl rfl
      · exact (mem_dedupFrom_sup hx)

theorem dedupFrom_sorted (prev : Nat) (l : List Nat) (hs : (prev :: l).Pairwise (· ≤ ·)) :
    (prev :: dedupFrom prev l).Pairwise (· < ·) := by
  induction l generalizing prev with
  | nil => simp [dedupFrom]
  | cons y r ih =>
    rw [dedupFrom]
    have hs' := List.pairwise_cons.1 hs
    have hyr := List.pairwise_cons.1 hs'.2
    by_cases e : y = prev
    · simp only [e, if_true]
      apply ih
      exact List.pairwise_cons.2 ⟨fun a ha => hs'.1 a (List.mem_cons_of_mem _ ha), hyr.2⟩
    · simp only [e, if_false]
      have hlt : prev < y := by
        have := hs'.1 y (List.mem_cons_self ..); omega
      have ih' := ih y hs'.2
      refine List.pairwise_cons.2 ⟨?_, ih'⟩
      intro a ha
      rcases List.mem_cons.1 ha with rfl | ha
      · exact hlt
      · have := (List.pairwise_cons.1 ih').1 a ha; omega

theorem dedup_sorted (l : List Nat) (hs : l.Pairwise (· ≤ ·)) : (dedup l).Pairwise (· < ·) := by
  cases l with
  | nil => simp [dedup]
  | cons y r => exact dedupFrom_sorted y r hs

theorem mem_cleanSet (x : Nat) (l : List Nat) : x ∈ cleanSet l ↔ x ∈ l := by
  unfold cleanSet
  rw [mem_dedup, List.mem_mergeSort]

theorem cleanSet_sorted (l : List Nat) : (cleanSet l).Pairwise (· < ·) := by
  unfold cleanSet
  apply dedup_sorted
  have := List.pairwise_mergeSort (le := fun a b => decide (a ≤ b))
    (by intro a b c; simp; omega) (by intro a b; simp; omega) l
  exact this.imp (by intro a b; simp)

/-! ### eytzinger layout of a bucket and the search over it -/

abbrev Lay := Array (Nat × Unit)

/-- `getCleanSet` + `sortWithCompare` (sort again, `eytzinger(a, sorted, 0, 1)`) -/
def layoutOf (l : List Nat) : Lay := Eytz.layout ((cleanSet l).map (fun x => (x, ()))).toArray

/-- `searchEytzinger(0, numHashes, x, getter)` followed by `got == wantedHash` -/
def searchLay (lay : Lay) (x : Nat) : Bool := (Eytz.search lay x (lay.size + 1) 0).isSome

theorem size_layout {β : Type} [Inhabited β] (xs : Array (Nat × β)) : (Eytz.layout xs).size = xs.size := by
  have hs := Eytz.fill_spec xs xs.size 1 0 (Array.replicate xs.size default) (by omega) (by simp)
  exact hs.2.1

theorem size_layoutOf (l : List Nat) : (layoutOf l).size = (cleanSet l).length := by
  simp [layoutOf, size_layout]

/-- the fuel `size + 1` is enough for the Go loop `for index < max`: more fuel never changes the answer -/
theorem search_fuel_enough {β : Type} [Inhabited β] (a : Array (Nat × β)) (x : Nat) (fuel idx : Nat)
    (hf : a.size + 1 ≤ idx + fuel) (extra : Nat) :
    Eytz.search a x (fuel + extra) idx = Eytz.search a x fuel idx := by
  induction fuel generalizing idx with
  | zero =>
    cases extra with
    | zero => rfl
    | succ e =>
      have : ¬ idx < a.size := by omega
      simp [Eytz.search, this]
  | succ f ih =>
    rw [show f + 1 + extra = (f + extra) + 1 by omega]
    rw [Eytz.search, Eytz.search]
    by_cases hi : idx < a.size
    · simp only [hi, if_true]
      by_cases he : (a.getD idx default).1 = x
      · rw [if_pos he, if_pos he]
      · rw [if_neg he, if_neg he]
        apply ih
        by_cases hlt : (a.getD idx default).1 < x
        · rw [if_pos hlt]; omega
        · rw [if_neg hlt]; omega
    · simp [hi]

/-- a hash is found in the layout of a bucket exactly when the bucket contains it (every population) -/
theorem searchLay_iff (l : List Nat) (x : Nat) : searchLay (layoutOf l) x = true ↔ x ∈ l := by
  obtain ⟨cs, hcs⟩ : ∃ cs, cs = cleanSet l := ⟨_, rfl⟩
  obtain ⟨xs, hxs⟩ : ∃ xs : Array (Nat × Unit), xs = (cs.map (fun x => (x, ()))).toArray := ⟨_, rfl⟩
  have hsz : xs.size = cs.length := by simp [hxs]
  have hget : ∀ j (hj : j < cs.length), xs.getD j default = (cs[j], ()) := by
    intro j hj
    simp [hxs, Array.getD, hj]
  have hlay : layoutOf l = Eytz.layout xs := by rw [layoutOf, hxs, hcs]
  have hlaysz : (Eytz.layout xs).size = xs.size := size_layout xs
  unfold searchLay
  rw [hlay, hlaysz]
  constructor
  · intro hfound
    rw [Option.isSome_iff_exists] at hfound
    obtain ⟨v, hv⟩ := hfound
    obtain ⟨j, hj, hjv⟩ := Eytz.layout_search_sound xs x v hv
    rw [hsz] at hj
    rw [hget j hj] at hjv
    have : cs[j] = x := by
      have := congrArg Prod.fst hjv; simpa using this
    have hm : x ∈ cs := by
      rw [← this]; exact List.getElem_mem hj
    exact (mem_cleanSet x l).1 (hcs ▸ hm)
  · intro hx
    have hm : x ∈ cs := hcs ▸ (mem_cleanSet x l).2 hx
    obtain ⟨j, hj, hjx⟩ := List.getElem_of_mem hm
    have hsorted : ∀ p q, p < q → q < xs.size → (xs.getD p default).1 < (xs.getD q default).1 := by
      intro p q hpq hq
      have hq' : q < cs.length := by omega
      rw [hget p (by omega), hget q hq']
      have hs : cs.Pairwise (· < ·) := hcs ▸ cleanSet_sorted l
      exact (List.pairwise_iff_getElem.1 hs) p q (by omega) hq' hpq
    have := Eytz.layout_search_complete xs hsorted j (by omega)
    rw [hget j hj] at this
    simp only [hjx] at this
    rw [this]; rfl

/-! ### abstract sealed index and reader -/

/-- per prefix: `none` = the prefix has no offset-table entry (v1 only), `some lay` = its bucket in file order -/
abbrev Sealed := Array (Option Lay)

/-- the two formats differ abstractly only in whether a never-seen prefix gets an (empty) bucket -/
inductive Fmt | v2 | v1
deriving DecidableEq, Repr

def sealBucket (fmt : Fmt) (b : List Nat) : Option Lay :=
  match fmt with
  | .v2 => some (layoutOf b)                                  -- all 65 536 buckets are written
  | .v1 => if b.isEmpty then none else some (layoutOf b)      -- only map keys, i.e. prefixes that were `Put`

/-- `seal(...)` at the abstract level -/
def sealA (fmt : Fmt) (w : Buckets) : Sealed := w.map (sealBucket fmt)

/-- `Reader.Has` at the abstract level: offset-table lookup, then the eytzinger search -/
def hasA (sd : Sealed) (p x : Nat) : Bool :=
  match sd.getD p none with
  | none => false
  | some lay => searchLay lay x

theorem getD_sealA (fmt : Fmt) (w : Buckets) (p : Nat) (hp : p < w.size) :
    (sealA fmt w).getD p none = sealBucket fmt (w.getD p []) := by
  simp [sealA, Array.getD, hp]

/-- the abstract reader answers exactly "the hash is in the writer's bucket of that prefix" (both formats) -/
theorem hasA_sealA_iff (fmt : Fmt) (w : Buckets) (p x : Nat) (hp : p < w.size) :
    hasA (sealA fmt w) p x = true ↔ x ∈ w.getD p [] := by
  unfold hasA
  rw [getD_sealA fmt w p hp]
  cases fmt with
  | v2 => simp only [sealBucket]; exact searchLay_iff _ _
  | v1 =>
    simp only [sealBucket]
    cases hb : w.getD p [] with
    | nil => simp
    | cons a r => simp only [List.isEmpty_cons, Bool.false_eq_true, if_false]; exact searchLay_iff _ _

/-! ### bytes: the file `Writer.Seal` leaves on disk

`seal` writes a draft header (size 0, all offsets 0), the bucket bodies, flushes, and `Seal` overwrites the draft with
the final header of the same length at offset 0.  The file is therefore `final header ‖ bodies`. -/

def magicOf : Fmt → Bytes
  | .v2 => Generated.bucketteerMagic
  | .v1 => Generated.legacyBucketteerMagic

def versionOf : Fmt → Nat
  | .v2 => Generated.bucketteerVersion
  | .v1 => Generated.legacyBucketteerVersion

abbrev MetaKVs := List (Bytes × Bytes)

/-- v2: `indexmeta.Meta.MarshalBinary` (count byte, then klen k vlen v);
    v1: `uint64 count`, then Borsh strings (`u32 len ‖ bytes`) in the order the caller's map was iterated -/
def metaBytes : Fmt → MetaKVs → Bytes
  | .v2, m => UInt8.ofNat m.length :: m.flatMap fun kv => (UInt8.ofNat kv.1.length :: kv.1) ++ (UInt8.ofNat kv.2.length :: kv.2)
  | .v1, m => le 8 m.length ++ m.flatMap fun kv => (le 4 kv.1.length ++ kv.1) ++ (le 4 kv.2.length ++ kv.2)

/-- order in which prefixes are written: v2 ranges over the array index (little-endian value of the prefix);
    v1 sorts the map keys with `bytes.Compare`, i.e. ascending in the big-endian reading `i = 256*b0 + b1`
    of the two bytes, whose little-endian value (the bucket index) is `b0 + 256*b1 = i/256 + 256*(i%256)` -/
def prefixOrder : Fmt → List Nat
  | .v2 => List.range numPrefixes
  | .v1 => (List.range numPrefixes).map fun i => i / 256 + 256 * (i % 256)

/-- offset-table entries in file order -/
def entries (fmt : Fmt) (sd : Sealed) : List (Nat × Lay) :=
  (prefixOrder fmt).filterMap fun p => (sd.getD p none).map fun lay => (p, lay)

/-- one bucket body: `uint32 count ‖ uint64 hash*` in eytzinger order -/
def bucketBytes (lay : Lay) : Bytes := le 4 lay.size ++ lay.toList.flatMap (fun e => le 8 e.1)

/-- `prefix ‖ uint64 offset` pairs; the offset of a bucket is the total size of the bodies before it -/
def tableFrom : List (Nat × Lay) → Nat → Bytes
  | [], _ => []
  | e :: r, off => (le 2 e.1 ++ le 8 off) ++ tableFrom r (off + (4 + 8 * e.2.size))

def headerRest (fmt : Fmt) (m : MetaKVs) (es : List (Nat × Lay)) : Bytes :=
  magicOf fmt ++ (le 8 (versionOf fmt) ++ (metaBytes fmt m ++ (le 8 es.length ++ tableFrom es 0)))

/-- `createHeader(magic, version, headerSize-4, meta, prefixToOffset)` -/
def headerBytes (fmt : Fmt) (m : MetaKVs) (es : List (Nat × Lay)) : Bytes :=
  le 4 (headerRest fmt m es).length ++ headerRest fmt m es

def bodyBytes (es : List (Nat × Lay)) : Bytes := (es.map fun e => bucketBytes e.2).flatten

def encode (fmt : Fmt) (m : MetaKVs) (sd : Sealed) : Bytes :=
  headerBytes fmt m (entries fmt sd) ++ bodyBytes (entries fmt sd)

/-! ### reader over bytes: `NewReader` / `Reader.Has` -/

abbrev File := Array UInt8

/-- `ReaderAt.ReadAt(buf[len], off)`: all `len` bytes or an error -/
def rd (f : File) (off len : Nat) : Option Bytes :=
  if off + len ≤ f.size then some (f.extract off (off + len)).toList else none

/-- v2 `Meta.UnmarshalWithDecoder`: `n` key-value pairs, one length byte each; returns the unread rest -/
def parseMeta2 : Nat → Bytes → Option (MetaKVs × Bytes)
  | 0, bs => some ([], bs)
  | _+1, [] => none
  | n+1, kl :: r =>
    if (r.take kl.toNat).length < kl.toNat then none else
    match r.drop kl.toNat with
    | [] => none
    | vl :: r2 =>
      if (r2.take vl.toNat).length < vl.toNat then none else
      match parseMeta2 n (r2.drop vl.toNat) with
      | none => none
      | some (l, rest) => some ((r.take kl.toNat, r2.take vl.toNat) :: l, rest)

/-- Borsh `ReadString`: `u32` length (≤ 0x7FFFFFFF), then the bytes -/
def readString (bs : Bytes) : Option (Bytes × Bytes) :=
  if (bs.take 4).length < 4 then none else
  let n := unle (bs.take 4)
  if n > 0x7FFFFFFF then none else
  let r := bs.drop 4
  if (r.take n).length < n then none else some (r.take n, r.drop n)

/-- v1 header metadata: `n` pairs of Borsh strings -/
def parseMeta1 : Nat → Bytes → Option (MetaKVs × Bytes)
  | 0, bs => some ([], bs)
  | n+1, bs =>
    match readString bs with
    | none => none
    | some (k, r) =>
      match readString r with
      | none => none
      | some (v, r2) =>
        match parseMeta1 n r2 with
        | none => none
        | some (l, rest) => some ((k, v) :: l, rest)

def parseMeta (fmt : Fmt) (bs : Bytes) : Option (MetaKVs × Bytes) :=
  match fmt with
  | .v2 =>
    match bs with
    | [] => none
    | c :: r => parseMeta2 c.toNat r
  | .v1 =>
    if (bs.take 8).length < 8 then none else parseMeta1 (unle (bs.take 8)) (bs.drop 8)

/-- the `prefix -> offset` loop of `readHeader`; a later entry for the same prefix overwrites an earlier one -/
def parseTable : Nat → Bytes → Array (Option Nat) → Option (Array (Option Nat))
  | 0, _, t => some t
  | n+1, b0 :: b1 :: o0 :: o1 :: o2 :: o3 :: o4 :: o5 :: o6 :: o7 :: rest, t =>
    parseTable n rest (t.setIfInBounds (b0.toNat + 256 * b1.toNat) (some (unle [o0, o1, o2, o3, o4, o5, o6, o7])))
  | _+1, _, _ => none

structure Rdr where
  fmt : Fmt
  /-- `prefixToOffset`: `none` = no entry (v1: map miss; v2: the array still holds `math.MaxUint64`) -/
  table : Array (Option Nat)
  /-- `headerTotalSize`: where `contentReader` starts -/
  base : Nat
  metaKVs : MetaKVs

/-- `NewReader`: `none` = any error -/
def openB (fmt : Fmt) (f : File) : Option Rdr :=
  match rd f 0 1 with          -- isReaderEmpty
  | none => none
  | some _ =>
    match rd f 0 4 with        -- readHeaderSize
    | none => none
    | some hs =>
      match rd f 4 (unle hs) with
      | none => none
      | some buf =>
        if buf.take 8 ≠ magicOf fmt then none else
        if ((buf.drop 8).take 8).length < 8 then none else
        if unle ((buf.drop 8).take 8) ≠ versionOf fmt then none else
        match parseMeta fmt (buf.drop 16) with
        | none => none
        | some (m, r2) =>
          if (r2.take 8).length < 8 then none else
          match parseTable (unle (r2.take 8)) (r2.drop 8) (Array.replicate numPrefixes none) with
          | none => none
          | some t => some ⟨fmt, t, unle hs + 4, m⟩

inductive Res | yes | no | err
deriving DecidableEq, Repr

/-- `searchEytzinger` over a getter that can fail, then `got == wantedHash` -/
def searchB (get : Nat → Option Nat) (x max : Nat) : Nat → Nat → Res
  | 0, _ => .no
  | fuel+1, index =>
    if index < max then
      match get index with
      | none => .err
      | some k =>
        if k = x then .yes
        else searchB get x max fuel (if k < x then 2*index+2 else 2*index+1)
    else .no

/-- `Reader.Has` for prefix `p` and wanted hash `x` -/
def hasB (f : File) (r : Rdr) (p x : Nat) : Res :=
  match r.table.getD p none with
  | none => .no
  | some off =>
    if r.fmt = .v2 ∧ off = 2^64 - 1 then .no          -- v2 sentinel `math.MaxUint64`
    else if off ≥ 2^63 then .err                        -- `int64(offset)` negative: SectionReader answers EOF
    else
      match rd f (r.base + off) 4 with
      | none => .err
      | some nb =>
        -- `io.NewSectionReader(contentReader, offset+4, int64(numHashes*8))` with the product in uint32
        searchB (fun i => if i * 8 + 8 ≤ (unle nb * 8) % 2^32 then (rd f (r.base + off + 4 + i * 8) 8).map unle else none)
          x (unle nb) (unle nb + 1) 0

/-! ### byte level: the reader over `encode` agrees with the abstract reader -/

theorem rd_toArray (l : Bytes) (off len : Nat) :
    rd l.toArray off len = if off + len ≤ l.length then some (slice l off len) else none := by
  unfold rd slice
  by_cases h : off + len ≤ l.length
  · simp [h, List.extract]
  · simp [h]

theorem slice_slice (b : Bytes) (o L a n : Nat) (h : a + n ≤ L) :
    slice (slice b o L) a n = slice b (o + a) n := by
  unfold slice
  rw [List.drop_take, List.drop_drop, List.take_take]
  congr 1
  omega

theorem slice_length (b : Bytes) (o n : Nat) (h : o + n ≤ b.length) : (slice b o n).length = n := by
  unfold slice; simp; omega

theorem slice_zero_append (a b : Bytes) : slice (a ++ b) 0 a.length = a := by
  unfold slice; simp

theorem bucketBytes_length (lay : Lay) : (bucketBytes lay).length = 4 + 8 * lay.size := by
  unfold bucketBytes
  rw [List.length_append, le_length]
  congr 1
  have : ∀ l : List (Nat × Unit), (l.flatMap (fun e => le 8 e.1)).length = 8 * l.length := by
    intro l
    induction l with
    | nil => rfl
    | cons x r ih => simp [List.flatMap_cons, le_length, ih]; omega
  rw [this]; simp

/-- the count field of a bucket body -/
theorem bucketBytes_count (lay : Lay) : slice (bucketBytes lay) 0 4 = le 4 lay.size := by
  unfold bucketBytes
  have := slice_zero_append (le 4 lay.size) (lay.toList.flatMap (fun e => le 8 e.1))
  rwa [le_length] at this

/-- the `i`-th hash of a bucket body -/
theorem bucketBytes_hash (lay : Lay) (i : Nat) (hi : i < lay.size) :
    slice (bucketBytes lay) (4 + i * 8) 8 = le 8 (lay.getD i default).1 := by
  unfold bucketBytes
  have h4 := slice_append_right (le 4 lay.size) (lay.toList.flatMap (fun e => le 8 e.1)) (i * 8) 8
  rw [le_length] at h4
  rw [h4, List.flatMap_def]
  have hfix : ∀ x ∈ lay.toList.map (fun e => le 8 e.1), x.length = 8 := by
    intro x hx
    obtain ⟨e, _, rfl⟩ := List.mem_map.1 hx
    exact le_length _ _
  have hlen : i < (lay.toList.map (fun e => le 8 e.1)).length := by simpa using hi
  have := slice_flatten_fixed _ 8 hfix i hlen
  rw [Nat.mul_comm] at this
  rw [this]
  simp [Array.getD, hi]

/-- the byte-level search over a getter that returns the layout's keys is the abstract search -/
theorem searchB_eq (lay : Lay) (get : Nat → Option Nat) (x : Nat)
    (hget : ∀ i, i < lay.size → get i = some (lay.getD i default).1) (fuel idx : Nat) :
    searchB get x lay.size fuel idx = if (Eytz.search lay x fuel idx).isSome then Res.yes else Res.no := by
  induction fuel generalizing idx with
  | zero => simp [searchB, Eytz.search]
  | succ f ih =>
    rw [searchB, Eytz.search]
    by_cases hi : idx < lay.size
    · rw [if_pos hi, if_pos hi, hget idx hi]
      simp only []
      by_cases he : (lay.getD idx default).1 = x
      · rw [if_pos he, if_pos he]; rfl
      · rw [if_neg he, if_neg he]; exact ih _
    · rw [if_neg hi, if_neg hi]; rfl

/-- what the offset-table loop of `readHeader` computes from `tableFrom` -/
def setAll : List (Nat × Lay) → Nat → Array (Option Nat) → Array (Option Nat)
  | [], _, t => t
  | e :: r, off, t => setAll r (off + (4 + 8 * e.2.size)) (t.setIfInBounds e.1 (some (off % 2^64)))

/-- running offset of the first entry with prefix `p` -/
def findOff : List (Nat × Lay) → Nat → Nat → Option Nat
  | [], _, _ => none
  | e :: r, off, p => if e.1 = p then some off else findOff r (off + (4 + 8 * e.2.size)) p

theorem parseTable_step (n p off : Nat) (rest : Bytes) (t : Array (Option Nat)) (hp : p < 65536) :
    parseTable (n+1) ((le 2 p ++ le 8 off) ++ rest) t
      = parseTable n rest (t.setIfInBounds p (some (off % 2^64))) := by
  have e2 : le 2 p = [UInt8.ofNat (p % 256), UInt8.ofNat (p / 256 % 256)] := rfl
  obtain ⟨o0, o1, o2, o3, o4, o5, o6, o7, e8⟩ : ∃ o0 o1 o2 o3 o4 o5 o6 o7, le 8 off = [o0, o1, o2, o3, o4, o5, o6, o7] :=
    ⟨_, _, _, _, _, _, _, _, rfl⟩
  have hu : unle [o0, o1, o2, o3, o4, o5, o6, o7] = off % 2^64 := by
    rw [← e8, unle_le]
  rw [e2, e8]
  simp only [List.cons_append, List.nil_append, parseTable, hu]
  congr 2
  simp [UInt8.toNat_ofNat']
  omega

theorem parseTable_tableFrom (es : List (Nat × Lay)) (off : Nat) (t : Array (Option Nat))
    (hk : ∀ e ∈ es, e.1 < 65536) :
    parseTable es.length (tableFrom es off) t = some (setAll es off t) := by
  induction es generalizing off t with
  | nil => rfl
  | cons e r ih =>
    rw [List.length_cons, tableFrom, parseTable_step _ _ _ _ _ (hk e (List.mem_cons_self ..)), setAll]
    exact ih _ _ (fun e' he' => hk e' (List.mem_cons_of_mem _ he'))

theorem setAll_size (es : List (Nat × Lay)) (off : Nat) (t : Array (Option Nat)) : (setAll es off t).size = t.size := by
  induction es generalizing off t with
  | nil => rfl
  | cons e r ih => rw [setAll, ih]; simp

theorem setAll_not_mem (es : List (Nat × Lay)) (off : Nat) (t : Array (Option Nat)) (p : Nat)
    (h : ∀ e ∈ es, e.1 ≠ p) : (setAll es off t).getD p none = t.getD p none := by
  induction es generalizing off t with
  | nil => rfl
  | cons e r ih =>
    rw [setAll, ih _ _ (fun e' he' => h e' (List.mem_cons_of_mem _ he'))]
    exact Eytz.getD_setIfInBounds_ne t e.1 p _ none (h e (List.mem_cons_self ..))

theorem setAll_spec (es : List (Nat × Lay)) (off : Nat) (t : Array (Option Nat)) (p : Nat)
    (hnd : es.Pairwise (fun a b => a.1 ≠ b.1)) (hk : ∀ e ∈ es, e.1 < t.size) :
    (setAll es off t).getD p none =
      match findOff es off p with
      | some o => some (o % 2^64)
      | none => t.getD p none := by
  induction es generalizing off t with
  | nil => rfl
  | cons e r ih =>
    have hnd' := List.pairwise_cons.1 hnd
    rw [setAll, findOff]
    by_cases he : e.1 = p
    · rw [if_pos he]
      rw [setAll_not_mem _ _ _ _ (fun e' he' => he ▸ (hnd'.1 e' he').symm)]
      rw [← he]
      exact Eytz.getD_setIfInBounds_eq t e.1 _ none (hk e (List.mem_cons_self ..))
    · rw [if_neg he, ih _ _ hnd'.2 (fun e' he' => by simpa using hk e' (List.mem_cons_of_mem _ he'))]
      cases findOff r (off + (4 + 8 * e.2.size)) p with
      | some o => rfl
      | none => exact Eytz.getD_setIfInBounds_ne t e.1 p _ none he

theorem findOff_none (es : List (Nat × Lay)) (off p : Nat) (h : findOff es off p = none) : ∀ e ∈ es, e.1 ≠ p := by
  induction es generalizing off with
  | nil => simp
  | cons e r ih =>
    rw [findOff] at h
    by_cases he : e.1 = p
    · simp [he] at h
    · rw [if_neg he] at h
      intro e' he'
      rcases List.mem_cons.1 he' with rfl | h2
      · exact he
      · exact ih _ h e' h2

theorem bodyBytes_cons (e : Nat × Lay) (r : List (Nat × Lay)) :
    bodyBytes (e :: r) = bucketBytes e.2 ++ bodyBytes r := by
  simp [bodyBytes]

/-- the body of the bucket the offset table points at -/
theorem findOff_body (es : List (Nat × Lay)) (off p o : Nat) (h : findOff es off p = some o) :
    ∃ lay, (p, lay) ∈ es ∧ off ≤ o ∧ (o - off) + (4 + 8 * lay.size) ≤ (bodyBytes es).length ∧
      slice (bodyBytes es) (o - off) (4 + 8 * lay.size) = bucketBytes lay := by
  induction es generalizing off with
  | nil => simp [findOff] at h
  | cons e r ih =>
    rw [findOff] at h
    rw [bodyBytes_cons]
    by_cases he : e.1 = p
    · rw [if_pos he] at h
      have ho : o = off := by simpa using h.symm
      subst ho
      refine ⟨e.2, ?_, Nat.le_refl _, ?_, ?_⟩
      · rw [← he]; exact List.mem_cons_self ..
      · rw [List.length_append, bucketBytes_length]; omega
      · rw [Nat.sub_self, ← bucketBytes_length]
        unfold slice; simp
    · rw [if_neg he] at h
      obtain ⟨lay, hm, hle, hfit, hsl⟩ := ih _ h
      refine ⟨lay, List.mem_cons_of_mem _ hm, by omega, ?_, ?_⟩
      · rw [List.length_append, bucketBytes_length]; omega
      · have : o - off = (bucketBytes e.2).length + (o - (off + (4 + 8 * e.2.size))) := by
          rw [bucketBytes_length]; omega
        rw [this, slice_append_right]; exact hsl

/-! entries -/

theorem mem_prefixOrder (fmt : Fmt) (p : Nat) : p ∈ prefixOrder fmt ↔ p < numPrefixes := by
  cases fmt with
  | v2 => simp [prefixOrder]
  | v1 =>
    simp only [prefixOrder, List.mem_map, List.mem_range, numPrefixes]
    constructor
    · rintro ⟨i, hi, rfl⟩; omega
    · intro hp
      exact ⟨(p % 256) * 256 + p / 256, by omega, by omega⟩

theorem prefixOrder_nodup (fmt : Fmt) : (prefixOrder fmt).Pairwise (· ≠ ·) := by
  cases fmt with
  | v2 => exact List.nodup_range
  | v1 =>
    simp only [prefixOrder]
    rw [List.pairwise_map]
    refine List.Pairwise.imp_of_mem ?_ (List.pairwise_lt_range (n := numPrefixes))
    intro a b ha hb hab
    simp only [List.mem_range, numPrefixes] at ha hb
    omega

theorem mem_entries (fmt : Fmt) (sd : Sealed) (p : Nat) (lay : Lay) :
    (p, lay) ∈ entries fmt sd ↔ p < numPrefixes ∧ sd.getD p none = some lay := by
  unfold entries
  rw [List.mem_filterMap]
  constructor
  · rintro ⟨q, hq, hf⟩
    cases hs : sd.getD q none with
    | none => simp [hs] at hf
    | some l =>
      simp only [hs, Option.map_some, Option.some.injEq, Prod.mk.injEq] at hf
      obtain ⟨rfl, rfl⟩ := hf
      exact ⟨(mem_prefixOrder fmt q).1 hq, hs⟩
  · rintro ⟨hp, hs⟩
    exact ⟨p, (mem_prefixOrder fmt p).2 hp, by simp [hs]⟩

theorem entries_key (fmt : Fmt) (sd : Sealed) (e : Nat × Lay) (he : e ∈ entries fmt sd) :
    e.1 < numPrefixes ∧ sd.getD e.1 none = some e.2 :=
  (mem_entries fmt sd e.1 e.2).1 he

theorem entries_nodup (fmt : Fmt) (sd : Sealed) : (entries fmt sd).Pairwise (fun a b => a.1 ≠ b.1) := by
  unfold entries
  refine List.Pairwise.filterMap _ ?_ (prefixOrder_nodup fmt)
  intro a a' hne b hb b' hb'
  cases hs : sd.getD a none with
  | none => simp [hs] at hb
  | some l =>
    cases hs' : sd.getD a' none with
    | none => simp [hs'] at hb'
    | some l' =>
      simp only [hs, hs', Option.map_some, Option.some.injEq] at hb hb'
      subst hb; subst hb'
      exact hne

/-- metadata the header can carry: v2 = the `indexmeta` limits; v1 = what Borsh `ReadString` accepts back -/
def metaOk : Fmt → MetaKVs → Prop
  | .v2, m => m.length ≤ 255 ∧ ∀ kv ∈ m, kv.1.length ≤ 255 ∧ kv.2.length ≤ 255
  | .v1, m => m.length < 2^64 ∧ ∀ kv ∈ m, kv.1.length ≤ 0x7FFFFFFF ∧ kv.2.length ≤ 0x7FFFFFFF

theorem take_length_append (a b : Bytes) : (a ++ b).take a.length = a := by simp
theorem drop_length_append (a b : Bytes) : (a ++ b).drop a.length = b := by simp

theorem ofNat_toNat_255 (n : Nat) (h : n ≤ 255) : (UInt8.ofNat n).toNat = n := by
  simp [UInt8.toNat_ofNat']; omega

theorem parseMeta2_enc (m : MetaKVs) (rest : Bytes) (h : ∀ kv ∈ m, kv.1.length ≤ 255 ∧ kv.2.length ≤ 255) :
    parseMeta2 m.length
      ((m.flatMap fun kv => (UInt8.ofNat kv.1.length :: kv.1) ++ (UInt8.ofNat kv.2.length :: kv.2)) ++ rest)
      = some (m, rest) := by
  induction m with
  | nil => rfl
  | cons kv r ih =>
    obtain ⟨hk, hv⟩ := h kv (List.mem_cons_self ..)
    have ih' := ih (fun kv' h' => h kv' (List.mem_cons_of_mem _ h'))
    simp only [List.length_cons, List.flatMap_cons, List.cons_append, List.append_assoc, parseMeta2,
      ofNat_toNat_255 _ hk]
    rw [take_length_append, drop_length_append]
    simp only [ofNat_toNat_255 _ hv]
    simp only [List.cons_append] at ih'
    rw [take_length_append, drop_length_append, ih', if_neg (Nat.lt_irrefl _)]
    simp

theorem readString_enc (k rest : Bytes) (hk : k.length ≤ 0x7FFFFFFF) :
    readString ((le 4 k.length ++ k) ++ rest) = some (k, rest) := by
  have h4 : (le 4 k.length).length = 4 := le_length _ _
  have t4 : ((le 4 k.length ++ k) ++ rest).take 4 = le 4 k.length := by
    rw [List.append_assoc]; rw [← h4]; exact take_length_append _ _
  have d4 : ((le 4 k.length ++ k) ++ rest).drop 4 = k ++ rest := by
    rw [List.append_assoc]; rw [← h4]; exact drop_length_append _ _
  have hu : unle (le 4 k.length) = k.length := unle_le_of_lt 4 _ (by
    have : (256:Nat)^4 = 4294967296 := by decide
    omega)
  unfold readString
  simp only [t4, d4, h4, hu, Nat.lt_irrefl, if_false]
  rw [if_neg (by omega), take_length_append, drop_length_append]
  simp

theorem parseMeta1_enc (m : MetaKVs) (rest : Bytes)
    (h : ∀ kv ∈ m, kv.1.length ≤ 0x7FFFFFFF ∧ kv.2.length ≤ 0x7FFFFFFF) :
    parseMeta1 m.length
      ((m.flatMap fun kv => (le 4 kv.1.length ++ kv.1) ++ (le 4 kv.2.length ++ kv.2)) ++ rest) = some (m, rest) := by
  induction m with
  | nil => rfl
  | cons kv r ih =>
    obtain ⟨hk, hv⟩ := h kv (List.mem_cons_self ..)
    have ih' := ih (fun kv' h' => h kv' (List.mem_cons_of_mem _ h'))
    simp only [List.length_cons, List.flatMap_cons, parseMeta1]
    rw [List.append_assoc, List.append_assoc, readString_enc _ _ hk]
    simp only []
    rw [readString_enc _ _ hv]
    simp only [ih']

theorem parseMeta_enc (fmt : Fmt) (m : MetaKVs) (rest : Bytes) (h : metaOk fmt m) :
    parseMeta fmt (metaBytes fmt m ++ rest) = some (m, rest) := by
  cases fmt with
  | v2 =>
    obtain ⟨hl, hkv⟩ := h
    simp only [parseMeta, metaBytes, List.cons_append, ofNat_toNat_255 _ hl]
    exact parseMeta2_enc m rest hkv
  | v1 =>
    obtain ⟨hl, hkv⟩ := h
    have h8 : (le 8 m.length).length = 8 := le_length _ _
    have hu : unle (le 8 m.length) = m.length := unle_le_of_lt 8 _ (by
      have : (256:Nat)^8 = 2^64 := by decide
      omega)
    simp only [parseMeta, metaBytes, List.append_assoc]
    have t8 := take_length_append (le 8 m.length) ((m.flatMap fun kv => (le 4 kv.1.length ++ kv.1) ++ (le 4 kv.2.length ++ kv.2)) ++ rest)
    have d8 := drop_length_append (le 8 m.length) ((m.flatMap fun kv => (le 4 kv.1.length ++ kv.1) ++ (le 4 kv.2.length ++ kv.2)) ++ rest)
    rw [h8] at t8 d8
    simp only [List.append_assoc] at t8 d8
    rw [t8, d8, h8, hu, if_neg (Nat.lt_irrefl _)]
    have := parseMeta1_enc m rest hkv
    simp only [List.append_assoc] at this
    exact this

theorem magicOf_length (fmt : Fmt) : (magicOf fmt).length = 8 := by cases fmt <;> rfl
theorem versionOf_lt (fmt : Fmt) : versionOf fmt < 256 ^ 8 := by cases fmt <;> decide

theorem entries_length_le (fmt : Fmt) (sd : Sealed) : (entries fmt sd).length ≤ numPrefixes := by
  unfold entries
  refine Nat.le_trans (List.length_filterMap_le _ _) ?_
  cases fmt <;> simp [prefixOrder]

theorem drop16 (a b c : Bytes) (ha : a.length = 8) (hb : b.length = 8) : (a ++ (b ++ c)).drop 16 = c := by
  have : (16:Nat) = a.length + b.length := by omega
  rw [this, ← List.drop_drop, drop_length_append, drop_length_append]

def initTable : Array (Option Nat) := Array.replicate numPrefixes none

/-- `NewReader` succeeds on every file `Seal` writes, and reads back exactly the offsets that were written -/
theorem openB_encode (fmt : Fmt) (m : MetaKVs) (sd : Sealed) (hm : metaOk fmt m)
    (hh : (headerRest fmt m (entries fmt sd)).length < 2^32) :
    openB fmt (encode fmt m sd).toArray =
      some ⟨fmt, setAll (entries fmt sd) 0 initTable, (headerBytes fmt m (entries fmt sd)).length, m⟩ := by
  obtain ⟨es, hes⟩ : ∃ es, es = entries fmt sd := ⟨_, rfl⟩
  obtain ⟨R, hR⟩ : ∃ R, R = headerRest fmt m es := ⟨_, rfl⟩
  obtain ⟨Bd, hBd⟩ : ∃ Bd, Bd = bodyBytes es := ⟨_, rfl⟩
  have hF : encode fmt m sd = le 4 R.length ++ (R ++ Bd) := by
    rw [encode, headerBytes, ← hes, ← hR, ← hBd, List.append_assoc]
  have hHlen : (headerBytes fmt m (entries fmt sd)).length = R.length + 4 := by
    rw [headerBytes, ← hes, ← hR, List.length_append, le_length]; omega
  have h4 : (le 4 R.length).length = 4 := le_length _ _
  have hFlen : (encode fmt m sd).length = 4 + (R.length + Bd.length) := by
    rw [hF, List.length_append, List.length_append, h4]
  rw [← hes] at hh
  rw [← hR] at hh
  have hu4 : unle (le 4 R.length) = R.length := unle_le_of_lt 4 _ (by
    have : (256:Nat)^4 = 2^32 := by decide
    omega)
  have r1 : rd (encode fmt m sd).toArray 0 1 = some (slice (encode fmt m sd) 0 1) := by
    rw [rd_toArray, if_pos (by omega)]
  have r4 : rd (encode fmt m sd).toArray 0 4 = some (le 4 R.length) := by
    rw [rd_toArray, if_pos (by omega), hF]
    have := slice_zero_append (le 4 R.length) (R ++ Bd)
    rw [h4] at this; rw [this]
  have rR : rd (encode fmt m sd).toArray 4 R.length = some R := by
    rw [rd_toArray, if_pos (by omega), hF]
    have := slice_append_right (le 4 R.length) (R ++ Bd) 0 R.length
    rw [h4] at this; rw [this, slice_zero_append]
  -- the header fields
  have hmag := magicOf_length fmt
  have h8v : (le 8 (versionOf fmt)).length = 8 := le_length _ _
  have h8n : (le 8 es.length).length = 8 := le_length _ _
  have hRdef : R = magicOf fmt ++ (le 8 (versionOf fmt) ++ (metaBytes fmt m ++ (le 8 es.length ++ tableFrom es 0))) := by
    rw [hR, headerRest]
  have tk8 : R.take 8 = magicOf fmt := by
    rw [hRdef, ← hmag]; exact take_length_append _ _
  have dr8 : R.drop 8 = le 8 (versionOf fmt) ++ (metaBytes fmt m ++ (le 8 es.length ++ tableFrom es 0)) := by
    rw [hRdef, ← hmag]; exact drop_length_append _ _
  have tk8v : (R.drop 8).take 8 = le 8 (versionOf fmt) := by
    rw [dr8, ← h8v]; exact take_length_append _ _
  have dr16 : R.drop 16 = metaBytes fmt m ++ (le 8 es.length ++ tableFrom es 0) := by
    rw [hRdef]; exact drop16 _ _ _ hmag h8v
  have huv : unle (le 8 (versionOf fmt)) = versionOf fmt := unle_le_of_lt 8 _ (versionOf_lt fmt)
  have hnlt : es.length < 256 ^ 8 := by
    have := entries_length_le fmt sd
    rw [← hes] at this
    have : (256:Nat)^8 = 2^64 := by decide
    simp only [numPrefixes] at *
    omega
  have hun : unle (le 8 es.length) = es.length := unle_le_of_lt 8 _ hnlt
  have tk8n : (le 8 es.length ++ tableFrom es 0).take 8 = le 8 es.length := by
    rw [← h8n]; exact take_length_append _ _
  have dr8n : (le 8 es.length ++ tableFrom es 0).drop 8 = tableFrom es 0 := by
    rw [← h8n]; exact drop_length_append _ _
  have hkeys : ∀ e ∈ es, e.1 < 65536 := by
    intro e he
    rw [hes] at he
    exact (entries_key fmt sd e he).1
  unfold openB
  simp only [r1, r4, hu4, rR, tk8, ne_eq, not_true_eq_false, if_false, tk8v, h8v, Nat.lt_irrefl, huv, dr16,
    parseMeta_enc fmt m _ hm, tk8n, h8n, hun, dr8n, parseTable_tableFrom es 0 _ hkeys]
  rw [hHlen, initTable, hes]


/-- what the byte-level theorem needs from the sealed buckets: `numHashes*8` fits `uint32`, hashes fit `uint64` -/
structure SealedOk (sd : Sealed) : Prop where
  small : ∀ p lay, sd.getD p none = some lay → lay.size < 2^29
  keys : ∀ p lay, sd.getD p none = some lay → ∀ i, i < lay.size → (lay.getD i default).1 < 2^64

/-- `Reader.Has` over the bytes `Seal` wrote answers what the abstract reader answers (no error, same verdict) -/
theorem hasB_encode (fmt : Fmt) (m : MetaKVs) (sd : Sealed) (hok : SealedOk sd)
    (hlen : (encode fmt m sd).length < 2^63) (p x : Nat) (hp : p < numPrefixes) :
    hasB (encode fmt m sd).toArray
        ⟨fmt, setAll (entries fmt sd) 0 initTable, (headerBytes fmt m (entries fmt sd)).length, m⟩ p x
      = if hasA sd p x then Res.yes else Res.no := by
  obtain ⟨es, hes⟩ : ∃ es, es = entries fmt sd := ⟨_, rfl⟩
  obtain ⟨Hd, hHd⟩ : ∃ Hd, Hd = headerBytes fmt m es := ⟨_, rfl⟩
  obtain ⟨Bd, hBd⟩ : ∃ Bd, Bd = bodyBytes es := ⟨_, rfl⟩
  have hF : encode fmt m sd = Hd ++ Bd := by rw [encode, ← hes, ← hHd, ← hBd]
  rw [← hes, ← hHd]
  have hFlen : (encode fmt m sd).length = Hd.length + Bd.length := by rw [hF, List.length_append]
  have hrd : ∀ k n, k + n ≤ Bd.length → rd (encode fmt m sd).toArray (Hd.length + k) n = some (slice Bd k n) := by
    intro k n hkn
    rw [rd_toArray, if_pos (by omega), hF, slice_append_right]
  have htab := setAll_spec es 0 initTable p (hes ▸ entries_nodup fmt sd) (by
    intro e he
    rw [hes] at he
    simpa [initTable] using (entries_key fmt sd e he).1)
  unfold hasB
  simp only []
  rw [htab]
  cases hfo : findOff es 0 p with
  | none =>
    have hnone : sd.getD p none = none := by
      cases hs : sd.getD p none with
      | none => rfl
      | some lay =>
        have hm : (p, lay) ∈ es := hes ▸ (mem_entries fmt sd p lay).2 ⟨hp, hs⟩
        exact absurd rfl (findOff_none es 0 p hfo _ hm)
    have : initTable.getD p none = none := by simp [initTable, Array.getD, hp]
    simp only [this, hasA, hnone]
    rfl
  | some o =>
    obtain ⟨lay, hm, _, hfit, hsl⟩ := findOff_body es 0 p o hfo
    rw [Nat.sub_zero, ← hBd] at hfit hsl
    have hs : sd.getD p none = some lay := ((mem_entries fmt sd p lay).1 (hes ▸ hm)).2
    have hsmall := hok.small p lay hs
    have hkeys := hok.keys p lay hs
    have ho63 : o < 2^63 := by omega
    have homod : o % 2^64 = o := Nat.mod_eq_of_lt (by omega)
    have hcount : rd (encode fmt m sd).toArray (Hd.length + o) 4 = some (le 4 lay.size) := by
      rw [hrd o 4 (by omega)]
      have := slice_slice Bd o (4 + 8 * lay.size) 0 4 (by omega)
      rw [Nat.add_zero, hsl, bucketBytes_count] at this
      rw [this]
    have hun : unle (le 4 lay.size) = lay.size := unle_le_of_lt 4 _ (by
      have : (256:Nat)^4 = 2^32 := by decide
      omega)
    simp only [homod, hcount, hun]
    rw [if_neg (by omega), if_neg (by omega)]
    have hlim : lay.size * 8 % 2^32 = lay.size * 8 := Nat.mod_eq_of_lt (by omega)
    rw [searchB_eq lay _ x ?_ (lay.size + 1) 0]
    · simp only [hasA, hs, searchLay]
    · intro i hi
      rw [hlim, if_pos (by omega)]
      have e1 : Hd.length + o + 4 + i * 8 = Hd.length + (o + (4 + i * 8)) := by omega
      rw [e1, hrd _ 8 (by omega)]
      have := slice_slice Bd o (4 + 8 * lay.size) (4 + i * 8) 8 (by omega)
      rw [hsl, bucketBytes_hash lay i hi] at this
      rw [← this]
      have hk8 : unle (le 8 (lay.getD i default).1) = (lay.getD i default).1 := unle_le_of_lt 8 _ (by
        have : (256:Nat)^8 = 2^64 := by decide
        have := hkeys i hi
        omega)
      rw [Option.map_some, hk8]

/-- every slot of an eytzinger layout holds an element of the input -/
theorem layout_getD_mem {β : Type} [Inhabited β] (xs : Array (Nat × β)) (p : Nat) (hp : p < xs.size) :
    ∃ j, j < xs.size ∧ (Eytz.layout xs).getD p default = xs.getD j default := by
  have hs := Eytz.fill_spec xs xs.size 1 0 (Array.replicate xs.size default) (by omega) (by simp)
  obtain ⟨_, _, hval⟩ := hs
  have := hval (p+1) (by omega) (by omega)
  rw [show Eytz.inSubB 1 (p+1) = true from Eytz.inSub_one (p+1) (by omega)] at this
  simp only [Nat.add_sub_cancel, if_true] at this
  have hr := Eytz.rank_range xs.size (p+1) 1 0 (by omega) (Eytz.inSub_one (p+1) (by omega)) (by omega)
  rw [Eytz.size_one] at hr
  exact ⟨Eytz.rank xs.size 1 0 (p+1), by omega, this⟩

theorem layoutOf_key_mem (l : List Nat) (i : Nat) (hi : i < (layoutOf l).size) :
    ((layoutOf l).getD i default).1 ∈ l := by
  rw [size_layoutOf] at hi
  obtain ⟨j, hj, he⟩ := layout_getD_mem ((cleanSet l).map (fun x => (x, ()))).toArray i (by simpa using hi)
  have hj' : j < (cleanSet l).length := by simpa using hj
  rw [layoutOf, he]
  have : (((cleanSet l).map (fun x => (x, ()))).toArray.getD j default).1 = (cleanSet l)[j] := by
    simp [Array.getD, hj']
  rw [this]
  exact (mem_cleanSet _ l).1 (List.getElem_mem hj')

theorem dedupFrom_length_le (prev : Nat) (l : List Nat) : (dedupFrom prev l).length ≤ l.length := by
  induction l generalizing prev with
  | nil => simp [dedupFrom]
  | cons y r ih =>
    rw [dedupFrom]
    by_cases e : y = prev
    · rw [if_pos e]; have := ih prev; simp; omega
    · rw [if_neg e]; have := ih y; simp; omega

/-- `numHashes` of a bucket never exceeds the number of `Put`s into it -/
theorem cleanSet_length_le (l : List Nat) : (cleanSet l).length ≤ l.length := by
  unfold cleanSet
  have hm := List.length_mergeSort (le := fun a b => decide (a ≤ b)) l
  cases hs : l.mergeSort (fun a b => decide (a ≤ b)) with
  | nil => simp [dedup]
  | cons y r =>
    rw [hs] at hm
    have := dedupFrom_length_le y r
    simp only [dedup, List.length_cons] at *
    omega

theorem sealBucket_some (fmt : Fmt) (b : List Nat) (lay : Lay) (h : sealBucket fmt b = some lay) : lay = layoutOf b := by
  cases fmt with
  | v2 => simpa [sealBucket] using h.symm
  | v1 =>
    simp only [sealBucket] at h
    split at h
    · simp at h
    · simpa using h.symm

/-- sealed buckets satisfy the size hypotheses when the hash is 64-bit and no bucket has 2^29 distinct hashes -/
theorem sealedOk_sealA (fmt : Fmt) (w : Buckets)
    (hk : ∀ p x, x ∈ w.getD p [] → x < 2^64)
    (hsmall : ∀ p, (cleanSet (w.getD p [])).length < 2^29) : SealedOk (sealA fmt w) := by
  have key : ∀ p lay, (sealA fmt w).getD p none = some lay → lay = layoutOf (w.getD p []) := by
    intro p lay h
    by_cases hp : p < w.size
    · rw [getD_sealA fmt w p hp] at h
      exact sealBucket_some fmt _ lay h
    · simp [sealA, Array.getD, hp] at h
  constructor
  · intro p lay h
    rw [key p lay h, size_layoutOf]
    exact hsmall p
  · intro p lay h i hi
    rw [key p lay h] at hi ⊢
    exact hk p _ (layoutOf_key_mem _ i hi)

theorem tableFrom_length (es : List (Nat × Lay)) (off : Nat) : (tableFrom es off).length = 10 * es.length := by
  induction es generalizing off with
  | nil => rfl
  | cons e r ih => simp only [tableFrom, List.length_append, le_length, ih, List.length_cons]; omega

theorem headerRest_length (fmt : Fmt) (m : MetaKVs) (es : List (Nat × Lay)) :
    (headerRest fmt m es).length = 24 + (metaBytes fmt m).length + 10 * es.length := by
  simp only [headerRest, List.length_append, le_length, magicOf_length, tableFrom_length]; omega

theorem bodyBytes_length_le (es : List (Nat × Lay)) (h : ∀ e ∈ es, e.2.size < 2^29) :
    (bodyBytes es).length ≤ es.length * (4 + 8 * 2^29) := by
  induction es with
  | nil => simp [bodyBytes]
  | cons e r ih =>
    rw [bodyBytes_cons, List.length_append, bucketBytes_length, List.length_cons, Nat.succ_mul]
    have := ih (fun e' he' => h e' (List.mem_cons_of_mem _ he'))
    have := h e (List.mem_cons_self ..)
    omega

/-- a bucket never holds more hashes than there were `Put`s -/
theorem bucket_length_le (h : Sig → Nat) (sigs : List Sig) (w : Buckets) (p : Nat) :
    ((sigs.foldl (put h) w).getD p []).length ≤ (w.getD p []).length + sigs.length := by
  induction sigs generalizing w with
  | nil => simp
  | cons s r ih =>
    rw [List.foldl_cons]
    refine Nat.le_trans (ih (put h w s)) ?_
    by_cases hp : p < w.size
    · rw [getD_put h w s p hp]
      by_cases e : prefixOf s = p
      · simp [e]; omega
      · simp [e]
    · have : (put h w s).getD p [] = [] := by simp [Array.getD, size_put, hp]
      rw [this]; simp; omega

/-- the explicit size hypotheses of the file (header length in `uint32`, offsets in `int64`) follow from a
    metadata bound and the per-bucket bound -/
theorem sizes_ok (fmt : Fmt) (m : MetaKVs) (sd : Sealed) (hok : SealedOk sd)
    (hmeta : (metaBytes fmt m).length < 2^31) :
    (headerRest fmt m (entries fmt sd)).length < 2^32 ∧ (encode fmt m sd).length < 2^63 := by
  have hn := entries_length_le fmt sd
  have hb := bodyBytes_length_le (entries fmt sd) (fun e he => hok.small e.1 e.2 (entries_key fmt sd e he).2)
  have hr := headerRest_length fmt m (entries fmt sd)
  simp only [numPrefixes] at hn
  have hmul : (entries fmt sd).length * (4 + 8 * 2^29) ≤ 65536 * (4 + 8 * 2^29) := Nat.mul_le_mul_right _ hn
  constructor
  · omega
  · rw [encode, List.length_append, headerBytes, List.length_append, le_length]; omega

end BK

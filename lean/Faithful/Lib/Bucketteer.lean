import Faithful.Lib.Hash
import Faithful.Lib.Bytes
import Faithful.Lib.EytzLayout
import Faithful.Generated.Consts

/-!
Model of the signature-existence index `bucketteer` (current format, version 2: /repo/bucketteer) and of
`deprecated/bucketteer` (version 1).

Layers
* writer state `Buckets`: one list of 64-bit hashes per two-byte prefix (`Writer.Put`, `Writer.Has`);
* abstract sealed index `Sealed`: per prefix either nothing (v1: prefix never seen) or the eytzinger layout of the
  sorted, de-duplicated hashes (`seal` / `getCleanSet` / `sortWithCompare`); abstract reader `hasA`;
* bytes: `encode` is the file `Writer.Seal` leaves on disk (the draft header is overwritten by the final one, so the
  file is `final header ‖ bucket bodies`), `openB` / `hasB` are `NewReader` / `Reader.Has` over a file.

All theorems are for an arbitrary hash function `h : Sig → Nat`; the driver instantiates `h` with xxhash64.
-/
namespace BK
open B

abbrev Sig := Bytes

/-- number of two-byte prefixes (`math.MaxUint16 + 1`, the length of `prefixToHashes` / `bucketToOffset`) -/
def numPrefixes : Nat := 65536

/-- `prefixToUint16(sig[:2])`: little endian.  Go signatures are `[64]byte`; the model is total on shorter lists. -/
def prefixOf (s : Sig) : Nat := (s.getD 0 0).toNat + 256 * (s.getD 1 0).toNat

theorem prefixOf_lt (s : Sig) : prefixOf s < numPrefixes := by
  unfold prefixOf numPrefixes
  have h0 := (s.getD 0 0).toNat_lt
  have h1 := (s.getD 1 0).toNat_lt
  omega

/-! ### writer -/

/-- `Writer.prefixToHashes`.  Each bucket is kept newest-first (Go appends; `Has` is a linear scan and `Seal` sorts,
    so the order inside a bucket is never observable). -/
abbrev Buckets := Array (List Nat)

def emptyW : Buckets := Array.replicate numPrefixes []

/-- `Writer.Put` -/
def put (h : Sig → Nat) (w : Buckets) (s : Sig) : Buckets := w.modify (prefixOf s) (fun l => h s :: l)

def putAll (h : Sig → Nat) (sigs : List Sig) : Buckets := sigs.foldl (put h) emptyW

/-- `Writer.Has`: linear scan of the bucket of the prefix -/
def writerHas (h : Sig → Nat) (w : Buckets) (s : Sig) : Bool := (w.getD (prefixOf s) []).contains (h s)

theorem size_put (h : Sig → Nat) (w : Buckets) (s : Sig) : (put h w s).size = w.size := by
  simp [put]

theorem size_foldl_put (h : Sig → Nat) (sigs : List Sig) (w : Buckets) : (sigs.foldl (put h) w).size = w.size := by
  induction sigs generalizing w with
  | nil => rfl
  | cons s r ih => rw [List.foldl_cons, ih, size_put]

theorem size_putAll (h : Sig → Nat) (sigs : List Sig) : (putAll h sigs).size = numPrefixes := by
  simp [putAll, size_foldl_put, emptyW]

theorem getD_put (h : Sig → Nat) (w : Buckets) (s : Sig) (p : Nat) (hp : p < w.size) :
    (put h w s).getD p [] = if prefixOf s = p then h s :: w.getD p [] else w.getD p [] := by
  by_cases e : prefixOf s = p <;> simp [put, Array.getD, hp, Array.getElem_modify, e]

/-- what a bucket holds after any sequence of `Put`s -/
theorem mem_bucket (h : Sig → Nat) (sigs : List Sig) (w : Buckets) (p x : Nat) (hp : p < w.size) :
    x ∈ (sigs.foldl (put h) w).getD p [] ↔ x ∈ w.getD p [] ∨ ∃ s ∈ sigs, prefixOf s = p ∧ h s = x := by
  induction sigs generalizing w with
  | nil => simp
  | cons s r ih =>
    rw [List.foldl_cons, ih (put h w s) (by rw [size_put]; exact hp), getD_put h w s p hp]
    by_cases e : prefixOf s = p
    · simp only [e, if_true, List.mem_cons]
      constructor
      · rintro ((rfl | hx) | ⟨s', hs', hp', hx'⟩)
        · exact Or.inr ⟨s, Or.inl rfl, e, rfl⟩
        · exact Or.inl hx
        · exact Or.inr ⟨s', Or.inr hs', hp', hx'⟩
      · rintro (hx | ⟨s', rfl | hs', hp', hx'⟩)
        · exact Or.inl (Or.inr hx)
        · exact Or.inl (Or.inl hx'.symm)
        · exact Or.inr ⟨s', hs', hp', hx'⟩
    · simp only [e, if_false, List.mem_cons]
      constructor
      · rintro (hx | ⟨s', hs', hp', hx'⟩)
        · exact Or.inl hx
        · exact Or.inr ⟨s', Or.inr hs', hp', hx'⟩
      · rintro (hx | ⟨s', rfl | hs', hp', hx'⟩)
        · exact Or.inl hx
        · exact absurd hp' e
        · exact Or.inr ⟨s', hs', hp', hx'⟩

theorem mem_putAll (h : Sig → Nat) (sigs : List Sig) (p x : Nat) (hp : p < numPrefixes) :
    x ∈ (putAll h sigs).getD p [] ↔ ∃ s ∈ sigs, prefixOf s = p ∧ h s = x := by
  unfold putAll
  rw [mem_bucket h sigs emptyW p x (by simpa [emptyW] using hp)]
  simp [emptyW, Array.getD, numPrefixes] at *

/-! ### getCleanSet: sort, then drop every element equal to its predecessor -/

def dedupFrom (prev : Nat) : List Nat → List Nat
  | [] => []
  | x :: r => if x = prev then dedupFrom prev r else x :: dedupFrom x r

def dedup : List Nat → List Nat
  | [] => []
  | x :: r => x :: dedupFrom x r

def cleanSet (l : List Nat) : List Nat := dedup (l.mergeSort (fun a b => decide (a ≤ b)))

theorem mem_dedupFrom_sub {prev x : Nat} {l : List Nat} (hx : x ∈ dedupFrom prev l) : x ∈ l := by
  induction l generalizing prev with
  | nil => simp [dedupFrom] at hx
  | cons y r ih =>
    rw [dedupFrom] at hx
    by_cases e : y = prev
    · simp only [e, if_true] at hx; exact List.mem_cons_of_mem _ (ih hx)
    · simp only [e, if_false, List.mem_cons] at hx
      rcases hx with rfl | hx
      · exact List.mem_cons_self ..
      · exact List.mem_cons_of_mem _ (ih hx)

theorem mem_dedupFrom_sup {prev x : Nat} {l : List Nat} (hx : x ∈ l) : x = prev ∨ x ∈ dedupFrom prev l := by
  induction l generalizing prev with
  | nil => simp at hx
  | cons y r ih =>
    rw [dedupFrom]
    by_cases e : y = prev
    · simp only [e, if_true]
      rcases List.mem_cons.1 hx with rfl | hx
      · exact Or.inl e
      · exact ih hx
    · simp only [e, if_false, List.mem_cons]
      rcases List.mem_cons.1 hx with rfl | hx
      · exact Or.inr (Or.inl rfl)
      · rcases ih (prev := y) hx with rfl | h2
        · exact Or.inr (Or.inl rfl)
        · exact Or.inr (Or.inr h2)

theorem mem_dedup (x : Nat) (l : List Nat) : x ∈ dedup l ↔ x ∈ l := by
  cases l with
  | nil => simp [dedup]
  | cons y r =>
    simp only [dedup, List.mem_cons]
    constructor
    · rintro (rfl | hx)
      · exact Or.inl rfl
      · exact Or.inr (mem_dedupFrom_sub hx)
    · rintro (rfl | hx)
      · exact Or.inl rfl
      · exact (mem_dedupFrom_sup hx)

theorem dedupFrom_sorted (prev : Nat) (l : List Nat) (hs : (prev :: l).Pairwise (· ≤ ·)) :
    (prev :: dedupFrom prev l).Pairwise (· < ·) := by
  induction l generalizing prev with
  | nil => simp [dedupFrom]
  | cons y r ih =>
    rw [dedupFrom]
    have hs' := List.pairwise_cons.1 hs
    have hyr := List.pairwise_cons.1 hs'.2
    by_cases e : y = prev
    · simp only [e, if_true]
      apply ih
      exact List.pairwise_cons.2 ⟨fun a ha => hs'.1 a (List.mem_cons_of_mem _ ha), hyr.2⟩
    · simp only [e, if_false]
      have hlt : prev < y := by
        have := hs'.1 y (List.mem_cons_self ..); omega
      have ih' := ih y hs'.2
      refine List.pairwise_cons.2 ⟨?_, ih'⟩
      intro a ha
      rcases List.mem_cons.1 ha with rfl | ha
      · exact hlt
      · have := (List.pairwise_cons.1 ih').1 a ha; omega

theorem dedup_sorted (l : List Nat) (hs : l.Pairwise (· ≤ ·)) : (dedup l).Pairwise (· < ·) := by
  cases l with
  | nil => simp [dedup]
  | cons y r => exact dedupFrom_sorted y r hs

theorem mem_cleanSet (x : Nat) (l : List Nat) : x ∈ cleanSet l ↔ x ∈ l := by
  unfold cleanSet
  rw [mem_dedup, List.mem_mergeSort]

theorem cleanSet_sorted (l : List Nat) : (cleanSet l).Pairwise (· < ·) := by
  unfold cleanSet
  apply dedup_sorted
  have := List.pairwise_mergeSort (le := fun a b => decide (a ≤ b))
    (by intro a b c; simp; omega) (by intro a b; simp; omega) l
  exact this.imp (by intro a b; simp)

/-! ### eytzinger layout of a bucket and the search over it -/

abbrev Lay := Array (Nat × Unit)

/-- `getCleanSet` + `sortWithCompare` (sort again, `eytzinger(a, sorted, 0, 1)`) -/
def layoutOf (l : List Nat) : Lay := Eytz.layout ((cleanSet l).map (fun x => (x, ()))).toArray

/-- `searchEytzinger(0, numHashes, x, getter)` followed by `got == wantedHash` -/
def searchLay (lay : Lay) (x : Nat) : Bool := (Eytz.search lay x (lay.size + 1) 0).isSome

theorem size_layout {β : Type} [Inhabited β] (xs : Array (Nat × β)) : (Eytz.layout xs).size = xs.size := by
  have hs := Eytz.fill_spec xs xs.size 1 0 (Array.replicate xs.size default) (by omega) (by simp)
  exact hs.2.1

theorem size_layoutOf (l : List Nat) : (layoutOf l).size = (cleanSet l).length := by
  simp [layoutOf, size_layout]

/-- the fuel `size + 1` is enough for the Go loop `for index < max`: more fuel never changes the answer -/
theorem search_fuel_enough {β : Type} [Inhabited β] (a : Array (Nat × β)) (x : Nat) (fuel idx : Nat)
    (hf : a.size + 1 ≤ idx + fuel) (extra : Nat) :
    Eytz.search a x (fuel + extra) idx = Eytz.search a x fuel idx := by
  induction fuel generalizing idx with
  | zero =>
    cases extra with
    | zero => rfl
    | succ e =>
      have : ¬ idx < a.size := by omega
      simp [Eytz.search, this]
  | succ f ih =>
    rw [show f + 1 + extra = (f + extra) + 1 by omega]
    rw [Eytz.search, Eytz.search]
    by_cases hi : idx < a.size
    · simp only [hi, if_true]
      by_cases he : (a.getD idx default).1 = x
      · rw [if_pos he, if_pos he]
      · rw [if_neg he, if_neg he]
        apply ih
        by_cases hlt : (a.getD idx default).1 < x
        · rw [if_pos hlt]; omega
        · rw [if_neg hlt]; omega
    · simp [hi]

/-- a hash is found in the layout of a bucket exactly when the bucket contains it (every population) -/
theorem searchLay_iff (l : List Nat) (x : Nat) : searchLay (layoutOf l) x = true ↔ x ∈ l := by
  obtain ⟨cs, hcs⟩ : ∃ cs, cs = cleanSet l := ⟨_, rfl⟩
  obtain ⟨xs, hxs⟩ : ∃ xs : Array (Nat × Unit), xs = (cs.map (fun x => (x, ()))).toArray := ⟨_, rfl⟩
  have hsz : xs.size = cs.length := by simp [hxs]
  have hget : ∀ j (hj : j < cs.length), xs.getD j default = (cs[j], ()) := by
    intro j hj
    simp [hxs, Array.getD, hj]
  have hlay : layoutOf l = Eytz.layout xs := by rw [layoutOf, hxs, hcs]
  have hlaysz : (Eytz.layout xs).size = xs.size := size_layout xs
  unfold searchLay
  rw [hlay, hlaysz]
  constructor
  · intro hfound
    rw [Option.isSome_iff_exists] at hfound
    obtain ⟨v, hv⟩ := hfound
    obtain ⟨j, hj, hjv⟩ := Eytz.layout_search_sound xs x v hv
    rw [hsz] at hj
    rw [hget j hj] at hjv
    have : cs[j] = x := by
      have := congrArg Prod.fst hjv; simpa using this
    have hm : x ∈ cs := by
      rw [← this]; exact List.getElem_mem hj
    exact (mem_cleanSet x l).1 (hcs ▸ hm)
  · intro hx
    have hm : x ∈ cs := hcs ▸ (mem_cleanSet x l).2 hx
    obtain ⟨j, hj, hjx⟩ := List.getElem_of_mem hm
    have hsorted : ∀ p q, p < q → q < xs.size → (xs.getD p default).1 < (xs.getD q default).1 := by
      intro p q hpq hq
      have hq' : q < cs.length := by omega
      rw [hget p (by omega), hget q hq']
      have hs : cs.Pairwise (· < ·) := hcs ▸ cleanSet_sorted l
      exact (List.pairwise_iff_getElem.1 hs) p q (by omega) hq' hpq
    have := Eytz.layout_search_complete xs hsorted j (by omega)
    rw [hget j hj] at this
    simp only [hjx] at this
    rw [this]; rfl

/-! ### abstract sealed index and reader -/

/-- per prefix: `none` = the prefix has no offset-table entry (v1 only), `some lay` = its bucket in file order -/
abbrev Sealed := Array (Option Lay)

/-- the two formats differ abstractly only in whether a never-seen prefix gets an (empty) bucket -/
inductive Fmt | v2 | v1
deriving DecidableEq, Repr

def sealBucket (fmt : Fmt) (b : List Nat) : Option Lay :=
  match fmt with
  | .v2 => some (layoutOf b)                                  -- all 65 536 buckets are written
  | .v1 => if b.isEmpty then none else some (layoutOf b)      -- only map keys, i.e. prefixes that were `Put`

/-- `seal(...)` at the abstract level -/
def sealA (fmt : Fmt) (w : Buckets) : Sealed := w.map (sealBucket fmt)

/-- `Reader.Has` at the abstract level: offset-table lookup, then the eytzinger search -/
def hasA (sd : Sealed) (p x : Nat) : Bool :=
  match sd.getD p none with
  | none => false
  | some lay => searchLay lay x

theorem getD_sealA (fmt : Fmt) (w : Buckets) (p : Nat) (hp : p < w.size) :
    (sealA fmt w).getD p none = sealBucket fmt (w.getD p []) := by
  simp [sealA, Array.getD, hp]

/-- the abstract reader answers exactly "the hash is in the writer's bucket of that prefix" (both formats) -/
theorem hasA_sealA_iff (fmt : Fmt) (w : Buckets) (p x : Nat) (hp : p < w.size) :
    hasA (sealA fmt w) p x = true ↔ x ∈ w.getD p [] := by
  unfold hasA
  rw [getD_sealA fmt w p hp]
  cases fmt with
  | v2 => simp only [sealBucket]; exact searchLay_iff _ _
  | v1 =>
    simp only [sealBucket]
    cases hb : w.getD p [] with
    | nil => simp
    | cons a r => simp only [List.isEmpty_cons, Bool.false_eq_true, if_false]; exact searchLay_iff _ _

/-! ### bytes: the file `Writer.Seal` leaves on disk

`seal` writes a draft header (size 0, all offsets 0), the bucket bodies, flushes, and `Seal` overwrites the draft with
the final header of the same length at offset 0.  The file is therefore `final header ‖ bodies`. -/

def magicOf : Fmt → Bytes
  | .v2 => Generated.bucketteerMagic
  | .v1 => Generated.legacyBucketteerMagic

def versionOf : Fmt → Nat
  | .v2 => Generated.bucketteerVersion
  | .v1 => Generated.legacyBucketteerVersion

abbrev MetaKVs := List (Bytes × Bytes)

/-- v2: `indexmeta.Meta.MarshalBinary` (count byte, then klen k vlen v);
    v1: `uint64 count`, then Borsh strings (`u32 len ‖ bytes`) in the order the caller's map was iterated -/
def metaBytes : Fmt → MetaKVs → Bytes
  | .v2, m => UInt8.ofNat m.length :: m.flatMap fun kv => (UInt8.ofNat kv.1.length :: kv.1) ++ (UInt8.ofNat kv.2.length :: kv.2)
  | .v1, m => le 8 m.length ++ m.flatMap fun kv => (le 4 kv.1.length ++ kv.1) ++ (le 4 kv.2.length ++ kv.2)

/-- order in which prefixes are written: v2 ranges over the array index (little-endian value of the prefix),
    v1 sorts the map keys with `bytes.Compare` (first byte, then second byte) -/
def prefixOrder : Fmt → List Nat
  | .v2 => List.range numPrefixes
  | .v1 => (List.range 256).flatMap fun b0 => (List.range 256).map fun b1 => b0 + 256 * b1

/-- offset-table entries in file order -/
def entries (fmt : Fmt) (sd : Sealed) : List (Nat × Lay) :=
  (prefixOrder fmt).filterMap fun p => (sd.getD p none).map fun lay => (p, lay)

/-- one bucket body: `uint32 count ‖ uint64 hash*` in eytzinger order -/
def bucketBytes (lay : Lay) : Bytes := le 4 lay.size ++ lay.toList.flatMap (fun e => le 8 e.1)

/-- `prefix ‖ uint64 offset` pairs; the offset of a bucket is the total size of the bodies before it -/
def tableFrom : List (Nat × Lay) → Nat → Bytes
  | [], _ => []
  | e :: r, off => (le 2 e.1 ++ le 8 off) ++ tableFrom r (off + (4 + 8 * e.2.size))

def headerRest (fmt : Fmt) (m : MetaKVs) (es : List (Nat × Lay)) : Bytes :=
  magicOf fmt ++ (le 8 (versionOf fmt) ++ (metaBytes fmt m ++ (le 8 es.length ++ tableFrom es 0)))

/-- `createHeader(magic, version, headerSize-4, meta, prefixToOffset)` -/
def headerBytes (fmt : Fmt) (m : MetaKVs) (es : List (Nat × Lay)) : Bytes :=
  le 4 (headerRest fmt m es).length ++ headerRest fmt m es

def bodyBytes (es : List (Nat × Lay)) : Bytes := (es.map fun e => bucketBytes e.2).flatten

def encode (fmt : Fmt) (m : MetaKVs) (sd : Sealed) : Bytes :=
  headerBytes fmt m (entries fmt sd) ++ bodyBytes (entries fmt sd)

/-! ### reader over bytes: `NewReader` / `Reader.Has` -/

abbrev File := Array UInt8

/-- `ReaderAt.ReadAt(buf[len], off)`: all `len` bytes or an error -/
def rd (f : File) (off len : Nat) : Option Bytes :=
  if off + len ≤ f.size then some (f.extract off (off + len)).toList else none

/-- v2 `Meta.UnmarshalWithDecoder`: `n` key-value pairs, one length byte each; returns the unread rest -/
def parseMeta2 : Nat → Bytes → Option (MetaKVs × Bytes)
  | 0, bs => some ([], bs)
  | _+1, [] => none
  | n+1, kl :: r =>
    if (r.take kl.toNat).length < kl.toNat then none else
    match r.drop kl.toNat with
    | [] => none
    | vl :: r2 =>
      if (r2.take vl.toNat).length < vl.toNat then none else
      match parseMeta2 n (r2.drop vl.toNat) with
      | none => none
      | some (l, rest) => some ((r.take kl.toNat, r2.take vl.toNat) :: l, rest)

/-- Borsh `ReadString`: `u32` length (≤ 0x7FFFFFFF), then the bytes -/
def readString (bs : Bytes) : Option (Bytes × Bytes) :=
  if (bs.take 4).length < 4 then none else
  let n := unle (bs.take 4)
  if n > 0x7FFFFFFF then none else
  let r := bs.drop 4
  if (r.take n).length < n then none else some (r.take n, r.drop n)

/-- v1 header metadata: `n` pairs of Borsh strings -/
def parseMeta1 : Nat → Bytes → Option (MetaKVs × Bytes)
  | 0, bs => some ([], bs)
  | n+1, bs =>
    match readString bs with
    | none => none
    | some (k, r) =>
      match readString r with
      | none => none
      | some (v, r2) =>
        match parseMeta1 n r2 with
        | none => none
        | some (l, rest) => some ((k, v) :: l, rest)

def parseMeta (fmt : Fmt) (bs : Bytes) : Option (MetaKVs × Bytes) :=
  match fmt with
  | .v2 =>
    match bs with
    | [] => none
    | c :: r => parseMeta2 c.toNat r
  | .v1 =>
    if (bs.take 8).length < 8 then none else parseMeta1 (unle (bs.take 8)) (bs.drop 8)

/-- the `prefix -> offset` loop of `readHeader`; a later entry for the same prefix overwrites an earlier one -/
def parseTable : Nat → Bytes → Array (Option Nat) → Option (Array (Option Nat))
  | 0, _, t => some t
  | n+1, b0 :: b1 :: o0 :: o1 :: o2 :: o3 :: o4 :: o5 :: o6 :: o7 :: rest, t =>
    parseTable n rest (t.setIfInBounds (b0.toNat + 256 * b1.toNat) (some (unle [o0, o1, o2, o3, o4, o5, o6, o7])))
  | _+1, _, _ => none

structure Rdr where
  fmt : Fmt
  /-- `prefixToOffset`: `none` = no entry (v1: map miss; v2: the array still holds `math.MaxUint64`) -/
  table : Array (Option Nat)
  /-- `headerTotalSize`: where `contentReader` starts -/
  base : Nat
  metaKVs : MetaKVs

/-- `NewReader`: `none` = any error -/
def openB (fmt : Fmt) (f : File) : Option Rdr :=
  match rd f 0 1 with          -- isReaderEmpty
  | none => none
  | some _ =>
    match rd f 0 4 with        -- readHeaderSize
    | none => none
    | some hs =>
      match rd f 4 (unle hs) with
      | none => none
      | some buf =>
        if buf.take 8 ≠ magicOf fmt then none else
        if ((buf.drop 8).take 8).length < 8 then none else
        if unle ((buf.drop 8).take 8) ≠ versionOf fmt then none else
        match parseMeta fmt (buf.drop 16) with
        | none => none
        | some (m, r2) =>
          if (r2.take 8).length < 8 then none else
          match parseTable (unle (r2.take 8)) (r2.drop 8) (Array.replicate numPrefixes none) with
          | none => none
          | some t => some ⟨fmt, t, unle hs + 4, m⟩

inductive Res | yes | no | err
deriving DecidableEq, Repr

/-- `searchEytzinger` over a getter that can fail, then `got == wantedHash` -/
def searchB (get : Nat → Option Nat) (x max : Nat) : Nat → Nat → Res
  | 0, _ => .no
  | fuel+1, index =>
    if index < max then
      match get index with
      | none => .err
      | some k =>
        if k = x then .yes
        else searchB get x max fuel (if k < x then 2*index+2 else 2*index+1)
    else .no

/-- `Reader.Has` for prefix `p` and wanted hash `x` -/
def hasB (f : File) (r : Rdr) (p x : Nat) : Res :=
  match r.table.getD p none with
  | none => .no
  | some off =>
    if r.fmt = .v2 ∧ off = 2^64 - 1 then .no          -- v2 sentinel `math.MaxUint64`
    else if off ≥ 2^63 then .err                        -- `int64(offset)` negative: SectionReader answers EOF
    else
      match rd f (r.base + off) 4 with
      | none => .err
      | some nb =>
        -- `io.NewSectionReader(contentReader, offset+4, int64(numHashes*8))` with the product in uint32
        searchB (fun i => if i * 8 + 8 ≤ (unle nb * 8) % 2^32 then (rd f (r.base + off + 4 + i * 8) 8).map unle else none)
          x (unle nb) (unle nb + 1) 0

end BK

import Faithful.Lib.Gsfa
/-!
# C06: when can `popRank.purge` evict a key?  (the side condition of the periodic flush)

The periodic flush writes `accum[a]` straight to the log when `a` is not in the popularity list.  That is
safe only if `a` has no batch in flight, and a key with a batch in flight is in the list *unless `purge`
evicted it*.  `purge` evicts only when more than `R` **distinct** counts are present.  `d` distinct positive
counts need `1 + 2 + … + d` full batches, i.e. at least `B · d(d+1)/2` pushed entries, so:

`noEvict_of_bound : pushCount evs < B · tri (R+1) → NoEvict p init evs`

(`tri n = n(n+1)/2`; for the real constants `B = 1000`, `R = 10 000` the bound is ≈ 5·10^10 entries.)
-/
namespace Gsfa

variable {A : AccMap} {Rk : RankMap}

/-- `tri n = 1 + 2 + … + n` -/
def tri : Nat → Nat
  | 0 => 0
  | n+1 => tri n + (n+1)

theorem two_tri (n : Nat) : 2 * tri n = n * (n + 1) := by
  induction n with
  | zero => rfl
  | succ n ih =>
    simp only [tri, Nat.mul_add, ih]
    rw [Nat.add_mul]
    simp only [Nat.mul_one, Nat.one_mul]
    omega

theorem tri_mono {n m : Nat} (h : n ≤ m) : tri n ≤ tri m := by
  induction m with
  | zero => have : n = 0 := by omega
            subst this; exact Nat.le_refl _
  | succ m ih =>
    by_cases hn : n = m + 1
    · subst hn; exact Nat.le_refl _
    · have := ih (by omega); simp only [tri]; omega

/-- `k + (k+1) + …` (`n` terms) -/
def lowSum : Nat → Nat → Nat
  | _, 0 => 0
  | k, n+1 => k + lowSum (k+1) n

theorem lowSum_mono {k k' : Nat} (h : k ≤ k') (n : Nat) : lowSum k n ≤ lowSum k' n := by
  induction n generalizing k k' with
  | zero => exact Nat.le_refl _
  | succ n ih => have := ih (k := k+1) (k' := k'+1) (by omega); simp only [lowSum]; omega

theorem lowSum_succ (k n : Nat) : lowSum k (n+1) = lowSum k n + (k + n) := by
  induction n generalizing k with
  | zero => simp [lowSum]
  | succ n ih =>
    have h1 : lowSum k (n+1+1) = k + lowSum (k+1) (n+1) := rfl
    have h2 : lowSum k (n+1) = k + lowSum (k+1) n := rfl
    rw [h1, ih (k+1), h2]; omega

theorem lowSum_one (n : Nat) : lowSum 1 n = tri n := by
  induction n with
  | zero => rfl
  | succ n ih => rw [lowSum_succ, ih]; simp only [tri]; omega

/-- a strictly ascending list of naturals, all at least `k`, sums to at least `k + (k+1) + …` -/
theorem sum_ge_lowSum (l : List Nat) (k : Nat) (hp : l.Pairwise (· < ·)) (hk : ∀ x ∈ l, k ≤ x) :
    lowSum k l.length ≤ l.sum := by
  induction l generalizing k with
  | nil => simp [lowSum]
  | cons x xs ih =>
    have hx := List.pairwise_cons.mp hp
    have h1 := ih (x+1) hx.2 (fun y hy => hx.1 y hy)
    have h2 := lowSum_mono (show k + 1 ≤ x + 1 by have := hk x (List.mem_cons_self ..); omega) xs.length
    simp only [List.length_cons, lowSum, List.sum_cons]
    have := hk x (List.mem_cons_self ..)
    omega

/-! ### sums over duplicate-free key lists -/

theorem sum_map_le {ks : List Addr} {f g : Addr → Nat} (h : ∀ k ∈ ks, f k ≤ g k) :
    (ks.map f).sum ≤ (ks.map g).sum := by
  induction ks with
  | nil => simp
  | cons k ks ih =>
    simp only [List.map_cons, List.sum_cons]
    have := ih (fun x hx => h x (List.mem_cons_of_mem _ hx))
    have := h k (List.mem_cons_self ..)
    omega

theorem sum_map_mul (ks : List Addr) (f : Addr → Nat) (c : Nat) :
    (ks.map (fun k => c * f k)).sum = c * (ks.map f).sum := by
  induction ks with
  | nil => simp
  | cons k ks ih => simp only [List.map_cons, List.sum_cons, ih, Nat.mul_add]

/-- adding one element to the history of `a` raises the sum over a duplicate-free key list by at most one -/
theorem sum_indicator (ks : List Addr) (hn : ks.Nodup) (a : Addr) (f g : Addr → Nat)
    (h : ∀ k, f k = g k + (if a = k then 1 else 0)) :
    (ks.map f).sum ≤ (ks.map g).sum + 1 ∧ (a ∉ ks → (ks.map f).sum = (ks.map g).sum) := by
  induction ks with
  | nil => simp
  | cons k ks ih =>
    have hk := List.nodup_cons.mp hn
    obtain ⟨h1, h2⟩ := ih hk.2
    simp only [List.map_cons, List.sum_cons, h k]
    by_cases hak : a = k
    · subst hak
      have := h2 hk.1
      constructor
      · simp; omega
      · intro hc; exact absurd (List.mem_cons_self ..) hc
    · simp only [hak, if_false, Nat.add_zero]
      constructor
      · omega
      · intro hc
        have := h2 (fun hm => hc (List.mem_cons_of_mem _ hm))
        omega

/-- distinct values of a function come from distinct arguments -/
theorem exists_keys_of_vals (f : Addr → Nat) (vals : List Nat) (hn : vals.Nodup) (h : ∀ v ∈ vals, ∃ k, f k = v) :
    ∃ ks : List Addr, ks.Nodup ∧ ks.map f = vals := by
  induction vals with
  | nil => exact ⟨[], List.nodup_nil, rfl⟩
  | cons v vs ih =>
    have hv := List.nodup_cons.mp hn
    obtain ⟨ks, hks, hm⟩ := ih hv.2 (fun x hx => h x (List.mem_cons_of_mem _ hx))
    obtain ⟨k, hk⟩ := h v (List.mem_cons_self ..)
    refine ⟨k :: ks, List.nodup_cons.mpr ⟨?_, hks⟩, by simp [hk, hm]⟩
    intro hmem
    apply hv.1
    rw [← hm, ← hk]
    exact List.mem_map_of_mem hmem

/-! ### the counting invariant -/

/-- entries of `a` that left the accumulator -/
def outside (s : St A Rk) (a : Addr) : Nat :=
  (ofKey a s.log).length + (ofKey a s.parked).length + (ofKey a s.chan).length

/-- every count in `popRank` is paid for by `B` entries that left the accumulator -/
def Paid (p : Params) (s : St A Rk) : Prop := ∀ a, p.B * Rk.get s.rank a ≤ outside s a

theorem outside_le_view (s : St A Rk) (a : Addr) : outside s a ≤ (view s a).length := by
  simp only [outside, view, List.length_append]; omega

theorem purge_le (R : Nat) (rk : Rk.M) (k : Addr) : Rk.get (purge R rk) k ≤ Rk.get rk k := by
  unfold purge
  simp only
  split
  · exact Nat.le_refl _
  · generalize (rankVals rk).take ((rankVals rk).length - R) = low
    suffices h : ∀ (l : List Addr) (m : Rk.M), Rk.get m k ≤ Rk.get rk k →
        Rk.get (l.foldl (fun m k => if Rk.get rk k ∈ low then Rk.set m k 0 else m) m) k ≤ Rk.get rk k from
      h _ _ (Nat.le_refl _)
    intro l
    induction l with
    | nil => intro m hm; exact hm
    | cons x xs ih =>
      intro m hm
      simp only [List.foldl_cons]
      apply ih
      by_cases hx : Rk.get rk x ∈ low
      · simp only [hx, if_true, Rk.get_set]
        by_cases hkx : k = x <;> simp [hkx, hm]
      · simp only [hx, if_false]; exact hm

theorem foldl_flushSmall_outside (p : Params) (l : List Addr) (s : St A Rk) (a : Addr) :
    outside s a ≤ outside (l.foldl (flushSmall p) s) a ∧ (l.foldl (flushSmall p) s).rank = s.rank := by
  induction l generalizing s with
  | nil => exact ⟨Nat.le_refl _, rfl⟩
  | cons k l ih =>
    simp only [List.foldl_cons]
    obtain ⟨h1, h2⟩ := ih (flushSmall p s k)
    obtain ⟨fr, fp, fc⟩ := flushSmall_frame p s k
    refine ⟨Nat.le_trans ?_ h1, by rw [h2, fr]⟩
    simp only [outside, fp, fc]
    have : (ofKey a s.log).length ≤ (ofKey a (flushSmall p s k).log).length := by
      unfold flushSmall
      by_cases hc : (A.get s.accum k).length < p.T ∧ 0 < (A.get s.accum k).length ∧ Rk.get s.rank k = 0
      · simp only [hc, and_self, if_true, St.log, List.reverse_cons, ofKey_append, List.length_append]; omega
      · simp [hc]
    omega

theorem paid_step (p : Params) (s : St A Rk) (hj : Paid p s) (ev : Ev) : Paid p (step p s ev) := by
  intro a
  cases ev with
  | begin slot =>
    simp only [step]
    by_cases hc : slot % p.M = 0 ∧ A.size s.accum > p.K
    · simp only [hc, and_self, if_true, periodic]
      obtain ⟨h1, h2⟩ := foldl_flushSmall_outside p (A.keys s.accum) ({ s with rank := purge p.R s.rank } : St A Rk) a
      rw [h2]
      have h3 : outside ({ s with rank := purge p.R s.rank } : St A Rk) a = outside s a := rfl
      rw [h3] at h1
      have := Nat.mul_le_mul_left p.B (purge_le p.R s.rank a)
      have := hj a
      simp only at *
      omega
    · simp only [hc, if_false]; exact hj a
  | push a' e =>
    simp only [step]
    by_cases hnil : A.get s.accum a' = []
    · simp only [hnil, if_true]; exact hj a
    · simp only [hnil, if_false]
      by_cases hfull : (A.get s.accum a' ++ [e]).length ≥ p.B
      · simp only [hfull, if_true]
        simp only [outside, Rk.get_set, St.log, ofKey_append, ofKey_single, List.length_append]
        have := hj a
        simp only [outside, St.log] at this
        by_cases h : a = a'
        · subst h
          simp only [if_true, Nat.mul_add, Nat.mul_one]
          have := List.length_append (as := A.get s.accum a) (bs := [e])
          omega
        · have h' : ¬ a' = a := fun e => h e.symm
          simp only [h, h', if_false, List.length_nil]; omega
      · simp only [hfull, if_false]; exact hj a
  | bgRecv =>
    simp only [step]
    cases hc : s.chan with
    | nil => simp only; exact hj a
    | cons x c =>
      have := hj a
      simp only [outside, St.log, hc, ofKey_cons a x c, List.length_append] at this
      simp only
      split
      · simp only [outside, St.log, List.reverse_append, List.reverse_reverse, ofKey_append, ofKey_single,
          List.length_append]
        omega
      · simp only [outside, St.log, ofKey_append, ofKey_single, List.length_append]
        omega

/-- number of (address, entry) pairs pushed -/
def pushCount : List Ev → Nat
  | [] => 0
  | .push _ _ :: evs => pushCount evs + 1
  | _ :: evs => pushCount evs

/-- if fewer than `B · tri (R+1)` entries are accounted for, `purge` sees at most `R` distinct counts -/
theorem vals_le (p : Params) (s : St A Rk) (hj : Paid p s) (n : Nat)
    (hv : ∀ ks : List Addr, ks.Nodup → (ks.map (fun k => (view s k).length)).sum ≤ n)
    (hb : n < p.B * tri (p.R + 1)) : (rankVals s.rank).length ≤ p.R := by
  apply Classical.byContradiction
  intro hlt
  have hd : p.R + 1 ≤ (rankVals s.rank).length := by omega
  have hpw : (rankVals s.rank).Pairwise (· < ·) := pairwise_sortDedup _
  have hmem : ∀ v ∈ rankVals s.rank, 1 ≤ v ∧ ∃ k, Rk.get s.rank k = v := by
    intro v hv
    have := mem_sortDedup.mp hv
    simp only [List.mem_filter, List.mem_map, decide_eq_true_eq] at this
    obtain ⟨⟨k, _, hk⟩, hne⟩ := this
    exact ⟨by omega, k, hk⟩
  obtain ⟨ks, hks, hmap⟩ := exists_keys_of_vals (Rk.get s.rank) (rankVals s.rank) (nodup_sortDedup _)
    (fun v hv => (hmem v hv).2)
  have h1 : lowSum 1 (rankVals s.rank).length ≤ (rankVals s.rank).sum :=
    sum_ge_lowSum _ 1 hpw (fun v hv => (hmem v hv).1)
  rw [lowSum_one] at h1
  have h2 : tri (p.R + 1) ≤ (rankVals s.rank).sum := Nat.le_trans (tri_mono hd) h1
  have h3 : p.B * (ks.map (Rk.get s.rank)).sum ≤ n := by
    rw [← sum_map_mul]
    refine Nat.le_trans (sum_map_le (g := fun k => (view s k).length) ?_) (hv ks hks)
    intro k _
    exact Nat.le_trans (hj k) (outside_le_view s k)
  rw [hmap] at h3
  have := Nat.mul_le_mul_left p.B h2
  omega

theorem noEvict_aux (p : Params) (evs : List Ev) (s : St A Rk) (n : Nat) (hi : Inv s) (hj : Paid p s)
    (hv : ∀ ks : List Addr, ks.Nodup → (ks.map (fun k => (view s k).length)).sum ≤ n)
    (hb : n + pushCount evs < p.B * tri (p.R + 1)) : NoEvict p s evs := by
  induction evs generalizing s n with
  | nil => trivial
  | cons ev evs ih =>
    have hok : evOk p s ev := by
      cases ev with
      | begin slot => exact vals_le p s hj n hv (by omega)
      | push _ _ => trivial
      | bgRecv => trivial
    obtain ⟨h1, h2⟩ := view_step p s hi ev hok
    refine ⟨hok, ?_⟩
    cases ev with
    | push a e =>
      apply ih (step p s (.push a e)) (n + 1) h2 (paid_step p s hj _)
      · intro ks hks
        have := (sum_indicator ks hks a (fun k => (view (step p s (.push a e)) k).length)
          (fun k => (view s k).length) (by
            intro k; rw [h1 k]; simp only [pushed, List.length_append]
            by_cases h : a = k <;> simp [h])).1
        have := hv ks hks
        omega
      · simp only [pushCount] at hb; omega
    | begin slot =>
      apply ih (step p s (.begin slot)) n h2 (paid_step p s hj _)
      · intro ks hks
        have e : (fun k => (view (step p s (.begin slot)) k).length) = (fun k => (view s k).length) := by
          funext k; rw [h1 k]; simp [pushed]
        rw [e]; exact hv ks hks
      · simpa [pushCount] using hb
    | bgRecv =>
      apply ih (step p s .bgRecv) n h2 (paid_step p s hj _)
      · intro ks hks
        have e : (fun k => (view (step p s .bgRecv) k).length) = (fun k => (view s k).length) := by
          funext k; rw [h1 k]; simp [pushed]
        rw [e]; exact hv ks hks
      · simpa [pushCount] using hb

/-- **the rank bound**: a history with fewer than `B · (R+1)(R+2)/2` pushed entries never makes `purge`
    evict, under any schedule -/
theorem noEvict_of_bound (p : Params) (evs : List Ev) (hb : pushCount evs < p.B * tri (p.R + 1)) :
    NoEvict p (init : St A Rk) evs := by
  apply noEvict_aux p evs init 0 inv_init
  · intro a; simp [init, Rk.get_empty]
  · intro ks _
    have : (fun k => (view (init : St A Rk) k).length) = fun _ => 0 := by
      funext k; simp [view, init, St.log, A.get_empty]
    rw [this]
    induction ks with
    | nil => simp
    | cons k ks ih =>
      have := ih (List.nodup_cons.mp ‹_›).2
      simp only [List.map_cons, List.sum_cons]; omega
  · omega

end Gsfa

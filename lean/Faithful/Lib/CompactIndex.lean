import Faithful.Lib.Hash
import Faithful.Lib.Bytes
import Faithful.Lib.EytzLayout
import Faithful.Generated.Consts

/-!
Model of `compactindexsized` (build.go, compactindex.go, query.go).

Two layers:
* abstract (`IndexA`): buckets of (24-bit hash, value) pairs in eytzinger order; `buildA`, `lookupA`.
  All property theorems of C04/C03 are about this layer, for an arbitrary pair of hash functions `HF`.
* bytes: `encode : IndexA → Bytes` is the file the Go `Seal` writes (compared byte for byte with the real
  file on every run) and `openB/lookupB` is the Go `Open/Lookup` over a file (compared answer for answer).
-/
namespace CI
open B

/-- the two hash functions the index depends on; theorems quantify over them -/
structure HF where
  /-- `Header.BucketHash(key)` for `numBuckets`; `none` = the Go loop does not terminate within the fuel -/
  bucket : Bytes → Nat → Option Nat
  /-- `EntryHash64(nonce, key)` (all 64 bits) -/
  entry64 : Nat → Bytes → Nat

/-- the builder's `EntryHash64(nonce, key) & 0xffffff` -/
def HF.entry (hf : HF) (nonce : Nat) (key : Bytes) : Nat := hf.entry64 nonce key % 2 ^ (8 * Generated.hashSize)

/-- Header.BucketHash with fuel; none = the Go loop would still be spinning -/
def bucketHashLoop : Nat → UInt64 → UInt64 → Option UInt64
  | 0, _, _ => none
  | f+1, r, u =>
    if u < r then
      let nx := H.hashUint64 u
      if nx = u then some u else bucketHashLoop f r nx
    else some u

def bucketHash (key : Bytes) (numBuckets : Nat) : Option Nat :=
  let n : UInt64 := numBuckets.toUInt64
  let r : UInt64 := (0 - n) % n
  match bucketHashLoop 64 r (H.xxhash64 key) with
  | some u => some (u % n).toNat
  | none => none

/-- EntryHash64(prefix, key): xxhash64 over a 32-byte block holding the nonce, then the key -/
def entryHash (nonce : Nat) (key : Bytes) : Nat :=
  let block : Bytes := le 4 nonce ++ List.replicate 28 0
  (H.xxhash64 (block ++ key)).toNat

def HF.real : HF := ⟨bucketHash, entryHash⟩

structure KV where
  key : Bytes
  val : Bytes
deriving DecidableEq, Repr

abbrev Ent := Nat × Bytes
instance : Inhabited Ent := ⟨(0, [])⟩

def leEnt (a b : Ent) : Bool := decide (a.1 ≤ b.1)

/-- adjacent duplicate hash in a sorted list (the Go code uses a bitmap; same verdict) -/
def adjDup : List Ent → Bool
  | a :: b :: r => a.1 == b.1 || adjDup (b :: r)
  | _ => false

def hashed (hf : HF) (nonce : Nat) (kvs : List KV) : List Ent :=
  kvs.map fun kv => (hf.entry nonce kv.key, kv.val)

/-- tempBucket.mine: first nonce (counting up from `nonce`) without a 24-bit collision; entries sorted by hash -/
def mineFrom (hf : HF) (kvs : List KV) : Nat → Nat → Option (Nat × List Ent)
  | 0, _ => none
  | f+1, nonce =>
    let sorted := (hashed hf nonce kvs).mergeSort leEnt
    if adjDup sorted then mineFrom hf kvs f (nonce+1) else some (nonce, sorted)

def mine (hf : HF) (kvs : List KV) : Option (Nat × List Ent) := mineFrom hf kvs Generated.mineAttempts 0

structure BucketA where
  nonce : Nat
  /-- eytzinger order -/
  entries : Array Ent

structure IndexA where
  valueSize : Nat
  numBuckets : Nat
  metaKVs : List (Bytes × Bytes)
  buckets : List BucketA

inductive BuildErr | badParams | collision | hang
deriving Repr, DecidableEq

def bucketKVs (hf : HF) (nb : Nat) (kvs : List KV) (i : Nat) : List KV :=
  kvs.filter fun kv => hf.bucket kv.key nb == some i

def sealBucket (hf : HF) (kvs : List KV) : Option BucketA :=
  match mine hf kvs with
  | none => none
  | some (nonce, sorted) => some ⟨nonce, Eytz.layout sorted.toArray⟩

def allSome : List (Option α) → Option (List α)
  | [] => some []
  | none :: _ => none
  | some a :: r => match allSome r with
    | none => none
    | some l => some (a :: l)

def numBucketsFor (declared : Nat) : Nat :=
  (declared + Generated.targetEntriesPerBucket - 1) / Generated.targetEntriesPerBucket

/-- NewBuilderSized + Insert* + Seal at the abstract level.
    `valueSize ≤ 255` is what the Go constructor accepts. -/
def buildA (hf : HF) (valueSize declared : Nat) (m : List (Bytes × Bytes)) (kvs : List KV) : Except BuildErr IndexA :=
  if valueSize = 0 ∨ valueSize > 255 ∨ declared = 0 then .error .badParams
  else
    let nb := numBucketsFor declared
    if kvs.any (fun kv => (hf.bucket kv.key nb).isNone) then .error .hang
    else if kvs.any (fun kv => match hf.bucket kv.key nb with | some i => decide (nb ≤ i) | none => false) then
      .error .badParams   -- a bucket number outside the table: Go would index out of range; impossible for the real hash (`bucketHash_lt`)
    else
      match allSome ((List.range nb).map fun i => sealBucket hf (bucketKVs hf nb kvs i)) with
      | none => .error .collision
      | some bs => .ok ⟨valueSize, nb, m, bs⟩

inductive Look | found (v : Bytes) | notFound | hang | err
deriving Repr, DecidableEq

def lookupA (hf : HF) (ix : IndexA) (key : Bytes) : Look :=
  match hf.bucket key ix.numBuckets with
  | none => .hang
  | some i =>
    match ix.buckets[i]? with
    | none => .err
    | some b =>
      match Eytz.search b.entries (hf.entry b.nonce key) (b.entries.size + 1) 0 with
      | some v => .found v
      | none => .notFound

/-! ### bytes -/

def metaBytes (m : List (Bytes × Bytes)) : Bytes :=
  UInt8.ofNat m.length :: m.flatMap fun kv => (UInt8.ofNat kv.1.length :: kv.1) ++ (UInt8.ofNat kv.2.length :: kv.2)

def magic : Bytes := Generated.compactindexsizedMagic

def headerBytes (valueSize numBuckets : Nat) (m : List (Bytes × Bytes)) : Bytes :=
  let rest := le 8 valueSize ++ le 4 numBuckets ++ [UInt8.ofNat Generated.compactindexsizedVersion] ++ metaBytes m
  magic ++ le 4 rest.length ++ rest

/-- Go computes the stride in uint8 -/
def stride (valueSize : Nat) : Nat := (Generated.hashSize + valueSize % 256) % 256

def entryBytes (valueSize : Nat) (e : Ent) : Bytes :=
  -- marshalEntry into a buffer of `stride` bytes: hash on HashSize bytes, value copied after it
  (le Generated.hashSize e.1 ++ e.2.take valueSize ++ List.replicate (valueSize - e.2.length) 0)

def bucketBody (valueSize : Nat) (b : BucketA) : Bytes := b.entries.toList.flatMap (entryBytes valueSize)

def bucketHeader (b : BucketA) (off : Nat) : Bytes :=
  le 4 b.nonce ++ le 4 b.entries.size ++ [UInt8.ofNat Generated.hashSize, 0] ++ le 6 off

def tableFrom (valueSize : Nat) : List BucketA → Nat → Bytes
  | [], _ => []
  | b :: r, off => bucketHeader b off ++ tableFrom valueSize r (off + b.entries.size * (Generated.hashSize + valueSize))

def encode (ix : IndexA) : Bytes :=
  let hdr := headerBytes ix.valueSize ix.numBuckets ix.metaKVs
  hdr ++ tableFrom ix.valueSize ix.buckets (hdr.length + Generated.bucketHdrLen * ix.numBuckets)
      ++ ix.buckets.flatMap (bucketBody ix.valueSize)

/-! ### reader over bytes (Open / Lookup), executable on `Array UInt8` -/

abbrev File := Array UInt8

def rd (f : File) (off len : Nat) : Option Bytes :=
  if off + len ≤ f.size then some (f.extract off (off + len)).toList else none

structure DB where
  valueSize : Nat
  numBuckets : Nat
  headerSize : Nat
  metaKVs : List (Bytes × Bytes)

/-- indexmeta.Meta.UnmarshalBinary (count, then klen k vlen v …); none = error -/
def parseMetaKVs : Nat → Bytes → Option (List (Bytes × Bytes))
  | 0, _ => some []
  | n+1, bs =>
    match bs with
    | [] => none
    | kl :: r =>
      if r.length < kl.toNat then none else
      let k := r.take kl.toNat
      match r.drop kl.toNat with
      | [] => none
      | vl :: r2 =>
        if r2.length < vl.toNat then none else
        match parseMetaKVs n (r2.drop vl.toNat) with
        | none => none
        | some l => some ((k, r2.take vl.toNat) :: l)

def parseMeta (bs : Bytes) : Option (List (Bytes × Bytes)) :=
  match bs with
  | [] => some []
  | c :: r => parseMetaKVs c.toNat r

inductive OpenRes | ok (db : DB) | err | panic
/-- compactindexsized.Open + Header.Load -/
def openB (f : File) : OpenRes :=
  match rd f 0 12 with
  | none => .err
  | some ms =>
    if ms.take 8 ≠ magic then .err else
    let size := unle (ms.drop 8)
    match rd f 0 (12 + size) with
    | none => .err
    | some buf =>
      -- Header.Load(buf)
      if size < 12 then .err
      else if size > buf.length then .err
      else if buf.length < 25 then .panic     -- buf[24] on a 24-byte buffer (length field 12)
      else
        let vs := unle (slice buf 12 8)
        let nb := unle (slice buf 20 4)
        if buf.getD 24 0 ≠ UInt8.ofNat Generated.compactindexsizedVersion then .err else
        match parseMeta (buf.drop 25) with
        | none => .err
        | some m =>
          if vs = 0 then .err else if nb = 0 then .err else .ok ⟨vs, nb, 12 + size, m⟩

/-- searchEytzinger over a getter that may fail -/
def searchB (get : Nat → Option Ent) (x : Nat) (max : Nat) : Nat → Nat → Look
  | 0, _ => .notFound
  | fuel+1, index =>
    if index < max then
      match get index with
      | none => .err
      | some e =>
        if e.1 = x then .found e.2
        else searchB get x max fuel (if e.1 < x then 2*index+2 else 2*index+1)
    else .notFound

def lookupB (hf : HF) (f : File) (db : DB) (key : Bytes) : Look :=
  match hf.bucket key db.numBuckets with
  | none => .hang
  | some i =>
    if i ≥ db.numBuckets then .err else
    match rd f (db.headerSize + Generated.bucketHdrLen * i) Generated.bucketHdrLen with
    | none => .err
    | some bh =>
      let nonce := unle (slice bh 0 4)
      let numEntries := unle (slice bh 4 4)
      let hashLen := (bh.getD 8 0).toNat
      let fileOffset := unle (slice bh 10 6)
      let strd := stride db.valueSize
      let ow := db.valueSize % 256
      -- Hash(): mask = MaxUint64 >> (64 - hashLen*8) computed in uint8 arithmetic
      let sh := (64 + 256 - (hashLen * 8) % 256) % 256
      let mask : Nat := if sh ≥ 64 then 0 else (2^64 - 1) / 2^sh
      let target := (hf.entry64 nonce key) &&& mask
      let get := fun (idx : Nat) =>
        -- io.SectionReader(fileOffset, numEntries*stride).ReadAt(buf[stride], idx*stride)
        if idx * strd + strd > numEntries * strd then none else
        match rd f (fileOffset + idx * strd) strd with
        | none => none
        | some eb => some (unle (eb.take hashLen), (eb.drop hashLen).take ow)
      searchB get target numEntries (numEntries + 1) 0

end CI

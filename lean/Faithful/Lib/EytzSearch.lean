import Faithful.Lib.EytzFill
namespace Eytz

variable {β : Type} [Inhabited β]

/-- Go `searchEytzinger(min=0, max=a.size, x, getter)` with the loop unrolled by fuel. -/
def search (a : Array (Nat × β)) (x : Nat) : Nat → Nat → Option β
  | 0, _ => none
  | fuel+1, index =>
    if index < a.size then
      let e := a.getD index default
      if e.1 = x then some e.2
      else search a x fuel (if e.1 < x then 2*index+2 else 2*index+1)
    else none

theorem size_pos {n k : Nat} (h : 0 < k ∧ k ≤ n) : size n k = size n (2*k) + 1 + size n (2*k+1) := by
  conv => lhs; rw [size]
  simp [h]

theorem size_zero {n k : Nat} (h : ¬ (0 < k ∧ k ≤ n)) : size n k = 0 := by
  rw [size]; simp [h]

theorem rank_root {n k i : Nat} (h : 0 < k ∧ k ≤ n) : rank n k i k = i + size n (2*k) := by
  rw [rank]; simp [h]

theorem rank_left {n k i m : Nat} (h : 0 < k ∧ k ≤ n) (hmk : m ≠ k) (hL : inSubB (2*k) m = true) :
    rank n k i m = rank n (2*k) i m := by
  conv => lhs; rw [rank]
  simp [h, hmk, hL]

theorem rank_right {n k i m : Nat} (h : 0 < k ∧ k ≤ n) (hmk : m ≠ k) (hL : ¬ inSubB (2*k) m = true) :
    rank n k i m = rank n (2*k+1) (i + size n (2*k) + 1) m := by
  conv => lhs; rw [rank]
  simp [h, hmk, hL]

theorem rank_range (n : Nat) (m : Nat) (k : Nat) : ∀ (i : Nat) (hk : 0 < k) (hm : inSub k m) (hmn : m ≤ n),
    i ≤ rank n k i m ∧ rank n k i m < i + size n k := by
  induction hd : n + 1 - k using Nat.strongRecOn generalizing k with
  | _ d ih =>
    intro i hk hm hmn
    have hkm := inSub_ge hm
    have h : 0 < k ∧ k ≤ n := ⟨hk, by omega⟩
    rw [size_pos h]
    rcases inSub_cases hk hm with e | e | e
    · subst e; rw [rank_root h]; omega
    · have hmk : m ≠ k := by have := inSub_ge e; omega
      rw [rank_left h hmk e]
      have hh : 2*k < n + 1 := by have := inSub_ge e; omega
      have := ih (n + 1 - 2*k) (by omega) (2*k) rfl i (by omega) e hmn
      omega
    · have hmk : m ≠ k := by have := inSub_ge e; omega
      have hnl : ¬ inSubB (2*k) m = true := fun hL => inSub_disjoint hk hL e
      rw [rank_right h hmk hnl]
      have hh : 2*k+1 < n + 1 := by have := inSub_ge e; omega
      have := ih (n + 1 - (2*k+1)) (by omega) (2*k+1) rfl (i + size n (2*k) + 1) (by omega) e hmn
      omega

theorem search_found (inp a : Array (Nat × β)) (n : Nat) (hsz : a.size = n)
    (hsorted : ∀ p q, p < q → q < inp.size → (inp.getD p default).1 < (inp.getD q default).1)
    (k : Nat) : ∀ (i : Nat) (hk : 0 < k)
    (hlay : ∀ m, inSub k m → m ≤ n → a.getD (m-1) default = inp.getD (rank n k i m) default)
    (hfit : i + size n k ≤ inp.size)
    (j : Nat) (hj1 : i ≤ j) (hj2 : j < i + size n k) (fuel : Nat) (hfuel : n + 1 - k ≤ fuel),
    search a (inp.getD j default).1 fuel (k-1) = some (inp.getD j default).2 := by
  induction hd : n + 1 - k using Nat.strongRecOn generalizing k with
  | _ d ih =>
    intro i hk hlay hfit j hj1 hj2 fuel hfuel
    have hkn : 0 < k ∧ k ≤ n := by
      by_cases h : 0 < k ∧ k ≤ n
      · exact h
      · rw [size_zero h] at hj2; omega
    have hsize : size n k = size n (2*k) + 1 + size n (2*k+1) := size_pos hkn
    obtain ⟨fuel', rfl⟩ : ∃ f, fuel = f + 1 := ⟨fuel - 1, by omega⟩
    have hroot : a.getD (k-1) default = inp.getD (i + size n (2*k)) default := by
      rw [hlay k (inSub_self k) hkn.2, rank_root hkn]
    rw [search]
    have hidx : k - 1 < a.size := by omega
    simp only [hidx, if_true, hroot]
    by_cases hjp : j = i + size n (2*k)
    · subst hjp; simp
    · by_cases hlt : j < i + size n (2*k)
      · -- go left
        have hkey := hsorted j (i + size n (2*k)) hlt (by omega)
        have hne : ¬ (inp.getD (i + size n (2*k)) default).1 = (inp.getD j default).1 := by omega
        have hnlt : ¬ (inp.getD (i + size n (2*k)) default).1 < (inp.getD j default).1 := by omega
        simp only [hne, hnlt, if_false]
        have hidx' : 2*(k-1)+1 = 2*k - 1 := by omega
        rw [hidx']
        refine ih (n + 1 - 2*k) (by omega) (2*k) rfl i (by omega) ?_ (by omega) j hj1 hlt fuel' (by omega)
        intro m hm hmn
        rw [hlay m (inSub_left hk hm) hmn]
        have hmk : m ≠ k := by have := inSub_ge hm; omega
        rw [rank_left hkn hmk hm]
      · -- go right
        have hgt : i + size n (2*k) < j := by omega
        have hkey := hsorted (i + size n (2*k)) j hgt (by omega)
        have hne : ¬ (inp.getD (i + size n (2*k)) default).1 = (inp.getD j default).1 := by omega
        simp only [hne, hkey, if_true, if_false]
        have hidx' : 2*(k-1)+2 = (2*k+1) - 1 := by omega
        rw [hidx']
        refine ih (n + 1 - (2*k+1)) (by omega) (2*k+1) rfl (i + size n (2*k) + 1) (by omega) ?_ (by omega) j (by omega) (by omega) fuel' (by omega)
        intro m hm hmn
        rw [hlay m (inSub_right hk hm) hmn]
        have hmk : m ≠ k := by have := inSub_ge hm; omega
        have hnl : ¬ inSubB (2*k) m = true := fun hL => inSub_disjoint hk hL hm
        rw [rank_right hkn hmk hnl]

theorem search_sound (a : Array (Nat × β)) (x : Nat) (fuel idx : Nat) (v : β)
    (h : search a x fuel idx = some v) : ∃ j, j < a.size ∧ a.getD j default = (x, v) := by
  induction fuel generalizing idx with
  | zero => simp [search] at h
  | succ f ih =>
    rw [search] at h
    by_cases hi : idx < a.size
    · simp only [hi, if_true] at h
      by_cases he : (a.getD idx default).1 = x
      · simp only [he, if_true] at h
        refine ⟨idx, hi, ?_⟩
        cases hh : a.getD idx default with
        | mk p q => rw [hh] at he h; simp at he h; rw [he, h]
      · simp only [he, if_false] at h
        exact ih _ h
    · simp [hi] at h

end Eytz

import Faithful.Lib.EytzSearch
namespace Eytz

/-- counting lemma: three-way exclusive split -/
theorem countP_split (l : List Nat) (p p0 p1 p2 : Nat → Bool)
    (hsplit : ∀ x ∈ l, p x = (p0 x || p1 x || p2 x))
    (h01 : ∀ x ∈ l, ¬ (p0 x = true ∧ p1 x = true))
    (h02 : ∀ x ∈ l, ¬ (p0 x = true ∧ p2 x = true))
    (h12 : ∀ x ∈ l, ¬ (p1 x = true ∧ p2 x = true)) :
    l.countP p = l.countP p0 + l.countP p1 + l.countP p2 := by
  induction l with
  | nil => simp
  | cons x xs ih =>
    have ih' := ih (fun y hy => hsplit y (List.mem_cons_of_mem _ hy))
      (fun y hy => h01 y (List.mem_cons_of_mem _ hy))
      (fun y hy => h02 y (List.mem_cons_of_mem _ hy))
      (fun y hy => h12 y (List.mem_cons_of_mem _ hy))
    have hx := hsplit x (List.mem_cons_self ..)
    have a := h01 x (List.mem_cons_self ..)
    have b := h02 x (List.mem_cons_self ..)
    have c := h12 x (List.mem_cons_self ..)
    simp only [List.countP_cons, ih', hx]
    cases h0 : p0 x <;> cases h1 : p1 x <;> cases h2 : p2 x <;> simp_all <;> omega

theorem size_eq_count (n k : Nat) : ∀ (hk : 0 < k),
    size n k = ((List.range (n+1)).countP (fun m => inSubB k m)) := by
  induction hd : n + 1 - k using Nat.strongRecOn generalizing k with
  | _ d ih =>
    intro hk
    by_cases h : 0 < k ∧ k ≤ n
    · rw [size_pos h]
      rw [ih (n+1-2*k) (by omega) (2*k) rfl (by omega), ih (n+1-(2*k+1)) (by omega) (2*k+1) rfl (by omega)]
      rw [countP_split (List.range (n+1)) (fun m => inSubB k m) (fun m => m == k) (fun m => inSubB (2*k) m) (fun m => inSubB (2*k+1) m)]
      · have : (List.range (n+1)).countP (fun m => m == k) = 1 := by
          have hnd : (List.range (n+1)).Nodup := List.nodup_range
          have hmem : k ∈ List.range (n+1) := by simp; omega
          have := List.Nodup.count (a := k) hnd
          simp only [hmem, if_true] at this
          have e : (List.range (n+1)).countP (fun m => m == k) = List.count k (List.range (n+1)) := by
            rw [List.count]
          rw [e, this]
        omega
      · intro x _
        by_cases hx : inSubB k x = true
        · rcases inSub_cases hk hx with e | e | e
          · subst e; simp [hx]
          · simp [hx, show inSubB (2*k) x = true from e]
          · simp [hx, show inSubB (2*k+1) x = true from e]
        · have h0 : ¬ x = k := fun e => hx (e ▸ inSub_self k)
          have h1 : ¬ inSubB (2*k) x = true := fun e => hx (inSub_left hk e)
          have h2 : ¬ inSubB (2*k+1) x = true := fun e => hx (inSub_right hk e)
          simp [hx, h0, h1, h2]
      · intro x _ ⟨e0, e1⟩
        have : x = k := by simpa using e0
        have := inSub_ge e1; omega
      · intro x _ ⟨e0, e1⟩
        have : x = k := by simpa using e0
        have := inSub_ge e1; omega
      · intro x _ ⟨e1, e2⟩
        exact inSub_disjoint hk e1 e2
    · rw [size_zero h]
      symm
      rw [List.countP_eq_zero]
      intro x hx hsub
      have := inSub_ge hsub
      simp at hx; omega

theorem inSub_one (m : Nat) (hm : 0 < m) : inSub 1 m := by
  induction m using Nat.strongRecOn with
  | _ m ih =>
    by_cases h : m = 1
    · subst h; exact inSub_self 1
    · rw [inSub_step (by omega)]
      exact ih (m/2) (by omega) (by omega)

theorem size_one (n : Nat) : size n 1 = n := by
  rw [size_eq_count n 1 (by omega)]
  have : ∀ l : List Nat, (∀ x ∈ l, x < n + 1) →
      l.countP (fun m => inSubB 1 m) = l.countP (fun m => decide (0 < m)) := by
    intro l _
    apply List.countP_congr
    intro x _
    by_cases hx : 0 < x
    · simp [hx, show inSubB 1 x = true from inSub_one x hx]
    · have : x = 0 := by omega
      subst this
      simp [inSubB]
  rw [this _ (by intro x hx; simpa using hx)]
  clear this
  induction n with
  | zero => simp [List.range_succ]
  | succ n ih => rw [List.range_succ, List.countP_append, ih]; simp

variable {β : Type} [Inhabited β]

def layout (xs : Array (Nat × β)) : Array (Nat × β) :=
  (fill xs xs.size 1 0 (Array.replicate xs.size default)).2

/-- every element of a strictly sorted input is found in its eytzinger layout, for every size -/
theorem layout_search_complete (xs : Array (Nat × β))
    (hsorted : ∀ p q, p < q → q < xs.size → (xs.getD p default).1 < (xs.getD q default).1)
    (j : Nat) (hj : j < xs.size) :
    search (layout xs) (xs.getD j default).1 (xs.size + 1) 0 = some (xs.getD j default).2 := by
  have hs := fill_spec xs xs.size 1 0 (Array.replicate xs.size default) (by omega) (by simp)
  obtain ⟨_, hsz, hval⟩ := hs
  have := search_found xs (layout xs) xs.size hsz hsorted 1 0 (by omega)
    (by
      intro m hm hmn
      have hm0 : 0 < m := by have := inSub_ge hm; omega
      have := hval m hm0 hmn
      rw [show inSubB 1 m = true from hm] at this
      simpa [layout] using this)
    (by rw [size_one]; omega) j (by omega) (by rw [size_one]; omega) (xs.size + 1) (by omega)
  simpa using this

/-- a hit is an element of the input -/
theorem layout_search_sound (xs : Array (Nat × β)) (x : Nat) (v : β)
    (h : search (layout xs) x (xs.size + 1) 0 = some v) :
    ∃ j, j < xs.size ∧ xs.getD j default = (x, v) := by
  obtain ⟨p, hp, hpv⟩ := search_sound _ _ _ _ _ h
  have hs := fill_spec xs xs.size 1 0 (Array.replicate xs.size default) (by omega) (by simp)
  obtain ⟨_, hsz, hval⟩ := hs
  have hp' : p < xs.size := by rw [← hsz]; exact hp
  have := hval (p+1) (by omega) (by omega)
  rw [show inSubB 1 (p+1) = true from inSub_one (p+1) (by omega)] at this
  simp only [Nat.add_sub_cancel, if_true] at this
  have hr := rank_range xs.size (p+1) 1 0 (by omega) (inSub_one (p+1) (by omega)) (by omega)
  rw [size_one] at hr
  refine ⟨rank xs.size 1 0 (p+1), by omega, ?_⟩
  rw [← this]; exact hpv

end Eytz


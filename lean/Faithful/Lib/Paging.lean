import Faithful.Generated.Consts

/-!
# Paging — model of `gsfa/gsfa-read-multiepoch.go` and of the `getSignaturesForAddress` JSON-RPC handler

What the Go code does (read line by line, pinned tree):

* `GsfaReaderMultiepoch.epochs` is a slice of per-epoch readers **in the order the caller supplies**
  (the handler passes `getGsfaReadersInEpochDescendingOrder()`, newest epoch first).
* `iterBeforeUntil` has three nested loops:
  `epochLoop` over the readers; `for {}` over the chain of linked-log records of the address in that epoch
  (`index.offsets.Get(pk)` gives the newest record, every record carries the location of the previous one;
  a record holds a batch of `(offset,size,slot)` locations, newest first); `for range locations`.
  The signature of a location is obtained through the caller's `fetcher` callback (it reads the transaction
  node from the CAR); `before`/`until` are compared with that signature by `==`.
  - address not in the epoch's index (`IsNotFound`) → `continue epochLoop`; any other lookup error → the request fails;
  - `next.IsZero()` → `continue epochLoop`; `Count() >= limit` (checked before every record) → `break epochLoop`;
  - a record with zero locations → `continue epochLoop` (the remaining chain of that epoch is not visited);
  - per location: `!reachedBefore && sig == *before` → set, `continue`; `!reachedBefore` → `continue`;
    `Count() >= limit` → `break epochLoop`; append to `transactions[epochNum]`; `sig == *until` → `break epochLoop`.
  - `before` given but never met: nothing is ever appended — the answer is empty, not an error.
* the result is a Go map `epoch → []tx`.  The model keeps the *tagged sequence* `(epoch, tx)` in append order:
  the map is exactly its grouping (`group`), `Count()` is its length.
* `iterBeforeUntilSlot(before, until)`: `limit <= 0 || before < until` → empty; epochs with
  `epochNum > CalcEpochForSlot(before)` are skipped; per location `tx.Slot < until` → `break epochLoop`;
  the pinned tree never compares a slot with `before` (parameter `fixed = false`); the repaired code
  (`/verif/fixes/C07-2.patch`) skips locations with `tx.Slot >= before` (`fixed = true`).
* the handler walks the result map with `for ei := range foundTransactions` — Go map order, modelled by an
  arbitrary `order`; the repaired handler (`/verif/fixes/C07-1.patch`) walks the epoch numbers in the
  descending order in which the readers were queried.

Core Lean only.
-/
namespace Paging

structure Tx (σ : Type) where
  sig : σ
  slot : Nat
deriving DecidableEq, Repr

/-- the answer of `index.offsets.Get(pk)` for one loaded epoch -/
inductive Lookup (σ : Type) where
  /-- `compactindexsized.IsNotFound` → `continue epochLoop` -/
  | notFound
  /-- the chain of linked-log records of the address, newest record first, newest transaction first inside -/
  | found (records : List (List (Tx σ)))
  /-- any other error → "error while getting initial offset" -/
  | failed

/-- the loaded epochs in the order of `multi.epochs` -/
abbrev Hist (σ : Type) := List (Nat × Lookup σ)

abbrev Tagged (σ : Type) := List (Nat × Tx σ)

structure S (σ : Type) where
  /-- `transactions` (the map) as the sequence of appends; `transactions.Count() = acc.length` -/
  acc : Tagged σ
  /-- `reachedBefore` -/
  reached : Bool
  /-- `break epochLoop` happened -/
  stop : Bool
  /-- `return nil, err` happened -/
  failed : Bool

variable {σ : Type} [DecidableEq σ]

/-! ## the loops of `iterBeforeUntil` -/

/-- `for locIndex, txLoc := range locations` -/
def recLoop (limit : Nat) (before untl : Option σ) (e : Nat) : List (Tx σ) → S σ → S σ
  | [], s => s
  | x :: rest, s =>
    if s.reached = false ∧ before = some x.sig then recLoop limit before untl e rest { s with reached := true }
    else if s.reached = false then recLoop limit before untl e rest s
    else if limit ≤ s.acc.length then { s with stop := true }
    else if untl = some x.sig then { s with acc := s.acc ++ [(e, x)], stop := true }
    else recLoop limit before untl e rest { s with acc := s.acc ++ [(e, x)] }

/-- `for { … ReadWithSize … }` over the chain of records of one epoch -/
def epochLoop (limit : Nat) (before untl : Option σ) (e : Nat) : List (List (Tx σ)) → S σ → S σ
  | [], s => s
  | r :: rs, s =>
    if limit ≤ s.acc.length then { s with stop := true }
    else if r.isEmpty then s
    else if (recLoop limit before untl e r s).stop then recLoop limit before untl e r s
    else epochLoop limit before untl e rs (recLoop limit before untl e r s)

/-- `epochLoop: for readerIndex, index := range multi.epochs` -/
def allEpochs (limit : Nat) (before untl : Option σ) : Hist σ → S σ → S σ
  | [], s => s
  | (_, .notFound) :: hs, s => allEpochs limit before untl hs s
  | (_, .failed) :: _, s => { s with stop := true, failed := true }
  | (e, .found recs) :: hs, s =>
    if (epochLoop limit before untl e recs s).stop then epochLoop limit before untl e recs s
    else allEpochs limit before untl hs (epochLoop limit before untl e recs s)

def start (before : Option σ) : S σ := { acc := [], reached := before.isNone, stop := false, failed := false }

/-- `GetBeforeUntil` / `iterBeforeUntil`: `limit` is a Go `int` -/
def iterBeforeUntil (hs : Hist σ) (limit : Int) (before untl : Option σ) : Except String (Tagged σ) :=
  if limit ≤ 0 then .ok []
  else if (allEpochs limit.toNat before untl hs (start before)).failed then .error "error while getting initial offset"
  else .ok (allEpochs limit.toNat before untl hs (start before)).acc

/-! ## the specification on the flat newest-first history -/

/-- the part of a record chain the reader can see: it stops at the first empty record
    (the writer never produces one; then `visible = flatten`, see `visible_eq_flatten`) -/
def visible {α : Type} : List (List α) → List α
  | [] => []
  | r :: rs => if r.isEmpty then [] else r ++ visible rs

def entries : Lookup σ → List (Tx σ)
  | .found recs => visible recs
  | _ => []

/-- the complete history of the address over the loaded epochs, in the order the epochs are supplied,
    every entry tagged with its epoch -/
def flatten (hs : Hist σ) : Tagged σ :=
  hs.flatMap fun h => (entries h.2).map fun t => (h.1, t)

/-- everything after the first entry whose signature is `b` (nothing when `b` does not occur) -/
def dropAfter : Option σ → Tagged σ → Tagged σ
  | none, l => l
  | some _, [] => []
  | some b, x :: xs => if x.2.sig = b then xs else dropAfter (some b) xs

/-- everything up to and including the first entry whose signature is `u` (everything when `u` does not occur) -/
def takeThrough : Option σ → Tagged σ → Tagged σ
  | none, l => l
  | some _, [] => []
  | some u, x :: xs => if x.2.sig = u then [x] else x :: takeThrough (some u) xs

def specL (l : Tagged σ) (limit : Int) (before untl : Option σ) : Tagged σ :=
  (takeThrough untl (dropAfter before l)).take limit.toNat

def spec (hs : Hist σ) (limit : Int) (before untl : Option σ) : Tagged σ :=
  specL (flatten hs) limit before untl

/-! ## simulation: what a state will still produce from the entries not yet visited -/

/-- final `acc` when the machine in state `s` has the (tagged) entries `L` still ahead -/
def fin (limit : Nat) (before untl : Option σ) (s : S σ) (L : Tagged σ) : Tagged σ :=
  if s.stop then s.acc
  else s.acc ++ (takeThrough untl (if s.reached then L else dropAfter before L)).take (limit - s.acc.length)

theorem takeThrough_nil (u : Option σ) : takeThrough u ([] : Tagged σ) = [] := by
  cases u <;> rfl

theorem dropAfter_nil (b : Option σ) : dropAfter b ([] : Tagged σ) = [] := by
  cases b <;> rfl

theorem fin_nil (limit : Nat) (before untl : Option σ) (s : S σ) : fin limit before untl s [] = s.acc := by
  unfold fin
  split
  · rfl
  · cases s.reached <;> simp [takeThrough_nil, dropAfter_nil]

theorem fin_stop (limit : Nat) (before untl : Option σ) (s : S σ) (h : s.stop = true) (L : Tagged σ) :
    fin limit before untl s L = s.acc := by
  simp [fin, h]

theorem recLoop_failed (limit : Nat) (before untl : Option σ) (e : Nat) (r : List (Tx σ)) (s : S σ) :
    (recLoop limit before untl e r s).failed = s.failed := by
  induction r generalizing s with
  | nil => rfl
  | cons x rest ih =>
    unfold recLoop
    split
    · rw [ih]
    · split
      · rw [ih]
      · split
        · rfl
        · split
          · rfl
          · rw [ih]

theorem recLoop_reached (limit : Nat) (before untl : Option σ) (e : Nat) (r : List (Tx σ)) (s : S σ)
    (h : s.reached = true) : (recLoop limit before untl e r s).reached = true := by
  induction r generalizing s with
  | nil => exact h
  | cons x rest ih =>
    unfold recLoop
    split
    · exact ih _ rfl
    · split
      · exact ih _ h
      · split
        · exact h
        · split
          · exact h
          · exact ih _ h

/-- the inner loop consumes the record `r`: afterwards the machine will produce from `L` exactly what it
    would have produced before from `r ++ L` -/
theorem recLoop_sim (limit : Nat) (before untl : Option σ) (e : Nat) (r : List (Tx σ)) (s : S σ) (L : Tagged σ)
    (hs : s.stop = false) (hb : before = none → s.reached = true) :
    fin limit before untl (recLoop limit before untl e r s) L
      = fin limit before untl s (r.map (fun t => (e, t)) ++ L) := by
  induction r generalizing s with
  | nil => rfl
  | cons x rest ih =>
    unfold recLoop
    split
    · -- reachedBefore becomes true, the entry itself is skipped
      rename_i h
      rw [ih { s with reached := true } hs (fun _ => rfl)]
      cases before with
      | none => simp at h
      | some b =>
        have hx : x.sig = b := by
          have := h.2; simp only [Option.some.injEq] at this; exact this.symm
        simp [fin, hs, h.1, dropAfter, hx]
    · split
      · -- still before `before`
        rename_i h1 h2
        rw [ih s hs hb]
        cases before with
        | none => have := hb rfl; simp [h2] at this
        | some b =>
          have hx : ¬ x.sig = b := by
            intro hx; exact h1 ⟨h2, by rw [hx]⟩
          simp [fin, hs, h2, dropAfter, hx]
      · rename_i h1 h2
        have hr : s.reached = true := by
          cases hr : s.reached with
          | true => rfl
          | false => exact absurd hr h2
        split
        · -- limit reached
          rename_i h3
          have : limit - s.acc.length = 0 := by omega
          simp [fin, hs, this]
        · rename_i h3
          have hpos : limit - s.acc.length = (limit - s.acc.length - 1) + 1 := by omega
          split
          · -- `until` met: appended, then stop
            rename_i h4
            cases untl with
            | none => simp at h4
            | some u =>
              have hx : x.sig = u := by
                simp only [Option.some.injEq] at h4; exact h4.symm
              simp only [fin, hs, hr, if_true, List.map_cons, List.cons_append, takeThrough, hx]
              rw [hpos]
              simp
          · -- appended, go on
            rename_i h4
            rw [ih { s with acc := s.acc ++ [(e, x)] } hs (fun _ => hr)]
            have hl : (s.acc ++ [(e, x)]).length = s.acc.length + 1 := by simp
            cases untl with
            | none =>
              simp only [fin, hs, hr, if_true, List.map_cons, List.cons_append, takeThrough, hl]
              rw [show limit - s.acc.length = (limit - (s.acc.length + 1)) + 1 by omega]
              simp
            | some u =>
              have hx : ¬ x.sig = u := by
                intro hx; exact h4 (by rw [hx])
              simp only [fin, hs, hr, if_true, List.map_cons, List.cons_append, takeThrough, hl, hx, if_false]
              rw [show limit - s.acc.length = (limit - (s.acc.length + 1)) + 1 by omega]
              simp

theorem epochLoop_failed (limit : Nat) (before untl : Option σ) (e : Nat) (recs : List (List (Tx σ))) (s : S σ) :
    (epochLoop limit before untl e recs s).failed = s.failed := by
  induction recs generalizing s with
  | nil => rfl
  | cons r rs ih =>
    unfold epochLoop
    split
    · rfl
    · split
      · rfl
      · split
        · exact recLoop_failed ..
        · rw [ih, recLoop_failed]

theorem epochLoop_reached (limit : Nat) (before untl : Option σ) (e : Nat) (recs : List (List (Tx σ))) (s : S σ)
    (h : s.reached = true) : (epochLoop limit before untl e recs s).reached = true := by
  induction recs generalizing s with
  | nil => exact h
  | cons r rs ih =>
    unfold epochLoop
    split
    · exact h
    · split
      · exact h
      · split
        · exact recLoop_reached _ _ _ _ _ _ h
        · exact ih _ (recLoop_reached _ _ _ _ _ _ h)

theorem epochLoop_sim (limit : Nat) (before untl : Option σ) (e : Nat) (recs : List (List (Tx σ))) (s : S σ)
    (L : Tagged σ) (hs : s.stop = false) (hb : before = none → s.reached = true) :
    fin limit before untl (epochLoop limit before untl e recs s) L
      = fin limit before untl s ((visible recs).map (fun t => (e, t)) ++ L) := by
  induction recs generalizing s with
  | nil => rfl
  | cons r rs ih =>
    unfold epochLoop
    split
    · rename_i h
      have : limit - s.acc.length = 0 := by omega
      simp [fin, hs, this]
    · split
      · rename_i h
        simp [visible, h]
      · rename_i h
        have hv : visible (r :: rs) = r ++ visible rs := by simp [visible, h]
        rw [hv, List.map_append, List.append_assoc]
        split
        · rename_i hstop
          rw [fin_stop _ _ _ _ hstop, ← fin_stop _ _ _ _ hstop ((visible rs).map (fun t => (e, t)) ++ L)]
          exact recLoop_sim _ _ _ _ _ _ _ hs hb
        · rename_i hstop
          have hstop' : (recLoop limit before untl e r s).stop = false := by
            cases hh : (recLoop limit before untl e r s).stop with
            | true => exact absurd hh hstop
            | false => rfl
          rw [ih _ hstop' (fun hn => recLoop_reached _ _ _ _ _ _ (hb hn))]
          exact recLoop_sim _ _ _ _ _ _ _ hs hb

/-- no lookup failed with an error other than not-found -/
def NoFailure (hs : Hist σ) : Prop := ∀ h ∈ hs, ∀ recs, h.2 = Lookup.found recs ∨ h.2 = Lookup.notFound

def isFailed : Lookup σ → Bool
  | .failed => true
  | _ => false

theorem allEpochs_sim (limit : Nat) (before untl : Option σ) (hs : Hist σ) (s : S σ)
    (L : Tagged σ) (hst : s.stop = false) (hb : before = none → s.reached = true)
    (hok : ∀ h ∈ hs, isFailed h.2 = false) :
    fin limit before untl (allEpochs limit before untl hs s) L = fin limit before untl s (flatten hs ++ L)
    ∧ (allEpochs limit before untl hs s).failed = s.failed := by
  induction hs generalizing s with
  | nil => exact ⟨rfl, rfl⟩
  | cons h hs ih =>
    obtain ⟨e, lk⟩ := h
    have hok' : ∀ h ∈ hs, isFailed h.2 = false := fun h hh => hok h (List.mem_cons_of_mem _ hh)
    cases lk with
    | notFound =>
      simp only [allEpochs]
      have := ih s hst hb hok'
      simpa [flatten, entries] using this
    | failed =>
      have := hok (e, .failed) (List.mem_cons_self)
      simp [isFailed] at this
    | found recs =>
      simp only [allEpochs]
      have hfl : flatten ((e, Lookup.found recs) :: hs) ++ L
          = (visible recs).map (fun t => (e, t)) ++ (flatten hs ++ L) := by
        simp [flatten, entries]
      rw [hfl]
      split
      · rename_i hstop
        refine ⟨?_, epochLoop_failed ..⟩
        rw [fin_stop _ _ _ _ hstop, ← fin_stop _ _ _ _ hstop (flatten hs ++ L)]
        exact epochLoop_sim _ _ _ _ _ _ _ hst hb
      · rename_i hstop
        have hstop' : (epochLoop limit before untl e recs s).stop = false := by
          cases hh : (epochLoop limit before untl e recs s).stop with
          | true => exact absurd hh hstop
          | false => rfl
        have := ih _ hstop' (fun hn => epochLoop_reached _ _ _ _ _ _ (hb hn)) hok'
        refine ⟨?_, ?_⟩
        · rw [this.1]; exact epochLoop_sim _ _ _ _ _ _ _ hst hb
        · rw [this.2, epochLoop_failed]

/-- **the three loops compute the slice**: for every history (any number of epochs, records, entries), every
    `limit`, every `before`/`until` (present in the history or not) -/
theorem iterBeforeUntil_eq_spec (hs : Hist σ) (limit : Int) (before untl : Option σ)
    (hok : ∀ h ∈ hs, isFailed h.2 = false) :
    iterBeforeUntil hs limit before untl = .ok (spec hs limit before untl) := by
  unfold iterBeforeUntil spec specL
  split
  · rename_i h
    have : limit.toNat = 0 := by omega
    simp [this]
  · have hb : before = none → (start before).reached = true := by
      intro h; subst h; rfl
    have := allEpochs_sim limit.toNat before untl hs (start before) [] rfl hb hok
    rw [fin_nil] at this
    have hf : (allEpochs limit.toNat before untl hs (start before)).failed = false := this.2
    simp only [hf]
    rw [this.1]
    cases before with
    | none => simp [fin, start, dropAfter]
    | some b => simp [fin, start]

end Paging

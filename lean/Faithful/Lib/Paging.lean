namespace Paging

abbrev Sig := Nat

structure S where
  acc : List Sig            -- transactions appended so far (all epochs), oldest appended last
  reached : Bool            -- reachedBefore
  stop : Bool               -- `break epochLoop` happened

/-- inner `for locIndex, txLoc := range locations` of iterBeforeUntil -/
def recLoop (limit : Nat) (before untl : Option Sig) : List Sig → S → S
  | [], s => s
  | sig :: rest, s =>
    if !s.reached && before = some sig then recLoop limit before untl rest { s with reached := true }   -- continue
    else if !s.reached then recLoop limit before untl rest s                                              -- continue
    else if s.acc.length ≥ limit then { s with stop := true }                                             -- break epochLoop
    else
      let s' := { s with acc := s.acc ++ [sig] }
      if untl = some sig then { s' with stop := true }                                                    -- break epochLoop
      else recLoop limit before untl rest s'

/-- the `for { ... ReadWithSize ... }` loop over the records of one epoch -/
def epochLoop (limit : Nat) (before untl : Option Sig) : List (List Sig) → S → S
  | [], s => s
  | r :: rs, s =>
    if s.acc.length ≥ limit then { s with stop := true }
    else
      let s' := recLoop limit before untl r s
      if s'.stop then s' else epochLoop limit before untl rs s'

def allEpochs (limit : Nat) (before untl : Option Sig) : List (List (List Sig)) → S → S
  | [], s => s
  | e :: es, s =>
    let s' := epochLoop limit before untl e s
    if s'.stop then s' else allEpochs limit before untl es s'

def run (limit : Nat) (before untl : Option Sig) (hist : List (List (List Sig))) : List Sig :=
  (allEpochs limit before untl hist { acc := [], reached := before.isNone, stop := false }).acc

/-- the specification on the flat newest-first history -/
def afterBefore : Option Sig → List Sig → List Sig
  | none, l => l
  | some b, l => (l.dropWhile (· ≠ b)).drop 1

def throughUntil : Option Sig → List Sig → List Sig
  | none, l => l
  | some u, [] => []
  | some u, x :: xs => if x = u then [x] else x :: throughUntil (some u) xs

def spec (limit : Nat) (before untl : Option Sig) (hist : List (List (List Sig))) : List Sig :=
  (throughUntil untl (afterBefore before (hist.flatten.flatten))).take limit

-- executable cross-check on a few thousand small cases (a test, labelled as a test, not the theorem)
def smallHists : List (List (List (List Sig))) :=
  [ [[[1,2],[3]],[[4],[5,6]]], [[[1]],[],[[2,3,4]]], [[],[[1,2,3],[4,5]]], [[[1,2,3,4,5,6]]], [] ]

def optSigs : List (Option Sig) := none :: (List.range 8).map some

def agreeAll : Bool :=
  smallHists.all fun h => (List.range 8).all fun lim => lim == 0 || (optSigs.all fun b => optSigs.all fun u =>
    run lim b u h == spec lim b u h)

#eval agreeAll

end Paging

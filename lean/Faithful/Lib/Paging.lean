import Faithful.Generated.Consts

/-!
# Paging — model of `gsfa/gsfa-read-multiepoch.go` and of the `getSignaturesForAddress` JSON-RPC handler

What the Go code does (read line by line, pinned tree):

* `GsfaReaderMultiepoch.epochs` is a slice of per-epoch readers **in the order the caller supplies**
  (the handler passes `getGsfaReadersInEpochDescendingOrder()`, newest epoch first).
* `iterBeforeUntil` has three nested loops:
  `epochLoop` over the readers; `for {}` over the chain of linked-log records of the address in that epoch
  (`index.offsets.Get(pk)` gives the newest record, every record carries the location of the previous one;
  a record holds a batch of `(offset,size,slot)` locations, newest first); `for range locations`.
  The signature of a location is obtained through the caller's `fetcher` callback (it reads the transaction
  node from the CAR); `before`/`until` are compared with that signature by `==`.
  - address not in the epoch's index (`IsNotFound`) → `continue epochLoop`; any other lookup error → the request fails;
  - `next.IsZero()` → `continue epochLoop`; `Count() >= limit` (checked before every record) → `break epochLoop`;
  - a record with zero locations → `continue epochLoop` (the remaining chain of that epoch is not visited);
  - per location: `!reachedBefore && sig == *before` → set, `continue`; `!reachedBefore` → `continue`;
    `Count() >= limit` → `break epochLoop`; append to `transactions[epochNum]`; `sig == *until` → `break epochLoop`.
  - `before` given but never met: nothing is ever appended — the answer is empty, not an error.
  - (since the C03 fix) the fetcher may answer `ErrNotForAddress` when the transaction it loaded does not mention
    the address — the 24-bit pubkey index landed on another address's chain — and the loop then does
    `continue epochLoop`.  A chain holds the entries of one key only, so this happens at the first entry or never:
    such an epoch is `Lookup.notFound` in the model (by reading; a hash collision cannot be forced by the harness).
* the result is a Go map `epoch → []tx`.  The model keeps the *tagged sequence* `(epoch, tx)` in append order:
  the map is exactly its grouping (`group`), `Count()` is its length.
* `iterBeforeUntilSlot(before, until)`: `limit <= 0 || before < until` → empty; epochs with
  `epochNum > CalcEpochForSlot(before)` are skipped; per location `tx.Slot < until` → `break epochLoop`;
  the pinned tree never compares a slot with `before` (parameter `fixed = false`); the repaired code
  (`/verif/fixes/C07-2.patch`) skips locations with `tx.Slot >= before` (`fixed = true`).
* the handler walks the result map with `for ei := range foundTransactions` — Go map order, modelled by an
  arbitrary `order`; the repaired handler (`/verif/fixes/C07-1.patch`) walks the epoch numbers in the
  descending order in which the readers were queried.

Core Lean only.
-/
namespace Paging

structure Tx (σ : Type) where
  sig : σ
  slot : Nat
deriving DecidableEq, Repr

/-- the answer of `index.offsets.Get(pk)` for one loaded epoch -/
inductive Lookup (σ : Type) where
  /-- `compactindexsized.IsNotFound` → `continue epochLoop` -/
  | notFound
  /-- the chain of linked-log records of the address, newest record first, newest transaction first inside -/
  | found (records : List (List (Tx σ)))
  /-- any other error → "error while getting initial offset" -/
  | failed

/-- the loaded epochs in the order of `multi.epochs` -/
abbrev Hist (σ : Type) := List (Nat × Lookup σ)

abbrev Tagged (σ : Type) := List (Nat × Tx σ)

structure S (σ : Type) where
  /-- `transactions` (the map) as the sequence of appends; `transactions.Count() = acc.length` -/
  acc : Tagged σ
  /-- `reachedBefore` -/
  reached : Bool
  /-- `break epochLoop` happened -/
  stop : Bool
  /-- `return nil, err` happened -/
  failed : Bool

section Sig
variable {σ : Type} [DecidableEq σ]

/-! ## the loops of `iterBeforeUntil` -/

/-- `for locIndex, txLoc := range locations` -/
def recLoop (limit : Nat) (before untl : Option σ) (e : Nat) : List (Tx σ) → S σ → S σ
  | [], s => s
  | x :: rest, s =>
    if s.reached = false ∧ before = some x.sig then recLoop limit before untl e rest { s with reached := true }
    else if s.reached = false then recLoop limit before untl e rest s
    else if limit ≤ s.acc.length then { s with stop := true }
    else if untl = some x.sig then { s with acc := s.acc ++ [(e, x)], stop := true }
    else recLoop limit before untl e rest { s with acc := s.acc ++ [(e, x)] }

/-- `for { … ReadWithSize … }` over the chain of records of one epoch -/
def epochLoop (limit : Nat) (before untl : Option σ) (e : Nat) : List (List (Tx σ)) → S σ → S σ
  | [], s => s
  | r :: rs, s =>
    if limit ≤ s.acc.length then { s with stop := true }
    else if r.isEmpty then s
    else if (recLoop limit before untl e r s).stop then recLoop limit before untl e r s
    else epochLoop limit before untl e rs (recLoop limit before untl e r s)

/-- `epochLoop: for readerIndex, index := range multi.epochs` -/
def allEpochs (limit : Nat) (before untl : Option σ) : Hist σ → S σ → S σ
  | [], s => s
  | (_, .notFound) :: hs, s => allEpochs limit before untl hs s
  | (_, .failed) :: _, s => { s with stop := true, failed := true }
  | (e, .found recs) :: hs, s =>
    if (epochLoop limit before untl e recs s).stop then epochLoop limit before untl e recs s
    else allEpochs limit before untl hs (epochLoop limit before untl e recs s)

def start (before : Option σ) : S σ := { acc := [], reached := before.isNone, stop := false, failed := false }

/-- `GetBeforeUntil` / `iterBeforeUntil`: `limit` is a Go `int` -/
def iterBeforeUntil (hs : Hist σ) (limit : Int) (before untl : Option σ) : Except String (Tagged σ) :=
  if limit ≤ 0 then .ok []
  else if (allEpochs limit.toNat before untl hs (start before)).failed then .error "error while getting initial offset"
  else .ok (allEpochs limit.toNat before untl hs (start before)).acc

/-! ## the specification on the flat newest-first history -/

/-- the part of a record chain the reader can see: it stops at the first empty record
    (the writer never produces one; then `visible = flatten`, see `visible_eq_flatten`) -/
def visible {α : Type} : List (List α) → List α
  | [] => []
  | r :: rs => if r.isEmpty then [] else r ++ visible rs

def entries : Lookup σ → List (Tx σ)
  | .found recs => visible recs
  | _ => []

/-- the complete history of the address over the loaded epochs, in the order the epochs are supplied,
    every entry tagged with its epoch -/
def flatten (hs : Hist σ) : Tagged σ :=
  hs.flatMap fun h => (entries h.2).map fun t => (h.1, t)

/-- everything after the first entry whose signature is `b` (nothing when `b` does not occur) -/
def dropAfter : Option σ → Tagged σ → Tagged σ
  | none, l => l
  | some _, [] => []
  | some b, x :: xs => if x.2.sig = b then xs else dropAfter (some b) xs

/-- everything up to and including the first entry whose signature is `u` (everything when `u` does not occur) -/
def takeThrough : Option σ → Tagged σ → Tagged σ
  | none, l => l
  | some _, [] => []
  | some u, x :: xs => if x.2.sig = u then [x] else x :: takeThrough (some u) xs

def specL (l : Tagged σ) (limit : Int) (before untl : Option σ) : Tagged σ :=
  (takeThrough untl (dropAfter before l)).take limit.toNat

def spec (hs : Hist σ) (limit : Int) (before untl : Option σ) : Tagged σ :=
  specL (flatten hs) limit before untl

/-! ## simulation: what a state will still produce from the entries not yet visited -/

/-- final `acc` when the machine in state `s` has the (tagged) entries `L` still ahead -/
def fin (limit : Nat) (before untl : Option σ) (s : S σ) (L : Tagged σ) : Tagged σ :=
  if s.stop then s.acc
  else s.acc ++ (takeThrough untl (if s.reached then L else dropAfter before L)).take (limit - s.acc.length)

theorem takeThrough_nil (u : Option σ) : takeThrough u ([] : Tagged σ) = [] := by
  cases u <;> rfl

theorem dropAfter_nil (b : Option σ) : dropAfter b ([] : Tagged σ) = [] := by
  cases b <;> rfl

theorem fin_nil (limit : Nat) (before untl : Option σ) (s : S σ) : fin limit before untl s [] = s.acc := by
  unfold fin
  split
  · rfl
  · cases s.reached <;> simp [takeThrough_nil, dropAfter_nil]

theorem fin_stop (limit : Nat) (before untl : Option σ) (s : S σ) (h : s.stop = true) (L : Tagged σ) :
    fin limit before untl s L = s.acc := by
  simp [fin, h]

theorem recLoop_failed (limit : Nat) (before untl : Option σ) (e : Nat) (r : List (Tx σ)) (s : S σ) :
    (recLoop limit before untl e r s).failed = s.failed := by
  induction r generalizing s with
  | nil => rfl
  | cons x rest ih =>
    unfold recLoop
    split
    · rw [ih]
    · split
      · rw [ih]
      · split
        · rfl
        · split
          · rfl
          · rw [ih]

theorem recLoop_reached (limit : Nat) (before untl : Option σ) (e : Nat) (r : List (Tx σ)) (s : S σ)
    (h : s.reached = true) : (recLoop limit before untl e r s).reached = true := by
  induction r generalizing s with
  | nil => exact h
  | cons x rest ih =>
    unfold recLoop
    split
    · exact ih _ rfl
    · split
      · exact ih _ h
      · split
        · exact h
        · split
          · exact h
          · exact ih _ h

/-- the inner loop consumes the record `r`: afterwards the machine will produce from `L` exactly what it
    would have produced before from `r ++ L` -/
theorem recLoop_sim (limit : Nat) (before untl : Option σ) (e : Nat) (r : List (Tx σ)) (s : S σ) (L : Tagged σ)
    (hs : s.stop = false) (hb : before = none → s.reached = true) :
    fin limit before untl (recLoop limit before untl e r s) L
      = fin limit before untl s (r.map (fun t => (e, t)) ++ L) := by
  induction r generalizing s with
  | nil => rfl
  | cons x rest ih =>
    unfold recLoop
    split
    · -- reachedBefore becomes true, the entry itself is skipped
      rename_i h
      rw [ih { s with reached := true } hs (fun _ => rfl)]
      cases before with
      | none => simp at h
      | some b =>
        have hx : x.sig = b := by
          have := h.2; simp only [Option.some.injEq] at this; exact this.symm
        simp [fin, hs, h.1, dropAfter, hx]
    · split
      · -- still before `before`
        rename_i h1 h2
        rw [ih s hs hb]
        cases before with
        | none => have := hb rfl; simp [h2] at this
        | some b =>
          have hx : ¬ x.sig = b := by
            intro hx; exact h1 ⟨h2, by rw [hx]⟩
          simp [fin, hs, h2, dropAfter, hx]
      · rename_i h1 h2
        have hr : s.reached = true := by
          cases hr : s.reached with
          | true => rfl
          | false => exact absurd hr h2
        split
        · -- limit reached
          rename_i h3
          have : limit - s.acc.length = 0 := by omega
          simp [fin, hs, this]
        · rename_i h3
          have hpos : limit - s.acc.length = (limit - s.acc.length - 1) + 1 := by omega
          split
          · -- `until` met: appended, then stop
            rename_i h4
            cases untl with
            | none => simp at h4
            | some u =>
              have hx : x.sig = u := by
                simp only [Option.some.injEq] at h4; exact h4.symm
              simp only [fin, hs, hr, if_true, List.map_cons, List.cons_append, takeThrough, hx]
              rw [hpos]
              simp
          · -- appended, go on
            rename_i h4
            rw [ih { s with acc := s.acc ++ [(e, x)] } hs (fun _ => hr)]
            have hl : (s.acc ++ [(e, x)]).length = s.acc.length + 1 := by simp
            cases untl with
            | none =>
              simp only [fin, hs, hr, if_true, List.map_cons, List.cons_append, takeThrough, hl]
              rw [show limit - s.acc.length = (limit - (s.acc.length + 1)) + 1 by omega]
              simp
            | some u =>
              have hx : ¬ x.sig = u := by
                intro hx; exact h4 (by rw [hx])
              simp only [fin, hs, hr, if_true, List.map_cons, List.cons_append, takeThrough, hl, hx, if_false]
              rw [show limit - s.acc.length = (limit - (s.acc.length + 1)) + 1 by omega]
              simp

theorem epochLoop_failed (limit : Nat) (before untl : Option σ) (e : Nat) (recs : List (List (Tx σ))) (s : S σ) :
    (epochLoop limit before untl e recs s).failed = s.failed := by
  induction recs generalizing s with
  | nil => rfl
  | cons r rs ih =>
    unfold epochLoop
    split
    · rfl
    · split
      · rfl
      · split
        · exact recLoop_failed ..
        · rw [ih, recLoop_failed]

theorem epochLoop_reached (limit : Nat) (before untl : Option σ) (e : Nat) (recs : List (List (Tx σ))) (s : S σ)
    (h : s.reached = true) : (epochLoop limit before untl e recs s).reached = true := by
  induction recs generalizing s with
  | nil => exact h
  | cons r rs ih =>
    unfold epochLoop
    split
    · exact h
    · split
      · exact h
      · split
        · exact recLoop_reached _ _ _ _ _ _ h
        · exact ih _ (recLoop_reached _ _ _ _ _ _ h)

theorem epochLoop_sim (limit : Nat) (before untl : Option σ) (e : Nat) (recs : List (List (Tx σ))) (s : S σ)
    (L : Tagged σ) (hs : s.stop = false) (hb : before = none → s.reached = true) :
    fin limit before untl (epochLoop limit before untl e recs s) L
      = fin limit before untl s ((visible recs).map (fun t => (e, t)) ++ L) := by
  induction recs generalizing s with
  | nil => rfl
  | cons r rs ih =>
    unfold epochLoop
    split
    · rename_i h
      have : limit - s.acc.length = 0 := by omega
      simp [fin, hs, this]
    · split
      · rename_i h
        simp [visible, h]
      · rename_i h
        have hv : visible (r :: rs) = r ++ visible rs := by simp [visible, h]
        rw [hv, List.map_append, List.append_assoc]
        split
        · rename_i hstop
          rw [fin_stop _ _ _ _ hstop, ← fin_stop _ _ _ _ hstop ((visible rs).map (fun t => (e, t)) ++ L)]
          exact recLoop_sim _ _ _ _ _ _ _ hs hb
        · rename_i hstop
          have hstop' : (recLoop limit before untl e r s).stop = false := by
            cases hh : (recLoop limit before untl e r s).stop with
            | true => exact absurd hh hstop
            | false => rfl
          rw [ih _ hstop' (fun hn => recLoop_reached _ _ _ _ _ _ (hb hn))]
          exact recLoop_sim _ _ _ _ _ _ _ hs hb

/-- the lookup failed with an error other than not-found -/
def isFailed : Lookup σ → Bool
  | .failed => true
  | _ => false

theorem allEpochs_sim (limit : Nat) (before untl : Option σ) (hs : Hist σ) (s : S σ)
    (L : Tagged σ) (hst : s.stop = false) (hb : before = none → s.reached = true)
    (hok : ∀ h ∈ hs, isFailed h.2 = false) :
    fin limit before untl (allEpochs limit before untl hs s) L = fin limit before untl s (flatten hs ++ L)
    ∧ (allEpochs limit before untl hs s).failed = s.failed := by
  induction hs generalizing s with
  | nil => exact ⟨rfl, rfl⟩
  | cons h hs ih =>
    obtain ⟨e, lk⟩ := h
    have hok' : ∀ h ∈ hs, isFailed h.2 = false := fun h hh => hok h (List.mem_cons_of_mem _ hh)
    cases lk with
    | notFound =>
      simp only [allEpochs]
      have := ih s hst hb hok'
      simpa [flatten, entries] using this
    | failed =>
      have := hok (e, .failed) (List.mem_cons_self)
      simp [isFailed] at this
    | found recs =>
      simp only [allEpochs]
      have hfl : flatten ((e, Lookup.found recs) :: hs) ++ L
          = (visible recs).map (fun t => (e, t)) ++ (flatten hs ++ L) := by
        simp [flatten, entries]
      rw [hfl]
      split
      · rename_i hstop
        refine ⟨?_, epochLoop_failed ..⟩
        rw [fin_stop _ _ _ _ hstop, ← fin_stop _ _ _ _ hstop (flatten hs ++ L)]
        exact epochLoop_sim _ _ _ _ _ _ _ hst hb
      · rename_i hstop
        have hstop' : (epochLoop limit before untl e recs s).stop = false := by
          cases hh : (epochLoop limit before untl e recs s).stop with
          | true => exact absurd hh hstop
          | false => rfl
        have := ih _ hstop' (fun hn => epochLoop_reached _ _ _ _ _ _ (hb hn)) hok'
        refine ⟨?_, ?_⟩
        · rw [this.1]; exact epochLoop_sim _ _ _ _ _ _ _ hst hb
        · rw [this.2, epochLoop_failed]

/-- **the three loops compute the slice**: for every history (any number of epochs, records, entries), every
    `limit`, every `before`/`until` (present in the history or not) -/
theorem iterBeforeUntil_eq_spec (hs : Hist σ) (limit : Int) (before untl : Option σ)
    (hok : ∀ h ∈ hs, isFailed h.2 = false) :
    iterBeforeUntil hs limit before untl = .ok (spec hs limit before untl) := by
  unfold iterBeforeUntil spec specL
  split
  · rename_i h
    have : limit.toNat = 0 := by omega
    simp [this]
  · have hb : before = none → (start before).reached = true := by
      intro h; subst h; rfl
    have := allEpochs_sim limit.toNat before untl hs (start before) [] rfl hb hok
    rw [fin_nil] at this
    have hf : (allEpochs limit.toNat before untl hs (start before)).failed = false := this.2
    simp only [hf]
    rw [this.1]
    cases before with
    | none => simp [fin, start, dropAfter]
    | some b => simp [fin, start]

/-! ## facts about the slice -/

theorem dropAfter_sublist (b : Option σ) (l : Tagged σ) : (dropAfter b l).Sublist l := by
  cases b with
  | none => simp [dropAfter]
  | some b =>
    induction l with
    | nil => exact List.Sublist.refl _
    | cons x xs ih =>
      simp only [dropAfter]
      split
      · exact List.sublist_cons_self ..
      · exact List.Sublist.cons _ ih

theorem takeThrough_sublist (u : Option σ) (l : Tagged σ) : (takeThrough u l).Sublist l := by
  cases u with
  | none => simp [takeThrough]
  | some u =>
    induction l with
    | nil => exact List.Sublist.refl _
    | cons x xs ih =>
      simp only [takeThrough]
      split
      · exact List.Sublist.cons_cons _ (List.nil_sublist _)
      · exact List.Sublist.cons_cons _ ih

theorem specL_sublist (l : Tagged σ) (limit : Int) (before untl : Option σ) :
    (specL l limit before untl).Sublist l :=
  ((List.take_sublist _ _).trans (takeThrough_sublist _ _)).trans (dropAfter_sublist _ _)

/-- `before` given but not in the history: everything is dropped -/
theorem dropAfter_absent (b : σ) (l : Tagged σ) (h : ∀ x ∈ l, x.2.sig ≠ b) : dropAfter (some b) l = [] := by
  induction l with
  | nil => rfl
  | cons x xs ih =>
    have hx : ¬ x.2.sig = b := h x List.mem_cons_self
    simp only [dropAfter, hx, if_false]
    exact ih (fun y hy => h y (List.mem_cons_of_mem _ hy))

/-- `until` given but not met: nothing is cut -/
theorem takeThrough_absent (u : σ) (l : Tagged σ) (h : ∀ x ∈ l, x.2.sig ≠ u) : takeThrough (some u) l = l := by
  induction l with
  | nil => rfl
  | cons x xs ih =>
    have hx : ¬ x.2.sig = u := h x List.mem_cons_self
    simp only [takeThrough, hx, if_false]
    rw [ih (fun y hy => h y (List.mem_cons_of_mem _ hy))]

def sigs (l : Tagged σ) : List σ := l.map fun x => x.2.sig

theorem dropAfter_index (l : Tagged σ) (i : Nat) (hi : i < l.length) (hd : (sigs l).Nodup) :
    dropAfter (some (l[i]).2.sig) l = l.drop (i + 1) := by
  induction l generalizing i with
  | nil => simp at hi
  | cons x xs ih =>
    cases i with
    | zero => simp [dropAfter]
    | succ i =>
      have hi' : i < xs.length := by simpa using hi
      have hd' : (sigs xs).Nodup := by
        simp only [sigs, List.map_cons, List.nodup_cons] at hd; exact hd.2
      have hx : ¬ x.2.sig = (xs[i]).2.sig := by
        simp only [sigs, List.map_cons, List.nodup_cons] at hd
        intro hx
        exact hd.1 (by rw [hx]; exact List.mem_map.mpr ⟨xs[i], List.getElem_mem _, rfl⟩)
      simp only [List.getElem_cons_succ, dropAfter, hx, if_false, List.drop_succ_cons]
      exact ih i hi' hd'

theorem takeThrough_index (l : Tagged σ) (j : Nat) (hj : j < l.length) (hd : (sigs l).Nodup) :
    takeThrough (some (l[j]).2.sig) l = l.take (j + 1) := by
  induction l generalizing j with
  | nil => simp at hj
  | cons x xs ih =>
    cases j with
    | zero => simp [takeThrough]
    | succ j =>
      have hj' : j < xs.length := by simpa using hj
      have hd' : (sigs xs).Nodup := by
        simp only [sigs, List.map_cons, List.nodup_cons] at hd; exact hd.2
      have hx : ¬ x.2.sig = (xs[j]).2.sig := by
        simp only [sigs, List.map_cons, List.nodup_cons] at hd
        intro hx
        exact hd.1 (by rw [hx]; exact List.mem_map.mpr ⟨xs[j], List.getElem_mem _, rfl⟩)
      simp only [List.getElem_cons_succ, takeThrough, hx, if_false, List.take_succ_cons]
      rw [ih j hj' hd']

omit [DecidableEq σ] in
theorem sigs_nodup_sublist {l l' : Tagged σ} (h : l'.Sublist l) (hd : (sigs l).Nodup) : (sigs l').Nodup := by
  unfold sigs List.Nodup at *
  exact List.Pairwise.sublist (h.map _) hd

/-- index form of the slice (signatures distinct): `before = l[i]`, `until = l[j]` with `i < j` gives
    `l[i+1 .. j]`, cut to `limit` -/
theorem specL_index (l : Tagged σ) (limit : Int) (i j : Nat) (hij : i < j) (hj : j < l.length)
    (hd : (sigs l).Nodup) :
    specL l limit (some (l[i]'(by omega)).2.sig) (some (l[j]).2.sig)
      = ((l.drop (i + 1)).take (j - i)).take limit.toNat := by
  unfold specL
  rw [dropAfter_index l i (by omega) hd]
  have hlen : j - i - 1 < (l.drop (i + 1)).length := by simp; omega
  have hget : (l.drop (i + 1))[j - i - 1] = l[j] := by
    rw [List.getElem_drop]
    congr 1; omega
  have := takeThrough_index (l.drop (i + 1)) (j - i - 1) hlen (sigs_nodup_sublist (List.drop_sublist _ _) hd)
  rw [hget] at this
  rw [this]
  congr 2; omega

/-- `until` at or before `before` in the history is never met: only `before` and `limit` cut -/
theorem specL_index_until_not_after (l : Tagged σ) (limit : Int) (i j : Nat) (hji : j ≤ i) (hi : i < l.length)
    (hd : (sigs l).Nodup) :
    specL l limit (some (l[i]).2.sig) (some (l[j]'(by omega)).2.sig) = (l.drop (i + 1)).take limit.toNat := by
  unfold specL
  rw [dropAfter_index l i hi hd]
  rw [takeThrough_absent]
  intro x hx heq
  -- x = l[k] with k > i, same signature as l[j], j ≤ i: contradicts distinctness
  obtain ⟨k, hk, rfl⟩ := List.getElem_of_mem hx
  rw [List.getElem_drop] at heq
  have hk' : i + 1 + k < l.length := by simp at hk; omega
  have hp : (sigs l).Pairwise (· ≠ ·) := hd
  have := List.pairwise_iff_getElem.mp hp j (i + 1 + k) (by simp [sigs]; omega) (by simp [sigs]; omega) (by omega)
  simp only [sigs, List.getElem_map] at this
  exact this heq.symm

theorem allEpochs_skip (limit : Nat) (before untl : Option σ) (hs1 hs2 : Hist σ) (e : Nat) (s : S σ) :
    allEpochs limit before untl (hs1 ++ (e, Lookup.notFound) :: hs2) s = allEpochs limit before untl (hs1 ++ hs2) s := by
  induction hs1 generalizing s with
  | nil => simp [allEpochs]
  | cons h hs1 ih =>
    obtain ⟨e', lk⟩ := h
    cases lk with
    | notFound => simp only [List.cons_append, allEpochs]; exact ih s
    | failed => simp only [List.cons_append, allEpochs]
    | found recs =>
      simp only [List.cons_append, allEpochs]
      split
      · rfl
      · exact ih _

end Sig

section Slot
variable {σ : Type}

/-! ## the slot-bounded variant `iterBeforeUntilSlot` (streaming)

`fixed = false` is the pinned tree; `fixed = true` is the tree with `/verif/fixes/C07-2.patch`
(`if tx.Slot >= int(before) { continue }`). -/

def recLoopSlot (fixed : Bool) (limit before untl e : Nat) : List (Tx σ) → S σ → S σ
  | [], s => s
  | x :: rest, s =>
    if x.slot < untl then { s with stop := true }
    else if fixed = true ∧ before ≤ x.slot then recLoopSlot fixed limit before untl e rest s
    else if limit ≤ s.acc.length then { s with stop := true }
    else recLoopSlot fixed limit before untl e rest { s with acc := s.acc ++ [(e, x)] }

def epochLoopSlot (fixed : Bool) (limit before untl e : Nat) : List (List (Tx σ)) → S σ → S σ
  | [], s => s
  | r :: rs, s =>
    if limit ≤ s.acc.length then { s with stop := true }
    else if r.isEmpty then s
    else if (recLoopSlot fixed limit before untl e r s).stop then recLoopSlot fixed limit before untl e r s
    else epochLoopSlot fixed limit before untl e rs (recLoopSlot fixed limit before untl e r s)

/-- `slottools.CalcEpochForSlot` on naturals (tied to the translated Go function in Properties/C07) -/
def epochOf (slot : Nat) : Nat := slot / Generated.epochLen

def allEpochsSlot (fixed : Bool) (limit before untl : Nat) : Hist σ → S σ → S σ
  | [], s => s
  | (e, lk) :: hs, s =>
    if epochOf before < e then allEpochsSlot fixed limit before untl hs s      -- `epochNum > beforeEpoch`
    else match lk with
      | .notFound => allEpochsSlot fixed limit before untl hs s
      | .failed => { s with stop := true, failed := true }
      | .found recs =>
        if (epochLoopSlot fixed limit before untl e recs s).stop then epochLoopSlot fixed limit before untl e recs s
        else allEpochsSlot fixed limit before untl hs (epochLoopSlot fixed limit before untl e recs s)

def iterBeforeUntilSlot (fixed : Bool) (hs : Hist σ) (limit : Int) (before untl : Nat) : Except String (Tagged σ) :=
  if limit ≤ 0 ∨ before < untl then .ok []
  else if (allEpochsSlot fixed limit.toNat before untl hs (start none)).failed then .error "error while getting initial offset"
  else .ok (allEpochsSlot fixed limit.toNat before untl hs (start none)).acc

/-- the requested window: `until ≤ slot < before` (the streaming caller passes `endSlot+1` and `startSlot`) -/
def inWin (before untl : Nat) (x : Nat × Tx σ) : Bool := decide (untl ≤ x.2.slot) && decide (x.2.slot < before)

/-! ### soundness: only entries inside the window -/

theorem recLoopSlot_mem (limit before untl e : Nat) (r : List (Tx σ)) (s : S σ) :
    ∀ y ∈ (recLoopSlot true limit before untl e r s).acc, y ∈ s.acc ∨ inWin before untl y = true := by
  induction r generalizing s with
  | nil => intro y hy; exact Or.inl hy
  | cons x rest ih =>
    unfold recLoopSlot
    split
    · intro y hy; exact Or.inl hy
    · split
      · exact ih s
      · split
        · intro y hy; exact Or.inl hy
        · rename_i h1 h2 h3
          intro y hy
          rcases ih _ y hy with h | h
          · simp only [List.mem_append, List.mem_singleton] at h
            rcases h with h | h
            · exact Or.inl h
            · right
              subst h
              have : ¬ before ≤ x.slot := fun hh => h2 ⟨rfl, hh⟩
              simp [inWin]; omega
          · exact Or.inr h

theorem epochLoopSlot_mem (limit before untl e : Nat) (recs : List (List (Tx σ))) (s : S σ) :
    ∀ y ∈ (epochLoopSlot true limit before untl e recs s).acc, y ∈ s.acc ∨ inWin before untl y = true := by
  induction recs generalizing s with
  | nil => intro y hy; exact Or.inl hy
  | cons r rs ih =>
    unfold epochLoopSlot
    split
    · intro y hy; exact Or.inl hy
    · split
      · intro y hy; exact Or.inl hy
      · split
        · exact recLoopSlot_mem _ _ _ _ _ _
        · intro y hy
          rcases ih _ y hy with h | h
          · exact recLoopSlot_mem _ _ _ _ _ _ y h
          · exact Or.inr h

theorem allEpochsSlot_mem (limit before untl : Nat) (hs : Hist σ) (s : S σ) :
    ∀ y ∈ (allEpochsSlot true limit before untl hs s).acc, y ∈ s.acc ∨ inWin before untl y = true := by
  induction hs generalizing s with
  | nil => intro y hy; exact Or.inl hy
  | cons h hs ih =>
    obtain ⟨e, lk⟩ := h
    unfold allEpochsSlot
    split
    · exact ih s
    · cases lk with
      | notFound => exact ih s
      | failed => intro y hy; exact Or.inl hy
      | found recs =>
        simp only
        split
        · exact epochLoopSlot_mem _ _ _ _ _ _
        · intro y hy
          rcases ih _ y hy with h | h
          · exact epochLoopSlot_mem _ _ _ _ _ _ y h
          · exact Or.inr h

/-! ### completeness: every in-window entry within `limit`, on a history sorted by slot -/

/-- slots do not increase along the history (newest first) -/
def Desc (l : Tagged σ) : Prop := l.Pairwise fun a b => b.2.slot ≤ a.2.slot

def finSlot (limit before untl : Nat) (s : S σ) (L : Tagged σ) : Tagged σ :=
  if s.stop then s.acc else s.acc ++ (L.filter (inWin before untl)).take (limit - s.acc.length)

theorem finSlot_stop (limit before untl : Nat) (s : S σ) (h : s.stop = true) (L : Tagged σ) :
    finSlot limit before untl s L = s.acc := by
  simp [finSlot, h]

theorem finSlot_nil (limit before untl : Nat) (s : S σ) : finSlot limit before untl s [] = s.acc := by
  unfold finSlot; split <;> simp

theorem recLoopSlot_failed (fixed : Bool) (limit before untl e : Nat) (r : List (Tx σ)) (s : S σ) :
    (recLoopSlot fixed limit before untl e r s).failed = s.failed := by
  induction r generalizing s with
  | nil => rfl
  | cons x rest ih =>
    unfold recLoopSlot
    split
    · rfl
    · split
      · rw [ih]
      · split
        · rfl
        · rw [ih]

theorem epochLoopSlot_failed (fixed : Bool) (limit before untl e : Nat) (recs : List (List (Tx σ))) (s : S σ) :
    (epochLoopSlot fixed limit before untl e recs s).failed = s.failed := by
  induction recs generalizing s with
  | nil => rfl
  | cons r rs ih =>
    unfold epochLoopSlot
    split
    · rfl
    · split
      · rfl
      · split
        · exact recLoopSlot_failed ..
        · rw [ih, recLoopSlot_failed]

theorem recLoopSlot_sim (limit before untl e : Nat) (r : List (Tx σ)) (s : S σ) (L : Tagged σ)
    (hs : s.stop = false) (hd : Desc (r.map (fun t => (e, t)) ++ L)) :
    finSlot limit before untl (recLoopSlot true limit before untl e r s) L
      = finSlot limit before untl s (r.map (fun t => (e, t)) ++ L) := by
  induction r generalizing s with
  | nil => rfl
  | cons x rest ih =>
    have hd' : Desc (rest.map (fun t => (e, t)) ++ L) := by
      simp only [Desc, List.map_cons, List.cons_append, List.pairwise_cons] at hd; exact hd.2
    have hle : ∀ y ∈ rest.map (fun t => (e, t)) ++ L, y.2.slot ≤ x.slot := by
      simp only [Desc, List.map_cons, List.cons_append, List.pairwise_cons] at hd; exact hd.1
    unfold recLoopSlot
    split
    · -- below the window: everything further on is older still
      rename_i h
      have hnil : (List.map (fun t => (e, t)) (x :: rest) ++ L).filter (inWin before untl) = [] := by
        rw [List.filter_eq_nil_iff]
        intro y hy
        simp only [List.map_cons, List.cons_append, List.mem_cons] at hy
        rcases hy with hy | hy
        · subst hy; simp [inWin]; omega
        · have := hle y hy; simp [inWin]; omega
      rw [finSlot_stop _ _ _ _ rfl]
      unfold finSlot
      rw [hnil]
      simp [hs]
    · split
      · -- at or above `before`: skipped
        rename_i h1 h2
        rw [ih s hs hd']
        have : inWin before untl (e, x) = false := by simp [inWin]; omega
        simp [finSlot, hs, this]
      · rename_i h1 h2
        have hin : inWin before untl (e, x) = true := by
          have : ¬ before ≤ x.slot := fun hh => h2 ⟨rfl, hh⟩
          simp [inWin]; omega
        split
        · rename_i h3
          have : limit - s.acc.length = 0 := by omega
          simp [finSlot, hs, this]
        · rename_i h3
          rw [ih { s with acc := s.acc ++ [(e, x)] } hs hd']
          have hl : (s.acc ++ [(e, x)]).length = s.acc.length + 1 := by simp
          simp only [finSlot, hs, hl, List.map_cons, List.cons_append, List.filter_cons, hin, if_true]
          rw [show limit - s.acc.length = (limit - (s.acc.length + 1)) + 1 by omega]
          simp

theorem desc_append_right {A B : Tagged σ} (h : Desc (A ++ B)) : Desc B := by
  unfold Desc at *
  exact (List.pairwise_append.mp h).2.1

theorem epochLoopSlot_sim (limit before untl e : Nat) (recs : List (List (Tx σ))) (s : S σ) (L : Tagged σ)
    (hs : s.stop = false) (hd : Desc ((visible recs).map (fun t => (e, t)) ++ L)) :
    finSlot limit before untl (epochLoopSlot true limit before untl e recs s) L
      = finSlot limit before untl s ((visible recs).map (fun t => (e, t)) ++ L) := by
  induction recs generalizing s with
  | nil => rfl
  | cons r rs ih =>
    unfold epochLoopSlot
    split
    · rename_i h
      have : limit - s.acc.length = 0 := by omega
      simp [finSlot, hs, this]
    · split
      · rename_i h
        simp [visible, h]
      · rename_i h
        have hv : visible (r :: rs) = r ++ visible rs := by simp [visible, h]
        rw [hv, List.map_append, List.append_assoc] at hd ⊢
        split
        · rename_i hstop
          rw [finSlot_stop _ _ _ _ hstop, ← finSlot_stop _ _ _ _ hstop ((visible rs).map (fun t => (e, t)) ++ L)]
          exact recLoopSlot_sim _ _ _ _ _ _ _ hs hd
        · rename_i hstop
          have hstop' : (recLoopSlot true limit before untl e r s).stop = false := by
            cases hh : (recLoopSlot true limit before untl e r s).stop with
            | true => exact absurd hh hstop
            | false => rfl
          rw [ih _ hstop' (desc_append_right hd)]
          exact recLoopSlot_sim _ _ _ _ _ _ _ hs hd

theorem allEpochsSlot_sim (limit before untl : Nat) (hs : Hist σ) (s : S σ) (L : Tagged σ)
    (hst : s.stop = false) (hd : Desc (flatten hs ++ L))
    (hep : ∀ x ∈ flatten hs, x.1 * Generated.epochLen ≤ x.2.slot)
    (hok : ∀ h ∈ hs, isFailed h.2 = false) :
    finSlot limit before untl (allEpochsSlot true limit before untl hs s) L
        = finSlot limit before untl s (flatten hs ++ L)
    ∧ (allEpochsSlot true limit before untl hs s).failed = s.failed := by
  induction hs generalizing s with
  | nil => exact ⟨rfl, rfl⟩
  | cons h hs ih =>
    obtain ⟨e, lk⟩ := h
    have hok' : ∀ h ∈ hs, isFailed h.2 = false := fun h hh => hok h (List.mem_cons_of_mem _ hh)
    have hfl : flatten ((e, lk) :: hs) ++ L = (entries lk).map (fun t => (e, t)) ++ (flatten hs ++ L) := by
      simp [flatten]
    have hep' : ∀ x ∈ flatten hs, x.1 * Generated.epochLen ≤ x.2.slot := by
      intro x hx; apply hep; simp only [flatten, List.flatMap_cons, List.mem_append]; exact Or.inr hx
    have hepe : ∀ t ∈ entries lk, e * Generated.epochLen ≤ t.slot := by
      intro t ht
      have := hep (e, t) (by
        simp only [flatten, List.flatMap_cons, List.mem_append]
        exact Or.inl (List.mem_map.mpr ⟨t, ht, rfl⟩))
      exact this
    rw [hfl] at hd ⊢
    have hd' : Desc (flatten hs ++ L) := desc_append_right hd
    unfold allEpochsSlot
    split
    · -- the whole epoch lies above `before`
      rename_i hskip
      have hnil : ((entries lk).map (fun t => (e, t))).filter (inWin before untl) = [] := by
        rw [List.filter_eq_nil_iff]
        intro y hy
        obtain ⟨t, ht, rfl⟩ := List.mem_map.mp hy
        have h1 := hepe t ht
        have h2 : before < e * Generated.epochLen := by
          unfold epochOf at hskip
          exact (Nat.div_lt_iff_lt_mul (by decide)).mp hskip
        simp [inWin]; omega
      have := ih s hst hd' hep' hok'
      refine ⟨?_, this.2⟩
      rw [this.1]
      simp [finSlot, hst, List.filter_append, hnil]
    · cases lk with
      | notFound =>
        have := ih s hst hd' hep' hok'
        simpa [entries] using this
      | failed =>
        have := hok (e, .failed) (List.mem_cons_self)
        simp [isFailed] at this
      | found recs =>
        simp only [entries] at hd ⊢
        split
        · rename_i hstop
          refine ⟨?_, epochLoopSlot_failed ..⟩
          rw [finSlot_stop _ _ _ _ hstop, ← finSlot_stop _ _ _ _ hstop (flatten hs ++ L)]
          exact epochLoopSlot_sim _ _ _ _ _ _ _ hst hd
        · rename_i hstop
          have hstop' : (epochLoopSlot true limit before untl e recs s).stop = false := by
            cases hh : (epochLoopSlot true limit before untl e recs s).stop with
            | true => exact absurd hh hstop
            | false => rfl
          have := ih _ hstop' hd' hep' hok'
          refine ⟨?_, ?_⟩
          · rw [this.1]; exact epochLoopSlot_sim _ _ _ _ _ _ _ hst hd
          · rw [this.2, epochLoopSlot_failed]

theorem allEpochsSlot_skip (fixed : Bool) (limit before untl : Nat) (hs1 hs2 : Hist σ) (e : Nat) (s : S σ) :
    allEpochsSlot fixed limit before untl (hs1 ++ (e, Lookup.notFound) :: hs2) s
      = allEpochsSlot fixed limit before untl (hs1 ++ hs2) s := by
  induction hs1 generalizing s with
  | nil =>
    simp only [List.nil_append]
    conv => lhs; unfold allEpochsSlot
    split <;> rfl
  | cons h hs1 ih =>
    obtain ⟨e', lk⟩ := h
    simp only [List.cons_append]
    conv => lhs; unfold allEpochsSlot
    conv => rhs; unfold allEpochsSlot
    split
    · exact ih s
    · cases lk with
      | notFound => exact ih s
      | failed => rfl
      | found recs =>
        simp only
        split
        · rfl
        · exact ih _

theorem visible_eq_flatten {α : Type} (recs : List (List α)) (h : ∀ r ∈ recs, r ≠ []) :
    visible recs = recs.flatten := by
  induction recs with
  | nil => rfl
  | cons r rs ih =>
    have hr : r.isEmpty = false := by
      have := h r List.mem_cons_self
      cases r with
      | nil => exact absurd rfl this
      | cons _ _ => rfl
    simp only [visible, hr, List.flatten_cons]
    rw [ih (fun r' hr' => h r' (List.mem_cons_of_mem _ hr'))]
    rfl

end Slot

/-! ## the JSON-RPC handler: from the result map to the response array -/

section Handler
variable {σ : Type}

/-- `foundTransactions[e]`: the Go map is the grouping of the append sequence by epoch -/
def group (out : Tagged σ) (e : Nat) : List (Tx σ) := (out.filter fun x => x.1 == e).map fun x => x.2

/-- the keys of the Go map (epochs with at least one appended transaction) -/
def keys (out : Tagged σ) : List Nat := (out.map fun x => x.1).eraseDups

/-- pinned handler: `for ei := range foundTransactions { … response[numBefore+i] = … }` with the map keys
    visited in `order` (Go leaves the order unspecified and randomises it) -/
def responsePinned (order : List Nat) (out : Tagged σ) : List σ :=
  order.flatMap fun e => (group out e).map fun t => t.sig

/-- repaired handler (`/verif/fixes/C07-1.patch`): the epoch numbers in the order in which the readers were
    queried (`getGsfaReadersInEpochDescendingOrder`) -/
def responseFixed (epochs : List Nat) (out : Tagged σ) : List σ :=
  epochs.flatMap fun e => (group out e).map fun t => t.sig

/-- `parseGetSignaturesForAddressParams`: `if out.Limit <= 0 || out.Limit > 1000 { out.Limit = 1000 }` -/
def normLimit (l : Int) : Int := if l ≤ 0 ∨ l > 1000 then 1000 else l

/-- entries grouped epoch by epoch in the order `es` -/
def Blocked : List Nat → Tagged σ → Prop
  | [], l => l = []
  | e :: es, l => ∃ l1 l2, l = l1 ++ l2 ∧ (∀ x ∈ l1, x.1 = e) ∧ (∀ x ∈ l2, x.1 ≠ e) ∧ Blocked es l2

theorem blocked_sublist (es : List Nat) (l l' : Tagged σ) (hb : Blocked es l) (hs : l'.Sublist l) :
    Blocked es l' := by
  induction es generalizing l l' with
  | nil =>
    simp only [Blocked] at hb ⊢
    subst hb
    exact List.eq_nil_of_sublist_nil hs
  | cons e es ih =>
    obtain ⟨l1, l2, rfl, h1, h2, h3⟩ := hb
    obtain ⟨a, b, rfl, ha, hb'⟩ := List.sublist_append_iff.mp hs
    exact ⟨a, b, rfl, fun x hx => h1 x (ha.subset hx), fun x hx => h2 x (hb'.subset hx), ih l2 b h3 hb'⟩

theorem mem_flatten_epoch (hs : Hist σ) (x : Nat × Tx σ) (hx : x ∈ flatten hs) : x.1 ∈ hs.map fun h => h.1 := by
  simp only [flatten, List.mem_flatMap, List.mem_map] at hx ⊢
  obtain ⟨h, hh, t, _, rfl⟩ := hx
  exact ⟨h, hh, rfl⟩

theorem blocked_flatten (hs : Hist σ) (hn : (hs.map fun h => h.1).Nodup) :
    Blocked (hs.map fun h => h.1) (flatten hs) := by
  induction hs with
  | nil => simp [Blocked, flatten]
  | cons h hs ih =>
    simp only [List.map_cons, List.nodup_cons] at hn
    refine ⟨(entries h.2).map (fun t => (h.1, t)), flatten hs, by simp [flatten], ?_, ?_, ih hn.2⟩
    · intro x hx
      obtain ⟨t, _, rfl⟩ := List.mem_map.mp hx
      rfl
    · intro x hx heq
      have hm := mem_flatten_epoch hs x hx
      rw [heq] at hm
      exact hn.1 hm

theorem regroup_skip (e : Nat) (es : List Nat) (l1 l2 : Tagged σ) (h1 : ∀ x ∈ l1, x.1 = e) (he : e ∉ es) :
    es.flatMap (fun e' => (l1 ++ l2).filter fun x => x.1 == e') = es.flatMap (fun e' => l2.filter fun x => x.1 == e') := by
  induction es with
  | nil => rfl
  | cons e' es ih =>
    have hne : e ≠ e' := fun h => he (h ▸ List.mem_cons_self)
    have : l1.filter (fun x => x.1 == e') = [] := by
      rw [List.filter_eq_nil_iff]
      intro x hx
      have := h1 x hx
      simp [this, hne]
    have ih' := ih (fun h => he (List.mem_cons_of_mem _ h))
    simp only [List.filter_append] at ih'
    simp only [List.flatMap_cons, List.filter_append, this, List.nil_append]
    rw [ih']

theorem blocked_regroup (es : List Nat) (l : Tagged σ) (hn : es.Nodup) (hb : Blocked es l) :
    es.flatMap (fun e => l.filter fun x => x.1 == e) = l := by
  induction es generalizing l with
  | nil => simp only [Blocked] at hb; subst hb; rfl
  | cons e es ih =>
    obtain ⟨l1, l2, rfl, h1, h2, h3⟩ := hb
    simp only [List.nodup_cons] at hn
    have f1 : l1.filter (fun x => x.1 == e) = l1 := by
      rw [List.filter_eq_self]
      intro x hx; simp [h1 x hx]
    have f2 : l2.filter (fun x => x.1 == e) = [] := by
      rw [List.filter_eq_nil_iff]
      intro x hx; simp [h2 x hx]
    simp only [List.flatMap_cons, List.filter_append, f1, f2, List.append_nil]
    have := regroup_skip e es l1 l2 h1 hn.1
    simp only [List.filter_append] at this
    rw [this, ih l2 hn.2 h3]

theorem responseFixed_eq (es : List Nat) (out : Tagged σ) :
    responseFixed es out = (es.flatMap fun e => out.filter fun x => x.1 == e).map fun x => x.2.sig := by
  induction es with
  | nil => rfl
  | cons e es ih =>
    simp only [responseFixed, group, List.flatMap_cons, List.map_append, List.map_map] at ih ⊢
    rw [ih]
    rfl

end Handler

section HandlerSig
variable {σ : Type} [DecidableEq σ]

/-- the repaired `handleGetSignaturesForAddress`, signatures only: the `result` array of the response -/
def handler (hs : Hist σ) (limit : Int) (before untl : Option σ) : Except String (List σ) :=
  match iterBeforeUntil hs (normLimit limit) before untl with
  | .ok out => .ok (responseFixed (hs.map fun h => h.1) out)
  | .error e => .error e

end HandlerSig

end Paging

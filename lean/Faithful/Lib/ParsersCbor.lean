import Faithful.Lib.Ledger

/-!
C12 — the seven hand-written CBOR node decoders, REPAIRED (fixes/C12-*.patch for `ipld/ipldbindcode/cbor.go`).

`Ledger.Fast.decode` (property C11's model of `cbor.go`, not edited here) keeps the unchecked type assertions and the
unchecked `rawBytes[1:]` of the pinned code as explicit `panic` outcomes.  `FastFixed` re-states exactly the functions
that contain one of those sites — with the `ok` check / length check the patch adds — and re-uses every other definition
of `Ledger.Fast` unchanged.  `Properties/C12.lean` proves that `FastFixed.decode` never panics, over every CBOR tree,
and that it agrees with `Fast.decode` wherever the latter does not panic (the repair changes nothing else).
-/
namespace Ledger
namespace FastFixed
open Cbor Fast

/-- repaired link body: `if len(rawBytes) == 0 { return error }` before `rawBytes[1:]` -/
def linkOf : Val → Outcome Cid
  | .tag n c =>
    if builtinTag n then .err "expected cbor.Tag"
    else if n ≠ 42 then .err s!"expected cbor tag number 42, got {n}"
    else match c with
      | .bytes [] => .err "expected cbor tag content to be a prefixed cid, got an empty byte string"
      | .bytes (_ :: rest) =>
        (match Cid.fromBytes rest with
         | some (_, cid) => .ok cid
         | none => .err "failed to cast cbor tag content to cid.Cid")
      | _ => .err "expected cbor tag content to be []byte"
  | _ => .err "expected cbor.Tag"

def linkLoop : List Cid → List Val → Outcome (List Cid)
  | acc, [] => .ok acc.reverse
  | acc, v :: vs =>
    match linkOf v with
    | .ok c => linkLoop (c :: acc) vs
    | .err e => .err e
    | .panic w => .panic w

def linkList (v : Val) : Outcome (List Cid) :=
  if isNil v then .ok []
  else match v with
    | .arr xs => linkLoop [] xs
    | _ => .err "expected subsets to be []interface{}"

def reqLinks (arr : List Val) (i : Nat) (name : String) : Outcome (List Cid) :=
  match get arr i with
  | some v => linkList v
  | none => .err s!"expected {name} to be present"

def dataFrameFromArray (arr : List Val) : Outcome DataFrame := do
  let kind ← readKind arr 6
  let hash ← optInt arr 1
  let index ← optInt arr 2
  let total ← optInt arr 3
  let data ← match get arr 4 with
    | some (.bytes b) => Outcome.ok b
    | some _ => .err "expected cbor tag content to be []byte"
    | none => .err "expected data to be present"
  let next ← match get arr 5 with
    | some v => do let l ← linkList v; Outcome.ok (some (some l))
    | none => Outcome.ok none
  return { kind, hash, index, total, data, next }

/-- repaired: `dataSlice, ok := data.([]interface{}); if !ok { return error }` -/
def nestedDataFrame (arr : List Val) (i : Nat) (name : String) : Outcome DataFrame :=
  match get arr i with
  | some (.arr d) => dataFrameFromArray d
  | some _ => .err s!"expected {name} to be a list"
  | none => .err s!"expected {name} to be present"

def unmarshalDataFrame (v : Val) : Outcome DataFrame := do
  let arr ← topArray 64 v
  dataFrameFromArray arr

def unmarshalEpoch (v : Val) : Outcome Epoch := do
  let arr ← topArray 64 v
  let kind ← readKind arr 4
  let epoch ← reqInt arr 1 "epoch"
  let subsets ← reqLinks arr 2 "subsets"
  return { kind, epoch, subsets }

def unmarshalSubset (v : Val) : Outcome Subset := do
  let arr ← topArray 64 v
  let kind ← readKind arr 3
  let first ← reqInt arr 1 "first"
  let last ← reqInt arr 2 "last"
  let blocks ← reqLinks arr 3 "blocks"
  return { kind, first, last, blocks }

def unmarshalBlock (v : Val) : Outcome Block := do
  let arr ← topArray 64 v
  let kind ← readKind arr 2
  let slot ← reqInt arr 1 "slot"
  let shredding ← match get arr 2 with
    | some (.arr xs) => shreddingLoop [] xs
    | some _ => .err "expected shredding to be []interface{}"
    | none => .err "expected shredding to be present"
  let entries ← reqLinks arr 3 "entries"
  -- repaired: `metaSlice, ok := meta.([]interface{}); if !ok { return error }`
  let smeta ← match get arr 4 with
    | some (.arr m) => do
      let p ← reqInt m 0 "parent_slot"
      let b ← reqInt m 1 "blocktime"
      let h ← optInt m 2
      Outcome.ok (SlotMeta.mk p b h)
    | some _ => .err "expected meta to be a list"
    | none => .err "expected meta to be present"
  let rewards ← match get arr 5 with
    | some r => linkOf r
    | none => .err "expected rewards to be present"
  return { kind, slot, shredding, entries, smeta, rewards }

def unmarshalRewards (v : Val) : Outcome Rewards := do
  let arr ← topArray 64 v
  let kind ← readKind arr 5
  let slot ← reqInt arr 1 "slot"
  let data ← nestedDataFrame arr 2 "data"
  return { kind, slot, data }

def unmarshalEntry (v : Val) : Outcome Entry := do
  let arr ← topArray 64 v
  let kind ← readKind arr 1
  let numHashes ← reqInt arr 1 "num_hashes"
  -- repaired: `h, ok := hash.([]byte); if !ok { return error }`
  let hash ← match get arr 2 with
    | some (.bytes h) => Outcome.ok h
    | some _ => .err "expected hash to be []byte"
    | none => .err "expected hash to be present"
  let transactions ← reqLinks arr 3 "transactions"
  return { kind, numHashes, hash, transactions }

def unmarshalTransaction (v : Val) : Outcome Transaction := do
  let arr ← topArray 64 v
  let kind ← readKind arr 0
  let data ← nestedDataFrame arr 1 "data"
  let metadata ← nestedDataFrame arr 2 "metadata"
  let slot ← reqInt arr 3 "slot"
  let index ← optInt arr 4
  return { kind, data, metadata, slot, index }

/-- `iplddecoders.Decode<Kind>` over the repaired `UnmarshalCBOR` methods -/
def decode (k : Kind) (v : Val) : Outcome Node :=
  match k with
  | .transaction => do let x ← unmarshalTransaction v; checkKind k x.kind; return .transaction x
  | .entry => do let x ← unmarshalEntry v; checkKind k x.kind; return .entry x
  | .block => do let x ← unmarshalBlock v; checkKind k x.kind; return .block x
  | .subset => do let x ← unmarshalSubset v; checkKind k x.kind; return .subset x
  | .epoch => do let x ← unmarshalEpoch v; checkKind k x.kind; return .epoch x
  | .rewards => do let x ← unmarshalRewards v; checkKind k x.kind; return .rewards x
  | .dataFrame => do let x ← unmarshalDataFrame v; checkKind k x.kind; return .dataFrame x

/-! ### no panic -/

/-- the outcome is not a panic -/
def NP {α : Type} (o : Outcome α) : Prop := ∀ w, o ≠ .panic w

theorem np_ok {α : Type} (a : α) : NP (Outcome.ok a) := fun _ h => by cases h
theorem np_err {α : Type} (e : String) : NP (Outcome.err e : Outcome α) := fun _ h => by cases h
theorem np_pure {α : Type} (a : α) : NP (pure a : Outcome α) := np_ok a
theorem np_bind {α β : Type} {x : Outcome α} {f : α → Outcome β} (hx : NP x) (hf : ∀ a, NP (f a)) : NP (x >>= f) := by
  cases x with
  | ok a => exact hf a
  | err e => exact np_err e
  | panic w => exact absurd rfl (hx w)

theorem np_topArray : ∀ (fuel : Nat) (v : Val), NP (topArray fuel v) := by
  intro fuel
  induction fuel with
  | zero => intro v; cases v <;> first | exact np_ok _ | exact np_err _
  | succ n ih =>
    intro v
    cases v <;> first | exact np_ok _ | exact np_err _ | exact ih _

theorem np_getUint64 (v : Val) : NP (getUint64 v) := by
  unfold getUint64
  split
  · exact np_ok _
  · split <;> first | exact np_ok _ | exact np_err _
  · exact np_err _

/-- one step of the panic-freedom argument: close a leaf, or open a bind / a case split -/
macro "np_leaf" : tactic => `(tactic| first
  | exact np_ok _ | exact np_err _ | exact np_pure _ | exact np_topArray _ _ | exact np_getUint64 _)

theorem np_readKind (arr : List Val) (w : Int) : NP (readKind arr w) := by
  unfold readKind
  split
  · refine np_bind (np_getUint64 _) (fun u => ?_)
    dsimp only
    split <;> np_leaf
  · exact np_err _

theorem np_reqInt (arr : List Val) (i : Nat) (n : String) : NP (reqInt arr i n) := by
  unfold reqInt
  split
  · exact np_bind (np_getUint64 _) (fun u => np_ok _)
  · exact np_err _

theorem np_optIntOf (v : Val) : NP (optIntOf v) := by
  unfold optIntOf
  split
  · exact np_ok _
  · exact np_bind (np_getUint64 _) (fun u => np_ok _)

theorem np_optInt (arr : List Val) (i : Nat) : NP (optInt arr i) := by
  unfold optInt
  split
  · exact np_optIntOf _
  · exact np_ok _

theorem np_linkOf (v : Val) : NP (linkOf v) := by
  unfold linkOf
  split
  · split; · exact np_err _
    split; · exact np_err _
    split
    · exact np_err _
    · split <;> np_leaf
    · exact np_err _
  · exact np_err _

theorem np_linkLoop : ∀ (vs : List Val) (acc : List Cid), NP (linkLoop acc vs) := by
  intro vs
  induction vs with
  | nil => intro acc; exact np_ok _
  | cons v vs ih =>
    intro acc
    unfold linkLoop
    split
    · exact ih _
    · exact np_err _
    · rename_i w hw
      exact absurd hw (np_linkOf v w)

theorem np_linkList (v : Val) : NP (linkList v) := by
  unfold linkList
  split; · exact np_ok _
  split
  · exact np_linkLoop _ _
  · exact np_err _

theorem np_reqLinks (arr : List Val) (i : Nat) (n : String) : NP (reqLinks arr i n) := by
  unfold reqLinks
  split
  · exact np_linkList _
  · exact np_err _

theorem np_shreddingOf (v : Val) : NP (shreddingOf v) := by
  unfold shreddingOf
  split
  · exact np_bind (np_reqInt _ _ _) (fun _ => np_bind (np_reqInt _ _ _) (fun _ => np_ok _))
  · exact np_err _

theorem np_shreddingLoop : ∀ (vs : List Val) (acc : List Shredding), NP (shreddingLoop acc vs) := by
  intro vs
  induction vs with
  | nil => intro acc; exact np_ok _
  | cons v vs ih =>
    intro acc
    unfold shreddingLoop
    split
    · exact ih _
    · exact np_err _
    · rename_i w hw
      exact absurd hw (np_shreddingOf v w)

theorem np_checkKind (k : Kind) (g : Int) : NP (checkKind k g) := by
  unfold checkKind
  split <;> np_leaf

macro "np_step" : tactic => `(tactic| first
  | np_leaf
  | exact np_readKind _ _ | exact np_reqInt _ _ _ | exact np_optInt _ _
  | exact np_linkOf _ | exact np_linkList _ | exact np_reqLinks _ _ _ | exact np_linkLoop _ _ | exact np_shreddingLoop _ _
  | exact np_checkKind _ _
  | (refine np_bind ?_ (fun _ => ?_))
  | split)

theorem np_dataFrameFromArray (arr : List Val) : NP (dataFrameFromArray arr) := by
  unfold dataFrameFromArray
  dsimp only
  repeat' np_step

theorem np_nestedDataFrame (arr : List Val) (i : Nat) (n : String) : NP (nestedDataFrame arr i n) := by
  unfold nestedDataFrame
  split
  · exact np_dataFrameFromArray _
  · exact np_err _
  · exact np_err _

theorem np_unmarshalDataFrame (v : Val) : NP (unmarshalDataFrame v) :=
  np_bind (np_topArray _ _) (fun _ => np_dataFrameFromArray _)

theorem np_unmarshalEpoch (v : Val) : NP (unmarshalEpoch v) := by
  unfold unmarshalEpoch
  repeat' np_step

theorem np_unmarshalSubset (v : Val) : NP (unmarshalSubset v) := by
  unfold unmarshalSubset
  repeat' np_step

theorem np_unmarshalBlock (v : Val) : NP (unmarshalBlock v) := by
  unfold unmarshalBlock
  dsimp only
  repeat' np_step

theorem np_unmarshalRewards (v : Val) : NP (unmarshalRewards v) := by
  unfold unmarshalRewards
  repeat' (first | exact np_nestedDataFrame _ _ _ | np_step)

theorem np_unmarshalEntry (v : Val) : NP (unmarshalEntry v) := by
  unfold unmarshalEntry
  dsimp only
  repeat' np_step

theorem np_unmarshalTransaction (v : Val) : NP (unmarshalTransaction v) := by
  unfold unmarshalTransaction
  repeat' (first | exact np_nestedDataFrame _ _ _ | np_step)

theorem np_decode (k : Kind) (v : Val) : NP (decode k v) := by
  cases k <;> unfold decode <;> dsimp only
  · exact np_bind (np_unmarshalTransaction v) (fun _ => np_bind (np_checkKind _ _) (fun _ => np_pure _))
  · exact np_bind (np_unmarshalEntry v) (fun _ => np_bind (np_checkKind _ _) (fun _ => np_pure _))
  · exact np_bind (np_unmarshalBlock v) (fun _ => np_bind (np_checkKind _ _) (fun _ => np_pure _))
  · exact np_bind (np_unmarshalSubset v) (fun _ => np_bind (np_checkKind _ _) (fun _ => np_pure _))
  · exact np_bind (np_unmarshalEpoch v) (fun _ => np_bind (np_checkKind _ _) (fun _ => np_pure _))
  · exact np_bind (np_unmarshalRewards v) (fun _ => np_bind (np_checkKind _ _) (fun _ => np_pure _))
  · exact np_bind (np_unmarshalDataFrame v) (fun _ => np_bind (np_checkKind _ _) (fun _ => np_pure _))

/-! ### the repair changes nothing but the panics -/

/-- `pinned` is the same outcome as `fixed`, or a panic -/
def Refines {α : Type} (fixed pinned : Outcome α) : Prop := pinned = fixed ∨ ∃ w, pinned = .panic w

theorem refines_refl {α : Type} (a : Outcome α) : Refines a a := Or.inl rfl
theorem refines_panic {α : Type} (a : Outcome α) (w : String) : Refines a (.panic w) := Or.inr ⟨w, rfl⟩
theorem refines_bind {α β : Type} {x x' : Outcome α} {f f' : α → Outcome β}
    (hx : Refines x x') (hf : ∀ a, Refines (f a) (f' a)) : Refines (x >>= f) (x' >>= f') := by
  rcases hx with h | ⟨w, h⟩
  · subst h
    cases x' with
    | ok a => exact hf a
    | err e => exact Or.inl rfl
    | panic w => exact Or.inr ⟨w, rfl⟩
  · subst h; exact Or.inr ⟨w, rfl⟩

theorem ref_linkOf (v : Val) : Refines (linkOf v) (Fast.linkOf v) := by
  cases v <;> simp only [linkOf, Fast.linkOf] <;> try exact refines_refl _
  rename_i n c
  by_cases h1 : Fast.builtinTag n = true
  · rw [if_pos h1, if_pos h1]; exact refines_refl _
  · rw [if_neg h1, if_neg h1]
    by_cases h2 : n ≠ 42
    · rw [if_pos h2, if_pos h2]; exact refines_refl _
    · rw [if_neg h2, if_neg h2]
      cases c <;> try exact refines_refl _
      rename_i b
      cases b
      · exact refines_panic _ _
      · exact refines_refl _

theorem ref_linkLoop : ∀ (vs : List Val) (acc : List Cid), Refines (linkLoop acc vs) (Fast.linkLoop acc vs) := by
  intro vs
  induction vs with
  | nil => intro acc; exact refines_refl _
  | cons v vs ih =>
    intro acc
    unfold linkLoop Fast.linkLoop
    rcases ref_linkOf v with h | ⟨w, h⟩
    · rw [h]
      generalize linkOf v = o
      cases o with
      | ok c => exact ih _
      | err e => exact refines_refl _
      | panic w => exact refines_refl _
    · rw [h]
      exact refines_panic _ _

theorem ref_linkList (v : Val) : Refines (linkList v) (Fast.linkList v) := by
  unfold linkList Fast.linkList
  by_cases h : Fast.isNil v = true
  · rw [if_pos h, if_pos h]; exact refines_refl _
  · rw [if_neg h, if_neg h]
    cases v <;> first | exact refines_refl _ | exact ref_linkLoop _ _

theorem ref_reqLinks (arr : List Val) (i : Nat) (n : String) : Refines (reqLinks arr i n) (Fast.reqLinks arr i n) := by
  unfold reqLinks Fast.reqLinks
  generalize Fast.get arr i = o
  cases o with
  | some v => exact ref_linkList _
  | none => exact refines_refl _

theorem ref_dataFrameFromArray (arr : List Val) : Refines (dataFrameFromArray arr) (Fast.dataFrameFromArray arr) := by
  unfold dataFrameFromArray Fast.dataFrameFromArray
  dsimp only
  refine refines_bind (refines_refl _) (fun _ => ?_)
  refine refines_bind (refines_refl _) (fun _ => ?_)
  refine refines_bind (refines_refl _) (fun _ => ?_)
  refine refines_bind (refines_refl _) (fun _ => ?_)
  have hnext : ∀ (data : Bytes) (k : OptN (List Cid) → Outcome DataFrame),
      Refines (match Fast.get arr 5 with
        | some v => linkList v >>= fun l => Outcome.ok (some (some l)) >>= k
        | none => Outcome.ok none >>= k)
       (match Fast.get arr 5 with
        | some v => Fast.linkList v >>= fun l => Outcome.ok (some (some l)) >>= k
        | none => Outcome.ok none >>= k) := by
    intro data k
    generalize Fast.get arr 5 = o
    cases o with
    | some v => exact refines_bind (ref_linkList _) (fun _ => refines_refl _)
    | none => exact refines_refl _
  generalize Fast.get arr 4 = o4
  cases o4 with
  | none => exact refines_refl _
  | some d =>
    cases d <;> first | exact refines_refl _ | exact refines_bind (refines_refl _) (fun b => hnext b _)

theorem ref_nestedDataFrame (arr : List Val) (i : Nat) (n : String) :
    Refines (nestedDataFrame arr i n) (Fast.nestedDataFrame arr i n) := by
  unfold nestedDataFrame Fast.nestedDataFrame
  generalize Fast.get arr i = o
  cases o with
  | none => exact refines_refl _
  | some d => cases d <;> first | exact ref_dataFrameFromArray _ | exact refines_panic _ _

theorem ref_unmarshalDataFrame (v : Val) : Refines (unmarshalDataFrame v) (Fast.unmarshalDataFrame v) :=
  refines_bind (refines_refl _) (fun _ => ref_dataFrameFromArray _)

theorem ref_unmarshalEpoch (v : Val) : Refines (unmarshalEpoch v) (Fast.unmarshalEpoch v) := by
  unfold unmarshalEpoch Fast.unmarshalEpoch
  refine refines_bind (refines_refl _) (fun _ => ?_)
  refine refines_bind (refines_refl _) (fun _ => ?_)
  refine refines_bind (refines_refl _) (fun _ => ?_)
  exact refines_bind (ref_reqLinks _ _ _) (fun _ => refines_refl _)

theorem ref_unmarshalSubset (v : Val) : Refines (unmarshalSubset v) (Fast.unmarshalSubset v) := by
  unfold unmarshalSubset Fast.unmarshalSubset
  refine refines_bind (refines_refl _) (fun _ => ?_)
  refine refines_bind (refines_refl _) (fun _ => ?_)
  refine refines_bind (refines_refl _) (fun _ => ?_)
  refine refines_bind (refines_refl _) (fun _ => ?_)
  exact refines_bind (ref_reqLinks _ _ _) (fun _ => refines_refl _)

theorem ref_unmarshalRewards (v : Val) : Refines (unmarshalRewards v) (Fast.unmarshalRewards v) := by
  unfold unmarshalRewards Fast.unmarshalRewards
  refine refines_bind (refines_refl _) (fun _ => ?_)
  refine refines_bind (refines_refl _) (fun _ => ?_)
  refine refines_bind (refines_refl _) (fun _ => ?_)
  exact refines_bind (ref_nestedDataFrame _ _ _) (fun _ => refines_refl _)

theorem ref_unmarshalTransaction (v : Val) : Refines (unmarshalTransaction v) (Fast.unmarshalTransaction v) := by
  unfold unmarshalTransaction Fast.unmarshalTransaction
  refine refines_bind (refines_refl _) (fun _ => ?_)
  refine refines_bind (refines_refl _) (fun _ => ?_)
  refine refines_bind (ref_nestedDataFrame _ _ _) (fun _ => ?_)
  refine refines_bind (ref_nestedDataFrame _ _ _) (fun _ => ?_)
  exact refines_refl _

theorem ref_unmarshalEntry (v : Val) : Refines (unmarshalEntry v) (Fast.unmarshalEntry v) := by
  unfold unmarshalEntry Fast.unmarshalEntry
  dsimp only
  refine refines_bind (refines_refl _) (fun arr => ?_)
  refine refines_bind (refines_refl _) (fun _ => ?_)
  refine refines_bind (refines_refl _) (fun _ => ?_)
  generalize Fast.get arr 2 = o
  cases o with
  | none => exact refines_refl _
  | some d =>
    cases d <;> first
      | exact refines_panic _ _
      | exact refines_bind (refines_refl _) (fun _ => refines_bind (ref_reqLinks _ _ _) (fun _ => refines_refl _))

macro "ref_step" : tactic => `(tactic| first
  | exact refines_refl _ | exact refines_panic _ _
  | exact ref_linkOf _ | exact ref_linkList _ | exact ref_reqLinks _ _ _
  | (refine refines_bind ?_ (fun _ => ?_)))

theorem ref_unmarshalBlock (v : Val) : Refines (unmarshalBlock v) (Fast.unmarshalBlock v) := by
  unfold unmarshalBlock Fast.unmarshalBlock
  dsimp only
  refine refines_bind (refines_refl _) (fun arr => ?_)
  refine refines_bind (refines_refl _) (fun _ => ?_)
  refine refines_bind (refines_refl _) (fun _ => ?_)
  generalize Fast.get arr 2 = o2
  cases o2 with
  | none => exact refines_refl _
  | some d2 =>
    cases d2 <;> try exact refines_refl _
    refine refines_bind (refines_refl _) (fun _ => ?_)
    refine refines_bind (ref_reqLinks _ _ _) (fun _ => ?_)
    generalize Fast.get arr 4 = o4
    cases o4 with
    | none => exact refines_refl _
    | some d4 =>
      cases d4 <;> try exact refines_panic _ _
      refine refines_bind (refines_refl _) (fun _ => ?_)
      refine refines_bind (refines_refl _) (fun _ => ?_)
      refine refines_bind (refines_refl _) (fun _ => ?_)
      refine refines_bind (refines_refl _) (fun _ => ?_)
      generalize Fast.get arr 5 = o5
      cases o5 with
      | none => exact refines_refl _
      | some r => exact refines_bind (ref_linkOf _) (fun _ => refines_refl _)

theorem ref_checked {α : Type} {x x' : Outcome α} (k : Kind) (g : α → Int) (mk : α → Node) (h : Refines x x') :
    Refines (do let a ← x; Fast.checkKind k (g a); return mk a) (do let a ← x'; Fast.checkKind k (g a); return mk a) :=
  refines_bind h (fun _ => refines_refl _)

/-- the repaired decoders return what the pinned ones return, except where the pinned ones panic -/
theorem ref_decode (k : Kind) (v : Val) : Refines (decode k v) (Fast.decode k v) := by
  cases k <;> unfold decode Fast.decode <;> dsimp only
  · exact ref_checked _ _ _ (ref_unmarshalTransaction v)
  · exact ref_checked _ _ _ (ref_unmarshalEntry v)
  · exact ref_checked _ _ _ (ref_unmarshalBlock v)
  · exact ref_checked _ _ _ (ref_unmarshalSubset v)
  · exact ref_checked _ _ _ (ref_unmarshalEpoch v)
  · exact ref_checked _ _ _ (ref_unmarshalRewards v)
  · exact ref_checked _ _ _ (ref_unmarshalDataFrame v)

/-- the hand-written path of the CURRENT tree from the tree the byte parser would deliver (parser limits first) -/
def decodeLimited (k : Kind) (v : Val) : Outcome Node :=
  if parserAccepts (Cbor.stats 64 v) then decode k v else .err "cbor: exceeded max number of elements / nested levels"

/-- whatever the pinned model decodes successfully the repaired one decodes to the same node -/
theorem decode_ok_of_pinned_ok {k : Kind} {v : Val} {n : Node} (h : Fast.decode k v = .ok n) : decode k v = .ok n := by
  rcases ref_decode k v with h' | ⟨w, h'⟩
  · rw [← h', h]
  · rw [h] at h'; cases h'

theorem decodeLimited_ok_of_pinned_ok {k : Kind} {v : Val} {n : Node} (h : Fast.decodeLimited k v = .ok n) :
    decodeLimited k v = .ok n := by
  unfold Fast.decodeLimited at h; unfold decodeLimited
  split
  · rename_i hp; rw [if_pos hp] at h; exact decode_ok_of_pinned_ok h
  · rename_i hp; rw [if_neg hp] at h; cases h

end FastFixed
end Ledger

namespace B

abbrev Bytes := List UInt8

/-- little-endian encoding of `v` on exactly `w` bytes (Go putUintLe / binary.LittleEndian.PutUintN, truncating) -/
def le : Nat → Nat → Bytes
  | 0, _ => []
  | w+1, v => UInt8.ofNat (v % 256) :: le w (v / 256)

/-- little-endian decoding (Go uintLe) -/
def unle : Bytes → Nat
  | [] => 0
  | b :: rest => b.toNat + 256 * unle rest

theorem le_length (w v : Nat) : (le w v).length = w := by
  induction w generalizing v with
  | zero => rfl
  | succ w ih => simp [le, ih]

theorem unle_le (w v : Nat) : unle (le w v) = v % 256 ^ w := by
  induction w generalizing v with
  | zero => simp [le, unle, Nat.mod_one]
  | succ w ih =>
    simp only [le, unle, ih]
    have h1 : (UInt8.ofNat (v % 256)).toNat = v % 256 := by
      simp [UInt8.toNat_ofNat']
    rw [h1, Nat.pow_succ, Nat.mul_comm (256 ^ w) 256, Nat.mod_mul]

theorem unle_le_of_lt (w v : Nat) (h : v < 256 ^ w) : unle (le w v) = v := by
  rw [unle_le, Nat.mod_eq_of_lt h]

def slice (f : Bytes) (off len : Nat) : Bytes := (f.drop off).take len

theorem slice_append_right (a b : Bytes) (off len : Nat) :
    slice (a ++ b) (a.length + off) len = slice b off len := by
  unfold slice
  rw [← List.drop_drop, List.drop_append_of_le_length (Nat.le_refl _)]
  simp

theorem slice_append_left (a b : Bytes) (off len : Nat) (h : off + len ≤ a.length) :
    slice (a ++ b) off len = slice a off len := by
  unfold slice
  rw [List.drop_append_of_le_length (by omega)]
  rw [List.take_append_of_le_length (by simp [List.length_drop]; omega)]

theorem slice_self (a : Bytes) : slice a 0 a.length = a := by
  unfold slice; simp

/-- total length of the first `i` chunks -/
def prefixLen (l : List Bytes) (i : Nat) : Nat := ((l.take i).map List.length).sum

/-- the `i`-th chunk of a concatenation sits at the sum of the lengths before it -/
theorem slice_flatten_at (l : List Bytes) (i : Nat) (hi : i < l.length) (off len : Nat)
    (h : off + len ≤ l[i].length) :
    slice l.flatten (prefixLen l i + off) len = slice l[i] off len := by
  induction l generalizing i with
  | nil => simp at hi
  | cons x xs ih =>
    cases i with
    | zero =>
      simp only [prefixLen, List.take_zero, List.map_nil, List.sum_nil, Nat.zero_add, List.flatten_cons,
        List.getElem_cons_zero] at h ⊢
      exact slice_append_left x xs.flatten off len h
    | succ j =>
      have hj : j < xs.length := by simpa using hi
      simp only [List.getElem_cons_succ] at h ⊢
      have : prefixLen (x :: xs) (j+1) = x.length + prefixLen xs j := by
        simp [prefixLen]
      rw [this, List.flatten_cons, Nat.add_assoc, slice_append_right]
      exact ih j hj h

/-- fixed-width records: record `i` sits at `w * i` -/
theorem prefixLen_fixed (l : List Bytes) (w : Nat) (hw : ∀ x ∈ l, x.length = w) (i : Nat) (hi : i ≤ l.length) :
    prefixLen l i = w * i := by
  induction l generalizing i with
  | nil => simp at hi; subst hi; simp [prefixLen]
  | cons x xs ih =>
    cases i with
    | zero => simp [prefixLen]
    | succ j =>
      have : prefixLen (x :: xs) (j+1) = x.length + prefixLen xs j := by simp [prefixLen]
      rw [this, hw x (List.mem_cons_self ..), ih (fun y hy => hw y (List.mem_cons_of_mem _ hy)) j (by simpa using hi)]
      rw [Nat.mul_succ]; omega

theorem slice_flatten_fixed (l : List Bytes) (w : Nat) (hw : ∀ x ∈ l, x.length = w) (i : Nat) (hi : i < l.length) :
    slice l.flatten (w * i) w = l[i] := by
  have h1 := slice_flatten_at l i hi 0 w (by rw [hw _ (List.getElem_mem hi)]; omega)
  rw [prefixLen_fixed l w hw i (by omega)] at h1
  simp only [Nat.add_zero] at h1
  rw [h1]
  have := hw _ (List.getElem_mem hi)
  rw [← this]; exact slice_self _

end B

namespace CborLite

abbrev Bytes := List UInt8

/-- CBOR data model (the subset dag-cbor uses: definite lengths, tag 42, no floats needed here) -/
inductive Val where
  | uint  : Nat → Val
  | nint  : Nat → Val          -- value is -1 - n
  | bytes : Bytes → Val
  | text  : Bytes → Val
  | arr   : List Val → Val
  | map   : List (Val × Val) → Val
  | tag   : Nat → Val → Val
  | simple : Nat → Val         -- 20 false, 21 true, 22 null, 23 undefined
  deriving Inhabited

def beNat : Bytes → Nat := fun b => b.foldl (fun acc x => acc * 256 + x.toNat) 0

/-- read the argument of an initial byte: returns (value, rest) -/
def readArg (ai : Nat) (rest : Bytes) : Option (Nat × Bytes) :=
  if ai < 24 then some (ai, rest)
  else
    let w := if ai = 24 then 1 else if ai = 25 then 2 else if ai = 26 then 4 else if ai = 27 then 8 else 0
    if w = 0 then none
    else if rest.length < w then none
    else some (beNat (rest.take w), rest.drop w)

mutual
  /-- decode one item; `fuel` bounds nesting + total items (input length suffices) -/
  def decode : Nat → Bytes → Option (Val × Bytes)
    | 0, _ => none
    | _, [] => none
    | fuel+1, b :: rest =>
      let major := b.toNat / 32
      let ai := b.toNat % 32
      if major = 7 then
        if ai < 24 then some (.simple ai, rest) else none
      else
      match readArg ai rest with
      | none => none
      | some (n, rest) =>
        match major with
        | 0 => some (.uint n, rest)
        | 1 => some (.nint n, rest)
        | 2 => if rest.length < n then none else some (.bytes (rest.take n), rest.drop n)
        | 3 => if rest.length < n then none else some (.text (rest.take n), rest.drop n)
        | 4 => match decodeN fuel n rest with
               | some (vs, rest) => some (.arr vs, rest)
               | none => none
        | 5 => match decodeN fuel (2*n) rest with
               | some (vs, rest) => some (.map (pairs vs), rest)
               | none => none
        | 6 => match decode fuel rest with
               | some (v, rest) => some (.tag n v, rest)
               | none => none
        | _ => none
  def decodeN : Nat → Nat → Bytes → Option (List Val × Bytes)
    | _, 0, rest => some ([], rest)
    | 0, _, _ => none
    | fuel+1, n+1, rest =>
      match decode fuel rest with
      | none => none
      | some (v, rest) =>
        match decodeN fuel n rest with
        | none => none
        | some (vs, rest) => some (v :: vs, rest)
  def pairs : List Val → List (Val × Val)
    | a :: b :: r => (a, b) :: pairs r
    | _ => []
end

def decodeAll (b : Bytes) : Option Val :=
  match decode (b.length + 1) b with
  | some (v, []) => some v
  | _ => none

end CborLite

import Faithful.Lib.Bytes
import Faithful.Lib.Varint
import Faithful.Generated.Consts

/-!
C12 — total models of the repository's own parsers of external data.

Every model maps the input bytes to a `Res α`: an `Outcome` (`ok | err | panic`; there is no `hang` constructor because
every function below is defined by structural or well-founded recursion without fuel, i.e. it terminates) together with
`maxAlloc`, the largest number of bytes a single `make`/`append` of the mirrored Go code requests.

The models mirror the REPAIRED code (fixes/C12-*.patch) line by line; where the pinned code differs, a `…Pinned` variant
is given next to it and the pinned failure is a `decide`-checked witness in `Properties/C12.lean`.

What is a parameter (third-party, exercised by the harness only): the verdict of go-cid on a byte string (`cid : Option Nat`,
the number of bytes it consumes, supplied on the op line), zstd (`z`), xxhash (`h`).
Go runtime facts used: `make` panics with "len out of range" when the requested size exceeds 2^48 bytes (`Res.make`);
indexing / slicing / type assertion failures are `crash`.  Core Lean only.
-/
namespace Px
open B

abbrev Bytes := List UInt8

inductive Outcome (α : Type) where
  | ok (a : α)
  | err (e : String)
  | panic (why : String)
  deriving Repr

def Outcome.isPanic {α : Type} : Outcome α → Bool
  | .panic _ => true
  | _ => false
def Outcome.isOk {α : Type} : Outcome α → Bool
  | .ok _ => true
  | _ => false
def Outcome.cls {α : Type} : Outcome α → String
  | .ok _ => "ok"
  | .err _ => "err"
  | .panic _ => "panic"

structure Res (α : Type) where
  outcome : Outcome α
  maxAlloc : Nat

namespace Res
variable {α β : Type}
def ok (a : α) : Res α := ⟨.ok a, 0⟩
def fail (e : String) : Res α := ⟨.err e, 0⟩
def crash (w : String) : Res α := ⟨.panic w, 0⟩
def bind (x : Res α) (f : α → Res β) : Res β :=
  match x.outcome with
  | .ok a => ⟨(f a).outcome, max x.maxAlloc (f a).maxAlloc⟩
  | .err e => ⟨.err e, x.maxAlloc⟩
  | .panic w => ⟨.panic w, x.maxAlloc⟩
instance : Monad Res where
  pure := ok
  bind := bind

/-- Go `maxAlloc` on 64-bit Linux: a `make` beyond it panics ("makeslice: len out of range") -/
def goMaxAlloc : Nat := 2 ^ 48
/-- `make([]T, n)` with `sz`-byte elements -/
def make (n sz : Nat) : Res Unit :=
  if n * sz > goMaxAlloc then crash "makeslice: len out of range" else ⟨.ok (), n * sz⟩
/-- an allocation whose size the code itself bounds (fixed-size buffers, bufio, append growth) -/
def alloc (n : Nat) : Res Unit := ⟨.ok (), n⟩
/-- lift an `Option` (a read that can only fail with an error) -/
def ofOption (e : String) : Option α → Res α
  | some a => ok a
  | none => fail e

/-- no panic, and no request above `B` bytes -/
def Safe (B : Nat) (r : Res α) : Prop := (∀ w, r.outcome ≠ .panic w) ∧ r.maxAlloc ≤ B

theorem safe_ok (B : Nat) (a : α) : Safe B (ok a) := ⟨fun _ h => (by cases h), Nat.zero_le _⟩
theorem safe_pure (B : Nat) (a : α) : Safe B (pure a : Res α) := safe_ok B a
theorem safe_fail (B : Nat) (e : String) : Safe B (fail e : Res α) := ⟨fun _ h => (by cases h), Nat.zero_le _⟩
theorem safe_alloc {B n : Nat} (h : n ≤ B) : Safe B (alloc n) := ⟨fun _ h' => (by cases h'), h⟩
theorem safe_ofOption (B : Nat) (e : String) (o : Option α) : Safe B (ofOption e o) := by
  cases o with
  | none => exact safe_fail B e
  | some a => exact safe_ok B a
theorem safe_make {B n sz : Nat} (h : n * sz ≤ B) (h2 : n * sz ≤ goMaxAlloc) : Safe B (make n sz) := by
  unfold make
  rw [if_neg (by omega)]
  exact ⟨fun _ h' => (by cases h'), h⟩

theorem safe_bind' {B : Nat} {x : Res α} {f : α → Res β} (hx : Safe B x)
    (hf : ∀ a, x.outcome = .ok a → Safe B (f a)) : Safe B (Res.bind x f) := by
  obtain ⟨hp, ha⟩ := hx
  unfold Res.bind
  cases hxo : x.outcome with
  | ok a =>
    obtain ⟨hp2, ha2⟩ := hf a hxo
    exact ⟨hp2, Nat.max_le.mpr ⟨ha, ha2⟩⟩
  | err e => exact ⟨fun _ h => (by cases h), ha⟩
  | panic w => exact absurd hxo (hp w)

theorem safe_bind {B : Nat} {x : Res α} {f : α → Res β} (hx : Safe B x)
    (hf : ∀ a, x.outcome = .ok a → Safe B (f a)) : Safe B (x >>= f) := safe_bind' hx hf

theorem safe_mono {B B' : Nat} {r : Res α} (h : Safe B r) (hb : B ≤ B') : Safe B' r := ⟨h.1, Nat.le_trans h.2 hb⟩

/-- panic-freedom alone (when no allocation bound is wanted) -/
def NoPanic (r : Res α) : Prop := ∀ w, r.outcome ≠ .panic w
theorem Safe.noPanic {B : Nat} {r : Res α} (h : Safe B r) : NoPanic r := h.1
theorem noPanic_bind {x : Res α} {f : α → Res β} (hx : NoPanic x) (hf : ∀ a, x.outcome = .ok a → NoPanic (f a)) :
    NoPanic (x >>= f) := by
  show NoPanic (Res.bind x f)
  unfold Res.bind
  cases hxo : x.outcome with
  | ok a => exact hf a hxo
  | err e => intro w h; cases h
  | panic w => exact absurd hxo (hx w)

theorem make_ok {n sz : Nat} {u : Unit} (h : (make n sz).outcome = .ok u) : n * sz ≤ goMaxAlloc := by
  unfold make at h
  by_cases hc : n * sz > goMaxAlloc
  · rw [if_pos hc] at h; cases h
  · omega
end Res

open Res

/-! ## little helpers over bytes -/

/-- little-endian value of the `w` bytes at `off` (caller has checked the range) -/
def leAt (f : Bytes) (off w : Nat) : Nat := unle (slice f off w)

/-- Go `io.ReaderAt.ReadAt(buf[len n], off)` on an in-memory file, for the call sites that give up when fewer than
    `n` bytes arrive: the bytes, or `none` -/
def readAt (f : Bytes) (off n : Nat) : Option Bytes :=
  if off + n ≤ f.length then some (slice f off n) else none

theorem readAt_length {f : Bytes} {off n : Nat} {b : Bytes} (h : readAt f off n = some b) : b.length = n := by
  unfold readAt at h
  split at h
  · cases h; simp [slice, List.length_take, List.length_drop]; omega
  · cases h

theorem slice_length_le (f : Bytes) (off n : Nat) : (slice f off n).length ≤ n := by
  simp [slice, List.length_take]; omega

/-! ## indexmeta: `Meta.UnmarshalBinary` / `UnmarshalWithDecoder`, `Get`, `GetUint64` -/

structure KV where
  key : Bytes
  val : Bytes
  deriving Repr, DecidableEq

/-- the `for i := 0; i < numKVs; i++` loop of `UnmarshalWithDecoder`: each round reads a length byte, `make`s and fills the
    key, then the same for the value (an `io.ReadFull` of zero bytes succeeds); returns the pairs and the unread rest -/
def metaLoop : Nat → Bytes → Res (List KV × Bytes)
  | 0, bs => ok ([], bs)
  | n+1, bs =>
    match bs with
    | [] => fail "failed to read key length"
    | kl :: r1 => do
      alloc kl.toNat
      if r1.length < kl.toNat then fail "failed to read key" else
      match r1.drop kl.toNat with
      | [] => fail "failed to read value length"
      | vl :: r3 => do
        alloc vl.toNat
        if r3.length < vl.toNat then fail "failed to read value" else do
        let (kvs, rest) ← metaLoop n (r3.drop vl.toNat)
        ok (⟨r1.take kl.toNat, r3.take vl.toNat⟩ :: kvs, rest)

/-- size of a Go `KV` (two slice headers) -/
def kvSize : Nat := 48

/-- `UnmarshalWithDecoder` on the bytes: count byte, loop; `KeyVals` grows by `append` (at most doubling) -/
def metaDecode (bs : Bytes) : Res (List KV × Bytes) :=
  match bs with
  | [] => fail "failed to read number of key-value pairs"
  | c :: rest => do
    alloc (2 * kvSize * c.toNat)
    metaLoop c.toNat rest

/-- `Meta.UnmarshalBinary`: an empty slice is an empty `Meta` -/
def metaUnmarshal (bs : Bytes) : Res (List KV) :=
  if bs.isEmpty then ok [] else do
    let (kvs, _) ← metaDecode bs
    ok kvs

/-- `Meta.Get`: first value stored under the key -/
def metaGet : List KV → Bytes → Option Bytes
  | [], _ => none
  | kv :: r, k => if kv.key = k then some kv.val else metaGet r k

/-- `Meta.GetUint64` (repaired): a value shorter than 8 bytes is "not there" -/
def metaGetUint64 (m : List KV) (k : Bytes) : Res (Option Nat) :=
  match metaGet m k with
  | none => ok none
  | some v => if v.length < 8 then ok none else ok (some (unle (v.take 8)))

/-- pinned: `binary.LittleEndian.Uint64(value)` without a length check -/
def metaGetUint64Pinned (m : List KV) (k : Bytes) : Res (Option Nat) :=
  match metaGet m k with
  | none => ok none
  | some v => if v.length < 8 then crash "index out of range [7]" else ok (some (unle (v.take 8)))

/-- number of bytes the encoding of the pairs occupies (`len(meta.Bytes())`) -/
def metaByteSize (kvs : List KV) : Nat := 1 + (kvs.map fun kv => 2 + kv.key.length + kv.val.length).sum

theorem metaLoop_safe (n : Nat) (bs : Bytes) : Safe 255 (metaLoop n bs) := by
  induction n generalizing bs with
  | zero => exact safe_ok _ _
  | succ n ih =>
    unfold metaLoop
    split
    · exact safe_fail _ _
    · rename_i kl r1
      refine safe_bind (safe_alloc (by have := kl.toNat_lt; omega)) (fun _ _ => ?_)
      split
      · exact safe_fail _ _
      · split
        · exact safe_fail _ _
        · rename_i vl r3 _
          refine safe_bind (safe_alloc (by have := vl.toNat_lt; omega)) (fun _ _ => ?_)
          split
          · exact safe_fail _ _
          · refine safe_bind (ih _) (fun p _ => ?_)
            exact safe_ok _ _

/-- the largest request of the metadata codec: the `KeyVals` slice for 255 pairs -/
def metaMaxAlloc : Nat := 2 * kvSize * 255

theorem metaDecode_safe (bs : Bytes) : Safe metaMaxAlloc (metaDecode bs) := by
  unfold metaDecode
  split
  · exact safe_fail _ _
  · rename_i c rest
    refine safe_bind (safe_alloc (by have := c.toNat_lt; unfold metaMaxAlloc kvSize; omega)) (fun _ _ => ?_)
    exact safe_mono (metaLoop_safe _ _) (by unfold metaMaxAlloc kvSize; omega)

theorem metaUnmarshal_safe (bs : Bytes) : Safe metaMaxAlloc (metaUnmarshal bs) := by
  unfold metaUnmarshal
  split
  · exact safe_ok _ _
  · refine safe_bind (metaDecode_safe bs) (fun p _ => ?_)
    exact safe_ok _ _

theorem metaGetUint64_safe (m : List KV) (k : Bytes) : Safe 0 (metaGetUint64 m k) := by
  unfold metaGetUint64
  split
  · exact safe_ok _ _
  · split <;> exact safe_ok _ _

/-! ## compactindexsized: `Open`, `Header.Load`, `GetBucket`, `Bucket.Lookup` -/

def ciMagic : Bytes := Generated.compactindexsizedMagic
def ciVersion : Nat := Generated.compactindexsizedVersion
def ciHashSize : Nat := Generated.hashSize
/-- `minHeaderLen`: value size (8), number of buckets (4), version (1) -/
def ciMinHeaderLen : Nat := 8 + 4 + 1
/-- `maxHeaderLen`: the fixed fields followed by the largest metadata section the format can express -/
def ciMaxHeaderLen : Nat :=
  ciMinHeaderLen + 1 + Generated.metaMaxNumKVs * (1 + Generated.metaMaxKeySize + 1 + Generated.metaMaxValueSize)

structure CIHeader where
  valueSize : Nat
  numBuckets : Nat
  kvs : List KV
  headerSize : Nat
  deriving Repr

/-- `Header.Load` (repaired) on the header buffer.  Indexing is explicit: `buf[24]?` is `crash` when out of range. -/
def ciLoad (buf : Bytes) : Res CIHeader :=
  if buf.length < 8 + 4 then fail "invalid header length" else
  if buf.take 8 ≠ ciMagic then fail "not a radiance compactindex file" else
  let l := leAt buf 8 4
  if l < ciMinHeaderLen ∨ l > ciMaxHeaderLen then fail "invalid header length" else
  if l + 8 + 4 > buf.length then fail "invalid header length" else
  let vs := leAt buf 12 8
  let nb := leAt buf 20 4
  match buf[24]? with
  | none => crash "index out of range [24]"
  | some v =>
    if v.toNat ≠ ciVersion then fail "unsupported index version" else do
    let kvs ← metaUnmarshal (buf.drop 25)
    if vs = 0 then fail "value size not set" else
    if nb = 0 then fail "number of buckets not set" else
    ok ⟨vs, nb, kvs, l + 8 + 4⟩

/-- `Open` (repaired): 12 bytes, magic, the length field bounded by what the format can express, then the header -/
def ciOpen (f : Bytes) : Res CIHeader :=
  match readAt f 0 12 with
  | none => fail "short read"
  | some ms =>
    if ms.take 8 ≠ ciMagic then fail "invalid magic" else
    let size := unle (ms.drop 8)
    if size < ciMinHeaderLen ∨ size > ciMaxHeaderLen then fail "invalid header length" else do
    make (8 + 4 + size) 1
    match readAt f 0 (8 + 4 + size) with
    | none => fail "short read"
    | some buf => ciLoad buf

/-- pinned `Header.Load`: slice expressions and `buf[24]` as the Go runtime evaluates them -/
def ciLoadPinned (buf : Bytes) : Res CIHeader :=
  if buf.length < 8 then crash "slice bounds out of range [:8]" else
  if buf.take 8 ≠ ciMagic then fail "not a radiance compactindex file" else
  if buf.length < 12 then crash "slice bounds out of range [:12]" else
  let l := leAt buf 8 4
  if l < 12 then fail "invalid header length" else
  if l > buf.length % 2 ^ 32 then fail "invalid header length" else
  if buf.length < 24 then crash "slice bounds out of range [:24]" else
  match buf[24]? with
  | none => crash "index out of range [24]"
  | some v =>
    if v.toNat ≠ ciVersion then fail "unsupported index version" else do
    let kvs ← metaUnmarshal (buf.drop 25)
    if leAt buf 12 8 = 0 then fail "value size not set" else
    if leAt buf 20 4 = 0 then fail "number of buckets not set" else
    ok ⟨leAt buf 12 8, leAt buf 20 4, kvs, l + 12⟩

/-- pinned `Open`: `make([]byte, 8+4+size)` in uint32 arithmetic, no bound on `size` -/
def ciOpenPinned (f : Bytes) : Res CIHeader :=
  match readAt f 0 12 with
  | none => fail "short read"
  | some ms =>
    if ms.take 8 ≠ ciMagic then fail "invalid magic" else
    let size := unle (ms.drop 8)
    let n := (8 + 4 + size) % 2 ^ 32
    Res.bind (make n 1) fun _ =>
    match readAt f 0 n with
    | none => fail "short read"
    | some buf => ciLoadPinned buf

structure CIBucket where
  hashDomain : Nat
  numEntries : Nat
  hashLen : Nat
  fileOffset : Nat
  stride : Nat
  offsetWidth : Nat
  deriving Repr

/-- `DB.GetBucket(i)` (repaired): index check, value size the uint8 stride can hold, bucket header, hash length -/
def ciGetBucket (f : Bytes) (h : CIHeader) (prefetch : Bool) (i : Nat) : Res CIBucket :=
  if i ≥ h.numBuckets then fail "out of bounds bucket index" else
  if h.valueSize > 255 - ciHashSize then fail "unsupported value size" else
  match readAt f (h.headerSize + i * 16) 16 with
  | none => fail "short read"
  | some b =>
    let bk : CIBucket := ⟨leAt b 0 4, leAt b 4 4, leAt b 8 1, leAt b 10 6, ciHashSize + h.valueSize, h.valueSize⟩
    if bk.hashLen > ciHashSize then fail "invalid bucket header" else do
    if prefetch then alloc (bk.stride * min 3000 bk.numEntries) else ok ()
    ok bk

/-- `Bucket.loadEntry(i)` + `unmarshalEntry`: the slice expressions are explicit -/
def ciLoadEntry (f : Bytes) (bk : CIBucket) (i : Nat) : Res (Nat × Bytes) := do
  alloc bk.stride
  if (i + 1) * bk.stride > bk.numEntries * bk.stride then fail "EOF" else
  match readAt f (bk.fileOffset + i * bk.stride) bk.stride with
  | none => fail "EOF"
  | some buf =>
    if bk.hashLen > buf.length then crash "slice bounds out of range" else do
    alloc bk.offsetWidth
    if bk.hashLen + bk.offsetWidth > buf.length then crash "slice bounds out of range" else
    ok (unle (buf.take bk.hashLen), slice buf bk.hashLen bk.offsetWidth)

/-- `searchEytzinger(0, NumEntries, target, loadEntry)`: the index at least doubles every round -/
def ciSearch (f : Bytes) (bk : CIBucket) (x : Nat) (index : Nat) : Res (Option Bytes) :=
  if h : index < bk.numEntries then
    Res.bind (ciLoadEntry f bk index) fun e =>
      if e.1 = x then ok (some e.2)
      else ciSearch f bk x (2 * index + 1 + (if e.1 < x then 1 else 0))
  else ok none
termination_by bk.numEntries - index
decreasing_by split <;> omega

/-- `DB.Lookup`: `bi` is what `BucketHash(key)` returned, `h64` what `EntryHash64(domain, key)` returns -/
def ciLookup (f : Bytes) (h : CIHeader) (prefetch : Bool) (bi : Nat) (h64 : Nat → Nat) : Res (Option Bytes) := do
  let bk ← ciGetBucket f h prefetch bi
  ciSearch f bk (h64 bk.hashDomain % 2 ^ (8 * bk.hashLen)) 0

theorem ciMaxHeaderLen_val : ciMaxHeaderLen = 130574 := by decide
theorem ciMinHeaderLen_val : ciMinHeaderLen = 13 := by decide

/-- largest request of `Open`: the header buffer -/
def ciOpenMaxAlloc : Nat := 8 + 4 + ciMaxHeaderLen

theorem ciLoad_safe (buf : Bytes) : Safe ciOpenMaxAlloc (ciLoad buf) := by
  unfold ciLoad
  split; · exact safe_fail _ _
  split; · exact safe_fail _ _
  simp only []
  split; · exact safe_fail _ _
  split; · exact safe_fail _ _
  rename_i h1 _ h3 h4
  have hmin := ciMinHeaderLen_val
  have hlen : 24 < buf.length := by omega
  split
  · rename_i hnone
    have := List.getElem?_eq_none_iff.mp hnone
    omega
  · split; · exact safe_fail _ _
    refine safe_bind (safe_mono (metaUnmarshal_safe _) (by unfold metaMaxAlloc kvSize ciOpenMaxAlloc; rw [ciMaxHeaderLen_val]; omega)) (fun _ _ => ?_)
    split; · exact safe_fail _ _
    split; · exact safe_fail _ _
    exact safe_ok _ _

theorem ciOpen_safe (f : Bytes) : Safe ciOpenMaxAlloc (ciOpen f) := by
  unfold ciOpen
  split; · exact safe_fail _ _
  split; · exact safe_fail _ _
  simp only []
  split; · exact safe_fail _ _
  rename_i hsz
  have hmax := ciMaxHeaderLen_val
  refine safe_bind (safe_make (by unfold ciOpenMaxAlloc; omega) (by unfold goMaxAlloc; omega)) (fun _ _ => ?_)
  split; · exact safe_fail _ _
  exact ciLoad_safe _

/-- largest request of a lookup: the prefetch buffer (3000 entries of at most 255 bytes) -/
def ciLookupMaxAlloc : Nat := 255 * 3000

theorem ciGetBucket_safe (f : Bytes) (h : CIHeader) (pf : Bool) (i : Nat) : Safe ciLookupMaxAlloc (ciGetBucket f h pf i) := by
  unfold ciGetBucket
  split; · exact safe_fail _ _
  split; · exact safe_fail _ _
  rename_i hvs
  split; · exact safe_fail _ _
  simp only []
  split; · exact safe_fail _ _
  split
  · refine safe_bind (safe_alloc ?_) (fun _ _ => safe_ok _ _)
    have : ciHashSize = 3 := by decide
    have h1 : ciHashSize + h.valueSize ≤ 255 := by omega
    exact Nat.mul_le_mul h1 (Nat.min_le_left _ _)
  · exact safe_bind (safe_ok _ _) (fun _ _ => safe_ok _ _)

/-- what `GetBucket` guarantees about a bucket handle -/
def CIBucket.WF (bk : CIBucket) : Prop := bk.hashLen ≤ ciHashSize ∧ bk.stride = ciHashSize + bk.offsetWidth ∧ bk.stride ≤ 255

theorem ciGetBucket_wf {f : Bytes} {h : CIHeader} {pf : Bool} {i : Nat} {bk : CIBucket}
    (hok : (ciGetBucket f h pf i).outcome = .ok bk) : bk.WF := by
  unfold ciGetBucket at hok
  split at hok; · cases hok
  split at hok; · cases hok
  split at hok; · cases hok
  simp only [] at hok
  split at hok; · cases hok
  rename_i hvs _ _ _ hhl
  have hh : ciHashSize = 3 := by decide
  split at hok <;>
  · simp only [Bind.bind, Res.bind, alloc, ok] at hok
    cases hok
    refine ⟨?_, rfl, ?_⟩ <;> dsimp only <;> omega

theorem ciLoadEntry_safe (f : Bytes) (bk : CIBucket) (hw : bk.WF) (i : Nat) : Safe ciLookupMaxAlloc (ciLoadEntry f bk i) := by
  obtain ⟨h1, h2, h3⟩ := hw
  have hh : ciHashSize = 3 := by decide
  unfold ciLoadEntry
  refine safe_bind (safe_alloc (by unfold ciLookupMaxAlloc; omega)) (fun _ _ => ?_)
  split; · exact safe_fail _ _
  split; · exact safe_fail _ _
  rename_i buf hrd
  have hl := readAt_length hrd
  split; · omega
  refine safe_bind (safe_alloc (by unfold ciLookupMaxAlloc; omega)) (fun _ _ => ?_)
  split; · omega
  exact safe_ok _ _

theorem ciSearch_safe (f : Bytes) (bk : CIBucket) (hw : bk.WF) (x : Nat) :
    ∀ (d index : Nat), bk.numEntries - index ≤ d → Safe ciLookupMaxAlloc (ciSearch f bk x index) := by
  intro d
  induction d with
  | zero =>
    intro index hd
    unfold ciSearch
    rw [dif_neg (by omega)]
    exact safe_ok _ _
  | succ d ih =>
    intro index hd
    unfold ciSearch
    split
    · refine safe_bind' (ciLoadEntry_safe f bk hw index) (fun e _ => ?_)
      split
      · exact safe_ok _ _
      · apply ih
        split <;> omega
    · exact safe_ok _ _

theorem ciLookup_safe (f : Bytes) (h : CIHeader) (pf : Bool) (bi : Nat) (h64 : Nat → Nat) :
    Safe ciLookupMaxAlloc (ciLookup f h pf bi h64) := by
  unfold ciLookup
  refine safe_bind (ciGetBucket_safe f h pf bi) (fun bk hok => ?_)
  exact ciSearch_safe f bk (ciGetBucket_wf hok) _ _ _ (Nat.le_refl _)

/-! ## Go `binary.Uvarint` / `binary.ReadUvarint` -/

/-- value and number of bytes read, `none` = error (truncated, more than ten bytes, or a tenth byte above 1).
    `i` = bytes already consumed.  The value is `Σ dⱼ·2^(7j)`; `x | uint64(b)<<s` never carries. -/
def goUvarint : Bytes → Nat → Option (Nat × Nat)
  | [], _ => none
  | b :: rest, i =>
    if i ≥ 10 then none
    else if b.toNat < 128 then
      (if i = 9 ∧ b.toNat > 1 then none else some (b.toNat * 2 ^ (7 * i), i + 1))
    else match goUvarint rest (i + 1) with
      | some (v, n) => some ((b.toNat - 128) * 2 ^ (7 * i) + v, n)
      | none => none

theorem goUvarint_spec : ∀ (bs : Bytes) (i v n : Nat), goUvarint bs i = some (v, n) →
    v + 2 ^ (7 * i) ≤ 2 ^ 64 ∧ i < n ∧ n ≤ i + bs.length := by
  intro bs
  induction bs with
  | nil => intro i v n h; simp [goUvarint] at h
  | cons b rest ih =>
    intro i v n h
    unfold goUvarint at h
    split at h; · cases h
    rename_i hi
    have hp : (2:Nat) ^ (7 * (i + 1)) = 128 * 2 ^ (7 * i) := by
      rw [Nat.mul_add, Nat.pow_add]; simp [Nat.mul_comm]
    have hpos : 0 < (2:Nat) ^ (7 * i) := Nat.two_pow_pos _
    have h64 : (2:Nat) ^ 64 = 2 * 2 ^ 63 := by
      rw [show (64:Nat) = 63 + 1 from rfl, Nat.pow_succ, Nat.mul_comm]
    split at h
    · rename_i hb
      split at h; · cases h
      rename_i h9
      cases h
      refine ⟨?_, by omega, by simp⟩
      by_cases hi9 : i = 9
      · have e : (2:Nat) ^ (7 * i) = 2 ^ 63 := by rw [hi9]
        have hb1 : b.toNat ≤ 1 := by omega
        have hm : b.toNat * 2 ^ (7 * i) ≤ 1 * 2 ^ (7 * i) := Nat.mul_le_mul_right _ hb1
        rw [h64, ← e]
        omega
      · have hi8 : 7 * (i + 1) ≤ 63 := by omega
        have h1 : b.toNat * 2 ^ (7 * i) ≤ 127 * 2 ^ (7 * i) := Nat.mul_le_mul_right _ (by omega)
        have h2 : (2:Nat) ^ (7 * (i + 1)) ≤ 2 ^ 63 := Nat.pow_le_pow_right (by omega) hi8
        rw [hp] at h2
        rw [h64]
        generalize (2:Nat) ^ 63 = q at *
        generalize (2:Nat) ^ (7 * i) = p at *
        omega
    · rename_i hb
      split at h
      · rename_i v' n' hrec
        cases h
        obtain ⟨h1, h2, h3⟩ := ih (i + 1) v' n hrec
        refine ⟨?_, by omega, by simp; omega⟩
        have hd : (b.toNat - 128) * 2 ^ (7 * i) ≤ 127 * 2 ^ (7 * i) := Nat.mul_le_mul_right _ (by have := b.toNat_lt; omega)
        rw [hp] at h1
        generalize (2:Nat) ^ 64 = T at *
        generalize (2:Nat) ^ (7 * i) = p at *
        omega
      · cases h

theorem goUvarint_lt (bs : Bytes) (v n : Nat) (h : goUvarint bs 0 = some (v, n)) : v < 2 ^ 64 ∧ 0 < n ∧ n ≤ bs.length := by
  have := goUvarint_spec bs 0 v n h
  simp at this
  omega

/-! ## indexes: `OffsetAndSize.FromBytes`, `OffsetAndSizeSliceFromBytes`, `getDefaultMetadata` -/

/-- `FromBytes`: exactly 9 bytes; `BtoUint48(buf[:6])` and `BtoUint24(buf[6:])` with their `_ = buf[k]` bounds hints -/
def oasFromBytes (buf : Bytes) : Res (Nat × Nat) :=
  if buf.length ≠ 9 then fail "invalid byte slice length" else
  match (buf.take 6)[5]?, (buf.drop 6)[2]? with
  | some _, some _ => do
    alloc 8
    alloc 4
    ok (unle (buf.take 6), unle (buf.drop 6))
  | _, _ => crash "index out of range"

/-- the loop of `OffsetAndSizeSliceFromBytes`: `buf[i*9:(i+1)*9]` is an explicit slice expression -/
def oasLoop : Nat → Bytes → Res (List (Nat × Nat))
  | 0, _ => ok []
  | n+1, bs =>
    if (bs.take 9).length < 9 then crash "slice bounds out of range" else do
    let x ← oasFromBytes (bs.take 9)
    let r ← oasLoop n (bs.drop 9)
    ok (x :: r)

def oasSliceFromBytes (buf : Bytes) : Res (List (Nat × Nat)) :=
  if buf.length % 9 ≠ 0 then fail "invalid byte slice length" else do
  make (buf.length / 9) 16
  oasLoop (buf.length / 9) buf

theorem oasFromBytes_safe (buf : Bytes) : Safe 8 (oasFromBytes buf) := by
  unfold oasFromBytes
  split; · exact safe_fail _ _
  rename_i hl
  have hl : buf.length = 9 := by omega
  split
  · exact safe_bind (safe_alloc (by omega)) (fun _ _ => safe_bind (safe_alloc (by omega)) (fun _ _ => safe_ok _ _))
  · rename_i hno
    exfalso
    have h1 : 5 < (buf.take 6).length := by simp [List.length_take]; omega
    have h2 : 2 < (buf.drop 6).length := by simp [List.length_drop]; omega
    have e1 := List.getElem?_eq_getElem h1
    have e2 := List.getElem?_eq_getElem h2
    exact hno _ _ e1 e2

theorem oasLoop_safe (B : Nat) (hB : 8 ≤ B) : ∀ (n : Nat) (bs : Bytes), 9 * n ≤ bs.length → Safe B (oasLoop n bs) := by
  intro n
  induction n with
  | zero => intro bs _; exact safe_ok _ _
  | succ n ih =>
    intro bs h
    unfold oasLoop
    split
    · rename_i hs; simp [List.length_take] at hs; omega
    refine safe_bind (safe_mono (oasFromBytes_safe _) hB) (fun _ _ => ?_)
    refine safe_bind (ih _ (by simp [List.length_drop]; omega)) (fun _ _ => safe_ok _ _)

/-- a byte string that exists as a Go slice: at most 2^47 bytes (Go itself cannot allocate more than 2^48) -/
def InMemory (bs : Bytes) : Prop := bs.length ≤ 2 ^ 47

theorem oasSliceFromBytes_safe (buf : Bytes) (hm : InMemory buf) : Safe (2 * buf.length + 8) (oasSliceFromBytes buf) := by
  unfold oasSliceFromBytes
  split; · exact safe_fail _ _
  have hd : buf.length / 9 * 9 ≤ buf.length := Nat.div_mul_le_self _ _
  unfold InMemory at hm
  refine safe_bind (safe_make (by omega) (by unfold goMaxAlloc; omega)) (fun _ _ => ?_)
  exact oasLoop_safe _ (by omega) _ _ (by omega)

/-- the metadata keys of indexmeta/keys.go: "kind", "epoch", "rootCid", "network" -/
def keyKind : Bytes := [107, 105, 110, 100]
def keyEpoch : Bytes := [101, 112, 111, 99, 104]
def keyRootCid : Bytes := [114, 111, 111, 116, 67, 105, 100]
def keyNetwork : Bytes := [110, 101, 116, 119, 111, 114, 107]

/-- `getDefaultMetadata` (repaired): kind, epoch (at least 8 bytes), root CID (go-cid's verdict `castOk`), network -/
def defaultMetadata (kvs : List KV) (castOk : Bool) : Res Nat :=
  match metaGet kvs keyKind with
  | none => fail "metadata.kind is empty"
  | some _ =>
    match metaGet kvs keyEpoch with
    | none => fail "metadata.epoch is empty"
    | some e =>
      if e.length < 8 then fail "metadata.epoch has invalid length" else
      match e[7]? with
      | none => crash "index out of range [7]"
      | some _ =>
        match metaGet kvs keyRootCid with
        | none => fail "metadata.rootCid is empty"
        | some _ =>
          if !castOk then fail "invalid cid" else
          match metaGet kvs keyNetwork with
          | none => fail "metadata.network is empty"
          | some _ => ok (unle (e.take 8))

/-- pinned: `BtoUint64(epochBytes)` starts with `_ = buf[7]` -/
def defaultMetadataPinned (kvs : List KV) (castOk : Bool) : Res Nat :=
  match metaGet kvs keyKind with
  | none => fail "metadata.kind is empty"
  | some _ =>
    match metaGet kvs keyEpoch with
    | none => fail "metadata.epoch is empty"
    | some e =>
      match e[7]? with
      | none => crash "index out of range [7]"
      | some _ =>
        match metaGet kvs keyRootCid with
        | none => fail "metadata.rootCid is empty"
        | some _ =>
          if !castOk then fail "invalid cid" else
          match metaGet kvs keyNetwork with
          | none => fail "metadata.network is empty"
          | some _ => ok (unle (e.take 8))

theorem defaultMetadata_safe (kvs : List KV) (c : Bool) : Safe 0 (defaultMetadata kvs c) := by
  unfold defaultMetadata
  split; · exact safe_fail _ _
  split; · exact safe_fail _ _
  split; · exact safe_fail _ _
  rename_i e _ hl
  split
  · rename_i hn
    have := List.getElem?_eq_none_iff.mp hn
    omega
  · split; · exact safe_fail _ _
    split; · exact safe_fail _ _
    split; · exact safe_fail _ _
    exact safe_ok _ _

/-! ## bucketteer: `NewReader` / `readHeader` -/

def bkMagic : Bytes := Generated.bucketteerMagic
def bkVersion : Nat := Generated.bucketteerVersion
/-- `maxHeaderSize`: magic, version, the largest metadata section, the prefix count, one pair per 16-bit prefix -/
def bkMaxHeaderSize : Nat :=
  8 + 8 + (1 + Generated.metaMaxNumKVs * (1 + Generated.metaMaxKeySize + 1 + Generated.metaMaxValueSize)) + 8 + 65536 * (2 + 8)

theorem bkMaxHeaderSize_val : bkMaxHeaderSize = 785945 := by decide

/-- the `for i < numPrefixes` loop: `decoder.Read(prefix[:])` is all-or-nothing, `ReadUint64` needs 8 bytes.
    Accumulator form (constant stack on the 65536 pairs of a real file; lengths are only taken of short prefixes). -/
def bkPrefixAux : Nat → Bytes → List (Nat × Nat) → Option (List (Nat × Nat))
  | 0, _, acc => some acc.reverse
  | n+1, bs, acc =>
    if (bs.take 2).length < 2 then none else
    if ((bs.drop 2).take 8).length < 8 then none else
    bkPrefixAux n (bs.drop 10) ((unle (bs.take 2), unle ((bs.drop 2).take 8)) :: acc)

def bkPrefixLoop (n : Nat) (bs : Bytes) : Res (List (Nat × Nat)) :=
  ofOption "failed to read prefixes / offsets" (bkPrefixAux n bs [])

structure BkHeader where
  table : List (Nat × Nat)
  kvs : List KV
  headerTotal : Nat

/-- two `bucketToOffset` tables of 65536 uint64 -/
def bkLayoutBytes : Nat := 8 * 65536

/-- `NewReader` (repaired): empty check, header size bounded by what the format can express, header decode -/
def bkOpen (f : Bytes) : Res BkHeader := do
  alloc 1
  if f.length = 0 then fail "reader is empty" else do
  alloc bkLayoutBytes
  alloc 4
  match readAt f 0 4 with
  | none => fail "failed to read header size"
  | some szb =>
    let hs := unle szb
    if hs > bkMaxHeaderSize then fail "invalid header size" else do
    make hs 1
    if 4 + hs > f.length ∨ f.length ≤ 4 then fail "failed to read header bytes" else
    let hb := slice f 4 hs
    Res.bind (alloc 8) fun _ =>
    if hb.length < 8 then fail "failed to read magic" else
    if hb.take 8 ≠ bkMagic then fail "invalid magic" else
    if (hb.drop 8).length < 8 then fail "failed to read version" else
    if unle ((hb.drop 8).take 8) ≠ bkVersion then fail "expected version" else do
    let (kvs, rest) ← metaDecode (hb.drop 16)
    if rest.length < 8 then fail "failed to read numPrefixes" else do
    alloc bkLayoutBytes
    let tbl ← bkPrefixLoop (unle (rest.take 8)) (rest.drop 8)
    ok ⟨tbl, kvs, hs + 4⟩

/-- pinned: `make([]byte, headerSize)` for whatever the first four bytes say -/
def bkOpenPinnedAlloc (f : Bytes) : Res Unit := do
  alloc 1
  if f.length = 0 then fail "reader is empty" else do
  match readAt f 0 4 with
  | none => fail "failed to read header size"
  | some szb =>
    make (unle szb) 1
    if 4 + unle szb > f.length ∨ f.length ≤ 4 then fail "failed to read header bytes" else ok ()

theorem bkPrefixLoop_safe (n : Nat) (bs : Bytes) : Safe 0 (bkPrefixLoop n bs) := safe_ofOption _ _ _

def bkOpenMaxAlloc : Nat := bkMaxHeaderSize

theorem bkOpen_safe (f : Bytes) : Safe bkOpenMaxAlloc (bkOpen f) := by
  have hv := bkMaxHeaderSize_val
  unfold bkOpen
  refine safe_bind (safe_alloc (by unfold bkOpenMaxAlloc; omega)) (fun _ _ => ?_)
  split; · exact safe_fail _ _
  refine safe_bind (safe_alloc (by unfold bkOpenMaxAlloc bkLayoutBytes; omega)) (fun _ _ => ?_)
  refine safe_bind (safe_alloc (by unfold bkOpenMaxAlloc; omega)) (fun _ _ => ?_)
  split; · exact safe_fail _ _
  simp only []
  split; · exact safe_fail _ _
  refine safe_bind (safe_make (by unfold bkOpenMaxAlloc; omega) (by unfold goMaxAlloc; omega)) (fun _ _ => ?_)
  split; · exact safe_fail _ _
  refine safe_bind' (safe_alloc (by unfold bkOpenMaxAlloc; omega)) (fun _ _ => ?_)
  split; · exact safe_fail _ _
  split; · exact safe_fail _ _
  split; · exact safe_fail _ _
  split; · exact safe_fail _ _
  refine safe_bind (safe_mono (metaDecode_safe _) (by unfold metaMaxAlloc kvSize bkOpenMaxAlloc; omega)) (fun p _ => ?_)
  split; · exact safe_fail _ _
  refine safe_bind (safe_alloc (by unfold bkOpenMaxAlloc bkLayoutBytes; omega)) (fun _ _ => ?_)
  exact safe_bind (safe_mono (bkPrefixLoop_safe _ _) (Nat.zero_le _)) (fun _ _ => safe_ok _ _)

/-! ## bucketteer: `Reader.Has` -/

/-- `prefixToOffset[prefix]`: the table starts out as all-ones, later pairs overwrite earlier ones -/
def bkFind : List (Nat × Nat) → Nat → Option Nat
  | [], _ => none
  | (p, o) :: rest, q =>
    match bkFind rest q with
    | some r => some r
    | none => if p = q then some o else none

def bkLookup (tbl : List (Nat × Nat)) (q : Nat) : Nat :=
  match bkFind tbl q with
  | some o => o
  | none => 2 ^ 64 - 1

/-- `searchEytzinger(0, numHashes, wanted, readUint64Le(bucketReader, index*8))`: `nbytes` is the size the bucket's
    section reader was given (`numHashes*8` in uint32 arithmetic) -/
def bkSearch (f : Bytes) (start nbytes max x : Nat) (index : Nat) : Res Bool :=
  if _h : index < max then
    Res.bind (alloc 8) fun _ =>
    if index * 8 + 8 > nbytes then fail "EOF" else
    match readAt f (start + index * 8) 8 with
    | none => fail "EOF"
    | some b =>
      if unle b = x then ok true
      else bkSearch f start nbytes max x (2 * index + 1 + (if unle b < x then 1 else 0))
  else ok false
termination_by max - index
decreasing_by split <;> omega

/-- `Has(sig)`: `p` = the first two bytes of the signature as a little-endian number, `wanted` = xxhash64(sig) -/
def bkHas (f : Bytes) (h : BkHeader) (p wanted : Nat) : Res Bool :=
  let offset := bkLookup h.table p
  if offset = 2 ^ 64 - 1 then ok false else do
  alloc 4
  if offset ≥ 2 ^ 63 then fail "EOF" else
  match readAt f (h.headerTotal + offset) 4 with
  | none => fail "EOF"
  | some nb => bkSearch f (h.headerTotal + offset + 4) ((unle nb * 8) % 2 ^ 32) (unle nb) wanted 0

theorem bkSearch_safe (f : Bytes) (start nbytes max x : Nat) :
    ∀ (d index : Nat), max - index ≤ d → Safe 8 (bkSearch f start nbytes max x index) := by
  intro d
  induction d with
  | zero =>
    intro index hd
    unfold bkSearch
    rw [dif_neg (by omega)]
    exact safe_ok _ _
  | succ d ih =>
    intro index hd
    unfold bkSearch
    split
    · refine safe_bind' (safe_alloc (Nat.le_refl _)) (fun _ _ => ?_)
      split; · exact safe_fail _ _
      split; · exact safe_fail _ _
      split
      · exact safe_ok _ _
      · apply ih
        split <;> omega
    · exact safe_ok _ _

theorem bkHas_safe (f : Bytes) (h : BkHeader) (p wanted : Nat) : Safe 8 (bkHas f h p wanted) := by
  unfold bkHas
  simp only []
  split; · exact safe_ok _ _
  refine safe_bind (safe_alloc (by omega)) (fun _ _ => ?_)
  split; · exact safe_fail _ _
  split; · exact safe_fail _ _
  exact bkSearch_safe _ _ _ _ _ _ _ (Nat.le_refl _)

/-! ## blocktimeindex: `unmarshalBinary`, `Get` -/

/-- "blocktimeindex" -/
def btMagic : Bytes := [98, 108, 111, 99, 107, 116, 105, 109, 101, 105, 110, 100, 101, 120]
def epochLen : Nat := Generated.epochLen

structure BT where
  start : Nat
  stop : Nat
  epoch : Nat
  capacity : Nat
  values : List Nat
  deriving Repr

/-- the value loop: `io.ReadFull(reader, timeBuf)` — four bytes or an error;
    written with an accumulator so that the compiled driver runs it in constant stack on a full epoch (432000 values) -/
def btValuesAux : Nat → Bytes → List Nat → Option (List Nat)
  | 0, _, acc => some acc.reverse
  | n+1, bs, acc => if (bs.take 4).length < 4 then none else btValuesAux n (bs.drop 4) (unle (bs.take 4) :: acc)

/-- each round `make`s a 4-byte buffer: one `alloc 4` stands for all of them (only the maximum is recorded) -/
def btValues (n : Nat) (bs : Bytes) : Res (List Nat) := do
  alloc 4
  ofOption "failed to read time" (btValuesAux n bs [])

/-- one header field: `make([]byte, 8)` + `io.ReadFull` (eight bytes or an error) -/
def btField (bs : Bytes) : Res (Nat × Bytes) := do
  alloc 8
  if (bs.take 8).length < 8 then fail "failed to read field" else ok (unle (bs.take 8), bs.drop 8)

/-- `unmarshalBinary`; `checked = true` is the repaired code (capacity compared with the bytes that are left) -/
def btUnmarshalG (checked : Bool) (data : Bytes) : Res BT := do
  alloc 14
  if (data.take 14).length < 14 then fail "failed to read magic" else
  if data.take 14 ≠ btMagic then fail "invalid magic" else do
  let (start, r1) ← btField (data.drop 14)
  let (stop, r2) ← btField r1
  let (epoch, r3) ← btField r2
  if start / epochLen ≠ stop / epochLen then fail "start and end slots must be in the same epoch" else
  if start / epochLen ≠ epoch then fail "epoch mismatch" else do
  let (capacity, r4) ← btField r3
  if checked ∧ capacity > r4.length / 4 then fail "capacity exceeds the data" else do
  make capacity 8
  let values ← btValues capacity r4
  ok ⟨start, stop, epoch, capacity, values⟩

def btUnmarshal := btUnmarshalG true
def btUnmarshalPinned := btUnmarshalG false

/-- `Get(slot)`: `none` = slot-out-of-range error; the index expression is explicit -/
def btGetG (checked : Bool) (i : BT) (slot : Nat) : Res (Option Nat) :=
  if slot < i.start ∨ slot > i.stop then ok none else
  if checked ∧ slot - i.start ≥ i.values.length then ok none else
  match i.values[slot - i.start]? with
  | some v => ok (some v)
  | none => crash "index out of range"

def btGet := btGetG true
def btGetPinned := btGetG false

theorem btValues_safe (n : Nat) (bs : Bytes) : Safe 4 (btValues n bs) := by
  unfold btValues
  exact safe_bind (safe_alloc (Nat.le_refl _)) (fun _ _ => safe_ofOption _ _ _)

theorem btField_safe (bs : Bytes) : Safe 8 (btField bs) := by
  unfold btField
  refine safe_bind (safe_alloc (Nat.le_refl _)) (fun _ _ => ?_)
  split
  · exact safe_fail _ _
  · exact safe_ok _ _

theorem btField_rest {bs : Bytes} {v : Nat} {r : Bytes} (h : (btField bs).outcome = .ok (v, r)) : r.length ≤ bs.length := by
  unfold btField at h
  simp only [Bind.bind, Res.bind, alloc] at h
  split at h
  · cases h
  · simp only [ok] at h
    cases h
    simp [List.length_drop]

theorem btUnmarshal_safe (data : Bytes) (hm : InMemory data) : Safe (2 * data.length + 14) (btUnmarshal data) := by
  unfold btUnmarshal btUnmarshalG
  refine safe_bind (safe_alloc (by omega)) (fun _ _ => ?_)
  split; · exact safe_fail _ _
  split; · exact safe_fail _ _
  refine safe_bind (safe_mono (btField_safe _) (by omega)) (fun p1 h1 => ?_)
  obtain ⟨start, r1⟩ := p1
  refine safe_bind (safe_mono (btField_safe _) (by omega)) (fun p2 h2 => ?_)
  obtain ⟨stop, r2⟩ := p2
  refine safe_bind (safe_mono (btField_safe _) (by omega)) (fun p3 h3 => ?_)
  obtain ⟨epoch, r3⟩ := p3
  simp only []
  split; · exact safe_fail _ _
  split; · exact safe_fail _ _
  refine safe_bind (safe_mono (btField_safe _) (by omega)) (fun p4 h4 => ?_)
  obtain ⟨capacity, r4⟩ := p4
  simp only []
  split; · exact safe_fail _ _
  rename_i hcap
  have l1 := btField_rest h1
  have l2 := btField_rest h2
  have l3 := btField_rest h3
  have l4 := btField_rest h4
  have ld : (data.drop 14).length ≤ data.length := by simp [List.length_drop]
  have hc : capacity ≤ r4.length / 4 := by simpa using hcap
  have hc4 : capacity * 4 ≤ r4.length := by
    have := Nat.div_mul_le_self r4.length 4
    have := Nat.mul_le_mul_right 4 hc
    omega
  unfold InMemory at hm
  refine safe_bind (safe_make (by omega) (by unfold goMaxAlloc; omega)) (fun _ _ => ?_)
  exact safe_bind (safe_mono (btValues_safe _ _) (by omega)) (fun _ _ => safe_ok _ _)

theorem btGet_safe (i : BT) (slot : Nat) : Safe 0 (btGet i slot) := by
  unfold btGet btGetG
  split; · exact safe_ok _ _
  split; · exact safe_ok _ _
  rename_i h
  split
  · exact safe_ok _ _
  · rename_i hn
    have := List.getElem?_eq_none_iff.mp hn
    simp at h
    omega

/-! ## CAR sections: `ReadSectionLength`, `ReadNodeInfoWithData`, `ReadNodeInfoWithoutData`, `parseNodeFromSection`,
`readNodeSizeFromReaderAtWithOffset`.  `cidLen` is go-cid's `CidFromReader` on the bytes it is handed: the number of
bytes it consumed, or `none`; the only fact used about it is `CidSpec`: it consumes no more than it was given. -/

/-- go-car `util.MaxAllowedSectionSize` -/
def maxSection : Nat := 32 * 2 ^ 20
/-- the caller's `bufio.Reader` -/
def bufioSize : Nat := 4096

def CidSpec (cidLen : Bytes → Option Nat) : Prop := ∀ b n, cidLen b = some n → n ≤ b.length

/-- `ReadSectionLength`: `Peek(1)`, `binary.ReadUvarint`, the section limit; returns (length, width of the prefix) -/
def readSectionLength (bs : Bytes) : Res (Nat × Nat) :=
  if bs.isEmpty then fail "failed to peek" else
  match goUvarint bs 0 with
  | none => fail "bad uvarint"
  | some (l, n) => if l > maxSection then fail "malformed car; header is bigger than util.MaxAllowedSectionSize" else ok (l, n)

/-- `ReadNodeInfoWithData`; `checked = true` is the repaired code. Result: (section length incl. prefix, data length) -/
def readNodeInfoWithDataG (checked : Bool) (cidLen : Bytes → Option Nat) (bs : Bytes) : Res (Nat × Nat) := do
  alloc bufioSize
  let (l, n) ← readSectionLength bs
  match cidLen (bs.drop n) with
  | none => fail "failed to read cid"
  | some cl =>
    if checked ∧ l < cl then fail "malformed car; section length is smaller than the length of its CID" else
    -- `make([]byte, int64(sectionLen) - int64(cidLen))`: a negative length panics
    if l < cl then crash "makeslice: len out of range" else do
    make (l - cl) 1
    if (bs.drop (n + cl)).length < l - cl then fail "failed to read block" else ok (l + n, l - cl)

def readNodeInfoWithData := readNodeInfoWithDataG true
def readNodeInfoWithDataPinned := readNodeInfoWithDataG false

/-- `ReadNodeInfoWithoutData` (repaired): same checks, the data is skipped with `io.CopyN` -/
def readNodeInfoWithoutData (cidLen : Bytes → Option Nat) (bs : Bytes) : Res Nat := do
  alloc bufioSize
  let (l, n) ← readSectionLength bs
  match cidLen (bs.drop n) with
  | none => fail "failed to read cid"
  | some cl =>
    if l < cl then fail "malformed car; section length is smaller than the length of its CID" else
    if (bs.drop (n + cl)).length < l - cl then fail "EOF" else ok (l + n)

theorem readSectionLength_safe (bs : Bytes) : Safe 0 (readSectionLength bs) := by
  unfold readSectionLength
  split; · exact safe_fail _ _
  split; · exact safe_fail _ _
  split
  · exact safe_fail _ _
  · exact safe_ok _ _

theorem readSectionLength_le {bs : Bytes} {l n : Nat} (h : (readSectionLength bs).outcome = .ok (l, n)) : l ≤ maxSection := by
  unfold readSectionLength at h
  split at h; · cases h
  split at h; · cases h
  split at h
  · cases h
  · simp only [ok] at h
    cases h
    omega

/-- the largest request of a section read: the section limit (the input length does not enter) -/
def sectionMaxAlloc : Nat := maxSection + bufioSize

theorem readNodeInfoWithData_safe (cidLen : Bytes → Option Nat) (bs : Bytes) :
    Safe sectionMaxAlloc (readNodeInfoWithData cidLen bs) := by
  unfold readNodeInfoWithData readNodeInfoWithDataG
  refine safe_bind (safe_alloc (by unfold sectionMaxAlloc; omega)) (fun _ _ => ?_)
  refine safe_bind (safe_mono (readSectionLength_safe bs) (Nat.zero_le _)) (fun p hp => ?_)
  obtain ⟨l, n⟩ := p
  have hl := readSectionLength_le hp
  simp only []
  split; · exact safe_fail _ _
  split; · exact safe_fail _ _
  rename_i h1
  split
  · rename_i h2; simp at h1; omega
  · have : maxSection = 33554432 := by decide
    refine safe_bind (safe_make (by unfold sectionMaxAlloc; omega) (by unfold goMaxAlloc; omega)) (fun _ _ => ?_)
    split
    · exact safe_fail _ _
    · exact safe_ok _ _

theorem readNodeInfoWithoutData_safe (cidLen : Bytes → Option Nat) (bs : Bytes) :
    Safe sectionMaxAlloc (readNodeInfoWithoutData cidLen bs) := by
  unfold readNodeInfoWithoutData
  refine safe_bind (safe_alloc (by unfold sectionMaxAlloc; omega)) (fun _ _ => ?_)
  refine safe_bind (safe_mono (readSectionLength_safe bs) (Nat.zero_le _)) (fun p _ => ?_)
  obtain ⟨l, n⟩ := p
  simp only []
  split; · exact safe_fail _ _
  split; · exact safe_fail _ _
  split
  · exact safe_fail _ _
  · exact safe_ok _ _

/-- `parseNodeFromSection(section, wantedCid)`: uvarint, section limit, CID, comparison with the wanted CID
    (`want = none`: no comparison), then the slice expression `data[cidLen:]`.  Result: length of the object. -/
def parseNodeFromSection (cidLen : Bytes → Option Nat) (sec : Bytes) (want : Option Bytes) : Res Nat :=
  match goUvarint sec 0 with
  | none => fail "failed to decode uvarint"
  | some (gotLen, usize) =>
    if gotLen > maxSection then fail "malformed car; header is bigger than util.MaxAllowedSectionSize" else
    let data := sec.drop usize
    match cidLen data with
    | none => fail "failed to read cid"
    | some cl =>
      if want.isSome ∧ want ≠ some (data.take cl) then fail "CID mismatch" else
      if cl > data.length then crash "slice bounds out of range" else ok (data.drop cl).length

theorem parseNodeFromSection_safe (cidLen : Bytes → Option Nat) (hc : CidSpec cidLen) (sec : Bytes) (want : Option Bytes) :
    Safe 0 (parseNodeFromSection cidLen sec want) := by
  unfold parseNodeFromSection
  split; · exact safe_fail _ _
  split; · exact safe_fail _ _
  simp only []
  split; · exact safe_fail _ _
  rename_i cl hcl
  split; · exact safe_fail _ _
  split
  · have := hc _ _ hcl; omega
  · exact safe_ok _ _

/-- `readNodeFromReaderAtWithOffsetAndSize(reader, nil, offset, length)`: `length` bytes at `offset` (the values an
    index entry holds), then `parseNodeFromSection` -/
def readNodeAt (cidLen : Bytes → Option Nat) (f : Bytes) (off len : Nat) : Res Nat := do
  make len 1
  if off ≥ 2 ^ 63 then fail "negative offset" else
  if off + len > f.length ∨ off ≥ f.length then fail "EOF" else
  parseNodeFromSection cidLen (slice f off len) none

theorem readNodeAt_safe (cidLen : Bytes → Option Nat) (hc : CidSpec cidLen) (f : Bytes) (off len : Nat) (hl : len ≤ goMaxAlloc) :
    Safe len (readNodeAt cidLen f off len) := by
  unfold readNodeAt
  refine safe_bind (safe_make (by omega) (by omega)) (fun _ _ => ?_)
  split; · exact safe_fail _ _
  split; · exact safe_fail _ _
  exact safe_mono (parseNodeFromSection_safe cidLen hc _ _) (Nat.zero_le _)

/-- `readNodeSizeFromReaderAtWithOffset`: ten bytes at the offset (a short read is an error), `binary.Uvarint`, and
    `dataLen += uint64(n)` in uint64 arithmetic — unchecked: `n` is 0 when all ten bytes carry the continuation bit
    (the result is then 0) and −10 when the tenth byte overflows (the sum is then far above the section limit); a
    ten-byte encoding of a value near 2^64 wraps around to a small number.  Then the section limit. -/
def readNodeSize (f : Bytes) (off : Nat) : Res Nat := do
  alloc 10
  if off ≥ 2 ^ 63 then fail "negative offset" else
  match readAt f off 10 with
  | none => fail "EOF"
  | some lb =>
    let dataLen := match goUvarint lb 0 with
      | some (v, n) => (v + n) % 2 ^ 64
      | none => if lb.all (fun b => b.toNat ≥ 128) then 0 else 2 ^ 64 - 10
    if dataLen > maxSection then fail "malformed car; header is bigger than util.MaxAllowedSectionSize" else ok dataLen

theorem readNodeSize_safe (f : Bytes) (off : Nat) : Safe 10 (readNodeSize f off) := by
  unfold readNodeSize
  refine safe_bind (safe_alloc (Nat.le_refl _)) (fun _ _ => ?_)
  split; · exact safe_fail _ _
  split; · exact safe_fail _ _
  simp only []
  split <;> split <;> first | exact safe_fail _ _ | exact safe_ok _ _

/-! ## the kind byte `data[1]` -/

/-- `iplddecoders.GetKind` (what every dispatch site uses after the repair) -/
def getKind (data : Bytes) : Res Nat :=
  if data.length = 0 then fail "empty bytes" else
  if data.length < 2 then fail "not enough bytes" else
  match data[1]? with
  | some k => ok k.toNat
  | none => crash "index out of range [1]"

/-- pinned dispatch sites: `iplddecoders.Kind(data[1])` -/
def kindPinned (data : Bytes) : Res Nat :=
  match data[1]? with
  | some k => ok k.toNat
  | none => crash "index out of range [1]"

theorem getKind_safe (data : Bytes) : Safe 0 (getKind data) := by
  unfold getKind
  split; · exact safe_fail _ _
  split; · exact safe_fail _ _
  split
  · exact safe_ok _ _
  · rename_i hn
    have := List.getElem?_eq_none_iff.mp hn
    omega

/-! ## `readFirstSignature` (index-sig-to-cid.go): compact-u16 count, then 64 bytes -/

/-- gagliardetto/binary `DecodeCompactU16`, before the range check: value and number of bytes -/
def cu16 : Bytes → Nat → Option (Nat × Nat)
  | [], _ => none
  | b :: rest, nth =>
    if nth ≥ 3 then none
    else if b.toNat = 0 ∧ nth ≠ 0 then none
    else if nth = 2 ∧ b.toNat ≥ 128 then none
    else if b.toNat < 128 then some (b.toNat * 2 ^ (7 * nth), nth + 1)
    else match cu16 rest (nth + 1) with
      | some (v, n) => some ((b.toNat - 128) * 2 ^ (7 * nth) + v, n)
      | none => none

def compactU16 (bs : Bytes) : Option (Nat × Nat) :=
  match cu16 bs 0 with
  | some (v, n) => if v > 65535 then none else some (v, n)
  | none => none

/-- `readFirstSignature`: the count must decode and be non-zero; `decoder.Read(sig[:])` is all-or-nothing -/
def readFirstSignature (buf : Bytes) : Res Bytes :=
  match compactU16 buf with
  | none => fail "bad compact-u16"
  | some (numSigs, size) =>
    if numSigs = 0 then fail "no signatures" else do
    alloc 64
    if (buf.drop size).length < 64 then fail "short buffer" else ok ((buf.drop size).take 64)

theorem readFirstSignature_safe (buf : Bytes) : Safe 64 (readFirstSignature buf) := by
  unfold readFirstSignature
  split; · exact safe_fail _ _
  split; · exact safe_fail _ _
  refine safe_bind (safe_alloc (Nat.le_refl _)) (fun _ _ => ?_)
  split
  · exact safe_fail _ _
  · exact safe_ok _ _

/-! ## gsfa linked log: `Read`, `ReadWithSize` framing (after fixes C06-2 and C12), entry lists -/

def llMaxRecord : Nat := 256 * 2 ^ 20

/-- the framing part of `ReadWithSize(offset, size)`: the zstd payload and the pointer to the previous record.
    `checked = true` has the comparison with the file size (fix C12); `size` is a uint64. -/
def llFrameG (checked : Bool) (f : Bytes) (off size : Nat) : Res (Bytes × (Nat × Nat)) :=
  if size > llMaxRecord then fail "compacted indexes length too large" else
  if checked ∧ (off > f.length ∨ size > f.length - off) then fail "record exceeds the file size" else do
  make size 1
  -- `s.file.ReadAt(record, int64(offset))`: a negative offset or a short read is an error
  if off ≥ 2 ^ 63 then fail "negative offset" else
  match readAt f off size with
  | none => fail "EOF"
  | some record =>
    match goUvarint record 0 with
    | none => fail "invalid record"
    | some (payloadLen, n) =>
      if (n + payloadLen) % 2 ^ 64 ≠ size ∨ payloadLen < 9 then fail "invalid record" else
      let data := record.drop n
      -- `data[:len(data)-9]` and `data[len(data)-9:]`
      if data.length < 9 then crash "slice bounds out of range" else do
      let next ← oasFromBytes (data.drop (data.length - 9))
      ok (data.take (data.length - 9), next)

def llFrame := llFrameG true

/-- `Read(offset)`: ten bytes at the offset, `binary.Uvarint`, then `ReadWithSize(offset, n + payloadLen)` (uint64 sum) -/
def llRead (f : Bytes) (off : Nat) : Res (Bytes × (Nat × Nat)) := do
  alloc 10
  if off ≥ 2 ^ 63 then fail "negative offset" else
  match readAt f off 10 with
  | none => fail "EOF"
  | some lb =>
    match goUvarint lb 0 with
    | none => fail "invalid compacted indexes length"
    | some (l, n) => llFrame f off ((n + l) % 2 ^ 64)

theorem llFrame_safe (f : Bytes) (off size : Nat) : Safe (f.length + 10) (llFrame f off size) := by
  unfold llFrame llFrameG
  split; · exact safe_fail _ _
  split; · exact safe_fail _ _
  rename_i hbig hchk
  have hchk' : off ≤ f.length ∧ size ≤ f.length - off := by simp at hchk; omega
  have hlm : llMaxRecord = 268435456 := by decide
  refine safe_bind (safe_make (by omega) (by unfold goMaxAlloc; omega)) (fun _ _ => ?_)
  split; · exact safe_fail _ _
  split; · exact safe_fail _ _
  rename_i record hrd
  have hrl := readAt_length hrd
  split; · exact safe_fail _ _
  rename_i pl n hu
  obtain ⟨hv, hn0, hnl⟩ := goUvarint_lt _ _ _ hu
  split; · exact safe_fail _ _
  rename_i hcond
  simp only []
  split
  · rename_i hshort
    exfalso
    have hsum : (n + pl) % 2 ^ 64 = size ∧ 9 ≤ pl := by omega
    have hlen : (record.drop n).length = record.length - n := List.length_drop
    rw [hlen] at hshort
    -- n + pl < 2^64 + 10, so the sum either did not wrap (then pl = size - n ≥ 9) or wrapped to less than n ≤ size
    have h64 : (2:Nat) ^ 64 = 18446744073709551616 := by decide
    by_cases hw : n + pl < 2 ^ 64
    · rw [Nat.mod_eq_of_lt hw] at hsum; omega
    · have : (n + pl) % 2 ^ 64 = n + pl - 2 ^ 64 := by
        rw [Nat.mod_eq_sub_mod (by omega), Nat.mod_eq_of_lt (by omega)]
      omega
  · refine safe_bind (safe_mono (oasFromBytes_safe _) (by omega)) (fun _ _ => safe_ok _ _)

theorem llRead_safe (f : Bytes) (off : Nat) : Safe (f.length + 10) (llRead f off) := by
  unfold llRead
  refine safe_bind (safe_alloc (by omega)) (fun _ _ => ?_)
  split; · exact safe_fail _ _
  split; · exact safe_fail _ _
  split; · exact safe_fail _ _
  exact llFrame_safe _ _ _

/-- one field of an entry: `uvarintReader.ReadUvarint` -/
inductive Rd (α : Type) where
  | eof
  | bad
  | got (a : α) (rest : Bytes)

def rdUvarint (bs : Bytes) : Rd Nat :=
  if bs.isEmpty then .eof else
  match goUvarint bs 0 with
  | none => .bad
  | some (v, n) => .got v (bs.drop n)

structure Entry3 where
  offset : Nat
  size : Nat
  slot : Nat
  flags : Nat
  deriving Repr

/-- `OffsetAndSizeAndSlot.FromReader`: three uvarints and a flag byte -/
def rdEntry (bs : Bytes) : Rd Entry3 :=
  match rdUvarint bs with
  | .eof => .eof
  | .bad => .bad
  | .got o r1 =>
    match rdUvarint r1 with
    | .eof => .eof
    | .bad => .bad
    | .got sz r2 =>
      match rdUvarint r2 with
      | .eof => .eof
      | .bad => .bad
      | .got sl r3 =>
        match r3 with
        | [] => .eof
        | fl :: r4 => .got ⟨o, sz, sl, fl.toNat⟩ r4

theorem rdUvarint_rest {bs : Bytes} {v : Nat} {r : Bytes} (h : rdUvarint bs = .got v r) : r.length < bs.length := by
  unfold rdUvarint at h
  split at h; · cases h
  split at h; · cases h
  rename_i v' n hu
  cases h
  obtain ⟨_, h0, hl⟩ := goUvarint_lt _ _ _ hu
  simp [List.length_drop]; omega

theorem rdEntry_rest {bs : Bytes} {e : Entry3} {r : Bytes} (h : rdEntry bs = .got e r) : r.length + 4 ≤ bs.length := by
  unfold rdEntry at h
  split at h; · cases h
  · cases h
  rename_i o r1 h1
  split at h; · cases h
  · cases h
  rename_i sz r2 h2
  split at h; · cases h
  · cases h
  rename_i sl r3 h3
  split at h; · cases h
  rename_i fl r4
  cases h
  have := rdUvarint_rest h1
  have := rdUvarint_rest h2
  have := rdUvarint_rest h3
  simp at *
  omega

/-- size of a Go `OffsetAndSizeAndSlot` -/
def entry3Size : Nat := 32

/-- `OffsetAndSizeAndSlotSliceFromBytes`: entries until the reader reports EOF — also in the middle of an entry,
    which is then dropped without an error —; any other decoding error fails the call.  `k` = entries so far
    (`append` at most doubles the slice). -/
def entryLoop (k : Nat) (bs : Bytes) : Res (List Entry3) :=
  match h : rdEntry bs with
  | .eof => ok []
  | .bad => fail "failed to parse offset and size"
  | .got e rest =>
    have : rest.length < bs.length := by have := rdEntry_rest h; omega
    Res.bind (alloc (2 * entry3Size * (k + 1))) fun _ =>
    Res.bind (entryLoop (k + 1) rest) fun r => ok (e :: r)
termination_by bs.length

def entriesFromBytes (bs : Bytes) : Res (List Entry3) := entryLoop 0 bs

theorem entryLoop_safe : ∀ (d : Nat) (k : Nat) (bs : Bytes), bs.length ≤ d →
    Safe (2 * entry3Size * (k + bs.length + 1)) (entryLoop k bs) := by
  intro d
  induction d with
  | zero =>
    intro k bs hd
    unfold entryLoop
    split
    · exact safe_ok _ _
    · exact safe_fail _ _
    · rename_i e rest h
      have := rdEntry_rest h
      omega
  | succ d ih =>
    intro k bs hd
    unfold entryLoop
    split
    · exact safe_ok _ _
    · exact safe_fail _ _
    · rename_i e rest h
      have hr := rdEntry_rest h
      refine safe_bind' (safe_alloc (by unfold entry3Size; omega)) (fun _ _ => ?_)
      refine safe_bind' (safe_mono (ih (k + 1) rest (by omega)) (by unfold entry3Size; omega)) (fun _ _ => safe_ok _ _)

theorem entriesFromBytes_safe (bs : Bytes) : Safe (64 * bs.length + 64) (entriesFromBytes bs) := by
  unfold entriesFromBytes
  have := entryLoop_safe bs.length 0 bs (Nat.le_refl _)
  unfold entry3Size at this
  exact safe_mono this (by omega)

/-- `OffsetAndSizeAndSlot.FromBytes` (a single entry): at most 30 bytes, three uvarints, then `buf[0]` guarded by a
    length check -/
def entryFromBytes (buf : Bytes) : Res Entry3 :=
  if buf.length > 30 then fail "invalid byte slice length" else
  match goUvarint buf 0 with
  | none => fail "failed to parse offset"
  | some (o, n1) =>
    match goUvarint (buf.drop n1) 0 with
    | none => fail "failed to parse size"
    | some (sz, n2) =>
      match goUvarint ((buf.drop n1).drop n2) 0 with
      | none => fail "failed to parse slot"
      | some (sl, n3) =>
        let r := ((buf.drop n1).drop n2).drop n3
        if r.length = 0 then fail "missing flags" else
        match r[0]? with
        | some fl => ok ⟨o, sz, sl, fl.toNat⟩
        | none => crash "index out of range [0]"

theorem entryFromBytes_safe (buf : Bytes) : Safe 0 (entryFromBytes buf) := by
  unfold entryFromBytes
  split; · exact safe_fail _ _
  split; · exact safe_fail _ _
  split; · exact safe_fail _ _
  split; · exact safe_fail _ _
  simp only []
  split; · exact safe_fail _ _
  split
  · exact safe_ok _ _
  · rename_i hn
    have := List.getElem?_eq_none_iff.mp hn
    omega

/-- `ReadWithSize` end to end, zstd as a parameter (`none` = the decoder rejects the payload) -/
def llReadWithSize (z : Bytes → Option Bytes) (f : Bytes) (off size : Nat) : Res (List Entry3 × (Nat × Nat)) := do
  let (payload, next) ← llFrame f off size
  match z payload with
  | none => fail "error while decompressing indexes"
  | some raw => do
    let es ← entriesFromBytes raw
    ok (es, next)

/-! ## gsfa manifest: `NewManifest` on an existing file (`readHeader`, version and size checks), `ReadAll` -/

/-- "gsfamnfs" -/
def mfMagic : Bytes := [103, 115, 102, 97, 109, 110, 102, 115]
def mfVersion : Nat := 5

/-- the bytes the metadata loop leaves are what follows the encoded pairs -/
theorem metaLoop_consumed : ∀ (n : Nat) (bs : Bytes) (kvs : List KV) (rest : Bytes),
    (metaLoop n bs).outcome = .ok (kvs, rest) →
    rest.length + (kvs.map fun kv => 2 + kv.key.length + kv.val.length).sum = bs.length := by
  intro n
  induction n with
  | zero =>
    intro bs kvs rest h
    simp only [metaLoop, ok] at h
    cases h
    simp
  | succ n ih =>
    intro bs kvs rest h
    unfold metaLoop at h
    split at h; · cases h
    rename_i kl r1
    simp only [Bind.bind, Res.bind, alloc] at h
    split at h; · cases h
    rename_i hk
    split at h; · cases h
    rename_i vl r3 hd
    split at h; · cases h
    rename_i hv
    split at h
    · rename_i p hp
      obtain ⟨kvs', rest'⟩ := p
      simp only [ok] at h
      cases h
      have := ih _ _ _ hp
      have hl1 : (r1.drop kl.toNat).length = r1.length - kl.toNat := List.length_drop
      rw [hd] at hl1
      simp [List.length_take, List.length_drop] at *
      omega
    · cases h
    · cases h

/-- `readHeader` for version ≥ 2: the metadata through a `bufio.Reader`, then `len(meta.Bytes())` -/
def mfMetaBytes (f : Bytes) (version : Nat) : Res Nat :=
  if version ≥ 2 then do
    alloc bufioSize
    let (kvs, _) ← metaDecode (f.drop 16)
    alloc (metaByteSize kvs)          -- `meta.Bytes()`
    ok (metaByteSize kvs)
  else ok 0

/-- `NewManifest(file, _)` + `ReadAll()`: number of (key, value) tuples; an empty file is a fresh manifest -/
def mfOpen (f : Bytes) : Res Nat :=
  if f.length = 0 then ok 0 else do
  alloc 8
  if f.length < 8 then fail "EOF" else
  if f.take 8 ≠ mfMagic then fail "this is not a gsfa manifest file" else do
  alloc 8
  if (f.drop 8).length < 8 then fail "EOF" else
  let version := unle ((f.drop 8).take 8)
  Res.bind (mfMetaBytes f version) fun metaBytes =>
  if version ≠ mfVersion then fail "unsupported manifest version" else
  -- `currentFileSize - headerLenWithoutMeta - metaByteSize` is an int64: explicit when it would be negative
  if f.length < 16 + metaBytes then crash "makeslice: cap out of range" else
  let dataSize := f.length - 16 - metaBytes
  if dataSize % 16 ≠ 0 then fail "manifest is corrupt" else do
  alloc 16
  make (dataSize / 16) 16
  ok (dataSize / 16)

theorem metaDecode_consumed {bs : Bytes} {kvs : List KV} {rest : Bytes} (h : (metaDecode bs).outcome = .ok (kvs, rest)) :
    rest.length + metaByteSize kvs = bs.length := by
  unfold metaDecode at h
  split at h; · cases h
  rename_i c r
  simp only [Bind.bind, Res.bind, alloc] at h
  have := metaLoop_consumed _ _ _ _ h
  unfold metaByteSize
  simp at *
  omega

/-- constant part of the manifest's allocation bound: the metadata slice and the `bufio.Reader` -/
def mfConst : Nat := metaMaxAlloc + bufioSize

theorem mfMetaBytes_safe (f : Bytes) (v : Nat) : Safe (f.length + mfConst) (mfMetaBytes f v) := by
  unfold mfMetaBytes
  have hdrop : (f.drop 16).length = f.length - 16 := List.length_drop
  have hc : mfConst = 24480 + 4096 := by decide
  split
  · refine safe_bind (safe_alloc (by unfold bufioSize; omega)) (fun _ _ => ?_)
    refine safe_bind (safe_mono (metaDecode_safe _) (by unfold metaMaxAlloc kvSize; omega)) (fun p hp => ?_)
    obtain ⟨kvs, rest⟩ := p
    have := metaDecode_consumed hp
    simp only []
    refine safe_bind (safe_alloc (by omega)) (fun _ _ => safe_ok _ _)
  · exact safe_ok _ _

/-- the re-encoded metadata is exactly what was read from the file after the 16 fixed bytes -/
theorem mfMetaBytes_le {f : Bytes} {v mb : Nat} (h16 : 16 ≤ f.length) (h : (mfMetaBytes f v).outcome = .ok mb) : 16 + mb ≤ f.length := by
  unfold mfMetaBytes at h
  have hdrop : (f.drop 16).length = f.length - 16 := List.length_drop
  split at h
  · simp only [Bind.bind, Res.bind, alloc] at h
    split at h
    · rename_i p hp
      obtain ⟨kvs, rest⟩ := p
      simp only [ok] at h
      cases h
      have := metaDecode_consumed hp
      omega
    · cases h
    · cases h
  · simp only [ok] at h
    cases h
    omega

theorem mfOpen_safe (f : Bytes) (hm : InMemory f) : Safe (f.length + mfConst) (mfOpen f) := by
  have hc : mfConst = 24480 + 4096 := by decide
  unfold mfOpen
  split; · exact safe_ok _ _
  refine safe_bind (safe_alloc (by omega)) (fun _ _ => ?_)
  split; · exact safe_fail _ _
  split; · exact safe_fail _ _
  refine safe_bind (safe_alloc (by omega)) (fun _ _ => ?_)
  split; · exact safe_fail _ _
  rename_i h8
  have h16 : 16 ≤ f.length := by simp [List.length_drop] at h8; omega
  refine safe_bind' (mfMetaBytes_safe f _) (fun mb hmb => ?_)
  have hle := mfMetaBytes_le h16 hmb
  split; · exact safe_fail _ _
  split; · omega
  simp only []
  split; · exact safe_fail _ _
  refine safe_bind (safe_alloc (by omega)) (fun _ _ => ?_)
  have hd : (f.length - 16 - mb) / 16 * 16 ≤ f.length - 16 - mb := Nat.div_mul_le_self _ _
  unfold InMemory at hm
  refine safe_bind (safe_make (by omega) (by unfold goMaxAlloc; omega)) (fun _ _ => safe_ok _ _)

end Px

namespace Multi

abbrev Bytes := List UInt8

/-- `bytes.Reader.ReadAt` / `io.SectionReader.ReadAt` on an in-memory segment:
    returns the bytes read and whether the error was io.EOF. -/
def readSeg (seg : Bytes) (off len : Nat) : Bytes × Bool :=
  if off ≥ seg.length then ([], true)
  else ((seg.drop off).take len, decide (seg.length - off < len))

/-- `MultiReaderAt.ReadAt` as a fold over the segments. `base` = m.offsets[i]. Returns (bytes, eof). -/
def go : List Bytes → (base off remaining : Nat) → (acc : Bytes) → (reachedEnd : Bool) → Bytes × Bool
  | [], _, _, remaining, acc, reachedEnd => (acc, decide (0 < remaining) && reachedEnd)
  | seg :: rest, base, off, remaining, acc, reachedEnd =>
    if off < base then go rest (base + seg.length) off remaining acc reachedEnd
    else
      let isLast := rest.isEmpty
      let toRead := if isLast then remaining else min (base + seg.length - off) remaining
      let r := readSeg seg (off - base) toRead
      let n := r.1.length
      let remaining' := remaining - n
      let reachedEnd' := reachedEnd || (r.2 && isLast)
      let off' := if n = toRead then off + n else off
      if remaining' = 0 then (acc ++ r.1, false)
      else go rest (base + seg.length) off' remaining' (acc ++ r.1) reachedEnd'

def readAt (segs : List Bytes) (off len : Nat) : Bytes × Bool := go segs 0 off len [] false

def want (segs : List Bytes) (off len : Nat) : Bytes := (segs.flatten.drop off).take len

theorem want_length_le (segs : List Bytes) (off len : Nat) : (want segs off len).length ≤ len := by
  unfold want; simp [List.length_take]; omega

theorem go_spec (segs : List Bytes) : ∀ (base off remaining : Nat) (acc : Bytes)
    (hne : segs ≠ []) (hoff : base ≤ off) (hrem : 0 < remaining),
    (go segs base off remaining acc false).1 = acc ++ want segs (off - base) remaining ∧
    ((go segs base off remaining acc false).2 = true ↔ (want segs (off - base) remaining).length < remaining) := by
  induction segs with
  | nil =>
    intro base off remaining acc hne hoff hrem
    exact absurd rfl hne
  | cons seg rest ih =>
    intro base off remaining acc _ hoff hrem
    have hnlt : ¬ off < base := by omega
    rw [go]; simp only [hnlt, if_false]
    by_cases hlast : rest = []
    · -- last segment
      subst hlast
      simp only [List.isEmpty_nil, if_true, Bool.and_true, Bool.false_or]
      unfold readSeg want
      simp only [List.flatten_cons, List.flatten_nil, List.append_nil]
      by_cases hbeyond : off - base ≥ seg.length
      · simp only [hbeyond, if_true]
        have hr : remaining - ([] : Bytes).length ≠ 0 := by simp; omega
        simp only [hr, if_false]
        simp [go, hrem, List.drop_of_length_le hbeyond]
      · simp only [hbeyond, if_false]
        have hlenT : ((seg.drop (off - base)).take remaining).length = min remaining (seg.length - (off - base)) := by
          simp [List.length_take, List.length_drop]
        by_cases hz : remaining - ((seg.drop (off - base)).take remaining).length = 0
        · simp only [hz, if_true]
          constructor
          · trivial
          · constructor
            · intro h; cases h
            · intro h; omega
        · simp only [hz, if_false]
          have hshort : seg.length - (off - base) < remaining := by omega
          have hpos : 0 < remaining - ((seg.drop (off - base)).take remaining).length := by omega
          simp [go, hshort, hpos]
          omega
    · -- not last
      have hne : rest.isEmpty = false := by
        cases rest with
        | nil => exact absurd rfl hlast
        | cons _ _ => rfl
      simp only [hne, Bool.and_false, Bool.or_false, Bool.false_eq_true, if_false]
      unfold readSeg
      by_cases hbeyond : off - base ≥ seg.length
      · -- segment lies entirely before `off`: reads nothing, moves on
        simp only [hbeyond, if_true]
        have h0 : min (base + seg.length - off) remaining = 0 := by omega
        simp only [h0, List.length_nil, Nat.sub_zero, if_true, Nat.add_zero, List.append_nil]
        have hr : remaining ≠ 0 := by omega
        simp only [hr, if_false]
        have hw : want (seg :: rest) (off - base) remaining = want rest (off - (base + seg.length)) remaining := by
          unfold want
          simp only [List.flatten_cons]
          have : off - base = seg.length + (off - (base + seg.length)) := by omega
          rw [this, ← List.drop_drop, List.drop_append_of_le_length (Nat.le_refl _)]
          simp
        rw [hw]
        exact ih (base + seg.length) off remaining acc hlast (by omega) hrem
      · -- `off` falls inside this segment
        simp only [hbeyond, if_false]
        by_cases hfits : remaining ≤ seg.length - (off - base)
        · -- everything comes from this segment
          have hmin : min (base + seg.length - off) remaining = remaining := by omega
          simp only [hmin]
          have hlen : ((seg.drop (off - base)).take remaining).length = remaining := by
            simp [List.length_take, List.length_drop]; omega
          simp only [hlen, Nat.sub_self, if_true]
          have hw : want (seg :: rest) (off - base) remaining = (seg.drop (off - base)).take remaining := by
            unfold want
            simp only [List.flatten_cons]
            rw [List.drop_append_of_le_length (by omega)]
            rw [List.take_append_of_le_length (by simp [List.length_drop]; omega)]
          rw [hw]
          simp [hlen]
        · -- read to the end of this segment, continue with the next
          have hmin : min (base + seg.length - off) remaining = seg.length - (off - base) := by omega
          simp only [hmin]
          have htake : (seg.drop (off - base)).take (seg.length - (off - base)) = seg.drop (off - base) := by
            apply List.take_of_length_le; simp [List.length_drop]
          have hlen : (seg.drop (off - base)).length = seg.length - (off - base) := by simp [List.length_drop]
          simp only [htake, hlen, if_true]
          have hr : remaining - (seg.length - (off - base)) ≠ 0 := by omega
          simp only [hr, if_false]
          have hih := ih (base + seg.length) (off + (seg.length - (off - base))) (remaining - (seg.length - (off - base)))
                (acc ++ seg.drop (off - base)) hlast (by omega) (by omega)
          have hzero : off + (seg.length - (off - base)) - (base + seg.length) = 0 := by omega
          rw [hzero] at hih
          have hw : want (seg :: rest) (off - base) remaining
              = seg.drop (off - base) ++ want rest 0 (remaining - (seg.length - (off - base))) := by
            unfold want
            simp only [List.flatten_cons, List.drop_zero]
            rw [List.drop_append_of_le_length (by omega), List.take_append, hlen]
            rw [List.take_of_length_le (by omega)]
          rw [hw]
          obtain ⟨h1, h2⟩ := hih
          refine ⟨?_, ?_⟩
          · rw [h1, List.append_assoc]
          · rw [h2, List.length_append, hlen]
            have := want_length_le rest 0 (remaining - (seg.length - (off - base)))
            omega

theorem readAt_spec (segs : List Bytes) (off len : Nat) (hne : segs ≠ []) (hlen : 0 < len) :
    (readAt segs off len).1 = want segs off len ∧
    ((readAt segs off len).2 = true ↔ (want segs off len).length < len) := by
  unfold readAt
  have := go_spec segs 0 off len [] hne (by omega) hlen
  simpa using this

end Multi

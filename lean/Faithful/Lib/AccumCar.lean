import Faithful.Lib.Varint
import Faithful.Lib.Bytes

/-!
# CAR layout and the block-by-block traversal of `accum.ObjectAccumulator.Run` (property C15)

Part 1 — CAR v1 as `header ‖ section*`, section `= uvarint(len cid + len data) ‖ cid ‖ data` with the
36-byte CIDv1/dag-cbor/sha2-256 CIDs the writers produce (`carreader.ReadNodeInfoWithData`).

Part 2 — `Accum.sends` / `Accum.run`: `/repo/accum/block.go: Run` as a pure fold over the sections, line by
line: running `totalOffset` (advanced for *every* section, also skipped and ignored ones), `SetSkip`, the flush
kind test (made *before* the ignore test), the children buffer, the final flush with `parent = nil`, and
`flush`'s suppression of the `(nil, [])` group.

The hand-off between the reading goroutine and the callback goroutine is in `Faithful/Lib/AccumQueue.lean`.
-/
set_option linter.unusedSimpArgs false

namespace Accum

abbrev Bytes := List UInt8

/-! ## Part 1: CAR layout -/

/-- one stored section; `pre` is the length prefix exactly as it sits in the file (1..10 bytes) -/
structure Sec where
  pre : Bytes
  cid : Bytes
  data : Bytes
deriving Repr, DecidableEq, Inhabited

/-- the bytes of the section in the file -/
def Sec.raw (s : Sec) : Bytes := s.pre ++ (s.cid ++ s.data)

/-- `sectionLen + ll` of `ReadNodeInfoWithData`: prefix bytes + cid bytes + data bytes -/
def Sec.secLen (s : Sec) : Nat := s.pre.length + (s.cid.length + s.data.length)

theorem Sec.raw_length (s : Sec) : s.raw.length = s.secLen := by
  simp [Sec.raw, Sec.secLen]

/-- the prefix decodes (Go `binary.ReadUvarint`) to the length of what follows, using all its bytes; 36-byte CID -/
def Sec.wf (s : Sec) : Prop :=
  Varint.get s.pre 10 = some (s.cid.length + s.data.length, s.pre.length) ∧ s.cid.length = 36

structure Car where
  /-- `uvarint(len) ‖ dag-cbor{roots,version}` exactly as stored -/
  header : Bytes
  secs : List Sec
deriving Repr, DecidableEq, Inhabited

def Car.bytes (c : Car) : Bytes := c.header ++ (c.secs.map Sec.raw).flatten

/-- `util.MaxAllowedSectionSize` (32 MiB): `ReadSectionLength` refuses longer sections -/
def maxSection : Nat := 33554432

/-- the section loop of `carreader` (`ReadSectionLength`, `cid.CidFromReader` for 36-byte CIDs, `io.ReadFull`) -/
def parseSecs : Nat → Bytes → Option (List Sec)
  | 0, _ => none
  | _+1, [] => some []
  | fuel+1, b :: bs =>
    match Varint.get (b :: bs) 10 with
    | none => none
    | some (l, w) =>
      let body := ((b :: bs).drop w).take l
      if body.length < l ∨ l < 36 ∨ maxSection < l then none
      else match parseSecs fuel ((b :: bs).drop (w + l)) with
        | none => none
        | some rest => some (⟨(b :: bs).take w, body.take 36, body.drop 36⟩ :: rest)

/-- whole file: header length prefix, header bytes, sections -/
def parse (car : Bytes) : Option Car :=
  match Varint.get car 10 with
  | none => none
  | some (hl, w) =>
    if car.length < w + hl then none
    else match parseSecs (car.length + 1) (car.drop (w + hl)) with
      | none => none
      | some secs => some ⟨car.take (w + hl), secs⟩

/-- `Varint.get` reads exactly the `w` bytes it reports -/
theorem get_width_le (bs : Bytes) (fuel v w : Nat) (h : Varint.get bs fuel = some (v, w)) :
    w ≤ bs.length ∧ 0 < w := by
  induction bs generalizing fuel v w with
  | nil => simp [Varint.get] at h
  | cons b rest ih =>
    cases fuel with
    | zero => simp [Varint.get] at h
    | succ f =>
      simp only [Varint.get] at h
      split at h
      · simp only [Option.some.injEq, Prod.mk.injEq] at h
        obtain ⟨_, rfl⟩ := h
        simp
      · split at h
        · rename_i v' n' hg
          simp only [Option.some.injEq, Prod.mk.injEq] at h
          obtain ⟨_, rfl⟩ := h
          have := ih f v' n' hg
          simp only [List.length_cons]; omega
        · cases h

theorem get_take (bs : Bytes) (fuel v w : Nat) (h : Varint.get bs fuel = some (v, w)) :
    Varint.get (bs.take w) fuel = some (v, w) := by
  induction bs generalizing fuel v w with
  | nil => simp [Varint.get] at h
  | cons b rest ih =>
    cases fuel with
    | zero => simp [Varint.get] at h
    | succ f =>
      simp only [Varint.get] at h
      split at h
      · rename_i hb
        simp only [Option.some.injEq, Prod.mk.injEq] at h
        obtain ⟨rfl, rfl⟩ := h
        simp [Varint.get, hb]
      · rename_i hb
        split at h
        · rename_i v' n' hg
          simp only [Option.some.injEq, Prod.mk.injEq] at h
          obtain ⟨rfl, rfl⟩ := h
          have := ih f v' n' hg
          simp only [List.take_succ_cons, Varint.get, hb, if_false, this]
        · cases h

/-- decoding a prefix that uses all its bytes is not disturbed by what follows -/
theorem get_append (p rest : Bytes) (fuel v : Nat) (h : Varint.get p fuel = some (v, p.length)) :
    Varint.get (p ++ rest) fuel = some (v, p.length) := by
  induction p generalizing fuel v with
  | nil => simp [Varint.get] at h
  | cons b q ih =>
    cases fuel with
    | zero => simp [Varint.get] at h
    | succ f =>
      simp only [Varint.get] at h
      split at h
      · rename_i hb
        simp only [List.cons_append, Varint.get, hb, if_true]
        exact h
      · rename_i hb
        split at h
        · rename_i v' n' hg
          simp only [Option.some.injEq, Prod.mk.injEq, List.length_cons] at h
          obtain ⟨rfl, hn⟩ := h
          have hn' : n' = q.length := by omega
          subst hn'
          have := ih f v' hg
          simp only [List.cons_append, Varint.get, hb, if_false, this, List.length_cons]
        · cases h

theorem parseSecs_sound (fuel : Nat) (bs : Bytes) (secs : List Sec) (h : parseSecs fuel bs = some secs) :
    (secs.map Sec.raw).flatten = bs ∧ ∀ s ∈ secs, s.wf := by
  induction fuel generalizing bs secs with
  | zero => simp [parseSecs] at h
  | succ fuel ih =>
    cases bs with
    | nil =>
      simp only [parseSecs, Option.some.injEq] at h
      subst h; simp
    | cons b bs =>
      simp only [parseSecs] at h
      split at h
      · cases h
      · rename_i l w hg
        split at h
        · cases h
        · rename_i hc
          split at h
          · cases h
          · rename_i rest hr
            simp only [Option.some.injEq] at h
            subst h
            obtain ⟨ihb, ihw⟩ := ih _ _ hr
            have hc1 : l ≤ (((b :: bs).drop w).take l).length := by omega
            have hc2 : 36 ≤ l := by omega
            have hw := get_width_le _ _ _ _ hg
            constructor
            · simp only [List.map_cons, List.flatten_cons, ihb, Sec.raw, List.take_append_drop]
              have e1 : (b :: bs).drop (w + l) = ((b :: bs).drop w).drop l := by
                rw [List.drop_drop]
              rw [e1, List.append_assoc, List.take_append_drop, List.take_append_drop]
            · intro s hs
              simp only [List.mem_cons] at hs
              rcases hs with rfl | hs
              · have hbl : (((b :: bs).drop w).take l).length = l := by
                  have := List.length_take_le l ((b :: bs).drop w)
                  omega
                constructor
                · have ht := get_take _ _ _ _ hg
                  have hlen : ((b :: bs).take w).length = w := by
                    rw [List.length_take]; omega
                  simp only [hlen, List.length_take, List.length_drop]
                  rw [ht]
                  congr 2
                  simp only [List.length_take, List.length_drop] at hbl
                  omega
                · simp only [List.length_take]
                  simp only [List.length_take] at hbl
                  omega
              · exact ihw s hs

/-- **the parsed structure is a decomposition of the very file bytes**, every section well-formed -/
theorem parse_sound (b : Bytes) (c : Car) (h : parse b = some c) : c.bytes = b ∧ ∀ s ∈ c.secs, s.wf := by
  unfold parse at h
  split at h
  · cases h
  · rename_i hl w hg
    split at h
    · cases h
    · split at h
      · cases h
      · rename_i secs hs
        simp only [Option.some.injEq] at h
        subst h
        obtain ⟨h1, h2⟩ := parseSecs_sound _ _ _ hs
        exact ⟨by simp [Car.bytes, h1], h2⟩

theorem parseSecs_complete (secs : List Sec) (hwf : ∀ s ∈ secs, s.wf ∧ s.cid.length + s.data.length ≤ maxSection)
    (fuel : Nat) (hf : secs.length < fuel) :
    parseSecs fuel (secs.map Sec.raw).flatten = some secs := by
  induction secs generalizing fuel with
  | nil =>
    cases fuel with
    | zero => omega
    | succ f => simp [parseSecs]
  | cons s rest ih =>
    cases fuel with
    | zero => omega
    | succ f =>
      obtain ⟨⟨hv, hc⟩, hm⟩ := hwf s (List.mem_cons_self ..)
      have hpos := (get_width_le _ _ _ _ hv).2
      have hrest := ih (fun x hx => hwf x (List.mem_cons_of_mem _ hx)) f (by simp at hf; omega)
      simp only [List.map_cons, List.flatten_cons]
      -- the byte string is non-empty: expose its first byte
      have hne : s.raw ++ (rest.map Sec.raw).flatten = s.pre ++ ((s.cid ++ s.data) ++ (rest.map Sec.raw).flatten) := by
        simp [Sec.raw]
      rw [hne]
      cases hp : s.pre with
      | nil => rw [hp] at hpos; simp at hpos
      | cons p0 ps =>
        have hg := get_append s.pre ((s.cid ++ s.data) ++ (rest.map Sec.raw).flatten) 10 _ hv
        rw [hp] at hg
        simp only [List.cons_append] at hg ⊢
        simp only [parseSecs, hg]
        have hd : (p0 :: (ps ++ (s.cid ++ s.data ++ (List.map Sec.raw rest).flatten))).drop (p0 :: ps).length
            = s.cid ++ s.data ++ (List.map Sec.raw rest).flatten := by
          have : p0 :: (ps ++ (s.cid ++ s.data ++ (List.map Sec.raw rest).flatten))
              = (p0 :: ps) ++ (s.cid ++ s.data ++ (List.map Sec.raw rest).flatten) := rfl
          rw [this, List.drop_left]
        have ht : (s.cid ++ s.data ++ (List.map Sec.raw rest).flatten).take (s.cid.length + s.data.length)
            = s.cid ++ s.data := by
          have : s.cid.length + s.data.length = (s.cid ++ s.data).length := by simp
          rw [this, List.take_left]
        have hd2 : (p0 :: (ps ++ (s.cid ++ s.data ++ (List.map Sec.raw rest).flatten))).drop
            ((p0 :: ps).length + (s.cid.length + s.data.length)) = (List.map Sec.raw rest).flatten := by
          rw [← List.drop_drop, hd]
          have : s.cid.length + s.data.length = (s.cid ++ s.data).length := by simp
          rw [this, List.drop_left]
        have htk : (p0 :: (ps ++ (s.cid ++ s.data ++ (List.map Sec.raw rest).flatten))).take (p0 :: ps).length
            = p0 :: ps := by
          have : p0 :: (ps ++ (s.cid ++ s.data ++ (List.map Sec.raw rest).flatten))
              = (p0 :: ps) ++ (s.cid ++ s.data ++ (List.map Sec.raw rest).flatten) := rfl
          rw [this, List.take_left]
        rw [hd, ht, hd2, htk, hrest]
        have hcond : ¬ ((s.cid ++ s.data).length < s.cid.length + s.data.length ∨ s.cid.length + s.data.length < 36 ∨
            maxSection < s.cid.length + s.data.length) := by
          simp only [List.length_append]; omega
        simp only [hcond, if_false]
        have e36 : (s.cid ++ s.data).take 36 = s.cid := by rw [← hc, List.take_left]
        have d36 : (s.cid ++ s.data).drop 36 = s.data := by rw [← hc, List.drop_left]
        rw [e36, d36, ← hp]

/-- the parser accepts every well-formed CAR (non-vacuity of `parse_sound`) -/
theorem parse_complete (c : Car) (hl : Nat) (hh : Varint.get c.header 10 = some (hl, c.header.length - hl))
    (hhl : hl ≤ c.header.length)
    (hwf : ∀ s ∈ c.secs, s.wf ∧ s.cid.length + s.data.length ≤ maxSection) :
    parse c.bytes = some c := by
  have hw := get_width_le _ _ _ _ hh
  -- the prefix of the header decodes to hl using w bytes; what follows does not disturb it
  have hsplit : c.header = c.header.take (c.header.length - hl) ++ c.header.drop (c.header.length - hl) :=
    (List.take_append_drop _ _).symm
  have hg0 := get_take _ _ _ _ hh
  have hlen0 : (c.header.take (c.header.length - hl)).length = c.header.length - hl := by
    rw [List.length_take]; omega
  have hg1 : Varint.get (c.header.take (c.header.length - hl)) 10
      = some (hl, (c.header.take (c.header.length - hl)).length) := by rw [hlen0]; exact hg0
  have hg2 := get_append _ (c.header.drop (c.header.length - hl) ++ (c.secs.map Sec.raw).flatten) 10 _ hg1
  have hb : c.bytes = c.header.take (c.header.length - hl) ++
      (c.header.drop (c.header.length - hl) ++ (c.secs.map Sec.raw).flatten) := by
    unfold Car.bytes
    rw [← List.append_assoc, List.take_append_drop]
  unfold parse
  rw [hb, hg2, hlen0, ← hb]
  have htot : c.header.length - hl + hl = c.header.length := by omega
  dsimp only
  rw [htot]
  have hlenb : ¬ c.bytes.length < c.header.length := by simp [Car.bytes]
  simp only [hlenb, if_false]
  have hdrop : c.bytes.drop c.header.length = (c.secs.map Sec.raw).flatten := by
    unfold Car.bytes; rw [List.drop_left]
  have htake : c.bytes.take c.header.length = c.header := by
    unfold Car.bytes; rw [List.take_left]
  rw [hdrop, htake]
  have hfuel : c.secs.length < c.bytes.length + 1 := by
    -- every section has at least one byte
    have : ∀ (l : List Sec), (∀ s ∈ l, s.wf) → l.length ≤ ((l.map Sec.raw).flatten).length := by
      intro l
      induction l with
      | nil => intro _; simp
      | cons x xs ihx =>
        intro hx
        have h1 := ihx (fun s hs => hx s (List.mem_cons_of_mem _ hs))
        have h2 := (hx x (List.mem_cons_self ..)).2
        simp only [List.map_cons, List.flatten_cons, List.length_append, List.length_cons, Sec.raw]
        omega
    have := this c.secs (fun s hs => (hwf s hs).1)
    simp only [Car.bytes, List.length_append]; omega
  rw [parseSecs_complete c.secs hwf _ hfuel]

/-! ### true offsets -/

/-- byte offset of section `i`: header length + lengths of ALL sections before it -/
def Car.offsetOf (c : Car) (i : Nat) : Nat := c.header.length + ((c.secs.take i).map Sec.secLen).sum

theorem prefixLen_raw (l : List Sec) (i : Nat) :
    B.prefixLen (l.map Sec.raw) i = ((l.take i).map Sec.secLen).sum := by
  unfold B.prefixLen
  rw [← List.map_take, List.map_map]
  congr 1
  apply List.map_congr_left
  intro s _
  simp [Sec.raw_length]

/-- the bytes at `[offsetOf i, offsetOf i + secLen)` of the file are exactly section `i` -/
theorem Car.slice_at (c : Car) (i : Nat) (h : i < c.secs.length) :
    B.slice c.bytes (c.offsetOf i) (c.secs[i]).secLen = (c.secs[i]).raw := by
  unfold Car.bytes Car.offsetOf
  rw [B.slice_append_right]
  have hi : i < (c.secs.map Sec.raw).length := by simpa using h
  have := B.slice_flatten_at (c.secs.map Sec.raw) i hi 0 (c.secs[i]).secLen (by simp [Sec.raw_length])
  rw [prefixLen_raw] at this
  simp only [Nat.add_zero, List.getElem_map] at this
  rw [this, ← Sec.raw_length]
  exact B.slice_self _

/-! ## Part 2: the traversal -/

/-- `accum.ObjectWithMetadata` -/
structure Obj where
  cid : Bytes
  offset : Nat
  secLen : Nat
  data : Bytes
deriving Repr, DecidableEq, Inhabited

/-- `iplddecoders.GetKind(data)` = `data[1]`.  For a node with fewer than two bytes the real code returns an error
    from `Run` (since fix 74d949c; it panicked before); the driver answers `err` for such CARs without consulting
    `run` (see `Car.kinded`). -/
def kindOf (d : Bytes) : UInt8 := d.getD 1 0

def Obj.kind (o : Obj) : UInt8 := kindOf o.data

def Car.kinded (c : Car) : Bool := c.secs.all fun s => decide (2 ≤ s.data.length)

/-- what the callback receives: `parent` (nil for the final group) and `children` -/
structure Group where
  parent : Option Obj
  children : List Obj
deriving Repr, DecidableEq, Inhabited

/-- objects of a group in file order: the children precede their parent -/
def Group.members (g : Group) : List Obj := g.children ++ g.parent.toList

/-- `flush`: `if head == nil && len(other) == 0 { return nil }` — such a group never reaches the callback -/
def Group.nonEmpty (g : Group) : Bool := g.parent.isSome || !g.children.isEmpty

/-- `len(oa.ignoreKinds) > 0 && oa.ignoreKinds.Has(kind)` -/
def ignored (ig : List UInt8) (kd : UInt8) : Bool := ig.contains kd

/-- The loops of `Run` after `HeaderSize()`.  Arguments: remaining sections, `totalOffset`,
    `skipNodes - numSkipped`, `children`.  Result: the groups handed to `sendToFlusher`, in order. -/
def go (ig : List UInt8) (k : UInt8) : List Sec → Nat → Nat → List Obj → List Group
  | [], _, _, cur => [⟨none, cur⟩]                                   -- io.EOF: sendToFlusher(nil, children)
  | s :: rest, off, skip + 1, cur => go ig k rest (off + s.secLen) skip cur   -- numSkipped < skipNodes
  | s :: rest, off, 0, cur =>
    let o : Obj := ⟨s.cid, off, s.secLen, s.data⟩
    if kindOf s.data = k then ⟨some o, cur⟩ :: go ig k rest (off + s.secLen) 0 []  -- parent: flush, fresh buffer
    else if ignored ig (kindOf s.data) then go ig k rest (off + s.secLen) 0 cur     -- ignored: offset still advanced
    else go ig k rest (off + s.secLen) 0 (cur ++ [o])

/-- every group passed to `sendToFlusher` -/
def sends (c : Car) (ig : List UInt8) (k : UInt8) (skip : Nat) : List Group :=
  go ig k c.secs c.header.length skip []

/-- **the callback sequence** of `NewObjectAccumulator(rd, k, cb, ig...)` + `SetSkip(skip)` + `Run` -/
def run (c : Car) (ig : List UInt8) (k : UInt8) (skip : Nat := 0) : List Group :=
  (sends c ig k skip).filter Group.nonEmpty

/-- the sections annotated with their position, independently of the traversal -/
def objsFrom : List Sec → Nat → List Obj
  | [], _ => []
  | s :: r, off => ⟨s.cid, off, s.secLen, s.data⟩ :: objsFrom r (off + s.secLen)

def Car.objs (c : Car) : List Obj := objsFrom c.secs c.header.length

theorem objsFrom_length (l : List Sec) (off : Nat) : (objsFrom l off).length = l.length := by
  induction l generalizing off with
  | nil => rfl
  | cons s r ih => simp [objsFrom, ih]

theorem objsFrom_getElem (l : List Sec) (off i : Nat) (h : i < l.length) :
    (objsFrom l off)[i]'(by rw [objsFrom_length]; exact h) =
      ⟨l[i].cid, off + ((l.take i).map Sec.secLen).sum, l[i].secLen, l[i].data⟩ := by
  induction l generalizing off i with
  | nil => simp at h
  | cons s r ih =>
    cases i with
    | zero => simp [objsFrom]
    | succ j =>
      have hj : j < r.length := by simpa using h
      simp only [objsFrom, List.getElem_cons_succ, List.take_succ_cons, List.map_cons, List.sum_cons]
      rw [ih (off + s.secLen) j hj, Nat.add_assoc]

/-- object `i` of `Car.objs` is section `i` with its true offset -/
theorem Car.objs_getElem (c : Car) (i : Nat) (h : i < c.secs.length) :
    c.objs[i]'(by unfold Car.objs; rw [objsFrom_length]; exact h) =
      ⟨c.secs[i].cid, c.offsetOf i, c.secs[i].secLen, c.secs[i].data⟩ :=
  objsFrom_getElem c.secs c.header.length i h

/-- delivered = flush kind, or not ignored -/
def keep (ig : List UInt8) (k : UInt8) (o : Obj) : Bool := o.kind == k || !ignored ig o.kind

theorem flatMap_members_cons (g : Group) (l : List Group) :
    (g :: l).flatMap Group.members = g.members ++ l.flatMap Group.members := by
  simp [List.flatMap_cons]

theorem go_members (ig : List UInt8) (k : UInt8) (secs : List Sec) (off skip : Nat) (cur : List Obj) :
    (go ig k secs off skip cur).flatMap Group.members = cur ++ ((objsFrom secs off).drop skip).filter (keep ig k) := by
  induction secs generalizing off skip cur with
  | nil => simp [go, objsFrom, Group.members]
  | cons s r ih =>
    cases skip with
    | succ n => simp only [go, objsFrom, List.drop_succ_cons]; exact ih _ _ _
    | zero =>
      simp only [go, objsFrom, List.drop_zero]
      by_cases hk : kindOf s.data = k
      · rw [if_pos hk, flatMap_members_cons, ih]
        have : keep ig k ⟨s.cid, off, s.secLen, s.data⟩ = true := by simp [keep, Obj.kind, hk]
        simp [this, Group.members]
      · rw [if_neg hk]
        by_cases hi : ignored ig (kindOf s.data) = true
        · rw [if_pos hi, ih]
          have : keep ig k ⟨s.cid, off, s.secLen, s.data⟩ = false := by simp [keep, Obj.kind, hk, hi]
          simp [this]
        · rw [if_neg hi, ih]
          have : keep ig k ⟨s.cid, off, s.secLen, s.data⟩ = true := by
            simp only [Bool.not_eq_true] at hi
            simp [keep, Obj.kind, hi]
          simp [this]

theorem go_parents (ig : List UInt8) (k : UInt8) (secs : List Sec) (off skip : Nat) (cur : List Obj) :
    (go ig k secs off skip cur).filterMap Group.parent =
      ((objsFrom secs off).drop skip).filter (fun o => o.kind == k) := by
  induction secs generalizing off skip cur with
  | nil => simp [go, objsFrom]
  | cons s r ih =>
    cases skip with
    | succ n => simp only [go, objsFrom, List.drop_succ_cons]; exact ih _ _ _
    | zero =>
      simp only [go, objsFrom, List.drop_zero]
      by_cases hk : kindOf s.data = k
      · rw [if_pos hk, List.filterMap_cons_some (by rfl), ih]
        simp [Obj.kind, hk]
      · rw [if_neg hk]
        have hf : ((⟨s.cid, off, s.secLen, s.data⟩ : Obj).kind == k) = false := by simp [Obj.kind, hk]
        by_cases hi : ignored ig (kindOf s.data) = true
        · rw [if_pos hi, ih]; simp [hf]
        · rw [if_neg hi, ih]; simp [hf]

/-- a parent is of the flush kind; children never are, and are not ignored -/
theorem go_kinds (ig : List UInt8) (k : UInt8) (secs : List Sec) (off skip : Nat) (cur : List Obj)
    (hc : ∀ o ∈ cur, o.kind ≠ k ∧ ignored ig o.kind = false) :
    ∀ g ∈ go ig k secs off skip cur,
      (∀ p, g.parent = some p → p.kind = k) ∧ (∀ o ∈ g.children, o.kind ≠ k ∧ ignored ig o.kind = false) := by
  induction secs generalizing off skip cur with
  | nil =>
    intro g hg
    simp only [go, List.mem_singleton] at hg
    subst hg
    exact ⟨(by intro p hp; cases hp), hc⟩
  | cons s r ih =>
    cases skip with
    | succ n => simp only [go]; exact ih _ _ _ hc
    | zero =>
      simp only [go]
      by_cases hk : kindOf s.data = k
      · simp only [hk, if_true]
        intro g hg
        simp only [List.mem_cons] at hg
        rcases hg with rfl | hg
        · exact ⟨(by intro p hp; simp only [Option.some.injEq] at hp; subst hp; simp [Obj.kind, hk]), hc⟩
        · exact ih _ _ _ (by intro o ho; cases ho) g hg
      · simp only [hk, ↓reduceIte]
        by_cases hi : ignored ig (kindOf s.data) = true
        · simp only [hi, ↓reduceIte]; exact ih _ _ _ hc
        · simp only [hi, ↓reduceIte]
          apply ih
          intro o ho
          simp only [List.mem_append, List.mem_singleton] at ho
          rcases ho with ho | rfl
          · exact hc o ho
          · simp only [Bool.not_eq_true] at hi
            exact ⟨by simp [Obj.kind, hk], by simp [Obj.kind, hi]⟩

/-- shape of the send sequence: blocks, then exactly one final group with `parent = nil` holding what came after
    the last parent -/
theorem go_shape (ig : List UInt8) (k : UInt8) (secs : List Sec) (off skip : Nat) (cur : List Obj) :
    ∃ blocks tail pre post,
      go ig k secs off skip cur = blocks ++ [⟨none, tail⟩] ∧
      (∀ g ∈ blocks, g.parent.isSome = true) ∧
      (objsFrom secs off).drop skip = pre ++ post ∧
      (∀ o ∈ post, o.kind ≠ k) ∧
      (pre = [] ∨ ∃ pre0 b, pre = pre0 ++ [b] ∧ b.kind = k) ∧
      tail = (if pre = [] then cur else []) ++ post.filter (fun o => !ignored ig o.kind) ∧
      blocks.flatMap Group.members = (if pre = [] then [] else cur) ++ pre.filter (keep ig k) := by
  induction secs generalizing off skip cur with
  | nil =>
    exact ⟨[], cur, [], [], by simp [go], by simp, by simp [objsFrom], by simp, Or.inl rfl, by simp, by simp⟩
  | cons s r ih =>
    cases skip with
    | succ n =>
      obtain ⟨bl, tl, pre, post, h1, h2, h3, h4, h5, h6, h7⟩ := ih (off + s.secLen) n cur
      exact ⟨bl, tl, pre, post, by simp only [go]; exact h1, h2,
        by simp only [objsFrom, List.drop_succ_cons]; exact h3, h4, h5, h6, h7⟩
    | zero =>
      simp only [go, objsFrom, List.drop_zero]
      by_cases hk : kindOf s.data = k
      · obtain ⟨bl, tl, pre, post, h1, h2, h3, h4, h5, h6, h7⟩ := ih (off + s.secLen) 0 []
        simp only [List.drop_zero] at h3
        refine ⟨⟨some ⟨s.cid, off, s.secLen, s.data⟩, cur⟩ :: bl, tl, ⟨s.cid, off, s.secLen, s.data⟩ :: pre, post,
          ?_, ?_, ?_, h4, ?_, ?_, ?_⟩
        · simp only [hk, ↓reduceIte, h1, List.cons_append]
        · intro g hg
          simp only [List.mem_cons] at hg
          rcases hg with rfl | hg
          · rfl
          · exact h2 g hg
        · rw [h3]; rfl
        · right
          rcases h5 with rfl | ⟨p0, b, rfl, hb⟩
          · exact ⟨[], _, rfl, by simp [Obj.kind, hk]⟩
          · exact ⟨_ :: p0, b, rfl, hb⟩
        · rw [h6]; simp
        · have hkeep : keep ig k ⟨s.cid, off, s.secLen, s.data⟩ = true := by simp [keep, Obj.kind, hk]
          simp only [flatMap_members_cons, h7, Group.members, Option.toList, List.filter_cons, hkeep, if_true]
          simp
      · simp only [hk, ↓reduceIte]
        by_cases hi : ignored ig (kindOf s.data) = true
        · simp only [hi, ↓reduceIte]
          obtain ⟨bl, tl, pre, post, h1, h2, h3, h4, h5, h6, h7⟩ := ih (off + s.secLen) 0 cur
          simp only [List.drop_zero] at h3
          have hkeep : keep ig k ⟨s.cid, off, s.secLen, s.data⟩ = false := by simp [keep, Obj.kind, hk, hi]
          by_cases hp : pre = []
          · subst hp
            refine ⟨bl, tl, [], ⟨s.cid, off, s.secLen, s.data⟩ :: post, h1, h2, ?_, ?_, Or.inl rfl, ?_, ?_⟩
            · rw [h3]; rfl
            · intro o ho
              simp only [List.mem_cons] at ho
              rcases ho with rfl | ho
              · simp [Obj.kind, hk]
              · exact h4 o ho
            · rw [h6]; simp [List.filter_cons, Obj.kind, hi]
            · simpa using h7
          · refine ⟨bl, tl, ⟨s.cid, off, s.secLen, s.data⟩ :: pre, post, h1, h2, ?_, h4, ?_, ?_, ?_⟩
            · rw [h3]; rfl
            · right
              rcases h5 with rfl | ⟨p0, b, rfl, hb⟩
              · exact absurd rfl hp
              · exact ⟨_ :: p0, b, rfl, hb⟩
            · rw [h6]; simp [hp]
            · rw [h7]; simp [hp, List.filter_cons, hkeep]
        · simp only [hi, ↓reduceIte]
          obtain ⟨bl, tl, pre, post, h1, h2, h3, h4, h5, h6, h7⟩ :=
            ih (off + s.secLen) 0 (cur ++ [⟨s.cid, off, s.secLen, s.data⟩])
          simp only [List.drop_zero] at h3
          simp only [Bool.not_eq_true] at hi
          have hkeep : keep ig k ⟨s.cid, off, s.secLen, s.data⟩ = true := by simp [keep, Obj.kind, hi]
          by_cases hp : pre = []
          · subst hp
            refine ⟨bl, tl, [], ⟨s.cid, off, s.secLen, s.data⟩ :: post, h1, h2, ?_, ?_, Or.inl rfl, ?_, ?_⟩
            · rw [h3]; rfl
            · intro o ho
              simp only [List.mem_cons] at ho
              rcases ho with rfl | ho
              · simp [Obj.kind, hk]
              · exact h4 o ho
            · rw [h6]; simp [List.filter_cons, Obj.kind, hi]
            · simpa using h7
          · refine ⟨bl, tl, ⟨s.cid, off, s.secLen, s.data⟩ :: pre, post, h1, h2, ?_, h4, ?_, ?_, ?_⟩
            · rw [h3]; rfl
            · right
              rcases h5 with rfl | ⟨p0, b, rfl, hb⟩
              · exact absurd rfl hp
              · exact ⟨_ :: p0, b, rfl, hb⟩
            · rw [h6]; simp [hp]
            · rw [h7]; simp [hp, List.filter_cons, hkeep]

/-- reference grouping: cut a sequence of objects after every object of the flush kind; what is left at the end is
    the final group without parent -/
def splitAfter (k : UInt8) : List Obj → List Obj → List Group
  | acc, [] => [⟨none, acc⟩]
  | acc, o :: r => if o.kind = k then ⟨some o, acc⟩ :: splitAfter k [] r else splitAfter k (acc ++ [o]) r

theorem go_split (ig : List UInt8) (k : UInt8) (secs : List Sec) (off skip : Nat) (cur : List Obj) :
    go ig k secs off skip cur = splitAfter k cur (((objsFrom secs off).drop skip).filter (keep ig k)) := by
  induction secs generalizing off skip cur with
  | nil => simp [go, objsFrom, splitAfter]
  | cons s r ih =>
    cases skip with
    | succ n => simp only [go, objsFrom, List.drop_succ_cons]; exact ih _ _ _
    | zero =>
      simp only [go, objsFrom, List.drop_zero]
      by_cases hk : kindOf s.data = k
      · have hkeep : keep ig k ⟨s.cid, off, s.secLen, s.data⟩ = true := by simp [keep, Obj.kind, hk]
        have hko : (⟨s.cid, off, s.secLen, s.data⟩ : Obj).kind = k := by simp [Obj.kind, hk]
        rw [if_pos hk, List.filter_cons_of_pos hkeep, splitAfter, if_pos hko, ih]
        simp
      · rw [if_neg hk]
        have hko : ¬ (⟨s.cid, off, s.secLen, s.data⟩ : Obj).kind = k := by simp [Obj.kind, hk]
        by_cases hi : ignored ig (kindOf s.data) = true
        · have hkeep : ¬ keep ig k ⟨s.cid, off, s.secLen, s.data⟩ = true := by simp [keep, Obj.kind, hk, hi]
          rw [if_pos hi, List.filter_cons_of_neg hkeep, ih]
          simp
        · have hkeep : keep ig k ⟨s.cid, off, s.secLen, s.data⟩ = true := by
            simp only [Bool.not_eq_true] at hi
            simp [keep, Obj.kind, hi]
          rw [if_neg hi, List.filter_cons_of_pos hkeep, splitAfter, if_neg hko, ih]
          simp

end Accum

/-!
# Multi-frame payload reassembly (property C14)

Model of `/repo/tooling/data-frames.go` (`LoadDataFromDataFrames`, `getAllFramesFromDataFrame`),
`/repo/ipld/ipldbindcode/methods.go` (`VerifyHash`, `GetIndex/GetTotal/GetHash/GetNext`) and of the
per-transaction frame map of `/repo/accum/tx.go` (`ObjectsToTransactionsAndMetadata`).

What is modelled, line by line:

* a `DataFrame` is `(index?, total?, hash?, data, next)`; the three optional integers are Go `**int`
  (`index`/`total` read as `int`, `hash` as `uint64`); `next` absent, null or empty all read as "no next"
  (`GetNext` returns `ok = false` or a zero-length list; both return `[first]` unsorted);
* `getAllFramesFromDataFrame` = `collect`: `[f]` for a frame without `next`; otherwise the frame followed by
  the recursive results of its `next` links, fetched left to right through the getter (first error wins),
  **sorted at every level** by `sort.Slice` with `less i j = if !iOk || !jOk then iOk else iIndex < jIndex`;
* `sort.Slice` is not stable: the model takes the sort as a parameter `SortFn` (any function that returns a
  sorted permutation), all theorems quantify over it;
* `LoadDataFromDataFrames` = `load`: count check against the *first* frame's `total` when present, concatenation
  of the `data` fields in the sorted order, checksum check against the *first* frame's `hash` when present,
  `VerifyHash` accepting CRC-64/ISO **or** the legacy FNV-1a-64 of the whole buffer;
* the Go recursion has no bound: on a cyclic `next` graph it recurses until the stack is exhausted.  The model
  takes fuel; `Err.fuel` stands for "does not return" (`cyclic_never_ok`, `collect_fuel_mono`).  Unbounded
  recursion on a forged CAR is a matter for property C12, not C14.

Core Lean only.
-/

namespace Frames

abbrev Bytes := List UInt8
abbrev Cid := Nat

structure Frame where
  index : Option Int
  total : Option Int
  hash  : Option Nat
  data  : Bytes
  next  : List Cid
deriving DecidableEq, Repr, Inhabited

inductive Err where
  | get    -- the frame getter failed (frame missing / undecodable)
  | count  -- `expected %d frames, got %d`
  | hash   -- `data hash mismatch`
  | fuel   -- the recursion did not finish (cyclic `next` graph in the real code: unbounded recursion)
deriving DecidableEq, Repr

inductive Res (α : Type) where
  | ok (a : α)
  | err (e : Err)
deriving DecidableEq, Repr

abbrev Store := Cid → Option Frame

/-! ## the comparator of `sort.Slice` -/

/-- Go: `if !iOk || !jOk { return iOk }; return iIndex < jIndex` -/
def less (a b : Frame) : Bool :=
  match a.index, b.index with
  | some i, some j => decide (i < j)
  | some _, none => true
  | none, _ => false

/-- "not after": `b` does not have to come before `a` -/
def le (a b : Frame) : Bool := !less b a

/-- what `sort.Slice` guarantees for a strict weak order: no later element is `less` than an earlier one -/
def Sorted (l : List Frame) : Prop := l.Pairwise (fun a b => le a b = true)

theorem le_total (a b : Frame) : (le a b || le b a) = true := by
  unfold le less
  cases a.index <;> cases b.index <;> simp
  omega

theorem le_trans (a b c : Frame) : le a b = true → le b c = true → le a c = true := by
  unfold le less
  cases a.index <;> cases b.index <;> cases c.index <;> simp
  omega

theorem le_antisymm_index (a b : Frame) (i j : Int) (ha : a.index = some i) (hb : b.index = some j) :
    le a b = true → le b a = true → i = j := by
  unfold le less
  rw [ha, hb]; simp
  omega

/-- any function returning a sorted permutation (the contract of `sort.Slice`; stability is not assumed) -/
structure SortFn where
  sort : List Frame → List Frame
  perm : ∀ l, (sort l).Perm l
  sorted : ∀ l, Sorted (sort l)

/-- insertion sort (structural, so `decide` can run it) -/
def insertF (x : Frame) : List Frame → List Frame
  | [] => [x]
  | y :: ys => if le x y then x :: y :: ys else y :: insertF x ys

def insSort : List Frame → List Frame
  | [] => []
  | x :: xs => insertF x (insSort xs)

theorem insertF_perm (x : Frame) (l : List Frame) : (insertF x l).Perm (x :: l) := by
  induction l with
  | nil => exact List.Perm.refl _
  | cons y ys ih =>
    unfold insertF
    split
    · exact List.Perm.refl _
    · exact (List.Perm.cons y ih).trans (List.Perm.swap x y ys)

theorem insSort_perm (l : List Frame) : (insSort l).Perm l := by
  induction l with
  | nil => exact List.Perm.refl _
  | cons x xs ih => exact (insertF_perm x _).trans (List.Perm.cons x ih)

theorem insertF_sorted (x : Frame) (l : List Frame) (h : Sorted l) : Sorted (insertF x l) := by
  induction l with
  | nil => simp [insertF, Sorted]
  | cons y ys ih =>
    unfold insertF
    have hy := List.pairwise_cons.mp h
    split
    · rename_i hxy
      refine List.pairwise_cons.mpr ⟨?_, h⟩
      intro z hz
      rcases List.mem_cons.mp hz with rfl | hz
      · exact hxy
      · exact le_trans _ _ _ hxy (hy.1 z hz)
    · rename_i hxy
      have hyx : le y x = true := by
        have := le_total x y
        cases hh : le x y
        · simpa [hh] using this
        · exact absurd hh hxy
      refine List.pairwise_cons.mpr ⟨?_, ih hy.2⟩
      intro z hz
      rcases List.mem_cons.mp ((insertF_perm x ys).mem_iff.mp hz) with rfl | hz
      · exact hyx
      · exact hy.1 z hz

theorem insSort_sorted (l : List Frame) : Sorted (insSort l) := by
  induction l with
  | nil => simp [insSort, Sorted]
  | cons x xs ih => exact insertF_sorted x _ ih

def SortFn.ins : SortFn := ⟨insSort, insSort_perm, insSort_sorted⟩

/-- core's merge sort (stable) is another instance -/
def SortFn.merge : SortFn where
  sort l := l.mergeSort le
  perm l := List.mergeSort_perm l le
  sorted l := List.pairwise_mergeSort (fun a b c => le_trans a b c) le_total l

/-! ## the walk -/

/-- results of the `next` links, left to right, first error wins (the `for _, cid := range next` loop) -/
def gather (g : Cid → Res (List Frame)) : List Cid → Res (List Frame)
  | [] => .ok []
  | c :: cs =>
    match g c with
    | .err e => .err e
    | .ok a =>
      match gather g cs with
      | .err e => .err e
      | .ok b => .ok (a ++ b)

/-- `dataFrameGetter(ctx, cid)` then the recursive call -/
def fetch (get : Store) (k : Frame → Res (List Frame)) (c : Cid) : Res (List Frame) :=
  match get c with
  | none => .err .get
  | some g => k g

/-- `getAllFramesFromDataFrame` with the sort function `S` -/
def collect (S : List Frame → List Frame) (get : Store) : Nat → Frame → Res (List Frame)
  | 0, _ => .err .fuel
  | n+1, f =>
    if f.next = [] then .ok [f]
    else
      match gather (fetch get (fun g => collect S get n g)) f.next with
      | .err e => .err e
      | .ok r => .ok (S (f :: r))

/-- the same traversal without any sorting: the frames in the order they are fetched -/
def walk (get : Store) : Nat → Frame → Res (List Frame)
  | 0, _ => .err .fuel
  | n+1, f =>
    match gather (fetch get (fun g => walk get n g)) f.next with
    | .err e => .err e
    | .ok r => .ok (f :: r)

structure Hashes where
  crc : Bytes → Nat
  fnv : Bytes → Nat

/-- `ipldbindcode.VerifyHash`: CRC-64 first, then the legacy FNV -/
def verifyHash (H : Hashes) (b : Bytes) (h : Nat) : Bool := H.crc b == h || H.fnv b == h

def payloadOf (fs : List Frame) : Bytes := (fs.map (·.data)).flatten

/-- the part of `LoadDataFromDataFrames` after the frames have been collected -/
def finish (H : Hashes) (first : Frame) (fs : List Frame) : Res Bytes :=
  let countOk : Bool := match first.total with
    | some t => decide ((fs.length : Int) = t)
    | none => true
  if countOk then
    match first.hash with
    | none => .ok (payloadOf fs)
    | some h => if verifyHash H (payloadOf fs) h then .ok (payloadOf fs) else .err .hash
  else .err .count

/-- `LoadDataFromDataFrames` -/
def load (H : Hashes) (S : List Frame → List Frame) (get : Store) (fuel : Nat) (first : Frame) : Res Bytes :=
  match collect S get fuel first with
  | .err e => .err e
  | .ok fs => finish H first fs

/-! ## `collect` is a sorted permutation of `walk` -/

/-- relation between a sorted and an unsorted traversal result -/
def RelP : Res (List Frame) → Res (List Frame) → Prop
  | .ok a, .ok b => a.Perm b
  | .err e, .err e' => e = e'
  | _, _ => False

theorem gather_rel (g g' : Cid → Res (List Frame)) (l : List Cid)
    (h : ∀ c ∈ l, RelP (g c) (g' c)) : RelP (gather g l) (gather g' l) := by
  induction l with
  | nil => simp [gather, RelP]
  | cons c cs ih =>
    have hc := h c (List.mem_cons_self ..)
    have hcs := ih (fun x hx => h x (List.mem_cons_of_mem _ hx))
    unfold gather
    cases h1 : g c <;> cases h2 : g' c <;> simp only [h1, h2, RelP] at hc ⊢
    · cases h3 : gather g cs <;> cases h4 : gather g' cs <;> simp only [h3, h4, RelP] at hcs ⊢
      · exact hc.append hcs
      · exact hcs
    · exact hc

theorem fetch_rel (get : Store) (k k' : Frame → Res (List Frame)) (h : ∀ g, RelP (k g) (k' g)) (c : Cid) :
    RelP (fetch get k c) (fetch get k' c) := by
  unfold fetch
  cases get c with
  | none => simp [RelP]
  | some g => exact h g

theorem collect_rel_walk (S : SortFn) (get : Store) (n : Nat) (f : Frame) :
    RelP (collect S.sort get n f) (walk get n f) := by
  induction n generalizing f with
  | zero => simp [collect, walk, RelP]
  | succ n ih =>
    unfold collect walk
    by_cases hn : f.next = []
    · simp [hn, gather, RelP]
    · simp only [hn, if_false]
      have := gather_rel _ _ f.next (fun c _ => fetch_rel get _ _ (fun g => ih g) c)
      cases h1 : gather (fetch get fun g => collect S.sort get n g) f.next <;>
        cases h2 : gather (fetch get fun g => walk get n g) f.next <;>
        simp only [h1, h2, RelP] at this ⊢
      · exact (S.perm _).trans (List.Perm.cons f this)
      · exact this

theorem collect_sorted (S : SortFn) (get : Store) (n : Nat) (f : Frame) (fs : List Frame)
    (h : collect S.sort get n f = .ok fs) : Sorted fs := by
  cases n with
  | zero => simp [collect] at h
  | succ n =>
    unfold collect at h
    by_cases hn : f.next = []
    · simp [hn] at h; subst h; simp [Sorted]
    · simp only [hn, if_false] at h
      cases h1 : gather (fetch get fun g => collect S.sort get n g) f.next <;> simp only [h1] at h
      · injection h with h; subst h; exact S.sorted _
      · cases h

/-- the frames `collect` returns are a sorted permutation of the frames the walk fetches; errors coincide -/
theorem collect_ok_iff (S : SortFn) (get : Store) (n : Nat) (f : Frame) (fs : List Frame) :
    collect S.sort get n f = .ok fs → ∃ ws, walk get n f = .ok ws ∧ fs.Perm ws ∧ Sorted fs := by
  intro h
  have hr := collect_rel_walk S get n f
  rw [h] at hr
  cases hw : walk get n f with
  | ok ws => rw [hw] at hr; exact ⟨ws, rfl, hr, collect_sorted S get n f fs h⟩
  | err e => rw [hw] at hr; exact absurd hr (by simp [RelP])

theorem collect_of_walk (S : SortFn) (get : Store) (n : Nat) (f : Frame) (ws : List Frame)
    (hw : walk get n f = .ok ws) : ∃ fs, collect S.sort get n f = .ok fs ∧ fs.Perm ws ∧ Sorted fs := by
  have hr := collect_rel_walk S get n f
  rw [hw] at hr
  cases hc : collect S.sort get n f with
  | ok fs => rw [hc] at hr; exact ⟨fs, rfl, hr, collect_sorted S get n f fs hc⟩
  | err e => rw [hc] at hr; exact absurd hr (by simp [RelP])

theorem collect_err_iff (S : SortFn) (get : Store) (n : Nat) (f : Frame) (e : Err) :
    collect S.sort get n f = .err e ↔ walk get n f = .err e := by
  have hr := collect_rel_walk S get n f
  constructor
  · intro h; rw [h] at hr
    cases hw : walk get n f with
    | ok ws => rw [hw] at hr; exact absurd hr (by simp [RelP])
    | err e' => rw [hw] at hr; simp only [RelP] at hr; rw [hr]
  · intro h; rw [h] at hr
    cases hc : collect S.sort get n f with
    | ok ws => rw [hc] at hr; exact absurd hr (by simp [RelP])
    | err e' => rw [hc] at hr; simp only [RelP] at hr; rw [hr]

/-! ## fuel: answers other than `fuel` do not depend on the fuel; cyclic graphs never return -/

theorem gather_transfer (Q : Res (List Frame) → Prop) (hQ : ∀ a, Q (.ok a))
    (g g' : Cid → Res (List Frame)) (l : List Cid)
    (h : ∀ c ∈ l, Q (g c) → g' c = g c) (hq : Q (gather g l)) : gather g' l = gather g l := by
  induction l with
  | nil => rfl
  | cons c cs ih =>
    have hc := h c (List.mem_cons_self ..)
    have ih' := ih (fun x hx => h x (List.mem_cons_of_mem _ hx))
    unfold gather at hq ⊢
    cases h1 : g c with
    | err e =>
      rw [h1] at hq hc
      rw [hc hq]
    | ok a =>
      rw [h1] at hq hc
      rw [hc (hQ a)]
      simp only at hq ⊢
      cases h2 : gather g cs with
      | err e => rw [h2] at hq ih'; simp only at hq; rw [ih' hq]
      | ok b => rw [h2] at ih'; rw [ih' (hQ b)]

def NotFuel (r : Res (List Frame)) : Prop := r ≠ .err .fuel

theorem walk_fuel_succ (get : Store) (n : Nat) (f : Frame) (h : NotFuel (walk get n f)) :
    walk get (n+1) f = walk get n f := by
  induction n generalizing f with
  | zero => exact absurd rfl h
  | succ n ih =>
    have hg : NotFuel (gather (fetch get fun g => walk get n g) f.next) := by
      intro hc; apply h; unfold walk; rw [hc]
    have := gather_transfer NotFuel (fun a => by simp [NotFuel]) (fetch get fun g => walk get n g)
      (fetch get fun g => walk get (n+1) g) f.next
      (fun c _ hq => by
        unfold fetch at hq ⊢
        cases hc : get c with
        | none => rfl
        | some g => rw [hc] at hq; exact ih g hq) hg
    show (match gather (fetch get fun g => walk get (n+1) g) f.next with
      | .err e => .err e | .ok r => .ok (f :: r)) = walk get (n+1) f
    rw [this]; rfl

theorem collect_fuel_succ (S : List Frame → List Frame) (get : Store) (n : Nat) (f : Frame)
    (h : NotFuel (collect S get n f)) : collect S get (n+1) f = collect S get n f := by
  induction n generalizing f with
  | zero => exact absurd rfl h
  | succ n ih =>
    by_cases hn : f.next = []
    · simp [collect, hn]
    · have hg : NotFuel (gather (fetch get fun g => collect S get n g) f.next) := by
        intro hc; apply h; unfold collect; simp only [hn, if_false]; rw [hc]
      have := gather_transfer NotFuel (fun a => by simp [NotFuel]) (fetch get fun g => collect S get n g)
        (fetch get fun g => collect S get (n+1) g) f.next
        (fun c _ hq => by
          unfold fetch at hq ⊢
          cases hc : get c with
          | none => rfl
          | some g => rw [hc] at hq; exact ih g hq) hg
      show (if f.next = [] then Res.ok [f] else
        match gather (fetch get fun g => collect S get (n+1) g) f.next with
        | .err e => .err e | .ok r => .ok (S (f :: r))) = collect S get (n+1) f
      rw [this]; rfl

/-- once `collect` has answered (frames or a real error) more fuel gives the same answer -/
theorem collect_fuel_mono (S : List Frame → List Frame) (get : Store) (n m : Nat) (f : Frame)
    (h : NotFuel (collect S get n f)) (hnm : n ≤ m) : collect S get m f = collect S get n f := by
  induction m with
  | zero => have : n = 0 := by omega
            subst this; rfl
  | succ m ih =>
    by_cases hm : n = m + 1
    · subst hm; rfl
    · have hle : n ≤ m := by omega
      have e := ih hle
      rw [← e] at h
      rw [collect_fuel_succ S get m f h, e]

theorem load_fuel_mono (H : Hashes) (S : List Frame → List Frame) (get : Store) (n m : Nat) (f : Frame)
    (h : load H S get n f ≠ .err .fuel) (hnm : n ≤ m) : load H S get m f = load H S get n f := by
  have hc : NotFuel (collect S get n f) := by
    intro hc; apply h; unfold load; rw [hc]
  unfold load
  rw [collect_fuel_mono S get n m f hc hnm]

/-- `g` is reachable from `f` through `next` links present in the store (one or more steps) -/
inductive Reach (get : Store) : Frame → Frame → Prop
  | step {f g : Frame} {c : Cid} : c ∈ f.next → get c = some g → Reach get f g
  | trans {f g h : Frame} : Reach get f g → Reach get g h → Reach get f h

theorem gather_ok_mem (g : Cid → Res (List Frame)) (l : List Cid) (r : List Frame) (h : gather g l = .ok r) :
    ∀ c ∈ l, ∃ a, g c = .ok a := by
  induction l generalizing r with
  | nil => intro c hc; cases hc
  | cons x xs ih =>
    unfold gather at h
    cases h1 : g x with
    | err e => rw [h1] at h; cases h
    | ok a =>
      rw [h1] at h; simp only at h
      cases h2 : gather g xs with
      | err e => rw [h2] at h; cases h
      | ok b =>
        intro c hc
        rcases List.mem_cons.mp hc with rfl | hc
        · exact ⟨a, h1⟩
        · exact ih b h2 c hc

theorem walk_ok_reach (get : Store) (n : Nat) (f g : Frame) (hr : Reach get f g) :
    ∀ ws, walk get n f = .ok ws → ∃ m ws', m < n ∧ walk get m g = .ok ws' := by
  induction hr generalizing n with
  | @step f g c hc hg =>
    intro ws hw
    cases n with
    | zero => simp [walk] at hw
    | succ n =>
      unfold walk at hw
      cases h1 : gather (fetch get fun g => walk get n g) f.next with
      | err e => rw [h1] at hw; cases hw
      | ok r =>
        obtain ⟨a, ha⟩ := gather_ok_mem _ _ r h1 c hc
        unfold fetch at ha; rw [hg] at ha
        exact ⟨n, a, Nat.lt_succ_self n, ha⟩
  | trans _ _ ih1 ih2 =>
    intro ws hw
    obtain ⟨m, ws', hm, hw'⟩ := ih1 n ws hw
    obtain ⟨m', ws'', hm', hw''⟩ := ih2 m ws' hw'
    exact ⟨m', ws'', Nat.lt_trans hm' hm, hw''⟩

/-- a frame that can reach itself is never reassembled, whatever the fuel (the Go recursion does not return) -/
theorem cyclic_never_ok (S : SortFn) (get : Store) (f : Frame) (hcyc : Reach get f f) (n : Nat) :
    ∀ fs, collect S.sort get n f ≠ .ok fs := by
  intro fs hfs
  obtain ⟨ws, hw, _⟩ := collect_ok_iff S get n f fs hfs
  have : ∀ k, ∀ n ws, n ≤ k → walk get n f ≠ .ok ws := by
    intro k
    induction k with
    | zero => intro n ws hn; have : n = 0 := by omega
              subst this; simp [walk]
    | succ k ih =>
      intro n ws hn hw
      obtain ⟨m, ws', hm, hw'⟩ := walk_ok_reach get n f f hcyc ws hw
      exact ih m ws' (by omega) hw'
  exact this n n ws (Nat.le_refl _) hw

/-! ## a bigger store changes nothing (used for the per-transaction map of `accum`) -/

def IsOk (r : Res (List Frame)) : Prop := ∃ a, r = .ok a

theorem collect_store_mono (S : List Frame → List Frame) (get get' : Store)
    (hsub : ∀ c g, get c = some g → get' c = some g) (n : Nat) (f : Frame) (fs : List Frame)
    (h : collect S get n f = .ok fs) : collect S get' n f = .ok fs := by
  induction n generalizing f fs with
  | zero => simp [collect] at h
  | succ n ih =>
    unfold collect at h ⊢
    by_cases hn : f.next = []
    · simpa [hn] using h
    · simp only [hn, if_false] at h ⊢
      cases h1 : gather (fetch get fun g => collect S get n g) f.next with
      | err e => rw [h1] at h; cases h
      | ok r =>
        rw [h1] at h
        have := gather_transfer IsOk (fun a => ⟨a, rfl⟩) (fetch get fun g => collect S get n g)
          (fetch get' fun g => collect S get' n g) f.next
          (fun c _ hq => by
            unfold fetch at hq ⊢
            cases hc : get c with
            | none => rw [hc] at hq; obtain ⟨a, ha⟩ := hq; cases ha
            | some g =>
              rw [hc] at hq; rw [hsub c g hc]
              obtain ⟨a, ha⟩ := hq
              simp only at ha ⊢
              rw [ha]; exact ih g a ha) ⟨r, h1⟩
        rw [this, h1]; exact h

theorem load_store_mono (H : Hashes) (S : List Frame → List Frame) (get get' : Store)
    (hsub : ∀ c g, get c = some g → get' c = some g) (n : Nat) (f : Frame) (b : Bytes)
    (h : load H S get n f = .ok b) : load H S get' n f = .ok b := by
  unfold load at h ⊢
  cases hc : collect S get n f with
  | err e => rw [hc] at h; cases h
  | ok fs => rw [hc] at h; rw [collect_store_mono S get get' hsub n f fs hc]; exact h

/-! ## reassembly of a well-formed frame set -/

/-- indices present and strictly increasing along the list -/
def StrictIdx (l : List Frame) : Prop :=
  l.Pairwise (fun a b => ∃ i j, a.index = some i ∧ b.index = some j ∧ i < j)

theorem pairwise_mem_cases {α : Type} {R : α → α → Prop} {l : List α} (h : l.Pairwise R) {a b : α}
    (ha : a ∈ l) (hb : b ∈ l) : a = b ∨ R a b ∨ R b a := by
  induction l with
  | nil => cases ha
  | cons x xs ih =>
    have hx := List.pairwise_cons.mp h
    rcases List.mem_cons.mp ha with h1 | h1 <;> rcases List.mem_cons.mp hb with h2 | h2
    · exact Or.inl (h1.trans h2.symm)
    · subst h1; exact Or.inr (Or.inl (hx.1 b h2))
    · subst h2; exact Or.inr (Or.inr (hx.1 a h1))
    · exact ih hx.2 h1 h2

theorem StrictIdx.sorted {l : List Frame} (h : StrictIdx l) : Sorted l := by
  refine List.Pairwise.imp ?_ h
  intro a b ⟨i, j, ha, hb, hij⟩
  unfold le less; rw [ha, hb]; simp; omega

/-- a sorted permutation of a list with distinct present indices is that list: the unstable sort has no freedom -/
theorem sorted_perm_unique {fs canon : List Frame} (hc : StrictIdx canon) (hp : fs.Perm canon) (hs : Sorted fs) :
    fs = canon := by
  refine List.Perm.eq_of_pairwise ?_ hs hc.sorted hp
  intro a b ha hb hab hba
  have ha' := hp.mem_iff.mp ha
  rcases pairwise_mem_cases hc ha' hb with h | ⟨i, j, hi, hj, hij⟩ | ⟨i, j, hi, hj, hij⟩
  · exact h
  · have := le_antisymm_index a b i j hi hj hab hba; omega
  · have := le_antisymm_index b a i j hi hj hba hab; omega

/-- whatever the shape of the link graph and the order in which the frames are fetched: if the walk
delivers exactly the frames `canon` (each once, in any order) and these carry distinct indices, the
sorted result is `canon` itself -/
theorem collect_of_walk_perm (S : SortFn) (get : Store) (n : Nat) (first : Frame) (ws canon : List Frame)
    (hw : walk get n first = .ok ws) (hp : ws.Perm canon) (hc : StrictIdx canon) :
    collect S.sort get n first = .ok canon := by
  obtain ⟨fs, hfs, hperm, hsorted⟩ := collect_of_walk S get n first ws hw
  rw [hfs, sorted_perm_unique hc (hperm.trans hp) hsorted]

theorem load_of_walk_perm (H : Hashes) (S : SortFn) (get : Store) (n : Nat) (first : Frame)
    (ws canon : List Frame)
    (hw : walk get n first = .ok ws) (hp : ws.Perm canon) (hc : StrictIdx canon)
    (ht : ∀ t, first.total = some t → t = (canon.length : Int))
    (hh : ∀ h, first.hash = some h → H.crc (payloadOf canon) = h ∨ H.fnv (payloadOf canon) = h) :
    load H S.sort get n first = .ok (payloadOf canon) := by
  unfold load
  rw [collect_of_walk_perm S get n first ws canon hw hp hc]
  unfold finish
  have h1 : (match first.total with
      | some t => decide ((canon.length : Int) = t)
      | none => true) = true := by
    cases htot : first.total with
    | none => rfl
    | some t => simp [ht t htot]
  simp only [h1, if_true]
  cases hhash : first.hash with
  | none => rfl
  | some h =>
    have : verifyHash H (payloadOf canon) h = true := by
      unfold verifyHash
      rcases hh h hhash with e | e <;> simp [e]
    simp [this]

/-! ## the layout of the schema comment -/

/-- the `next` links of frame `j` out of `k` with fan-out `F`, as in the comment of `ledger.ipldsch`:
frame `0` links to `1..F`, frame `F` (the last of those) to `F+1..2F`, and so on; other frames link to nothing -/
def nextOf (k F j : Nat) : List Cid :=
  if j % F = 0 then List.range' (j+1) (min F (k-1-j)) else []

/-- frame `j` of the payload `chunks.flatten`; `σ j` is the order in which frame `j` lists its links -/
def mkFrame (chunks : List Bytes) (F : Nat) (tot : Bool) (h : Option Nat) (σ : Nat → List Cid → List Cid)
    (j : Nat) : Frame :=
  { index := some (j : Int)
    total := if tot then some (chunks.length : Int) else none
    hash := h
    data := chunks.getD j []
    next := σ j (nextOf chunks.length F j) }

/-- the store a writer following the comment fills (CID of frame `j` is `j`) -/
def layoutStore (chunks : List Bytes) (F : Nat) (tot : Bool) (h : Option Nat) (σ : Nat → List Cid → List Cid) :
    Store :=
  fun c => if c < chunks.length then some (mkFrame chunks F tot h σ c) else none

theorem flatMap_singleton_eq_map {α β : Type} (l : List α) (r : α → List β) (m : α → β)
    (h : ∀ x ∈ l, r x = [m x]) : l.flatMap r = l.map m := by
  induction l with
  | nil => rfl
  | cons x xs ih =>
    simp only [List.flatMap_cons, List.map_cons]
    rw [h x (List.mem_cons_self ..), ih (fun y hy => h y (List.mem_cons_of_mem _ hy))]
    rfl

theorem gather_perm_spec (g : Cid → Res (List Frame)) (r : Cid → List Frame) (l : List Cid)
    (h : ∀ x ∈ l, ∃ a, g x = .ok a ∧ a.Perm (r x)) : ∃ b, gather g l = .ok b ∧ b.Perm (l.flatMap r) := by
  induction l with
  | nil => exact ⟨[], rfl, List.Perm.refl _⟩
  | cons x xs ih =>
    obtain ⟨a, ha, hpa⟩ := h x (List.mem_cons_self ..)
    obtain ⟨b, hb, hpb⟩ := ih (fun y hy => h y (List.mem_cons_of_mem _ hy))
    refine ⟨a ++ b, ?_, ?_⟩
    · unfold gather; rw [ha]; simp only; rw [hb]
    · simp only [List.flatMap_cons]; exact hpa.append hpb

theorem mod_between (F q t : Nat) (ht0 : 0 < t) (htF : t < F) : (F * q + t) % F ≠ 0 := by
  rw [Nat.mul_add_mod, Nat.mod_eq_of_lt htF]; omega

section Layout
variable (chunks : List Bytes) (F : Nat) (tot : Bool) (h : Option Nat) (σ : Nat → List Cid → List Cid)

local notation "mk" => mkFrame chunks F tot h σ
local notation "k" => chunks.length

/-- what the walk delivers below link `x` -/
def below (x : Nat) : List Frame :=
  if x % F = 0 then (List.range' x (k - x)).map mk else [mk x]

theorem below_flatMap (hF : 0 < F) (j : Nat) (hj : j % F = 0) (hjk : j < k) :
    (List.range' (j+1) (min F (k-1-j))).flatMap (below chunks F tot h σ) = (List.range' (j+1) (k-1-j)).map mk := by
  obtain ⟨q, rfl⟩ := Nat.dvd_of_mod_eq_zero hj
  by_cases hc : F ≤ k - 1 - F * q
  · -- a full group of F links, the last one continues the chain
    have hmin : min F (k - 1 - F * q) = (F - 1) + 1 := by omega
    rw [hmin, ← List.range'_append (s := F * q + 1) (m := F - 1) (n := 1) (step := 1)]
    rw [List.flatMap_append]
    have e1 : (List.range' (F * q + 1) (F - 1)).flatMap (below chunks F tot h σ)
        = (List.range' (F * q + 1) (F - 1)).map mk := by
      apply flatMap_singleton_eq_map
      intro x hx
      obtain ⟨i, hi, rfl⟩ := List.mem_range'.mp hx
      unfold below
      have : (F * q + 1 + 1 * i) % F ≠ 0 := by
        have := mod_between F q (1 + i) (by omega) (by omega)
        rwa [show F * q + (1 + i) = F * q + 1 + 1 * i by omega] at this
      exact if_neg this
    have e2 : (List.range' (F * q + 1 + 1 * (F - 1)) 1).flatMap (below chunks F tot h σ)
        = (List.range' (F * q + 1 + 1 * (F - 1)) (k - 1 - F * q - (F - 1))).map mk := by
      have hs : F * q + 1 + 1 * (F - 1) = F * q + F := by omega
      rw [hs]
      simp only [List.range'_one, List.flatMap_cons, List.flatMap_nil, List.append_nil]
      unfold below
      have : (F * q + F) % F = 0 := by rw [Nat.add_mod_right, Nat.mul_mod_right]
      simp only [this, if_true]
      congr 2; omega
    rw [e1, e2, ← List.map_append, List.range'_append]
    congr 2; omega
  · -- fewer than F frames remain: all of them are leaves
    have hmin : min F (k - 1 - F * q) = k - 1 - F * q := by omega
    rw [hmin]
    apply flatMap_singleton_eq_map
    intro x hx
    obtain ⟨i, hi, rfl⟩ := List.mem_range'.mp hx
    unfold below
    have : (F * q + 1 + 1 * i) % F ≠ 0 := by
      have := mod_between F q (1 + i) (by omega) (by omega)
      rwa [show F * q + (1 + i) = F * q + 1 + 1 * i by omega] at this
    exact if_neg this

theorem layout_walk (hF : 0 < F) (hσ : ∀ j l, (σ j l).Perm l) (get : Store)
    (hget : ∀ c, c < k → get c = some (mk c)) :
    ∀ d j n, j % F = 0 → j < k → k - j ≤ d → d ≤ n →
      ∃ ws, walk get n (mk j) = .ok ws ∧ ws.Perm ((List.range' j (k - j)).map mk) := by
  intro d
  induction d with
  | zero => intro j n _ hjk hd _; omega
  | succ d ih =>
    intro j n hj hjk hd hn
    obtain ⟨n', rfl⟩ : ∃ n', n = n' + 1 := ⟨n - 1, by omega⟩
    have hnext : (mk j).next = σ j (List.range' (j+1) (min F (k-1-j))) := by
      simp [mkFrame, nextOf, hj]
    have hmem : ∀ x ∈ (mk j).next, ∃ a, fetch get (fun g => walk get n' g) x = .ok a ∧
        a.Perm (below chunks F tot h σ x) := by
      intro x hx
      rw [hnext] at hx
      have hx' := (hσ _ _).mem_iff.mp hx
      obtain ⟨i, hi, rfl⟩ := List.mem_range'.mp hx'
      have hxk : j + 1 + 1 * i < k := by omega
      unfold fetch; rw [hget _ hxk]; simp only
      unfold below
      by_cases hm : (j + 1 + 1 * i) % F = 0
      · simp only [hm, if_true]
        exact ih (j + 1 + 1 * i) n' hm hxk (by omega) (by omega)
      · simp only [hm, if_false]
        obtain ⟨n'', rfl⟩ : ∃ n'', n' = n'' + 1 := ⟨n' - 1, by omega⟩
        have hleaf : (mk (j + 1 + 1 * i)).next = [] := by
          have : (mk (j + 1 + 1 * i)).next = σ (j + 1 + 1 * i) [] := by
            simp only [mkFrame, nextOf, if_neg hm]
          rw [this]; exact List.Perm.eq_nil (hσ _ _)
        refine ⟨[mk (j + 1 + 1 * i)], ?_, List.Perm.refl _⟩
        unfold walk; rw [hleaf]; rfl
    obtain ⟨b, hb, hpb⟩ := gather_perm_spec _ (below chunks F tot h σ) _ hmem
    refine ⟨mk j :: b, ?_, ?_⟩
    · unfold walk; rw [hb]
    · have e : (List.range' j (k - j)).map mk = mk j :: (List.range' (j+1) (k-1-j)).map mk := by
        have : k - j = (k - 1 - j) + 1 := by omega
        rw [this, List.range'_succ]; rfl
      rw [e]
      refine List.Perm.cons _ (hpb.trans ?_)
      rw [hnext]
      refine (List.Perm.flatMap_right _ (hσ _ _)).trans ?_
      rw [below_flatMap chunks F tot h σ hF j hj hjk]

theorem canon_strict (j m : Nat) : StrictIdx ((List.range' j m).map mk) := by
  unfold StrictIdx
  rw [List.pairwise_map]
  refine List.Pairwise.imp ?_ (List.pairwise_lt_range' (s := j) (n := m) 1)
  intro a b hab
  exact ⟨(a : Int), (b : Int), rfl, rfl, by omega⟩

theorem canon_payload : payloadOf ((List.range' 0 k).map mk) = chunks.flatten := by
  unfold payloadOf
  congr 1
  apply List.ext_getElem
  · simp
  · intro i h1 h2
    simp [mkFrame] at h1 ⊢
    simp [List.getElem?_eq_getElem h1]

end Layout

/-! ## what `load` answers on a layout, whatever hash the first frame carries -/

/-- the checksum step alone -/
def hashStep (H : Hashes) (h : Option Nat) (b : Bytes) : Res Bytes :=
  match h with
  | none => .ok b
  | some x => if verifyHash H b x then .ok b else .err .hash

theorem load_layout (H : Hashes) (S : SortFn) (chunks : List Bytes) (F : Nat) (tot : Bool) (h : Option Nat)
    (σ : Nat → List Cid → List Cid) (hne : chunks ≠ []) (hF : 0 < F) (hσ : ∀ j l, (σ j l).Perm l)
    (get : Store) (hget : ∀ c, c < chunks.length → get c = some (mkFrame chunks F tot h σ c))
    (n : Nat) (hn : chunks.length ≤ n) :
    load H S.sort get n (mkFrame chunks F tot h σ 0) = hashStep H h chunks.flatten := by
  have hk : 0 < chunks.length := List.length_pos_iff.mpr hne
  obtain ⟨ws, hw, hp⟩ := layout_walk chunks F tot h σ hF hσ get hget chunks.length 0 n
    (Nat.zero_mod F) hk (by omega) hn
  simp only [Nat.sub_zero] at hp
  unfold load
  rw [collect_of_walk_perm S get n _ ws _ hw hp (canon_strict chunks F tot h σ 0 chunks.length)]
  unfold finish
  have h1 : (match (mkFrame chunks F tot h σ 0).total with
      | some t => decide (((List.map (mkFrame chunks F tot h σ) (List.range' 0 chunks.length)).length : Int) = t)
      | none => true) = true := by
    cases tot <;> simp [mkFrame]
  simp only [h1, if_true, canon_payload]
  rfl

/-! ## faults -/

theorem walk_ok_cons (get : Store) (n : Nat) (f : Frame) (ws : List Frame) (h : walk get n f = .ok ws) :
    ∃ r, ws = f :: r := by
  cases n with
  | zero => simp [walk] at h
  | succ n =>
    unfold walk at h
    cases h1 : gather (fetch get fun g => walk get n g) f.next with
    | err e => rw [h1] at h; cases h
    | ok r => rw [h1] at h; injection h with h; exact ⟨r, h.symm⟩

/-- a wrong number of frames is always reported when the first frame carries the count -/
theorem count_fault_detected (H : Hashes) (S : SortFn) (get : Store) (n : Nat) (first : Frame) (ws : List Frame)
    (t : Int) (hw : walk get n first = .ok ws) (ht : first.total = some t) (hlen : (ws.length : Int) ≠ t) :
    load H S.sort get n first = .err .count := by
  obtain ⟨fs, hfs, hperm, _⟩ := collect_of_walk S get n first ws hw
  unfold load finish
  rw [hfs, ht]
  have : ((fs.length : Int) = t) = False := by
    rw [hperm.length_eq]; exact eq_false hlen
  simp [this]

/-- an error while fetching is the answer -/
theorem fetch_fault_detected (H : Hashes) (S : SortFn) (get : Store) (n : Nat) (first : Frame) (e : Err)
    (hw : walk get n first = .err e) : load H S.sort get n first = .err e := by
  unfold load
  rw [(collect_err_iff S get n first e).mpr hw]

/-- a link to a frame the store does not hold, anywhere below the first frame, is never reassembled -/
theorem missing_frame_detected (H : Hashes) (S : SortFn) (get : Store) (n : Nat) (first g : Frame) (c : Cid)
    (hg : g = first ∨ Reach get first g) (hc : c ∈ g.next) (hnone : get c = none) :
    ∀ b, load H S.sort get n first ≠ .ok b := by
  intro b hb
  unfold load at hb
  cases hcol : collect S.sort get n first with
  | err e => rw [hcol] at hb; cases hb
  | ok fs =>
    obtain ⟨ws, hw, _⟩ := collect_ok_iff S get n first fs hcol
    have : ∃ m ws', walk get m g = .ok ws' := by
      rcases hg with rfl | hr
      · exact ⟨n, ws, hw⟩
      · obtain ⟨m, ws', _, h⟩ := walk_ok_reach get n first g hr ws hw; exact ⟨m, ws', h⟩
    obtain ⟨m, ws', hw'⟩ := this
    cases m with
    | zero => simp [walk] at hw'
    | succ m =>
      unfold walk at hw'
      cases h1 : gather (fetch get fun g => walk get m g) g.next with
      | err e => rw [h1] at hw'; cases hw'
      | ok r =>
        obtain ⟨a, ha⟩ := gather_ok_mem _ _ r h1 c hc
        unfold fetch at ha; rw [hnone] at ha; cases ha

theorem gather_erase (g : Cid → Res (List Frame)) (l : List Cid) (r : List Frame) (c : Cid)
    (h : gather g l = .ok r) (hc : c ∈ l) :
    ∃ a r', g c = .ok a ∧ gather g (l.erase c) = .ok r' ∧ r.length = a.length + r'.length := by
  induction l generalizing r with
  | nil => cases hc
  | cons x xs ih =>
    unfold gather at h
    cases h1 : g x with
    | err e => rw [h1] at h; cases h
    | ok a =>
      rw [h1] at h; simp only at h
      cases h2 : gather g xs with
      | err e => rw [h2] at h; cases h
      | ok b =>
        rw [h2] at h; injection h with h; subst h
        by_cases hx : x = c
        · subst hx
          exact ⟨a, b, h1, by simp [h2], by simp⟩
        · have hc' : c ∈ xs := by
            rcases List.mem_cons.mp hc with e | e
            · exact absurd e.symm hx
            · exact e
          obtain ⟨a', r', ha', hr', hlen⟩ := ih b h2 hc'
          refine ⟨a', a ++ r', ha', ?_, ?_⟩
          · have he : (x :: xs).erase c = x :: xs.erase c := by
              rw [List.erase_cons]; simp [hx]
            rw [he]
            simp only [gather, h1, hr']
          · simp [hlen]; omega

/-- the first frame lists one link less (a frame, with everything below it, is dropped): count error -/
theorem drop_link_detected (H : Hashes) (S : SortFn) (get : Store) (n : Nat) (first : Frame) (ws : List Frame)
    (c : Cid) (hw : walk get (n+1) first = .ok ws) (ht : first.total = some (ws.length : Int))
    (hc : c ∈ first.next) :
    load H S.sort get (n+1) { first with next := first.next.erase c } = .err .count := by
  unfold walk at hw
  cases h1 : gather (fetch get fun g => walk get n g) first.next with
  | err e => rw [h1] at hw; cases hw
  | ok r =>
    rw [h1] at hw; injection hw with hw; subst hw
    obtain ⟨a, r', ha, hr', hlen⟩ := gather_erase _ _ r c h1 hc
    have hapos : 0 < a.length := by
      unfold fetch at ha
      cases hg : get c with
      | none => rw [hg] at ha; cases ha
      | some g =>
        rw [hg] at ha
        obtain ⟨x, hx⟩ := walk_ok_cons get n g a ha
        rw [hx]; simp
    refine count_fault_detected H S get (n+1) _ ({ first with next := first.next.erase c } :: r')
      ((first :: r).length : Int) ?_ ht ?_
    · unfold walk; simp only; rw [hr']
    · simp [hlen]; omega

/-- the first frame lists one link twice (a frame is duplicated): count error -/
theorem dup_link_detected (H : Hashes) (S : SortFn) (get : Store) (n : Nat) (first : Frame) (ws : List Frame)
    (c : Cid) (hw : walk get (n+1) first = .ok ws) (ht : first.total = some (ws.length : Int))
    (hc : c ∈ first.next) :
    load H S.sort get (n+1) { first with next := c :: first.next } = .err .count := by
  unfold walk at hw
  cases h1 : gather (fetch get fun g => walk get n g) first.next with
  | err e => rw [h1] at hw; cases hw
  | ok r =>
    rw [h1] at hw; injection hw with hw; subst hw
    obtain ⟨a, ha⟩ := gather_ok_mem _ _ r h1 c hc
    have hapos : 0 < a.length := by
      unfold fetch at ha
      cases hg : get c with
      | none => rw [hg] at ha; cases ha
      | some g =>
        rw [hg] at ha
        obtain ⟨x, hx⟩ := walk_ok_cons get n g a ha
        rw [hx]; simp
    refine count_fault_detected H S get (n+1) _ ({ first with next := c :: first.next } :: (a ++ r))
      ((first :: r).length : Int) ?_ ht ?_
    · unfold walk; simp only
      unfold gather; rw [ha]; simp only; rw [h1]
    · simp; omega

theorem flatten_set_ne (chunks : List Bytes) (c : Nat) (d : Bytes) (hc : c < chunks.length)
    (hd : d ≠ chunks.getD c []) : (chunks.set c d).flatten ≠ chunks.flatten := by
  rw [List.set_eq_take_append_cons_drop]
  simp only [hc, if_true]
  intro heq
  have e : chunks = chunks.take c ++ chunks.getD c [] :: chunks.drop (c+1) := by
    have h1 : chunks.drop c = chunks.getD c [] :: chunks.drop (c+1) := by
      rw [List.drop_eq_getElem_cons hc]
      simp [List.getElem?_eq_getElem hc]
    conv => lhs; rw [← List.take_append_drop c chunks, h1]
  conv at heq => rhs; rw [e]
  simp only [List.flatten_append, List.flatten_cons] at heq
  have h2 := List.append_cancel_left heq
  have h3 := List.append_cancel_right h2
  simp at h3
  exact hd h3

/-! ## the unstable sort: every answer the real code can give -/

/-- all ways to put `x` into a sorted list keeping it sorted -/
def insAll (x : Frame) : List Frame → List (List Frame)
  | [] => [[x]]
  | y :: ys => (if le x y then [x :: y :: ys] else []) ++ (if le y x then (insAll x ys).map (y :: ·) else [])

/-- all sorted permutations (exactly one when the indices are distinct) -/
def sortedPerms : List Frame → List (List Frame)
  | [] => [[]]
  | x :: xs => (sortedPerms xs).flatMap (insAll x)

theorem mem_insAll (x : Frame) (a b : List Frame) (h : Sorted (a ++ x :: b)) : a ++ x :: b ∈ insAll x (a ++ b) := by
  induction a with
  | nil =>
    cases b with
    | nil => simp [insAll]
    | cons y ys =>
      have hxy : le x y = true := (List.pairwise_cons.mp h).1 y (List.mem_cons_self ..)
      simp [insAll, hxy]
  | cons y a' ih =>
    have hy := List.pairwise_cons.mp h
    have hyx : le y x = true := hy.1 x (by simp)
    have := ih hy.2
    simp only [List.cons_append, insAll, hyx, if_true, List.mem_append, List.mem_map]
    exact Or.inr ⟨_, this, rfl⟩

theorem mem_sortedPerms (ws fs : List Frame) (hp : fs.Perm ws) (hs : Sorted fs) : fs ∈ sortedPerms ws := by
  induction ws generalizing fs with
  | nil => have := hp.eq_nil; subst this; simp [sortedPerms]
  | cons x xs ih =>
    have hx : x ∈ fs := hp.symm.mem_iff.mp (List.mem_cons_self ..)
    obtain ⟨a, b, rfl⟩ := List.append_of_mem hx
    have hp' : (a ++ b).Perm xs := List.Perm.cons_inv (List.perm_middle.symm.trans hp)
    have hs' : Sorted (a ++ b) := by
      refine List.Pairwise.sublist ?_ hs
      exact List.Sublist.append (List.Sublist.refl a) (List.sublist_cons_self x b)
    have := ih (a ++ b) hp' hs'
    unfold sortedPerms
    exact List.mem_flatMap.mpr ⟨a ++ b, this, mem_insAll x a b hs⟩

/-- the answers allowed by the contract of `sort.Slice` -/
def outcomes (H : Hashes) (get : Store) (n : Nat) (first : Frame) : List (Res Bytes) :=
  match walk get n first with
  | .err e => [.err e]
  | .ok ws => (sortedPerms ws).map (finish H first)

theorem load_mem_outcomes (H : Hashes) (S : SortFn) (get : Store) (n : Nat) (first : Frame) :
    load H S.sort get n first ∈ outcomes H get n first := by
  unfold outcomes load
  cases hw : walk get n first with
  | err e => rw [(collect_err_iff S get n first e).mpr hw]; simp
  | ok ws =>
    obtain ⟨fs, hfs, hperm, hsorted⟩ := collect_of_walk S get n first ws hw
    rw [hfs]
    exact List.mem_map.mpr ⟨fs, mem_sortedPerms ws fs hperm hsorted, rfl⟩

/-! ## `accum.ObjectsToTransactionsAndMetadata`: frames resolved from a per-transaction map -/

inductive Obj where
  | frame (c : Cid) (f : Frame)   -- a DataFrame object of the CAR section stream
  | tx (metadata : Frame)         -- a Transaction object; `metadata` is its embedded first metadata frame
  | other                         -- any other kind (skipped)
deriving Repr

/-- `dataBlocksMap[wantedCid.String()]` (a later entry with the same CID overwrites an earlier one) -/
def lookup (m : List (Cid × Frame)) : Store := fun c => m.lookup c

/-- `if total, ok := Metadata.GetTotal(); !ok || total == 1` -/
def single (first : Frame) : Bool :=
  match first.total with
  | none => true
  | some t => t == 1

/-- the metadata bytes of one transaction, frames resolved through `get` -/
def txMeta (H : Hashes) (S : List Frame → List Frame) (fuel : Nat) (get : Store) (first : Frame) : Res Bytes :=
  if single first then hashStep H first.hash first.data
  else load H S get fuel first

/-- the loop of `ObjectsToTransactionsAndMetadata`: DataFrame objects go into the map, a Transaction object
consumes it and clears it; the first error aborts the whole call -/
def accRun (H : Hashes) (S : List Frame → List Frame) (fuel : Nat) : List (Cid × Frame) → List Obj → Res (List Bytes)
  | _, [] => .ok []
  | m, .frame c f :: rest => accRun H S fuel ((c, f) :: m) rest
  | m, .other :: rest => accRun H S fuel m rest
  | m, .tx first :: rest =>
    match txMeta H S fuel (lookup m) first with
    | .err e => .err e
    | .ok b =>
      match accRun H S fuel [] rest with
      | .err e => .err e
      | .ok bs => .ok (b :: bs)

/-- the same loop with one epoch-wide getter (what `getTransactionAndMetaFromNode` / `GetDataFrameByCid` do) -/
def globalRun (H : Hashes) (S : List Frame → List Frame) (fuel : Nat) (get : Store) : List Obj → Res (List Bytes)
  | [] => .ok []
  | .frame _ _ :: rest => globalRun H S fuel get rest
  | .other :: rest => globalRun H S fuel get rest
  | .tx first :: rest =>
    match txMeta H S fuel get first with
    | .err e => .err e
    | .ok b =>
      match globalRun H S fuel get rest with
      | .err e => .err e
      | .ok bs => .ok (b :: bs)

theorem lookup_mem (m : List (Cid × Frame)) (c : Cid) (f : Frame) (h : lookup m c = some f) : (c, f) ∈ m := by
  unfold lookup at h
  induction m with
  | nil => simp at h
  | cons x xs ih =>
    obtain ⟨k, v⟩ := x
    rw [List.lookup_cons] at h
    by_cases hk : c = k
    · subst hk; simp at h; subst h; exact List.mem_cons_self ..
    · have : (c == k) = false := by simp [hk]
      simp only [this] at h
      exact List.mem_cons_of_mem _ (ih h)

/-- content addressing: every DataFrame object of the stream is what the epoch-wide getter returns for its CID -/
def Consistent (get : Store) (m : List (Cid × Frame)) (objs : List Obj) : Prop :=
  (∀ c f, (c, f) ∈ m → get c = some f) ∧ (∀ c f, Obj.frame c f ∈ objs → get c = some f)

theorem accRun_global (H : Hashes) (S : List Frame → List Frame) (fuel : Nat) (get : Store)
    (objs : List Obj) : ∀ (m : List (Cid × Frame)) (bs : List Bytes), Consistent get m objs →
      accRun H S fuel m objs = .ok bs → globalRun H S fuel get objs = .ok bs := by
  induction objs with
  | nil => intro m bs _ h; simpa [accRun, globalRun] using h
  | cons o rest ih =>
    intro m bs hcons h
    cases o with
    | frame c f =>
      unfold accRun at h; unfold globalRun
      refine ih ((c, f) :: m) bs ⟨?_, fun c' f' hm => hcons.2 c' f' (List.mem_cons_of_mem _ hm)⟩ h
      intro c' f' hm
      rcases List.mem_cons.mp hm with e | e
      · injection e with e1 e2; subst e1; subst e2; exact hcons.2 _ _ (List.mem_cons_self ..)
      · exact hcons.1 c' f' e
    | other =>
      unfold accRun at h; unfold globalRun
      exact ih m bs ⟨hcons.1, fun c' f' hm => hcons.2 c' f' (List.mem_cons_of_mem _ hm)⟩ h
    | tx first =>
      unfold accRun at h; unfold globalRun
      cases h1 : txMeta H S fuel (lookup m) first with
      | err e => rw [h1] at h; cases h
      | ok b =>
        rw [h1] at h; simp only at h
        have h1' : txMeta H S fuel get first = .ok b := by
          unfold txMeta at h1 ⊢
          by_cases hs : single first = true
          · simpa [hs] using h1
          · simp only [hs] at h1 ⊢
            exact load_store_mono H S (lookup m) get
              (fun c g hl => hcons.1 c g (lookup_mem m c g hl)) fuel first b h1
        rw [h1']; simp only
        cases h2 : accRun H S fuel [] rest with
        | err e => rw [h2] at h; cases h
        | ok bs' =>
          rw [h2] at h
          have := ih [] bs' ⟨fun _ _ hm => (by cases hm),
            fun c' f' hm => hcons.2 c' f' (List.mem_cons_of_mem _ hm)⟩ h2
          rw [this]; exact h

/-- a single-frame payload: the shortcut of `accum` and `GetSolanaTransaction` (own bytes, own hash) agrees
with `LoadDataFromDataFrames` when the frame has no links -/
theorem single_agrees (H : Hashes) (S : List Frame → List Frame) (get : Store) (n : Nat) (first : Frame)
    (hnext : first.next = []) (hs : single first = true) :
    load H S get (n+1) first = hashStep H first.hash first.data := by
  unfold load collect finish
  simp only [hnext, if_true]
  have hp : payloadOf [first] = first.data := by simp [payloadOf]
  have h1 : (match first.total with
      | some t => decide ((([first] : List Frame).length : Int) = t)
      | none => true) = true := by
    unfold single at hs
    cases ht : first.total with
    | none => rfl
    | some t => rw [ht] at hs; simp at hs; simp [hs]
  simp only [h1, if_true, hp]
  rfl

theorem finish_ne_fuel (H : Hashes) (first : Frame) (fs : List Frame) : finish H first fs ≠ .err .fuel := by
  unfold finish
  generalize (match first.total with
    | some t => decide ((fs.length : Int) = t)
    | none => true) = cnt
  cases cnt with
  | false => simp
  | true =>
    simp only [if_true]
    cases first.hash with
    | none => simp
    | some h => simp only; split <;> simp

/-! ## the fuel is sufficient: with more fuel than frames in the store, `fuel` means a cycle -/

/-- a chain of links followed from a frame -/
inductive Path (get : Store) : Frame → List Cid → Frame → Prop
  | nil (f : Frame) : Path get f [] f
  | cons {f h g : Frame} {c : Cid} {cs : List Cid} :
      c ∈ f.next → get c = some h → Path get h cs g → Path get f (c :: cs) g

theorem gather_err_mem (g : Cid → Res (List Frame)) (l : List Cid) (e : Err) (h : gather g l = .err e) :
    ∃ c ∈ l, g c = .err e := by
  induction l with
  | nil => simp [gather] at h
  | cons x xs ih =>
    unfold gather at h
    cases h1 : g x with
    | err e' =>
      rw [h1] at h; injection h with h; subst h
      exact ⟨x, List.mem_cons_self .., h1⟩
    | ok a =>
      rw [h1] at h; simp only at h
      cases h2 : gather g xs with
      | err e' =>
        rw [h2] at h; injection h with h; subst h
        obtain ⟨c, hc, hg⟩ := ih h2
        exact ⟨c, List.mem_cons_of_mem _ hc, hg⟩
      | ok b => rw [h2] at h; cases h

theorem walk_fuel_path (get : Store) (n : Nat) (f : Frame) (h : walk get n f = .err .fuel) :
    ∃ cs g, cs.length = n ∧ Path get f cs g := by
  induction n generalizing f with
  | zero => exact ⟨[], f, rfl, Path.nil f⟩
  | succ n ih =>
    unfold walk at h
    cases h1 : gather (fetch get fun g => walk get n g) f.next with
    | ok r => rw [h1] at h; cases h
    | err e =>
      rw [h1] at h; injection h with h; subst h
      obtain ⟨c, hc, hg⟩ := gather_err_mem _ _ _ h1
      unfold fetch at hg
      cases hgc : get c with
      | none => rw [hgc] at hg; cases hg
      | some g' =>
        rw [hgc] at hg
        obtain ⟨cs, g, hlen, hp⟩ := ih g' hg
        exact ⟨c :: cs, g, by simp [hlen], Path.cons hc hgc hp⟩

theorem Path.split {get : Store} {f g : Frame} (a b : List Cid) (h : Path get f (a ++ b) g) :
    ∃ m, Path get f a m ∧ Path get m b g := by
  induction a generalizing f with
  | nil => exact ⟨f, Path.nil f, h⟩
  | cons c a ih =>
    cases h with
    | cons hc hg hp =>
      obtain ⟨m, h1, h2⟩ := ih hp
      exact ⟨m, Path.cons hc hg h1, h2⟩

theorem Path.reach {get : Store} {f g : Frame} {cs : List Cid} (h : Path get f cs g) (hne : cs ≠ []) :
    Reach get f g := by
  induction h with
  | nil f => exact absurd rfl hne
  | @cons f h' g c cs hc hg hp ih =>
    cases cs with
    | nil => cases hp; exact Reach.step hc hg
    | cons x xs => exact Reach.trans (Reach.step hc hg) (ih (by simp))

theorem Path.last {get : Store} {f m : Frame} (a : List Cid) (c : Cid) (h : Path get f (a ++ [c]) m) :
    get c = some m := by
  induction a generalizing f with
  | nil =>
    cases h with
    | cons hc hg hp => cases hp; exact hg
  | cons x a ih =>
    cases h with
    | cons hc hg hp => exact ih hp

theorem Path.mem_dom {get : Store} {f g : Frame} {cs : List Cid} (h : Path get f cs g) :
    ∀ c ∈ cs, get c ≠ none := by
  induction h with
  | nil f => intro c hc; cases hc
  | @cons f h' g c cs hc hg hp ih =>
    intro x hx
    rcases List.mem_cons.mp hx with e | e
    · subst e; rw [hg]; simp
    · exact ih x e

theorem nodup_length_le (cs D : List Nat) (hn : cs.Nodup) (hs : ∀ c ∈ cs, c ∈ D) : cs.length ≤ D.length := by
  induction cs generalizing D with
  | nil => simp
  | cons c cs ih =>
    have hc := List.nodup_cons.mp hn
    have hcD : c ∈ D := hs c (List.mem_cons_self ..)
    have := ih (D.erase c) hc.2 (fun x hx => by
      have hne : x ≠ c := fun e => hc.1 (e ▸ hx)
      exact (List.mem_erase_of_ne hne).mpr (hs x (List.mem_cons_of_mem _ hx)))
    rw [List.length_erase_of_mem hcD] at this
    have hpos : 0 < D.length := List.length_pos_of_mem hcD
    simp only [List.length_cons]; omega

theorem exists_dup (cs : List Nat) (h : ¬ cs.Nodup) : ∃ a c b d, cs = a ++ c :: (b ++ c :: d) := by
  induction cs with
  | nil => exact absurd List.nodup_nil h
  | cons x xs ih =>
    by_cases hx : x ∈ xs
    · obtain ⟨b, d, rfl⟩ := List.append_of_mem hx
      exact ⟨[], x, b, d, rfl⟩
    · have : ¬ xs.Nodup := fun hn => h (List.nodup_cons.mpr ⟨hx, hn⟩)
      obtain ⟨a, c, b, d, rfl⟩ := ih this
      exact ⟨x :: a, c, b, d, rfl⟩

/-- If the store holds at most `D.length` frames and the walk still runs out of more fuel than that, some
frame below the first one reaches itself: the Go recursion does not return on this graph. -/
theorem fuel_exhausted_cyclic (get : Store) (D : List Cid) (hD : ∀ c, get c ≠ none → c ∈ D)
    (n : Nat) (hn : D.length < n) (f : Frame) (h : walk get n f = .err .fuel) :
    ∃ g, Reach get f g ∧ Reach get g g := by
  obtain ⟨cs, g, hlen, hp⟩ := walk_fuel_path get n f h
  have hsub : ∀ c ∈ cs, c ∈ D := fun c hc => hD c (hp.mem_dom c hc)
  have hnd : ¬ cs.Nodup := fun hnd => by
    have := nodup_length_le cs D hnd hsub; omega
  obtain ⟨a, c, b, d, rfl⟩ := exists_dup cs hnd
  have e : a ++ c :: (b ++ c :: d) = (a ++ [c]) ++ ((b ++ [c]) ++ d) := by simp
  rw [e] at hp
  obtain ⟨m1, hp1, hp2⟩ := Path.split _ _ hp
  obtain ⟨m2, hp3, _⟩ := Path.split _ _ hp2
  have h1 := Path.last a c hp1
  have h2 := Path.last b c hp3
  have : m1 = m2 := by rw [h1] at h2; injection h2
  subst this
  exact ⟨m1, hp1.reach (by simp), hp3.reach (by simp)⟩

/-! ## the checksums of `ipldbindcode/methods.go`, executable (used by the driver; opaque in the theorems) -/

namespace Real

/-- one entry of `crc64.MakeTable(crc64.ISO)` (reflected polynomial 0xD800000000000000) -/
def crcEntry (i : Nat) : UInt64 :=
  (List.range 8).foldl
    (fun c _ => if c &&& 1 == 1 then (c >>> 1) ^^^ 0xD800000000000000 else c >>> 1) i.toUInt64

def crcTable : Array UInt64 := (Array.range 256).map crcEntry

/-- `crc64.Checksum(buf, crc64.MakeTable(crc64.ISO))` -/
def crc64 (b : Bytes) : UInt64 :=
  ~~~ (b.foldl (fun c x => crcTable.getD (c.toUInt8 ^^^ x).toNat 0 ^^^ (c >>> 8)) (~~~ (0 : UInt64)))

/-- `fnv.New64a()` -/
def fnv1a (b : Bytes) : UInt64 :=
  b.foldl (fun h x => (h ^^^ x.toUInt64) * 1099511628211) 14695981039346656037

def hashes : Hashes := ⟨fun b => (crc64 b).toNat, fun b => (fnv1a b).toNat⟩

end Real

end Frames

/-!
# The epoch set of `MultiEpoch` (property C09)

Model of `MultiEpoch.epochs : map[uint64]*Epoch` and of the methods of /repo/multiepoch.go,
multiepoch-getTransaction.go (`getAllBucketteers`) and multiepoch-getSignaturesForAddress.go
(`getGsfaReadersInEpochDescendingOrder`) that read or change it.  Every method body runs under `MultiEpoch.mu`
(write lock for the five writers, read lock for the readers), so a concurrent history is a *sequence* of these
operations — the sequence in which the critical sections were entered; that this sequence exists and is finite for every
interleaving is the lock part of C09 (`Faithful/Lib/RWSys.lean`).

Go map iteration order is not modelled as a list order: the only method whose *result* depends on it,
`RemoveEpochByConfigFilepath`, gets the epoch the iteration met first as the argument `pick`, and the theorems
quantify over all `pick`s.
-/
namespace EpochSet

/-- what the model needs to know of an `*Epoch` -/
structure Ep where
  id : Nat          -- identity of the object (the pointer)
  path : String     -- `ep.config.ConfigFilepath()`
  gsfa : Bool       -- `ep.gsfaReader != nil`
  sig : Bool        -- `ep.sigExists != nil`
deriving DecidableEq, Repr

abbrev Map := List (Nat × Ep)

structure St where
  m : Map := []             -- the map; keys pairwise distinct (`WF`)
  closed : List Nat := []   -- ids of the epochs whose `Close()` has run, oldest first
deriving Repr

inductive EpochOp where
  | add (e : Nat) (v : Ep)                                -- AddEpoch
  | replace (e : Nat) (v : Ep)                            -- ReplaceEpoch
  | replaceOrAdd (e : Nat) (v : Ep)                       -- ReplaceOrAddEpoch
  | remove (e : Nat)                                      -- RemoveEpoch
  | removeByConfig (path : String) (pick : Option Nat)    -- RemoveEpochByConfigFilepath; `pick` = first match met
deriving Repr

inductive Res where
  | ok | alreadyExists | notFound | removed (e : Nat)
  | illegalPick          -- the `pick` is not something a map iteration can produce in this state
deriving DecidableEq, Repr

def lookup (e : Nat) : Map → Option Ep
  | [] => none
  | (k, v) :: m => if k = e then some v else lookup e m

def erase (e : Nat) : Map → Map
  | [] => []
  | (k, v) :: m => if k = e then erase e m else (k, v) :: erase e m

def insert (e : Nat) (v : Ep) (m : Map) : Map := (e, v) :: erase e m

def keys (m : Map) : List Nat := m.map (·.1)

/-- the state after one writer -/
def step (s : St) : EpochOp → St
  | .add e v => if (lookup e s.m).isSome then s else { s with m := insert e v s.m }
  | .replace e v => if (lookup e s.m).isSome then { s with m := insert e v s.m } else s
  | .replaceOrAdd e v =>
    match lookup e s.m with
    | some old => { m := insert e v s.m, closed := s.closed ++ [old.id] }      -- `oldEp.Close()`
    | none => { s with m := insert e v s.m }
  | .remove e => if (lookup e s.m).isSome then { s with m := erase e s.m } else s   -- NB: does not Close
  | .removeByConfig p pick =>
    match pick with
    | none => s
    | some e =>
      match lookup e s.m with
      | some v => if v.path = p then { m := erase e s.m, closed := s.closed ++ [v.id] } else s
      | none => s

/-- what the writer returns -/
def result (s : St) : EpochOp → Res
  | .add e _ => if (lookup e s.m).isSome then .alreadyExists else .ok
  | .replace e _ => if (lookup e s.m).isSome then .ok else .notFound
  | .replaceOrAdd _ _ => .ok
  | .remove e => if (lookup e s.m).isSome then .ok else .notFound
  | .removeByConfig p pick =>
    match pick with
    | none => if s.m.all (fun kv => kv.2.path != p) then .notFound else .illegalPick
    | some e =>
      match lookup e s.m with
      | some v => if v.path = p then .removed e else .illegalPick
      | none => .illegalPick

def run (s : St) (ops : List EpochOp) : St := ops.foldl step s

/-! ### readers -/

/-- `GetEpochNumbers`: collect the keys, sort with `a > b` -/
def numbers (s : St) : List Nat := (keys s.m).mergeSort (fun a b => decide (a ≥ b))

def getEpoch (s : St) (e : Nat) : Option Ep := lookup e s.m
def hasEpoch (s : St) (e : Nat) : Bool := (lookup e s.m).isSome
def count (s : St) : Nat := s.m.length

/-- `GetMostRecentAvailableEpoch` -/
def mostRecent (s : St) : Option Ep :=
  match numbers s with
  | [] => none
  | e :: _ => lookup e s.m

/-- `GetOldestAvailableEpoch` -/
def oldest (s : St) : Option Ep :=
  match (numbers s).getLast? with
  | none => none
  | some e => lookup e s.m

/-- `getGsfaReadersInEpochDescendingOrder`: epoch numbers of the epochs that have a gsfa reader, newest first -/
def gsfaNumbers (s : St) : List Nat := (numbers s).filter fun e => (lookup e s.m).any (·.gsfa)

/-- `getAllBucketteers`: the keys of the returned map, listed oldest first -/
def bucketteerNumbers (s : St) : List Nat := ((numbers s).filter fun e => (lookup e s.m).any (·.sig)).reverse

/-! ### the map invariant -/

def WF (s : St) : Prop := (keys s.m).Nodup

theorem mem_keys_erase {e k : Nat} {m : Map} : k ∈ keys (erase e m) ↔ k ∈ keys m ∧ k ≠ e := by
  induction m with
  | nil => simp [erase, keys]
  | cons kv m ih =>
    obtain ⟨k', v⟩ := kv
    simp only [keys] at ih
    by_cases h : k' = e
    · subst h
      simp only [erase, if_true, keys, List.map_cons, List.mem_cons]
      rw [ih]
      constructor
      · rintro ⟨h1, h2⟩; exact ⟨Or.inr h1, h2⟩
      · rintro ⟨h1 | h1, h2⟩
        · exact absurd h1 h2
        · exact ⟨h1, h2⟩
    · simp only [erase, if_neg h, keys, List.map_cons, List.mem_cons]
      rw [ih]
      constructor
      · rintro (h1 | ⟨h1, h2⟩)
        · exact ⟨Or.inl h1, by rw [h1]; exact h⟩
        · exact ⟨Or.inr h1, h2⟩
      · rintro ⟨h1 | h1, h2⟩
        · exact Or.inl h1
        · exact Or.inr ⟨h1, h2⟩

theorem nodup_keys_erase {e : Nat} {m : Map} (h : (keys m).Nodup) : (keys (erase e m)).Nodup := by
  induction m with
  | nil => simp [erase, keys]
  | cons kv m ih =>
    obtain ⟨k', v⟩ := kv
    simp only [keys, List.map_cons, List.nodup_cons] at h
    by_cases hk : k' = e
    · simp only [erase, if_pos hk]; exact ih h.2
    · simp only [erase, if_neg hk, keys, List.map_cons, List.nodup_cons]
      refine ⟨?_, ih h.2⟩
      intro hmem
      exact h.1 (mem_keys_erase.1 hmem).1

theorem nodup_keys_insert {e : Nat} {v : Ep} {m : Map} (h : (keys m).Nodup) : (keys (insert e v m)).Nodup := by
  simp only [insert, keys, List.map_cons, List.nodup_cons]
  refine ⟨?_, nodup_keys_erase h⟩
  intro hmem
  exact (mem_keys_erase.1 hmem).2 rfl

theorem wf_step {s : St} (h : WF s) (op : EpochOp) : WF (step s op) := by
  unfold WF at *
  cases op with
  | add e v =>
    simp only [step]; split
    · exact h
    · exact nodup_keys_insert h
  | replace e v =>
    simp only [step]; split
    · exact nodup_keys_insert h
    · exact h
  | replaceOrAdd e v => simp only [step]; split <;> exact nodup_keys_insert h
  | remove e =>
    simp only [step]; split
    · exact nodup_keys_erase h
    · exact h
  | removeByConfig p pick =>
    simp only [step]
    split
    · exact h
    · split
      · split
        · exact nodup_keys_erase h
        · exact h
      · exact h

theorem wf_run {s : St} (h : WF s) (ops : List EpochOp) : WF (run s ops) := by
  induction ops generalizing s with
  | nil => exact h
  | cons op ops ih => exact ih (wf_step h op)

theorem wf_empty : WF {} := by simp [WF, keys]

/-! ### lookups -/

theorem lookup_erase (e e' : Nat) (m : Map) : lookup e' (erase e m) = if e' = e then none else lookup e' m := by
  induction m with
  | nil => simp [erase, lookup]
  | cons kv m ih =>
    obtain ⟨k, v⟩ := kv
    by_cases hk : k = e
    · subst hk
      simp only [erase, if_true, lookup]
      rw [ih]
      by_cases h2 : e' = k
      · simp [h2]
      · have : ¬ k = e' := fun h => h2 h.symm
        simp [h2, this]
    · simp only [erase, if_neg hk, lookup]
      rw [ih]
      by_cases h2 : e' = e
      · subst h2; simp [hk]
      · simp [h2]

theorem lookup_insert (e e' : Nat) (v : Ep) (m : Map) :
    lookup e' (insert e v m) = if e' = e then some v else lookup e' m := by
  simp only [insert, lookup, lookup_erase]
  by_cases h : e' = e
  · subst h; simp
  · have : ¬ e = e' := fun h2 => h h2.symm
    simp [h, this]

theorem mem_keys_iff (e : Nat) (m : Map) : e ∈ keys m ↔ (lookup e m).isSome = true := by
  induction m with
  | nil => simp [keys, lookup]
  | cons kv m ih =>
    obtain ⟨k, v⟩ := kv
    simp only [keys] at ih
    simp only [keys, List.map_cons, List.mem_cons, lookup]
    by_cases hk : k = e
    · simp [hk]
    · have : ¬ e = k := fun h => hk h.symm
      simp [hk, this, ih]

/-! ### the listing -/

/-- **The list of available epochs is strictly descending** (hence duplicate-free and newest first) in every
    well-formed state. -/
theorem numbers_strict_desc {s : St} (h : WF s) : (numbers s).Pairwise (· > ·) := by
  have hsorted : (numbers s).Pairwise (fun a b => decide (a ≥ b) = true) :=
    List.pairwise_mergeSort (le := fun a b => decide (a ≥ b))
      (fun a b c hab hbc => by simp at *; omega) (fun a b => by simp; omega) (keys s.m)
  have hnodup : (numbers s).Nodup := (List.mergeSort_perm (keys s.m) _).nodup_iff.2 h
  exact List.Pairwise.imp₂ (fun a b h1 h2 => by simp at h1; omega) hsorted hnodup

/-- the listing contains exactly the loaded epochs -/
theorem mem_numbers (s : St) (e : Nat) : e ∈ numbers s ↔ hasEpoch s e = true := by
  simp [numbers, hasEpoch, mem_keys_iff]

theorem length_numbers (s : St) : (numbers s).length = count s := by
  simp [numbers, count, keys, (List.mergeSort_perm _ _).length_eq]

/-- `GetMostRecentAvailableEpoch` returns the epoch with the largest number -/
theorem mostRecent_spec {s : St} (h : WF s) {v : Ep} (hv : mostRecent s = some v) :
    ∃ e, getEpoch s e = some v ∧ ∀ e', hasEpoch s e' = true → e' ≤ e := by
  unfold mostRecent at hv
  have hs := numbers_strict_desc h
  match hn : numbers s with
  | [] => simp [hn] at hv
  | e :: rest =>
    rw [hn] at hv hs
    refine ⟨e, hv, fun e' he' => ?_⟩
    have : e' ∈ e :: rest := hn ▸ (mem_numbers s e').2 he'
    rcases List.mem_cons.1 this with h1 | h1
    · omega
    · have := (List.pairwise_cons.1 hs).1 e' h1; omega

/-- on a non-empty epoch set `GetMostRecentAvailableEpoch` / `GetOldestAvailableEpoch` answer -/
theorem mostRecent_isSome {s : St} (hne : s.m ≠ []) : (mostRecent s).isSome = true := by
  unfold mostRecent
  match hn : numbers s with
  | [] =>
    have := length_numbers s
    rw [hn] at this
    simp only [count, List.length_nil] at this
    exact absurd (List.eq_nil_of_length_eq_zero this.symm) hne
  | e :: rest =>
    have : e ∈ numbers s := by rw [hn]; simp
    exact (mem_numbers s e).1 this

/-! ### frame: epochs that no writer addresses -/

/-- the writer is addressed to epoch `e` -/
def touches (e : Nat) : EpochOp → Prop
  | .add _ _ => False                      -- AddEpoch never changes an epoch that is loaded (it fails)
  | .replace e' _ => e' = e
  | .replaceOrAdd e' _ => e' = e
  | .remove e' => e' = e
  | .removeByConfig _ pick => pick = some e

instance (e : Nat) (op : EpochOp) : Decidable (touches e op) := by
  cases op <;> simp only [touches] <;> exact inferInstance

theorem lookup_step_of_not_touches {s : St} {e : Nat} {v : Ep} (hl : lookup e s.m = some v) {op : EpochOp}
    (h : ¬ touches e op) : lookup e (step s op).m = some v := by
  cases op with
  | add e' v' =>
    simp only [step]
    split
    · exact hl
    · rename_i hnone
      simp only [lookup_insert]
      by_cases he : e = e'
      · subst he; simp [hl] at hnone
      · simp [he, hl]
  | replace e' v' =>
    have he : ¬ e = e' := fun h2 => h h2.symm
    simp only [step]; split
    · simp [lookup_insert, he, hl]
    · exact hl
  | replaceOrAdd e' v' =>
    have he : ¬ e = e' := fun h2 => h h2.symm
    simp only [step]; split <;> simp [lookup_insert, he, hl]
  | remove e' =>
    have he : ¬ e = e' := fun h2 => h h2.symm
    simp only [step]; split
    · simp [lookup_erase, he, hl]
    · exact hl
  | removeByConfig p pick =>
    simp only [step]
    split
    · exact hl
    · rename_i e'
      have he : ¬ e = e' := fun h2 => h (by simp [touches, h2])
      split
      · split
        · simp [lookup_erase, he, hl]
        · exact hl
      · exact hl

theorem lookup_run_of_not_touches (e : Nat) (v : Ep) (pre : List EpochOp) :
    ∀ s : St, lookup e s.m = some v → (∀ op ∈ pre, ¬ touches e op) → lookup e (run s pre).m = some v := by
  induction pre with
  | nil => intro s hl _; exact hl
  | cons op pre ih =>
    intro s hl hpre
    show lookup e (run (step s op) pre).m = some v
    exact ih (step s op) (lookup_step_of_not_touches hl (hpre op (by simp))) (fun o ho => hpre o (by simp [ho]))

/-- **A query addressed to an epoch that stays loaded behaves as on an idle server**: whatever the writers do to
    *other* epochs (any number of operations, any `pick`s), every read of `e` at any point of the history returns
    the epoch object that was loaded at the start. -/
theorem stable_epoch_unaffected (s : St) (e : Nat) (v : Ep) (hl : getEpoch s e = some v)
    (ops : List EpochOp) (h : ∀ op ∈ ops, ¬ touches e op) :
    ∀ k, getEpoch (run s (ops.take k)) e = some v := by
  intro k
  exact lookup_run_of_not_touches e v (ops.take k) s hl (fun op hop => h op (List.mem_of_mem_take hop))

/-- … and it is never closed under the query: an epoch that no writer addresses is not among the closed ones,
    provided object identities are not shared between map entries (`idsDistinct`) -/
def idsDistinct (s : St) : Prop := ∀ e e' v v', lookup e s.m = some v → lookup e' s.m = some v' → v.id = v'.id → e = e'

theorem closed_step_of_not_touches {s : St} {e : Nat} {v : Ep} (hl : lookup e s.m = some v) (hd : idsDistinct s)
    (hc : v.id ∉ s.closed) {op : EpochOp} (h : ¬ touches e op) : v.id ∉ (step s op).closed := by
  cases op with
  | add e' v' => simp only [step]; split <;> exact hc
  | replace e' v' => simp only [step]; split <;> exact hc
  | replaceOrAdd e' v' =>
    have he : ¬ e = e' := fun h2 => h h2.symm
    simp only [step]; split
    · rename_i old hold
      simp only [List.mem_append, List.mem_singleton, not_or]
      exact ⟨hc, fun hid => he (hd e e' v old hl hold hid)⟩
    · exact hc
  | remove e' => simp only [step]; split <;> exact hc
  | removeByConfig p pick =>
    simp only [step]
    split
    · exact hc
    · rename_i e'
      have he : ¬ e = e' := fun h2 => h (by simp [touches, h2])
      split
      · rename_i old hold
        split
        · simp only [List.mem_append, List.mem_singleton, not_or]
          exact ⟨hc, fun hid => he (hd e e' v old hl hold hid)⟩
        · exact hc
      · exact hc


/-! ### no loaded epoch is ever closed -/

/-- the object handed to the writer is a new one: not loaded under any number and not closed before
    (cmd-rpc.go always passes the result of a fresh `NewEpochFromConfig`) -/
def freshOp (s : St) : EpochOp → Prop
  | .add _ v | .replace _ v | .replaceOrAdd _ v =>
    (∀ e' v', lookup e' s.m = some v' → v'.id ≠ v.id) ∧ v.id ∉ s.closed
  | _ => True

inductive FreshRun : St → List EpochOp → Prop
  | nil (s : St) : FreshRun s []
  | cons {s : St} {op : EpochOp} {ops : List EpochOp} : freshOp s op → FreshRun (step s op) ops → FreshRun s (op :: ops)

/-- loaded objects are pairwise distinct and none of them has been closed -/
def LiveOpen (s : St) : Prop :=
  idsDistinct s ∧ ∀ e v, lookup e s.m = some v → v.id ∉ s.closed

theorem liveOpen_insert {s : St} (h : LiveOpen s) {e : Nat} {v : Ep}
    (hf : (∀ e' v', lookup e' s.m = some v' → v'.id ≠ v.id) ∧ v.id ∉ s.closed) :
    LiveOpen { s with m := insert e v s.m } := by
  obtain ⟨hd, ho⟩ := h
  constructor
  · intro a b va vb ha hb hid
    simp only [lookup_insert] at ha hb
    by_cases h1 : a = e <;> by_cases h2 : b = e
    · rw [h1, h2]
    · simp [h1] at ha; simp [h2] at hb; subst ha
      exact absurd hid.symm (hf.1 b vb hb)
    · simp [h1] at ha; simp [h2] at hb; subst hb
      exact absurd hid (hf.1 a va ha)
    · simp [h1] at ha; simp [h2] at hb
      exact hd a b va vb ha hb hid
  · intro a va ha
    simp only [lookup_insert] at ha
    by_cases h1 : a = e
    · simp [h1] at ha; subst ha; exact hf.2
    · simp [h1] at ha; exact ho a va ha

theorem liveOpen_erase {s : St} (h : LiveOpen s) (e : Nat) : LiveOpen { s with m := erase e s.m } := by
  obtain ⟨hd, ho⟩ := h
  constructor
  · intro a b va vb ha hb hid
    simp only [lookup_erase] at ha hb
    by_cases h1 : a = e
    · simp [h1] at ha
    · by_cases h2 : b = e
      · simp [h2] at hb
      · simp [h1] at ha; simp [h2] at hb; exact hd a b va vb ha hb hid
  · intro a va ha
    simp only [lookup_erase] at ha
    by_cases h1 : a = e
    · simp [h1] at ha
    · simp [h1] at ha; exact ho a va ha

/-- closing the object loaded at `e` while taking it out of the map (or overwriting it with a fresh one) -/
theorem liveOpen_close {s : St} (h : LiveOpen s) {e : Nat} {old : Ep} (hold : lookup e s.m = some old)
    {m' : Map} (hm : ∀ a va, lookup a m' = some va → (a ≠ e ∧ lookup a s.m = some va) ∨ (va.id ≠ old.id ∧ va.id ∉ s.closed ∧ ∀ b vb, b ≠ a → lookup b m' = some vb → vb.id ≠ va.id))
    : LiveOpen { m := m', closed := s.closed ++ [old.id] } := by
  obtain ⟨hd, ho⟩ := h
  constructor
  · intro a b va vb ha hb hid
    by_cases hab : a = b
    · exact hab
    · rcases hm a va ha with ⟨h1, h1'⟩ | ⟨_, _, h1⟩
      · rcases hm b vb hb with ⟨h2, h2'⟩ | ⟨_, _, h2⟩
        · exact hd a b va vb h1' h2' hid
        · exact absurd hid (h2 a va hab ha)
      · exact absurd hid.symm (h1 b vb (fun h => hab h.symm) hb)
  · intro a va ha
    simp only [List.mem_append, List.mem_singleton, not_or]
    rcases hm a va ha with ⟨h1, h1'⟩ | ⟨h1, h2, _⟩
    · exact ⟨ho a va h1', fun hid => h1 (hd a e va old h1' hold hid)⟩
    · exact ⟨h2, h1⟩

theorem liveOpen_step {s : St} (h : LiveOpen s) {op : EpochOp} (hf : freshOp s op) : LiveOpen (step s op) := by
  cases op with
  | add e v =>
    simp only [step]; split
    · exact h
    · exact liveOpen_insert h hf
  | replace e v =>
    simp only [step]; split
    · exact liveOpen_insert h hf
    · exact h
  | replaceOrAdd e v =>
    simp only [step]; split
    · rename_i old hold
      apply liveOpen_close h hold
      intro a va ha
      simp only [lookup_insert] at ha
      by_cases h1 : a = e
      · right
        simp [h1] at ha; subst ha
        refine ⟨fun hid => hf.1 e old hold hid.symm, hf.2, ?_⟩
        intro b vb hb hlb
        simp only [lookup_insert] at hlb
        have : ¬ b = e := fun h2 => hb (h2.trans h1.symm)
        simp [this] at hlb
        exact hf.1 b vb hlb
      · left; simp [h1] at ha; exact ⟨h1, ha⟩
    · exact liveOpen_insert h hf
  | remove e =>
    simp only [step]; split
    · exact liveOpen_erase h e
    · exact h
  | removeByConfig p pick =>
    simp only [step]
    split
    · exact h
    · split
      · rename_i e _ old hold
        split
        · apply liveOpen_close h hold
          intro a va ha
          simp only [lookup_erase] at ha
          by_cases h1 : a = e
          · simp [h1] at ha
          · left; simp [h1] at ha; exact ⟨h1, ha⟩
        · exact h
      · exact h

/-- **No loaded epoch is ever closed**: along every history in which the writers are handed fresh epoch objects,
    the epochs that are in the map (the ones queries can be addressed to) have not had `Close()` called. -/
theorem loaded_never_closed {s : St} (h : LiveOpen s) {ops : List EpochOp} (hf : FreshRun s ops) :
    LiveOpen (run s ops) := by
  induction hf with
  | nil s => exact h
  | cons hop _ ih => exact ih (liveOpen_step h hop)

theorem liveOpen_empty : LiveOpen {} := by
  constructor
  · intro a b va vb ha; simp [lookup] at ha
  · intro a va ha; simp [lookup] at ha

end EpochSet

import Faithful.Lib.EpochLookup

/-! Helper lemmas for Faithful/Properties/C03.lean: inversion of the small steps of `EpochLookup`
(`fetchFound`, `asBlock`, `checkSlot`, `asTx`, `checkSig`), `takeWhile` facts, and the fold over epochs of `gsfaAll`. -/
namespace EpochLookup
open B CI Car IndexAll

theorem fetchFound_ok (fetch : Bytes → Got) (found : Look) (n : Node) (h : fetchFound fetch found = .ok n) :
    found = .found n.cid ∧ fetch n.cid = .ok n.data := by
  unfold fetchFound at h
  split at h
  · rename_i c
    split at h
    · rename_i d hd
      cases h
      exact ⟨rfl, hd⟩
    · cases h
    · cases h
  · cases h
  · cases h

theorem asBlock_ok (info : Bytes → Info) (r : Ans Node) (n : Node) (slot : Nat) (h : asBlock info r = .ok (n, slot)) :
    r = .ok n ∧ ∃ bt, info n.data = .block slot bt := by
  unfold asBlock at h
  split at h
  · rename_i n'
    split at h
    · rename_i slot' bt hi
      cases h
      exact ⟨rfl, bt, hi⟩
    · cases h
  · cases h
  · cases h
  · cases h

theorem checkSlot_ok (s : Nat) (r : Ans (Node × Nat)) (n : Node) (slot : Nat) (h : checkSlot s r = .ok (n, slot)) :
    r = .ok (n, slot) ∧ slot = s := by
  unfold checkSlot at h
  split at h
  · rename_i n' slot'
    split at h
    · rename_i hs
      cases h
      exact ⟨rfl, hs⟩
    · cases h
  · rename_i hne
    exact absurd h (by intro h'; exact hne n slot h')

theorem asTx_ok (info : Bytes → Info) (r : Ans Node) (n : Node) (sig : Bytes) (h : asTx info r = .ok (n, sig)) :
    r = .ok n ∧ info n.data = .tx sig := by
  unfold asTx at h
  split at h
  · rename_i n'
    split at h
    · rename_i sig' hi
      cases h
      exact ⟨rfl, hi⟩
    · cases h
  · cases h
  · cases h
  · cases h

theorem checkSig_ok (g : Bytes) (r : Ans (Node × Bytes)) (n : Node) (sig : Bytes) (h : checkSig g r = .ok (n, sig)) :
    r = .ok (n, sig) ∧ sig = g := by
  unfold checkSig at h
  split at h
  · rename_i n' sig'
    split at h
    · rename_i hs
      cases h
      exact ⟨rfl, hs⟩
    · cases h
  · rename_i hne
    exact absurd h (by intro h'; exact hne n sig h')

theorem mem_takeWhile_true {α : Type} (p : α → Bool) (t : α) : ∀ (l : List α), t ∈ l.takeWhile p → p t = true
  | [], h => by cases h
  | x :: r, h => by
    by_cases hx : p x = true
    · simp only [List.takeWhile, hx, List.mem_cons] at h
      rcases h with rfl | h
      · exact hx
      · exact mem_takeWhile_true p t r h
    · simp [List.takeWhile, hx] at h

theorem gsfaAll_all (P : Tx → Prop) (one : AddrIndex → Ans (List Tx))
    (hone : ∀ g l, one g = .ok l → ∀ t ∈ l, P t) :
    ∀ (gs : List AddrIndex) (l : List Tx), gsfaAll one gs = .ok l → ∀ t ∈ l, P t
  | [], l, h => by
    simp only [gsfaAll, Ans.ok.injEq] at h; subst h; intro t ht; cases ht
  | g :: rest, l, h => by
    unfold gsfaAll at h
    split at h
    · rename_i l1 h1
      split at h
      · rename_i r hr
        cases h
        intro t ht
        rcases List.mem_append.mp ht with ht | ht
        · exact hone g l1 h1 t ht
        · exact gsfaAll_all P one hone rest r hr t ht
      · rename_i hne
        exact absurd h (by intro h'; exact hne l h')
    · cases h
    · cases h
    · cases h

theorem takeWhile_nil_of_all_false {α : Type} (p : α → Bool) : ∀ (l : List α), (∀ t ∈ l, p t = false) → l.takeWhile p = []
  | [], _ => rfl
  | x :: r, h => by simp [List.takeWhile, h x (List.mem_cons_self ..)]

theorem gsfaAll_nil (one : AddrIndex → Ans (List Tx)) :
    ∀ (gs : List AddrIndex), (∀ g ∈ gs, ∀ l, one g = .ok l → l = []) → ∀ l, gsfaAll one gs = .ok l → l = []
  | [], _, l, h => by simp only [gsfaAll, Ans.ok.injEq] at h; exact h.symm
  | g :: rest, hall, l, h => by
    unfold gsfaAll at h
    split at h
    · rename_i l1 h1
      split at h
      · rename_i r hr
        cases h
        have e1 := hall g (List.mem_cons_self ..) l1 h1
        have e2 := gsfaAll_nil one rest (fun g' hg' => hall g' (List.mem_cons_of_mem _ hg')) r hr
        simp [e1, e2]
      · rename_i hne
        exact absurd h (by intro h'; exact hne l h')
    · cases h
    · cases h
    · cases h

theorem takeWhile_all {α : Type} (p : α → Bool) : ∀ (l : List α), (∀ t ∈ l, p t = true) → l.takeWhile p = l
  | [], _ => rfl
  | x :: r, h => by
    simp only [List.takeWhile, h x (List.mem_cons_self ..)]
    rw [takeWhile_all p r (fun t ht => h t (List.mem_cons_of_mem _ ht))]

theorem cutUpto_subset (upto : Option Bytes) : ∀ (l : List Tx) (t : Tx), t ∈ cutUpto upto l → t ∈ l
  | [], _, h => by simp [cutUpto] at h
  | x :: r, t, h => by
    unfold cutUpto at h
    cases upto with
    | none => exact h
    | some u =>
      simp only at h
      split at h
      · simp only [List.mem_cons, List.mem_nil_iff, or_false] at h
        subst h; exact List.mem_cons_self ..
      · rcases List.mem_cons.mp h with rfl | h
        · exact List.mem_cons_self ..
        · exact List.mem_cons_of_mem _ (cutUpto_subset (some u) r t h)

theorem dropBefore_subset (before : Option Bytes) (l : List Tx) (t : Tx) (h : t ∈ dropBefore before l) : t ∈ l := by
  unfold dropBefore at h
  cases before with
  | none => exact h
  | some b =>
    simp only at h
    exact (List.dropWhile_sublist _).subset ((List.drop_sublist 1 _).subset h)

theorem page_subset (limit : Nat) (before upto : Option Bytes) (l : List Tx) (t : Tx) (h : t ∈ page limit before upto l) : t ∈ l := by
  unfold page at h
  exact dropBefore_subset before l t (List.mem_of_mem_take (cutUpto_subset upto _ t h))

theorem page_default (l : List Tx) (limit : Nat) : page limit none none l = l.take limit := by
  unfold page dropBefore
  cases h : l.take limit with
  | nil => rfl
  | cons x r => simp [cutUpto]

end EpochLookup

import Faithful.Lib.AccumCar

/-!
# The hand-off between the reading goroutine and the callback goroutine of `accum.ObjectAccumulator`

`/repo/accum/block.go`: `Run` (producer) reads sections, appends to `children`, and on a flush-kind object (or EOF)
calls `sendToFlusher`: `flushWg.Add(1)`, `fb := flushBufferPool.Get()`, fills `fb.parent / fb.children`, sends `fb`
on the buffered channel `flushQueue`; `startFlusher` (consumer) receives, calls `flush` (the callback), `flushWg.Done()`,
`fb.Reset(); flushBufferPool.Put(fb)`.  At EOF the producer waits for the WaitGroup and closes the channel.

The model is a transition system whose steps are the accesses to the shared objects (channel, pool, WaitGroup), one per
step, so every interleaving of the two goroutines at the granularity of the (linearizable) sync primitives is a
schedule.  Memory is explicit: `store` maps array ids to backing arrays, a Go slice is `(array id, len)`, `fbs` maps
`*flushBuffer` ids to their two fields, the pool is a bag of ids that may lose its content at any time (`gc`), and may
hold stale buffers from earlier runs.  So "the consumer sees what was sent" is a statement about aliasing, not an axiom.
-/
namespace Accum

/-! ## memory -/

def upd {α : Type} (f : Nat → α) (i : Nat) (v : α) : Nat → α := fun j => if j = i then v else f j

@[simp] theorem upd_same {α : Type} (f : Nat → α) (i : Nat) (v : α) : upd f i v i = v := by simp [upd]
theorem upd_other {α : Type} (f : Nat → α) (i j : Nat) (v : α) (h : j ≠ i) : upd f i v j = f j := by simp [upd, h]

/-- backing array of a `[]ObjectWithMetadata`: the initialised cells (newest first) and the capacity -/
structure Arr where
  rc : List Obj
  cap : Nat
deriving Inhabited

/-- the first `n` cells, in index order: what a slice `(array, len = n)` shows -/
def Arr.read (a : Arr) (n : Nat) : List Obj := a.rc.reverse.take n

/-- `array[i] = x` (initialising cell `i` when it is the next one) -/
def Arr.write (a : Arr) (i : Nat) (x : Obj) : Arr :=
  if i = a.rc.length then { a with rc := x :: a.rc }
  else if i < a.rc.length then { a with rc := a.rc.set (a.rc.length - 1 - i) x }
  else a

/-- a write at index `i` is invisible through every slice of length `≤ i` -/
theorem Arr.read_write_le (a : Arr) (i n : Nat) (x : Obj) (h : n ≤ i) : (a.write i x).read n = a.read n := by
  unfold Arr.write Arr.read
  by_cases h1 : i = a.rc.length
  · simp only [h1, if_true, List.reverse_cons]
    rw [List.take_append_of_le_length (by simp; omega)]
  · simp only [h1, if_false]
    by_cases h2 : i < a.rc.length
    · simp only [h2, if_true]
      rw [List.take_reverse, List.take_reverse, List.length_set, List.drop_set_of_lt (by omega)]
    · simp only [h2, if_false]

theorem Arr.read_write_end (a : Arr) (x : Obj) :
    (a.write a.rc.length x).read (a.rc.length + 1) = a.read a.rc.length ++ [x] := by
  unfold Arr.write Arr.read
  simp only [if_true, List.reverse_cons]
  rw [List.take_of_length_le (by simp), List.take_of_length_le (by simp)]

theorem Arr.write_end_length (a : Arr) (x : Obj) : (a.write a.rc.length x).rc.length = a.rc.length + 1 := by
  unfold Arr.write; simp

/-- Go slice header: pointer (array id) and length; the capacity is the array's -/
structure Slice where
  arr : Nat
  len : Nat
deriving DecidableEq, Repr, Inhabited

/-- `flushBuffer` -/
structure FB where
  parent : Option Obj
  sl : Slice
deriving Inhabited

structure Cfg where
  /-- `objectCap` (5 000) -/
  cap0 : Nat
  /-- capacity of `flushQueue` (1 000) -/
  qcap : Nat
  /-- capacity chosen by `growslice` -/
  grow : Nat → Nat

/-- program counter of `Run` -/
inductive PPc where
  | alloc                                   -- `children := make([]ObjectWithMetadata, 0, objectCap)`
  | reading                                 -- `NextNodeBytes()` and what follows, up to `sendToFlusher`
  | add (p : Option Obj) (final : Bool)     -- `oa.flushWg.Add(1)`
  | get (p : Option Obj) (final : Bool)     -- `fb := getFlushBuffer(); fb.parent = head; fb.children = other`
  | enq (fb : Nat) (final : Bool)           -- `oa.flushQueue <- fb`
  | wait                                    -- deferred `oa.flushWg.Wait()`
  | close                                   -- `close(oa.flushQueue)`
  | done
deriving DecidableEq, Repr, Inhabited

/-- program counter of `startFlusher` -/
inductive CPc where
  | idle                -- `case fb := <-oa.flushQueue`
  | call (fb : Nat)     -- `oa.flush(fb.parent, fb.children)`
  | fin (fb : Nat)      -- `oa.flushWg.Done()`
  | put (fb : Nat)      -- `putFlushBuffer(fb)`
  | exited
deriving DecidableEq, Repr, Inhabited

structure St where
  -- heap
  store : Nat → Arr
  nArr : Nat
  fbs : Nat → FB
  nFb : Nat
  -- shared synchronisation objects
  pool : List Nat
  queue : List Nat
  closed : Bool
  wg : Nat
  -- locals of `Run`
  ppc : PPc
  rest : List Sec
  off : Nat
  skip : Nat
  cur : Slice
  -- locals of `startFlusher`
  cpc : CPc
  -- ghost
  /-- every `(head, other)` given to `flush`, `other` read AT CALL TIME -/
  seen : List Group
  /-- the slice headers given to `flush`, to read them again later -/
  handed : List (Option Obj × Slice)
  /-- arrays that have been sent on the channel -/
  sentArrs : List Nat
  /-- the reading goroutine wrote into an array after it was sent -/
  bad : Bool

def readSl (s : St) (sl : Slice) : List Obj := (s.store sl.arr).read sl.len

/-- state after `go oa.startFlusher(ctx)` and `HeaderSize()`; `npool` stale buffers left in the global pool by
    earlier runs -/
def init (c : Car) (skip npool : Nat) : St :=
  { store := fun _ => ⟨[], 0⟩, nArr := 0, fbs := fun _ => ⟨none, ⟨0, 0⟩⟩, nFb := npool,
    pool := List.range npool, queue := [], closed := false, wg := 0,
    ppc := .alloc, rest := c.secs, off := c.header.length, skip := skip, cur := ⟨0, 0⟩,
    cpc := .idle, seen := [], handed := [], sentArrs := [], bad := false }

/-! ## producer steps -/

/-- `children = append(children, element)` -/
def appendObj (cfg : Cfg) (s : St) (o : Obj) : St :=
  let a := s.store s.cur.arr
  if s.cur.len < a.cap then
    { s with store := upd s.store s.cur.arr (a.write s.cur.len o), cur := ⟨s.cur.arr, s.cur.len + 1⟩,
             bad := s.bad || s.sentArrs.contains s.cur.arr }
  else
    -- growslice: a new array holding a copy of the visible cells, then the write
    let a' : Arr := ⟨(a.read s.cur.len).reverse, cfg.grow a.cap⟩
    { s with store := upd s.store s.nArr (a'.write s.cur.len o), cur := ⟨s.nArr, s.cur.len + 1⟩, nArr := s.nArr + 1 }

/-- one iteration of `currentBufferLoop` up to the decision (mirrors `Accum.go` clause by clause) -/
def pRead (cfg : Cfg) (ig : List UInt8) (k : UInt8) (s : St) : St :=
  match s.rest, s.skip with
  | [], _ => { s with ppc := .add none true }
  | sec :: r, n + 1 => { s with rest := r, off := s.off + sec.secLen, skip := n }
  | sec :: r, 0 =>
    let o : Obj := ⟨sec.cid, s.off, sec.secLen, sec.data⟩
    let s' := { s with rest := r, off := s.off + sec.secLen }
    if kindOf sec.data = k then { s' with ppc := .add (some o) false }
    else if ignored ig (kindOf sec.data) then s'
    else appendObj cfg s' o

def stepP (cfg : Cfg) (ig : List UInt8) (k : UInt8) (n : Nat) (s : St) : St :=
  match s.ppc with
  | .alloc =>
    { s with store := upd s.store s.nArr ⟨[], cfg.cap0⟩, cur := ⟨s.nArr, 0⟩, nArr := s.nArr + 1, ppc := .reading }
  | .reading => pRead cfg ig k s
  | .add p f => { s with wg := s.wg + 1, ppc := .get p f }
  | .get p f =>
    match s.pool[n]? with
    | some fb => { s with pool := s.pool.erase fb, fbs := upd s.fbs fb ⟨p, s.cur⟩, ppc := .enq fb f }
    | none => { s with nFb := s.nFb + 1, fbs := upd s.fbs s.nFb ⟨p, s.cur⟩, ppc := .enq s.nFb f }   -- `New`
  | .enq fb f =>
    if s.queue.length < cfg.qcap then
      { s with queue := s.queue ++ [fb], sentArrs := (s.fbs fb).sl.arr :: s.sentArrs,
               ppc := if f then .wait else .alloc }
    else s
  | .wait => if s.wg = 0 then { s with ppc := .close } else s
  | .close => { s with closed := true, ppc := .done }
  | .done => s

/-! ## consumer steps -/

/-- the cell the callback writes, if any: with `app` it does what `cmd-car-split.go` does,
    `family := append(children, *parent)`, which writes into the delivered backing array when it has room
    (otherwise `append` copies into an array of its own, which nobody else ever sees) -/
def cbWrite (app : Bool) (s : St) (f : FB) : Option (Nat × Arr) :=
  match app, f.parent with
  | true, some p =>
    let a := s.store f.sl.arr
    if f.sl.len < a.cap then some (f.sl.arr, a.write f.sl.len p) else none
  | _, _ => none

/-- the heap after the callback (specification form of the `match` in `stepC`) -/
def cbStore (app : Bool) (s : St) (f : FB) : Nat → Arr :=
  match cbWrite app s f with
  | some (i, v) => upd s.store i v
  | none => s.store

def stepC (app : Bool) (s : St) : St :=
  match s.cpc with
  | .idle =>
    match s.queue with
    | fb :: q => { s with queue := q, cpc := .call fb }
    | [] => if s.closed then { s with cpc := .exited } else s
  | .call fb =>
    let f := s.fbs fb
    let s1 := { s with seen := s.seen ++ [⟨f.parent, readSl s f.sl⟩], handed := s.handed ++ [(f.parent, f.sl)],
                       cpc := .fin fb }
    match cbWrite app s f with
    | some (i, v) => { s1 with store := upd s.store i v }
    | none => s1
  | .fin fb => { s with wg := s.wg - 1, cpc := .put fb }
  | .put fb => { s with fbs := upd s.fbs fb ⟨none, ⟨(s.fbs fb).sl.arr, 0⟩⟩, pool := fb :: s.pool, cpc := .idle }
  | .exited => s

theorem stepC_call (app : Bool) (s : St) (fb : Nat) (hc : s.cpc = .call fb) :
    stepC app s = { s with store := cbStore app s (s.fbs fb),
                           seen := s.seen ++ [⟨(s.fbs fb).parent, readSl s (s.fbs fb).sl⟩],
                           handed := s.handed ++ [((s.fbs fb).parent, (s.fbs fb).sl)], cpc := .fin fb } := by
  simp only [stepC, hc, cbStore]
  cases cbWrite app s (s.fbs fb) with
  | none => rfl
  | some iv => rfl

/-! ## schedules -/

inductive Ev where
  | p (n : Nat)       -- the reading goroutine takes a step (`n`: which pooled buffer `Get` returns, if any)
  | c (app : Bool)    -- the flusher goroutine takes a step
  | gc                -- the runtime empties the `sync.Pool`
deriving Repr, Inhabited

def step (cfg : Cfg) (ig : List UInt8) (k : UInt8) (s : St) : Ev → St
  | .p n => stepP cfg ig k n s
  | .c app => stepC app s
  | .gc => { s with pool := [] }

def exec (cfg : Cfg) (ig : List UInt8) (k : UInt8) (s : St) (σ : List Ev) : St := σ.foldl (step cfg ig k) s

/-- the callback sequence: `flush` does not call back for `(nil, [])` -/
def St.observed (s : St) : List Group := s.seen.filter Group.nonEmpty

/-- what the callbacks' arguments show NOW -/
def St.reread (s : St) : List Group := s.handed.map fun h => ⟨h.1, readSl s h.2⟩

def St.finished (s : St) : Bool := s.ppc == .done && s.cpc == .exited

/-! ## the invariant -/

def resolve (s : St) (fb : Nat) : Group := ⟨(s.fbs fb).parent, readSl s (s.fbs fb).sl⟩

def curLive : PPc → Bool
  | .reading | .add _ _ | .get _ _ | .enq _ _ => true
  | _ => false

def wgP : PPc → Nat
  | .get _ _ | .enq _ _ => 1
  | _ => 0

def heldP : PPc → List Nat
  | .enq fb _ => [fb]
  | _ => []

def wgC : CPc → Nat
  | .call _ | .fin _ => 1
  | _ => 0

def heldC : CPc → List Nat
  | .call fb | .fin fb | .put fb => [fb]
  | _ => []

def callIds : CPc → List Nat
  | .call fb => [fb]
  | _ => []

def restGroups (ig : List UInt8) (k : UInt8) (s : St) (f : Bool) : List Group :=
  if f then [] else go ig k s.rest s.off s.skip []

/-- the groups the producer has still to put on the channel, as memory shows them now -/
def pending (ig : List UInt8) (k : UInt8) (s : St) : List Group :=
  match s.ppc with
  | .alloc => go ig k s.rest s.off s.skip []
  | .reading => go ig k s.rest s.off s.skip (readSl s s.cur)
  | .add p f => ⟨p, readSl s s.cur⟩ :: restGroups ig k s f
  | .get p f => ⟨p, readSl s s.cur⟩ :: restGroups ig k s f
  | .enq fb f => resolve s fb :: restGroups ig k s f
  | .wait | .close | .done => []

def bound (s : St) : Nat := if curLive s.ppc then s.cur.arr else s.nArr

def liveArrs (s : St) : List Nat :=
  s.handed.map (fun h => h.2.arr) ++ (callIds s.cpc ++ s.queue).map (fun fb => (s.fbs fb).sl.arr)

structure Inv (ig : List UInt8) (k : UInt8) (tot : List Group) (s : St) : Prop where
  view : s.seen ++ ((callIds s.cpc ++ s.queue).map (resolve s) ++ pending ig k s) = tot
  ids : (heldC s.cpc ++ (s.queue ++ (heldP s.ppc ++ s.pool))).Nodup
  idsLt : ∀ x ∈ heldC s.cpc ++ (s.queue ++ (heldP s.ppc ++ s.pool)), x < s.nFb
  arrs : (liveArrs s).Nodup
  arrsLt : ∀ a ∈ liveArrs s, a < bound s
  curLt : curLive s.ppc = true → s.cur.arr < s.nArr
  enqSl : ∀ fb f, s.ppc = .enq fb f → (s.fbs fb).sl = s.cur
  curLen : s.ppc = .reading → (s.store s.cur.arr).rc.length = s.cur.len
  stable : s.reread = s.seen
  wgEq : s.wg = s.queue.length + wgC s.cpc + wgP s.ppc
  closedDone : s.closed = true ↔ s.ppc = .done
  wgZero : s.ppc = .close ∨ s.ppc = .done → s.wg = 0
  exitedClosed : s.cpc = .exited → s.closed = true
  notBad : s.bad = false
  sentLt : ∀ a ∈ s.sentArrs, a < bound s

end Accum

namespace H

def P1 : UInt64 := 11400714785074694791
def P2 : UInt64 := 14029467366897019727
def P3 : UInt64 := 1609587929392839161
def P4 : UInt64 := 9650029242287828579
def P5 : UInt64 := 2870177450012600261

@[inline] def rotl (x : UInt64) (r : UInt64) : UInt64 := (x <<< r) ||| (x >>> (64 - r))
@[inline] def round (acc input : UInt64) : UInt64 := (rotl (acc + input * P2) 31) * P1
@[inline] def mergeRound (acc v : UInt64) : UInt64 := (acc ^^^ round 0 v) * P1 + P4

def u64le (b : Array UInt8) (i : Nat) : UInt64 :=
  (b.getD i 0).toUInt64 ||| ((b.getD (i+1) 0).toUInt64 <<< 8) ||| ((b.getD (i+2) 0).toUInt64 <<< 16) |||
  ((b.getD (i+3) 0).toUInt64 <<< 24) ||| ((b.getD (i+4) 0).toUInt64 <<< 32) ||| ((b.getD (i+5) 0).toUInt64 <<< 40) |||
  ((b.getD (i+6) 0).toUInt64 <<< 48) ||| ((b.getD (i+7) 0).toUInt64 <<< 56)

def u32le (b : Array UInt8) (i : Nat) : UInt64 :=
  (b.getD i 0).toUInt64 ||| ((b.getD (i+1) 0).toUInt64 <<< 8) ||| ((b.getD (i+2) 0).toUInt64 <<< 16) |||
  ((b.getD (i+3) 0).toUInt64 <<< 24)

/-- xxHash64, seed 0 (cespare/xxhash Sum64 / Digest) -/
def xxhash64 (bl : List UInt8) : UInt64 := Id.run do
  let b := bl.toArray
  let n := b.size
  let mut i := 0
  let mut h : UInt64 := 0
  if n >= 32 then
    let mut v1 : UInt64 := P1 + P2
    let mut v2 : UInt64 := P2
    let mut v3 : UInt64 := 0
    let mut v4 : UInt64 := 0 - P1
    while i + 32 <= n do
      v1 := round v1 (u64le b i)
      v2 := round v2 (u64le b (i+8))
      v3 := round v3 (u64le b (i+16))
      v4 := round v4 (u64le b (i+24))
      i := i + 32
    h := rotl v1 1 + rotl v2 7 + rotl v3 12 + rotl v4 18
    h := mergeRound h v1
    h := mergeRound h v2
    h := mergeRound h v3
    h := mergeRound h v4
  else
    h := P5
  h := h + n.toUInt64
  while i + 8 <= n do
    let k1 := round 0 (u64le b i)
    h := h ^^^ k1
    h := rotl h 27 * P1 + P4
    i := i + 8
  if i + 4 <= n then
    h := h ^^^ (u32le b i * P1)
    h := rotl h 23 * P2 + P3
    i := i + 4
  while i < n do
    h := h ^^^ ((b.getD i 0).toUInt64 * P5)
    h := rotl h 11 * P1
    i := i + 1
  h := h ^^^ (h >>> 33)
  h := h * P2
  h := h ^^^ (h >>> 29)
  h := h * P3
  h := h ^^^ (h >>> 32)
  return h

/-- Murmur3 finaliser (compactindex hashUint64) -/
def hashUint64 (x0 : UInt64) : UInt64 :=
  let x := x0 ^^^ (x0 >>> 33)
  let x := x * 0xff51afd7ed558ccd
  let x := x ^^^ (x >>> 33)
  let x := x * 0xc4ceb9fe1a85ec53
  x ^^^ (x >>> 33)

end H

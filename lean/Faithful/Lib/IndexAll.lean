import Faithful.Lib.Car
import Faithful.Lib.CompactIndexProofs

/-!
Model of `index all` (cmd-x-index-all.go `createAllIndexes`) and of the server-side lookups of epoch.go:
the four indexes are `CI.IndexA` values built by the compact-index model over the key/value pairs the Go loop
`Put`s, so every statement about them is a corollary of C04's `build_lookup` / `lookup_sound`.
The decoding of a node (kind, slot, block time, first signature) is a parameter `info`: byte→tree parsing
belongs to the CBOR libraries and to C11.
-/
namespace IndexAll
open B CI Car

/-- what the indexer extracts from an object -/
inductive Info where
  | block (slot blocktime : Nat)
  | tx (sig : Bytes)
  | other
deriving DecidableEq, Repr

/-- `OffsetAndSize.Bytes`: 6-byte LE offset, 3-byte LE size -/
def oasEncode (off sz : Nat) : Bytes := le 6 off ++ le 3 sz
/-- `OffsetAndSize.FromBytes` (on a 9-byte value) -/
def oasDecode (v : Bytes) : Nat × Nat := (unle (v.take 6), unle (v.drop 6))

theorem oas_roundtrip (off sz : Nat) (ho : off < 2^48) (hs : sz < 2^24) : oasDecode (oasEncode off sz) = (off, sz) := by
  unfold oasDecode oasEncode
  have h6 : (le 6 off).length = 6 := le_length 6 off
  rw [show (le 6 off ++ le 3 sz).take 6 = le 6 off by rw [← h6]; exact List.take_left]
  rw [show (le 6 off ++ le 3 sz).drop 6 = le 3 sz by rw [← h6]; exact List.drop_left]
  rw [unle_le_of_lt 6 off (by simpa using ho), unle_le_of_lt 3 sz (by simpa using hs)]

/-- `Uint64tob(slot)` -/
def slotKey (s : Nat) : Bytes := le 8 s

def cidKVs (hdrLen : Nat) (secs : List Sec) : List KV :=
  (scan hdrLen secs).map fun l => ⟨l.cid, oasEncode l.offset l.secLen⟩

def slotKVs (info : Bytes → Info) (secs : List Sec) : List KV :=
  secs.filterMap fun s => match info s.data with
    | .block slot _ => some ⟨slotKey slot, s.cid⟩
    | _ => none

def sigKVs (info : Bytes → Info) (secs : List Sec) : List KV :=
  secs.filterMap fun s => match info s.data with
    | .tx sig => some ⟨sig, s.cid⟩
    | _ => none

def blocktimes (info : Bytes → Info) (secs : List Sec) : List (Nat × Nat) :=
  secs.filterMap fun s => match info s.data with
    | .block slot bt => some (slot, bt)
    | _ => none

structure IndexSet where
  cidIx : IndexA
  slotIx : IndexA
  sigIx : IndexA
  /-- blocktime index: slot ↦ time, written per block (array indexed by slot − epochStart in the real file) -/
  blocktime : List (Nat × Nat)
  /-- signatures put into the sig-exists writer -/
  sigs : List Bytes

inductive Err | tooBig | index (e : BuildErr)
deriving Repr, DecidableEq

/-- `createAllIndexes`: success only when every `Put` and every `Seal` succeeded -/
def build (hf : HF) (info : Bytes → Info) (hdrLen : Nat) (secs : List Sec) (nCid nSlot nSig : Nat) : Except Err IndexSet :=
  if (scan hdrLen secs).any (fun l => decide (l.offset ≥ 2^48 ∨ l.secLen ≥ 2^24)) then .error .tooBig else
  match buildA hf 9 nCid [] (cidKVs hdrLen secs) with
  | .error e => .error (.index e)
  | .ok c =>
    match buildA hf 36 nSlot [] (slotKVs info secs) with
    | .error e => .error (.index e)
    | .ok s =>
      match buildA hf 36 nSig [] (sigKVs info secs) with
      | .error e => .error (.index e)
      | .ok g => .ok ⟨c, s, g, blocktimes info secs, (sigKVs info secs).map (·.key)⟩

/-- `Epoch.GetNodeByCid`: index lookup, range read, re-parse, CID comparison -/
inductive Got | ok (data : Bytes) | notFound | err
deriving DecidableEq, Repr

def getNodeByCid (hf : HF) (ix : IndexSet) (car : Bytes) (c : Bytes) : Got :=
  match lookupA hf ix.cidIx c with
  | .found v =>
    let (off, sz) := oasDecode v
    match nodeAt car off sz c with
    | some d => .ok d
    | none => .err
  | .notFound => .notFound
  | _ => .err

def findCidFromSlot (hf : HF) (ix : IndexSet) (slot : Nat) : Look := lookupA hf ix.slotIx (slotKey slot)
def findCidFromSig (hf : HF) (ix : IndexSet) (sig : Bytes) : Look := lookupA hf ix.sigIx sig
def getBlocktime (ix : IndexSet) (slot : Nat) : Option Nat := (ix.blocktime.find? (·.1 == slot)).map (·.2)

theorem build_ok (hf : HF) (info : Bytes → Info) (hdrLen : Nat) (secs : List Sec) (a b c : Nat) (ix : IndexSet)
    (h : build hf info hdrLen secs a b c = .ok ix) :
    (∀ l ∈ scan hdrLen secs, l.offset < 2^48 ∧ l.secLen < 2^24) ∧
    buildA hf 9 a [] (cidKVs hdrLen secs) = .ok ix.cidIx ∧
    buildA hf 36 b [] (slotKVs info secs) = .ok ix.slotIx ∧
    buildA hf 36 c [] (sigKVs info secs) = .ok ix.sigIx ∧
    ix.blocktime = blocktimes info secs ∧ ix.sigs = (sigKVs info secs).map (·.key) := by
  unfold build at h
  split at h
  · cases h
  · rename_i hbig
    split at h
    · cases h
    · rename_i c' hc
      split at h
      · cases h
      · rename_i s' hs
        split at h
        · cases h
        · rename_i g' hg
          cases h
          refine ⟨?_, hc, hs, hg, rfl, rfl⟩
          intro l hl
          simp only [List.any_eq_true, decide_eq_true_eq, not_exists, not_and, not_or] at hbig
          have := hbig l hl
          omega

end IndexAll

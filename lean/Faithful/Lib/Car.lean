import Faithful.Lib.Bytes
import Faithful.Lib.Varint

/-!
CARv1 as bytes: `header ++ sections`, section = `uvarint(len cid + len data) ‖ cid ‖ data`, CIDs in the 36-byte
CIDv1/dag-cbor/sha2-256 form the writers of this repository produce.  Models
`carreader.NextNode`/`ReadSectionLength` (the scan used by every indexer), `parseNodeFromSection`
(epoch.go/storage.go: re-parse of an indexed byte range with CID comparison) and the offset arithmetic of
`createAllIndexes`.
-/
namespace Car
open B

structure Sec where
  cid : Bytes
  data : Bytes
deriving DecidableEq, Repr

def secBytes (s : Sec) : Bytes := Varint.put (s.cid.length + s.data.length) ++ s.cid ++ s.data

/-- the CAR file: `hdr` is the complete header including its own length prefix -/
def encode (hdr : Bytes) (secs : List Sec) : Bytes := hdr ++ (secs.map secBytes).flatten

structure Loc where
  cid : Bytes
  offset : Nat
  secLen : Nat
deriving DecidableEq, Repr

/-- the indexer's loop: `totalOffset` starts at the header size and advances by the section length -/
def scan : Nat → List Sec → List Loc
  | _, [] => []
  | off, s :: r => ⟨s.cid, off, (secBytes s).length⟩ :: scan (off + (secBytes s).length) r

/-- `parseNodeFromSection`: uvarint, then a 36-byte CID, the rest is the object; `none` = error -/
def parseSection (sec : Bytes) : Option (Bytes × Bytes) :=
  match Varint.get sec 10 with
  | none => none
  | some (l, w) =>
    let body := sec.drop w
    if body.length ≠ l ∨ l < 36 then none else some (body.take 36, body.drop 36)

/-- epoch.go `GetNodeByOffsetAndSize` + CID check: read `[off, off+size)`, re-parse, compare the CID -/
def nodeAt (car : Bytes) (off size : Nat) (want : Bytes) : Option Bytes :=
  if off + size > car.length then none else
  match parseSection (slice car off size) with
  | none => none
  | some (c, d) => if c = want then some d else none

/-- the same read on an array (what the driver executes: O(size) instead of O(offset)) -/
def nodeAtA (car : Array UInt8) (off size : Nat) (want : Bytes) : Option Bytes :=
  if off + size > car.size then none else
  match parseSection (car.extract off (off + size)).toList with
  | none => none
  | some (c, d) => if c = want then some d else none

theorem nodeAtA_eq (car : Bytes) (off size : Nat) (want : Bytes) : nodeAtA car.toArray off size want = nodeAt car off size want := by
  unfold nodeAtA nodeAt slice
  simp [List.extract_eq_take_drop]

/-! ### scanning a CAR from bytes (what the driver and `carreader` do) -/

/-- sections after the header, with running offset; `none` = malformed -/
def sections : Nat → Bytes → Nat → Option (List (Sec × Loc))
  | 0, _, _ => none
  | _, [], _ => some []
  | fuel+1, bs, off =>
    match Varint.get bs 10 with
    | none => none
    | some (l, w) =>
      let body := (bs.drop w).take l
      if body.length < l ∨ l < 36 then none
      else
        match sections fuel (bs.drop (w + l)) (off + w + l) with
        | none => none
        | some r => some ((⟨body.take 36, body.drop 36⟩, ⟨body.take 36, off, w + l⟩) :: r)

/-- header = uvarint(len) ‖ dag-cbor header; returns the total header size -/
def headerLen (car : Bytes) : Option Nat :=
  match Varint.get car 10 with
  | none => none
  | some (hl, w) => if car.length < w + hl then none else some (w + hl)

def parse (car : Bytes) : Option (Nat × List (Sec × Loc)) :=
  match headerLen car with
  | none => none
  | some h =>
    match sections (car.length + 1) (car.drop h) h with
    | some l => some (h, l)
    | none => none

/-! ### lemmas -/

theorem secBytes_length (s : Sec) : (secBytes s).length = Varint.width (s.cid.length + s.data.length) + s.cid.length + s.data.length := by
  simp [secBytes, Varint.width, Nat.add_assoc]

theorem scan_length (off : Nat) (secs : List Sec) : (scan off secs).length = secs.length := by
  induction secs generalizing off with
  | nil => rfl
  | cons s r ih => simp [scan, ih]

/-- **offsets are exact**: the i-th recorded location is the i-th CID at `start + Σ_{j<i} len_j` with its own length -/
theorem scan_getElem (off : Nat) (secs : List Sec) (i : Nat) (hi : i < secs.length) :
    (scan off secs)[i]'(by rw [scan_length]; exact hi) =
      ⟨secs[i].cid, off + prefixLen (secs.map secBytes) i, (secBytes secs[i]).length⟩ := by
  induction secs generalizing off i with
  | nil => simp at hi
  | cons s r ih =>
    cases i with
    | zero => simp [scan, prefixLen]
    | succ j =>
      have hj : j < r.length := by simpa using hi
      simp only [scan, List.getElem_cons_succ]
      rw [ih (off + (secBytes s).length) j hj]
      simp [prefixLen, Nat.add_assoc]

/-- the bytes at a recorded location are exactly that section -/
theorem slice_at_loc (hdr : Bytes) (secs : List Sec) (i : Nat) (hi : i < secs.length) :
    slice (encode hdr secs) (hdr.length + prefixLen (secs.map secBytes) i) (secBytes secs[i]).length = secBytes secs[i] := by
  unfold encode
  rw [Nat.add_comm hdr.length, ← Nat.add_zero (prefixLen _ i + hdr.length), Nat.add_comm (prefixLen _ i) hdr.length, Nat.add_assoc]
  rw [slice_append_right]
  have hi' : i < (secs.map secBytes).length := by simpa using hi
  have := slice_flatten_at (secs.map secBytes) i hi' 0 (secBytes secs[i]).length (by simp)
  simp only [List.getElem_map] at this
  rw [this]
  exact slice_self _

theorem prefix_le_total (l : List Bytes) (i : Nat) (hi : i < l.length) :
    prefixLen l i + l[i].length ≤ l.flatten.length := by
  induction l generalizing i with
  | nil => simp at hi
  | cons x xs ih =>
    cases i with
    | zero => simp [prefixLen]
    | succ j =>
      have hj : j < xs.length := by simpa using hi
      have := ih j hj
      simp only [prefixLen, List.take_succ_cons, List.map_cons, List.sum_cons, List.getElem_cons_succ,
        List.flatten_cons, List.length_append] at this ⊢
      omega

theorem width_le4 {v : Nat} (h : v < 268435456) : Varint.width v ≤ 4 := by
  by_cases h1 : v < 128
  · rw [Varint.width_lt128 h1]; omega
  · by_cases h2 : v < 16384
    · rw [Varint.width_two (by omega) h2]; omega
    · by_cases h3 : v < 2097152
      · rw [Varint.width_three (by omega) h3]; omega
      · rw [Varint.width_ge128 (by omega), Varint.width_three (by omega) (by omega)]; omega

/-- re-parsing a section written by the encoder gives back its CID and data
    (sections below 2^28 bytes; the CAR reader refuses anything above 32 MiB anyway) -/
theorem parseSection_secBytes (s : Sec) (hc : s.cid.length = 36) (hsz : s.cid.length + s.data.length < 268435456) :
    parseSection (secBytes s) = some (s.cid, s.data) := by
  unfold parseSection secBytes
  have hw : Varint.width (s.cid.length + s.data.length) ≤ 10 := by
    have := width_le4 hsz; omega
  rw [List.append_assoc, Varint.get_put _ _ 10 hw]
  have hd : (Varint.put (s.cid.length + s.data.length) ++ (s.cid ++ s.data)).drop (Varint.width (s.cid.length + s.data.length))
      = s.cid ++ s.data := by
    unfold Varint.width; exact List.drop_left
  simp only [hd]
  have h36 : (s.cid ++ s.data).take 36 = s.cid := by rw [← hc]; exact List.take_left
  have hdr : (s.cid ++ s.data).drop 36 = s.data := by rw [← hc]; exact List.drop_left
  have hlen : ¬ ((s.cid ++ s.data).length ≠ s.cid.length + s.data.length ∨ s.cid.length + s.data.length < 36) := by
    simp; omega
  simp only [hlen, if_false, h36, hdr]

end Car

import Faithful.Lib.Bytes
import Faithful.Lib.Varint

/-!
CARv1 as bytes: `header ++ sections`, section = `uvarint(len cid + len data) ‖ cid ‖ data`, CIDs in the 36-byte
CIDv1/dag-cbor/sha2-256 form the writers of this repository produce.  Models
`carreader.NextNode`/`ReadSectionLength` (the scan used by every indexer), `parseNodeFromSection`
(epoch.go/storage.go: re-parse of an indexed byte range with CID comparison) and the offset arithmetic of
`createAllIndexes`.
-/
namespace Car
open B

structure Sec where
  cid : Bytes
  data : Bytes
deriving DecidableEq, Repr

def secBytes (s : Sec) : Bytes := Varint.put (s.cid.length + s.data.length) ++ s.cid ++ s.data

/-- the CAR file: `hdr` is the complete header including its own length prefix -/
def encode (hdr : Bytes) (secs : List Sec) : Bytes := hdr ++ (secs.map secBytes).flatten

structure Loc where
  cid : Bytes
  offset : Nat
  secLen : Nat
deriving DecidableEq, Repr

/-- the indexer's loop: `totalOffset` starts at the header size and advances by the section length -/
def scan : Nat → List Sec → List Loc
  | _, [] => []
  | off, s :: r => ⟨s.cid, off, (secBytes s).length⟩ :: scan (off + (secBytes s).length) r

/-- `parseNodeFromSection`: uvarint, then a 36-byte CID, the rest is the object; `none` = error -/
def parseSection (sec : Bytes) : Option (Bytes × Bytes) :=
  match Varint.get sec 10 with
  | none => none
  | some (l, w) =>
    let body := sec.drop w
    if body.length ≠ l ∨ l < 36 then none else some (body.take 36, body.drop 36)

/-- epoch.go `GetNodeByOffsetAndSize` + CID check: read `[off, off+size)`, re-parse, compare the CID -/
def nodeAt (car : Bytes) (off size : Nat) (want : Bytes) : Option Bytes :=
  if off + size > car.length then none else
  match parseSection (slice car off size) with
  | none => none
  | some (c, d) => if c = want then some d else none

/-- the same read on an array (what the driver executes: O(size) instead of O(offset)) -/
def nodeAtA (car : Array UInt8) (off size : Nat) (want : Bytes) : Option Bytes :=
  if off + size > car.size then none else
  match parseSection (car.extract off (off + size)).toList with
  | none => none
  | some (c, d) => if c = want then some d else none

theorem nodeAtA_eq (car : Bytes) (off size : Nat) (want : Bytes) : nodeAtA car.toArray off size want = nodeAt car off size want := by
  unfold nodeAtA nodeAt slice
  simp [List.extract_eq_take_drop]

/-! ### scanning a CAR from bytes (what the driver and `carreader` do) -/

/-- sections after the header, with running offset; `none` = malformed -/
def sections : Nat → Bytes → Nat → Option (List (Sec × Loc))
  | 0, _, _ => none
  | _, [], _ => some []
  | fuel+1, bs, off =>
    match Varint.get bs 10 with
    | none => none
    | some (l, w) =>
      let body := (bs.drop w).take l
      if body.length < l ∨ l < 36 then none
      else
        match sections fuel (bs.drop (w + l)) (off + w + l) with
        | none => none
        | some r => some ((⟨body.take 36, body.drop 36⟩, ⟨body.take 36, off, w + l⟩) :: r)

/-- header = uvarint(len) ‖ dag-cbor header; returns the total header size -/
def headerLen (car : Bytes) : Option Nat :=
  match Varint.get car 10 with
  | none => none
  | some (hl, w) => if car.length < w + hl then none else some (w + hl)

def parse (car : Bytes) : Option (Nat × List (Sec × Loc)) :=
  match headerLen car with
  | none => none
  | some h =>
    match sections (car.length + 1) (car.drop h) h with
    | some l => some (h, l)
    | none => none

/-! ### lemmas -/

theorem secBytes_length (s : Sec) : (secBytes s).length = Varint.width (s.cid.length + s.data.length) + s.cid.length + s.data.length := by
  simp [secBytes, Varint.width, Nat.add_assoc]

theorem scan_length (off : Nat) (secs : List Sec) : (scan off secs).length = secs.length := by
  induction secs generalizing off with
  | nil => rfl
  | cons s r ih => simp [scan, ih]

/-- **offsets are exact**: the i-th recorded location is the i-th CID at `start + Σ_{j<i} len_j` with its own length -/
theorem scan_getElem (off : Nat) (secs : List Sec) (i : Nat) (hi : i < secs.length) :
    (scan off secs)[i]'(by rw [scan_length]; exact hi) =
      ⟨secs[i].cid, off + prefixLen (secs.map secBytes) i, (secBytes secs[i]).length⟩ := by
  induction secs generalizing off i with
  | nil => simp at hi
  | cons s r ih =>
    cases i with
    | zero => simp [scan, prefixLen]
    | succ j =>
      have hj : j < r.length := by simpa using hi
      simp only [scan, List.getElem_cons_succ]
      rw [ih (off + (secBytes s).length) j hj]
      simp [prefixLen, Nat.add_assoc]

/-- the bytes at a recorded location are exactly that section -/
theorem slice_at_loc (hdr : Bytes) (secs : List Sec) (i : Nat) (hi : i < secs.length) :
    slice (encode hdr secs) (hdr.length + prefixLen (secs.map secBytes) i) (secBytes secs[i]).length = secBytes secs[i] := by
  unfold encode
  rw [Nat.add_comm hdr.length, ← Nat.add_zero (prefixLen _ i + hdr.length), Nat.add_comm (prefixLen _ i) hdr.length, Nat.add_assoc]
  rw [slice_append_right]
  have hi' : i < (secs.map secBytes).length := by simpa using hi
  have := slice_flatten_at (secs.map secBytes) i hi' 0 (secBytes secs[i]).length (by simp)
  simp only [List.getElem_map] at this
  rw [this]
  exact slice_self _

theorem prefix_le_total (l : List Bytes) (i : Nat) (hi : i < l.length) :
    prefixLen l i + l[i].length ≤ l.flatten.length := by
  induction l generalizing i with
  | nil => simp at hi
  | cons x xs ih =>
    cases i with
    | zero => simp [prefixLen]
    | succ j =>
      have hj : j < xs.length := by simpa using hi
      have := ih j hj
      simp only [prefixLen, List.take_succ_cons, List.map_cons, List.sum_cons, List.getElem_cons_succ,
        List.flatten_cons, List.length_append] at this ⊢
      omega

theorem width_le4 {v : Nat} (h : v < 268435456) : Varint.width v ≤ 4 := by
  by_cases h1 : v < 128
  · rw [Varint.width_lt128 h1]; omega
  · by_cases h2 : v < 16384
    · rw [Varint.width_two (by omega) h2]; omega
    · by_cases h3 : v < 2097152
      · rw [Varint.width_three (by omega) h3]; omega
      · rw [Varint.width_ge128 (by omega), Varint.width_three (by omega) (by omega)]; omega

/-- re-parsing a section written by the encoder gives back its CID and data
    (sections below 2^28 bytes; the CAR reader refuses anything above 32 MiB anyway) -/
theorem parseSection_secBytes (s : Sec) (hc : s.cid.length = 36) (hsz : s.cid.length + s.data.length < 268435456) :
    parseSection (secBytes s) = some (s.cid, s.data) := by
  unfold parseSection secBytes
  have hw : Varint.width (s.cid.length + s.data.length) ≤ 10 := by
    have := width_le4 hsz; omega
  rw [List.append_assoc, Varint.get_put _ _ 10 hw]
  have hd : (Varint.put (s.cid.length + s.data.length) ++ (s.cid ++ s.data)).drop (Varint.width (s.cid.length + s.data.length))
      = s.cid ++ s.data := by
    unfold Varint.width; exact List.drop_left
  simp only [hd]
  have h36 : (s.cid ++ s.data).take 36 = s.cid := by rw [← hc]; exact List.take_left
  have hdr : (s.cid ++ s.data).drop 36 = s.data := by rw [← hc]; exact List.drop_left
  have hlen : ¬ ((s.cid ++ s.data).length ≠ s.cid.length + s.data.length ∨ s.cid.length + s.data.length < 36) := by
    simp; omega
  simp only [hlen, if_false, h36, hdr]

end Car

namespace Car
open B

/-! ### the byte parser recovers exactly the sections of an encoded CAR, with their true locations -/

def WFSec (s : Sec) : Prop := s.cid.length = 36 ∧ s.cid.length + s.data.length < 268435456

theorem get_secBytes (s : Sec) (rest : Bytes) (h : WFSec s) :
    Varint.get (secBytes s ++ rest) 10 = some (s.cid.length + s.data.length, Varint.width (s.cid.length + s.data.length)) := by
  unfold secBytes
  have hw : Varint.width (s.cid.length + s.data.length) ≤ 10 := by have := width_le4 h.2; omega
  rw [List.append_assoc, List.append_assoc, Varint.get_put _ _ 10 hw]

theorem sections_encode : ∀ (secs : List Sec) (off fuel : Nat), (∀ s ∈ secs, WFSec s) → secs.length < fuel →
    sections fuel (secs.map secBytes).flatten off = some (secs.zip (scan off secs))
  | [], off, fuel, _, hf => by
    obtain ⟨f, rfl⟩ : ∃ f, fuel = f + 1 := ⟨fuel - 1, by simp at hf; omega⟩
    simp [sections, scan]
  | s :: r, off, fuel, hwf, hf => by
    obtain ⟨f, rfl⟩ : ∃ f, fuel = f + 1 := ⟨fuel - 1, by simp at hf; omega⟩
    have hs := hwf s (List.mem_cons_self ..)
    have hne : (List.map secBytes (s :: r)).flatten ≠ [] := by
      simp only [List.map_cons, List.flatten_cons]
      intro h
      have := congrArg List.length h
      simp only [List.length_append, secBytes_length, List.length_nil] at this
      have hp := Varint.put_length_pos (s.cid.length + s.data.length)
      unfold Varint.width at this
      omega
    simp only [List.map_cons, List.flatten_cons] at hne ⊢
    -- unfold one step of `sections`
    have hget := get_secBytes s (List.map secBytes r).flatten hs
    cases hbs : secBytes s ++ (List.map secBytes r).flatten with
    | nil => exact absurd hbs hne
    | cons b bs =>
      rw [← hbs]
      unfold sections
      rw [hbs]
      simp only
      rw [← hbs, hget]
      simp only
      -- the body
      have hdrop : (secBytes s ++ (List.map secBytes r).flatten).drop (Varint.width (s.cid.length + s.data.length))
          = s.cid ++ s.data ++ (List.map secBytes r).flatten := by
        unfold secBytes
        rw [List.append_assoc, List.append_assoc]
        unfold Varint.width
        rw [List.drop_left]
        simp
      have hbody : ((secBytes s ++ (List.map secBytes r).flatten).drop (Varint.width (s.cid.length + s.data.length))).take
          (s.cid.length + s.data.length) = s.cid ++ s.data := by
        rw [hdrop, ← List.length_append]
        exact List.take_left
      rw [hbody]
      have hlen : ¬ ((s.cid ++ s.data).length < s.cid.length + s.data.length ∨ s.cid.length + s.data.length < 36) := by
        have := hs.1
        simp; omega
      simp only [hlen, if_false]
      have hrest : (secBytes s ++ (List.map secBytes r).flatten).drop
          (Varint.width (s.cid.length + s.data.length) + (s.cid.length + s.data.length)) = (List.map secBytes r).flatten := by
        have : Varint.width (s.cid.length + s.data.length) + (s.cid.length + s.data.length) = (secBytes s).length := by
          rw [secBytes_length]; omega
        rw [this, List.drop_left]
      rw [hrest]
      have ih := sections_encode r (off + Varint.width (s.cid.length + s.data.length) + (s.cid.length + s.data.length)) f
        (fun x hx => hwf x (List.mem_cons_of_mem _ hx)) (by simp only [List.length_cons] at hf; omega)
      rw [ih]
      have h36 : (s.cid ++ s.data).take 36 = s.cid := by rw [← hs.1]; exact List.take_left
      have hd36 : (s.cid ++ s.data).drop 36 = s.data := by rw [← hs.1]; exact List.drop_left
      simp only [h36, hd36, scan, List.zip_cons_cons]
      have hl : (secBytes s).length = Varint.width (s.cid.length + s.data.length) + (s.cid.length + s.data.length) := by
        rw [secBytes_length]; omega
      simp only [hl, Nat.add_assoc]

/-- **the CAR reader is exact**: parsing the bytes of any well-formed CAR (header = uvarint(len) ‖ body) yields the
    header size and every section with the offset and length at which it really sits -/
theorem parse_encode (hbody : Bytes) (secs : List Sec) (hh : hbody.length < 268435456) (hwf : ∀ s ∈ secs, WFSec s) :
    parse (encode (Varint.put hbody.length ++ hbody) secs)
      = some ((Varint.put hbody.length ++ hbody).length, secs.zip (scan (Varint.put hbody.length ++ hbody).length secs)) := by
  unfold parse headerLen encode
  have hw : Varint.width hbody.length ≤ 10 := by have := width_le4 hh; omega
  rw [List.append_assoc, Varint.get_put _ _ 10 hw]
  have hlen : ¬ ((Varint.put hbody.length ++ (hbody ++ (List.map secBytes secs).flatten)).length < Varint.width hbody.length + hbody.length) := by
    simp [Varint.width]
  simp only [hlen, if_false]
  have hdrop : (Varint.put hbody.length ++ (hbody ++ (List.map secBytes secs).flatten)).drop (Varint.width hbody.length + hbody.length)
      = (List.map secBytes secs).flatten := by
    rw [← List.append_assoc]
    have : Varint.width hbody.length + hbody.length = (Varint.put hbody.length ++ hbody).length := by simp [Varint.width]
    rw [this, List.drop_left]
  rw [hdrop]
  have hfuel : secs.length < (Varint.put hbody.length ++ (hbody ++ (List.map secBytes secs).flatten)).length + 1 := by
    have : secs.length ≤ (List.map secBytes secs).flatten.length := by
      clear hdrop hlen
      induction secs with
      | nil => simp
      | cons s r ih =>
        have := ih (fun x hx => hwf x (List.mem_cons_of_mem _ hx))
        simp only [List.map_cons, List.flatten_cons, List.length_append, List.length_cons]
        have hp := Varint.put_length_pos (s.cid.length + s.data.length)
        have : 0 < (secBytes s).length := by rw [secBytes_length]; unfold Varint.width; omega
        omega
    simp only [List.length_append]
    omega
  rw [sections_encode secs _ _ hwf hfuel]
  simp [Varint.width]

end Car

import Faithful.Lib.CborLite
import Faithful.Lib.IndexAll

/-! What the indexers extract from an object: the driver-side instantiation of `IndexAll.Info`
(definite-length CBOR tuple → kind, slot, block time, first signature). -/
namespace CarInfo
open CborLite IndexAll

def asNat : Val → Option Nat
  | .uint n => some n
  | _ => none

/-- compact-u16 length then 64-byte signature (readFirstSignature) -/
def firstSig (tx : Bytes) : Option Bytes :=
  match tx with
  | [] => none
  | b :: rest =>
    let (n, rest) :=
      if b.toNat < 128 then (b.toNat, rest)
      else match rest with
        | c :: r2 => if c.toNat < 128 then ((b.toNat - 128) + 128 * c.toNat, r2)
                     else match r2 with
                       | d :: r3 => ((b.toNat - 128) + 128 * (c.toNat - 128) + 16384 * d.toNat, r3)
                       | [] => (0, [])
        | [] => (0, [])
    if n = 0 ∨ rest.length < 64 then none else some (rest.take 64)

/-- kind byte, block slot/blocktime, transaction first signature -/
def info (data : Bytes) : Info :=
  match decodeAll data with
  | some (.arr (k :: rest)) =>
    match asNat k with
    | some 2 =>
      match rest with
      | slot :: _ :: _ :: (.arr (_ :: bt :: _)) :: _ =>
        match asNat slot, asNat bt with
        | some s, some t => .block s t
        | _, _ => .other
      | _ => .other
    | some 0 =>
      match rest with
      | (.arr (_ :: _ :: _ :: _ :: (.bytes payload) :: _)) :: _ =>
        match firstSig payload with
        | some s => .tx s
        | none => .other
      | _ => .other
    | _ => .other
  | _ => .other

end CarInfo

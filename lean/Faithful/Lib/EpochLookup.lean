import Faithful.Lib.IndexAll

/-!
Model of the key → object lookups of the server (epoch.go `Epoch.GetBlock`, `Epoch.GetTransaction`,
`Epoch.GetNodeByCid`; multiepoch-getBlock.go / grpc-server.go routing by slot; multiepoch-getTransaction.go
routing by signature; gsfa/gsfa-read-multiepoch.go `iterBeforeUntil` + the fetcher of
multiepoch-getSignaturesForAddress.go).

The indexes are `CI.IndexA` values (the on-disk hash index keeps NO keys: a bucket entry is a 24-bit hash and a
value), the CAR is bytes, and decoding a node is the parameter `info` (IndexAll.Info: kind, slot, first signature).

Every lookup exists in two variants:
* `…NoCheck` — what the pinned tree does: decode what the index pointed to and return it;
* the repaired behaviour (fix C03-1 / C03-2): after decoding, COMPARE the block's slot / the transaction's first
  signature with the request, resp. check that the transaction mentions the requested address, and answer as for a
  missing key otherwise.
-/
namespace EpochLookup
open B CI Car IndexAll

/-- outcome of a request as the handlers classify it (`errors.Is(err, compactindexsized.ErrNotFound)` → not found;
    the slot's epoch is not loaded → epoch not available; anything else → internal error) -/
inductive Ans (α : Type) where
  | ok (a : α)
  | notFound
  | epochNotAvailable
  | err
deriving Repr, DecidableEq

/-- a decoded node together with the CID it was fetched under -/
structure Node where
  cid : Bytes
  data : Bytes
deriving Repr, DecidableEq

/-- `GetNodeByCid` on the CAR held in an array (what the driver executes; `getNodeByCidA_eq` ties it to the list version) -/
def getNodeByCidA (hf : HF) (ix : IndexSet) (car : Array UInt8) (c : Bytes) : Got :=
  match lookupA hf ix.cidIx c with
  | .found v =>
    let (off, sz) := oasDecode v
    match nodeAtA car off sz c with
    | some d => .ok d
    | none => .err
  | .notFound => .notFound
  | _ => .err

theorem getNodeByCidA_eq (hf : HF) (ix : IndexSet) (car : Bytes) (c : Bytes) :
    getNodeByCidA hf ix car.toArray c = getNodeByCid hf ix car c := by
  unfold getNodeByCidA getNodeByCid
  cases lookupA hf ix.cidIx c with
  | found v =>
    simp only [nodeAtA_eq]
    cases nodeAt car (oasDecode v).1 (oasDecode v).2 c <;> rfl
  | _ => rfl

/-- the common part of `Epoch.GetBlock` / `Epoch.GetTransaction`: index answer → fetch by CID → node.
    A CID the key index knows but the CID index does not is reported through the wrapped not-found error. -/
def fetchFound (fetch : Bytes → Got) : Look → Ans Node
  | .found c =>
    match fetch c with
    | .ok d => .ok ⟨c, d⟩
    | .notFound => .notFound
    | .err => .err
  | .notFound => .notFound
  | _ => .err

/-! ### blocks -/

/-- decode step of `GetBlock` (`iplddecoders.DecodeBlock`): anything that is not a block is an error -/
def asBlock (info : Bytes → Info) : Ans Node → Ans (Node × Nat)
  | .ok n => match info n.data with
    | .block slot _ => .ok (n, slot)
    | _ => .err
  | .notFound => .notFound
  | .epochNotAvailable => .epochNotAvailable
  | .err => .err

/-- the comparison the pinned tree lacks: a block of another slot is "not found" -/
def checkSlot (s : Nat) : Ans (Node × Nat) → Ans (Node × Nat)
  | .ok (n, slot) => if slot = s then .ok (n, slot) else .notFound
  | r => r

def getBlockWith (info : Bytes → Info) (fetch : Bytes → Got) (found : Look) : Ans (Node × Nat) :=
  asBlock info (fetchFound fetch found)

/-- `Epoch.GetBlock` of the pinned tree -/
def getBlockNoCheck (hf : HF) (info : Bytes → Info) (ix : IndexSet) (car : Bytes) (s : Nat) : Ans (Node × Nat) :=
  getBlockWith info (getNodeByCid hf ix car) (findCidFromSlot hf ix s)

/-- `Epoch.GetBlock` with the slot comparison (fix C03-1) -/
def getBlock (hf : HF) (info : Bytes → Info) (ix : IndexSet) (car : Bytes) (s : Nat) : Ans (Node × Nat) :=
  checkSlot s (getBlockNoCheck hf info ix car s)

def getBlockNoCheckA (hf : HF) (info : Bytes → Info) (ix : IndexSet) (car : Array UInt8) (s : Nat) : Ans (Node × Nat) :=
  getBlockWith info (getNodeByCidA hf ix car) (findCidFromSlot hf ix s)

def getBlockA (hf : HF) (info : Bytes → Info) (ix : IndexSet) (car : Array UInt8) (s : Nat) : Ans (Node × Nat) :=
  checkSlot s (getBlockNoCheckA hf info ix car s)

theorem getBlockA_eq (hf : HF) (info : Bytes → Info) (ix : IndexSet) (car : Bytes) (s : Nat) :
    getBlockA hf info ix car.toArray s = getBlock hf info ix car s := by
  unfold getBlockA getBlock getBlockNoCheckA getBlockNoCheck
  have : getNodeByCidA hf ix car.toArray = getNodeByCid hf ix car := funext (getNodeByCidA_eq hf ix car)
  rw [this]

/-! ### transactions -/

def asTx (info : Bytes → Info) : Ans Node → Ans (Node × Bytes)
  | .ok n => match info n.data with
    | .tx sig => .ok (n, sig)
    | _ => .err
  | .notFound => .notFound
  | .epochNotAvailable => .epochNotAvailable
  | .err => .err

def checkSig (g : Bytes) : Ans (Node × Bytes) → Ans (Node × Bytes)
  | .ok (n, sig) => if sig = g then .ok (n, sig) else .notFound
  | r => r

def getTxWith (info : Bytes → Info) (fetch : Bytes → Got) (found : Look) : Ans (Node × Bytes) :=
  asTx info (fetchFound fetch found)

/-- `Epoch.GetTransaction` of the pinned tree -/
def getTxNoCheck (hf : HF) (info : Bytes → Info) (ix : IndexSet) (car : Bytes) (g : Bytes) : Ans (Node × Bytes) :=
  getTxWith info (getNodeByCid hf ix car) (findCidFromSig hf ix g)

/-- `Epoch.GetTransaction` with the first-signature comparison (fix C03-1) -/
def getTx (hf : HF) (info : Bytes → Info) (ix : IndexSet) (car : Bytes) (g : Bytes) : Ans (Node × Bytes) :=
  checkSig g (getTxNoCheck hf info ix car g)

def getTxNoCheckA (hf : HF) (info : Bytes → Info) (ix : IndexSet) (car : Array UInt8) (g : Bytes) : Ans (Node × Bytes) :=
  getTxWith info (getNodeByCidA hf ix car) (findCidFromSig hf ix g)

def getTxA (hf : HF) (info : Bytes → Info) (ix : IndexSet) (car : Array UInt8) (g : Bytes) : Ans (Node × Bytes) :=
  checkSig g (getTxNoCheckA hf info ix car g)

theorem getTxA_eq (hf : HF) (info : Bytes → Info) (ix : IndexSet) (car : Bytes) (g : Bytes) :
    getTxA hf info ix car.toArray g = getTx hf info ix car g := by
  unfold getTxA getTx getTxNoCheckA getTxNoCheck
  have : getNodeByCidA hf ix car.toArray = getNodeByCid hf ix car := funext (getNodeByCidA_eq hf ix car)
  rw [this]

/-! ### the address index (gsfa) -/

/-- what the handler's fetcher knows about a transaction of the linked log: its first signature and the addresses
    `index gsfa` lists it under (static account keys, then the addresses loaded from lookup tables) -/
structure Tx where
  sig : Bytes
  mentions : List Bytes
deriving Repr, DecidableEq

/-- one epoch's address index: the pubkey hash index (value = head of the address's list in the linked log) and the
    linked log itself as a function from a head to the transactions of that list, newest first -/
structure AddrIndex where
  ix : IndexA
  log : Bytes → List Tx

/-- `iterBeforeUntil` for one epoch on the pinned tree: whatever list the index points to -/
def gsfaEpochNoCheck (hf : HF) (g : AddrIndex) (a : Bytes) : Ans (List Tx) :=
  match lookupA hf g.ix a with
  | .found v => .ok (g.log v)
  | .notFound => .ok []
  | _ => .err

/-- with fix C03-2: the fetcher reports the first transaction that does not mention the address and the epoch is
    left (`continue epochLoop`), exactly as if the address were not in the index -/
def gsfaEpoch (hf : HF) (g : AddrIndex) (a : Bytes) : Ans (List Tx) :=
  match gsfaEpochNoCheck hf g a with
  | .ok l => .ok (l.takeWhile fun t => t.mentions.contains a)
  | r => r

/-- the epochs are visited most recent first; an error in any epoch fails the request -/
def gsfaAll (one : AddrIndex → Ans (List Tx)) : List AddrIndex → Ans (List Tx)
  | [] => .ok []
  | g :: rest =>
    match one g with
    | .ok l =>
      match gsfaAll one rest with
      | .ok r => .ok (l ++ r)
      | e => e
    | .notFound => .notFound
    | .epochNotAvailable => .epochNotAvailable
    | .err => .err

/-- getSignaturesForAddress (no `before`/`until`): the first `limit` transactions over the loaded epochs -/
def gsfa (hf : HF) (gs : List AddrIndex) (a : Bytes) (limit : Nat) : Ans (List Tx) :=
  match gsfaAll (fun g => gsfaEpoch hf g a) gs with
  | .ok l => .ok (l.take limit)
  | r => r

/-- `before` (exclusive): everything up to and including the transaction with that signature is skipped;
    a `before` that never shows up leaves nothing -/
def dropBefore (before : Option Bytes) (l : List Tx) : List Tx :=
  match before with
  | none => l
  | some b => (l.dropWhile fun t => t.sig != b).drop 1

/-- `until` (inclusive): the listing stops after the transaction with that signature -/
def cutUpto (upto : Option Bytes) : List Tx → List Tx
  | [] => []
  | t :: r =>
    match upto with
    | none => t :: r
    | some u => if t.sig = u then [t] else t :: cutUpto upto r

/-- the paging of `iterBeforeUntil`: the `before` / `until` / `limit` state is carried across the epochs, so it acts
    on the concatenation of the per-epoch lists -/
def page (limit : Nat) (before upto : Option Bytes) (l : List Tx) : List Tx :=
  cutUpto upto ((dropBefore before l).take limit)

/-- `parseGetSignaturesForAddressParams`: a limit that is missing, zero or above 1000 means 1000 -/
def effLimit (l : Nat) : Nat := if l = 0 ∨ l > 1000 then 1000 else l

/-- getSignaturesForAddress with `limit`, `before`, `until` -/
def gsfaPaged (hf : HF) (gs : List AddrIndex) (a : Bytes) (limit : Nat) (before upto : Option Bytes) : Ans (List Tx) :=
  match gsfaAll (fun g => gsfaEpoch hf g a) gs with
  | .ok l => .ok (page limit before upto l)
  | r => r

def gsfaNoCheck (hf : HF) (gs : List AddrIndex) (a : Bytes) (limit : Nat) : Ans (List Tx) :=
  match gsfaAll (fun g => gsfaEpochNoCheck hf g a) gs with
  | .ok l => .ok (l.take limit)
  | r => r

/-! ### several epochs -/

/-- a loaded epoch (CAR as a list: the statement level) -/
structure Ep where
  num : Nat
  ix : IndexSet
  car : Bytes

def epochOfSlot (s : Nat) : Nat := s / Generated.epochLen

/-- JSON-RPC / gRPC getBlock: the epoch is chosen by `slot / 432000`
    (generic in the representation of a loaded epoch, so that the driver can keep the CAR in an array) -/
def multiGetBlockG {ε : Type} (num : ε → Nat) (get : ε → Nat → Ans (Node × Nat)) (es : List ε) (s : Nat) : Ans (Node × Nat) :=
  match es.find? (fun e => num e == epochOfSlot s) with
  | none => .epochNotAvailable
  | some e => get e s

def multiGetBlock (hf : HF) (info : Bytes → Info) (es : List Ep) (s : Nat) : Ans (Node × Nat) :=
  multiGetBlockG (·.num) (fun e => getBlock hf info e.ix e.car) es s

/-- `findEpochNumberFromSignature`: a single loaded epoch is taken without looking (no sig-exists filter is
    consulted); otherwise an epoch whose sig-exists filter has the signature and whose index answers
    (which one when several do is C18's subject; here: the first in the list). -/
def routeSigG {ε : Type} (ixOf : ε → IndexSet) (hf : HF) (es : List ε) (g : Bytes) : Option ε :=
  match es with
  | [e] => some e
  | _ => es.find? (fun e => (ixOf e).sigs.contains g && (match findCidFromSig hf (ixOf e) g with | .found _ => true | _ => false))

def multiGetTxG {ε : Type} (ixOf : ε → IndexSet) (get : ε → Bytes → Ans (Node × Bytes)) (hf : HF) (es : List ε) (g : Bytes) : Ans (Node × Bytes) :=
  match routeSigG ixOf hf es g with
  | none => .notFound
  | some e => get e g

def multiGetTx (hf : HF) (info : Bytes → Info) (es : List Ep) (g : Bytes) : Ans (Node × Bytes) :=
  multiGetTxG (·.ix) (fun e => getTx hf info e.ix e.car) hf es g

/-- a loaded epoch as the driver holds it -/
structure EpA where
  num : Nat
  ix : IndexSet
  car : Array UInt8

def EpA.toEp (e : EpA) : Ep := ⟨e.num, e.ix, e.car.toList⟩

def multiGetBlockA (hf : HF) (info : Bytes → Info) (es : List EpA) (s : Nat) : Ans (Node × Nat) :=
  multiGetBlockG (·.num) (fun e => getBlockA hf info e.ix e.car) es s

def multiGetTxA (hf : HF) (info : Bytes → Info) (es : List EpA) (g : Bytes) : Ans (Node × Bytes) :=
  multiGetTxG (·.ix) (fun e => getTxA hf info e.ix e.car) hf es g

theorem find?_map_toEp (p : Nat → IndexSet → Bool) : ∀ (es : List EpA),
    (es.map EpA.toEp).find? (fun e => p e.num e.ix) = (es.find? (fun e => p e.num e.ix)).map EpA.toEp
  | [] => rfl
  | e :: r => by
    simp only [List.map_cons, List.find?_cons, EpA.toEp]
    cases p e.num e.ix with
    | true => rfl
    | false => simpa [EpA.toEp] using find?_map_toEp p r

/-- the driver's array-based multi-epoch getBlock is the list-based one the theorems are about -/
theorem multiGetBlockA_eq (hf : HF) (info : Bytes → Info) (es : List EpA) (s : Nat) :
    multiGetBlockA hf info es s = multiGetBlock hf info (es.map EpA.toEp) s := by
  unfold multiGetBlockA multiGetBlock multiGetBlockG
  rw [find?_map_toEp (fun n _ => n == epochOfSlot s) es]
  cases es.find? (fun e => e.num == epochOfSlot s) with
  | none => rfl
  | some e =>
    simp only [Option.map_some, EpA.toEp]
    have := getBlockA_eq hf info e.ix e.car.toList s
    simpa using this

theorem routeSigG_map_toEp (hf : HF) (es : List EpA) (g : Bytes) :
    routeSigG (·.ix) hf (es.map EpA.toEp) g = (routeSigG (·.ix) hf es g).map EpA.toEp := by
  match es with
  | [] => rfl
  | [e] => rfl
  | e1 :: e2 :: r =>
    unfold routeSigG
    exact find?_map_toEp (fun _ ix => ix.sigs.contains g && (match findCidFromSig hf ix g with | .found _ => true | _ => false)) (e1 :: e2 :: r)

theorem multiGetTxA_eq (hf : HF) (info : Bytes → Info) (es : List EpA) (g : Bytes) :
    multiGetTxA hf info es g = multiGetTx hf info (es.map EpA.toEp) g := by
  unfold multiGetTxA multiGetTx multiGetTxG
  rw [routeSigG_map_toEp]
  cases routeSigG (·.ix) hf es g with
  | none => rfl
  | some e =>
    simp only [Option.map_some, EpA.toEp]
    have := getTxA_eq hf info e.ix e.car.toList g
    simpa using this

end EpochLookup

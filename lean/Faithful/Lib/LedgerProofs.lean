import Faithful.Lib.Ledger
/-! Lemmas about the Ledger model: integer casts, link lists, DataFrame; used by Properties/C11. Core Lean only. -/
set_option linter.unusedSimpArgs false
namespace Ledger
open Cbor

/-! ## integer casts -/

theorem castI64_castU64 (v : Int) (h : I64 v) : castI64 (castU64 v) = v := by
  unfold I64 at h; unfold castI64 castU64
  omega

theorem castU64_castI64 (u : Nat) (h : u < 18446744073709551616) : castU64 (castI64 u) = u := by
  unfold castI64 castU64
  split <;> omega

theorem castU64_nonneg (v : Int) (h : I64 v) (h0 : 0 ≤ v) : castU64 v = v.toNat := by
  unfold I64 at h; unfold castU64
  omega

theorem castI64_I64 (u : Nat) : I64 (castI64 u) := by
  unfold I64 castI64
  split <;> omega

/-! ## integers through the hand-written decoder -/

theorem getUint64_encInt (v : Int) (h : I64 v) : Fast.getUint64 (Ref.encInt v) = .ok (castU64 v) := by
  unfold Ref.encInt
  split
  · rename_i h0
    simp only [Fast.getUint64]
    rw [castU64_nonneg v h h0]
  · rename_i h0
    unfold I64 at h
    simp only [Fast.getUint64]
    have h1 : (-1 - v).toNat < 9223372036854775808 := by omega
    rw [if_pos h1]
    have h2 : (-1 - (((-1 - v).toNat : Nat) : Int)) = v := by omega
    rw [h2]

@[simp] theorem isNil_encInt (v : Int) : Fast.isNil (Ref.encInt v) = false := by
  unfold Ref.encInt; split <;> rfl

@[simp] theorem isNil_encLinks (l : List Cid) : Fast.isNil (Ref.encLinks l) = false := rfl
@[simp] theorem isNil_encLink (c : Cid) : Fast.isNil (Ref.encLink c) = false := rfl

/-- what the hand-written decoder leaves in a `**T` field: null is not distinguished from absent -/
def normOpt {α : Type} : OptN α → OptN α
  | some (some v) => some (some v)
  | _ => none

@[simp] theorem obsOptInt_normOpt (o : OptN Int) : obsOptInt (normOpt o) = obsOptInt o := by
  rcases o with _ | _ | v <;> rfl
@[simp] theorem obsOptU64_normOpt (o : OptN Int) : obsOptU64 (normOpt o) = obsOptU64 o := by
  rcases o with _ | _ | v <;> rfl

theorem optIntOf_fill (o : OptN Int) (h : OptN.WFInt o) :
    Fast.optIntOf (Ref.fill (Ref.encOpt Ref.encInt o)) = .ok (normOpt o) := by
  rcases o with _ | _ | v
  · rfl
  · rfl
  · simp only [Ref.encOpt, Ref.fill, Fast.optIntOf, isNil_encInt]
    have hv : I64 v := h
    simp [getUint64_encInt v hv, castI64_castU64 v hv, normOpt]

theorem reqIntOf (v : Int) (h : I64 v) :
    (do let u ← Fast.getUint64 (Ref.encInt v); Outcome.ok (castI64 u)) = Outcome.ok v := by
  simp [getUint64_encInt v h, castI64_castU64 v h]

/-! ## links -/

theorem linkOf_encLink (c : Cid) (h : Cid.WF c) : Fast.linkOf (Ref.encLink c) = .ok c := by
  unfold Cid.WF at h
  simp [Ref.encLink, Fast.linkOf, Fast.builtinTag, h]

theorem linkLoop_enc (l : List Cid) (h : CidsWF l) (acc : List Cid) :
    Fast.linkLoop acc (l.map Ref.encLink) = .ok (acc.reverse ++ l) := by
  induction l generalizing acc with
  | nil => simp [Fast.linkLoop]
  | cons c cs ih =>
    have hc : Cid.WF c := h c (by simp)
    have hcs : CidsWF cs := fun x hx => h x (by simp [hx])
    simp only [List.map_cons, Fast.linkLoop, linkOf_encLink c hc]
    rw [ih hcs]
    simp

theorem linkList_enc (l : List Cid) (h : CidsWF l) : Fast.linkList (Ref.encLinks l) = .ok l := by
  have := linkLoop_enc l h []
  simp only [Fast.linkList, Ref.encLinks, Fast.isNil]
  simpa using this

theorem untag_encInt (v : Int) : Ref.untag 8 (Ref.encInt v) = Ref.encInt v := by
  unfold Ref.encInt; split <;> rfl

theorem decInt_encInt (v : Int) (h : I64 v) : Ref.decInt (Ref.encInt v) = .ok v := by
  unfold Ref.decInt
  rw [untag_encInt]
  unfold I64 at h
  by_cases h0 : 0 ≤ v
  · simp only [Ref.encInt, if_pos h0]
    congr 1
    unfold castI64
    omega
  · simp only [Ref.encInt, if_neg h0]
    have h1 : (-1 - v).toNat < 9223372036854775808 := by omega
    rw [if_pos h1]
    congr 1
    omega

theorem decLink_encLink (c : Cid) (h : Cid.WF c) : Ref.decLink (Ref.encLink c) = .ok c := by
  unfold Cid.WF at h
  simp [Ref.encLink, Ref.decLink, Ref.untag, Cid.cast, h]

theorem mapM_decLink (l : List Cid) (h : CidsWF l) : (l.map Ref.encLink).mapM Ref.decLink = .ok l := by
  induction l with
  | nil => rfl
  | cons c cs ih =>
    have hc : Cid.WF c := h c (by simp)
    have hcs : CidsWF cs := fun x hx => h x (by simp [hx])
    simp only [List.map_cons, List.mapM_cons, decLink_encLink c hc, ih hcs]
    rfl

theorem decLinks_enc (l : List Cid) (h : CidsWF l) : Ref.decList Ref.decLink (Ref.encLinks l) = .ok l := by
  simp only [Ref.decList, Ref.encLinks, Ref.untag]
  exact mapM_decLink l h

/-! ## DataFrame -/

@[simp] theorem fill_some (v : Val) : Ref.fill (some v) = v := rfl
@[simp] theorem fill_none : Ref.fill none = .null := rfl
@[simp] theorem encOpt_none {α : Type} (f : α → Val) : Ref.encOpt f none = none := rfl
@[simp] theorem encOpt_null {α : Type} (f : α → Val) : Ref.encOpt f (some none) = some .null := rfl
@[simp] theorem encOpt_val {α : Type} (f : α → Val) (a : α) : Ref.encOpt f (some (some a)) = some (f a) := rfl

/-- the hand-written decoder turns a null `next` into a pointer to a pointer to a nil slice -/
def Fast.normNext : OptN (List Cid) → OptN (List Cid)
  | none => none
  | some none => some (some [])
  | some (some l) => some (some l)

/-- the typed value the hand-written decoder produces for the encoding of `d` -/
def Fast.normDF (d : DataFrame) : DataFrame :=
  { d with hash := normOpt d.hash, index := normOpt d.index, total := normOpt d.total, next := Fast.normNext d.next }

theorem obsNext_normNext (o : OptN (List Cid)) : obsNext (Fast.normNext o) = obsNext o := by
  rcases o with _ | _ | l <;> rfl

theorem obs_fast_normDF (d : DataFrame) : obsDataFrame (Fast.normDF d) = obsDataFrame d := by
  simp [obsDataFrame, Fast.normDF, obsNext_normNext]

theorem I64_6 : I64 6 := by decide

theorem readKind_enc (k : Int) (hk : I64 k) (rest : List Val) :
    Fast.readKind (Ref.encInt k :: rest) k = .ok k := by
  simp [Fast.readKind, Fast.get, getUint64_encInt k hk, castI64_castU64 k hk]

theorem fast_dfItems (d : DataFrame) (wf : d.WF) :
    Fast.dataFrameFromArray (Ref.dfItems d) = .ok (Fast.normDF d) := by
  obtain ⟨kind, hash, index, total, data, next⟩ := d
  obtain ⟨hk, hh, hi, ht, hn⟩ := wf
  simp only at hk hh hi ht hn
  subst hk
  rcases next with _ | _ | l
  · simp [Ref.dfItems, Ref.tupleItems', Ref.dropTrailingAbsent, Fast.dataFrameFromArray,
      readKind_enc 6 I64_6, Fast.optInt, Fast.get, optIntOf_fill, hh, hi, ht, Fast.normDF, Fast.normNext]
  · simp [Ref.dfItems, Ref.tupleItems', Ref.dropTrailingAbsent, Fast.dataFrameFromArray,
      readKind_enc 6 I64_6, Fast.optInt, Fast.get, optIntOf_fill, hh, hi, ht, Fast.normDF, Fast.normNext,
      Fast.linkList, Fast.isNil]
  · have hl : CidsWF l := hn
    simp [Ref.dfItems, Ref.tupleItems', Ref.dropTrailingAbsent, Fast.dataFrameFromArray,
      readKind_enc 6 I64_6, Fast.optInt, Fast.get, optIntOf_fill, hh, hi, ht, Fast.normDF, Fast.normNext,
      linkList_enc l hl]

/-! ## schema-driven decoder: fields -/

@[simp] theorem isNull_untag_encInt (v : Int) : Ref.isNull (Ref.untag 8 (Ref.encInt v)) = false := by
  rw [untag_encInt]; unfold Ref.encInt; split <;> rfl
@[simp] theorem isNull_untag_bytes (b : Bytes) : Ref.isNull (Ref.untag 8 (.bytes b)) = false := by
  simp [Ref.untag, Ref.isNull, Ref.encLinks, Ref.encLink]
@[simp] theorem isNull_untag_arr (l : List Val) : Ref.isNull (Ref.untag 8 (.arr l)) = false := by
  simp [Ref.untag, Ref.isNull, Ref.encLinks, Ref.encLink]
@[simp] theorem isNull_untag_encLinks (l : List Cid) : Ref.isNull (Ref.untag 8 (Ref.encLinks l)) = false := by
  simp [Ref.untag, Ref.isNull, Ref.encLinks, Ref.encLink]
@[simp] theorem isNull_untag_encLink (c : Cid) : Ref.isNull (Ref.untag 8 (Ref.encLink c)) = false := by
  simp [Ref.untag, Ref.isNull, Ref.encLinks, Ref.encLink]
@[simp] theorem isNull_untag_null : Ref.isNull (Ref.untag 8 .null) = true := by
  simp [Ref.untag, Ref.isNull, Ref.encLinks, Ref.encLink]

/-- what the schema-driven decoder produces for an optional field that is absent in the middle of a tuple: null -/
def Ref.nullify {α : Type} : OptN α → OptN α
  | none => some none
  | x => x

@[simp] theorem obsOptInt_nullify (o : OptN Int) : obsOptInt (Ref.nullify o) = obsOptInt o := by
  rcases o with _ | _ | v <;> rfl
@[simp] theorem obsOptU64_nullify (o : OptN Int) : obsOptU64 (Ref.nullify o) = obsOptU64 o := by
  rcases o with _ | _ | v <;> rfl

theorem fieldOf_fill_int (s : FieldSpec) (hs : s.nullable = true) (o : OptN Int) (h : OptN.WFInt o) :
    Ref.fieldOf s Ref.decInt (some (Ref.fill (Ref.encOpt Ref.encInt o))) = .ok (Ref.nullify o) := by
  rcases o with _ | _ | v
  · simp [Ref.fieldOf, hs, Ref.nullify]
  · simp [Ref.fieldOf, hs, Ref.nullify]
  · have hv : I64 v := h
    simp [Ref.fieldOf, decInt_encInt v hv, Ref.nullify, Except.map]

theorem fieldOf_some {α : Type} (s : FieldSpec) (dec : Val → Except String α) (v : Val)
    (hn : Ref.isNull (Ref.untag 8 v) = false) :
    Ref.fieldOf s dec (some v) = (dec v).map fun a => some (some a) := by
  simp [Ref.fieldOf, hn]

theorem fieldOf_null {α : Type} (s : FieldSpec) (dec : Val → Except String α) (hs : s.nullable = true) :
    Ref.fieldOf s dec (some .null) = .ok (some none) := by
  simp [Ref.fieldOf, hs]

theorem fieldOf_none {α : Type} (s : FieldSpec) (dec : Val → Except String α) (hs : s.optional = true) :
    Ref.fieldOf s dec none = .ok none := by
  simp [Ref.fieldOf, hs]

@[simp] theorem except_map_ok {α β : Type} (f : α → β) (a : α) : Except.map f (Except.ok a : Except String α) = .ok (f a) := rfl
@[simp] theorem isNull_arr (l : List Val) : Ref.isNull (.arr l) = false := by simp [Ref.isNull]
@[simp] theorem untag_arr (n : Nat) (l : List Val) : Ref.untag n (.arr l) = .arr l := by cases n <;> rfl
@[simp] theorem decBytes_bytes (b : Bytes) : Ref.decBytes (.bytes b) = .ok b := rfl
@[simp] theorem except_fmap_ok {α β : Type} (f : α → β) (a : α) : (f <$> (Except.ok a : Except String α)) = .ok (f a) := rfl
@[simp] theorem except_bind_ok {α β : Type} (a : α) (f : α → Except String β) : (Except.ok a >>= f) = f a := rfl

/-- the typed value the schema-driven decoder produces for the encoding of `d` -/
def Ref.normDF (d : DataFrame) : DataFrame :=
  { d with hash := Ref.nullify d.hash, index := Ref.nullify d.index, total := Ref.nullify d.total }

theorem obs_ref_normDF (d : DataFrame) : obsDataFrame (Ref.normDF d) = obsDataFrame d := by
  simp [obsDataFrame, Ref.normDF]

theorem ref_decDataFrame (d : DataFrame) (wf : d.WF) :
    Ref.decDataFrame (Ref.encDataFrame d) = .ok (Ref.normDF d) := by
  obtain ⟨kind, hash, index, total, data, next⟩ := d
  obtain ⟨hk, hh, hi, ht, hn⟩ := wf
  simp only at hk hh hi ht hn
  subst hk
  have h6 : Ref.decInt (Ref.encInt 6) = .ok 6 := decInt_encInt 6 I64_6
  rcases next with _ | _ | l
  · simp [Ref.decDataFrame, Ref.encDataFrame, Ref.dfItems, Ref.tupleItems', Ref.dropTrailingAbsent, Ref.tupleItems,
      Ref.fieldR, Ref.field, fieldOf_some, fieldOf_none, h6, Ref.normDF,
      fieldOf_fill_int S.dfHash rfl hash hh, fieldOf_fill_int S.dfIndex rfl index hi, fieldOf_fill_int S.dfTotal rfl total ht,
      S.dfNext, opt]
  · simp [Ref.decDataFrame, Ref.encDataFrame, Ref.dfItems, Ref.tupleItems', Ref.dropTrailingAbsent, Ref.tupleItems,
      Ref.fieldR, Ref.field, fieldOf_some, fieldOf_null, h6, Ref.normDF,
      fieldOf_fill_int S.dfHash rfl hash hh, fieldOf_fill_int S.dfIndex rfl index hi, fieldOf_fill_int S.dfTotal rfl total ht,
      S.dfNext, opt, Ref.nullify]
  · have hl : CidsWF l := hn
    simp [Ref.decDataFrame, Ref.encDataFrame, Ref.dfItems, Ref.tupleItems', Ref.dropTrailingAbsent, Ref.tupleItems,
      Ref.fieldR, Ref.field, fieldOf_some, h6, Ref.normDF,
      fieldOf_fill_int S.dfHash rfl hash hh, fieldOf_fill_int S.dfIndex rfl index hi, fieldOf_fill_int S.dfTotal rfl total ht,
      decLinks_enc l hl]

/-! ## small pieces shared by the per-kind lemmas -/

theorem optIntOf_encInt (v : Int) (h : I64 v) : Fast.optIntOf (Ref.encInt v) = .ok (some (some v)) := by
  simp [Fast.optIntOf, getUint64_encInt v h, castI64_castU64 v h]

@[simp] theorem optIntOf_null : Fast.optIntOf .null = .ok none := by
  simp [Fast.optIntOf, Fast.isNil]

theorem reqInt_cons0 (v : Int) (h : I64 v) (rest : List Val) (name : String) :
    Fast.reqInt (Ref.encInt v :: rest) 0 name = .ok v := by
  simp [Fast.reqInt, Fast.get, getUint64_encInt v h, castI64_castU64 v h]

theorem reqIntGet (arr : List Val) (i : Nat) (name : String) (v : Int) (h : I64 v)
    (hg : arr[i]? = some (Ref.encInt v)) : Fast.reqInt arr i name = .ok v := by
  simp [Fast.reqInt, Fast.get, hg, getUint64_encInt v h, castI64_castU64 v h]

theorem reqLinksGet (arr : List Val) (i : Nat) (name : String) (l : List Cid) (h : CidsWF l)
    (hg : arr[i]? = some (Ref.encLinks l)) : Fast.reqLinks arr i name = .ok l := by
  simp [Fast.reqLinks, Fast.get, hg, linkList_enc l h]

/-! ## shredding -/

theorem encShredding_eq (s : Shredding) : Ref.encShredding s = .arr [Ref.encInt s.entryEndIdx, Ref.encInt s.shredEndIdx] := by
  simp [Ref.encShredding, Ref.tuple, Ref.tupleItems', Ref.dropTrailingAbsent]

theorem shreddingOf_enc (s : Shredding) (h : s.WF) : Fast.shreddingOf (Ref.encShredding s) = .ok s := by
  obtain ⟨h1, h2⟩ := h
  rw [encShredding_eq]
  simp [Fast.shreddingOf, reqIntGet _ 0 _ s.entryEndIdx h1, reqIntGet _ 1 _ s.shredEndIdx h2]

theorem shreddingLoop_enc (l : List Shredding) (h : ∀ s ∈ l, s.WF) (acc : List Shredding) :
    Fast.shreddingLoop acc (l.map Ref.encShredding) = .ok (acc.reverse ++ l) := by
  induction l generalizing acc with
  | nil => simp [Fast.shreddingLoop]
  | cons c cs ih =>
    have hc : c.WF := h c (by simp)
    have hcs : ∀ s ∈ cs, s.WF := fun x hx => h x (by simp [hx])
    simp only [List.map_cons, Fast.shreddingLoop, shreddingOf_enc c hc]
    rw [ih hcs]
    simp

theorem decShredding_enc (s : Shredding) (h : s.WF) : Ref.decShredding (Ref.encShredding s) = .ok s := by
  obtain ⟨h1, h2⟩ := h
  rw [encShredding_eq]
  simp [Ref.decShredding, Ref.tupleItems, Ref.fieldR, fieldOf_some, decInt_encInt _ h1, decInt_encInt _ h2]

theorem mapM_decShredding (l : List Shredding) (h : ∀ s ∈ l, s.WF) :
    (l.map Ref.encShredding).mapM Ref.decShredding = .ok l := by
  induction l with
  | nil => rfl
  | cons c cs ih =>
    have hc : c.WF := h c (by simp)
    have hcs : ∀ s ∈ cs, s.WF := fun x hx => h x (by simp [hx])
    simp only [List.map_cons, List.mapM_cons, decShredding_enc c hc, ih hcs]
    rfl

/-! ## the seven kinds through the hand-written decoder -/

theorem I64_lit0 : I64 0 := by decide
theorem I64_lit1 : I64 1 := by decide
theorem I64_lit2 : I64 2 := by decide
theorem I64_lit3 : I64 3 := by decide
theorem I64_lit4 : I64 4 := by decide
theorem I64_lit5 : I64 5 := by decide

theorem fast_epoch (x : Epoch) (wf : (Node.epoch x).WF) :
    Fast.decode .epoch (Ref.encode (.epoch x)) = .ok (.epoch x) := by
  obtain ⟨kind, epoch, subsets⟩ := x
  obtain ⟨hk, he, hs⟩ := wf
  simp only at hk he hs
  subst hk
  simp [Fast.decode, Fast.unmarshalEpoch, Ref.encode, Ref.tuple, Ref.tupleItems', Ref.dropTrailingAbsent, Fast.topArray,
    readKind_enc 4 I64_lit4, reqIntGet _ 1 _ epoch he, reqLinksGet _ 2 _ subsets hs, Fast.checkKind, Kind.num]

theorem fast_subset (x : Subset) (wf : (Node.subset x).WF) :
    Fast.decode .subset (Ref.encode (.subset x)) = .ok (.subset x) := by
  obtain ⟨kind, first, last, blocks⟩ := x
  obtain ⟨hk, hf, hl, hb⟩ := wf
  simp only at hk hf hl hb
  subst hk
  simp [Fast.decode, Fast.unmarshalSubset, Ref.encode, Ref.tuple, Ref.tupleItems', Ref.dropTrailingAbsent, Fast.topArray,
    readKind_enc 3 I64_lit3, reqIntGet _ 1 _ first hf, reqIntGet _ 2 _ last hl, reqLinksGet _ 3 _ blocks hb,
    Fast.checkKind, Kind.num]

theorem fast_entry (x : Entry) (wf : (Node.entry x).WF) :
    Fast.decode .entry (Ref.encode (.entry x)) = .ok (.entry x) := by
  obtain ⟨kind, numHashes, hash, txs⟩ := x
  obtain ⟨hk, hn, ht⟩ := wf
  simp only at hk hn ht
  subst hk
  simp [Fast.decode, Fast.unmarshalEntry, Ref.encode, Ref.tuple, Ref.tupleItems', Ref.dropTrailingAbsent, Fast.topArray,
    readKind_enc 1 I64_lit1, reqIntGet _ 1 _ numHashes hn, reqLinksGet _ 3 _ txs ht, Fast.get,
    Fast.checkKind, Kind.num]

/-- the typed value the hand-written decoder produces for the encoding of a block -/
def Fast.normBlock (x : Block) : Block :=
  { x with smeta := { x.smeta with blockHeight := normOpt x.smeta.blockHeight } }

theorem fast_block (x : Block) (wf : (Node.block x).WF) :
    Fast.decode .block (Ref.encode (.block x)) = .ok (.block (Fast.normBlock x)) := by
  obtain ⟨kind, slot, shredding, entries, ⟨parent, blocktime, bh⟩, rewards⟩ := x
  obtain ⟨hk, hs, hsh, he, ⟨hp, hb, hbh⟩, hr⟩ := wf
  simp only at hk hs hsh he hp hb hbh hr
  subst hk
  rcases bh with _ | _ | v
  · simp [Fast.decode, Fast.unmarshalBlock, Ref.encode, Ref.tuple, Ref.tupleItems', Ref.dropTrailingAbsent, Fast.topArray,
      readKind_enc 2 I64_lit2, reqIntGet _ 1 _ slot hs, reqLinksGet _ 3 _ entries he, Fast.get,
      shreddingLoop_enc shredding hsh, Ref.encSlotMeta, Ref.metaItems, reqIntGet _ 0 _ parent hp, reqIntGet _ 1 _ blocktime hb,
      Fast.optInt, linkOf_encLink rewards hr, Fast.checkKind, Kind.num, Fast.normBlock, normOpt]
  · simp [Fast.decode, Fast.unmarshalBlock, Ref.encode, Ref.tuple, Ref.tupleItems', Ref.dropTrailingAbsent, Fast.topArray,
      readKind_enc 2 I64_lit2, reqIntGet _ 1 _ slot hs, reqLinksGet _ 3 _ entries he, Fast.get,
      shreddingLoop_enc shredding hsh, Ref.encSlotMeta, Ref.metaItems, reqIntGet _ 0 _ parent hp, reqIntGet _ 1 _ blocktime hb,
      Fast.optInt, linkOf_encLink rewards hr, Fast.checkKind, Kind.num, Fast.normBlock, normOpt]
  · have hv : I64 v := hbh
    simp [Fast.decode, Fast.unmarshalBlock, Ref.encode, Ref.tuple, Ref.tupleItems', Ref.dropTrailingAbsent, Fast.topArray,
      readKind_enc 2 I64_lit2, reqIntGet _ 1 _ slot hs, reqLinksGet _ 3 _ entries he, Fast.get,
      shreddingLoop_enc shredding hsh, Ref.encSlotMeta, Ref.metaItems, reqIntGet _ 0 _ parent hp, reqIntGet _ 1 _ blocktime hb,
      Fast.optInt, optIntOf_encInt v hv, linkOf_encLink rewards hr, Fast.checkKind, Kind.num, Fast.normBlock, normOpt]

theorem nestedDataFrameGet (arr : List Val) (i : Nat) (name : String) (d : DataFrame) (h : d.WF)
    (hg : arr[i]? = some (Ref.encDataFrame d)) : Fast.nestedDataFrame arr i name = .ok (Fast.normDF d) := by
  simp [Fast.nestedDataFrame, Fast.get, hg, Ref.encDataFrame, fast_dfItems d h]

theorem fast_rewards (x : Rewards) (wf : (Node.rewards x).WF) :
    Fast.decode .rewards (Ref.encode (.rewards x)) = .ok (.rewards { x with data := Fast.normDF x.data }) := by
  obtain ⟨kind, slot, data⟩ := x
  obtain ⟨hk, hs, hd⟩ := wf
  simp only at hk hs hd
  subst hk
  simp [Fast.decode, Fast.unmarshalRewards, Ref.encode, Ref.tuple, Ref.tupleItems', Ref.dropTrailingAbsent, Fast.topArray,
    readKind_enc 5 I64_lit5, reqIntGet _ 1 _ slot hs, nestedDataFrameGet _ 2 _ data hd, Fast.checkKind, Kind.num]

theorem fast_transaction (x : Transaction) (wf : (Node.transaction x).WF) :
    Fast.decode .transaction (Ref.encode (.transaction x)) =
      .ok (.transaction { x with data := Fast.normDF x.data, metadata := Fast.normDF x.metadata, index := normOpt x.index }) := by
  obtain ⟨kind, data, metadata, slot, index⟩ := x
  obtain ⟨hk, hd, hm, hs, hi⟩ := wf
  simp only at hk hd hm hs hi
  subst hk
  rcases index with _ | _ | v
  · simp [Fast.decode, Fast.unmarshalTransaction, Ref.encode, Ref.tuple, Ref.tupleItems', Ref.dropTrailingAbsent, Fast.topArray,
      readKind_enc 0 I64_lit0, reqIntGet _ 3 _ slot hs, nestedDataFrameGet _ 1 _ data hd, nestedDataFrameGet _ 2 _ metadata hm,
      Fast.optInt, Fast.get, Fast.checkKind, Kind.num, normOpt]
  · simp [Fast.decode, Fast.unmarshalTransaction, Ref.encode, Ref.tuple, Ref.tupleItems', Ref.dropTrailingAbsent, Fast.topArray,
      readKind_enc 0 I64_lit0, reqIntGet _ 3 _ slot hs, nestedDataFrameGet _ 1 _ data hd, nestedDataFrameGet _ 2 _ metadata hm,
      Fast.optInt, Fast.get, Fast.checkKind, Kind.num, normOpt]
  · have hv : I64 v := hi
    simp [Fast.decode, Fast.unmarshalTransaction, Ref.encode, Ref.tuple, Ref.tupleItems', Ref.dropTrailingAbsent, Fast.topArray,
      readKind_enc 0 I64_lit0, reqIntGet _ 3 _ slot hs, nestedDataFrameGet _ 1 _ data hd, nestedDataFrameGet _ 2 _ metadata hm,
      Fast.optInt, Fast.get, optIntOf_encInt v hv, Fast.checkKind, Kind.num, normOpt]

theorem fast_dataFrame (x : DataFrame) (wf : (Node.dataFrame x).WF) :
    Fast.decode .dataFrame (Ref.encode (.dataFrame x)) = .ok (.dataFrame (Fast.normDF x)) := by
  have hk : x.kind = 6 := wf.1
  simp [Fast.decode, Fast.unmarshalDataFrame, Ref.encode, Ref.encDataFrame, Fast.topArray, fast_dfItems x wf,
    Fast.checkKind, Kind.num, Fast.normDF, hk]

/-! ## the seven kinds through the schema-driven decoder -/

theorem decShreddings_enc (l : List Shredding) (h : ∀ s ∈ l, s.WF) :
    Ref.decList Ref.decShredding (.arr (l.map Ref.encShredding)) = .ok l := by
  simp only [Ref.decList, untag_arr]
  exact mapM_decShredding l h

theorem ref_epoch (x : Epoch) (wf : (Node.epoch x).WF) :
    Ref.decode .epoch (Ref.encode (.epoch x)) = .ok (.epoch x) := by
  obtain ⟨kind, epoch, subsets⟩ := x
  obtain ⟨hk, he, hs⟩ := wf
  simp only at hk he hs
  subst hk
  simp [Ref.decode, Ref.decEpoch, Ref.encode, Ref.tuple, Ref.tupleItems', Ref.dropTrailingAbsent, Ref.tupleItems,
    Ref.fieldR, fieldOf_some, decInt_encInt 4 I64_lit4, decInt_encInt epoch he, decLinks_enc subsets hs, Ref.checkKind, Kind.num]

theorem ref_subset (x : Subset) (wf : (Node.subset x).WF) :
    Ref.decode .subset (Ref.encode (.subset x)) = .ok (.subset x) := by
  obtain ⟨kind, first, last, blocks⟩ := x
  obtain ⟨hk, hf, hl, hb⟩ := wf
  simp only at hk hf hl hb
  subst hk
  simp [Ref.decode, Ref.decSubset, Ref.encode, Ref.tuple, Ref.tupleItems', Ref.dropTrailingAbsent, Ref.tupleItems,
    Ref.fieldR, fieldOf_some, decInt_encInt 3 I64_lit3, decInt_encInt first hf, decInt_encInt last hl,
    decLinks_enc blocks hb, Ref.checkKind, Kind.num]

theorem ref_entry (x : Entry) (wf : (Node.entry x).WF) :
    Ref.decode .entry (Ref.encode (.entry x)) = .ok (.entry x) := by
  obtain ⟨kind, numHashes, hash, txs⟩ := x
  obtain ⟨hk, hn, ht⟩ := wf
  simp only at hk hn ht
  subst hk
  simp [Ref.decode, Ref.decEntry, Ref.encode, Ref.tuple, Ref.tupleItems', Ref.dropTrailingAbsent, Ref.tupleItems,
    Ref.fieldR, fieldOf_some, decInt_encInt 1 I64_lit1, decInt_encInt numHashes hn, decLinks_enc txs ht,
    Ref.checkKind, Kind.num]

theorem ref_slotMeta (m : SlotMeta) (wf : m.WF) : Ref.decSlotMeta (Ref.encSlotMeta m) = .ok m := by
  obtain ⟨parent, blocktime, bh⟩ := m
  obtain ⟨hp, hb, hbh⟩ := wf
  simp only at hp hb hbh
  rcases bh with _ | _ | v
  · simp [Ref.decSlotMeta, Ref.encSlotMeta, Ref.metaItems, Ref.tupleItems', Ref.dropTrailingAbsent, Ref.tupleItems,
      Ref.fieldR, Ref.field, fieldOf_some, fieldOf_none, decInt_encInt parent hp, decInt_encInt blocktime hb, S.metaHeight, opt]
  · simp [Ref.decSlotMeta, Ref.encSlotMeta, Ref.metaItems, Ref.tupleItems', Ref.dropTrailingAbsent, Ref.tupleItems,
      Ref.fieldR, Ref.field, fieldOf_some, fieldOf_null, decInt_encInt parent hp, decInt_encInt blocktime hb, S.metaHeight, opt]
  · have hv : I64 v := hbh
    simp [Ref.decSlotMeta, Ref.encSlotMeta, Ref.metaItems, Ref.tupleItems', Ref.dropTrailingAbsent, Ref.tupleItems,
      Ref.fieldR, Ref.field, fieldOf_some, decInt_encInt parent hp, decInt_encInt blocktime hb, decInt_encInt v hv]

theorem isNull_untag_encSlotMeta (m : SlotMeta) : Ref.isNull (Ref.untag 8 (Ref.encSlotMeta m)) = false := by
  simp [Ref.encSlotMeta]

theorem isNull_untag_encDataFrame (d : DataFrame) : Ref.isNull (Ref.untag 8 (Ref.encDataFrame d)) = false := by
  simp [Ref.encDataFrame]

theorem ref_block (x : Block) (wf : (Node.block x).WF) :
    Ref.decode .block (Ref.encode (.block x)) = .ok (.block x) := by
  obtain ⟨kind, slot, shredding, entries, smeta, rewards⟩ := x
  obtain ⟨hk, hs, hsh, he, hm, hr⟩ := wf
  simp only at hk hs hsh he hm hr
  subst hk
  simp [Ref.decode, Ref.decBlock, Ref.encode, Ref.tuple, Ref.tupleItems', Ref.dropTrailingAbsent, Ref.tupleItems,
    Ref.fieldR, fieldOf_some, decInt_encInt 2 I64_lit2, decInt_encInt slot hs, decShreddings_enc shredding hsh,
    decLinks_enc entries he, isNull_untag_encSlotMeta, ref_slotMeta smeta hm, decLink_encLink rewards hr,
    Ref.checkKind, Kind.num]

theorem ref_rewards (x : Rewards) (wf : (Node.rewards x).WF) :
    Ref.decode .rewards (Ref.encode (.rewards x)) = .ok (.rewards { x with data := Ref.normDF x.data }) := by
  obtain ⟨kind, slot, data⟩ := x
  obtain ⟨hk, hs, hd⟩ := wf
  simp only at hk hs hd
  subst hk
  simp [Ref.decode, Ref.decRewards, Ref.encode, Ref.tuple, Ref.tupleItems', Ref.dropTrailingAbsent, Ref.tupleItems,
    Ref.fieldR, fieldOf_some, decInt_encInt 5 I64_lit5, decInt_encInt slot hs, isNull_untag_encDataFrame,
    ref_decDataFrame data hd, Ref.checkKind, Kind.num]

theorem ref_transaction (x : Transaction) (wf : (Node.transaction x).WF) :
    Ref.decode .transaction (Ref.encode (.transaction x)) =
      .ok (.transaction { x with data := Ref.normDF x.data, metadata := Ref.normDF x.metadata }) := by
  obtain ⟨kind, data, metadata, slot, index⟩ := x
  obtain ⟨hk, hd, hm, hs, hi⟩ := wf
  simp only at hk hd hm hs hi
  subst hk
  rcases index with _ | _ | v
  · simp [Ref.decode, Ref.decTransaction, Ref.encode, Ref.tuple, Ref.tupleItems', Ref.dropTrailingAbsent, Ref.tupleItems,
      Ref.fieldR, Ref.field, fieldOf_some, fieldOf_none, decInt_encInt 0 I64_lit0, decInt_encInt slot hs, isNull_untag_encDataFrame,
      ref_decDataFrame data hd, ref_decDataFrame metadata hm, Ref.checkKind, Kind.num, S.txIndex, opt]
  · simp [Ref.decode, Ref.decTransaction, Ref.encode, Ref.tuple, Ref.tupleItems', Ref.dropTrailingAbsent, Ref.tupleItems,
      Ref.fieldR, Ref.field, fieldOf_some, fieldOf_null, decInt_encInt 0 I64_lit0, decInt_encInt slot hs, isNull_untag_encDataFrame,
      ref_decDataFrame data hd, ref_decDataFrame metadata hm, Ref.checkKind, Kind.num, S.txIndex, opt]
  · have hv : I64 v := hi
    simp [Ref.decode, Ref.decTransaction, Ref.encode, Ref.tuple, Ref.tupleItems', Ref.dropTrailingAbsent, Ref.tupleItems,
      Ref.fieldR, Ref.field, fieldOf_some, decInt_encInt 0 I64_lit0, decInt_encInt slot hs, isNull_untag_encDataFrame,
      ref_decDataFrame data hd, ref_decDataFrame metadata hm, decInt_encInt v hv, Ref.checkKind, Kind.num]

theorem ref_dataFrame (x : DataFrame) (wf : (Node.dataFrame x).WF) :
    Ref.decode .dataFrame (Ref.encode (.dataFrame x)) = .ok (.dataFrame (Ref.normDF x)) := by
  have hk : x.kind = 6 := wf.1
  simp [Ref.decode, Ref.encode, ref_decDataFrame x wf, Ref.checkKind, Kind.num, Ref.normDF, hk]

end Ledger
